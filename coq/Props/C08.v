(** C08 — primitive steps encode exactly their defining optimality conditions.
    Property theorems only; the proofs live in Proofs/C08Records.v (generated programs = specification)
    and Proofs/C08Real.v (real executions).  The programs [prog_*] are GENERATED from
    PEPit/primitive_steps/*.py on every check (Gen/Steps.v); the specifications [*_spec] and the
    definitions of the real operations are in Spec/StepsSpec.v.

    Reading guide.  [C08_<step>_records]: what the generated program returns and records is what the
    specification says, for every start point, step size / accuracy, function and initial state
    (relations in semantic form: every inner-product space, every valuation of the leaves).
    [C08_<step>_exact]: conversely every outcome allowed by the specification is the program's outcome up
    to the representation of dictionaries (nothing stronger or weaker is recorded).
    [C08_<step>_real]: for EVERY outcome allowed by the specification (hence, by _records, for the
    program's): valuing the fresh leaves by the outputs of the real operation makes the recorded samples
    genuine and the recorded constraints true, and conversely what was recorded characterises the real
    operation.  The remaining theorems are the mathematics used (first-order optimality of the prox,
    Fermat's rule, normal cones, Bregman steps, conjugates, the primal-dual gap).

    Magnitudes.  Every theorem below is for EVERY rational step size / accuracy [gamma], [eps] : Q and every
    coefficient of the start points (arbitrarily tiny, e.g. 2^-60 or the float nearest to 1e-9, arbitrarily huge,
    zero, negative): the model prunes a coefficient only when it is exactly 0 ([Dict.prune], [nonzero]), so
    [x = x0 - gamma gx] keeps its [gamma] coordinate however small.  Nothing in the proofs depends on a magnitude.
    What ties this to the code is the correspondence stream (harness/p_c08.py), which therefore draws step sizes,
    accuracies and coefficients from tiny (2^-30 .. 2^-60, 1e-9-like decimals given to the model as exact
    rationals), moderate and huge (2^40) values and compares the decompositions of the RETURNED objects and of the
    triplets RECORDED on the functions exactly: a coefficient that vanishes in the implementation (a tolerance in a
    pruning step, say) is a concrete mismatch. *)
From Coq Require Import List QArith Reals Qreals Lra Psatz String.
From PV Require Import Base.IPS Model.Dict Model.Terms Model.StepsRT Gen.Steps Spec.Sem Spec.Classes Spec.StepsSpec
                       Proofs.DictLemmas Proofs.SemLemmas Proofs.C08Lemmas Proofs.C08Records Proofs.C08Real Proofs.C08Examples.
Import ListNotations.
Local Open Scope R_scope.

(** ** Generated programs = specification *)
Theorem C08_proximal_step_records x0 f gamma s :
  pwf x0 -> proximal_step_spec x0 f gamma s (run prog_proximal_step (mk_args [x0] [f] [gamma] []) s).
Proof. exact (proximal_step_records x0 f gamma s). Qed.
Print Assumptions C08_proximal_step_records.

Theorem C08_proximal_step_exact x0 f gamma s out :
  pwf x0 -> proximal_step_spec x0 f gamma s out ->
  out_eq out (run prog_proximal_step (mk_args [x0] [f] [gamma] []) s).
Proof. exact (proximal_step_exact x0 f gamma s out). Qed.
Print Assumptions C08_proximal_step_exact.

Theorem C08_inexact_gradient_step_absolute_records x0 f gamma eps s :
  pwf x0 -> state_wf s ->
  inexact_gradient_step_spec false x0 f gamma eps s
    (run prog_inexact_gradient_step_absolute (mk_args [x0] [f] [gamma; eps] []) s).
Proof. exact (inexact_gradient_step_absolute_records x0 f gamma eps s). Qed.
Print Assumptions C08_inexact_gradient_step_absolute_records.

Theorem C08_inexact_gradient_step_relative_records x0 f gamma eps s :
  pwf x0 -> state_wf s ->
  inexact_gradient_step_spec true x0 f gamma eps s
    (run prog_inexact_gradient_step_relative (mk_args [x0] [f] [gamma; eps] []) s).
Proof. exact (inexact_gradient_step_relative_records x0 f gamma eps s). Qed.
Print Assumptions C08_inexact_gradient_step_relative_records.

Theorem C08_inexact_gradient_step_invalid_records x0 f gamma eps s :
  inexact_gradient_step_invalid_spec x0 f s
    (run prog_inexact_gradient_step_invalid (mk_args [x0] [f] [gamma; eps] []) s).
Proof. exact (inexact_gradient_step_invalid_records x0 f gamma eps s). Qed.
Print Assumptions C08_inexact_gradient_step_invalid_records.

Theorem C08_inexact_gradient_step_dispatch :
  step_program "inexact_gradient_step" "absolute" = prog_inexact_gradient_step_absolute
  /\ step_program "inexact_gradient_step" "relative" = prog_inexact_gradient_step_relative
  /\ default_inexact_gradient_step = "absolute"%string
  /\ forall o, o <> "absolute"%string -> o <> "relative"%string ->
       step_program "inexact_gradient_step" o = prog_inexact_gradient_step_invalid.
Proof. exact (inexact_gradient_step_dispatch ). Qed.
Print Assumptions C08_inexact_gradient_step_dispatch.

Theorem C08_inexact_gradient_step_exact relative x0 f gamma eps s out :
  pwf x0 -> state_wf s -> inexact_gradient_step_spec relative x0 f gamma eps s out ->
  out_eq out (run (if relative then prog_inexact_gradient_step_relative else prog_inexact_gradient_step_absolute)
                  (mk_args [x0] [f] [gamma; eps] []) s).
Proof. exact (inexact_gradient_step_exact relative x0 f gamma eps s out). Qed.
Print Assumptions C08_inexact_gradient_step_exact.

Theorem C08_exact_linesearch_step_records x0 f dirs s :
  pwf x0 -> Forall pwf dirs -> state_wf s ->
  exact_linesearch_step_spec x0 f dirs s
    (run prog_exact_linesearch_step (mk_args [x0] [f] [] dirs) s).
Proof. exact (exact_linesearch_step_records x0 f dirs s). Qed.
Print Assumptions C08_exact_linesearch_step_records.

Theorem C08_exact_linesearch_step_exact x0 f dirs s out :
  pwf x0 -> Forall pwf dirs -> state_wf s -> exact_linesearch_step_spec x0 f dirs s out ->
  out_eq out (run prog_exact_linesearch_step (mk_args [x0] [f] [] dirs) s).
Proof. exact (exact_linesearch_step_exact x0 f dirs s out). Qed.
Print Assumptions C08_exact_linesearch_step_exact.

Theorem C08_linear_optimization_step_records dir ind s :
  pwf dir ->
  linear_optimization_step_spec dir ind s (run prog_linear_optimization_step (mk_args [dir] [ind] [] []) s).
Proof. exact (linear_optimization_step_records dir ind s). Qed.
Print Assumptions C08_linear_optimization_step_records.

Theorem C08_linear_optimization_step_exact dir ind s out :
  pwf dir -> linear_optimization_step_spec dir ind s out ->
  out_eq out (run prog_linear_optimization_step (mk_args [dir] [ind] [] []) s).
Proof. exact (linear_optimization_step_exact dir ind s out). Qed.
Print Assumptions C08_linear_optimization_step_exact.

Theorem C08_bregman_gradient_step_records gx0 sx0 h gamma s :
  pwf gx0 -> pwf sx0 ->
  bregman_gradient_step_spec gx0 sx0 h gamma s
    (run prog_bregman_gradient_step (mk_args [gx0; sx0] [h] [gamma] []) s).
Proof. exact (bregman_gradient_step_records gx0 sx0 h gamma s). Qed.
Print Assumptions C08_bregman_gradient_step_records.

Theorem C08_bregman_gradient_step_exact gx0 sx0 h gamma s out :
  pwf gx0 -> pwf sx0 -> bregman_gradient_step_spec gx0 sx0 h gamma s out ->
  out_eq out (run prog_bregman_gradient_step (mk_args [gx0; sx0] [h] [gamma] []) s).
Proof. exact (bregman_gradient_step_exact gx0 sx0 h gamma s out). Qed.
Print Assumptions C08_bregman_gradient_step_exact.

Theorem C08_bregman_proximal_step_records sx0 h f gamma s :
  pwf sx0 ->
  bregman_proximal_step_spec sx0 h f gamma s
    (run prog_bregman_proximal_step (mk_args [sx0] [h; f] [gamma] []) s).
Proof. exact (bregman_proximal_step_records sx0 h f gamma s). Qed.
Print Assumptions C08_bregman_proximal_step_records.

Theorem C08_bregman_proximal_step_exact sx0 h f gamma s out :
  pwf sx0 -> bregman_proximal_step_spec sx0 h f gamma s out ->
  out_eq out (run prog_bregman_proximal_step (mk_args [sx0] [h; f] [gamma] []) s).
Proof. exact (bregman_proximal_step_exact sx0 h f gamma s out). Qed.
Print Assumptions C08_bregman_proximal_step_exact.

Theorem C08_epsilon_subgradient_step_records x0 f gamma s :
  pwf x0 -> state_wf s ->
  epsilon_subgradient_step_spec x0 f gamma s
    (run prog_epsilon_subgradient_step (mk_args [x0] [f] [gamma] []) s).
Proof. exact (epsilon_subgradient_step_records x0 f gamma s). Qed.
Print Assumptions C08_epsilon_subgradient_step_records.

Theorem C08_epsilon_subgradient_step_exact x0 f gamma s out :
  pwf x0 -> state_wf s -> epsilon_subgradient_step_spec x0 f gamma s out ->
  out_eq out (run prog_epsilon_subgradient_step (mk_args [x0] [f] [gamma] []) s).
Proof. exact (epsilon_subgradient_step_exact x0 f gamma s out). Qed.
Print Assumptions C08_epsilon_subgradient_step_exact.

Theorem C08_pd_gap_identity {E : ips} (gamma : R) (x0 x : E) fx (v w : E) fw :
  pd_gap gamma x0 x fx v w fw
  = 1 / 2 * nrm2 (vadd (vsub x x0) (vscal gamma v)) + gamma * (fx - fw - inner v (vsub x w)).
Proof. exact (pd_gap_identity gamma x0 x fx v w fw). Qed.
Print Assumptions C08_pd_gap_identity.

Theorem C08_inexact_proximal_step_I_records x0 f gamma s :
  pwf x0 ->
  inexact_proximal_step_I_spec x0 f gamma s
    (run prog_inexact_proximal_step_PD_gapI (mk_args [x0] [f] [gamma] []) s).
Proof. exact (inexact_proximal_step_I_records x0 f gamma s). Qed.
Print Assumptions C08_inexact_proximal_step_I_records.

Theorem C08_inexact_proximal_step_I_exact x0 f gamma s out :
  pwf x0 -> inexact_proximal_step_I_spec x0 f gamma s out ->
  out_eq out (run prog_inexact_proximal_step_PD_gapI (mk_args [x0] [f] [gamma] []) s).
Proof. exact (inexact_proximal_step_I_exact x0 f gamma s out). Qed.
Print Assumptions C08_inexact_proximal_step_I_exact.

Theorem C08_inexact_proximal_step_II_records x0 f gamma s :
  pwf x0 ->
  inexact_proximal_step_II_spec x0 f gamma s
    (run prog_inexact_proximal_step_PD_gapII (mk_args [x0] [f] [gamma] []) s).
Proof. exact (inexact_proximal_step_II_records x0 f gamma s). Qed.
Print Assumptions C08_inexact_proximal_step_II_records.

Theorem C08_inexact_proximal_step_II_exact x0 f gamma s out :
  pwf x0 -> inexact_proximal_step_II_spec x0 f gamma s out ->
  out_eq out (run prog_inexact_proximal_step_PD_gapII (mk_args [x0] [f] [gamma] []) s).
Proof. exact (inexact_proximal_step_II_exact x0 f gamma s out). Qed.
Print Assumptions C08_inexact_proximal_step_II_exact.

Theorem C08_inexact_proximal_step_III_records x0 f gamma s :
  pwf x0 -> ~ (gamma == 0)%Q ->
  inexact_proximal_step_III_spec x0 f gamma s
    (run prog_inexact_proximal_step_PD_gapIII (mk_args [x0] [f] [gamma] []) s).
Proof. exact (inexact_proximal_step_III_records x0 f gamma s). Qed.
Print Assumptions C08_inexact_proximal_step_III_records.

Theorem C08_inexact_proximal_step_III_exact x0 f gamma s out :
  pwf x0 -> ~ (gamma == 0)%Q -> inexact_proximal_step_III_spec x0 f gamma s out ->
  out_eq out (run prog_inexact_proximal_step_PD_gapIII (mk_args [x0] [f] [gamma] []) s).
Proof. exact (inexact_proximal_step_III_exact x0 f gamma s out). Qed.
Print Assumptions C08_inexact_proximal_step_III_exact.

Theorem C08_inexact_proximal_step_III_zero_records x0 f gamma s :
  (gamma == 0)%Q ->
  inexact_proximal_step_III_zero_spec s
    (run prog_inexact_proximal_step_PD_gapIII (mk_args [x0] [f] [gamma] []) s).
Proof. exact (inexact_proximal_step_III_zero_records x0 f gamma s). Qed.
Print Assumptions C08_inexact_proximal_step_III_zero_records.

Theorem C08_inexact_proximal_step_invalid_records x0 f gamma s :
  inexact_proximal_step_invalid_spec s
    (run prog_inexact_proximal_step_invalid (mk_args [x0] [f] [gamma] []) s).
Proof. exact (inexact_proximal_step_invalid_records x0 f gamma s). Qed.
Print Assumptions C08_inexact_proximal_step_invalid_records.

Theorem C08_inexact_proximal_step_dispatch :
  step_program "inexact_proximal_step" "PD_gapI" = prog_inexact_proximal_step_PD_gapI
  /\ step_program "inexact_proximal_step" "PD_gapII" = prog_inexact_proximal_step_PD_gapII
  /\ step_program "inexact_proximal_step" "PD_gapIII" = prog_inexact_proximal_step_PD_gapIII
  /\ default_inexact_proximal_step = "PD_gapII"%string
  /\ forall o, o <> "PD_gapI"%string -> o <> "PD_gapII"%string -> o <> "PD_gapIII"%string ->
       step_program "inexact_proximal_step" o = prog_inexact_proximal_step_invalid.
Proof. exact (inexact_proximal_step_dispatch ). Qed.
Print Assumptions C08_inexact_proximal_step_dispatch.

(** ** Real executions
    (the optimality lemmas of the line search and of the two Bregman steps used by the [_real] theorems are
    Proofs/C08Real.v: linesearch_orthogonality / _converse, bregman_gradient_optimality / _converse,
    bregman_prox_optimality / _converse; their content is restated inside the [_real] theorems) *)
Theorem C08_prox_optimality {E : ips} (F : @fn E) gamma x0 x :
  convex_fn F -> 0 < gamma -> is_prox F gamma x0 x ->
  subgrad F x (vscal (1 / gamma) (vsub x0 x)).
Proof. exact (prox_optimality F gamma x0 x). Qed.
Print Assumptions C08_prox_optimality.

Theorem C08_prox_converse {E : ips} (F : @fn E) gamma x0 x g :
  0 <= gamma -> subgrad F x g -> veq x (vsub x0 (vscal gamma g)) -> is_prox F gamma x0 x.
Proof. exact (prox_converse F gamma x0 x g). Qed.
Print Assumptions C08_prox_converse.

Theorem C08_proximal_step_real x0 f gamma s out :
  below (pt_ctr s) x0 -> proximal_step_spec x0 f gamma s out ->
  exists x,
    out = (ROk [RP x; RP (leafP (pt_ctr s)); RX (leafX (ex_ctr s))],
           add_sample f (x, leafP (pt_ctr s), leafX (ex_ctr s)) (bump 1 1 s))
    /\ (* a real proximal point, with its subgradient and value, satisfies what was recorded *)
       (forall (E : ips) (F : @fn E) (rho : nat -> E) (phi : nat -> R) (xr : E),
          convex_fn F -> fn_ext F -> 0 < Q2R gamma -> is_prox F (Q2R gamma) (evalP rho x0) xr ->
          let rho' := upd (pt_ctr s) (vscal (1 / Q2R gamma) (vsub (evalP rho x0) xr)) rho in
          let phi' := upd (ex_ctr s) (val F xr) phi in
          veq (evalP rho' x) xr
          /\ genuine_sub F (sem_smp rho' phi' (x, leafP (pt_ctr s), leafX (ex_ctr s))))
    /\ (* and whatever satisfies what was recorded is the proximal point *)
       (forall (E : ips) (F : @fn E) (rho : nat -> E) (phi : nat -> R),
          fn_ext F -> 0 <= Q2R gamma ->
          genuine_sub F (sem_smp rho phi (x, leafP (pt_ctr s), leafX (ex_ctr s))) ->
          is_prox F (Q2R gamma) (evalP rho x0) (evalP rho x)).
Proof. exact (proximal_step_real x0 f gamma s out). Qed.
Print Assumptions C08_proximal_step_real.

Theorem C08_inexact_gradient_step_real relative x0 f gamma eps s out :
  state_below s -> below (pt_ctr s) x0 ->
  inexact_gradient_step_spec relative x0 f gamma eps s out ->
  let '(g, fx0, _, s1) := oracle_leaf f x0 s in
  let d := pt_ctr s1 in
  exists x c,
    out = (ROk [RP x; RP (leafP d); RX fx0], add_cons f c (bump 1 0 s1))
    /\ (* a real direction within the accuracy, with the real gradient, satisfies what was recorded *)
       (forall (E : ips) (F : @dfn E) (rho : nat -> E) (phi : nat -> R) (dr : E),
          veq (evalP rho g) (dgrad F (evalP rho x0)) ->
          nrm2 (vsub dr (dgrad F (evalP rho x0)))
            <= Q2R eps ^ 2 * (if relative then nrm2 (dgrad F (evalP rho x0)) else 1) ->
          let rho' := upd d dr rho in
          holds rho' phi c
          /\ veq (evalP rho' x) (vsub (evalP rho x0) (vscal (Q2R gamma) dr))
          /\ evalP rho' g = evalP rho g /\ evalP rho' x0 = evalP rho x0)
    /\ (* whatever satisfies what was recorded is such a step *)
       (forall (E : ips) (F : @dfn E) (rho : nat -> E) (phi : nat -> R),
          veq (evalP rho g) (dgrad F (evalP rho x0)) -> holds rho phi c ->
          nrm2 (vsub (rho d) (dgrad F (evalP rho x0)))
            <= Q2R eps ^ 2 * (if relative then nrm2 (dgrad F (evalP rho x0)) else 1)
          /\ veq (evalP rho x) (vsub (evalP rho x0) (vscal (Q2R gamma) (rho d)))).
Proof. exact (inexact_gradient_step_real relative x0 f gamma eps s out). Qed.
Print Assumptions C08_inexact_gradient_step_real.

Theorem C08_fermat_line {E : ips} (F : @dfn E) x d :
  gateaux F -> (forall t, dval F x <= dval F (vadd x (vscal t d))) -> inner (dgrad F x) d = 0.
Proof. exact (fermat_line F x d). Qed.
Print Assumptions C08_fermat_line.

Theorem C08_exact_linesearch_step_real x0 f dirs s out :
  state_below s -> below (pt_ctr s) x0 -> Forall (below (pt_ctr s)) dirs ->
  exact_linesearch_step_spec x0 f dirs s out ->
  let n := pt_ctr s in let m := ex_ctr s in
  let smp := (leafP n, leafP (S n), leafX m) in
  exists c0 cs,
    out = (ROk [RP (leafP n); RP (leafP (S n)); RX (leafX m)],
           add_conss f (c0 :: cs) (add_sample f smp (bump 2 1 s)))
    /\ (* a real line/span search point, with its gradient and value, satisfies what was recorded *)
       (forall (E : ips) (F : @dfn E) (rho : nat -> E) (phi : nat -> R) (xr : E),
          gateaux F -> dfn_ext F ->
          is_linesearch F (evalP rho x0) (map (evalP rho) dirs) xr ->
          let rho' := upd (S n) (dgrad F xr) (upd n xr rho) in
          let phi' := upd m (dval F xr) phi in
          genuine_grad F (sem_smp rho' phi' smp) /\ Forall (holds rho' phi') (c0 :: cs))
    /\ (* what was recorded, plus x - x0 in the span (the part the step documents as relaxed), is a
          real line/span search on a convex differentiable function *)
       (forall (E : ips) (F : @dfn E) (rho : nat -> E) (phi : nat -> R),
          grad_convex F -> dfn_ext F ->
          genuine_grad F (sem_smp rho phi smp) -> Forall (holds rho phi) (c0 :: cs) ->
          in_span (vsub (rho n) (evalP rho x0)) (map (evalP rho) dirs) ->
          is_linesearch F (evalP rho x0) (map (evalP rho) dirs) (rho n)).
Proof. exact (exact_linesearch_step_real x0 f dirs s out). Qed.
Print Assumptions C08_exact_linesearch_step_real.

Theorem C08_linopt_iff_normal {E : ips} (F : @fn E) dir x :
  (forall z, dom F z -> val F z = 0) ->
  (is_linopt F dir x <-> subgrad F x (vneg dir)).
Proof. exact (linopt_iff_normal F dir x). Qed.
Print Assumptions C08_linopt_iff_normal.

Theorem C08_linear_optimization_step_real dir ind s out :
  below (pt_ctr s) dir -> linear_optimization_step_spec dir ind s out ->
  exists gx,
    out = (ROk [RP (leafP (pt_ctr s)); RP gx; RX (leafX (ex_ctr s))],
           add_sample ind (leafP (pt_ctr s), gx, leafX (ex_ctr s)) (bump 1 1 s))
    /\ (forall (E : ips) (F : @fn E) (rho : nat -> E) (phi : nat -> R) (xr : E),
          (forall z, dom F z -> val F z = 0) -> fn_ext F -> is_linopt F (evalP rho dir) xr ->
          let rho' := upd (pt_ctr s) xr rho in
          let phi' := upd (ex_ctr s) 0 phi in
          genuine_sub F (sem_smp rho' phi' (leafP (pt_ctr s), gx, leafX (ex_ctr s))))
    /\ (forall (E : ips) (F : @fn E) (rho : nat -> E) (phi : nat -> R),
          (forall z, dom F z -> val F z = 0) -> fn_ext F ->
          genuine_sub F (sem_smp rho phi (leafP (pt_ctr s), gx, leafX (ex_ctr s))) ->
          is_linopt F (evalP rho dir) (rho (pt_ctr s))).
Proof. exact (linear_optimization_step_real dir ind s out). Qed.
Print Assumptions C08_linear_optimization_step_real.

Theorem C08_bregman_gradient_step_real gx0 sx0 h gamma s out :
  below (pt_ctr s) gx0 -> below (pt_ctr s) sx0 -> bregman_gradient_step_spec gx0 sx0 h gamma s out ->
  let n := pt_ctr s in let m := ex_ctr s in
  exists sx,
    out = (ROk [RP (leafP n); RP sx; RX (leafX m)], add_sample h (leafP n, sx, leafX m) (bump 1 1 s))
    /\ (forall (E : ips) (H : @dfn E) (rho : nat -> E) (phi : nat -> R) (xr : E),
          gateaux H -> dfn_ext H ->
          is_bregman_gradient H (Q2R gamma) (evalP rho gx0) (evalP rho sx0) xr ->
          genuine_grad H (sem_smp (upd n xr rho) (upd m (dval H xr) phi) (leafP n, sx, leafX m)))
    /\ (forall (E : ips) (H : @dfn E) (rho : nat -> E) (phi : nat -> R),
          grad_convex H -> dfn_ext H -> genuine_grad H (sem_smp rho phi (leafP n, sx, leafX m)) ->
          is_bregman_gradient H (Q2R gamma) (evalP rho gx0) (evalP rho sx0) (rho n)).
Proof. exact (bregman_gradient_step_real gx0 sx0 h gamma s out). Qed.
Print Assumptions C08_bregman_gradient_step_real.

Theorem C08_bregman_proximal_step_real sx0 h f gamma s out :
  below (pt_ctr s) sx0 -> bregman_proximal_step_spec sx0 h f gamma s out ->
  let n := pt_ctr s in let m := ex_ctr s in
  exists sx,
    out = (ROk [RP (leafP n); RP sx; RX (leafX (S m)); RP (leafP (S n)); RX (leafX m)],
           add_sample h (leafP n, sx, leafX (S m)) (add_sample f (leafP n, leafP (S n), leafX m) (bump 2 2 s)))
    /\ (forall (E : ips) (F : @fn E) (H : @dfn E) (rho : nat -> E) (phi : nat -> R) (xr : E),
          convex_fn F -> fn_ext F -> gateaux H -> dfn_ext H -> 0 < Q2R gamma ->
          is_bregman_prox F H (Q2R gamma) (evalP rho sx0) xr ->
          let rho' := upd (S n) (vscal (1 / Q2R gamma) (vsub (evalP rho sx0) (dgrad H xr))) (upd n xr rho) in
          let phi' := upd (S m) (dval H xr) (upd m (val F xr) phi) in
          genuine_sub F (sem_smp rho' phi' (leafP n, leafP (S n), leafX m))
          /\ genuine_grad H (sem_smp rho' phi' (leafP n, sx, leafX (S m))))
    /\ (forall (E : ips) (F : @fn E) (H : @dfn E) (rho : nat -> E) (phi : nat -> R),
          fn_ext F -> grad_convex H -> dfn_ext H -> 0 <= Q2R gamma ->
          genuine_sub F (sem_smp rho phi (leafP n, leafP (S n), leafX m)) ->
          genuine_grad H (sem_smp rho phi (leafP n, sx, leafX (S m))) ->
          is_bregman_prox F H (Q2R gamma) (evalP rho sx0) (rho n)).
Proof. exact (bregman_proximal_step_real sx0 h f gamma s out). Qed.
Print Assumptions C08_bregman_proximal_step_real.

Theorem C08_conjugate_attained {E : ips} (F : @fn E) w v :
  subgrad F w v -> forall z, dom F z -> inner v z - val F z <= inner v w - val F w.
Proof. exact (conjugate_attained F w v). Qed.
Print Assumptions C08_conjugate_attained.

Theorem C08_eps_subgrad_from_record {E : ips} (F : @fn E) eps x0 y g :
  dom F x0 -> subgrad F y g ->
  val F x0 + (inner g y - val F y) - inner g x0 <= eps -> eps_subgrad F eps x0 g.
Proof. exact (eps_subgrad_from_record F eps x0 y g). Qed.
Print Assumptions C08_eps_subgrad_from_record.

Theorem C08_eps_subgrad_to_record {E : ips} (F : @fn E) eps x0 y g :
  eps_subgrad F eps x0 g -> subgrad F y g ->
  val F x0 + (inner g y - val F y) - inner g x0 <= eps.
Proof. exact (eps_subgrad_to_record F eps x0 y g). Qed.
Print Assumptions C08_eps_subgrad_to_record.

Theorem C08_epsilon_subgradient_step_real x0 f gamma s out :
  epsilon_subgradient_step_spec x0 f gamma s out ->
  let g0 := pt_ctr s in
  let '(f0, _, s1) := value_leaf f x0 (bump 1 0 s) in
  let eps := ex_ctr s1 in let y := pt_ctr s1 in let fy := S (ex_ctr s1) in
  exists x c,
    out = (ROk [RP x; RP (leafP g0); RX f0; RX (leafX eps)],
           add_cons f c (add_sample f (leafP y, leafP g0, leafX fy) (bump 1 2 s1)))
    /\ (* recorded => real *)
       (forall (E : ips) (F : @fn E) (rho : nat -> E) (phi : nat -> R),
          fn_ext F -> dom F (evalP rho x0) -> evalE rho phi f0 = val F (evalP rho x0) ->
          genuine_sub F (sem_smp rho phi (leafP y, leafP g0, leafX fy)) -> holds rho phi c ->
          eps_subgrad F (phi eps) (evalP rho x0) (rho g0)
          /\ veq (evalP rho x) (vsub (evalP rho x0) (vscal (Q2R gamma) (rho g0))))
    /\ (* real => recorded, when the conjugate is attained: a point yr with g0 a subgradient at yr *)
       (forall (E : ips) (F : @fn E) (rho : nat -> E) (phi : nat -> R),
          evalE rho phi f0 = val F (evalP rho x0) ->
          eps_subgrad F (phi eps) (evalP rho x0) (rho g0) -> subgrad F (rho y) (rho g0) ->
          phi fy = val F (rho y) -> holds rho phi c).
Proof. exact (epsilon_subgradient_step_real x0 f gamma s out). Qed.
Print Assumptions C08_epsilon_subgradient_step_real.

Theorem C08_pd_gap_nonneg {E : ips} (F : @fn E) gamma (x0 x v w : E) :
  0 <= gamma -> dom F x -> subgrad F w v ->
  0 <= pd_gap gamma x0 x (val F x) v w (val F w).
Proof. exact (pd_gap_nonneg F gamma x0 x v w). Qed.
Print Assumptions C08_pd_gap_nonneg.

Theorem C08_pd_gap_zero_is_prox {E : ips} (F : @fn E) gamma (x0 x v w : E) :
  0 < gamma -> dom F x -> subgrad F w v ->
  pd_gap gamma x0 x (val F x) v w (val F w) <= 0 -> is_prox F gamma x0 x.
Proof. exact (pd_gap_zero_is_prox F gamma x0 x v w). Qed.
Print Assumptions C08_pd_gap_zero_is_prox.

(** ** Non-vacuity: the hypotheses are satisfiable on non-trivial inputs *)

(** a combination start point, a state in which function 0 (reuse_gradient) was already evaluated on it *)
Definition ex_x0 : pdict := [(0%nat, 1%Q); (1%nat, (-1 # 2)%Q)].
Definition ex_state : state :=
  mk_state 2 1 [mkFrec true [(ex_x0, [(1%nat, 2%Q)], [(KF 0, 1%Q)])] []; mkFrec false [] []].

Example ex_hypotheses :
  pwf ex_x0 /\ state_wf ex_state /\ state_below ex_state /\ below (pt_ctr ex_state) ex_x0.
Proof.
  assert (Hx : pwf ex_x0) by (repeat constructor; cbn; intuition discriminate).
  split; [exact Hx|]. split; [|split].
  - intros f. destruct f as [|[|f]]; unfold ex_state, mk_state; cbn [funs nth f_points].
    + constructor; [|constructor]. split; [exact Hx|split]; repeat constructor; cbn; intuition discriminate.
    + constructor.
    + destruct f; constructor.
  - intros f x g v. destruct f as [|[|f]]; unfold ex_state, mk_state; cbn [funs nth f_points pt_ctr].
    + intros [[= <- <- <-]|[]]. split; intros k; cbn; intuition (subst; lia).
    + intros [].
    + destruct f; intros [].
  - intros k; cbn; intuition (subst; lia).
Qed.

(** the proximal step on function 1: one new leaf point (2), one new leaf expression (1) *)
Example ex_prox_runs :
  dump_result (fst (run prog_proximal_step (mk_args [ex_x0] [1%nat] [(1 # 2)%Q] []) ex_state))
  = dump_result (ROk [RP [(0%nat, 1%Q); (1%nat, (-1 # 2)%Q); (2%nat, (-1 # 2)%Q)]; RP (leafP 2); RX (leafX 1)])
  /\ List.length (f_points (funs (snd (run prog_proximal_step (mk_args [ex_x0] [1%nat] [(1 # 2)%Q] []) ex_state)) 1%nat)) = 1%nat.
Proof. split; vm_compute; reflexivity. Qed.

(** the inexact gradient step on function 0 re-uses the recorded gradient: no new sample, one constraint *)
Example ex_inexact_gradient_reuses :
  let out := run prog_inexact_gradient_step_relative (mk_args [ex_x0] [0%nat] [1%Q; (1 # 4)%Q] []) ex_state in
  List.length (f_points (funs (snd out) 0%nat)) = 1%nat /\ List.length (f_cons (funs (snd out) 0%nat)) = 1%nat
  /\ pt_ctr (snd out) = 3%nat /\ ex_ctr (snd out) = 1%nat.
Proof. vm_compute. repeat split. Qed.

(** exact line search with two directions records three equalities and one new sample *)
Example ex_linesearch_runs :
  let out := run prog_exact_linesearch_step (mk_args [ex_x0] [1%nat] [] [leafP 0; leafP 1]) ex_state in
  List.length (f_cons (funs (snd out) 1%nat)) = 3%nat /\ List.length (f_points (funs (snd out) 1%nat)) = 1%nat.
Proof. vm_compute. split; reflexivity. Qed.

(** real operations on the real line: F(x) = x^2/2, prox_{1 F}(2) = 1 *)
Definition ex_F : @fn R1 := mkFn (E := R1) (fun _ => True) (fun x : R => x * x / 2).
Example ex_is_prox : convex_fn ex_F /\ fn_ext ex_F /\ is_prox ex_F 1 (2 : R1) (1 : R1).
Proof.
  split; [|split].
  - intros x y t _ _ Ht. split; [exact Logic.I|]. unfold seg, vsub, vneg. cbn. apply ex_cvx_sq. exact Ht.
  - intros a b Hab. apply ex_veq_R1 in Hab. subst. tauto.
  - split; [exact Logic.I|]. intros y _. unfold nrm2, vsub, vneg. cbn. apply ex_prox_sq.
Qed.

(** linear optimisation over the interval [-1, 1] in direction 1: the minimiser is -1 *)
Definition ex_box : @fn R1 := mkFn (E := R1) (fun x : R => -1 <= x <= 1) (fun _ => 0).
Example ex_is_linopt : (forall z, dom ex_box z -> val ex_box z = 0) /\ fn_ext ex_box /\ is_linopt ex_box (1 : R1) (-1 : R1).
Proof.
  split; [reflexivity|]. split.
  - intros a b Hab. apply ex_veq_R1 in Hab. subst. tauto.
  - split; [cbn; lra|]. intros y Hy. cbn in *. lra.
Qed.

(** exact line search of the differentiable F(x) = x^2/2 from 3 along direction 1: the minimiser is 0 *)
Definition ex_D : @dfn R1 := mkD (E := R1) (fun x : R => x * x / 2) (fun x : R => x).
Example ex_is_linesearch :
  gateaux ex_D /\ dfn_ext ex_D /\ grad_convex ex_D /\ is_linesearch ex_D (3 : R1) [(1 : R1)] (0 : R1).
Proof.
  split; [|split; [|split]].
  - intros x d eps He. exists (eps / (d * d + 1)).
    assert (Hd : 0 < d * d + 1) by nra.
    split; [apply Rdiv_lt_0_compat; lra|]. intros t Ht. cbn.
    replace ((x + t * d) * (x + t * d) / 2 - x * x / 2 - t * (x * d)) with (t * t * (d * d) / 2) by field.
    assert (Hpos : 0 <= t * t * (d * d) / 2) by nra.
    rewrite (Rabs_pos_eq _ Hpos).
    assert (Ha : Rabs t * (d * d + 1) < eps).
    { apply Rmult_lt_compat_r with (r := d * d + 1) in Ht; [|exact Hd].
      unfold Rdiv in Ht. rewrite Rmult_assoc, Rinv_l, Rmult_1_r in Ht by lra. exact Ht. }
    pose proof (Rabs_pos t) as Hp. assert (Hsq : t * t = Rabs t * Rabs t) by (rewrite <- Rabs_mult; symmetry; apply Rabs_pos_eq; nra).
    rewrite Hsq. nra.
  - intros a b Hab. apply ex_veq_R1 in Hab. subst. split; [reflexivity|intro; reflexivity].
  - intros x y. unfold vsub, vneg. cbn. apply ex_gc.
  - split.
    + exists [-3]. split; [reflexivity|]. intros w. unfold vsub, vneg. cbn. lra.
    + intros y _. cbn. apply ex_min.
Qed.
