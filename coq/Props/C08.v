(** C08 — primitive steps encode exactly their defining optimality conditions.
    Property theorems only; the proofs live in Proofs/C08Records.v (generated programs = specification)
    and Proofs/C08Real.v (real executions).  The programs [prog_*] are GENERATED from
    PEPit/primitive_steps/*.py on every check (Gen/Steps.v); the specifications [*_spec] and the
    definitions of the real operations are in Spec/StepsSpec.v.

    Reading guide.  [C08_<step>_records]: what the generated program returns and records is what the
    specification says, for every start point, step size / accuracy, function and initial state
    (relations in semantic form: every inner-product space, every valuation of the leaves).
    [C08_<step>_exact]: conversely every outcome allowed by the specification is the program's outcome up
    to the representation of dictionaries (nothing stronger or weaker is recorded).
    [C08_<step>_real]: for EVERY outcome allowed by the specification (hence, by _records, for the
    program's): valuing the fresh leaves by the outputs of the real operation makes the recorded samples
    genuine and the recorded constraints true, and conversely what was recorded characterises the real
    operation.  The remaining theorems are the mathematics used (first-order optimality of the prox,
    Fermat's rule, normal cones, Bregman steps, conjugates, the primal-dual gap).

    Magnitudes.  Every theorem below is for EVERY rational step size / accuracy [gamma], [eps] : Q and every
    coefficient of the start points (arbitrarily tiny, e.g. 2^-60 or the float nearest to 1e-9, arbitrarily huge,
    zero, negative): the model prunes a coefficient only when it is exactly 0 ([Dict.prune], [nonzero]), so
    [x = x0 - gamma gx] keeps its [gamma] coordinate however small.  Nothing in the proofs depends on a magnitude.
    What ties this to the code is the correspondence stream (harness/p_c08.py), which therefore draws step sizes,
    accuracies and coefficients from tiny (2^-30 .. 2^-60, 1e-9-like decimals given to the model as exact
    rationals), moderate and huge (2^40) values and compares the decompositions of the RETURNED objects and of the
    triplets RECORDED on the functions exactly: a coefficient that vanishes in the implementation (a tolerance in a
    pruning step, say) is a concrete mismatch. *)
From Coq Require Import List QArith Reals Qreals Lra Psatz String.
From PV Require Import Base.IPS Model.Dict Model.Terms Model.StepsRT Gen.Steps Spec.Sem Spec.Classes Spec.StepsSpec
                       Proofs.DictLemmas Proofs.SemLemmas Proofs.C08Lemmas Proofs.C08Records Proofs.C08Real Proofs.C08Examples.
Import ListNotations.
Local Open Scope R_scope.

(** ** Generated programs = specification *)
Theorem C08_proximal_step_records x0 f gamma s :
  pwf x0 -> proximal_step_spec x0 f gamma s (run prog_proximal_step (mk_args [x0] [f] [gamma] []) s).
Proof. exact (proximal_step_records x0 f gamma s). Qed.
Print Assumptions C08_proximal_step_records.

Theorem C08_proximal_step_exact x0 f gamma s out :
  pwf x0 -> proximal_step_spec x0 f gamma s out ->
  out_eq out (run prog_proximal_step (mk_args [x0] [f] [gamma] []) s).
Proof. exact (proximal_step_exact x0 f gamma s out). Qed.
Print Assumptions C08_proximal_step_exact.

Theorem C08_inexact_gradient_step_absolute_records x0 f gamma eps s :
  pwf x0 -> state_wf s ->
  inexact_gradient_step_spec false x0 f gamma eps s
    (run prog_inexact_gradient_step_absolute (mk_args [x0] [f] [gamma; eps] []) s).
Proof. exact (inexact_gradient_step_absolute_records x0 f gamma eps s). Qed.
Print Assumptions C08_inexact_gradient_step_absolute_records.

Theorem C08_inexact_gradient_step_relative_records x0 f gamma eps s :
  pwf x0 -> state_wf s ->
  inexact_gradient_step_spec true x0 f gamma eps s
    (run prog_inexact_gradient_step_relative (mk_args [x0] [f] [gamma; eps] []) s).
Proof. exact (inexact_gradient_step_relative_records x0 f gamma eps s). Qed.
Print Assumptions C08_inexact_gradient_step_relative_records.

Theorem C08_inexact_gradient_step_invalid_records x0 f gamma eps s :
  inexact_gradient_step_invalid_spec x0 f s
    (run prog_inexact_gradient_step_invalid (mk_args [x0] [f] [gamma; eps] []) s).
Proof. exact (inexact_gradient_step_invalid_records x0 f gamma eps s). Qed.
Print Assumptions C08_inexact_gradient_step_invalid_records.

Theorem C08_inexact_gradient_step_dispatch :
  step_program "inexact_gradient_step" "absolute" = prog_inexact_gradient_step_absolute
  /\ step_program "inexact_gradient_step" "relative" = prog_inexact_gradient_step_relative
  /\ default_inexact_gradient_step = "absolute"%string
  /\ forall o, o <> "absolute"%string -> o <> "relative"%string ->
       step_program "inexact_gradient_step" o = prog_inexact_gradient_step_invalid.
Proof. exact (inexact_gradient_step_dispatch ). Qed.
Print Assumptions C08_inexact_gradient_step_dispatch.

Theorem C08_inexact_gradient_step_exact relative x0 f gamma eps s out :
  pwf x0 -> state_wf s -> inexact_gradient_step_spec relative x0 f gamma eps s out ->
  out_eq out (run (if relative then prog_inexact_gradient_step_relative else prog_inexact_gradient_step_absolute)
                  (mk_args [x0] [f] [gamma; eps] []) s).
Proof. exact (inexact_gradient_step_exact relative x0 f gamma eps s out). Qed.
Print Assumptions C08_inexact_gradient_step_exact.

Theorem C08_exact_linesearch_step_records x0 f dirs s :
  pwf x0 -> Forall pwf dirs -> state_wf s ->
  exact_linesearch_step_spec x0 f dirs s
    (run prog_exact_linesearch_step (mk_args [x0] [f] [] dirs) s).
Proof. exact (exact_linesearch_step_records x0 f dirs s). Qed.
Print Assumptions C08_exact_linesearch_step_records.

Theorem C08_exact_linesearch_step_exact x0 f dirs s out :
  pwf x0 -> Forall pwf dirs -> state_wf s -> exact_linesearch_step_spec x0 f dirs s out ->
  out_eq out (run prog_exact_linesearch_step (mk_args [x0] [f] [] dirs) s).
Proof. exact (exact_linesearch_step_exact x0 f dirs s out). Qed.
Print Assumptions C08_exact_linesearch_step_exact.

Theorem C08_linear_optimization_step_records dir ind s :
  pwf dir ->
  linear_optimization_step_spec dir ind s (run prog_linear_optimization_step (mk_args [dir] [ind] [] []) s).
Proof. exact (linear_optimization_step_records dir ind s). Qed.
Print Assumptions C08_linear_optimization_step_records.

Theorem C08_linear_optimization_step_exact dir ind s out :
  pwf dir -> linear_optimization_step_spec dir ind s out ->
  out_eq out (run prog_linear_optimization_step (mk_args [dir] [ind] [] []) s).
Proof. exact (linear_optimization_step_exact dir ind s out). Qed.
Print Assumptions C08_linear_optimization_step_exact.

Theorem C08_bregman_gradient_step_records gx0 sx0 h gamma s :
  pwf gx0 -> pwf sx0 ->
  bregman_gradient_step_spec gx0 sx0 h gamma s
    (run prog_bregman_gradient_step (mk_args [gx0; sx0] [h] [gamma] []) s).
Proof. exact (bregman_gradient_step_records gx0 sx0 h gamma s). Qed.
Print Assumptions C08_bregman_gradient_step_records.

Theorem C08_bregman_gradient_step_exact gx0 sx0 h gamma s out :
  pwf gx0 -> pwf sx0 -> bregman_gradient_step_spec gx0 sx0 h gamma s out ->
  out_eq out (run prog_bregman_gradient_step (mk_args [gx0; sx0] [h] [gamma] []) s).
Proof. exact (bregman_gradient_step_exact gx0 sx0 h gamma s out). Qed.
Print Assumptions C08_bregman_gradient_step_exact.

Theorem C08_bregman_proximal_step_records sx0 h f gamma s :
  pwf sx0 ->
  bregman_proximal_step_spec sx0 h f gamma s
    (run prog_bregman_proximal_step (mk_args [sx0] [h; f] [gamma] []) s).
Proof. exact (bregman_proximal_step_records sx0 h f gamma s). Qed.
Print Assumptions C08_bregman_proximal_step_records.

Theorem C08_bregman_proximal_step_exact sx0 h f gamma s out :
  pwf sx0 -> bregman_proximal_step_spec sx0 h f gamma s out ->
  out_eq out (run prog_bregman_proximal_step (mk_args [sx0] [h; f] [gamma] []) s).
Proof. exact (bregman_proximal_step_exact sx0 h f gamma s out). Qed.
Print Assumptions C08_bregman_proximal_step_exact.

Theorem C08_epsilon_subgradient_step_records x0 f gamma s :
  pwf x0 -> state_wf s ->
  epsilon_subgradient_step_spec x0 f gamma s
    (run prog_epsilon_subgradient_step (mk_args [x0] [f] [gamma] []) s).
Proof. exact (epsilon_subgradient_step_records x0 f gamma s). Qed.
Print Assumptions C08_epsilon_subgradient_step_records.

Theorem C08_epsilon_subgradient_step_exact x0 f gamma s out :
  pwf x0 -> state_wf s -> epsilon_subgradient_step_spec x0 f gamma s out ->
  out_eq out (run prog_epsilon_subgradient_step (mk_args [x0] [f] [gamma] []) s).
Proof. exact (epsilon_subgradient_step_exact x0 f gamma s out). Qed.
Print Assumptions C08_epsilon_subgradient_step_exact.

Theorem C08_pd_gap_identity {E : ips} (gamma : R) (x0 x : E) fx (v w : E) fw :
  pd_gap gamma x0 x fx v w fw
  = 1 / 2 * nrm2 (vadd (vsub x x0) (vscal gamma v)) + gamma * (fx - fw - inner v (vsub x w)).
Proof. exact (pd_gap_identity gamma x0 x fx v w fw). Qed.
Print Assumptions C08_pd_gap_identity.

Theorem C08_inexact_proximal_step_I_records x0 f gamma s :
  pwf x0 ->
  inexact_proximal_step_I_spec x0 f gamma s
    (run prog_inexact_proximal_step_PD_gapI (mk_args [x0] [f] [gamma] []) s).
Proof. exact (inexact_proximal_step_I_records x0 f gamma s). Qed.
Print Assumptions C08_inexact_proximal_step_I_records.

Theorem C08_inexact_proximal_step_I_exact x0 f gamma s out :
  pwf x0 -> inexact_proximal_step_I_spec x0 f gamma s out ->
  out_eq out (run prog_inexact_proximal_step_PD_gapI (mk_args [x0] [f] [gamma] []) s).
Proof. exact (inexact_proximal_step_I_exact x0 f gamma s out). Qed.
Print Assumptions C08_inexact_proximal_step_I_exact.

Theorem C08_inexact_proximal_step_II_records x0 f gamma s :
  pwf x0 ->
  inexact_proximal_step_II_spec x0 f gamma s
    (run prog_inexact_proximal_step_PD_gapII (mk_args [x0] [f] [gamma] []) s).
Proof. exact (inexact_proximal_step_II_records x0 f gamma s). Qed.
Print Assumptions C08_inexact_proximal_step_II_records.

Theorem C08_inexact_proximal_step_II_exact x0 f gamma s out :
  pwf x0 -> inexact_proximal_step_II_spec x0 f gamma s out ->
  out_eq out (run prog_inexact_proximal_step_PD_gapII (mk_args [x0] [f] [gamma] []) s).
Proof. exact (inexact_proximal_step_II_exact x0 f gamma s out). Qed.
Print Assumptions C08_inexact_proximal_step_II_exact.

Theorem C08_inexact_proximal_step_III_records x0 f gamma s :
  pwf x0 -> ~ (gamma == 0)%Q ->
  inexact_proximal_step_III_spec x0 f gamma s
    (run prog_inexact_proximal_step_PD_gapIII (mk_args [x0] [f] [gamma] []) s).
Proof. exact (inexact_proximal_step_III_records x0 f gamma s). Qed.
Print Assumptions C08_inexact_proximal_step_III_records.

Theorem C08_inexact_proximal_step_III_exact x0 f gamma s out :
  pwf x0 -> ~ (gamma == 0)%Q -> inexact_proximal_step_III_spec x0 f gamma s out ->
  out_eq out (run prog_inexact_proximal_step_PD_gapIII (mk_args [x0] [f] [gamma] []) s).
Proof. exact (inexact_proximal_step_III_exact x0 f gamma s out). Qed.
Print Assumptions C08_inexact_proximal_step_III_exact.

Theorem C08_inexact_proximal_step_III_zero_records x0 f gamma s :
  (gamma == 0)%Q ->
  inexact_proximal_step_III_zero_spec s
    (run prog_inexact_proximal_step_PD_gapIII (mk_args [x0] [f] [gamma] []) s).
Proof. exact (inexact_proximal_step_III_zero_records x0 f gamma s). Qed.
Print Assumptions C08_inexact_proximal_step_III_zero_records.

Theorem C08_inexact_proximal_step_invalid_records x0 f gamma s :
  inexact_proximal_step_invalid_spec s
    (run prog_inexact_proximal_step_invalid (mk_args [x0] [f] [gamma] []) s).
Proof. exact (inexact_proximal_step_invalid_records x0 f gamma s). Qed.
Print Assumptions C08_inexact_proximal_step_invalid_records.

Theorem C08_inexact_proximal_step_dispatch :
  step_program "inexact_proximal_step" "PD_gapI" = prog_inexact_proximal_step_PD_gapI
  /\ step_program "inexact_proximal_step" "PD_gapII" = prog_inexact_proximal_step_PD_gapII
  /\ step_program "inexact_proximal_step" "PD_gapIII" = prog_inexact_proximal_step_PD_gapIII
  /\ default_inexact_proximal_step = "PD_gapII"%string
  /\ forall o, o <> "PD_gapI"%string -> o <> "PD_gapII"%string -> o <> "PD_gapIII"%string ->
       step_program "inexact_proximal_step" o = prog_inexact_proximal_step_invalid.
Proof. exact (inexact_proximal_step_dispatch ). Qed.
Print Assumptions C08_inexact_proximal_step_dispatch.

(** ** Real executions
    (the optimality lemmas of the line search and of the two Bregman steps used by the [_real] theorems are
    Proofs/C08Real.v: linesearch_orthogonality / _converse, bregman_gradient_optimality / _converse,
    bregman_prox_optimality / _converse; their content is restated inside the [_real] theorems) *)
Theorem C08_prox_optimality {E : ips} (F : @fn E) gamma x0 x :
  convex_fn F -> 0 < gamma -> is_prox F gamma x0 x ->
  subgrad F x (vscal (1 / gamma) (vsub x0 x)).
Proof. exact (prox_optimality F gamma x0 x). Qed.
Print Assumptions C08_prox_optimality.

Theorem C08_prox_converse {E : ips} (F : @fn E) gamma x0 x g :
  0 <= gamma -> subgrad F x g -> veq x (vsub x0 (vscal gamma g)) -> is_prox F gamma x0 x.
Proof. exact (prox_converse F gamma x0 x g). Qed.
Print Assumptions C08_prox_converse.

Theorem C08_proximal_step_real x0 f gamma s out :
  below (pt_ctr s) x0 -> proximal_step_spec x0 f gamma s out ->
  exists x,
    out = (ROk [RP x; RP (leafP (pt_ctr s)); RX (leafX (ex_ctr s))],
           add_sample f (x, leafP (pt_ctr s), leafX (ex_ctr s)) (bump 1 1 s))
    /\ (* a real proximal point, with its subgradient and value, satisfies what was recorded *)
       (forall (E : ips) (F : @fn E) (rho : nat -> E) (phi : nat -> R) (xr : E),
          convex_fn F -> fn_ext F -> 0 < Q2R gamma -> is_prox F (Q2R gamma) (evalP rho x0) xr ->
          let rho' := upd (pt_ctr s) (vscal (1 / Q2R gamma) (vsub (evalP rho x0) xr)) rho in
          let phi' := upd (ex_ctr s) (val F xr) phi in
          veq (evalP rho' x) xr
          /\ genuine_sub F (sem_smp rho' phi' (x, leafP (pt_ctr s), leafX (ex_ctr s))))
    /\ (* and whatever satisfies what was recorded is the proximal point *)
       (forall (E : ips) (F : @fn E) (rho : nat -> E) (phi : nat -> R),
          fn_ext F -> 0 <= Q2R gamma ->
          genuine_sub F (sem_smp rho phi (x, leafP (pt_ctr s), leafX (ex_ctr s))) ->
          is_prox F (Q2R gamma) (evalP rho x0) (evalP rho x)).
Proof. exact (proximal_step_real x0 f gamma s out). Qed.
Print Assumptions C08_proximal_step_real.

Theorem C08_inexact_gradient_step_real relative x0 f gamma eps s out :
  state_below s -> below (pt_ctr s) x0 ->
  inexact_gradient_step_spec relative x0 f gamma eps s out ->
  let '(g, fx0, _, s1) := oracle_leaf f x0 s in
  let d := pt_ctr s1 in
  exists x c,
    out = (ROk [RP x; RP (leafP d); RX fx0], add_cons f c (bump 1 0 s1))
    /\ (* a real direction within the accuracy, with the real gradient, satisfies what was recorded *)
       (forall (E : ips) (F : @dfn E) (rho : nat -> E) (phi : nat -> R) (dr : E),
          veq (evalP rho g) (dgrad F (evalP rho x0)) ->
          nrm2 (vsub dr (dgrad F (evalP rho x0)))
            <= Q2R eps ^ 2 * (if relative then nrm2 (dgrad F (evalP rho x0)) else 1) ->
          let rho' := upd d dr rho in
          holds rho' phi c
          /\ veq (evalP rho' x) (vsub (evalP rho x0) (vscal (Q2R gamma) dr))
          /\ evalP rho' g = evalP rho g /\ evalP rho' x0 = evalP rho x0)
    /\ (* whatever satisfies what was recorded is such a step *)
       (forall (E : ips) (F : @dfn E) (rho : nat -> E) (phi : nat -> R),
          veq (evalP rho g) (dgrad F (evalP rho x0)) -> holds rho phi c ->
          nrm2 (vsub (rho d) (dgrad F (evalP rho x0)))
            <= Q2R eps ^ 2 * (if relative then nrm2 (dgrad F (evalP rho x0)) else 1)
          /\ veq (evalP rho x) (vsub (evalP rho x0) (vscal (Q2R gamma) (rho d)))).
Proof. exact (inexact_gradient_step_real relative x0 f gamma eps s out). Qed.
Print Assumptions C08_inexact_gradient_step_real.

Theorem C08_fermat_line {E : ips} (F : @dfn E) x d :
  gateaux F -> (forall t, dval F x <= dval F (vadd x (vscal t d))) -> inner (dgrad F x) d = 0.
Proof. exact (fermat_line F x d). Qed.
Print Assumptions C08_fermat_line.

Theorem C08_exact_linesearch_step_real x0 f dirs s out :
  state_below s -> below (pt_ctr s) x0 -> Forall (below (pt_ctr s)) dirs ->
  exact_linesearch_step_spec x0 f dirs s out ->
  let n := pt_ctr s in let m := ex_ctr s in
  let smp := (leafP n, leafP (S n), leafX m) in
  exists c0 cs,
    out = (ROk [RP (leafP n); RP (leafP (S n)); RX (leafX m)],
           add_conss f (c0 :: cs) (add_sample f smp (bump 2 1 s)))
    /\ (* a real line/span search point, with its gradient and value, satisfies what was recorded *)
       (forall (E : ips) (F : @dfn E) (rho : nat -> E) (phi : nat -> R) (xr : E),
          gateaux F -> dfn_ext F ->
          is_linesearch F (evalP rho x0) (map (evalP rho) dirs) xr ->
          let rho' := upd (S n) (dgrad F xr) (upd n xr rho) in
          let phi' := upd m (dval F xr) phi in
          genuine_grad F (sem_smp rho' phi' smp) /\ Forall (holds rho' phi') (c0 :: cs))
    /\ (* what was recorded, plus x - x0 in the span (the part the step documents as relaxed), is a
          real line/span search on a convex differentiable function *)
       (forall (E : ips) (F : @dfn E) (rho : nat -> E) (phi : nat -> R),
          grad_convex F -> dfn_ext F ->
          genuine_grad F (sem_smp rho phi smp) -> Forall (holds rho phi) (c0 :: cs) ->
          in_span (vsub (rho n) (evalP rho x0)) (map (evalP rho) dirs) ->
          is_linesearch F (evalP rho x0) (map (evalP rho) dirs) (rho n)).
Proof. exact (exact_linesearch_step_real x0 f dirs s out). Qed.
Print Assumptions C08_exact_linesearch_step_real.

Theorem C08_linopt_iff_normal {E : ips} (F : @fn E) dir x :
  (forall z, dom F z -> val F z = 0) ->
  (is_linopt F dir x <-> subgrad F x (vneg dir)).
Proof. exact (linopt_iff_normal F dir x). Qed.
Print Assumptions C08_linopt_iff_normal.

Theorem C08_linear_optimization_step_real dir ind s out :
  below (pt_ctr s) dir -> linear_optimization_step_spec dir ind s out ->
  exists gx,
    out = (ROk [RP (leafP (pt_ctr s)); RP gx; RX (leafX (ex_ctr s))],
           add_sample ind (leafP (pt_ctr s), gx, leafX (ex_ctr s)) (bump 1 1 s))
    /\ (forall (E : ips) (F : @fn E) (rho : nat -> E) (phi : nat -> R) (xr : E),
          (forall z, dom F z -> val F z = 0) -> fn_ext F -> is_linopt F (evalP rho dir) xr ->
          let rho' := upd (pt_ctr s) xr rho in
          let phi' := upd (ex_ctr s) 0 phi in
          genuine_sub F (sem_smp rho' phi' (leafP (pt_ctr s), gx, leafX (ex_ctr s))))
    /\ (forall (E : ips) (F : @fn E) (rho : nat -> E) (phi : nat -> R),
          (forall z, dom F z -> val F z = 0) -> fn_ext F ->
          genuine_sub F (sem_smp rho phi (leafP (pt_ctr s), gx, leafX (ex_ctr s))) ->
          is_linopt F (evalP rho dir) (rho (pt_ctr s))).
Proof. exact (linear_optimization_step_real dir ind s out). Qed.
Print Assumptions C08_linear_optimization_step_real.

Theorem C08_bregman_gradient_step_real gx0 sx0 h gamma s out :
  below (pt_ctr s) gx0 -> below (pt_ctr s) sx0 -> bregman_gradient_step_spec gx0 sx0 h gamma s out ->
  let n := pt_ctr s in let m := ex_ctr s in
  exists sx,
    out = (ROk [RP (leafP n); RP sx; RX (leafX m)], add_sample h (leafP n, sx, leafX m) (bump 1 1 s))
    /\ (forall (E : ips) (H : @dfn E) (rho : nat -> E) (phi : nat -> R) (xr : E),
          gateaux H -> dfn_ext H ->
          is_bregman_gradient H (Q2R gamma) (evalP rho gx0) (evalP rho sx0) xr ->
          genuine_grad H (sem_smp (upd n xr rho) (upd m (dval H xr) phi) (leafP n, sx, leafX m)))
    /\ (forall (E : ips) (H : @dfn E) (rho : nat -> E) (phi : nat -> R),
          grad_convex H -> dfn_ext H -> genuine_grad H (sem_smp rho phi (leafP n, sx, leafX m)) ->
          is_bregman_gradient H (Q2R gamma) (evalP rho gx0) (evalP rho sx0) (rho n)).
Proof. exact (bregman_gradient_step_real gx0 sx0 h gamma s out). Qed.
Print Assumptions C08_bregman_gradient_step_real.

Theorem C08_bregman_proximal_step_real sx0 h f gamma s out :
  below (pt_ctr s) sx0 -> bregman_proximal_step_spec sx0 h f gamma s out ->
  let n := pt_ctr s in let m := ex_ctr s in
  exists sx,
    out = (ROk [RP (leafP n); RP sx; RX (leafX (S m)); RP (leafP (S n)); RX (leafX m)],
           add_sample h (leafP n, sx, leafX (S m)) (add_sample f (leafP n, leafP (S n), leafX m) (bump 2 2 s)))
    /\ (forall (E : ips) (F : @fn E) (H : @dfn E) (rho : nat -> E) (phi : nat -> R) (xr : E),
          convex_fn F -> fn_ext F -> gateaux H -> dfn_ext H -> 0 < Q2R gamma ->
          is_bregman_prox F H (Q2R gamma) (evalP rho sx0) xr ->
          let rho' := upd (S n) (vscal (1 / Q2R gamma) (vsub (evalP rho sx0) (dgrad H xr))) (upd n xr rho) in
          let phi' := upd (S m) (dval H xr) (upd m (val F xr) phi) in
          genuine_sub F (sem_smp rho' phi' (leafP n, leafP (S n), leafX m))
          /\ genuine_grad H (sem_smp rho' phi' (leafP n, sx, leafX (S m))))
    /\ (forall (E : ips) (F : @fn E) (H : @dfn E) (rho : nat -> E) (phi : nat -> R),
          fn_ext F -> grad_convex H -> dfn_ext H -> 0 <= Q2R gamma ->
          genuine_sub F (sem_smp rho phi (leafP n, leafP (S n), leafX m)) ->
          genuine_grad H (sem_smp rho phi (leafP n, sx, leafX (S m))) ->
          is_bregman_prox F H (Q2R gamma) (evalP rho sx0) (rho n)).
Proof. exact (bregman_proximal_step_real sx0 h f gamma s out). Qed.
Print Assumptions C08_bregman_proximal_step_real.

Theorem C08_conjugate_attained {E : ips} (F : @fn E) w v :
  subgrad F w v -> forall z, dom F z -> inner v z - val F z <= inner v w - val F w.
Proof. exact (conjugate_attained F w v). Qed.
Print Assumptions C08_conjugate_attained.

Theorem C08_eps_subgrad_from_record {E : ips} (F : @fn E) eps x0 y g :
  dom F x0 -> subgrad F y g ->
  val F x0 + (inner g y - val F y) - inner g x0 <= eps -> eps_subgrad F eps x0 g.
Proof. exact (eps_subgrad_from_record F eps x0 y g). Qed.
Print Assumptions C08_eps_subgrad_from_record.

Theorem C08_eps_subgrad_to_record {E : ips} (F : @fn E) eps x0 y g :
  eps_subgrad F eps x0 g -> subgrad F y g ->
  val F x0 + (inner g y - val F y) - inner g x0 <= eps.
Proof. exact (eps_subgrad_to_record F eps x0 y g). Qed.
Print Assumptions C08_eps_subgrad_to_record.

Theorem C08_epsilon_subgradient_step_real x0 f gamma s out :
  epsilon_subgradient_step_spec x0 f gamma s out ->
  let g0 := pt_ctr s in
  let '(f0, _, s1) := value_leaf f x0 (bump 1 0 s) in
  let eps := ex_ctr s1 in let y := pt_ctr s1 in let fy := S (ex_ctr s1) in
  exists x c,
    out = (ROk [RP x; RP (leafP g0); RX f0; RX (leafX eps)],
           add_cons f c (add_sample f (leafP y, leafP g0, leafX fy) (bump 1 2 s1)))
    /\ (* recorded => real *)
       (forall (E : ips) (F : @fn E) (rho : nat -> E) (phi : nat -> R),
          fn_ext F -> dom F (evalP rho x0) -> evalE rho phi f0 = val F (evalP rho x0) ->
          genuine_sub F (sem_smp rho phi (leafP y, leafP g0, leafX fy)) -> holds rho phi c ->
          eps_subgrad F (phi eps) (evalP rho x0) (rho g0)
          /\ veq (evalP rho x) (vsub (evalP rho x0) (vscal (Q2R gamma) (rho g0))))
    /\ (* real => recorded, when the conjugate is attained: a point yr with g0 a subgradient at yr *)
       (forall (E : ips) (F : @fn E) (rho : nat -> E) (phi : nat -> R),
          evalE rho phi f0 = val F (evalP rho x0) ->
          eps_subgrad F (phi eps) (evalP rho x0) (rho g0) -> subgrad F (rho y) (rho g0) ->
          phi fy = val F (rho y) -> holds rho phi c).
Proof. exact (epsilon_subgradient_step_real x0 f gamma s out). Qed.
Print Assumptions C08_epsilon_subgradient_step_real.

Theorem C08_pd_gap_nonneg {E : ips} (F : @fn E) gamma (x0 x v w : E) :
  0 <= gamma -> dom F x -> subgrad F w v ->
  0 <= pd_gap gamma x0 x (val F x) v w (val F w).
Proof. exact (pd_gap_nonneg F gamma x0 x v w). Qed.
Print Assumptions C08_pd_gap_nonneg.

Theorem C08_pd_gap_zero_is_prox {E : ips} (F : @fn E) gamma (x0 x v w : E) :
  0 < gamma -> dom F x -> subgrad F w v ->
  pd_gap gamma x0 x (val F x) v w (val F w) <= 0 -> is_prox F gamma x0 x.
Proof. exact (pd_gap_zero_is_prox F gamma x0 x v w). Qed.
Print Assumptions C08_pd_gap_zero_is_prox.

(** ** Non-vacuity: the hypotheses are satisfiable on non-trivial inputs *)

(** a combination start point, a state in which function 0 (reuse_gradient) was already evaluated on it *)
Definition ex_x0 : pdict := [(0%nat, 1%Q); (1%nat, (-1 # 2)%Q)].
Definition ex_state : state :=
  mk_state 2 1 [mkFrec true [(ex_x0, [(1%nat, 2%Q)], [(KF 0, 1%Q)])] []; mkFrec false [] []].

Example ex_hypotheses :
  pwf ex_x0 /\ state_wf ex_state /\ state_below ex_state /\ below (pt_ctr ex_state) ex_x0.
Proof.
  assert (Hx : pwf ex_x0) by (repeat constructor; cbn; intuition discriminate).
  split; [exact Hx|]. split; [|split].
  - intros f. destruct f as [|[|f]]; unfold ex_state, mk_state; cbn [funs nth f_points].
    + constructor; [|constructor]. split; [exact Hx|split]; repeat constructor; cbn; intuition discriminate.
    + constructor.
    + destruct f; constructor.
  - intros f x g v. destruct f as [|[|f]]; unfold ex_state, mk_state; cbn [funs nth f_points pt_ctr].
    + intros [[= <- <- <-]|[]]. split; intros k; cbn; intuition (subst; lia).
    + intros [].
    + destruct f; intros [].
  - intros k; cbn; intuition (subst; lia).
Qed.

(** the proximal step on function 1: one new leaf point (2), one new leaf expression (1) *)
Example ex_prox_runs :
  dump_result (fst (run prog_proximal_step (mk_args [ex_x0] [1%nat] [(1 # 2)%Q] []) ex_state))
  = dump_result (ROk [RP [(0%nat, 1%Q); (1%nat, (-1 # 2)%Q); (2%nat, (-1 # 2)%Q)]; RP (leafP 2); RX (leafX 1)])
  /\ List.length (f_points (funs (snd (run prog_proximal_step (mk_args [ex_x0] [1%nat] [(1 # 2)%Q] []) ex_state)) 1%nat)) = 1%nat.
Proof. split; vm_compute; reflexivity. Qed.

(** the inexact gradient step on function 0 re-uses the recorded gradient: no new sample, one constraint *)
Example ex_inexact_gradient_reuses :
  let out := run prog_inexact_gradient_step_relative (mk_args [ex_x0] [0%nat] [1%Q; (1 # 4)%Q] []) ex_state in
  List.length (f_points (funs (snd out) 0%nat)) = 1%nat /\ List.length (f_cons (funs (snd out) 0%nat)) = 1%nat
  /\ pt_ctr (snd out) = 3%nat /\ ex_ctr (snd out) = 1%nat.
Proof. vm_compute. repeat split. Qed.

(** exact line search with two directions records three equalities and one new sample *)
Example ex_linesearch_runs :
  let out := run prog_exact_linesearch_step (mk_args [ex_x0] [1%nat] [] [leafP 0; leafP 1]) ex_state in
  List.length (f_cons (funs (snd out) 1%nat)) = 3%nat /\ List.length (f_points (funs (snd out) 1%nat)) = 1%nat.
Proof. vm_compute. split; reflexivity. Qed.

(** real operations on the real line: F(x) = x^2/2, prox_{1 F}(2) = 1 *)
Definition ex_F : @fn R1 := mkFn (E := R1) (fun _ => True) (fun x : R => x * x / 2).
Example ex_is_prox : convex_fn ex_F /\ fn_ext ex_F /\ is_prox ex_F 1 (2 : R1) (1 : R1).
Proof.
  split; [|split].
  - intros x y t _ _ Ht. split; [exact Logic.I|]. unfold seg, vsub, vneg. cbn. apply ex_cvx_sq. exact Ht.
  - intros a b Hab. apply ex_veq_R1 in Hab. subst. tauto.
  - split; [exact Logic.I|]. intros y _. unfold nrm2, vsub, vneg. cbn. apply ex_prox_sq.
Qed.

(** linear optimisation over the interval [-1, 1] in direction 1: the minimiser is -1 *)
Definition ex_box : @fn R1 := mkFn (E := R1) (fun x : R => -1 <= x <= 1) (fun _ => 0).
Example ex_is_linopt : (forall z, dom ex_box z -> val ex_box z = 0) /\ fn_ext ex_box /\ is_linopt ex_box (1 : R1) (-1 : R1).
Proof.
  split; [reflexivity|]. split.
  - intros a b Hab. apply ex_veq_R1 in Hab. subst. tauto.
  - split; [cbn; lra|]. intros y Hy. cbn in *. lra.
Qed.

(** exact line search of the differentiable F(x) = x^2/2 from 3 along direction 1: the minimiser is 0 *)
Definition ex_D : @dfn R1 := mkD (E := R1) (fun x : R => x * x / 2) (fun x : R => x).
Example ex_is_linesearch :
  gateaux ex_D /\ dfn_ext ex_D /\ grad_convex ex_D /\ is_linesearch ex_D (3 : R1) [(1 : R1)] (0 : R1).
Proof.
  split; [|split; [|split]].
  - intros x d eps He. exists (eps / (d * d + 1)).
    assert (Hd : 0 < d * d + 1) by nra.
    split; [apply Rdiv_lt_0_compat; lra|]. intros t Ht. cbn.
    replace ((x + t * d) * (x + t * d) / 2 - x * x / 2 - t * (x * d)) with (t * t * (d * d) / 2) by field.
    assert (Hpos : 0 <= t * t * (d * d) / 2) by nra.
    rewrite (Rabs_pos_eq _ Hpos).
    assert (Ha : Rabs t * (d * d + 1) < eps).
    { apply Rmult_lt_compat_r with (r := d * d + 1) in Ht; [|exact Hd].
      unfold Rdiv in Ht. rewrite Rmult_assoc, Rinv_l, Rmult_1_r in Ht by lra. exact Ht. }
    pose proof (Rabs_pos t) as Hp. assert (Hsq : t * t = Rabs t * Rabs t) by (rewrite <- Rabs_mult; symmetry; apply Rabs_pos_eq; nra).
    rewrite Hsq. nra.
  - intros a b Hab. apply ex_veq_R1 in Hab. subst. split; [reflexivity|intro; reflexivity].
  - intros x y. unfold vsub, vneg. cbn. apply ex_gc.
  - split.
    + exists [-3]. split; [reflexivity|]. intros w. unfold vsub, vneg. cbn. lra.
    + intros y _. cbn. apply ex_min.
Qed.

(** ** The steps on COMPOSITE functions (f = f1 + 2 f2, ...): the same generated programs over C07's function table

    Everything above runs the generated programs over Model/StepsRT.v, where every function is a leaf.  The
    theorems below run THE SAME programs ([step_program name opt], every step and option) over the state of
    Model/Func.v (C07's model of Function.oracle / value / add_point on leaves AND weighted sums of leaves)
    with the interpreter Model/StepsFunc.v; proofs in Proofs/C08Composite.v.

    [C07Inv.inv] is C07's invariant (one value per point, one gradient per point of a differentiable function,
    every sample of a sum = the weighted sum of samples of its terms at that point, stationary samples, flags).
    [StepsFunc.ok_prog prog a (s, cs)] is the decidable guard: C07's side conditions [Func.op_scoped] and
    [Func.op_guard] of the op each instruction performs, evaluated along the execution (oracle / value: the
    function exists, the query point has unique keys over existing leaves and no explicit zero coefficient
    (F-C07b); add_point: unique keys, the point is not yet recorded for the function nor for one of its terms).
    The zero functions of F-C07c/d/e are excluded by [inv s] itself. *)
From PV Require Model.Func Model.StepsFunc Proofs.C07Dict Proofs.C07Inv Proofs.C07InvB Proofs.C07Thm Proofs.C08Composite.

(** every bookkeeping instruction of a step IS one op of C07's op language (with exactly its side
    conditions) whenever the dictionaries it hands over are those of point terms; the others do not touch
    the function table *)
Theorem C08_composite_instruction_is_func_op :
  forall (a : args) (tp : nat -> pterm) (i : sinstr) (e : env) (s : Func.state) (cs : StepsFunc.clog),
  (forall v, e_p e v = Func.pt (tp v)) ->
  match C08Composite.op_of a tp e i with
  | Some o =>
      (exists e', StepsFunc.exec_s a i (e, (s, cs)) = inl (e', (Func.step s o, cs))) /\
      StepsFunc.guard_s a i (e, (s, cs)) = (Func.op_scoped s o && Func.op_guard s o)%bool
  | None =>
      StepsFunc.guard_s a i (e, (s, cs)) = true /\
      match StepsFunc.exec_s a i (e, (s, cs)) with
      | inl (_, (s', _)) => s' = s
      | inr (_, (_, (s', _))) => s' = s
      end
  end.
Proof. exact C08Composite.exec_s_is_func_op. Qed.
Print Assumptions C08_composite_instruction_is_func_op.

(** (a) each of the 8 generated steps, with every option, applied to ANY function (leaf or composite) and any
    start points, in a state that satisfies C07's invariant, yields a state that satisfies it again *)
Theorem C08_composite_step_preserves_invariant :
  forall (name opt : string) (a : args) (s : Func.state) (cs : StepsFunc.clog),
  C07Inv.inv s -> StepsFunc.ok_prog (step_program name opt) a (s, cs) = true ->
  C07Inv.inv (StepsFunc.run_state (step_program name opt) a (s, cs)).
Proof. exact (fun name opt => C08Composite.run_inv_steps (step_program name opt)). Qed.
Print Assumptions C08_composite_step_preserves_invariant.

(** ... in particular after any op sequence accepted by C07 (functions built with the operators, evaluated,
    given stationary points, ... in any order) *)
Theorem C08_composite_step_after_ops_preserves_invariant :
  forall (ops : list Func.op) (name opt : string) (a : args) (cs : StepsFunc.clog),
  Func.ops_ok ops = true -> StepsFunc.ok_prog (step_program name opt) a (Func.run ops, cs) = true ->
  C07Inv.inv (StepsFunc.run_state (step_program name opt) a (Func.run ops, cs)).
Proof. exact (fun ops name opt => C08Composite.run_inv_steps_after_ops ops (step_program name opt)). Qed.
Print Assumptions C08_composite_step_after_ops_preserves_invariant.

(** (it is a property of the step LANGUAGE: any program, so a change of a step's source cannot escape it) *)
Theorem C08_composite_any_program_preserves_invariant :
  forall (prog : program) (a : args) (s : Func.state) (cs : StepsFunc.clog),
  C07Inv.inv s -> StepsFunc.ok_prog prog a (s, cs) = true -> C07Inv.inv (StepsFunc.run_state prog a (s, cs)).
Proof. exact C08Composite.run_inv_steps. Qed.
Print Assumptions C08_composite_any_program_preserves_invariant.

(** a step creates no function and leaves stay leaves *)
Theorem C08_composite_step_keeps_functions :
  forall (name opt : string) (a : args) (s : Func.state) (cs : StepsFunc.clog),
  let s' := StepsFunc.run_state (step_program name opt) a (s, cs) in
  C07Inv.nfun s' = C07Inv.nfun s /\ forall j, Func.f_leaf (Func.getf s' j) = Func.f_leaf (Func.getf s j).
Proof. exact (fun name opt => C08Composite.run_shape (step_program name opt)). Qed.
Print Assumptions C08_composite_step_keeps_functions.

(** (b) after a step, EVERY sample of every composite -- those the step recorded on it included -- is the
    weighted sum of samples recorded for its terms at that point: same point decomposition, gradient and value
    equal to the weighted sums in every inner-product space under every valuation of the leaves *)
Theorem C08_composite_step_samples_are_weighted_sums :
  forall (name opt : string) (a : args) (s : Func.state) (cs : StepsFunc.clog),
  C07Inv.inv s -> StepsFunc.ok_prog (step_program name opt) a (s, cs) = true ->
  let s' := StepsFunc.run_state (step_program name opt) a (s, cs) in
  forall F t, (F < C07Inv.nfun s)%nat -> Func.f_leaf (Func.getf s F) = false -> In t (Func.f_pts (Func.getf s' F)) ->
    exists ch : nat -> Func.sample,
      (forall i q, In (i, q) (Func.f_w (Func.getf s' F)) ->
         In (ch i) (Func.f_pts (Func.getf s' i)) /\
         dict_eqb Nat.eqb (C07Dict.xof (ch i)) (C07Dict.xof t) = true) /\
      forall (E : ips) (rho : nat -> E) (phi : nat -> R),
        veq (evalP rho (C07Dict.gof t))
            (C07Thm.wlin rho (Func.f_w (Func.getf s' F)) (fun i => C07Dict.gof (ch i))) /\
        evalE rho phi (C07Dict.vof t) =
        C07Thm.wsum rho phi (Func.f_w (Func.getf s' F)) (fun i => C07Dict.vof (ch i)).
Proof. exact (fun name opt => C08Composite.run_composite_samples (step_program name opt)). Qed.
Print Assumptions C08_composite_step_samples_are_weighted_sums.

(** the instruction [f.add_point((x, g, fx))] (proximal, linear-optimisation, Bregman, inexact-proximal,
    epsilon-subgradient steps): the pruned triple is recorded on [f], and when [f] is a composite it is the
    weighted sum of the samples the distribution recorded on the terms *)
Theorem C08_composite_add_point_records_weighted_sum :
  forall (a : args) (f x g fx : nat) (e : env) (s : Func.state) (cs : StepsFunc.clog),
  C07Inv.inv s -> StepsFunc.guard_s a (AddPoint f x g fx) (e, (s, cs)) = true ->
  let F := a_fun a f in
  let s' := Func.add_point s F (e_p e x, e_p e g, e_x e fx) in
  let t := (prune (e_p e x), prune (e_p e g), prune (e_x e fx)) in
  C07Inv.inv s' /\ In t (Func.f_pts (Func.getf s' F)) /\
  (Func.f_leaf (Func.getf s F) = false -> C08Composite.weighted_sum_at s' F t).
Proof. exact C08Composite.addpoint_composite_weighted_sum. Qed.
Print Assumptions C08_composite_add_point_records_weighted_sum.

(** the instruction [g, fx = f.oracle(p)] (inexact-gradient, line-search steps): what is returned is recorded
    on [f] at a point equal to the query, and for a composite it is the weighted sum of samples of the terms *)
Theorem C08_composite_oracle_returns_weighted_sum :
  forall (a : args) (f p g fx : nat) (e : env) (s : Func.state) (cs : StepsFunc.clog),
  C07Inv.inv s -> StepsFunc.guard_s a (Oracle f p g fx) (e, (s, cs)) = true ->
  let F := a_fun a f in
  let s' := fst (Func.oracle s F (e_p e p)) in
  let gd := fst (snd (Func.oracle s F (e_p e p))) in
  let vd := snd (snd (Func.oracle s F (e_p e p))) in
  C07Inv.inv s' /\
  exists x0, In (x0, gd, vd) (Func.f_pts (Func.getf s' F)) /\ dict_eqb Nat.eqb x0 (e_p e p) = true /\
             (Func.f_leaf (Func.getf s F) = false -> C08Composite.weighted_sum_at s' F (x0, gd, vd)).
Proof. exact C08Composite.oracle_composite_weighted_sum. Qed.
Print Assumptions C08_composite_oracle_returns_weighted_sum.

(** when the function IS a leaf, nothing changes: on states that describe the same leaves ([sim]: same
    counters, same flag / samples / side constraints for every leaf) the two interpreters return the same
    tuple or raise the same exception, leave the same environment (argument objects after in-place pruning)
    and again states that describe the same leaves -- instruction by instruction and for whole programs; so
    every [_records] / [_exact] / [_real] theorem above is a theorem about the composite-aware interpreter on
    leaf functions *)
Theorem C08_leaf_agreement_instruction :
  forall (a : args) (i : sinstr) (e : env) (rs : state) (fs : StepsFunc.fstate),
  C08Composite.sim rs fs -> C08Composite.leaf_args a (fst fs) ->
  match exec_s a i (e, rs), StepsFunc.exec_s a i (e, fs) with
  | inl (e1, rs'), inl (e2, fs') => e1 = e2 /\ C08Composite.sim rs' fs'
  | inr (x1, (e1, rs')), inr (x2, (e2, fs')) => x1 = x2 /\ e1 = e2 /\ C08Composite.sim rs' fs'
  | _, _ => False
  end.
Proof. exact C08Composite.exec_s_agree. Qed.
Print Assumptions C08_leaf_agreement_instruction.

Theorem C08_leaf_agreement_step :
  forall (name opt : string) (a : args) (rs : state) (fs : StepsFunc.fstate),
  C08Composite.sim rs fs -> C08Composite.leaf_args a (fst fs) ->
  fst (run_full (step_program name opt) a rs) = fst (StepsFunc.run_full (step_program name opt) a fs) /\
  fst (snd (run_full (step_program name opt) a rs)) = fst (snd (StepsFunc.run_full (step_program name opt) a fs)) /\
  C08Composite.sim (snd (snd (run_full (step_program name opt) a rs)))
                   (snd (snd (StepsFunc.run_full (step_program name opt) a fs))).
Proof. exact (fun name opt => C08Composite.run_agree (step_program name opt)). Qed.
Print Assumptions C08_leaf_agreement_step.

(** [sim] is inhabited for every function table: [rt_of fs] is its leaf-only view *)
Theorem C08_leaf_agreement_leaf_view :
  forall (prog : program) (a : args) (fs : StepsFunc.fstate),
  C08Composite.leaf_args a (fst fs) ->
  fst (run prog a (C08Composite.rt_of fs)) = fst (StepsFunc.run prog a fs) /\
  C08Composite.sim (snd (run prog a (C08Composite.rt_of fs))) (snd (StepsFunc.run prog a fs)).
Proof. exact C08Composite.run_agree_rt_of. Qed.
Print Assumptions C08_leaf_agreement_leaf_view.

(** (c) non-vacuity.  F = f0 + 2 f1 with f0 differentiable, f1 not; x0 the leaf point 0.
    proximal_step(x0, F, 1/2): guard true, invariant holds afterwards; returned x = x0 - gx/2, gx, fx;
    F records (x, gx, fx); f0 is evaluated at x with a fresh gradient P2 and value X1, f1 (the last term) receives
    the remainder (gx - P2)/2 and (fx - X1)/2. *)
Definition cex_ops : list Func.op :=
  [Func.NewPoint; Func.NewLeaf true; Func.NewLeaf false; Func.Combine [(0%nat, 1%Q); (1%nat, 2%Q)]].
Definition cex_prox_args : args := mk_args [[(0%nat, 1%Q)]] [2%nat] [(1 # 2)%Q] [].

Example C08_composite_proximal_step_example :
  Func.ops_ok cex_ops = true /\
  StepsFunc.ok_prog prog_proximal_step cex_prox_args (Func.run cex_ops, []) = true /\
  let s' := StepsFunc.run_state prog_proximal_step cex_prox_args (Func.run cex_ops, []) in
  C07InvB.inv_b s' = true /\
  match fst (StepsFunc.run prog_proximal_step cex_prox_args (Func.run cex_ops, [])) with
  | ROk [RP x; RP gx; RX fx] =>
      (dict_eqb Nat.eqb x [(0%nat, 1%Q); (1%nat, (-1 # 2)%Q)] && dict_eqb Nat.eqb gx [(1%nat, 1%Q)]
       && dict_eqb ekey_eqb fx [(KF 0, 1%Q)])%bool
  | _ => false
  end = true /\
  match Func.f_pts (Func.getf s' 2%nat), Func.f_pts (Func.getf s' 0%nat), Func.f_pts (Func.getf s' 1%nat) with
  | [(xF, gF, vF)], [(x0', g0, v0)], [(x1, g1, v1)] =>
      (dict_eqb Nat.eqb xF [(0%nat, 1%Q); (1%nat, (-1 # 2)%Q)] && dict_eqb Nat.eqb x0' xF && dict_eqb Nat.eqb x1 xF
       && dict_eqb Nat.eqb gF [(1%nat, 1%Q)] && dict_eqb ekey_eqb vF [(KF 0, 1%Q)]
       && dict_eqb Nat.eqb g0 [(2%nat, 1%Q)] && dict_eqb ekey_eqb v0 [(KF 1, 1%Q)]
       && dict_eqb Nat.eqb g1 [(1%nat, (1 # 2)%Q); (2%nat, (-1 # 2)%Q)]
       && dict_eqb ekey_eqb v1 [(KF 0, (1 # 2)%Q); (KF 1, (-1 # 2)%Q)])%bool
  | _, _, _ => false
  end = true.
Proof. vm_compute. repeat split; reflexivity. Qed.

(** inexact_gradient_step(x0, F, 1/2, 1/4, "relative") after f0.oracle(x0): f0 is differentiable and already
    evaluated (needs nothing), F's gradient P2 and value X1 are fresh, f1 receives the remainders; the side
    constraint |g - d|^2 <= eps^2 |g|^2 is recorded on F (function 2) with g = P2 the oracle output; the step
    returns x0 - d/2, d = P3, fx0 = X1. *)
Definition cex_ops2 : list Func.op := (cex_ops ++ [Func.Oracle 0%nat (PVar 0)])%list.
Definition cex_ig_args : args := mk_args [[(0%nat, 1%Q)]] [2%nat] [(1 # 2)%Q; (1 # 4)%Q] [].

Example C08_composite_inexact_gradient_step_example :
  Func.ops_ok cex_ops2 = true /\
  StepsFunc.ok_prog (step_program "inexact_gradient_step" "relative") cex_ig_args (Func.run cex_ops2, []) = true /\
  let out := StepsFunc.run (step_program "inexact_gradient_step" "relative") cex_ig_args (Func.run cex_ops2, []) in
  let s' := fst (snd out) in
  C07InvB.inv_b s' = true /\
  match fst out with
  | ROk [RP x; RP d; RX fx0] =>
      (dict_eqb Nat.eqb x [(0%nat, 1%Q); (3%nat, (-1 # 2)%Q)] && dict_eqb Nat.eqb d [(3%nat, 1%Q)]
       && dict_eqb ekey_eqb fx0 [(KF 1, 1%Q)])%bool
  | _ => false
  end = true /\
  match Func.f_pts (Func.getf s' 2%nat), Func.f_pts (Func.getf s' 0%nat), Func.f_pts (Func.getf s' 1%nat) with
  | [(xF, gF, vF)], [(_, g0, v0)], [(x1, g1, v1)] =>
      (dict_eqb Nat.eqb xF [(0%nat, 1%Q)] && dict_eqb Nat.eqb x1 xF
       && dict_eqb Nat.eqb gF [(2%nat, 1%Q)] && dict_eqb ekey_eqb vF [(KF 1, 1%Q)]
       && dict_eqb Nat.eqb g0 [(1%nat, 1%Q)] && dict_eqb ekey_eqb v0 [(KF 0, 1%Q)]
       && dict_eqb Nat.eqb g1 [(2%nat, (1 # 2)%Q); (1%nat, (-1 # 2)%Q)]
       && dict_eqb ekey_eqb v1 [(KF 1, (1 # 2)%Q); (KF 0, (-1 # 2)%Q)])%bool
  | _, _, _ => false
  end = true /\
  match StepsFunc.cons_of (snd (snd out)) 2%nat with
  | [(c, Ineq)] => dict_eqb ekey_eqb c [(KG 2 2, (15 # 16)%Q); (KG 2 3, (-1)%Q); (KG 3 2, (-1)%Q); (KG 3 3, 1%Q)]
  | _ => false
  end = true /\
  StepsFunc.cons_of (snd (snd out)) 0%nat = [] /\ StepsFunc.cons_of (snd (snd out)) 1%nat = [].
Proof. vm_compute. repeat split; reflexivity. Qed.

(** on a leaf the composite-aware interpreter and Model/StepsRT.v give the same answer (instance of
    [C08_leaf_agreement_leaf_view], computed) *)
Example C08_leaf_agreement_example :
  let fs := (Func.run cex_ops2, []) in
  let a := mk_args [[(0%nat, 1%Q)]] [0%nat] [(1 # 2)%Q; (1 # 4)%Q] [] in
  C08Composite.leaf_args a (fst fs) /\
  Dump.D_eqb (dump_result (fst (run (step_program "inexact_gradient_step" "absolute") a (C08Composite.rt_of fs))))
        (dump_result (fst (StepsFunc.run (step_program "inexact_gradient_step" "absolute") a fs))) = true.
Proof.
  intros fs a. split; [|vm_compute; reflexivity].
  intros k. replace (a_fun a k) with 0%nat by (destruct k as [|[|k]]; reflexivity).
  split; [vm_compute; repeat constructor|vm_compute; reflexivity].
Qed.

(** ** Closed forms of the guard for three of the generated steps (Proofs/C08CompositeSteps.v): conditions on the
    ARGUMENTS only, in every state that satisfies C07's invariant, for every function -- leaf or composite.
    (For the other steps the guard stays the computed [StepsFunc.ok_prog].) *)
From PV Require Proofs.C08CompositeSteps.

(** proximal_step(x0, F, gamma): F exists, x0 has unique keys over existing leaf points, gamma <> 0 *)
Theorem C08_composite_proximal_step_preserves_invariant :
  forall (x0 : pdict) (F : nat) (gamma : Q) (s : Func.state) (cs : StepsFunc.clog),
  C07Inv.inv s -> (F < C07Inv.nfun s)%nat -> Func.pwf_b s x0 = true -> ~ (gamma == 0)%Q ->
  C07Inv.inv (StepsFunc.run_state prog_proximal_step (mk_args [x0] [F] [gamma] []) (s, cs)).
Proof. exact C08CompositeSteps.proximal_step_composite_inv. Qed.
Print Assumptions C08_composite_proximal_step_preserves_invariant.

(** ... and the triple (x0 - gamma gx, gx, fx) it records on a composite F is the F-weighted sum of the samples
    the distribution makes the terms of F record at that point *)
Theorem C08_composite_proximal_step_sample_is_weighted_sum :
  forall (x0 : pdict) (F : nat) (gamma : Q) (s : Func.state) (cs : StepsFunc.clog),
  C07Inv.inv s -> (F < C07Inv.nfun s)%nat -> Func.f_leaf (Func.getf s F) = false ->
  Func.pwf_b s x0 = true -> ~ (gamma == 0)%Q ->
  let s' := StepsFunc.run_state prog_proximal_step (mk_args [x0] [F] [gamma] []) (s, cs) in
  let gx := [(Func.pt_ctr s, 1%Q)] in
  let t := (prune (p_sub x0 (p_scal gamma gx)), prune gx, prune [(KF (Func.ex_ctr s), 1%Q)]) in
  In t (Func.f_pts (Func.getf s' F)) /\ C08Composite.weighted_sum_at s' F t.
Proof. exact C08CompositeSteps.proximal_step_composite_sample. Qed.
Print Assumptions C08_composite_proximal_step_sample_is_weighted_sum.

(** inexact_gradient_step(x0, F, gamma, eps, notion), every notion (valid, default, invalid): F exists, x0 has
    unique keys over existing leaf points and no explicit zero coefficient (F-C07b) -- exactly the guard *)
Theorem C08_composite_inexact_gradient_step_guard :
  forall (prog : program) (x0 : pdict) (F : nat) (gamma eps : Q) (s : Func.state) (cs : StepsFunc.clog),
  prog = prog_inexact_gradient_step_absolute \/ prog = prog_inexact_gradient_step_relative \/
  prog = prog_inexact_gradient_step_invalid ->
  StepsFunc.ok_prog prog (mk_args [x0] [F] [gamma; eps] []) (s, cs) =
  (Func.in_range s F && Func.pwf_b s x0 && Func.allnz_b x0)%bool.
Proof. exact C08CompositeSteps.inexact_gradient_guard. Qed.
Print Assumptions C08_composite_inexact_gradient_step_guard.

Theorem C08_composite_inexact_gradient_step_preserves_invariant :
  forall (opt : string) (x0 : pdict) (F : nat) (gamma eps : Q) (s : Func.state) (cs : StepsFunc.clog),
  C07Inv.inv s -> (F < C07Inv.nfun s)%nat -> Func.pwf_b s x0 = true -> Func.allnz_b x0 = true ->
  C07Inv.inv (StepsFunc.run_state (step_program "inexact_gradient_step" opt) (mk_args [x0] [F] [gamma; eps] []) (s, cs)).
Proof. exact C08CompositeSteps.inexact_gradient_step_composite_inv. Qed.
Print Assumptions C08_composite_inexact_gradient_step_preserves_invariant.

(** linear_optimization_step(dir, F): F exists, dir has unique keys *)
Theorem C08_composite_linear_optimization_step_preserves_invariant :
  forall (dir : pdict) (F : nat) (s : Func.state) (cs : StepsFunc.clog),
  C07Inv.inv s -> (F < C07Inv.nfun s)%nat -> NoDupKeys nat dir ->
  C07Inv.inv (StepsFunc.run_state prog_linear_optimization_step (mk_args [dir] [F] [] []) (s, cs)).
Proof. exact C08CompositeSteps.linear_optimization_step_composite_inv. Qed.
Print Assumptions C08_composite_linear_optimization_step_preserves_invariant.
