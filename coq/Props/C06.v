(** C06 — Point / expression algebra is a faithful vector-space and inner-product calculus.
    Property theorems only; proofs live in Proofs/SemLemmas.v and Proofs/DictLemmas.v; the no-mutation clause is a
    generated decidable obligation (Model/PurityPlan.v over Gen/Purity.v). *)
From Coq Require Import List QArith Reals Qreals Lra.
From PV Require Import Base.IPS Model.Dict Model.Terms Spec.Sem Proofs.DictLemmas Proofs.SemLemmas.
From Coq Require Import String.
From PV Require Import Model.PurityPlan Gen.Purity.
Import ListNotations.
Local Open Scope R_scope.

(** For every finite tree of DSL operators over points, every inner-product space, every valuation
    of the leaves and every scalar (zero, negative, repeated operands, cancellations, mirrored
    products are all just trees): the dictionary computed by the operator overloads evaluates to the
    mathematical meaning of the tree.  Variables may be bound to arbitrary well-formed objects. *)
Theorem C06_tree_points :
  forall (E : ips) (rho : nat -> E) (penv : nat -> Q) (vp : nat -> pdict),
    (forall v, NoDupKeys nat (vp v)) ->
    forall t, pdef (fun p => Q2R (penv p)) t ->
      veq (evalP rho (compileP penv vp t))
          (denoteP (fun p => Q2R (penv p)) (fun v => evalP rho (vp v)) t).
Proof. exact (@compileP_denote). Qed.

Theorem C06_tree_expressions :
  forall (E : ips) (rho : nat -> E) (phi : nat -> R) (penv : nat -> Q) (vp : nat -> pdict) (vx : nat -> edict),
    (forall v, NoDupKeys nat (vp v)) -> (forall v, NoDupKeys ekey (vx v)) ->
    forall t, xdef (fun p => Q2R (penv p)) t ->
      evalE rho phi (compileX penv vp vx t)
      = denoteX (fun p => Q2R (penv p)) (fun v => evalP rho (vp v)) (fun v => evalE rho phi (vx v)) t.
Proof. exact (@compileX_denote). Qed.

(** A comparison yields a constraint whose expression is left-minus-right (right-minus-left for >=,
    the same up to sign for a reflected ==) with the sense written ... *)
Theorem C06_comparisons :
  forall (E : ips) (rho : nat -> E) (phi : nat -> R) (penv : nat -> Q) (vp : nat -> pdict) (vx : nat -> edict),
    (forall v, NoDupKeys nat (vp v)) -> (forall v, NoDupKeys ekey (vx v)) ->
    forall t, cdef (fun p => Q2R (penv p)) t ->
      (evalE rho phi (fst (compileC penv vp vx t)), snd (compileC penv vp vx t))
      = lhs_minus_rhs (fun p => Q2R (penv p)) (fun v => evalP rho (vp v)) (fun v => evalE rho phi (vx v)) t.
Proof. exact (@compileC_denote). Qed.

(** ... hence the constraint object holds exactly when the comparison written in the source does. *)
Theorem C06_constraint_meaning :
  forall (E : ips) (rho : nat -> E) (phi : nat -> R) (penv : nat -> Q) (vp : nat -> pdict) (vx : nat -> edict),
    (forall v, NoDupKeys nat (vp v)) -> (forall v, NoDupKeys ekey (vx v)) ->
    forall t, cdef (fun p => Q2R (penv p)) t ->
      (holds rho phi (compileC penv vp vx t)
       <-> denoteC (fun p => Q2R (penv p)) (fun v => evalP rho (vp v)) (fun v => evalE rho phi (vx v)) t).
Proof. exact (@compileC_holds). Qed.

(** Every operator returns a dictionary with unique keys (the representation invariant the other
    theorems assume of variables is re-established by every result). *)
Theorem C06_wf :
  forall (penv : nat -> Q) (vp : nat -> pdict) (vx : nat -> edict),
    (forall v, NoDupKeys nat (vp v)) -> (forall v, NoDupKeys ekey (vx v)) ->
    (forall t, NoDupKeys nat (compileP penv vp t)) /\
    (forall t, NoDupKeys ekey (compileX penv vp vx t)) /\
    (forall t, NoDupKeys ekey (fst (compileC penv vp vx t))).
Proof.
  intros penv vp vx Hp Hx. split; [|split]; intro t.
  - exact (compileP_wf penv vp Hp t).
  - exact (compileX_wf penv vp vx Hp Hx t).
  - exact (compileC_wf penv vp vx Hp Hx t).
Qed.

(** Pruning removes exactly the entries whose coefficient is zero. *)
Theorem C06_prune_exact :
  forall (K : Type) (d : dict K) k v, In (k, v) (prune d) <-> (In (k, v) d /\ ~ (v == 0)%Q).
Proof.
  intros K d k v. split.
  - intros H. split; [|exact (prune_nonzero K d k v H)]. apply filter_In in H. tauto.
  - intros [H1 H2]. exact (prune_keeps K d k v H1 H2).
Qed.

(** Non-vacuity: a concrete tree with a cancellation, a zero scalar and a mirrored product; the
    hypotheses of the theorems above are met (on the real line) and the compiled constraint is
    3 - f0 - <x0,x1> + <x1,x1> <= 0, the zero-weight mirrored key having been pruned. *)
Example C06_example :
  let t := CGe (XAdd (XInner (PSub (PVar 0) (PVar 1)) (PVar 1)) (XInner (PVar 1) (PScal (SNum 0) (PVar 0))))
               (XSSub (SNum (3 # 1)) (XVar 0)) in
  let c := compileC (fun _ => 0%Q) (fun v => [(v, 1%Q)]) (fun v => [(KF v, 1%Q)]) t in
  cdef (fun _ => 0) t
  /\ dict_eqb ekey_eqb (fst c) [(KG 0 1, (-1) # 1); (KG 1 1, 1 # 1); (KF 0, (-1) # 1); (K1, 3 # 1)]%Q = true
  /\ snd c = Ineq.
Proof. cbv zeta. split; [cbn; tauto|]. split; vm_compute; reflexivity. Qed.

Local Open Scope string_scope.

(** "Operations never alter their operands", as an obligation over the SOURCE, regenerated on every run
    (translator/tr_purity.py, fail-closed, -> Gen/Purity.v).  In every operator method of class Point and class Expression
    (binary, reflected, unary, comparison, and any in-place dunder that may be added), in the three constructors they call
    (where only the object under construction may be written) and in the dictionary helpers merge_dict / prune_dict /
    multiply_dicts / symmetrize_dict -- all of which must be present -- no statement stores into, deletes from, updates in
    place, or calls a mutating method on, an object that may be reachable from a parameter (`self`, `other`, the dict
    arguments), no such object is handed to code outside the analysed set, nothing lies outside the grammar of the
    analysis, and every helper returns a fresh dictionary.  The only writes found are the class counters / registries
    updated by the constructors ([PGlobal], listed in Gen/Purity.v). *)
Theorem C06_operators_do_not_write_operands :
  purity_ok analysed purity_items helper_returns_fresh = true.
Proof. vm_compute. reflexivity. Qed.

(** Non-vacuity of the obligation: the same generated lists are rejected as soon as one write through an operand is
    added (the accumulating `__add__`), one item is outside the grammar, one expected method has not been analysed, or one
    helper may hand back its argument. *)
Example C06_purity_obligation_rejects :
  purity_ok analysed (PWrite WSubscript "Expression.__add__" "self.decomposition_dict[key] = value" :: purity_items)
            helper_returns_fresh = false
  /\ purity_ok analysed (POther "Point.__sub__" "nested function" :: purity_items) helper_returns_fresh = false
  /\ purity_ok (filter (fun e => negb (pair_eqb e ("Point", "__rmul__"))) analysed) purity_items helper_returns_fresh = false
  /\ purity_ok analysed purity_items (("merge_dict", false) :: helper_returns_fresh) = false
  /\ purity_ok analysed purity_items [] = false.
Proof. vm_compute. repeat split; reflexivity. Qed.

Print Assumptions C06_tree_points.
Print Assumptions C06_tree_expressions.
Print Assumptions C06_comparisons.
Print Assumptions C06_constraint_meaning.
Print Assumptions C06_wf.
Print Assumptions C06_prune_exact.
Print Assumptions C06_operators_do_not_write_operands.
