(** C13 — solving again gives fresh, consistent answers.
    Property theorems only; proofs live in Proofs/C13Sent.v, C13Main.v, C13Fresh.v (and C02Cache.v).
    Model: Model/Resolve.v (one solve after another: fresh objective leaf, class / partition
    constraints reset-then-filled, fresh tracking lists, duals of the sent items, leaf values
    overwritten, check_feasibility caching every sent item, early return on a failed solve) over
    Model/Eval.v (eval with caches). *)
From Coq Require Import List QArith Bool Arith.
From PV Require Import Model.Dict Model.Terms Model.Dump Model.Sent Model.Eval Model.Resolve
  Proofs.C02Cache Proofs.C13Sent Proofs.C13Main Proofs.C13Fresh Proofs.C13Created.
Import ListNotations.
Local Open Scope nat_scope.

(** Invariants of EVERY op sequence: the PEP's lists refer to existing objects ([closed]), the metric
    dictionaries mention registered leaves only (so the next objective leaf is fresh), every stored
    constraint / LMI refers to existing expressions. *)
Theorem C13_invariants : forall ops, inv (final ops) /\ store_ok (es (final ops)).
Proof. exact (fun ops => conj (final_inv ops) (final_store_ok ops)). Qed.

(** What solve k hands to the wrapper, whatever happened before (earlier solves -- finite or not --,
    evaluations, caches, duals, tracking lists): exactly [sent_of] of the DECLARED model (metric
    dictionaries, conditions, LMIs, what the classes / partitions generate now) at the index of the
    fresh objective leaf.  A newly built model with the same declarations sends [sent_of] of the same
    declarations at ITS objective index. *)
Theorem C13_sent_fresh :
  forall s a, closed s ->
    map (item_of (es (solve s a))) (wsent (solve s a)) = sent_of (decl_of s) (length (lev (es s)))
    /\ Forall (item_ok (es (solve s a))) (wsent (solve s a)).
Proof. exact sent_fresh. Qed.

(** ... and two objective indices change nothing but that index: the metric rows are
    [(tau, 1) :: prune (- m)], the rest does not mention tau. *)
Theorem C13_sent_up_to_objective_index :
  forall d o, (forall m, In m (d_metrics d) -> nokey o m) ->
    sent_of d o = map (fun m => SC ((KF o, 1%Q) :: prune (x_neg m)) Ineq) (d_metrics d) ++ rest_of d.
Proof. exact sent_of_fresh_form. Qed.

(** the dump compared with the implementation by the correspondence stream is the dump of [item_of] *)
Theorem C13_dump_is_item : forall st r, item_ok st r -> dump_sent_item st r = dump_item (item_of st r).
Proof. exact dump_sent_item_item_of. Qed.

(** No growth, at full strength (class LMIs and partition constraints included): for every reachable
    state [s] and every sequence of ops that does not edit the model (solves -- finite or failed --,
    evaluations, creation of objects and leaves), the next solve sends item by item the same shapes
    (scalar / LMI, number of non-zero coefficients) as a solve in [s]; hence equal numbers of scalar
    constraints, LMIs, non-zeros. *)
Theorem C13_no_growth :
  forall s ops a a', inv s -> forallb (fun o => negb (editing o)) ops = true ->
    map shape (sent_at (solve (fst (run s ops)) a')) = map shape (sent_at (solve s a)).
Proof. exact no_growth. Qed.

Theorem C13_no_growth_counts :
  forall s ops a a', inv s -> forallb (fun o => negb (editing o)) ops = true ->
    let k := sent_at (solve (fst (run s ops)) a') in let k1 := sent_at (solve s a) in
    n_scalars k = n_scalars k1 /\ n_lmis k = n_lmis k1 /\ nnz k = nnz k1 /\ length k = length k1.
Proof. exact no_growth_counts. Qed.

(** Fresh values, under the guard: when the solver is called the object [x] and the expressions it
    refers to hold no cache.  After the finite solve and ANY ops that do not solve again (leaf points
    may be created since the repair e997f00), [eval] returns the cache-free value of [x] over the leaf
    tables, which are solution k followed by unassigned new leaves.  Only the empty combination
    [KPoint []] is excluded (F-C02b). *)
Theorem C13_fresh_partial :
  forall ops0 sol ops x o,
    let s := final ops0 in
    let n := length (lpv (es s)) in
    let s2 := fst (run (solve s (Some sol)) ops) in
    clean (es (prepare s)) x -> x < length (objs (es (solve s (Some sol)))) ->
    forallb quiet ops = true ->
    get_obj (es s2) x = Some o -> okind_of o <> KPoint [] ->
    snd (eval_obj (es s2) x) = pure_obj n (es s2) (okind_of o)
    /\ tail_none (map (fun i => Some (column (sP sol) i)) (seq 0 n)) (lpv (es s2))
    /\ tail_none (map (fun i => Some (nth i (sF sol) 0%Q)) (seq 0 (S (length (lev (es s)))))) (lev (es s2)).
Proof. exact fresh_partial. Qed.

(** The guard on the state BEFORE the solve: objects that exist then must hold no cache (on
    themselves and on the expressions they refer to); everything the pipeline creates at the solve
    (class constraints, class LMIs and their entries, partition constraints, metric rows) satisfies
    the guard by construction. *)
Theorem C13_guard_before_solve :
  forall s x, (x < length (objs (es s)) -> clean (es s) x) -> clean (es (prepare s)) x.
Proof. exact guard_before_solve. Qed.

(** ... and with the decidable guard [cleanb] evaluated on the history before solve k: *)
Theorem C13_fresh_partial_guard :
  forall ops0 sol ops x o,
    let s := final ops0 in
    let n := length (lpv (es s)) in
    let s2 := fst (run (solve s (Some sol)) ops) in
    (x < length (objs (es s)) -> cleanb (es s) x = true) ->
    x < length (objs (es (solve s (Some sol)))) ->
    forallb quiet ops = true ->
    get_obj (es s2) x = Some o -> okind_of o <> KPoint [] ->
    snd (eval_obj (es s2) x) = pure_obj n (es s2) (okind_of o).
Proof. exact fresh_partial_guard. Qed.

(** objects built after the solve by the operators (no cache, no reference) are covered as well *)
Theorem C13_fresh_new_object :
  forall m s k ops o,
    (forall e, In e (refs_of k) -> False) -> k <> KPoint [] -> store_ok (es s) ->
    let x := length (objs (es s)) in
    let s2 := fst (run (with_es s (new_obj (es s) k)) ops) in
    forallb quiet ops = true -> get_obj (es s2) x = Some o ->
    snd (eval_obj (es s2) x) = pure_obj m (es s2) (okind_of o).
Proof. exact fresh_new_object. Qed.

(** The certificate of the latest solve: the item sent at position k carries the dual the wrapper
    returned at position k (no constraint object added twice). *)
Theorem C13_duals_latest :
  forall s sol k r d,
    closed s -> let s1 := solve s (Some sol) in
    NoDup (wsent s1) -> nth_error (wsent s1) k = Some r -> nth_error (sDual sol) k = Some d ->
    eval_dual (es s1) r = Ok d.
Proof. exact duals_latest. Qed.

(** Own constraints and LMIs of the functions (Function.add_constraint / add_psd_matrix, leaf and composite
    functions) are part of [decl_of] / [sent_of] (field [d_own]), hence covered by C13_sent_fresh and
    C13_no_growth.  The filter "has an own constraint OR an own LMI" of the sending loop drops nothing: every own
    item of every function -- also of a function that has ONLY an own LMI -- is sent. *)
Theorem C13_own_items_all_sent : forall s, own_refs s = flat_map (fun f => fst f ++ snd f) (fown s).
Proof. exact own_refs_all. Qed.

(** A solve with a dimension-reduction heuristic ([SolveH first rest]: the finite answer, then the answers of
    the heuristic re-solves): every sent item carries the dual of the FIRST answer (the certificate of the
    original problem), the leaf values are those of the LAST answer.  It is [solve s (Some (answer_of first rest))],
    so C13_sent_fresh / C13_fresh_partial / C13_no_growth apply with that answer, in any order with plain solves. *)
Theorem C13_heuristic_solve :
  forall s first rest,
    closed s ->
    let s1 := fst (step s (SolveH first rest)) in
    let lastS := last rest first in
    (forall k r d, NoDup (wsent s1) -> nth_error (wsent s1) k = Some r -> nth_error (sDual first) k = Some d ->
                   eval_dual (es s1) r = Ok d)
    /\ lpv (es s1) = map (fun i => Some (column (sP lastS) i)) (seq 0 (length (lpv (es s))))
    /\ lev (es s1) = map (fun i => Some (nth i (sF lastS) 0%Q)) (seq 0 (S (length (lev (es s))))).
Proof. exact heuristic_solve. Qed.

(** The CVXPY problem of a dimension-reduction heuristic has the rows of that solve's original problem plus
    exactly ONE (the bound [objective >= wc - tol]) over the same variables (F, G, one M per LMI) -- numbers that
    depend on the declared model only, at every solve index and in every history ... *)
Theorem C13_heuristic_rows :
  forall s a, closed s ->
    let l := sent_at (solve s a) in
    cvx_heuristic_rows l = S (cvx_rows l)
    /\ cvx_rows l = cvx_rows (sent_of (decl_of s) 0) /\ cvx_vars l = cvx_vars (sent_of (decl_of s) 0).
Proof. exact heuristic_rows. Qed.

(** ... hence they do not grow with the number of (heuristic or plain, finite or failed) solves. *)
Theorem C13_heuristic_rows_no_growth :
  forall s ops a a', inv s -> forallb (fun o => negb (editing o)) ops = true ->
    let k := sent_at (solve (fst (run s ops)) a') in let k1 := sent_at (solve s a) in
    cvx_heuristic_rows k = cvx_heuristic_rows k1 /\ cvx_rows k = cvx_rows k1 /\ cvx_vars k = cvx_vars k1.
Proof. exact heuristic_rows_no_growth. Qed.

(** F-C13a: a held object whose cache dates from solve 1 keeps that number after solve 2, while a
    new object with the SAME dictionary evaluates to solution 2. *)
Theorem C13_refuted_stale :
  exists ops r r', ops = c13a_prog /\
    okind_of (nth r (objs (es (final ops))) (mkObj (KPoint []) None None)) =
    okind_of (nth r' (objs (es (final ops))) (mkObj (KPoint []) None None)) /\
    snd (eval_obj (es (final ops)) r') = Ok (VNum 4%Q) /\ snd (eval_obj (es (final ops)) r) = Ok (VNum 1%Q)
    /\ pure_obj 2 (es (final ops)) (KExpr dist2) = Ok (VNum 4%Q).
Proof. exact refuted_stale. Qed.

(** F-C13d: a solve without a finite value leaves every leaf value in place (mechanism) ... *)
Theorem C13_failed_solve_keeps_leaves :
  forall s, closed s ->
    lpv (es (solve s None)) = lpv (es s) /\ lev (es (solve s None)) = lev (es s) ++ [None].
Proof. exact failed_solve_keeps_leaves. Qed.

(** ... so a held object still answers with the numbers of the previous solve, whereas the same model
    newly built and solved (unbounded) raises "must be solved". *)
Theorem C13_refuted_failed :
  snd (eval_obj (es (final (removelast (removelast (removelast (removelast c13d_prog)))))) 0) = Ok (VNum 1%Q)
  /\ snd (eval_obj (es (final c13d_fresh_prog)) 0) = Raise EUnsolved.
Proof. exact refuted_failed. Qed.

(** Non-vacuity of the guard of C13_fresh_partial and of no-growth: a model with one class template
    (one scalar constraint, one 1x1 LMI) and one partition equality, solved twice; an object created
    between the solves is clean when the second solver call happens and evaluates to solution 2; the
    two solves send 4 items each (1 metric row, 1 class constraint, 1 class LMI, 1 partition equality). *)
Definition c13_ex : list op :=
  [NewLeafP; NewLeafP; NewLeafE; AddMetric (ELeaf 0);
   SetTemplates [mkFT [([(KG 0 1, 1%Q)], Ineq)] [[[[(KG 0 0, 1%Q)]]]]] [[[(KG 1 1, 1%Q)]]];
   Solve (Some (mkSol [[1%Q; 0%Q]; [0%Q; 0%Q]] [1%Q; 1%Q] [VNum 1%Q; VNum 2%Q; VMat [[3%Q]]; VNum 4%Q]));
   MkExpr dist2].
Example C13_example :
  let s := final c13_ex in
  let x := 8 in
  let sol2 := mkSol [[3%Q; 0%Q]; [0%Q; 0%Q]] [5%Q; 5%Q; 5%Q] [VNum 1%Q; VNum 2%Q; VMat [[3%Q]]; VNum 4%Q] in
  okind_of (nth x (objs (es s)) (mkObj (KPoint []) None None)) = KExpr dist2
  /\ clean (es (prepare s)) x
  /\ snd (eval_obj (es (solve s (Some sol2))) x) = Ok (VNum 9%Q)
  /\ length (wsent s) = 4 /\ length (wsent (solve s (Some sol2))) = 4
  /\ eval_dual (es (solve s (Some sol2))) 12 = Ok (VMat [[3%Q]]).
Proof.
  cbv zeta. split; [vm_compute; reflexivity|]. split.
  - intros o. vm_compute. intros [= <-]. split; [reflexivity|intros r' []].
  - repeat split; vm_compute; reflexivity.
Qed.

Print Assumptions C13_invariants.
Print Assumptions C13_sent_fresh.
Print Assumptions C13_sent_up_to_objective_index.
Print Assumptions C13_dump_is_item.
Print Assumptions C13_no_growth.
Print Assumptions C13_no_growth_counts.
Print Assumptions C13_fresh_partial.
Print Assumptions C13_guard_before_solve.
Print Assumptions C13_fresh_partial_guard.
Print Assumptions C13_fresh_new_object.
Print Assumptions C13_duals_latest.
Print Assumptions C13_own_items_all_sent.
Print Assumptions C13_heuristic_solve.
Print Assumptions C13_heuristic_rows.
Print Assumptions C13_heuristic_rows_no_growth.
Print Assumptions C13_refuted_stale.
Print Assumptions C13_failed_solve_keeps_leaves.
Print Assumptions C13_refuted_failed.
