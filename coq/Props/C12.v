(** C12 — a model's result does not depend on what happened earlier in the process.
    Property theorems only; proofs live in Proofs/C12Reset.v.  The lists [class_attrs], [mutations],
    [reset_fields], [module_objects], [opaque_writes], [container_writes], [init_resets_first]
    (Gen/Globals.v) and [verbose_uses] (Gen/Guards.v) are regenerated from PEPit's sources on every check. *)
From Coq Require Import List String ZArith Bool.
From PV Require Import Model.Reset Gen.Globals Gen.Guards Proofs.C12Reset.
Import ListNotations.
Open Scope string_scope.

(** The reset is total.  (1) Every counter and registry declared in any class body of PEPit is assigned by
    [PEP._reset_classes], to the value it has in a fresh interpreter (PEP.counter included).  (2) Every class
    attribute that is written anywhere in PEPit -- declared in a class body or created on the fly -- is
    assigned by it.  (3) No class state is written in a way the scan cannot attribute (cls.x, type(self).x,
    setattr, global, mutable default arguments), no module-level container is written, and
    [self._reset_classes()] is the first statement of [PEP.__init__].  (4) Consequently, after [PEP()] each
    declared counter / registry holds its fresh-interpreter value whatever the state before. *)
Theorem C12_reset_total :
  (forall c a i, In (c, a, i) class_attrs -> is_mutable i = true -> In (c, a, i) reset_fields)
  /\ (forall c a o, In (c, a, o) mutations -> exists i, In (c, a, i) reset_fields)
  /\ (opaque_writes = [] /\ container_writes = [] /\ init_resets_first = true /\ statements_before_reset = [])
  /\ (forall g c a i, In (c, a, i) class_attrs -> is_mutable i = true ->
                      reset_with (fields_of reset_fields) g (c, a) = val_of_init i).
Proof.
  split; [exact reset_total_forall|]. split; [exact mutated_forall|]. split; [exact gen_no_opaque|].
  exact reset_restores_initial.
Qed.

(** The state machine of Model/Reset.v leaves no global out: its operations touch exactly the class
    attributes that PEPit's code writes, and all of them are declared in class bodies. *)
Theorem C12_model_covers_sources :
  covers model_keys (keys3 mutations) = true /\ covers (keys3 mutations) model_keys = true
  /\ covers (keys3 class_attrs) model_keys = true.
Proof. exact gen_model_keys_exact. Qed.

(** History cannot leak through class-level state: for ALL states s, s' (whatever models were built,
    solved, failed or abandoned before) and ALL programs that start with [PEP()] and do not evaluate the
    shared [null_point], the indices handed out, the globals read by solve() and the final registries are
    the same.  [reset_fields] is the generated list of assignments of [_reset_classes]. *)
Theorem C12_noninterference :
  forall (prog : list op) (s s' : pstate),
    no_null_eval prog = true ->
    fst (run (fields_of reset_fields) (NewPEP :: prog) s) = fst (run (fields_of reset_fields) (NewPEP :: prog) s')
    /\ (forall k, In k model_keys ->
                  glob (snd (run (fields_of reset_fields) (NewPEP :: prog) s)) k
                  = glob (snd (run (fields_of reset_fields) (NewPEP :: prog) s')) k).
Proof. exact (noninterference gen_fields gen_covers). Qed.

(** The same, for an arbitrary reset list: non-interference holds as soon as the reset assigns every
    attribute the operations touch (this is what a deleted line of [_reset_classes] falsifies). *)
Theorem C12_noninterference_generic :
  forall fields, covers (map fst fields) model_keys = true ->
  forall (prog : list op) (s s' : pstate),
    no_null_eval prog = true ->
    fst (run fields (NewPEP :: prog) s) = fst (run fields (NewPEP :: prog) s').
Proof. intros fields Hc prog s s' Hn. exact (proj1 (noninterference fields Hc prog s s' Hn)). Qed.

(** Residual state.  The only process-global DSL objects outside the classes are the two null objects;
    they are not reset, and no function of PEPit writes to them (no attribute / dictionary write, no
    set_name, no class defines an in-place operator such as __iadd__).  The cached value of [null_point] leaks: the program
    [PEP(); Point(); null_point.eval()] yields a vector of length 1 in a fresh interpreter and of length 3
    after the history [PEP(); Point() x3; null_point.eval()]  (finding F-C12a). *)
Theorem C12_residual_is_null_objects :
  map (fun t => snd (fst t)) module_objects = ["null_expression"; "null_point"]
  /\ module_object_writes = [].
Proof. exact gen_residual. Qed.

(** ... and no function of PEPit hands a null object out: in the sources (regenerated list of every read of them inside a
    function) they only start an accumulation (`acc = null_point; acc += p`) or are an operand of + / -, which build new
    objects; none is returned, recorded in a sample, stored or passed on, so their never-reset value cache cannot become
    the value of a user-visible gradient or block. *)
Theorem C12_null_objects_do_not_escape : forallb use_ok module_object_uses = true.
Proof. exact gen_null_objects_do_not_escape. Qed.

(** ... but it leaks nowhere else: for ALL programs starting with [PEP()] (null_point.eval() allowed), every
    output other than the length returned by null_point.eval() itself, and every counter / registry, is the
    same from any two states: the cache cannot reach the solver input. *)
Theorem C12_null_cache_stays_out_of_globals :
  forall (prog : list op) (s s' : pstate),
    map mask (fst (run (fields_of reset_fields) (NewPEP :: prog) s))
    = map mask (fst (run (fields_of reset_fields) (NewPEP :: prog) s'))
    /\ (forall k, In k model_keys ->
                  glob (snd (run (fields_of reset_fields) (NewPEP :: prog) s)) k
                  = glob (snd (run (fields_of reset_fields) (NewPEP :: prog) s')) k).
Proof. exact (noninterference_masked gen_fields gen_covers). Qed.

Theorem C12_null_point_leak_refuted :
  exists (hist prog : list op) (s0 : pstate),
    hd_error prog = Some NewPEP /\
    fst (run (fields_of reset_fields) prog s0)
    <> fst (run (fields_of reset_fields) prog (snd (run (fields_of reset_fields) hist s0))).
Proof. exists leak_history, leak_program, fresh_interpreter. split; [reflexivity|exact null_leak]. Qed.

(** Verbosity.  Every use of [verbose] in pep.py, wrapper.py and wrappers/*.py is a parameter declaration,
    the test of a print-only block, the forwarding to a wrapper constructor / to a method of the same
    class / into [self.verbose], or the test of a block that only switches the solver's own log on; and a
    program in which verbose occurs only in these ways sends the same data for every verbosity. *)
Theorem C12_verbosity :
  forallb (fun u => vuse_ok (snd u)) verbose_uses = true
  /\ (forall p, vclean p = true -> forall v v', sent (vexec v p) = sent (vexec v' p)).
Proof. split; [exact gen_verbose_uses_ok|exact vexec_sent_indep]. Qed.

(** Non-vacuity: a program with every kind of constructor, run from a fresh interpreter and after a
    history that used every counter; the outputs (indices 0.., the globals) are equal and non-trivial. *)
Example C12_example :
  let prog := [NewPoint; NewExpression; NewFunction true; NewLinearOperator; NewFunction false; NewConstraint;
               NewPSD; NewPartition; NewPoint; ReadGlobals] in
  let hist := [NewPEP; NewPoint; NewPoint; NewFunction true; NewLinearOperator; NewPSD; NewPSD; NewConstraint;
               NewPartition; NewExpression] in
  let f := fields_of reset_fields in
  no_null_eval prog = true
  /\ fst (run f (NewPEP :: prog) (init_state (fields_of class_attrs)))
     = fst (run f (NewPEP :: prog) (snd (run f hist (init_state (fields_of class_attrs)))))
  /\ fst (run f (NewPEP :: prog) (init_state (fields_of class_attrs)))
     = [OIdx 0; OIdx 0; OIdx 0; OIdx 0; OIdx 1; ONone; OIdx 0; OIdx 0; OIdx 0; OIdx 1;
        OState [VN 2; VL [Some 0; Some 1]; VN 1; VL [Some 0]; VN 2; VL [Some 0; Some 1; None; None]; VN 1; VN 1;
                VN 1; VL [Some 0]; VN 1]]%Z
  /\ fst (run f prog (snd (run f hist (init_state (fields_of class_attrs)))))
     <> fst (run f prog (init_state (fields_of class_attrs))).
Proof.
  cbv zeta. split; [reflexivity|]. split; [vm_compute; reflexivity|]. split; [vm_compute; reflexivity|].
  vm_compute. discriminate.
Qed.

Print Assumptions C12_reset_total.
Print Assumptions C12_model_covers_sources.
Print Assumptions C12_noninterference.
Print Assumptions C12_noninterference_generic.
Print Assumptions C12_residual_is_null_objects.
Print Assumptions C12_null_cache_stays_out_of_globals.
Print Assumptions C12_null_point_leak_refuted.
Print Assumptions C12_verbosity.
Print Assumptions C12_null_objects_do_not_escape.
