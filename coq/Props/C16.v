(** C16 — no number without a solution: failures are reported, not fabricated.
    Property theorems only; proofs live in Proofs/C16Accessors.v.  The accessor shapes [h_Point_eval],
    [h_Expression_eval], [h_Constraint_eval], [h_PSDMatrix_eval], [h_Constraint_eval_dual],
    [h_PSDMatrix_eval_dual], the plan [post_solve_plan], [value_writers], [writer_callers], [opt_return] and
    [opt_heuristic] (Gen/Handlers.v) are regenerated from PEPit's sources on every check. *)
From Coq Require Import List String Bool.
From PV Require Import Model.Accessors Gen.Handlers Proofs.C16Accessors.
From PV Require Import Model.EntryPlan Gen.Entry.
Import ListNotations.
Open Scope string_scope.

(** the accessors of the six DSL classes, with the control structure read from the sources *)
Definition point_eval (dim : nat) := eval_point h_Point_eval dim.
Definition expression_eval (dim : nat) := eval_expr h_Point_eval h_Expression_eval dim.
Definition constraint_eval (dim : nat) := eval_constraint h_Point_eval h_Expression_eval h_Constraint_eval dim.
Definition psd_eval (dim : nat) := eval_psd h_Point_eval h_Expression_eval h_PSDMatrix_eval dim.
Definition constraint_eval_dual := eval_dual_constraint h_Constraint_eval_dual.
Definition psd_eval_dual := eval_dual_psd h_PSDMatrix_eval_dual.

(** Unsolved objects raise ValueError -- never another class, never a number.
    For every point (leaf, or combination of points of ANY depth), every expression / constraint / LMI the
    API can build (keys: leaf expressions, pairs of leaf points, constants), whatever [Point.counter] is:
    if evaluation reaches a leaf that has no value before a cache answers ([pending_*]; in particular: no
    solve has succeeded since the object's leaves were created), the primal accessor raises ValueError; a
    constraint / LMI without dual value raises ValueError from eval_dual. *)
Theorem C16_unsolved :
  forall dim : nat,
    (forall p, pending_p p = true -> point_eval dim p = Raise ValueError)
    /\ (forall e, wf_e e = true -> pending_e e = true -> expression_eval dim e = Raise ValueError)
    /\ (forall c, c_cached c = false -> wf_e (c_expr c) = true -> pending_e (c_expr c) = true ->
                  constraint_eval dim c = Raise ValueError)
    /\ (forall m, m_cached m = false -> forallb (forallb wf_e) (m_entries m) = true ->
                  existsb (existsb pending_e) (m_entries m) = true -> psd_eval dim m = Raise ValueError)
    /\ (forall c, c_dual c = false -> constraint_eval_dual c = Raise ValueError)
    /\ (forall m, m_dual m = false -> psd_eval_dual m = Raise ValueError).
Proof.
  intro dim. destruct gen_shapes_ok as [Hp [He [Hc [Hm [Hcd Hmd]]]]].
  split; [exact (point_pending _ dim Hp)|].
  split; [exact (expr_pending _ _ dim Hp He)|].
  split; [intros c; exact (constraint_pending _ _ _ dim Hp He c Hc)|].
  split; [intros m; exact (psd_pending _ _ _ dim Hp He m Hm)|].
  split.
  - intros c H. unfold constraint_eval_dual, eval_dual_constraint. rewrite H. now apply dual_unsolved.
  - intros m H. unfold psd_eval_dual, eval_dual_psd. rewrite H. now apply dual_unsolved.
Qed.

(** The accessors never raise anything but ValueError on such objects even when SOME leaves have values
    (a partially valued object): points raise only ValueError; well-formed expressions return a value or
    raise ValueError. *)
Theorem C16_only_value_error :
  forall dim : nat,
    (forall p e, point_eval dim p = Raise e -> e = ValueError)
    /\ (forall x e, wf_e x = true -> expression_eval dim x = Raise e -> e = ValueError).
Proof.
  intro dim. destruct gen_shapes_ok as [Hp [He _]]. split.
  - exact (point_raises_only_VE _ dim Hp).
  - intros x e Hw H. destruct (proj1 (expr_contract _ _ dim Hp He x Hw)) as [[v Hv]|Hr];
      unfold expression_eval in H; congruence.
Qed.

(** The same theorem for ANY accessor code of the three shapes whose unsolved branch raises ValueError and
    whose [except] matcher is a class (or tuple of classes, or bare) that catches ValueError. *)
Theorem C16_unsolved_generic :
  forall shp she shc shm dim,
    point_shape_ok shp = true -> expr_shape_ok she = true -> try_shape_ok shc = true -> try_shape_ok shm = true ->
    (forall c, c_cached c = false -> wf_e (c_expr c) = true -> pending_e (c_expr c) = true ->
               eval_constraint shp she shc dim c = Raise ValueError)
    /\ (forall m, m_cached m = false -> forallb (forallb wf_e) (m_entries m) = true ->
                  existsb (existsb pending_e) (m_entries m) = true -> eval_psd shp she shm dim m = Raise ValueError).
Proof.
  intros shp she shc shm dim Hp He Hc Hm. split.
  - intros c. exact (constraint_pending _ _ _ dim Hp He c Hc).
  - intros m. exact (psd_pending _ _ _ dim Hp He m Hm).
Qed.

(** What the model says about the code before commit 8173fdc ([except ValueError("..."):], an instance as
    matcher): Constraint.eval on an unsolved constraint raises TypeError, not the documented ValueError. *)
Theorem C16_instance_matcher_raises_TypeError :
  forall dim c k r,
    c_cached c = false -> wf_e (c_expr c) = true -> pending_e (c_expr c) = true ->
    eval_constraint h_Point_eval h_Expression_eval (ATryInner (MInstance k) r) dim c = Raise TypeError.
Proof.
  intros dim c k r. destruct gen_shapes_ok as [Hp [He _]].
  exact (constraint_instance_matcher _ _ dim Hp He c k r).
Qed.

(** Behaviour, not a violation: an object that mentions no leaf at all (a constant expression, x - x) has
    a value in every state -- its constant -- whether or not anything was solved. *)
Theorem C16_constant_only_has_value :
  forall dim e, const_only e = true -> expression_eval dim e = Value VNum.
Proof. intros dim e. destruct gen_shapes_ok as [Hp [He _]]. exact (const_only_value _ _ dim He e). Qed.

(** Every eval / eval_dual method that exists in PEPit is one of the six modelled ones. *)
Theorem C16_accessors_complete :
  map (fun t => fst t) handlers =
  [("Constraint", "eval"); ("Constraint", "eval_dual"); ("Expression", "eval"); ("Point", "eval");
   ("PSDMatrix", "eval"); ("PSDMatrix", "eval_dual")].
Proof. exact gen_handlers_complete. Qed.

(** No value, no assignment.  In _solve_with_wrapper the test [if wc_value is None: return wc_value] comes
    right after the solver call (only prints in between): when the wrapper reports no value, solve returns
    None and neither duals nor primal values are assigned.  Values, duals and LMI entry duals
    ([_value], [_dual_variable_value], [entries_dual_variable_value]) of DSL objects are assigned by four
    functions only; every call of one of them sits in _solve_with_wrapper (after the guard) or in
    Wrapper.assign_dual_values, itself one of the four. *)
Theorem C16_none :
  run_plan post_solve_plan None = {| returned := Some None ; writes := [] |}
  /\ value_writers = [("pep.py", "PEP._eval_points_and_function_values"); ("wrapper.py", "Wrapper.assign_dual_values");
                      ("wrappers/cvxpy_wrapper.py", "CvxpyWrapper._recover_dual_values");
                      ("wrappers/mosek_wrapper.py", "MosekWrapper._recover_dual_values")]
  /\ forallb writer_call_ok writer_callers = true.
Proof. split; [exact (run_plan_guard _ gen_guard_first)|exact gen_writers]. Qed.

Theorem C16_none_generic :
  forall plan, guard_first plan = true -> run_plan plan None = {| returned := Some None ; writes := [] |}.
Proof. exact run_plan_guard. Qed.

(** Invalid option strings: anything but "dual"/"primal", resp. "trace"/"logdet..." ends in
    [raise ValueError]. *)
Theorem C16_options :
  (forall v, v <> "dual" -> v <> "primal" -> check_option opt_return v = Raise ValueError)
  /\ (forall v, existsb (String.eqb v) (accepted opt_heuristic) = false ->
                existsb (fun p => String.prefix p v) (prefixes opt_heuristic) = false ->
                check_option opt_heuristic v = Raise ValueError).
Proof.
  destruct gen_options_raise_VE as [H1 [H2 H3]]. split.
  - intros v Hd Hp. rewrite <- H1. apply check_option_rejects; [|reflexivity]. rewrite H3. cbn.
    destruct (String.eqb_spec v "dual"); [contradiction|]. destruct (String.eqb_spec v "primal"); [contradiction|].
    reflexivity.
  - intros v Ha Hp. rewrite <- H2. now apply check_option_rejects.
Qed.

(** Option strings of the primitive steps ([inexact_gradient_step(notion=)], [inexact_proximal_step(opt=)]):
    the dispatch `if p == "a": .. elif .. else: raise ValueError` is a top-level statement of the step, its
    else branch raises ValueError, and NO `return` precedes it in the function -- so no path accepts an
    invalid literal; these are the only `raise ValueError` sites of PEPit/primitive_steps. *)
Theorem C16_step_options :
  map (fun d => snd (fst d)) step_option_dispatches = ["inexact_gradient_step:notion"; "inexact_proximal_step:opt"]
  /\ forallb step_dispatch_ok step_option_dispatches = true
  /\ (forall d v, In d step_option_dispatches ->
                  existsb (String.eqb v) (accepted (snd d)) = false -> check_option (snd d) v = Raise ValueError).
Proof.
  destruct gen_step_dispatches as [H1 H2]. split; [exact H1|]. split; [exact H2|].
  intros d v Hin Ha. rewrite forallb_forall in H2. specialize (H2 d Hin). unfold step_dispatch_ok in H2.
  apply andb_true_iff in H2. destruct H2 as [He _]. apply exn_eqb_eq in He. rewrite <- He.
  apply check_option_rejects; [exact Ha|].
  assert (Hp : forallb (fun d => match prefixes (snd d) with [] => true | _ => false end) step_option_dispatches = true)
    by (vm_compute; reflexivity).
  rewrite forallb_forall in Hp. specialize (Hp d Hin). destruct (prefixes (snd d)); [reflexivity|discriminate].
Qed.

(** Non-vacuity.  (x0 - xs)^2 <= 1 with unvalued leaves raises ValueError from every accessor; with valued
    leaves it has a value; a successful solve assigns duals then values and returns a number; invalid
    options are rejected, valid ones accepted. *)
Example C16_example :
  let x0 := PLeaf None in let xs := PLeaf None in
  let d := PLin None [x0; PLin None [xs]] in
  let e := ELin false [TInner x0 x0; TInner x0 xs; TInner xs x0; TInner xs xs; TConst] in
  let c := {| c_cached := false ; c_dual := false ; c_expr := e |} in
  let m := {| m_cached := false ; m_dual := false ; m_entries := [[e; ELin false [TConst]]; [ELin false [TConst]; ELeaf false]] |} in
  let ev := ELin false [TInner (PLeaf (Some 2)) (PLeaf (Some 2)); TExpr (ELeaf true); TConst] in
  pending_p d = true /\ point_eval 2 d = Raise ValueError
  /\ wf_e e = true /\ pending_e e = true /\ expression_eval 2 e = Raise ValueError
  /\ constraint_eval 2 c = Raise ValueError /\ constraint_eval_dual c = Raise ValueError
  /\ psd_eval 2 m = Raise ValueError /\ psd_eval_dual m = Raise ValueError
  /\ expression_eval 2 ev = Value VNum
  /\ point_eval 2 (PLin None [PLeaf (Some 2); PLeaf (Some 2)]) = Value (VVec 2)
  /\ run_plan post_solve_plan (Some tt) = {| returned := Some (Some tt) ; writes := [GotDuals; GotValues] |}
  /\ check_option opt_return "both" = Raise ValueError /\ check_option opt_return "primal" = Value VNum
  /\ check_option opt_heuristic "rank" = Raise ValueError /\ check_option opt_heuristic "logdet3" = Value VNum.
Proof. cbv zeta. vm_compute. tauto. Qed.

(** The public entry point.  PEP.solve -- REGENERATED from pep.py on every run (translator/tr_entry.py, fail-closed) -- only
    selects the back-end (lower-cased name; fall-back to cvxpy when the package or its licence is missing), stores it, and
    calls _solve_with_wrapper ONCE, handing over every option under its own name, unchanged, together with **kwargs; both
    signatures declare the same constant defaults.  Hence the option strings checked by the dispatches of _solve_with_wrapper (C16_options) are exactly the caller's: no normalisation, truncation or defaulting happens on the way, and an unknown back-end name can only fall back to cvxpy. *)
Theorem C16_options_reach_dispatch :
  entry_ok entry_plan forwarded solve_defaults inner_defaults = true.
Proof. vm_compute. reflexivity. Qed.

Print Assumptions C16_unsolved.
Print Assumptions C16_only_value_error.
Print Assumptions C16_unsolved_generic.
Print Assumptions C16_instance_matcher_raises_TypeError.
Print Assumptions C16_constant_only_has_value.
Print Assumptions C16_accessors_complete.
Print Assumptions C16_none.
Print Assumptions C16_none_generic.
Print Assumptions C16_options.
Print Assumptions C16_step_options.
Print Assumptions C16_options_reach_dispatch.
