(** C11 -- both solver back-ends solve the same problem and report duals in one convention.
    Property theorems only; proofs in Proofs/C11Run.v (executable side), Proofs/C11Sem.v (meaning, duals),
    Proofs/C11Regress.v (instances, regression examples).  Model: Model/Mosek.v.

    MOSEK is not installed: its API semantics ([step]) and its dual convention ([dual_eq], [Sbar_pair]) are
    ASSUMPTIONS, stated in harness/standin/mosek/__init__.py (A1-A3) and implemented there for the real wrapper
    code to run against. *)
From Coq Require Import List QArith Reals Qreals Bool Arith.
From PV Require Import Model.Dict Model.Terms Model.Sent Model.Matrices Model.Mosek Spec.GramSem
     Proofs.DictLemmas Proofs.C05Spec Proofs.C11Run Proofs.C11Sem Proofs.C11Regress.
Import ListNotations.
Local Open Scope nat_scope.

(** For EVERY declared model (any number of scalar constraints and LMIs of any size in any interleaving, any
    creation order of the PSDMatrix objects, leaf expressions created before or after the objective), any numbers of
    leaf points / leaf expressions, the Task calls issued by MosekWrapper are all accepted by the API and the task
    denotes EXACTLY the declared SDP: one row per scalar constraint with its sense and bound, n*n coupling rows per LMI
    attached to that LMI's own matrix variable, free leaf-expression variables, objective = the objective leaf,
    maximise.  Hypothesis [guard] -- NO conjunct excludes a defect any more:
      - what is sent is well formed (existing leaves, valid sparse triples, square LMIs: true of every PEPit object),
      - the objective leaf exists ([obj < ec]),
      - the number of rows is at most 2^31: row indices are built as int32, the native index type of the MOSEK API
        itself (a problem with more rows cannot be expressed in that API at all). *)
Theorem C11_same_sdp :
  forall (l : sent) (pc ec obj : nat),
    guard l pc ec obj = true ->
    task_denote (emit l pc ec obj) = Some (sdp_of l pc ec obj).
Proof. exact same_sdp. Qed.

(** What the declared SDP's rows mean: for symmetric G = X 0 and symmetric matrix variables X (k+1), all rows hold
    iff every scalar constraint holds in the Gram reading ([evalGF], the reading of the cvxpy path, C05) and every
    entry of every LMI's matrix variable equals its expression: M_k[i][j] = e_ij(G,F). *)
Theorem C11_rows_meaning :
  forall (x : nat -> R) (X : nat -> nat -> nat -> R), (forall j, symG (X j)) ->
  forall (l : sent) (kb : nat), wfR l ->
    (Forall (row_holds x X) (rows_of kb l) <-> sat_items x X kb l).
Proof. exact rows_meaning. Qed.

(** the -1 (diagonal) and -1/2 (off-diagonal, lower-triangular storage) weights give exactly -M[i][j] *)
Theorem C11_coupling_weights :
  forall (M : nat -> nat -> R) (i j : nat), symG M -> tri_read M [coupling_triple i j] = (- M i j)%R.
Proof. exact coupling_read. Qed.

(** Duals.  Under MOSEK's dual equations A^T y = c (on the free variables) and Sbar_j = Cbar_j - sum_i y_i Abar_ij,
    the triple PEPit's _recover_dual_values exposes -- y[row_c] for each scalar constraint, -getbarsj(k+1) for the
    k-th LMI, -getbarsj(0) as residual -- satisfies, for every symmetric G and every F, with M_k := E_k(G,F):
        objective - tau  =  sum_c y[row_c] * e_c(G,F)  -  <-Sbar_0, G>  -  sum_k <-Sbar_{k+1}, E_k(G,F)>
    with tau = sum_i y_i * bound_i (MOSEK's dual objective): the certificate identity of the cvxpy path
    (C01: objective - tau = sum lambda_c e_c - <S0,G> - sum <S_k,E_k>), same constraints, same signs. *)
Theorem C11_duals :
  forall (y x : nat -> R) (X : nat -> nat -> nat -> R), (forall j, symG (X j)) ->
  forall (l : sent) (pc ec obj : nat),
    wfR l -> couplings_hold x X 1 l -> dual_eq (sdp_of l pc ec obj) y ->
    (x obj - dual_obj y (rows_of 1 l) 0
     = cert_scalars y x X 0 l - exposed y l 0 (X 0%nat)
       - sumn (length (lmis l)) (fun k => exposed y l (S k) (X (S k))))%R.
Proof. exact duals_identity. Qed.

(** Entry duals (after bd99691: PSDMatrix.entries_dual_variable_value = -y[first : first + n*n].reshape(n, n) on the
    MOSEK path, the raw multipliers of the rows M[i][j] - e_ij on the cvxpy path).  One convention, for EVERY LMI,
    symmetric as written or not:
    - MOSEK (by its dual equation Sbar_k = - sum_i y_i Abar_ik): the reported dual -Sbar_k of the LMI owning bar
      variable j pairs with every symmetric Z as  sum_ij U[i][j] * Z[i][j],  U[i][j] = -y[row of entry (i,j)]:
      reported dual = sym(entries_dual); *)
Theorem C11_entry_duals_mosek :
  forall (y : nat -> R) (Z : nat -> nat -> R) (j : nat), symG Z -> (1 <= j)%nat ->
  forall l, exposed y l j Z = entries_pair y (fun a b _ => Z a b) j 1 0 l.
Proof. exact exposed_entries. Qed.

(**  - cvxpy (Lagrangian constant in the symmetric matrix variable, cvxpy's sign convention): the same; *)
Theorem C11_entry_duals_cvxpy_convention :
  forall n (S u E : nat -> nat -> R),
    (forall M, symG M -> cvx_lag n S u E M = cvx_lag n S u E (fun _ _ => 0%R)) ->
    forall Z, symG Z -> msum n (fun i j => (S i j * Z i j)%R) = msum n (fun i j => (u i j * Z i j)%R).
Proof. exact cvxpy_entry_convention. Qed.

(**  - hence, when both back-ends report the same dual matrix, their entry duals have the same symmetric part. *)
Theorem C11_entry_duals_agree :
  forall (y : nat -> R) l j n (S u E : nat -> nat -> R),
    (1 <= j)%nat ->
    (forall M, symG M -> cvx_lag n S u E M = cvx_lag n S u E (fun _ _ => 0%R)) ->
    (forall Z, symG Z -> exposed y l j Z = msum n (fun a b => (S a b * Z a b)%R)) ->
    forall Z, symG Z -> entries_pair y (fun a b _ => Z a b) j 1 0 l = msum n (fun a b => (u a b * Z a b)%R).
Proof. exact entry_duals_agree. Qed.

(** The certificate identity with the entry duals combined with the entries' expressions (what the repaired
    check_feasibility reconstructs): NO symmetry requirement on the matrices of expressions.
        objective - tau = sum_c y[row_c] e_c(G,F) - <-Sbar_0, G> - sum_k sum_ij U_k[i][j] * e_kij(G,F) *)
Theorem C11_duals_entries :
  forall (y x : nat -> R) (G : nat -> nat -> R), symG G ->
  forall (l : sent) (pc ec obj : nat),
    wfR l -> dual_eq (sdp_of l pc ec obj) y ->
    (x obj - dual_obj y (rows_of 1 l) 0
     = cert_scalars y x (XG G) 0 l - exposed y l 0 G - cert_entries y x G 0 l)%R.
Proof. exact duals_identity_entries. Qed.

(** the general statement behind it: for ANY task, MOSEK's dual equations make the Lagrangian collapse *)
Theorem C11_lagrangian :
  forall (d : sdp) (y : nat -> R), bars_in_range d -> dual_eq d y ->
  forall x X, obj_val d x X
              = (ysum y (row_val x X) (d_rows d) 0 + sumn (length (d_bars d)) (fun j => Sbar_pair d y j (X j)))%R.
Proof. exact lagrangian_identity. Qed.

(** Dimension reduction.  For every such model (row index of the extra row must still fit int32), after
    prepare_heuristic and heuristic(W) the task denotes the declared second problem: minimise <W,G> over the same
    rows plus  -tau <= -(wc - tol)  -- wherever the objective leaf sits among the leaf expressions. *)
Theorem C11_heuristic :
  forall (l : sent) (pc ec obj : nat) (v : Q) (W : list triple),
    guard l pc ec obj = true -> int32_ok (total_rows l) = true -> valid_triples pc W = true ->
    task_denote (emit l pc ec obj ++ solve_reads ++ recover_reads l
                 ++ emit_prepare pc ec obj (total_rows l) (total_syms l) v
                 ++ emit_heuristic pc (S (total_syms l)) W)
    = Some (sdp_heur l pc ec obj v W).
Proof. exact heuristic_sdp. Qed.

(** the value solve() returns is the objective's variable *)
Theorem C11_readout :
  forall (xx : list Q) (obj : nat) (st : prosta), mosek_solve_value xx obj st = Some (nth obj xx 0%Q).
Proof. exact readout_objective. Qed.

(** OPEN finding F-C11d: the returned value does not depend on the problem status; the cvxpy path returns None. *)
Theorem C11_status_refuted :
  exists xx obj st v, st <> PrimAndDualFeas /\ mosek_solve_value xx obj st <> None /\ cvxpy_solve_value v st = None.
Proof. exact status_refuted. Qed.

(** Non-vacuity and REGRESSION examples (the latter restate the index expressions used before the repairs
    067bbb4 / 88e1f86 / 54e4665 -- see Proofs/C11Regress.v -- and show them wrong where the current ones are right).
    C11_example_duals: the hypotheses of C11_duals are satisfiable: model  tau <= <p0,p0> ; <p0,p0> <= 1  with
    y = (1, 1): A^T y = c, and the identity reads  tau - 1 = (tau - G00) + (G00 - 1). *)
Example C11_example_guard :
  guard w_sent 1 2 1 = true /\ task_denote (emit w_sent 1 2 1) = Some (sdp_of w_sent 1 2 1).
Proof. exact lmi_model_ok. Qed.

Example C11_regression_barvar_index :
  let before := prologue 1 2 ++ emit_sc 1 0 0 [(KF 1, 1%Q); (KF 0, (- (1))%Q)] Ineq ++ [TAppendBarvars [2]] in
  run (before ++ emit_entries 1 2 (old_bar_index 1) 1 1 (entries w_lmi)) t0 = None
  /\ (exists st, run (before ++ emit_entries 1 2 (2 - 1) 1 1 (entries w_lmi)) t0 = Some st).
Proof. exact regress_barvar_index. Qed.

Example C11_regression_int8 :
  old_int8_ok 128 = false /\ int32_ok 128 = true
  /\ guard w_many 1 1 0 = true /\ task_denote (emit w_many 1 1 0) = Some (sdp_of w_many 1 1 0).
Proof. exact regress_int8. Qed.

Example C11_regression_objective_index :
  old_readout_index 4 <> 1
  /\ put_c 4 [(1, 1%Q)] [3 - 1] [0%Q] = Some [(1, 1%Q); (2, 0%Q)]
  /\ put_c 4 [(1, 1%Q)] [1] [0%Q] = Some [(1, 0%Q)]
  /\ guard w_leaf 1 3 1 = true
  /\ task_denote (emit w_leaf 1 3 1 ++ solve_reads ++ recover_reads w_leaf
                  ++ emit_prepare 1 3 1 (total_rows w_leaf) (total_syms w_leaf) (1 # 2)
                  ++ emit_heuristic 1 (S (total_syms w_leaf)) (identity_triples 1))
     = Some (sdp_heur w_leaf 1 3 1 (1 # 2) (identity_triples 1)).
Proof. exact regress_objective_index. Qed.

Example C11_example_recover :
  lmi_first_index 0 w_two = [1; 3] /\ sc_index 0 w_two = [0; 2]
  /\ recover w_two 1 [10#1; 11#1; 12#1; 13#1; 14#1; 15#1; 16#1]%Q
             (fun j => nth j [[7#1]; [5#1]; [1#1; 2#1; 3#1]]%Q [])
     = ([[- (7#1)]]%Q,
        [RScalar (10#1); RLmi [[- (5#1)]]%Q [[- (11#1)]]%Q; RScalar (12#1);
         RLmi [[- (1#1); - (2#1)]; [- (2#1); - (3#1)]]%Q [[- (13#1); - (14#1)]; [- (15#1); - (16#1)]]%Q]).
Proof. exact recover_example. Qed.

Example C11_example_duals :
  let l := [SC [(KF 0, 1%Q); (KG 0 0, (- (1))%Q)] Ineq; SC [(KG 0 0, 1%Q); (K1, (- (1))%Q)] Ineq] in
  wfR l /\ dual_eq (sdp_of l 1 1 0) (fun _ => 1%R) /\ guard l 1 1 0 = true.
Proof. exact duals_example. Qed.

Print Assumptions C11_same_sdp.
Print Assumptions C11_rows_meaning.
Print Assumptions C11_coupling_weights.
Print Assumptions C11_duals.
Print Assumptions C11_lagrangian.
Print Assumptions C11_entry_duals_mosek.
Print Assumptions C11_entry_duals_cvxpy_convention.
Print Assumptions C11_entry_duals_agree.
Print Assumptions C11_duals_entries.
Print Assumptions C11_heuristic.
Print Assumptions C11_readout.
Print Assumptions C11_status_refuted.
