(** C11 -- both solver back-ends solve the same problem and report duals in one convention.
    Property theorems only; proofs in Proofs/C11Run.v (executable side), Proofs/C11Sem.v (meaning, duals),
    Proofs/C11Refuted.v (witnesses).  Model: Model/Mosek.v.

    MOSEK is not installed: its API semantics ([step]) and its dual convention ([dual_eq], [Sbar_pair]) are
    ASSUMPTIONS, stated in harness/standin/mosek/__init__.py (A1-A3) and implemented there for the real wrapper
    code to run against. *)
From Coq Require Import List QArith Reals Qreals Bool Arith.
From PV Require Import Model.Dict Model.Terms Model.Sent Model.Matrices Model.Mosek Spec.GramSem
     Proofs.DictLemmas Proofs.C05Spec Proofs.C11Run Proofs.C11Sem Proofs.C11Refuted.
Import ListNotations.
Local Open Scope nat_scope.

(** For EVERY declared model (any number of scalar constraints and LMIs of any size in any interleaving), any
    numbers of leaf points / leaf expressions, under the guard
      - what is sent is well formed (existing leaves, valid sparse triples, square LMIs; true of every PEPit object),
      - the objective leaf exists,
      - the PSDMatrix counters of the LMIs are 0,1,2,... in send order            (excludes F-C11a),
      - at most 128 rows                                                            (excludes F-C11c),
    the Task calls issued by MosekWrapper are all accepted by the API and the task denotes EXACTLY the declared
    SDP: one row per scalar constraint with its sense and bound, n*n coupling rows per LMI attached to that LMI's own
    matrix variable, free leaf-expression variables, objective = the objective leaf, maximise. *)
Theorem C11_same_sdp_partial :
  forall (l : sent) (pc ec obj : nat) (ctrs : list nat),
    guard l pc ec obj ctrs = true ->
    task_denote (emit l pc ec obj ctrs) = Some (sdp_of l pc ec obj).
Proof. exact same_sdp. Qed.

(** What the declared SDP's rows mean: for symmetric G = X 0 and symmetric matrix variables X (k+1), all rows hold
    iff every scalar constraint holds in the Gram reading ([evalGF], the reading of the cvxpy path, C05) and every
    entry of every LMI's matrix variable equals its expression: M_k[i][j] = e_ij(G,F). *)
Theorem C11_rows_meaning :
  forall (x : nat -> R) (X : nat -> nat -> nat -> R), (forall j, symG (X j)) ->
  forall (l : sent) (kb : nat), wfR l ->
    (Forall (row_holds x X) (rows_of kb l) <-> sat_items x X kb l).
Proof. exact rows_meaning. Qed.

(** the -1 (diagonal) and -1/2 (off-diagonal, lower-triangular storage) weights give exactly -M[i][j] *)
Theorem C11_coupling_weights :
  forall (M : nat -> nat -> R) (i j : nat), symG M -> tri_read M [coupling_triple i j] = (- M i j)%R.
Proof. exact coupling_read. Qed.

(** Duals.  Under MOSEK's dual equations A^T y = c (on the free variables) and Sbar_j = Cbar_j - sum_i y_i Abar_ij,
    the triple PEPit's _recover_dual_values exposes -- y[row_c] for each scalar constraint, -getbarsj(k+1) for the
    k-th LMI, -getbarsj(0) as residual -- satisfies, for every symmetric G and every F, with M_k := E_k(G,F):
        objective - tau  =  sum_c y[row_c] * e_c(G,F)  -  <-Sbar_0, G>  -  sum_k <-Sbar_{k+1}, E_k(G,F)>
    with tau = sum_i y_i * bound_i (MOSEK's dual objective): the certificate identity of the cvxpy path
    (C01: objective - tau = sum lambda_c e_c - <S0,G> - sum <S_k,E_k>), same constraints, same signs. *)
Theorem C11_duals :
  forall (y x : nat -> R) (X : nat -> nat -> nat -> R), (forall j, symG (X j)) ->
  forall (l : sent) (pc ec obj : nat),
    wfR l -> couplings_hold x X 1 l -> dual_eq (sdp_of l pc ec obj) y ->
    (x obj - dual_obj y (rows_of 1 l) 0
     = cert_scalars y x X 0 l - exposed y l 0 (X 0%nat)
       - sumn (length (lmis l)) (fun k => exposed y l (S k) (X (S k))))%R.
Proof. exact duals_identity. Qed.

(** the general statement behind it: for ANY task, MOSEK's dual equations make the Lagrangian collapse *)
Theorem C11_lagrangian :
  forall (d : sdp) (y : nat -> R), bars_in_range d -> dual_eq d y ->
  forall x X, obj_val d x X
              = (ysum y (row_val x X) (d_rows d) 0 + sumn (length (d_bars d)) (fun j => Sbar_pair d y j (X j)))%R.
Proof. exact lagrangian_identity. Qed.

(** Dimension reduction.  Under the guard, with fewer than 128 rows, AND the objective being the last leaf
    expression (excludes F-C11b), after prepare_heuristic and heuristic(W) the task denotes the declared second
    problem: minimise <W,G> over the same rows plus  -tau <= -(wc - tol). *)
Theorem C11_heuristic_partial :
  forall (l : sent) (pc ec obj : nat) (ctrs : list nat) (v : Q) (W : list triple),
    guard l pc ec obj ctrs = true -> objective_is_last_leaf ec obj = true ->
    (total_rows l < 128)%nat -> valid_triples pc W = true ->
    task_denote (emit l pc ec obj ctrs ++ solve_reads ++ recover_reads l
                 ++ emit_prepare pc ec obj (total_rows l) (total_syms l) v
                 ++ emit_heuristic pc (S (total_syms l)) W)
    = Some (sdp_heur l pc ec obj v W).
Proof. exact heuristic_sdp. Qed.

(** [tau = xx[-2]] is the objective's variable when the objective is the last leaf *)
Theorem C11_readout_partial :
  forall ec obj, objective_is_last_leaf ec obj = true -> readout_index (S ec) = obj.
Proof. exact readout_last_leaf. Qed.

(** The guard is needed (each is a finding, replayed on the real wrapper on the stand-in). *)
Theorem C11_barvar_index_refuted :
  exists l pc ec obj ctrs,
    wf_sent pc ec l = true /\ Nat.ltb obj ec = true /\ rows_fit_int8 l = true /\ objective_is_last_leaf ec obj = true
    /\ counters_in_send_order ctrs l = false
    /\ task_denote (emit l pc ec obj ctrs) = None.
Proof. exact barvar_index_refuted. Qed.

Theorem C11_int8_refuted :
  exists l pc ec obj ctrs,
    wf_sent pc ec l = true /\ Nat.ltb obj ec = true /\ counters_in_send_order ctrs l = true
    /\ objective_is_last_leaf ec obj = true /\ rows_fit_int8 l = false
    /\ task_denote (emit l pc ec obj ctrs) = None
    /\ last (run_prefix (emit l pc ec obj ctrs) t0) TOptimize = TPyOverflow.
Proof. exact int8_refuted. Qed.

Theorem C11_objective_last_leaf_refuted :
  exists l pc ec obj ctrs v W,
    guard l pc ec obj ctrs = true /\ Nat.ltb (total_rows l) 128 = true /\ valid_triples pc W = true
    /\ objective_is_last_leaf ec obj = false
    /\ task_denote (emit l pc ec obj ctrs) = Some (sdp_of l pc ec obj)
    /\ readout_index (S ec) <> obj
    /\ task_denote (emit l pc ec obj ctrs ++ solve_reads ++ recover_reads l
                    ++ emit_prepare pc ec obj (total_rows l) (total_syms l) v
                    ++ emit_heuristic pc (S (total_syms l)) W)
       <> Some (sdp_heur l pc ec obj v W)
    /\ (exists d, task_denote (emit l pc ec obj ctrs ++ solve_reads ++ recover_reads l
                               ++ emit_prepare pc ec obj (total_rows l) (total_syms l) v
                               ++ emit_heuristic pc (S (total_syms l)) W) = Some d
                  /\ d_c d = [(obj, 1%Q); ((ec - 1)%nat, 0%Q)]).
Proof. exact objective_last_leaf_refuted. Qed.

Theorem C11_status_refuted :
  exists xx st v, st <> PrimAndDualFeas /\ mosek_solve_value xx st <> None /\ cvxpy_solve_value v st = None.
Proof. exact status_refuted. Qed.

(** Non-vacuity.  (1) the guard holds on a model with an LMI and the theorem's conclusion is computed;
    (2) 128 rows are fine; (3) the hypotheses of C11_duals are satisfiable: model  tau <= <p0,p0> ; <p0,p0> <= 1
    with y = (1, 1): A^T y = c, and the identity reads  tau - 1 = (tau - G00) + (G00 - 1). *)
Example C11_example_guard :
  guard w_sent 1 2 1 [0] = true /\ task_denote (emit w_sent 1 2 1 [0]) = Some (sdp_of w_sent 1 2 1).
Proof. exact barvar_index_ok. Qed.

Example C11_example_128_rows :
  let l := repeat (SC [(KF 0, 1%Q); (K1, (- (1))%Q)] Ineq) 128 in
  guard l 1 1 0 [] = true /\ task_denote (emit l 1 1 0 []) = Some (sdp_of l 1 1 0).
Proof. exact int8_boundary_ok. Qed.

Example C11_example_duals :
  let l := [SC [(KF 0, 1%Q); (KG 0 0, (- (1))%Q)] Ineq; SC [(KG 0 0, 1%Q); (K1, (- (1))%Q)] Ineq] in
  wfR l /\ dual_eq (sdp_of l 1 1 0) (fun _ => 1%R) /\ guard l 1 1 0 [] = true.
Proof. exact duals_example. Qed.

Print Assumptions C11_same_sdp_partial.
Print Assumptions C11_rows_meaning.
Print Assumptions C11_coupling_weights.
Print Assumptions C11_duals.
Print Assumptions C11_lagrangian.
Print Assumptions C11_heuristic_partial.
Print Assumptions C11_readout_partial.
Print Assumptions C11_barvar_index_refuted.
Print Assumptions C11_int8_refuted.
Print Assumptions C11_objective_last_leaf_refuted.
Print Assumptions C11_status_refuted.
