(** C15 — block partitions behave as orthogonal coordinate-block projections.
    Property theorems only; the model is Model/Blocks.v, the proofs live in Proofs/C15*.v.

    Vocabulary (Proofs/C15Model.v): a history is a list of [op] ([OGet obj pd k]: get_block on the
    Point object [obj] whose decomposition_dict is [pd] at that moment, [OLeaf]: a leaf created
    elsewhere); [ok] says every [pd] has unique keys and mentions only leaves that already exist;
    [trace] runs the history and records, for each first decomposition, the ghost [entry]
    (object, its dictionary, Point.counter at that moment); [blocks_of d e] are the d dictionaries
    [{leaf n:1}, ..., {leaf n+d-2:1}, pd - accumulation]. *)
From Coq Require Import List QArith Reals Qreals Lra Bool Arith Lia.
From PV Require Import Base.IPS Model.Dict Model.Terms Model.Dump Model.Blocks Spec.Sem
                       Proofs.DictLemmas Proofs.SemLemmas
                       Proofs.C15Model Proofs.C15Sem Proofs.C15Real Proofs.C15Main.
Import ListNotations.
Local Open Scope R_scope.

(** The blocks obtained for a point sum back to that point: at the call (in every state, for every
    number of blocks, every dictionary, every inner-product space and valuation) and for ever after. *)
Theorem C15_sum_back_call :
  forall (E : ips) (rho : nat -> E) st obj pd k,
    (1 <= bp_d st)%nat -> NoDupKeys nat pd -> find_blocks obj (bp_blocks st) = None ->
    exists bl,
      find_blocks obj (bp_blocks (snd (get_block st obj pd k))) = Some bl
      /\ length bl = bp_d st
      /\ fst (get_block st obj pd k) = nth k bl []
      /\ veq (sumP rho bl) (evalP rho pd)
      /\ forall ops, find_blocks obj (bp_blocks (run (snd (get_block st obj pd k)) ops)) = Some bl.
Proof. exact sum_back_call. Qed.

(** ... and for every history: the state is exactly the recorded decompositions, each summing back. *)
Theorem C15_sum_back :
  forall (E : ips) (rho : nat -> E) d n0 ops,
    (1 <= d)%nat -> ok (init_partition d n0) ops ->
    let st := fst (trace (init_partition d n0) [] ops) in
    let g := snd (trace (init_partition d n0) [] ops) in
    st = run (init_partition d n0) ops
    /\ bp_blocks st = map (fun e => (e_obj e, blocks_of d e)) g
    /\ forall e, In e g ->
         find_blocks (e_obj e) (bp_blocks st) = Some (blocks_of d e)
         /\ length (blocks_of d e) = d
         /\ veq (sumP rho (blocks_of d e)) (evalP rho (e_pd e)).
Proof. exact sum_back_history. Qed.

(** Freshness invariant, preserved by every history: the d-1 leaves allocated for an object are not
    keys of its dictionary, every key of every stored block is an existing leaf, distinct decomposed
    objects never share a leaf, and an object is recorded once. *)
Theorem C15_fresh :
  forall d n0 ops,
    ok (init_partition d n0) ops ->
    let st := fst (trace (init_partition d n0) [] ops) in
    let g := snd (trace (init_partition d n0) [] ops) in
    (forall e, In e g ->
       blocks_of d e = map leaf_dict (leaves_of d e) ++ [p_sub (e_pd e) (acc_of (e_n e) (d - 1))]
       /\ (forall x, In x (leaves_of d e) -> ~ In x (keys (e_pd e)) /\ (x < bp_next st)%nat)
       /\ (forall b x, In b (blocks_of d e) -> In x (keys b) -> (x < bp_next st)%nat))
    /\ (forall e1 e2 x, In e1 g -> In e2 g -> In x (leaves_of d e1) -> In x (leaves_of d e2) -> e1 = e2)
    /\ (forall e1 e2, In e1 g -> In e2 g -> e_obj e1 = e_obj e2 -> e1 = e2).
Proof. exact fresh_history. Qed.

(** Asking again (any block number, any later moment, whatever the object's dictionary has become)
    returns the stored blocks, allocates no leaf and leaves the state unchanged. *)
Theorem C15_idempotent :
  forall st obj pd k,
    exists bl,
      find_blocks obj (bp_blocks (snd (get_block st obj pd k))) = Some bl
      /\ fst (get_block st obj pd k) = nth k bl []
      /\ forall ops pd' k',
           let st2 := run (snd (get_block st obj pd k)) ops in
           get_block st2 obj pd' k' = (nth k' bl [], st2).
Proof. exact idempotent. Qed.

(** A one-block partition is the identity: the block is the point's pruned dictionary (same
    meaning), no leaf is allocated and no constraint is ever generated. *)
Theorem C15_one_block :
  forall (E : ips) (rho : nat -> E) st obj pd,
    bp_d st = 1%nat -> find_blocks obj (bp_blocks st) = None ->
    let b := fst (get_block st obj pd 0) in
    let st' := snd (get_block st obj pd 0) in
    b = prune pd /\ prune b = prune pd /\ veq (evalP rho b) (evalP rho pd)
    /\ bp_next st' = bp_next st
    /\ find_blocks obj (bp_blocks st') = Some [b]
    /\ partition_constraints st' = []
    /\ forall ops, partition_constraints (run st' ops) = [].
Proof. exact one_block_identity. Qed.

(** The generated list is, in this order and each index once, [xi[k] * xj[l] == 0] over all
    (i, j, k, l) with i, j decomposed (i = j included) and l < k < d; each constraint is the pruned
    bilinear expansion of the two block dictionaries with sense "equality". *)
Theorem C15_constraints_exact_list :
  forall st,
    let m := length (bp_blocks st) in
    let d := bp_d st in
    partition_constraints st = map (cons_at st) (idx4 m d)
    /\ NoDup (idx4 m d)
    /\ (forall i j k l, In ((i, j), (k, l)) (idx4 m d) <-> (i < m /\ j < m /\ k < d /\ l < k)%nat)
    /\ (2 * length (partition_constraints st) = m * m * (d * (d - 1)))%nat
    /\ (forall a b, block_constraint a b = (prune (multiply a b), Equ)).
Proof. exact constraints_exact_list. Qed.

(** Meaning: the list holds under a valuation iff every pair of DIFFERENT blocks (k <> l) of all
    decomposed points (same or different points) is orthogonal — none missing (symmetry of the inner
    product supplies k < l), none extra (never k = l; never a leaf outside the decomposed objects). *)
Theorem C15_constraints_exact :
  forall (E : ips) (rho : nat -> E) (phi : nat -> R) d n0 ops,
    ok (init_partition d n0) ops ->
    let st := fst (trace (init_partition d n0) [] ops) in
    let g := snd (trace (init_partition d n0) [] ops) in
    (forall c, In c (partition_constraints st) <->
       exists e1 e2 k l, In e1 g /\ In e2 g /\ (k < d)%nat /\ (l < k)%nat
         /\ c = block_constraint (nth k (blocks_of d e1) []) (nth l (blocks_of d e2) []))
    /\ (forall e1 e2 k l, In e1 g -> In e2 g ->
          (holds rho phi (block_constraint (nth k (blocks_of d e1) []) (nth l (blocks_of d e2) []))
           <-> inner (evalP rho (nth k (blocks_of d e1) [])) (evalP rho (nth l (blocks_of d e2) [])) = 0))
    /\ ((forall c, In c (partition_constraints st) -> holds rho phi c) <-> all_orthogonal rho d g)
    /\ (forall c key, In c (partition_constraints st) -> In key (keys (fst c)) ->
          exists x y e1 e2, key = KG x y /\ In e1 g /\ In e2 g
            /\ (In x (keys (e_pd e1)) \/ In x (leaves_of d e1))
            /\ (In y (keys (e_pd e2)) \/ In y (leaves_of d e2))).
Proof. exact constraints_exact_meaning. Qed.

(** Solve time, a PEP with SEVERAL partitions (some with one block, some never used, built through a
    PEP object or with the class constructor: all are in the registry): the constraints received by
    the wrapper are the concatenation over ALL partitions of their cross-block relations; no
    partition is skipped whatever the others look like; one-block / unused partitions are neutral. *)
Theorem C15_solve_sent_exact :
  forall parts,
    (forall c, In c (sent_partition_constraints parts)
               <-> exists st, In st parts /\ In c (partition_constraints st))
    /\ (forall l1 st l2, sent_partition_constraints (l1 ++ st :: l2)
          = sent_partition_constraints l1 ++ partition_constraints st ++ sent_partition_constraints l2)
    /\ (forall l1 st l2, bp_d st = 1%nat \/ bp_blocks st = [] ->
          sent_partition_constraints (l1 ++ st :: l2) = sent_partition_constraints (l1 ++ l2))
    /\ (2 * length (sent_partition_constraints parts)
        = nsum (map (fun st => length (bp_blocks st) * length (bp_blocks st) * (bp_d st * (bp_d st - 1))) parts))%nat.
Proof. exact solve_sent_exact. Qed.

(** ... and they hold under a valuation iff in EVERY partition all pairs of different blocks of all
    the points it decomposed are orthogonal. *)
Theorem C15_solve_sent_meaning :
  forall (E : ips) (rho : nat -> E) (phi : nat -> R) (hs : list hist),
    (forall h, In h hs -> h_ok h) ->
    ((forall c, In c (sent_partition_constraints (map h_state hs)) -> holds rho phi c)
     <-> forall h, In h hs -> all_orthogonal rho (h_d h) (h_ghost h)).
Proof. exact solve_sent_meaning. Qed.

(** Real coordinate-block projections always satisfy the model: for every coordinate partition of
    R^n into d blocks and every values of the other leaves, valuing the fresh leaves by the true
    projections makes every block (the remainder included) the projection of the point's value; the
    blocks sum back and every generated constraint holds. *)
Theorem C15_real :
  forall n (blk : nat -> nat) d n0 ops (phi : nat -> R),
    (1 <= d)%nat -> (forall i, (i < n)%nat -> (blk i < d)%nat) ->
    ok (init_partition d n0) ops ->
    let st := fst (trace (init_partition d n0) [] ops) in
    let g := snd (trace (init_partition d n0) [] ops) in
    forall r0 : nat -> Rn n, exists r : nat -> Rn n,
      (forall x, (forall e, In e g -> ~ In x (leaves_of d e)) -> r x = r0 x)
      /\ (forall e, In e g -> forall k, (k < d - 1)%nat ->
            r (e_n e + k)%nat = proj n blk k (evalP r (e_pd e)))
      /\ (forall e, In e g -> forall k, (k < d)%nat ->
            veq (evalP r (nth k (blocks_of d e) [])) (proj n blk k (evalP r (e_pd e))))
      /\ (forall e, In e g -> veq (sumP r (blocks_of d e)) (evalP r (e_pd e)))
      /\ (forall c, In c (partition_constraints st) -> holds r phi c).
Proof. exact real_partitions_satisfy_model. Qed.

(** The coordinate masks are what they should be: different blocks are orthogonal, and the d masks
    sum to the identity exactly when every coordinate is assigned to a block. *)
Theorem C15_masks :
  forall n (blk : nat -> nat),
    (forall k l (u w : Rn n), k <> l -> inner (proj n blk k u) (proj n blk l w) = 0)
    /\ (forall d (u : Rn n), (forall i, (i < n)%nat -> (blk i < d)%nat) ->
          veq (vsum (map (fun k => proj n blk k u) (seq 0 d))) u).
Proof. intros n blk. split; [exact (proj_orth n blk)|exact (proj_sum n blk)]. Qed.

(** Two distinct objects get different leaves, but the generated constraints force equal blocks as
    soon as the two objects have the same value (identity-keyed blocks_dict loses nothing). *)
Theorem C15_two_objects :
  forall (E : ips) (rho : nat -> E) (phi : nat -> R) d n0 ops,
    (1 <= d)%nat -> ok (init_partition d n0) ops ->
    let st := fst (trace (init_partition d n0) [] ops) in
    let g := snd (trace (init_partition d n0) [] ops) in
    forall e1 e2, In e1 g -> In e2 g -> e1 <> e2 ->
      e_obj e1 <> e_obj e2
      /\ (forall x, In x (leaves_of d e1) -> ~ In x (leaves_of d e2))
      /\ ((forall c, In c (partition_constraints st) -> holds rho phi c) ->
          veq (evalP rho (e_pd e1)) (evalP rho (e_pd e2)) ->
          forall k, (k < d)%nat ->
            veq (evalP rho (nth k (blocks_of d e1) [])) (evalP rho (nth k (blocks_of d e2) []))).
Proof. exact two_objects_history. Qed.

(** The abstract fact behind it: two orthogonal families with the same sum that are orthogonal
    across the families (different indices) coincide block by block. *)
Theorem C15_orthogonal_families_equal :
  forall (E : ips) (X Y : list E) d,
    length X = d -> length Y = d -> veq (vsum X) (vsum Y) ->
    (forall k l, (k < d)%nat -> (l < d)%nat -> k <> l ->
       inner (nth k X vzero) (nth l X vzero) = 0 /\ inner (nth k Y vzero) (nth l Y vzero) = 0
       /\ inner (nth k X vzero) (nth l Y vzero) = 0) ->
    forall k, (k < d)%nat -> veq (nth k X vzero) (nth k Y vzero).
Proof. exact (@orthogonal_families_equal). Qed.

(** * Non-vacuity *)
Local Close Scope R_scope.
Local Open Scope nat_scope.

(** A history over a 3-block partition, Point.counter starting at 3: a combination is decomposed
    (object 7), a leaf is created elsewhere, a twin object 9 with the same dictionary is decomposed,
    object 7 is asked again, a block of object 7 (its leaf 4) is itself decomposed. *)
Definition ex_ops : list op :=
  [OGet 7 [(0%nat, 1%Q); (2%nat, (-1 # 2)%Q)] 0; OLeaf; OGet 9 [(0%nat, 1%Q); (2%nat, (-1 # 2)%Q)] 2;
   OGet 7 [] 1; OGet 11 [(4%nat, 1%Q)] 2].

Example C15_example_ok : ok (init_partition 3 3) ex_ops.
Proof.
  cbn. unfold NoDupKeys. cbn.
  repeat split; try (repeat constructor; cbn; intuition discriminate); intros x H; cbn in H;
    intuition lia.
Qed.

Example C15_example_trace :
  let st := fst (trace (init_partition 3 3) [] ex_ops) in
  let g := snd (trace (init_partition 3 3) [] ex_ops) in
  map e_obj g = [7; 9; 11]%nat /\ map e_n g = [3; 6; 8]%nat /\ bp_next st = 10%nat
  /\ length (partition_constraints st) = 27%nat
  /\ map (fun b => dump_pdict b) (blocks_of 3 (nth 0 g (mkE 0 [] 0)))
     = map dump_pdict [[(3%nat, 1%Q)]; [(4%nat, 1%Q)];
                       [(0%nat, 1%Q); (2%nat, (-1 # 2)%Q); (3%nat, (-1)%Q); (4%nat, (-1)%Q)]]
  /\ nth 0 (partition_constraints st) ([], Ineq) = ([(KG 4 3, 1%Q)], Equ).
Proof. vm_compute. repeat split. Qed.

(** a PEP with an unused 2-block partition, the 3-block partition above and a used one-block
    partition: exactly the 27 relations of the 3-block partition reach the wrapper *)
Example C15_example_solve :
  let hs := [(2, 0, []); (3, 3, ex_ops); (1, 10, [OGet 0 [(0%nat, 1%Q)] 0])] in
  (forall h, In h hs -> h_ok h)
  /\ length (sent_partition_constraints (map h_state hs)) = 27
  /\ sent_partition_constraints (map h_state hs) = partition_constraints (h_state (3, 3, ex_ops)).
Proof.
  cbv zeta. split.
  - intros h [<-|[<-|[<-|[]]]].
    + exact I.
    + exact C15_example_ok.
    + unfold h_ok. cbn. unfold NoDupKeys. cbn. repeat split; try (repeat constructor; cbn; intuition discriminate).
      intros x [<-|[]]. lia.
  - vm_compute. split; reflexivity.
Qed.

(** the hypotheses of C15_real are satisfiable: R^3, blocks {0, 2} and {1} *)
Example C15_example_partition :
  forall i, (i < 3)%nat -> ((fun i => i mod 2) i < 2)%nat.
Proof. intros i _. apply Nat.mod_upper_bound. discriminate. Qed.

(** two distinct entries with equal dictionaries exist in the example history *)
Example C15_example_twins :
  let g := snd (trace (init_partition 3 3) [] ex_ops) in
  exists e1 e2, In e1 g /\ In e2 g /\ e1 <> e2 /\ e_pd e1 = e_pd e2.
Proof.
  cbv zeta. vm_compute trace. eexists; eexists. split; [left; reflexivity|].
  split; [right; left; reflexivity|]. split; [discriminate|reflexivity].
Qed.

Print Assumptions C15_sum_back_call.
Print Assumptions C15_sum_back.
Print Assumptions C15_fresh.
Print Assumptions C15_idempotent.
Print Assumptions C15_one_block.
Print Assumptions C15_constraints_exact_list.
Print Assumptions C15_constraints_exact.
Print Assumptions C15_solve_sent_exact.
Print Assumptions C15_solve_sent_meaning.
Print Assumptions C15_real.
Print Assumptions C15_masks.
Print Assumptions C15_two_objects.
Print Assumptions C15_orthogonal_families_equal.
