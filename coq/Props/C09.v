(** C09 — no real run of a modelled method on a real function beats the returned bound.
    Property theorems only; proofs live in Proofs/MethodLemmas.v (and the files of C03 / C01). *)
From Coq Require Import List QArith Reals Qreals Lra Arith Bool.
From PV Require Import Base.IPS Model.Dict Model.Terms Model.Sent Model.Cvxpy Model.Method Spec.Sem Spec.World Spec.KKT
  Model.ClassGen Spec.Classes Proofs.MethodLemmas Proofs.C09Bound Proofs.C03Core Proofs.C09Compose.
From PV Require Import Gen.Classes.
Import ListNotations.
Local Open Scope R_scope.

(** For every inner-product space, every world (a real oracle for each leaf function whose outputs
    are genuine samples of that function), every well-formed program of any length and every initial
    valuation of the leaves: after the real run, EVERY recorded triple is a genuine sample of its
    function at the values the run gave to the leaves. *)
Theorem C09_recorded_samples_are_genuine :
  forall (E : ips) (W : @world E) (ops : list mop) (vs : (nat -> E) * (nat -> R)),
    mwf ops minit = true ->
    forall f t, In (f, t) (m_samples (mrun ops minit)) ->
      Gen W f (sample_at (E := E) (fst (wrun W ops minit vs)) (snd (wrun W ops minit vs)) t).
Proof.
  intros E W ops vs Hwf f t Hin.
  exact (proj2 (world_samples_genuine_init W ops vs Hwf f t Hin)).
Qed.

(** The run never changes the value of a leaf that existed before it, nor of a free leaf created
    during it: starting points and optima are whatever the initial valuation (constrained only by
    the user's initial condition) says. *)
Theorem C09_existing_leaves_keep_values :
  forall (E : ips) (W : @world E) (ops : list mop) (s : mstate) (vs : (nat -> E) * (nat -> R)),
    (forall i, (i < m_np s)%nat -> fst (wrun W ops s vs) i = fst vs i) /\
    (forall i, (i < m_ne s)%nat -> snd (wrun W ops s vs) i = snd vs i).
Proof. exact (@wrun_keeps). Qed.

Theorem C09_free_leaves_keep_values :
  forall (E : ips) (W : @world E) (ops1 ops2 : list mop) (s : mstate) (vs : (nat -> E) * (nat -> R)),
    fst (wrun W (ops1 ++ MFresh :: ops2) s vs) (m_np (mrun ops1 s)) = fst (wrun W ops1 s vs) (m_np (mrun ops1 s)).
Proof. exact (@wrun_free_leaf). Qed.


(** Weak duality at a real valuation: the Gram matrix of the values of the leaf points is symmetric
    PSD and the Gram reading of every expression at it is the expression's value, so a valuation under
    which every item sent to the solver holds (class constraints: C03; step constraints: C08;
    partition constraints: C15; the user's initial condition: assumption) is a feasible point of the
    SDP, and any dual certificate (C01: identity, signs, PSD multipliers) bounds the objective. *)
Theorem C09_real_valuation_bounded :
  forall (E : ips) (rho : nat -> E) (phi : nat -> R)
         (np : nat) (obj : edict) (tracked : sent) (duals : list Cvxpy.dval) (res : list (list Q)) (tau : R),
    length duals = length tracked ->
    certificate_identity obj (combine tracked duals) res tau ->
    dual_feasible (combine tracked duals) ->
    rank1sum res np ->
    Forall (item_holds_at rho phi) tracked ->
    evalE rho phi obj <= tau.
Proof. exact (@real_valuation_bounded). Qed.

(** The performance of the run: PEPit maximises a fresh leaf o under the rows  o - metric_k <= 0 ; no
    other item mentions o.  Whatever the real run achieves -- any t below all its metric values, in
    particular the smallest metric -- is below the certified bound tau. *)
Theorem C09_performance_bounded :
  forall (E : ips) (rho : nat -> E) (phi : nat -> R) (o np : nat)
         (metrics : list (item * edict)) (others : sent)
         (duals : list Cvxpy.dval) (res : list (list Q)) (tau t : R),
    let tracked := map fst metrics ++ others in
    length duals = length tracked ->
    certificate_identity [(KF o, 1%Q)] (combine tracked duals) res tau ->
    dual_feasible (combine tracked duals) ->
    rank1sum res np ->
    Forall (fun im => is_metric_row rho o (fst im) (snd im)) metrics ->
    Forall (fun it => item_mentions o it = false) others ->
    Forall (item_holds_at rho phi) others ->
    (forall im, In im metrics -> t <= evalE rho phi (snd im)) ->
    t <= tau.
Proof. exact (@performance_bounded). Qed.


(** Composition with C03, over the class plans and formulas REGENERATED from the sources: for ANY run
    (free points, stationary points, evaluations at arbitrary combinations; any length) of ANY method on
    any real function of the class, every interpolation constraint PEPit generates from what it recorded
    holds at the values of the run.  Two instances: a differentiable class and a non-differentiable one
    (the other classes compose in the same way through their C03 theorem). *)
Theorem C09_run_satisfies_class_constraints_smooth_strongly_convex :
  forall (E : ips) (mu L : R) (qmu qL : Q) (F : @dfn E) (xs : E)
         (Hxs : veq (dgrad F xs) vzero) (Hext : respects_veq F) (ops : list mop) (vs : (nat -> E) * (nat -> R)),
    0 <= mu < L -> smooth_strongly_convex_member mu L F ->
    Q2R qL = L -> Q2R qmu = mu ->
    mwf ops minit = true -> Forall op_nodup ops ->
    let W := dfn_world F xs Hxs Hext in
    let par := fun p => match p with 0%nat => qL | 1%nat => qmu | _ => 0%Q end in
    all_satisfied (fst (wrun W ops minit vs)) (snd (wrun W ops minit vs))
      (run_plan plan_SmoothStronglyConvexFunction (fstate_of par (mrun ops minit) 0)).
Proof. exact (@run_satisfies_smooth_strongly_convex). Qed.

Theorem C09_run_satisfies_class_constraints_convex :
  forall (E : ips) (F : @fn E) (sel : E -> E) (Hsel : forall x, subgrad F x (sel x))
         (xs : E) (Hxs : subgrad F xs vzero) (Hext : fn_respects_veq F) (ops : list mop) (vs : (nat -> E) * (nat -> R)),
    mwf ops minit = true -> Forall op_nodup ops ->
    let W := fn_world F sel Hsel xs Hxs Hext in
    all_satisfied (fst (wrun W ops minit vs)) (snd (wrun W ops minit vs))
      (run_plan plan_ConvexFunction (fstate_of (fun _ => 0%Q) (mrun ops minit) 0)).
Proof. exact (@run_satisfies_convex). Qed.

(** Non-vacuity: two gradient steps x1 = x0 - 1/2 g0, x2 = x1 - 1/2 g1 on a leaf function, run in the
    world "f(x) = x^2 on the real line": the program is well formed and records two samples. *)
Example C09_example_program :
  let ops := [MStat 0; MFresh; MEval 0 [(1%nat, 1%Q)]; MEval 0 [(1%nat, 1%Q); (2%nat, (-1 # 2)%Q)]] in
  mwf ops minit = true /\ length (m_samples (mrun ops minit)) = 3%nat
  /\ length (g_cons (run_plan plan_SmoothStronglyConvexFunction (fstate_of (fun _ => 1%Q) (mrun ops minit) 0))) = 6%nat.
Proof. cbv zeta. split; [|split]; vm_compute; reflexivity. Qed.

Print Assumptions C09_recorded_samples_are_genuine.
Print Assumptions C09_existing_leaves_keep_values.
Print Assumptions C09_free_leaves_keep_values.
Print Assumptions C09_real_valuation_bounded.
Print Assumptions C09_performance_bounded.
Print Assumptions C09_run_satisfies_class_constraints_smooth_strongly_convex.
Print Assumptions C09_run_satisfies_class_constraints_convex.
