(** C09 — no real run of a modelled method on a real function beats the returned bound.
    Property theorems only; proofs live in Proofs/MethodLemmas.v (and the files of C03 / C01). *)
From Coq Require Import List QArith Reals Qreals Lra Arith Bool.
From PV Require Import Base.IPS Model.Dict Model.Terms Model.Sent Model.Cvxpy Model.Method Spec.Sem Spec.World Spec.KKT
  Model.ClassGen Spec.Classes Proofs.MethodLemmas Proofs.C09Bound Proofs.C03Core Proofs.C09Compose.
From PV Require Import Gen.Classes.
Import ListNotations.
Local Open Scope R_scope.

(** For every inner-product space, every world (a real oracle for each leaf function whose outputs
    are genuine samples of that function), every well-formed program of any length and every initial
    valuation of the leaves: after the real run, EVERY recorded triple is a genuine sample of its
    function at the values the run gave to the leaves.  Programs may contain proximal steps ([MProx], the
    model of PEPit.primitive_steps.proximal_step) on the functions of the world that have a proximal
    operator ([steps_ok]; [mwf] asks for a positive step size). *)
Theorem C09_recorded_samples_are_genuine :
  forall (E : ips) (W : @world E) (ops : list mop) (vs : (nat -> E) * (nat -> R)),
    mwf ops minit = true -> steps_ok W ops = true ->
    forall f t, In (f, t) (m_samples (mrun ops minit)) ->
      Gen W f (sample_at (E := E) (fst (wrun W ops minit vs)) (snd (wrun W ops minit vs)) t).
Proof.
  intros E W ops vs Hwf Hpx f t Hin.
  exact (proj2 (world_samples_genuine_init W ops vs Hwf Hpx f t Hin)).
Qed.

(** The run never changes the value of a leaf that existed before it, nor of a free leaf created
    during it: starting points and optima are whatever the initial valuation (constrained only by
    the user's initial condition) says. *)
Theorem C09_existing_leaves_keep_values :
  forall (E : ips) (W : @world E) (ops : list mop) (s : mstate) (vs : (nat -> E) * (nat -> R)),
    (forall i, (i < m_np s)%nat -> fst (wrun W ops s vs) i = fst vs i) /\
    (forall i, (i < m_ne s)%nat -> snd (wrun W ops s vs) i = snd vs i).
Proof. exact (@wrun_keeps). Qed.

Theorem C09_free_leaves_keep_values :
  forall (E : ips) (W : @world E) (ops1 ops2 : list mop) (s : mstate) (vs : (nat -> E) * (nat -> R)),
    fst (wrun W (ops1 ++ MFresh :: ops2) s vs) (m_np (mrun ops1 s)) = fst (wrun W ops1 s vs) (m_np (mrun ops1 s)).
Proof. exact (@wrun_free_leaf). Qed.


(** Weak duality at a real valuation: the Gram matrix of the values of the leaf points is symmetric
    PSD and the Gram reading of every expression at it is the expression's value, so a valuation under
    which every item sent to the solver holds (class constraints: C03; step constraints: C08;
    partition constraints: C15; the user's initial condition: assumption) is a feasible point of the
    SDP, and any dual certificate (C01: identity, signs, PSD multipliers) bounds the objective. *)
Theorem C09_real_valuation_bounded :
  forall (E : ips) (rho : nat -> E) (phi : nat -> R)
         (np : nat) (obj : edict) (tracked : sent) (duals : list Cvxpy.dval) (entries : list (option (list (list Q)))) (res : list (list Q)) (tau : R),
    length duals = length tracked -> length entries = length tracked ->
    certificate_identity obj (combine (combine tracked duals) entries) res tau ->
    dual_feasible (combine (combine tracked duals) entries) ->
    rank1sum res np ->
    Forall (item_holds_at rho phi) tracked ->
    evalE rho phi obj <= tau.
Proof. exact (@real_valuation_bounded). Qed.

(** The performance of the run: PEPit maximises a fresh leaf o under the rows  o - metric_k <= 0 ; no
    other item mentions o.  Whatever the real run achieves -- any t below all its metric values, in
    particular the smallest metric -- is below the certified bound tau. *)
Theorem C09_performance_bounded :
  forall (E : ips) (rho : nat -> E) (phi : nat -> R) (o np : nat)
         (metrics : list (item * edict)) (others : sent)
         (duals : list Cvxpy.dval) (entries : list (option (list (list Q)))) (res : list (list Q)) (tau t : R),
    let tracked := map fst metrics ++ others in
    length duals = length tracked -> length entries = length tracked ->
    certificate_identity [(KF o, 1%Q)] (combine (combine tracked duals) entries) res tau ->
    dual_feasible (combine (combine tracked duals) entries) ->
    rank1sum res np ->
    Forall (fun im => is_metric_row rho o (fst im) (snd im)) metrics ->
    Forall (fun it => item_mentions o it = false) others ->
    Forall (item_holds_at rho phi) others ->
    (forall im, In im metrics -> t <= evalE rho phi (snd im)) ->
    t <= tau.
Proof. exact (@performance_bounded). Qed.


(** Composition with C03, over the class plans and formulas REGENERATED from the sources: for ANY run
    (free points, stationary points, evaluations at arbitrary combinations; any length) of ANY method on
    any real function of the class, every interpolation constraint PEPit generates from what it recorded
    holds at the values of the run.  Two instances: a differentiable class and a non-differentiable one
    (the other classes compose in the same way through their C03 theorem). *)
Theorem C09_run_satisfies_class_constraints_smooth_strongly_convex :
  forall (E : ips) (mu L : R) (qmu qL : Q) (F : @dfn E) (xs : E)
         (Hxs : veq (dgrad F xs) vzero) (Hext : respects_veq F) (hp : bool) (res : R -> E -> E) (Hres : prox_spec (genuine_grad F) (dval F) hp res)
         (ie : bool -> R -> E -> E) (Hie : inexact_spec (dgrad F) ie)
         (hs : bool) (ls : E -> list E -> E) (Hls : ls_spec (dgrad F) hs ls)
         (ops : list mop) (vs : (nat -> E) * (nat -> R)),
    0 <= mu < L -> smooth_strongly_convex_member mu L F ->
    Q2R qL = L -> Q2R qmu = mu ->
    mwf ops minit = true -> Forall op_nodup ops ->
    let W := dfn_world F xs Hxs Hext hp res Hres ie Hie hs ls Hls in steps_ok W ops = true ->
    let par := fun p => match p with 0%nat => qL | 1%nat => qmu | _ => 0%Q end in
    all_satisfied (fst (wrun W ops minit vs)) (snd (wrun W ops minit vs))
      (run_plan plan_SmoothStronglyConvexFunction (fstate_of par (mrun ops minit) 0)).
Proof. exact (@run_satisfies_smooth_strongly_convex). Qed.

Theorem C09_run_satisfies_class_constraints_convex :
  forall (E : ips) (F : @fn E) (sel : E -> E) (Hsel : forall x, subgrad F x (sel x))
         (xs : E) (Hxs : subgrad F xs vzero) (Hext : fn_respects_veq F) (hp : bool) (res : R -> E -> E) (Hres : prox_spec (genuine_sub F) (val F) hp res)
         (ops : list mop) (vs : (nat -> E) * (nat -> R)),
    mwf ops minit = true -> Forall op_nodup ops ->
    let W := fn_world F sel Hsel xs Hxs Hext hp res Hres in steps_ok W ops = true ->
    all_satisfied (fst (wrun W ops minit vs)) (snd (wrun W ops minit vs))
      (run_plan plan_ConvexFunction (fstate_of (fun _ => 0%Q) (mrun ops minit) 0)).
Proof. exact (@run_satisfies_convex). Qed.

(** Non-vacuity: two gradient steps x1 = x0 - 1/2 g0, x2 = x1 - 1/2 g1 on a leaf function, run in the
    world "f(x) = x^2 on the real line": the program is well formed and records two samples. *)
Example C09_example_program :
  let ops := [MStat 0; MFresh; MEval 0 [(1%nat, 1%Q)]; MEval 0 [(1%nat, 1%Q); (2%nat, (-1 # 2)%Q)]] in
  mwf ops minit = true /\ length (m_samples (mrun ops minit)) = 3%nat
  /\ length (g_cons (run_plan plan_SmoothStronglyConvexFunction (fstate_of (fun _ => 1%Q) (mrun ops minit) 0))) = 6%nat.
Proof. cbv zeta. split; [|split]; vm_compute; reflexivity. Qed.

Print Assumptions C09_recorded_samples_are_genuine.
Print Assumptions C09_existing_leaves_keep_values.
Print Assumptions C09_free_leaves_keep_values.
Print Assumptions C09_real_valuation_bounded.
Print Assumptions C09_performance_bounded.
Print Assumptions C09_run_satisfies_class_constraints_smooth_strongly_convex.
Print Assumptions C09_run_satisfies_class_constraints_convex.

(** * Composition with C03 for the other classes (Proofs/C09ComposeAll.v)

    Same shape as the two theorems above: for every program of any length, every initial valuation, every real
    member of the class (parameters in the class' range, given to PEPit as rationals), run in the world made of
    that member: every class constraint / LMI generated from the recorded samples is satisfied at the values
    of the run.  Worlds: [dfn_world] (differentiable function with a stationary point), [fn_world] (finite convex
    function, total subgradient selection, minimiser), [pfn_world] (extended-valued: selection on the domain,
    hypothesis "every recorded evaluation point is in the domain at the values of the run"), [support_world],
    [graph_world] (single-valued selection T of a graph A that respects veq, with a zero xs), [lin_world] /
    [lin2_world] (a linear map; with its transpose as function 1 of the run).  ConvexQG / RsiEb: programs that
    declare a stationary point ([MStat 0] occurs), so PEPit creates none itself.  [set_inf (inf_flag p o)] sets the
    [np.inf] flag of parameter p when the member's optional parameter is [None].
    Not composed: SmoothStronglyConvexQuadraticFunction, BlockSmoothConvexFunction. *)
From PV Require Import Proofs.C04Lemmas Proofs.C09ComposeAll.

(** every recorded stationary sample (empty gradient dictionary) is valued at the world's stationary point
    (provided no linear-optimization step is taken along the zero direction: such a step records an empty
    gradient dictionary at a point of the set that need not be the stationary point; likewise no Bregman gradient
    step to the zero dual point and no Bregman proximal step of step size 0 -- for a well-formed program, whose
    Bregman proximal steps have a positive step size, the dual point recorded by such a step mentions the fresh
    subgradient leaf) *)
Theorem C09_stationary_samples_at_stationary_point :
  forall (E : ips) (W : @world E) (ops : list mop) (vs : (nat -> E) * (nat -> R)) (par : nat -> Q) (f : nat) sm,
    mwf ops minit = true ->
    forallb linopt_dir_nonzero ops = true ->
    In sm (f_stat (fstate_of par (mrun ops minit) f)) ->
    In sm (f_points (fstate_of par (mrun ops minit) f)) /\ s_g sm = [] /\
    veq (px (fst (wrun W ops minit vs)) sm) (fst (stat W f)).
Proof. intros E W ops vs par f sm. exact (f_stat_at_stat W par ops vs f sm). Qed.
Print Assumptions C09_stationary_samples_at_stationary_point.

Theorem C09_run_satisfies_class_constraints_smooth_convex :
  forall (E : ips) (F : @dfn E) (xs : E) (Hxs : veq (dgrad F xs) vzero) (Hext : respects_veq F)
         (hp : bool) (res : R -> E -> E) (Hres : prox_spec (genuine_grad F) (dval F) hp res)
         (ie : bool -> R -> E -> E) (Hie : inexact_spec (dgrad F) ie)
         (hs : bool) (ls : E -> list E -> E) (Hls : ls_spec (dgrad F) hs ls)
         (ops : list mop) (vs : (nat -> E) * (nat -> R)),
    mwf ops minit = true -> Forall op_nodup ops ->
    let W := dfn_world F xs Hxs Hext hp res Hres ie Hie hs ls Hls in steps_ok W ops = true ->
    forall (L : R) (qL : Q), 0 < L -> smooth_convex_member L F -> Q2R qL = L ->
        all_satisfied (fst (wrun W ops minit vs)) (snd (wrun W ops minit vs))
      (run_plan plan_SmoothConvexFunction (fstate_of (par_at 0 qL) (mrun ops minit) 0)).
Proof. exact (@run_satisfies_smooth_convex). Qed.
Print Assumptions C09_run_satisfies_class_constraints_smooth_convex.

Theorem C09_run_satisfies_class_constraints_smooth :
  forall (E : ips) (F : @dfn E) (xs : E) (Hxs : veq (dgrad F xs) vzero) (Hext : respects_veq F)
         (hp : bool) (res : R -> E -> E) (Hres : prox_spec (genuine_grad F) (dval F) hp res)
         (ie : bool -> R -> E -> E) (Hie : inexact_spec (dgrad F) ie)
         (hs : bool) (ls : E -> list E -> E) (Hls : ls_spec (dgrad F) hs ls)
         (ops : list mop) (vs : (nat -> E) * (nat -> R)),
    mwf ops minit = true -> Forall op_nodup ops ->
    let W := dfn_world F xs Hxs Hext hp res Hres ie Hie hs ls Hls in steps_ok W ops = true ->
    forall (L : R) (qL : Q), 0 < L -> smooth_member L F -> Q2R qL = L ->
        all_satisfied (fst (wrun W ops minit vs)) (snd (wrun W ops minit vs))
      (run_plan plan_SmoothFunction (fstate_of (par_at 0 qL) (mrun ops minit) 0)).
Proof. exact (@run_satisfies_smooth). Qed.
Print Assumptions C09_run_satisfies_class_constraints_smooth.

Theorem C09_run_satisfies_class_constraints_smooth_convex_lipschitz :
  forall (E : ips) (F : @dfn E) (xs : E) (Hxs : veq (dgrad F xs) vzero) (Hext : respects_veq F)
         (hp : bool) (res : R -> E -> E) (Hres : prox_spec (genuine_grad F) (dval F) hp res)
         (ie : bool -> R -> E -> E) (Hie : inexact_spec (dgrad F) ie)
         (hs : bool) (ls : E -> list E -> E) (Hls : ls_spec (dgrad F) hs ls)
         (ops : list mop) (vs : (nat -> E) * (nat -> R)),
    mwf ops minit = true -> Forall op_nodup ops ->
    let W := dfn_world F xs Hxs Hext hp res Hres ie Hie hs ls Hls in steps_ok W ops = true ->
    forall (L M : R) (qL qM : Q),
    0 < L -> 0 <= M -> smooth_convex_lipschitz_member L M F -> Q2R qL = L -> Q2R qM = M ->
        all_satisfied (fst (wrun W ops minit vs)) (snd (wrun W ops minit vs))
      (run_plan plan_SmoothConvexLipschitzFunction (fstate_of (par_at2 0 qL 2 qM) (mrun ops minit) 0)).
Proof. exact (@run_satisfies_smooth_convex_lipschitz). Qed.
Print Assumptions C09_run_satisfies_class_constraints_smooth_convex_lipschitz.

(** the world's stationary point is the xs of [rsi_eb_member] *)
Theorem C09_run_satisfies_class_constraints_rsi_eb :
  forall (E : ips) (F : @dfn E) (xs : E) (Hxs : veq (dgrad F xs) vzero) (Hext : respects_veq F)
         (hp : bool) (res : R -> E -> E) (Hres : prox_spec (genuine_grad F) (dval F) hp res)
         (ie : bool -> R -> E -> E) (Hie : inexact_spec (dgrad F) ie)
         (hs : bool) (ls : E -> list E -> E) (Hls : ls_spec (dgrad F) hs ls)
         (ops : list mop) (vs : (nat -> E) * (nat -> R)),
    mwf ops minit = true -> Forall op_nodup ops ->
    let W := dfn_world F xs Hxs Hext hp res Hres ie Hie hs ls Hls in steps_ok W ops = true ->
    forall (mu L : R) (qmu qL : Q),
    rsi_eb_member mu L F xs -> Q2R qL = L -> Q2R qmu = mu -> In (MStat 0) ops ->
        all_satisfied (fst (wrun W ops minit vs)) (snd (wrun W ops minit vs))
      (run_plan plan_RsiEbFunction (fstate_of (par_at2 0 qL 1 qmu) (mrun ops minit) 0)).
Proof. exact (@run_satisfies_rsi_eb). Qed.
Print Assumptions C09_run_satisfies_class_constraints_rsi_eb.

Theorem C09_run_satisfies_class_constraints_convex_lipschitz :
  forall (E : ips) (F : @fn E) (sel : E -> E) (Hsel : forall x, subgrad F x (sel x))
         (xs : E) (Hxs : subgrad F xs vzero) (Hext : fn_respects_veq F) (hp : bool) (res : R -> E -> E) (Hres : prox_spec (genuine_sub F) (val F) hp res)
         (ops : list mop) (vs : (nat -> E) * (nat -> R)),
    mwf ops minit = true -> Forall op_nodup ops ->
    let W := fn_world F sel Hsel xs Hxs Hext hp res Hres in steps_ok W ops = true ->
    forall (M : R) (qM : Q), 0 <= M -> lipschitz_fn M F -> Q2R qM = M ->
        all_satisfied (fst (wrun W ops minit vs)) (snd (wrun W ops minit vs))
      (run_plan plan_ConvexLipschitzFunction (fstate_of (par_at 2 qM) (mrun ops minit) 0)).
Proof. exact (@run_satisfies_convex_lipschitz). Qed.
Print Assumptions C09_run_satisfies_class_constraints_convex_lipschitz.

(** the world's stationary point is a minimiser *)
Theorem C09_run_satisfies_class_constraints_convex_qg :
  forall (E : ips) (F : @fn E) (sel : E -> E) (Hsel : forall x, subgrad F x (sel x))
         (xs : E) (Hxs : subgrad F xs vzero) (Hext : fn_respects_veq F) (hp : bool) (res : R -> E -> E) (Hres : prox_spec (genuine_sub F) (val F) hp res)
         (ops : list mop) (vs : (nat -> E) * (nat -> R)),
    mwf ops minit = true -> Forall op_nodup ops ->
    let W := fn_world F sel Hsel xs Hxs Hext hp res Hres in steps_ok W ops = true ->
    forall (L : R) (qL : Q), 0 < L -> qg_member L F -> Q2R qL = L -> In (MStat 0) ops ->
        all_satisfied (fst (wrun W ops minit vs)) (snd (wrun W ops minit vs))
      (run_plan plan_ConvexQGFunction (fstate_of (par_at 0 qL) (mrun ops minit) 0)).
Proof. exact (@run_satisfies_convex_qg). Qed.
Print Assumptions C09_run_satisfies_class_constraints_convex_qg.

(** extended-valued: the subgradient selection lives on the domain; the run only evaluates points of the domain *)
Theorem C09_run_satisfies_class_constraints_strongly_convex :
  forall (E : ips) (F : @fn E) (sel : E -> E) (Hsel : forall x, dom F x -> subgrad F x (sel x))
         (xs : E) (Hxs : subgrad F xs vzero) (Hext : fn_respects_veq F) (hp : bool) (res : R -> E -> E) (Hres : prox_spec (genuine_sub F) (val F) hp res)
         (hl : bool) (lm : E -> E) (Hlm : lmo_spec (genuine_sub F) (val F) hl lm)
         (ops : list mop) (vs : (nat -> E) * (nat -> R)),
    mwf ops minit = true -> Forall op_nodup ops ->
    let W := pfn_world F sel Hsel xs Hxs Hext hp res Hres hl lm Hlm in steps_ok W ops = true ->
    forall (mu : R) (qmu : Q), 0 <= mu -> strongly_convex_member mu F -> Q2R qmu = mu ->
        (forall sm, In sm (f_points (fstate_of (par_at 1 qmu) (mrun ops minit) 0)) -> dom F (px (fst (wrun W ops minit vs)) sm)) ->
    all_satisfied (fst (wrun W ops minit vs)) (snd (wrun W ops minit vs))
      (run_plan plan_StronglyConvexFunction (fstate_of (par_at 1 qmu) (mrun ops minit) 0)).
Proof. exact (@run_satisfies_strongly_convex). Qed.
Print Assumptions C09_run_satisfies_class_constraints_strongly_convex.

(** F the indicator of its domain, the oracle a selection of the normal cone on the set *)
Theorem C09_run_satisfies_class_constraints_convex_indicator :
  forall (E : ips) (F : @fn E) (sel : E -> E) (Hsel : forall x, dom F x -> subgrad F x (sel x))
         (xs : E) (Hxs : subgrad F xs vzero) (Hext : fn_respects_veq F) (hp : bool) (res : R -> E -> E) (Hres : prox_spec (genuine_sub F) (val F) hp res)
         (hl : bool) (lm : E -> E) (Hlm : lmo_spec (genuine_sub F) (val F) hl lm)
         (ops : list mop) (vs : (nat -> E) * (nat -> R)),
    mwf ops minit = true -> Forall op_nodup ops ->
    let W := pfn_world F sel Hsel xs Hxs Hext hp res Hres hl lm Hlm in steps_ok W ops = true ->
    forall (D : option R) (qD : Q), indicator_member D F -> (forall d, D = Some d -> Q2R qD = d) ->
        (forall sm, In sm (f_points (fstate_of (par_at 3 qD) (mrun ops minit) 0)) -> dom F (px (fst (wrun W ops minit vs)) sm)) ->
    all_satisfied (fst (wrun W ops minit vs)) (snd (wrun W ops minit vs))
      (run_plan plan_ConvexIndicatorFunction (set_inf (inf_flag 3 D) (fstate_of (par_at 3 qD) (mrun ops minit) 0))).
Proof. exact (@run_satisfies_convex_indicator). Qed.
Print Assumptions C09_run_satisfies_class_constraints_convex_indicator.

(** sigma the support function of C, the oracle an argmax selection; a minimiser xs exists (0 in C, sigma xs = 0) *)
Theorem C09_run_satisfies_class_constraints_convex_support :
  forall (E : ips) (C : E -> Prop) (sigma : E -> R) (sel : E -> E)
         (Hsel : forall x, C (sel x) /\ inner (sel x) x = sigma x)
         (xs : E) (Hzero : C vzero) (Hxs : sigma xs = 0)
         (HCext : forall g g' : E, veq g g' -> C g -> C g') (Hsext : forall x x' : E, veq x x' -> sigma x = sigma x')
         (hp : bool) (res : R -> E -> E) (Hres : prox_spec (genuine_support C sigma) sigma hp res)
         (M : option R) (qM : Q) (ops : list mop) (vs : (nat -> E) * (nat -> R)),
    support_member M C sigma -> (forall m, M = Some m -> Q2R qM = m) ->
    mwf ops minit = true -> Forall op_nodup ops ->
    let W := support_world C sigma sel Hsel xs Hzero Hxs HCext Hsext hp res Hres in steps_ok W ops = true ->
    all_satisfied (fst (wrun W ops minit vs)) (snd (wrun W ops minit vs))
      (run_plan plan_ConvexSupportFunction (set_inf (inf_flag 2 M) (fstate_of (par_at 2 qM) (mrun ops minit) 0))).
Proof. exact (@run_satisfies_convex_support). Qed.
Print Assumptions C09_run_satisfies_class_constraints_convex_support.

(** operator classes: T a single-valued selection of the graph A, A xs 0, A respects veq *)
Theorem C09_run_satisfies_class_constraints_monotone :
  forall (E : ips) (A : @graph E) (T : E -> E) (HT : forall x, A x (T x)) (xs : E) (Hxs : A xs vzero)
         (Hext : graph_respects_veq A) (hp : bool) (res : R -> E -> E) (Hres : prox_spec (genuine_op A) (fun _ => 0) hp res)
         (ops : list mop) (vs : (nat -> E) * (nat -> R)),
    mwf ops minit = true -> Forall op_nodup ops ->
    let W := graph_world A T HT xs Hxs Hext hp res Hres in steps_ok W ops = true -> monotone_op A ->
        all_satisfied (fst (wrun W ops minit vs)) (snd (wrun W ops minit vs))
      (run_plan plan_MonotoneOperator (fstate_of (fun _ => 0%Q) (mrun ops minit) 0)).
Proof. exact (@run_satisfies_monotone). Qed.
Print Assumptions C09_run_satisfies_class_constraints_monotone.

Theorem C09_run_satisfies_class_constraints_strongly_monotone :
  forall (E : ips) (A : @graph E) (T : E -> E) (HT : forall x, A x (T x)) (xs : E) (Hxs : A xs vzero)
         (Hext : graph_respects_veq A) (hp : bool) (res : R -> E -> E) (Hres : prox_spec (genuine_op A) (fun _ => 0) hp res)
         (ops : list mop) (vs : (nat -> E) * (nat -> R)),
    mwf ops minit = true -> Forall op_nodup ops ->
    let W := graph_world A T HT xs Hxs Hext hp res Hres in steps_ok W ops = true ->
    forall (mu : R) (qmu : Q), strongly_monotone_op mu A -> Q2R qmu = mu ->
        all_satisfied (fst (wrun W ops minit vs)) (snd (wrun W ops minit vs))
      (run_plan plan_StronglyMonotoneOperator (fstate_of (par_at 1 qmu) (mrun ops minit) 0)).
Proof. exact (@run_satisfies_strongly_monotone). Qed.
Print Assumptions C09_run_satisfies_class_constraints_strongly_monotone.

Theorem C09_run_satisfies_class_constraints_cocoercive :
  forall (E : ips) (A : @graph E) (T : E -> E) (HT : forall x, A x (T x)) (xs : E) (Hxs : A xs vzero)
         (Hext : graph_respects_veq A) (hp : bool) (res : R -> E -> E) (Hres : prox_spec (genuine_op A) (fun _ => 0) hp res)
         (ops : list mop) (vs : (nat -> E) * (nat -> R)),
    mwf ops minit = true -> Forall op_nodup ops ->
    let W := graph_world A T HT xs Hxs Hext hp res Hres in steps_ok W ops = true ->
    forall (beta : R) (qbeta : Q), cocoercive_op beta A -> Q2R qbeta = beta ->
        all_satisfied (fst (wrun W ops minit vs)) (snd (wrun W ops minit vs))
      (run_plan plan_CocoerciveOperator (fstate_of (par_at 4 qbeta) (mrun ops minit) 0)).
Proof. exact (@run_satisfies_cocoercive). Qed.
Print Assumptions C09_run_satisfies_class_constraints_cocoercive.

Theorem C09_run_satisfies_class_constraints_negatively_comonotone :
  forall (E : ips) (A : @graph E) (T : E -> E) (HT : forall x, A x (T x)) (xs : E) (Hxs : A xs vzero)
         (Hext : graph_respects_veq A) (hp : bool) (res : R -> E -> E) (Hres : prox_spec (genuine_op A) (fun _ => 0) hp res)
         (ops : list mop) (vs : (nat -> E) * (nat -> R)),
    mwf ops minit = true -> Forall op_nodup ops ->
    let W := graph_world A T HT xs Hxs Hext hp res Hres in steps_ok W ops = true ->
    forall (rh : R) (qrho : Q), neg_comonotone_op rh A -> Q2R qrho = rh ->
        all_satisfied (fst (wrun W ops minit vs)) (snd (wrun W ops minit vs))
      (run_plan plan_NegativelyComonotoneOperator (fstate_of (par_at 5 qrho) (mrun ops minit) 0)).
Proof. exact (@run_satisfies_negatively_comonotone). Qed.
Print Assumptions C09_run_satisfies_class_constraints_negatively_comonotone.

Theorem C09_run_satisfies_class_constraints_lipschitz :
  forall (E : ips) (A : @graph E) (T : E -> E) (HT : forall x, A x (T x)) (xs : E) (Hxs : A xs vzero)
         (Hext : graph_respects_veq A) (hp : bool) (res : R -> E -> E) (Hres : prox_spec (genuine_op A) (fun _ => 0) hp res)
         (ops : list mop) (vs : (nat -> E) * (nat -> R)),
    mwf ops minit = true -> Forall op_nodup ops ->
    let W := graph_world A T HT xs Hxs Hext hp res Hres in steps_ok W ops = true ->
    forall (L : R) (qL : Q), lipschitz_op L A -> Q2R qL = L ->
        all_satisfied (fst (wrun W ops minit vs)) (snd (wrun W ops minit vs))
      (run_plan plan_LipschitzOperator (fstate_of (par_at 0 qL) (mrun ops minit) 0)).
Proof. exact (@run_satisfies_lipschitz). Qed.
Print Assumptions C09_run_satisfies_class_constraints_lipschitz.

(** no infimal displacement vector declared *)
Theorem C09_run_satisfies_class_constraints_nonexpansive :
  forall (E : ips) (A : @graph E) (T : E -> E) (HT : forall x, A x (T x)) (xs : E) (Hxs : A xs vzero)
         (Hext : graph_respects_veq A) (hp : bool) (res : R -> E -> E) (Hres : prox_spec (genuine_op A) (fun _ => 0) hp res)
         (ops : list mop) (vs : (nat -> E) * (nat -> R)),
    mwf ops minit = true -> Forall op_nodup ops ->
    let W := graph_world A T HT xs Hxs Hext hp res Hres in steps_ok W ops = true -> nonexpansive_op A ->
        all_satisfied (fst (wrun W ops minit vs)) (snd (wrun W ops minit vs))
      (run_plan plan_NonexpansiveOperator (fstate_of (fun _ => 0%Q) (mrun ops minit) 0)).
Proof. exact (@run_satisfies_nonexpansive). Qed.
Print Assumptions C09_run_satisfies_class_constraints_nonexpansive.

Theorem C09_run_satisfies_class_constraints_lipschitz_strongly_monotone :
  forall (E : ips) (A : @graph E) (T : E -> E) (HT : forall x, A x (T x)) (xs : E) (Hxs : A xs vzero)
         (Hext : graph_respects_veq A) (hp : bool) (res : R -> E -> E) (Hres : prox_spec (genuine_op A) (fun _ => 0) hp res)
         (ops : list mop) (vs : (nat -> E) * (nat -> R)),
    mwf ops minit = true -> Forall op_nodup ops ->
    let W := graph_world A T HT xs Hxs Hext hp res Hres in steps_ok W ops = true ->
    forall (mu L : R) (qmu qL : Q), lipschitz_strongly_monotone_op mu L A -> Q2R qL = L -> Q2R qmu = mu ->
        all_satisfied (fst (wrun W ops minit vs)) (snd (wrun W ops minit vs))
      (run_plan plan_LipschitzStronglyMonotoneOperator (fstate_of (par_at2 0 qL 1 qmu) (mrun ops minit) 0)).
Proof. exact (@run_satisfies_lipschitz_strongly_monotone). Qed.
Print Assumptions C09_run_satisfies_class_constraints_lipschitz_strongly_monotone.

Theorem C09_run_satisfies_class_constraints_cocoercive_strongly_monotone :
  forall (E : ips) (A : @graph E) (T : E -> E) (HT : forall x, A x (T x)) (xs : E) (Hxs : A xs vzero)
         (Hext : graph_respects_veq A) (hp : bool) (res : R -> E -> E) (Hres : prox_spec (genuine_op A) (fun _ => 0) hp res)
         (ops : list mop) (vs : (nat -> E) * (nat -> R)),
    mwf ops minit = true -> Forall op_nodup ops ->
    let W := graph_world A T HT xs Hxs Hext hp res Hres in steps_ok W ops = true ->
    forall (mu beta : R) (qmu qbeta : Q), cocoercive_strongly_monotone_op mu beta A -> Q2R qmu = mu -> Q2R qbeta = beta ->
        all_satisfied (fst (wrun W ops minit vs)) (snd (wrun W ops minit vs))
      (run_plan plan_CocoerciveStronglyMonotoneOperator (fstate_of (par_at2 1 qmu 4 qbeta) (mrun ops minit) 0)).
Proof. exact (@run_satisfies_cocoercive_strongly_monotone). Qed.
Print Assumptions C09_run_satisfies_class_constraints_cocoercive_strongly_monotone.

(** linear operators: g = M x, stationary point 0 *)
Theorem C09_run_satisfies_class_constraints_symmetric_linear :
  forall (E : ips) (M : E -> E) (HM : linear M) (hp : bool) (res : R -> E -> E) (Hres : prox_spec (genuine_lin M) (fun _ => 0) hp res)
         (ops : list mop) (vs : (nat -> E) * (nat -> R)),
    mwf ops minit = true -> Forall op_nodup ops ->
    let W := lin_world M HM hp res Hres in steps_ok W ops = true ->
    forall (mu L : R) (qmu qL : Q), sa_bounded mu L M -> Q2R qL = L -> Q2R qmu = mu ->
        all_satisfied (fst (wrun W ops minit vs)) (snd (wrun W ops minit vs))
      (run_plan plan_SymmetricLinearOperator (fstate_of (par_at2 0 qL 1 qmu) (mrun ops minit) 0)).
Proof. exact (@run_satisfies_symmetric_linear). Qed.
Print Assumptions C09_run_satisfies_class_constraints_symmetric_linear.

Theorem C09_run_satisfies_class_constraints_skew_symmetric_linear :
  forall (E : ips) (M : E -> E) (HM : linear M) (hp : bool) (res : R -> E -> E) (Hres : prox_spec (genuine_lin M) (fun _ => 0) hp res)
         (ops : list mop) (vs : (nat -> E) * (nat -> R)),
    mwf ops minit = true -> Forall op_nodup ops ->
    let W := lin_world M HM hp res Hres in steps_ok W ops = true ->
    forall (L : R) (qL : Q), skew_bounded L M -> Q2R qL = L ->
        all_satisfied (fst (wrun W ops minit vs)) (snd (wrun W ops minit vs))
      (run_plan plan_SkewSymmetricLinearOperator (fstate_of (par_at 0 qL) (mrun ops minit) 0)).
Proof. exact (@run_satisfies_skew_symmetric_linear). Qed.
Print Assumptions C09_run_satisfies_class_constraints_skew_symmetric_linear.

(** LinearOperator: the operator is function 0 of the run, its transpose ([self.T]) function 1 *)
Theorem C09_run_satisfies_class_constraints_linear :
  forall (E : ips) (M Mt : E -> E) (HM : linear M) (HMt : linear Mt) (L : R) (qL : Q)
         (ops : list mop) (vs : (nat -> E) * (nat -> R)),
    bounded_pair L M Mt -> Q2R qL = L ->
    mwf ops minit = true -> Forall op_nodup ops ->
    let W := lin2_world M Mt HM HMt in steps_ok W ops = true ->
    all_satisfied (fst (wrun W ops minit vs)) (snd (wrun W ops minit vs))
      (run_plan plan_LinearOperator (fstate_of2 (par_at 0 qL) (mrun ops minit) 0 1)).
Proof. exact (@run_satisfies_linear). Qed.
Print Assumptions C09_run_satisfies_class_constraints_linear.

(** Non-vacuity of the two-function state: x = Point(); y = A.gradient(x); u = Point(); v = A.T.gradient(u) *)
Example C09_example_linear_program :
  let ops := [MFresh; MEval 0 [(0%nat, 1%Q)]; MFresh; MEval 1 [(2%nat, 1%Q)]; MEval 0 [(0%nat, 1%Q); (3%nat, (1 # 2)%Q)]] in
  mwf ops minit = true /\
  length (g_cons (run_plan plan_LinearOperator (fstate_of2 (par_at 0 1%Q) (mrun ops minit) 0 1))) = 2%nat /\
  length (g_lmis (run_plan plan_LinearOperator (fstate_of2 (par_at 0 1%Q) (mrun ops minit) 0 1))) = 2%nat.
Proof. cbv zeta. split; [|split]; vm_compute; reflexivity. Qed.

(** * Proximal methods

    [MProx f p gamma] models  x, gx, fx = proximal_step(p, f, gamma)  (one fresh subgradient leaf, one fresh value
    leaf, the recorded point is the combination p - gamma * gx).  In the real run the subgradient leaf gets
    (x0 - prox)/gamma and the value leaf the value at the proximal point, so that the recorded point evaluates to
    the proximal point.  Every theorem above quantifies over all programs, proximal steps included, for worlds
    given a proximal operator ([hp = true] and [prox_spec ... res]); with [hp = false], [steps_ok] says that the
    program takes no proximal step.  For a convex function the specification [prox_spec] is met by its proximal
    operator in the usual sense (minimiser of gamma F + 1/2 |. - x0|^2): this is C08's optimality theorem. *)
From PV Require Spec.StepsSpec Proofs.DictLemmas.
From PV Require Import Proofs.C09Prox.

Theorem C09_proximal_operator_meets_specification :
  forall (E : ips) (F : @fn E) (res : R -> E -> E),
    StepsSpec.convex_fn F ->
    (forall gamma x0, 0 < gamma -> StepsSpec.is_prox F gamma x0 (res gamma x0)) ->
    prox_spec (genuine_sub F) (val F) true res.
Proof. exact (@is_prox_spec). Qed.
Print Assumptions C09_proximal_operator_meets_specification.

(** Non-vacuity: two proximal-point steps (gamma = 1/2, then 1) on f(x) = x^2, prox_{gamma f}(x0) = x0/(1 + 2 gamma):
    the program is well formed, the world has the proximal operator, two samples are recorded, the second
    recorded point is valued x0/6, and the two convexity constraints generated from the samples hold. *)
Example C09_proximal_point_example :
  forall vs : (nat -> R1) * (nat -> R),
  mwf prox_point_program minit = true /\ steps_ok sq_world prox_point_program = true /\
  Forall op_nodup prox_point_program /\
  List.length (m_samples (mrun prox_point_program minit)) = 2%nat /\
  List.length (g_cons (run_plan plan_ConvexFunction (fstate_of (fun _ => 0%Q) (mrun prox_point_program minit) 0))) = 2%nat /\
  (forall x g fx, nth_error (m_samples (mrun prox_point_program minit)) 1 = Some (0%nat, (x, g, fx)) ->
     evalP (fst (wrun sq_world prox_point_program minit vs)) x = fst vs 0%nat / 6) /\
  all_satisfied (fst (wrun sq_world prox_point_program minit vs)) (snd (wrun sq_world prox_point_program minit vs))
    (run_plan plan_ConvexFunction (fstate_of (fun _ => 0%Q) (mrun prox_point_program minit) 0)).
Proof. exact proximal_point_example. Qed.

(** * Frank-Wolfe-type methods

    [MLinOpt f dir] models  x, gx, fx = linear_optimization_step(dir, f)  (one fresh POINT leaf, one fresh value leaf,
    the recorded "gradient" is the dictionary of -dir).  In the real run the point leaf gets a minimiser of <d, .>
    over the set (the world's linear minimisation oracle, [lmo_genuine]) and the value leaf the value there.
    [steps_ok] asks that such steps are taken only on functions of the world that have the oracle ([pfn_world] with
    [hl = true]: ConvexIndicatorFunction, StronglyConvexFunction theorems above).  For the indicator of a set the
    specification is met by any minimiser of <d, .> over the set: C08's normal-cone theorem. *)
Theorem C09_linear_minimisation_oracle_meets_specification :
  forall (E : ips) (F : @fn E) (lm : E -> E),
    (forall z, dom F z -> val F z = 0) ->
    (forall d, StepsSpec.is_linopt F d (lm d)) ->
    lmo_spec (genuine_sub F) (val F) true lm.
Proof. exact (@is_linopt_spec). Qed.
Print Assumptions C09_linear_minimisation_oracle_meets_specification.

(** Non-vacuity: x0 = Point() in [-1, 1]; d = Point(); s, _, _ = linear_optimization_step(d, ind);
    ind.oracle((x0 + s)/2), in the world "indicator of [-1, 1]" with lmo(d) = -1 if d >= 0 else 1 *)
Example C09_frank_wolfe_example :
  forall vs : (nat -> R1) * (nat -> R),
  -1 <= fst vs 0%nat <= 1 ->
  mwf frank_wolfe_program minit = true /\ steps_ok box_world frank_wolfe_program = true /\
  Forall op_nodup frank_wolfe_program /\
  List.length (m_samples (mrun frank_wolfe_program minit)) = 2%nat /\
  fst (wrun box_world frank_wolfe_program minit vs) 2%nat = box_lm (Q2R 1 * fst vs 1%nat + 0) /\
  List.length (g_cons (run_plan plan_ConvexIndicatorFunction
     (set_inf (inf_flag 3 (Some 2)) (fstate_of (par_at 3 2%Q) (mrun frank_wolfe_program minit) 0)))) = 6%nat /\
  all_satisfied (fst (wrun box_world frank_wolfe_program minit vs)) (snd (wrun box_world frank_wolfe_program minit vs))
    (run_plan plan_ConvexIndicatorFunction
       (set_inf (inf_flag 3 (Some 2)) (fstate_of (par_at 3 2%Q) (mrun frank_wolfe_program minit) 0))).
Proof. exact frank_wolfe_example. Qed.

(** * Inexact gradient methods

    [MInexact f p relative eps] models  x, dx0, fx0 = inexact_gradient_step(p, f, gamma, eps, notion): the oracle call
    at p (recorded as for [MEval]), the fresh direction leaf dx0, and the accuracy constraint
    (gx0 - dx0)^2 - eps^2 [* gx0^2] <= 0  added to the function ([m_cons]; the constraint dictionary is compared with
    the real step's by the recording stream).  In the real run dx0 is valued by the world's inexact oracle
    ([inexact], within the accuracy of the exact output: [inexact_bound]; [dfn_world] takes any such oracle
    [ie], the other worlds use the exact output).  The theorems above cover these programs (no flag is needed:
    every world has an inexact oracle), and every constraint the steps (inexact gradient steps, exact line
    searches) added to the functions holds at the values of the run: *)
Theorem C09_recorded_step_constraints_hold :
  forall (E : ips) (W : @world E) (ops : list mop) (vs : (nat -> E) * (nat -> R)) (f : nat) (c : edict * sense),
    mwf ops minit = true -> steps_ok W ops = true ->
    In (f, c) (m_cons (mrun ops minit)) ->
    holds (fst (wrun W ops minit vs)) (snd (wrun W ops minit vs)) c.
Proof. exact (@world_constraints_hold). Qed.
Print Assumptions C09_recorded_step_constraints_hold.

(** what the recorded accuracy constraint means under any valuation (gx0 is leaf n, dx0 leaf S n) *)
Theorem C09_inexact_constraint_meaning :
  forall (E : ips) (rho : nat -> E) (phi : nat -> R) (n : nat) (relative : bool) (eps : Q),
    holds rho phi (inexact_cons n relative eps) <->
    nrm2 (vsub (rho n) (rho (S n))) <= Q2R eps ^ 2 * (if relative then nrm2 (rho n) else 1).
Proof. exact (@inexact_cons_holds). Qed.
Print Assumptions C09_inexact_constraint_meaning.

(** Non-vacuity: x0 = Point(); inexact_gradient_step(x0, f, gamma, 1/2, 'absolute') on f(x) = x^2 with the inexact
    oracle d = 2x + eps *)
Example C09_inexact_gradient_example :
  forall vs : (nat -> R1) * (nat -> R),
  mwf inexact_program minit = true /\ steps_ok sq_inexact_world inexact_program = true /\
  List.length (m_samples (mrun inexact_program minit)) = 1%nat /\
  m_np (mrun inexact_program minit) = 3%nat /\
  fst (wrun sq_inexact_world inexact_program minit vs) 2%nat = sq_ie false (Q2R (1 # 2)) (Q2R 1 * fst vs 0%nat + 0) /\
  (exists c, m_cons (mrun inexact_program minit) = [(0%nat, c)] /\
             holds (fst (wrun sq_inexact_world inexact_program minit vs)) (snd (wrun sq_inexact_world inexact_program minit vs)) c).
Proof. exact inexact_gradient_example. Qed.

(** * Exact line searches

    [MLineSearch f x0 dirs] models  x, gx, fx = exact_linesearch_step(x0, f, dirs): the fresh POINT leaf x, the oracle
    call at it, and the constraints (x - x0) * gx == 0 and d * gx == 0 (one per direction) added to the function.  In
    the real run x is valued by the world's line search ([ls_orth]; [dfn_world] with [hs = true]), then the
    gradient / value leaves by the oracle there.  [C09_recorded_step_constraints_hold] covers these constraints; their
    meaning under any valuation (x is leaf n, gx leaf S n): *)
Theorem C09_linesearch_constraint_meaning :
  forall (E : ips) (rho : nat -> E) (phi : nat -> R) (n : nat) (x0 d : pdict),
    DictLemmas.NoDupKeys nat x0 -> DictLemmas.NoDupKeys nat d ->
    (holds rho phi (ls_cons0 n x0) <-> inner (vsub (rho n) (evalP rho x0)) (rho (S n)) = 0) /\
    (holds rho phi (ls_cons n d) <-> inner (evalP rho d) (rho (S n)) = 0).
Proof. intros E rho phi n x0 d H0 Hd. split; [exact (ls_cons0_holds rho phi n x0 H0)|exact (ls_cons_holds rho phi n d Hd)]. Qed.
Print Assumptions C09_linesearch_constraint_meaning.

(** a minimiser of a differentiable F over x0 + span(ds) meets the specification: C08's orthogonality theorem *)
Theorem C09_exact_linesearch_meets_specification :
  forall (E : ips) (F : @dfn E) (ls : E -> list E -> E),
    StepsSpec.gateaux F -> StepsSpec.dfn_ext F ->
    (forall x0 ds, StepsSpec.is_linesearch F x0 ds (ls x0 ds)) ->
    ls_spec (dgrad F) true ls.
Proof. exact (@is_linesearch_spec). Qed.
Print Assumptions C09_exact_linesearch_meets_specification.

(** Non-vacuity: x0 = Point(); g0 = f.gradient(x0); exact_linesearch_step(x0, f, [g0]) on f(x) = x^2 *)
Example C09_linesearch_example :
  forall vs : (nat -> R1) * (nat -> R),
  mwf linesearch_program minit = true /\ steps_ok sq_ls_world linesearch_program = true /\
  Forall op_nodup linesearch_program /\
  List.length (m_samples (mrun linesearch_program minit)) = 2%nat /\
  List.length (m_cons (mrun linesearch_program minit)) = 2%nat /\
  (forall f c, In (f, c) (m_cons (mrun linesearch_program minit)) ->
     holds (fst (wrun sq_ls_world linesearch_program minit vs)) (snd (wrun sq_ls_world linesearch_program minit vs)) c) /\
  forall (L mu : R) (qL qmu : Q), 0 <= mu < L -> smooth_strongly_convex_member mu L sq_D -> Q2R qL = L -> Q2R qmu = mu ->
    all_satisfied (fst (wrun sq_ls_world linesearch_program minit vs)) (snd (wrun sq_ls_world linesearch_program minit vs))
      (run_plan plan_SmoothStronglyConvexFunction
         (fstate_of (fun p => match p with 0%nat => qL | 1%nat => qmu | _ => 0%Q end) (mrun linesearch_program minit) 0)).
Proof. exact linesearch_example. Qed.

(** * The remaining primitive steps: epsilon_subgradient_step, bregman_gradient_step, bregman_proximal_step

    [MEpsSub f p] models  x, g0, f0, epsilon = epsilon_subgradient_step(p, f, gamma): the fresh point leaf g0, the
    oracle call f.value(p) (fresh gradient and value leaves, recorded as for [MEval]), the fresh value leaf epsilon,
    the fresh leaves y, fy, the sample (y, g0, fy) and the constraint  f0 + (g0 * y - fy) - g0 * p <= epsilon  added to
    the function.  [MBregGrad h gx0 sx0 gamma] models  x, sx, hx = bregman_gradient_step(gx0, sx0, h, gamma): fresh
    leaves x, hx and the sample (x, sx0 - gamma gx0, hx) on the mirror map.  [MBregProx h f sx0 gamma] models
    x, sx, hx, gx, fx = bregman_proximal_step(sx0, h, f, gamma): fresh leaves x, gx, fx, hx, the sample (x, gx, fx) on
    f and then (x, sx0 - gamma gx, hx) on h.  What is recorded, for every state (compared with the real steps by the
    recording stream): *)
From PV Require Import Proofs.C09Steps.

Theorem C09_new_steps_record :
  forall s : mstate,
  (forall f p, mstep s (MEpsSub f p) =
     mkM (3 + m_np s) (3 + m_ne s)
         (m_samples s ++ [(f, (p, [(S (m_np s), 1%Q)], [(KF (m_ne s), 1%Q)]));
                          (f, ([(S (S (m_np s)), 1%Q)], [(m_np s, 1%Q)], [(KF (S (S (m_ne s))), 1%Q)]))])
         (m_cons s ++ [(f, epssub_cons (m_np s) (m_ne s) p)])) /\
  (forall h gx0 sx0 gamma, mstep s (MBregGrad h gx0 sx0 gamma) =
     mkM (1 + m_np s) (1 + m_ne s)
         (m_samples s ++ [(h, ([(m_np s, 1%Q)], breg_dual sx0 gx0 gamma, [(KF (m_ne s), 1%Q)]))]) (m_cons s)) /\
  (forall h f sx0 gamma, mstep s (MBregProx h f sx0 gamma) =
     mkM (2 + m_np s) (2 + m_ne s)
         (m_samples s ++ [(f, ([(m_np s, 1%Q)], [(S (m_np s), 1%Q)], [(KF (m_ne s), 1%Q)]));
                          (h, ([(m_np s, 1%Q)], breg_dual sx0 [(S (m_np s), 1%Q)] gamma, [(KF (S (m_ne s)), 1%Q)]))])
         (m_cons s)).
Proof. exact new_steps_record. Qed.
Print Assumptions C09_new_steps_record.

(** In the real run the fresh leaves are valued by the world's epsilon-subgradient oracle ([epssub], every world has
    one: [epssub_spec]), mirror map inverse ([mirror], [mirror_genuine], flag [has_mirror]) and Bregman proximal
    operator ([bprox], [bprox_genuine], flag [has_bprox]; [mwf] asks for a positive step size).  The theorems above
    ([C09_recorded_samples_are_genuine], [C09_existing_leaves_keep_values], [C09_free_leaves_keep_values],
    [C09_recorded_step_constraints_hold]) are about ALL programs, these steps included.  What the recorded
    epsilon-subgradient constraint means under any valuation (g0 is leaf n, y leaf S (S n); f0, epsilon, fy the value
    leaves e, S e, S (S e)): *)
Theorem C09_epsilon_subgradient_constraint_meaning :
  forall (E : ips) (rho : nat -> E) (phi : nat -> R) (n e : nat) (p : pdict),
    DictLemmas.NoDupKeys nat p ->
    (holds rho phi (epssub_cons n e p) <->
     phi e + (inner (rho n) (rho (S (S n))) - phi (S (S e))) - inner (rho n) (evalP rho p) <= phi (S e)).
Proof. exact (@epssub_constraint_meaning). Qed.
Print Assumptions C09_epsilon_subgradient_constraint_meaning.

(** ... and in the real run: the values given to the leaves g0 and epsilon make g0 an epsilon-subgradient of F at the
    value of p in the first-principles sense (for all z in dom F: F z >= F x0 + <g0, z - x0> - eps), for every world
    whose genuine samples of f are subgradient samples of F *)
Theorem C09_epsilon_subgradient_step_real :
  forall (E : ips) (W : @world E) (F : @fn E) (f : nat) (p : pdict) (s : mstate) (vs : (nat -> E) * (nat -> R)),
    (forall t, Gen W f t -> genuine_sub F t) -> dom F (evalP (fst vs) p) ->
    let vs' := wstep W vs s (MEpsSub f p) in
    StepsSpec.eps_subgrad F (snd vs' (S (m_ne s))) (evalP (fst vs) p) (fst vs' (m_np s)).
Proof. exact (@epssub_step_real). Qed.
Print Assumptions C09_epsilon_subgradient_step_real.

(** an epsilon-subgradient oracle of a function F whose conjugate is attained meets the specification (C08) *)
Theorem C09_epsilon_subgradient_oracle_meets_specification :
  forall (E : ips) (F : @fn E) (sel : E -> E) (g : E -> E) (ep : E -> R) (y : E -> E),
    (forall x0, StepsSpec.eps_subgrad F (ep x0) x0 (g x0)) -> (forall x0, subgrad F (y x0) (g x0)) ->
    forall x0 : E,
      genuine_sub F (y x0, g x0, val F (y x0)) /\
      snd (sel x0, val F x0) + (inner (g x0) (y x0) - val F (y x0)) - inner (g x0) x0 <= ep x0.
Proof. exact (@is_epssub_spec). Qed.
Print Assumptions C09_epsilon_subgradient_oracle_meets_specification.

(** the dual point recorded by the two Bregman steps, under any valuation *)
Theorem C09_bregman_dual_point_meaning :
  forall (E : ips) (rho : nat -> E) (sx0 g : pdict) (gamma : Q),
    DictLemmas.NoDupKeys nat sx0 -> DictLemmas.NoDupKeys nat g ->
    veq (evalP rho (breg_dual sx0 g gamma)) (vsub (evalP rho sx0) (vscal (Q2R gamma) (evalP rho g))).
Proof. exact (@breg_dual_meaning). Qed.
Print Assumptions C09_bregman_dual_point_meaning.

(** the minimiser of  gamma <g0, .> + h - <s0, .>  is the minimiser of  h - <s0 - gamma g0, .>; for a Gateaux-
    differentiable mirror map it meets the specification of [mirror] (C08's optimality theorem) *)
Theorem C09_bregman_gradient_step_dual_form :
  forall (E : ips) (H : @dfn E) (gamma : R) (g0 s0 x : E),
    StepsSpec.is_bregman_gradient H gamma g0 s0 x <->
    StepsSpec.is_bregman_gradient H 1 vzero (vsub s0 (vscal gamma g0)) x.
Proof. exact (@bregman_gradient_dual). Qed.
Print Assumptions C09_bregman_gradient_step_dual_form.

Theorem C09_mirror_map_meets_specification :
  forall (E : ips) (H : @dfn E) (mir : E -> E),
    StepsSpec.gateaux H -> (forall s, StepsSpec.is_bregman_gradient H 1 vzero s (mir s)) ->
    forall s, genuine_grad H (mir s, s, dval H (mir s)).
Proof. exact (@is_mirror_spec). Qed.
Print Assumptions C09_mirror_map_meets_specification.

(** the minimiser of  gamma F + h - <s0, .>  (convex F, Gateaux-differentiable h, gamma > 0) meets the specification of
    [bprox] with gx = (s0 - grad h(x)) / gamma (C08's optimality theorem) *)
Theorem C09_bregman_proximal_operator_meets_specification :
  forall (E : ips) (F : @fn E) (H : @dfn E) (bp : R -> E -> E),
    StepsSpec.convex_fn F -> StepsSpec.gateaux H ->
    (forall gamma s0, 0 < gamma -> StepsSpec.is_bregman_prox F H gamma s0 (bp gamma s0)) ->
    forall gamma s0, 0 < gamma ->
      let x := bp gamma s0 in let gx := vscal (1 / gamma) (vsub s0 (dgrad H x)) in
      genuine_sub F (x, gx, val F x) /\ genuine_grad H (x, vsub s0 (vscal gamma gx), dval H x).
Proof. exact (@is_bprox_spec). Qed.
Print Assumptions C09_bregman_proximal_operator_meets_specification.

(** composition with C03 in ANY world (in particular a world given the three operations by [with_steps]), for any
    function index whose genuine samples are those of a real convex / mu-strongly convex L-smooth function *)
Theorem C09_run_satisfies_class_constraints_convex_any_world :
  forall (E : ips) (W : @world E) (F : @fn E) (f : nat) (ops : list mop) (vs : (nat -> E) * (nat -> R)),
    (forall t, Gen W f t -> genuine_sub F t) ->
    mwf ops minit = true -> Forall op_nodup ops -> steps_ok W ops = true ->
    all_satisfied (fst (wrun W ops minit vs)) (snd (wrun W ops minit vs))
      (run_plan plan_ConvexFunction (fstate_of (fun _ => 0%Q) (mrun ops minit) f)).
Proof. exact (@run_satisfies_convex_any). Qed.
Print Assumptions C09_run_satisfies_class_constraints_convex_any_world.

Theorem C09_run_satisfies_class_constraints_smooth_strongly_convex_any_world :
  forall (E : ips) (W : @world E) (mu L : R) (qmu qL : Q) (F : @dfn E) (f : nat) (ops : list mop) (vs : (nat -> E) * (nat -> R)),
    (forall t, Gen W f t -> genuine_grad F t) ->
    0 <= mu < L -> smooth_strongly_convex_member mu L F -> Q2R qL = L -> Q2R qmu = mu ->
    mwf ops minit = true -> Forall op_nodup ops -> steps_ok W ops = true ->
    let par := fun p => match p with 0%nat => qL | 1%nat => qmu | _ => 0%Q end in
    all_satisfied (fst (wrun W ops minit vs)) (snd (wrun W ops minit vs))
      (run_plan plan_SmoothStronglyConvexFunction (fstate_of par (mrun ops minit) f)).
Proof. exact (@run_satisfies_smooth_strongly_convex_any). Qed.
Print Assumptions C09_run_satisfies_class_constraints_smooth_strongly_convex_any_world.

(** Non-vacuity: x0 = Point(); s0 = Point(); epsilon_subgradient_step(x0, f, gamma);
    bregman_gradient_step(g0, s0, f, 1/2); bregman_proximal_step(s0 - g0/2, f, f, 1)  on f = h = x^2 with the
    epsilon-subgradient oracle g0 = 2 x0 + 1 (eps = 1/4), the mirror map inverse s/2 and the Bregman proximal
    operator s0 / (2 (1 + gamma)) *)
Example C09_new_steps_example :
  forall vs : (nat -> R1) * (nat -> R),
  mwf steps_program minit = true /\ steps_ok sq_steps_world steps_program = true /\
  Forall op_nodup steps_program /\ forallb linopt_dir_nonzero steps_program = true /\
  m_np (mrun steps_program minit) = 8%nat /\ m_ne (mrun steps_program minit) = 6%nat /\
  List.length (m_samples (mrun steps_program minit)) = 5%nat /\
  fst (wrun sq_steps_world steps_program minit vs) 2%nat = 2 * (Q2R 1 * fst vs 0%nat + 0) + 1 /\
  snd (wrun sq_steps_world steps_program minit vs) 1%nat = 1 / 4 /\
  (exists c, m_cons (mrun steps_program minit) = [(0%nat, c)] /\
             holds (fst (wrun sq_steps_world steps_program minit vs)) (snd (wrun sq_steps_world steps_program minit vs)) c) /\
  List.length (g_cons (run_plan plan_ConvexFunction (fstate_of (fun _ => 0%Q) (mrun steps_program minit) 0))) = 20%nat /\
  all_satisfied (fst (wrun sq_steps_world steps_program minit vs)) (snd (wrun sq_steps_world steps_program minit vs))
    (run_plan plan_ConvexFunction (fstate_of (fun _ => 0%Q) (mrun steps_program minit) 0)).
Proof. exact new_steps_example. Qed.

(** * Inexact proximal steps

    [MInexactProx f x0 gamma opt] models  x, gx, fx, w, v, fw, eps_var = inexact_proximal_step(x0, f, gamma, opt)  for the
    three options: the fresh leaves in the order Python allocates them, the one or two samples recorded on f and the
    accuracy constraint added to f (compared with the real step by the recording stream): *)
Theorem C09_inexact_proximal_step_records :
  forall (s : mstate) (f : nat) (x0 : pdict) (gamma : Q),
  mstep s (MInexactProx f x0 gamma PDgapI) =
    mkM (4 + m_np s) (3 + m_ne s)
        (m_samples s ++ [(f, ([(S (m_np s), 1%Q)], [(m_np s, 1%Q)], [(KF (m_ne s), 1%Q)]));
                         (f, ([(S (S (m_np s)), 1%Q)], [(S (S (S (m_np s))), 1%Q)], [(KF (S (m_ne s)), 1%Q)]))])
        (m_cons s ++ [(f, ip_cons PDgapI (m_np s) (m_ne s) x0 gamma)]) /\
  mstep s (MInexactProx f x0 gamma PDgapII) =
    mkM (2 + m_np s) (2 + m_ne s)
        (m_samples s ++ [(f, (ip2_point (m_np s) x0 gamma, [(S (m_np s), 1%Q)], [(KF (m_ne s), 1%Q)]))])
        (m_cons s ++ [(f, ip_cons PDgapII (m_np s) (m_ne s) x0 gamma)]) /\
  mstep s (MInexactProx f x0 gamma PDgapIII) =
    mkM (3 + m_np s) (3 + m_ne s)
        (m_samples s ++ [(f, ([(m_np s, 1%Q)], [(S (m_np s), 1%Q)], [(KF (S (m_ne s)), 1%Q)]));
                         (f, ([(S (S (m_np s)), 1%Q)], ip3_grad (m_np s) x0 gamma, [(KF (m_ne s), 1%Q)]))])
        (m_cons s ++ [(f, ip_cons PDgapIII (m_np s) (m_ne s) x0 gamma)]).
Proof. exact inexact_prox_records. Qed.
Print Assumptions C09_inexact_proximal_step_records.

(** In the real run the fresh leaves are valued by the world's approximate proximal operator ([iprox], every world has
    one: [iprox_spec]; [mwf] asks for a positive step size; for 'PD_gapII' the error leaf e gets x - x0 + gamma gx, so
    that the recorded point x0 - gamma gx + e evaluates to the approximate proximal point).  The theorems about ALL
    programs ([C09_recorded_samples_are_genuine], [C09_recorded_step_constraints_hold], ...) cover these steps.  What
    the recorded accuracy constraint means under any valuation: *)
Theorem C09_inexact_proximal_constraint_meaning :
  forall (E : ips) (opt : ipopt) (rho : nat -> E) (phi : nat -> R) (n e : nat) (x0 : pdict) (gamma : Q),
    DictLemmas.NoDupKeys nat x0 -> 0 < Q2R gamma ->
    (holds rho phi (ip_cons opt n e x0 gamma) <->
     match opt with
     | PDgapI =>
         nrm2 (vadd (vsub (rho (S (S n))) (evalP rho x0)) (vscal (Q2R gamma) (rho n))) / 2
         + Q2R gamma * (phi (S e) - phi e - inner (rho n) (vsub (rho (S (S n))) (rho (S n)))) <= phi (S (S e))
     | PDgapII => nrm2 (rho n) / 2 <= phi (S e)
     | PDgapIII =>
         Q2R gamma * (phi (S e) - phi e
                      - inner (vscal (1 / Q2R gamma) (vsub (evalP rho x0) (rho n))) (vsub (rho n) (rho (S (S n)))))
         <= phi (S (S e))
     end).
Proof. exact (@iprox_constraint_meaning_cases). Qed.
Print Assumptions C09_inexact_proximal_constraint_meaning.

(** the criterion of the specification is the primal-dual gap of the proximal problem (Spec/StepsSpec.v [pd_gap], the
    docstring's Phi_p(x) - Phi_d(v)) at the dual point of the option *)
Theorem C09_inexact_proximal_specification_is_primal_dual_gap :
  forall (E : ips) (W : @world E) (f : nat) (opt : ipopt) (gamma : R) (x0 : E),
    0 < gamma ->
    let r := iprox W f opt gamma x0 in
    let w := fst (fst (fst (fst r))) in let v := snd (fst (fst (fst r))) in let fw := snd (fst (fst r)) in
    let x := fst (fst (snd (fst r))) in let gx := snd (fst (snd (fst r))) in let fx := snd (snd (fst r)) in
    match opt with
    | PDgapI => StepsSpec.pd_gap gamma x0 x fx v w fw
    | PDgapII => StepsSpec.pd_gap gamma x0 x fx gx x fx
    | PDgapIII => StepsSpec.pd_gap gamma x0 x fx (vscal (1 / gamma) (vsub x0 x)) w fw
    end <= snd r.
Proof. exact (@iprox_spec_is_pd_gap). Qed.
Print Assumptions C09_inexact_proximal_specification_is_primal_dual_gap.

(** Non-vacuity: x0 = Point(); inexact_proximal_step(x0, f, 1/2, 'PD_gapI'); inexact_proximal_step(x0, f, 1, 'PD_gapII');
    inexact_proximal_step(x0, f, 2, 'PD_gapIII')  on f(x) = x^2 with the exact proximal operator (accuracy 0) *)
Example C09_inexact_proximal_example :
  forall vs : (nat -> R1) * (nat -> R),
  mwf inexact_prox_program minit = true /\ steps_ok sq_steps_world inexact_prox_program = true /\
  Forall op_nodup inexact_prox_program /\ forallb linopt_dir_nonzero inexact_prox_program = true /\
  m_np (mrun inexact_prox_program minit) = 10%nat /\ m_ne (mrun inexact_prox_program minit) = 8%nat /\
  List.length (m_samples (mrun inexact_prox_program minit)) = 5%nat /\
  List.length (m_cons (mrun inexact_prox_program minit)) = 3%nat /\
  fst (wrun sq_steps_world inexact_prox_program minit vs) 3%nat = (Q2R 1 * fst vs 0%nat + 0) / (1 + 2 * Q2R (1 # 2)) /\
  snd (wrun sq_steps_world inexact_prox_program minit vs) 2%nat = 0 /\
  (forall f c, In (f, c) (m_cons (mrun inexact_prox_program minit)) ->
     holds (fst (wrun sq_steps_world inexact_prox_program minit vs)) (snd (wrun sq_steps_world inexact_prox_program minit vs)) c) /\
  all_satisfied (fst (wrun sq_steps_world inexact_prox_program minit vs)) (snd (wrun sq_steps_world inexact_prox_program minit vs))
    (run_plan plan_ConvexFunction (fstate_of (fun _ => 0%Q) (mrun inexact_prox_program minit) 0)).
Proof. exact inexact_prox_example. Qed.

(** A SHIPPED example is a program of the op language: the literal is the trace of
    PEPit/examples/unconstrained_convex_minimization/proximal_point.py, wc_proximal_point(gamma = 0.1, n = 3) (the test
    parameters; 0.1 as the exact rational the float is) produced by harness/extrace.py on the real PEPit
    (func.stationary_point(); set_initial_point(); three proximal_step calls).  It is well-formed (every theorem above
    applies to it), meets the non-degeneracy guard, and yields the counters / the four samples the real run records; the
    stream `examples-as-programs` compares the complete state for all convertible shipped examples on every run. *)
From PV Require Import Proofs.C09Shipped.
Example C09_shipped_proximal_point_is_a_program :
  mwf shipped_proximal_point_program minit = true /\
  forallb linopt_dir_nonzero shipped_proximal_point_program = true /\
  m_np (mrun shipped_proximal_point_program minit) = 5%nat /\
  m_ne (mrun shipped_proximal_point_program minit) = 4%nat /\
  List.length (m_samples (mrun shipped_proximal_point_program minit)) = 4%nat /\
  m_cons (mrun shipped_proximal_point_program minit) = [] /\
  nth_error (m_samples (mrun shipped_proximal_point_program minit)) 3 =
    Some (0%nat, ([(1%nat, 1%Q); (2%nat, Qopp shipped_gamma); (3%nat, Qopp shipped_gamma); (4%nat, Qopp shipped_gamma)],
                  [(4%nat, 1%Q)], [(KF 3, 1%Q)])).
Proof. exact shipped_proximal_point_example. Qed.
