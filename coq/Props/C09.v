(** C09 — no real run of a modelled method on a real function beats the returned bound.
    Property theorems only; proofs live in Proofs/MethodLemmas.v (and the files of C03 / C01). *)
From Coq Require Import List QArith Reals Qreals Lra Arith Bool.
From PV Require Import Base.IPS Model.Dict Model.Terms Model.Method Spec.Sem Spec.World Proofs.MethodLemmas.
Import ListNotations.
Local Open Scope R_scope.

(** For every inner-product space, every world (a real oracle for each leaf function whose outputs
    are genuine samples of that function), every well-formed program of any length and every initial
    valuation of the leaves: after the real run, EVERY recorded triple is a genuine sample of its
    function at the values the run gave to the leaves. *)
Theorem C09_recorded_samples_are_genuine :
  forall (E : ips) (W : @world E) (ops : list mop) (vs : (nat -> E) * (nat -> R)),
    mwf ops minit = true ->
    forall f t, In (f, t) (m_samples (mrun ops minit)) ->
      Gen W f (sample_at (E := E) (fst (wrun W ops minit vs)) (snd (wrun W ops minit vs)) t).
Proof.
  intros E W ops vs Hwf f t Hin.
  exact (proj2 (world_samples_genuine_init W ops vs Hwf f t Hin)).
Qed.

(** The run never changes the value of a leaf that existed before it, nor of a free leaf created
    during it: starting points and optima are whatever the initial valuation (constrained only by
    the user's initial condition) says. *)
Theorem C09_existing_leaves_keep_values :
  forall (E : ips) (W : @world E) (ops : list mop) (s : mstate) (vs : (nat -> E) * (nat -> R)),
    (forall i, (i < m_np s)%nat -> fst (wrun W ops s vs) i = fst vs i) /\
    (forall i, (i < m_ne s)%nat -> snd (wrun W ops s vs) i = snd vs i).
Proof. exact (@wrun_keeps). Qed.

Theorem C09_free_leaves_keep_values :
  forall (E : ips) (W : @world E) (ops1 ops2 : list mop) (s : mstate) (vs : (nat -> E) * (nat -> R)),
    fst (wrun W (ops1 ++ MFresh :: ops2) s vs) (m_np (mrun ops1 s)) = fst (wrun W ops1 s vs) (m_np (mrun ops1 s)).
Proof. exact (@wrun_free_leaf). Qed.

(** Non-vacuity: two gradient steps x1 = x0 - 1/2 g0, x2 = x1 - 1/2 g1 on a leaf function, run in the
    world "f(x) = x^2 on the real line": the program is well formed and records two samples. *)
Example C09_example_program :
  let ops := [MFresh; MEval 0 [(0%nat, 1%Q)]; MEval 0 [(0%nat, 1%Q); (1%nat, (-1 # 2)%Q)]] in
  mwf ops minit = true /\ length (m_samples (mrun ops minit)) = 2%nat.
Proof. cbv zeta. split; vm_compute; reflexivity. Qed.

Print Assumptions C09_recorded_samples_are_genuine.
Print Assumptions C09_existing_leaves_keep_values.
Print Assumptions C09_free_leaves_keep_values.
