(** C14 — dimension-reduction post-processing keeps the guarantee it started from.
    Property theorems only.  Proofs: Proofs/C14PostSolve.v (over the GENERATED Gen/PostSolve.v),
    Proofs/C14Heuristic.v (over Model/Cvxpy.v's prepare_heuristic / heuristic). *)
From Coq Require Import List String ZArith QArith Reals Qreals.
From PV Require Import Model.Dict Model.Terms Model.Sent Model.Cvxpy Spec.GramSem Spec.KKT
     Gen.PostSolve Proofs.C14Run Proofs.C14PostSolve Proofs.C14Heuristic Proofs.C14Examples.
From PV Require Import Model.EntryPlan Gen.Entry.
Import ListNotations.

(** For EVERY configuration (any heuristic string or None, any number of logdet iterations, any return
    mode, any answer of the solver): either nothing touched the duals (early return of an unbounded first
    solve / nothing reached), or assign_dual_values was called exactly once, reading the FIRST solve, before
    every prepare_heuristic / heuristic event; and a returned value is either that early None or, in dual
    mode, check_feasibility's reconstruction from the duals of solve 1. *)
Theorem C14_cert_unchanged :
  forall c : cfg,
    let s := exec c post_solve init in
    trace_ok (trace s)
    /\ forall v, out s = Returned v ->
         v = VNone \/ (assigned_once_first (trace s) /\ (c_mode c = "dual"%string -> v = VDualObjective (Some (Some 1%nat)))).
Proof. exact cert_unchanged. Qed.

(** the same for every program that passes the syntactic check (the generated one does, by computation) *)
Theorem C14_check_sound :
  forall p : list top, well_ordered p = true ->
  forall c : cfg,
    let s := exec c p init in
    trace_ok (trace s)
    /\ forall v, out s = Returned v ->
         v = VNone \/ (assigned_once_first (trace s) /\ (c_mode c = "dual"%string -> v = VDualObjective (Some (Some 1%nat)))).
Proof. exact well_ordered_sound. Qed.

(** the heuristic problem: objective replaced by Minimize <W,G>, constraint list = original + one row *)
Theorem C14_heuristic_problem :
  forall obj l wc tol W,
    let w := heuristic (prepare_heuristic (generate_problem obj l) wc tol) W in
    p_obj (w_prob w) = OMinW W
    /\ p_rows (w_prob w) = emit l ++ [RObjGe obj (wc - tol)%Q]
    /\ List.length (p_rows (w_prob w)) = S (List.length (p_rows (w_prob (generate_problem obj l)))).
Proof. exact heuristic_problem. Qed.

(** feasible set of the heuristic problem = feas(original) cut by objective >= wc - tol; hence the returned
    instance satisfies every constraint of the declared model and its objective is >= wc - tol *)
Theorem C14_feasible_subset :
  forall np obj l wc tol W G F M,
    rows_feasible np (p_rows (w_prob (heuristic (prepare_heuristic (generate_problem obj l) wc tol) W))) G F M
    <-> (rows_feasible np (emit l) G F M /\ (Q2R wc - Q2R tol <= evalGF G F obj)%R).
Proof. exact feasible_subset. Qed.

Theorem C14_instance_satisfies_declared_model :
  forall np obj l wc tol W G F M,
    Forall square_item l ->
    rows_feasible np (p_rows (w_prob (heuristic (prepare_heuristic (generate_problem obj l) wc tol) W))) G F M ->
    feasible np l G F /\ (Q2R wc - Q2R tol <= evalGF G F obj)%R.
Proof. exact heuristic_instance_ok. Qed.

(** for tol >= 0 the first optimum is feasible for the heuristic problem, so a minimiser of <W,G> over it
    (solver optimality of the second solve: explicit hypothesis) has <W,G2> <= <W,G1>; W = identity: the trace *)
Theorem C14_trace :
  forall np obj l wc tol W G1 F1 M1 G2 F2 M2,
    (0 <= tol)%Q ->
    rows_feasible np (emit l) G1 F1 M1 -> evalGF G1 F1 obj = Q2R wc ->
    (let rows2 := p_rows (w_prob (heuristic (prepare_heuristic (generate_problem obj l) wc tol) W)) in
     rows_feasible np rows2 G2 F2 M2
     /\ forall G F M, rows_feasible np rows2 G F M -> (hvalue W G2 <= hvalue W G)%R) ->
    (hvalue W G2 <= hvalue W G1)%R.
Proof. exact trace_not_increased. Qed.

(** "trace" selects the trace branch, "logdet"++digits the loop over int(digits) iterations (digits =
    everything after the 6th character), any other string the ValueError *)
Theorem C14_options :
  exists branches orelse,
    dispatch_of post_solve = Some (branches, orelse)
    /\ select branches orelse "trace"
       = [L1 (AHeuristic WIdentity); L1 ASolve; L1 AGetPrimal; L1 AEig]
    /\ (forall ds, select branches orelse ("logdet" ++ ds)%string
                   = [L1Loop 6 [AComputeW; AHeuristic WVar; ASolve; AGetPrimal; AEig]])
    /\ (forall ds, substring 6 (String.length ("logdet" ++ ds)%string - 6) ("logdet" ++ ds)%string = ds)
    /\ (forall s, String.eqb s "trace" = false -> prefix "logdet" s = false ->
                  select branches orelse s = [L1 ARaiseValueError]).
Proof. exact options. Qed.

Theorem C14_options_else_raises :
  forall s mode int, s <> ""%string -> String.eqb s "trace" = false -> prefix "logdet" s = false ->
    out (exec (cfg_of (Some s) mode int) post_solve init) = RaisedValueError.
Proof. exact options_else_raises. Qed.

Theorem C14_options_none_skips :
  forall h mode int, (h = None \/ h = Some ""%string) ->
    let s := exec (cfg_of h mode int) post_solve init in
    n_solves s = 1%nat /\ forallb (fun e => negb (is_heur e)) (trace s) = true.
Proof. exact options_none_skips. Qed.

(** Non-vacuity: complete runs ("trace": 2 solves, duals of solve 1; "logdet2": 3 solves; primal mode; bad
    options; unbounded first solve), and two programs the check rejects (duals assigned after the heuristic
    block - which indeed returns the reconstruction from solve 2 -, wc_value returned in dual mode). *)
Example C14_example_runs :
  (let s := exec (cfg_of (Some "trace"%string) "dual" int2) post_solve init in
   out s = Returned (VDualObjective (Some (Some 1%nat))) /\ n_solves s = 2%nat)
  /\ (let s := exec (cfg_of (Some "logdet2"%string) "dual" int2) post_solve init in
      out s = Returned (VDualObjective (Some (Some 1%nat))) /\ n_solves s = 3%nat)
  /\ out (exec (cfg_of (Some "trace"%string) "primal" int2) post_solve init) = Returned (VWc 2)
  /\ out (exec (cfg_of (Some "logdetx"%string) "dual" int2) post_solve init) = RaisedValueError
  /\ well_ordered moved_assign = false /\ well_ordered returns_wc = false
  /\ out (exec (cfg_of (Some "trace"%string) "dual" int2) moved_assign init) = Returned (VDualObjective (Some (Some 2%nat))).
Proof.
  split; [split; apply run_trace|]. split; [split; apply run_logdet2|]. split; [apply run_primal_mode|].
  split; [apply run_bad_option|]. split; [apply check_rejects|]. split; [apply check_rejects|].
  apply moved_assign_reads_second_solve.
Qed.

(** The public entry point.  PEP.solve -- REGENERATED from pep.py on every run (translator/tr_entry.py, fail-closed) -- only
    selects the back-end (lower-cased name; fall-back to cvxpy when the package or its licence is missing), stores it, and
    calls _solve_with_wrapper ONCE, handing over every option under its own name, unchanged, together with **kwargs; both
    signatures declare the same constant defaults.  Hence the tolerance, the regularisation, the heuristic string and the return mode that the post-solve program (Gen/PostSolve.v) dispatches on are the values the caller passed, or the documented constant defaults. *)
Theorem C14_options_travel_unchanged :
  entry_ok entry_plan forwarded solve_defaults inner_defaults = true.
Proof. vm_compute. reflexivity. Qed.

Print Assumptions C14_cert_unchanged.
Print Assumptions C14_check_sound.
Print Assumptions C14_heuristic_problem.
Print Assumptions C14_feasible_subset.
Print Assumptions C14_instance_satisfies_declared_model.
Print Assumptions C14_trace.
Print Assumptions C14_options.
Print Assumptions C14_options_else_raises.
Print Assumptions C14_options_none_skips.
Print Assumptions C14_options_travel_unchanged.
