(** C03 — class constraints never exclude a real member of the class.
    Property theorems only; proofs live in Proofs/C03Core.v, Proofs/C03Assembly.v, Proofs/C03Examples.v
    (on top of ClassGenLemmas.v, SemLemmas.v, FormulaEq.v, Members{A,B,C}.v).

    Reading guide.  [plan_<Class>] and the formulas inside it are regenerated from /repo on every run
    (Gen/Classes.v).  [run_plan plan st] is the executable model of [Function.set_class_constraints()]
    (Model/ClassGen.v, tied to PEPit by the class-generation correspondence stream); [st : fstate] holds
    the recorded samples as coefficient dictionaries over leaf points / leaf expressions, the parameter
    table [f_par] and the [np.inf] flags [f_inf].  A valuation [(rho, phi)] gives every leaf point a
    vector of an arbitrary real inner-product space E and every leaf expression a real number;
    [sval rho phi s = (value of x, value of g, value of f)] of a recorded sample s.
    [all_satisfied rho phi o]: EVERY scalar constraint in [g_cons o] holds under the valuation and EVERY
    LMI in [g_lmis o] evaluates (entrywise) to a symmetric positive semidefinite real matrix.
    [wf_state]: the recorded dictionaries have unique keys (Python dicts).  [par_is st p v]: parameter
    number p of the function (0 L, 1 mu, 2 M, 3 D, 4 beta, 5 rho) has the real value v.
    The member definitions ([smooth_convex_member], [genuine_grad], ...) are first-principles
    definitions in Spec/Classes.v, not the interpolation inequalities.
    Each theorem quantifies over ALL lists of samples: any number, order, repetitions, stationary
    points, fixed points. *)
From Coq Require Import List QArith Reals Qreals Lra Bool Arith String.
From PV Require Import Base.IPS Model.Dict Model.Terms Model.ClassGen Spec.Sem Spec.Reference Spec.Classes.
From PV Require Import Proofs.DictLemmas Proofs.SemLemmas Proofs.ClassGenLemmas Proofs.C04Lemmas.
From PV Require Import Proofs.MembersB Proofs.MembersC.
From PV Require Import Proofs.C03Core Proofs.C03Assembly Proofs.C03Examples Proofs.C03Rotation.
From PV Require Import Gen.Classes.
Import ListNotations.
Local Open Scope R_scope.

(** * the generic step: a plan whose items are sound on all recorded samples generates only satisfied
      constraints and LMIs *)
Theorem C03_plan_sound :
  forall (E : ips) (rho : nat -> E) (phi : nat -> R) plan st,
    auto_head_only plan = true ->
    Forall (item_ok rho phi (start_state plan st)) plan ->
    all_satisfied rho phi (run_plan plan st).
Proof. exact @plan_sound. Qed.
Print Assumptions C03_plan_sound.

(** * function classes with subgradient oracles *)

Theorem C03_ConvexFunction :
  forall (E : ips) (rho : nat -> E) (phi : nat -> R) (F : fn) (st : fstate),
    wf_state st ->
    (forall s, In s (f_points st) -> genuine_sub F (sval rho phi s)) ->
    all_satisfied rho phi (run_plan plan_ConvexFunction st).
Proof. exact @c03_ConvexFunction. Qed.
Print Assumptions C03_ConvexFunction.

Theorem C03_StronglyConvexFunction :
  forall (E : ips) (rho : nat -> E) (phi : nat -> R) (mu : R) (F : fn) (st : fstate),
    0 <= mu -> strongly_convex_member mu F ->
    par_is st 1 mu -> wf_state st ->
    (forall s, In s (f_points st) -> genuine_sub F (sval rho phi s)) ->
    all_satisfied rho phi (run_plan plan_StronglyConvexFunction st).
Proof. exact @c03_StronglyConvexFunction. Qed.
Print Assumptions C03_StronglyConvexFunction.

Theorem C03_ConvexLipschitzFunction :
  forall (E : ips) (rho : nat -> E) (phi : nat -> R) (M : R) (F : fn) (st : fstate),
    0 <= M -> lipschitz_fn M F ->
    par_is st 2 M -> wf_state st ->
    (forall s, In s (f_points st) -> genuine_sub F (sval rho phi s)) ->
    all_satisfied rho phi (run_plan plan_ConvexLipschitzFunction st).
Proof. exact @c03_ConvexLipschitzFunction. Qed.
Print Assumptions C03_ConvexLipschitzFunction.

(** [D = None] is [D = np.inf] ([opt_par_is]: the flag [f_inf st 3] is set exactly then; the plan's guard
    removes the diameter conditions) *)
Theorem C03_ConvexIndicatorFunction :
  forall (E : ips) (rho : nat -> E) (phi : nat -> R) (D : option R) (F : fn) (st : fstate),
    indicator_member D F ->
    opt_par_is st 3 D -> wf_state st ->
    (forall s, In s (f_points st) -> genuine_sub F (sval rho phi s)) ->
    all_satisfied rho phi (run_plan plan_ConvexIndicatorFunction st).
Proof. exact @c03_ConvexIndicatorFunction. Qed.
Print Assumptions C03_ConvexIndicatorFunction.

(** support function sigma of a set C inside the ball of radius M ([None]: unbounded) *)
Theorem C03_ConvexSupportFunction :
  forall (E : ips) (rho : nat -> E) (phi : nat -> R) (M : option R) (C : E -> Prop) (sigma : E -> R) (st : fstate),
    support_member M C sigma ->
    opt_par_is st 2 M -> wf_state st ->
    (forall s, In s (f_points st) -> genuine_support C sigma (sval rho phi s)) ->
    all_satisfied rho phi (run_plan plan_ConvexSupportFunction st).
Proof. exact @c03_ConvexSupportFunction. Qed.
Print Assumptions C03_ConvexSupportFunction.

(** ConvexQGFunction: the plan begins with "if no stationary point was recorded, declare one".  The
    hypotheses are about the state the generator then works on, [start_state plan st]: [st] itself if a
    stationary sample was recorded, [st] plus [fresh_stationary st] otherwise (the valuation of the two
    fresh leaves is quantified too).  The two corollaries spell the two cases out. *)
Theorem C03_ConvexQGFunction :
  forall (E : ips) (rho : nat -> E) (phi : nat -> R) (L : R) (F : fn) (st : fstate),
    0 < L -> qg_member L F ->
    par_is st 0 L -> wf_state st ->
    (forall s, In s (f_points (start_state plan_ConvexQGFunction st)) -> genuine_sub F (sval rho phi s)) ->
    (forall s, In s (f_stat (start_state plan_ConvexQGFunction st)) -> genuine_sub F (px rho s, vzero, pf rho phi s)) ->
    all_satisfied rho phi (run_plan plan_ConvexQGFunction st).
Proof. exact @c03_ConvexQGFunction. Qed.
Print Assumptions C03_ConvexQGFunction.

Theorem C03_ConvexQGFunction_recorded :
  forall (E : ips) (rho : nat -> E) (phi : nat -> R) (L : R) (F : fn) (st : fstate),
    0 < L -> qg_member L F -> par_is st 0 L -> wf_state st -> f_stat st <> [] ->
    (forall s, In s (f_points st) -> genuine_sub F (sval rho phi s)) ->
    (forall s, In s (f_stat st) -> genuine_sub F (px rho s, vzero, pf rho phi s)) ->
    all_satisfied rho phi (run_plan plan_ConvexQGFunction st).
Proof. exact @c03_ConvexQGFunction_recorded. Qed.
Print Assumptions C03_ConvexQGFunction_recorded.

Theorem C03_ConvexQGFunction_auto :
  forall (E : ips) (rho : nat -> E) (phi : nat -> R) (L : R) (F : fn) (st : fstate),
    0 < L -> qg_member L F -> par_is st 0 L -> wf_state st -> f_stat st = [] ->
    (forall s, In s (f_points st) -> genuine_sub F (sval rho phi s)) ->
    genuine_sub F (px rho (fresh_stationary st), vzero, pf rho phi (fresh_stationary st)) ->
    all_satisfied rho phi (run_plan plan_ConvexQGFunction st).
Proof. exact @c03_ConvexQGFunction_auto. Qed.
Print Assumptions C03_ConvexQGFunction_auto.

(** * differentiable function classes *)

Theorem C03_SmoothConvexFunction :
  forall (E : ips) (rho : nat -> E) (phi : nat -> R) (L : R) (F : dfn) (st : fstate),
    0 < L -> smooth_convex_member L F ->
    par_is st 0 L -> wf_state st ->
    (forall s, In s (f_points st) -> genuine_grad F (sval rho phi s)) ->
    all_satisfied rho phi (run_plan plan_SmoothConvexFunction st).
Proof. exact @c03_SmoothConvexFunction. Qed.
Print Assumptions C03_SmoothConvexFunction.

Theorem C03_SmoothFunction :
  forall (E : ips) (rho : nat -> E) (phi : nat -> R) (L : R) (F : dfn) (st : fstate),
    0 < L -> smooth_member L F ->
    par_is st 0 L -> wf_state st ->
    (forall s, In s (f_points st) -> genuine_grad F (sval rho phi s)) ->
    all_satisfied rho phi (run_plan plan_SmoothFunction st).
Proof. exact @c03_SmoothFunction. Qed.
Print Assumptions C03_SmoothFunction.

Theorem C03_SmoothStronglyConvexFunction :
  forall (E : ips) (rho : nat -> E) (phi : nat -> R) (mu L : R) (F : dfn) (st : fstate),
    0 <= mu < L -> smooth_strongly_convex_member mu L F ->
    par_is st 0 L -> par_is st 1 mu -> wf_state st ->
    (forall s, In s (f_points st) -> genuine_grad F (sval rho phi s)) ->
    all_satisfied rho phi (run_plan plan_SmoothStronglyConvexFunction st).
Proof. exact @c03_SmoothStronglyConvexFunction. Qed.
Print Assumptions C03_SmoothStronglyConvexFunction.

Theorem C03_SmoothConvexLipschitzFunction :
  forall (E : ips) (rho : nat -> E) (phi : nat -> R) (L M : R) (F : dfn) (st : fstate),
    0 < L -> 0 <= M -> smooth_convex_lipschitz_member L M F ->
    par_is st 0 L -> par_is st 2 M -> wf_state st ->
    (forall s, In s (f_points st) -> genuine_grad F (sval rho phi s)) ->
    all_satisfied rho phi (run_plan plan_SmoothConvexLipschitzFunction st).
Proof. exact @c03_SmoothConvexLipschitzFunction. Qed.
Print Assumptions C03_SmoothConvexLipschitzFunction.

(** RsiEbFunction: [rsi_eb_member mu L F xs] is relative to ONE stationary point xs; PEPit instantiates the
    two conditions on every pair (stationary sample, sample), so the guard is: F is a member relative to the
    value of every recorded stationary sample (e.g. all of them valued at the member's xs, second theorem).
    Automatic stationary point as for ConvexQGFunction. *)
Theorem C03_RsiEbFunction :
  forall (E : ips) (rho : nat -> E) (phi : nat -> R) (mu L : R) (F : dfn) (st : fstate),
    par_is st 0 L -> par_is st 1 mu -> wf_state st ->
    (forall s, In s (f_stat (start_state plan_RsiEbFunction st)) -> rsi_eb_member mu L F (px rho s)) ->
    (forall s, In s (f_points (start_state plan_RsiEbFunction st)) -> genuine_grad F (sval rho phi s)) ->
    (forall s, In s (f_stat (start_state plan_RsiEbFunction st)) -> genuine_grad F (sval rho phi s)) ->
    all_satisfied rho phi (run_plan plan_RsiEbFunction st).
Proof. exact @c03_RsiEbFunction. Qed.
Print Assumptions C03_RsiEbFunction.

Theorem C03_RsiEbFunction_one_xs :
  forall (E : ips) (rho : nat -> E) (phi : nat -> R) (mu L : R) (F : dfn) (xs : E) (st : fstate),
    rsi_eb_member mu L F xs ->
    par_is st 0 L -> par_is st 1 mu -> wf_state st -> f_stat st <> [] ->
    (forall s, In s (f_stat st) -> px rho s = xs) ->
    (forall s, In s (f_points st) -> genuine_grad F (sval rho phi s)) ->
    (forall s, In s (f_stat st) -> genuine_grad F (sval rho phi s)) ->
    all_satisfied rho phi (run_plan plan_RsiEbFunction st).
Proof. exact @c03_RsiEbFunction_one_xs. Qed.
Print Assumptions C03_RsiEbFunction_one_xs.

Theorem C03_RsiEbFunction_auto :
  forall (E : ips) (rho : nat -> E) (phi : nat -> R) (mu L : R) (F : dfn) (st : fstate),
    rsi_eb_member mu L F (px rho (fresh_stationary st)) ->
    par_is st 0 L -> par_is st 1 mu -> wf_state st -> f_stat st = [] ->
    (forall s, In s (f_points st) -> genuine_grad F (sval rho phi s)) ->
    genuine_grad F (sval rho phi (fresh_stationary st)) ->
    all_satisfied rho phi (run_plan plan_RsiEbFunction st).
Proof. exact @c03_RsiEbFunction_auto. Qed.
Print Assumptions C03_RsiEbFunction_auto.

(** F x = fs + 1/2 <x - xs, Q (x - xs)>; (xs, fs) = values of the first stationary sample (the one the
    constructor declares and the formulas refer to) *)
Theorem C03_SmoothStronglyConvexQuadraticFunction :
  forall (E : ips) (rho : nat -> E) (phi : nat -> R) (mu L : R) (Q : E -> E) (st : fstate),
    sa_bounded mu L Q ->
    par_is st 0 L -> par_is st 1 mu -> wf_state st ->
    (forall s, In s (f_points st) -> genuine_quad Q (stat_x rho st) (stat_f rho phi st) (sval rho phi s)) ->
    all_satisfied rho phi (run_plan plan_SmoothStronglyConvexQuadraticFunction st).
Proof. exact @c03_SmoothStronglyConvexQuadraticFunction. Qed.
Print Assumptions C03_SmoothStronglyConvexQuadraticFunction.

(** K = [f_nblocks st] blocks with block projections P_k; block k of every recorded gradient is valued at
    P_k (value of the gradient); L_k = [f_Lk st k] > 0.  Covers every block k and every ordered pair. *)
Theorem C03_BlockSmoothConvexFunction :
  forall (E : ips) (rho : nat -> E) (phi : nat -> R) (P : nat -> E -> E) (Ls : nat -> R) (F : dfn) (st : fstate),
    block_smooth_convex_member (f_nblocks st) P Ls F ->
    (forall k, (k < f_nblocks st)%nat -> 0 < Ls k /\ Q2R (f_Lk st k) = Ls k) ->
    wf_state st -> wf_blocks st ->
    (forall s, In s (f_points st) -> genuine_grad F (sval rho phi s)) ->
    (forall s k, In s (f_points st) -> (k < f_nblocks st)%nat -> veq (pgk rho k s) (P k (pg rho s))) ->
    all_satisfied rho phi (run_plan plan_BlockSmoothConvexFunction st).
Proof. exact @c03_BlockSmoothConvexFunction. Qed.
Print Assumptions C03_BlockSmoothConvexFunction.

(** * operator classes *)

Theorem C03_MonotoneOperator :
  forall (E : ips) (rho : nat -> E) (phi : nat -> R) (A : graph) (st : fstate),
    monotone_op A -> wf_state st ->
    (forall s, In s (f_points st) -> genuine_op A (sval rho phi s)) ->
    all_satisfied rho phi (run_plan plan_MonotoneOperator st).
Proof. exact @c03_MonotoneOperator. Qed.
Print Assumptions C03_MonotoneOperator.

Theorem C03_StronglyMonotoneOperator :
  forall (E : ips) (rho : nat -> E) (phi : nat -> R) (mu : R) (A : graph) (st : fstate),
    strongly_monotone_op mu A -> par_is st 1 mu -> wf_state st ->
    (forall s, In s (f_points st) -> genuine_op A (sval rho phi s)) ->
    all_satisfied rho phi (run_plan plan_StronglyMonotoneOperator st).
Proof. exact @c03_StronglyMonotoneOperator. Qed.
Print Assumptions C03_StronglyMonotoneOperator.

Theorem C03_CocoerciveOperator :
  forall (E : ips) (rho : nat -> E) (phi : nat -> R) (beta : R) (A : graph) (st : fstate),
    cocoercive_op beta A -> par_is st 4 beta -> wf_state st ->
    (forall s, In s (f_points st) -> genuine_op A (sval rho phi s)) ->
    all_satisfied rho phi (run_plan plan_CocoerciveOperator st).
Proof. exact @c03_CocoerciveOperator. Qed.
Print Assumptions C03_CocoerciveOperator.

Theorem C03_NegativelyComonotoneOperator :
  forall (E : ips) (rho : nat -> E) (phi : nat -> R) (rh : R) (A : graph) (st : fstate),
    neg_comonotone_op rh A -> par_is st 5 rh -> wf_state st ->
    (forall s, In s (f_points st) -> genuine_op A (sval rho phi s)) ->
    all_satisfied rho phi (run_plan plan_NegativelyComonotoneOperator st).
Proof. exact @c03_NegativelyComonotoneOperator. Qed.
Print Assumptions C03_NegativelyComonotoneOperator.

Theorem C03_LipschitzOperator :
  forall (E : ips) (rho : nat -> E) (phi : nat -> R) (L : R) (A : graph) (st : fstate),
    lipschitz_op L A -> par_is st 0 L -> wf_state st ->
    (forall s, In s (f_points st) -> genuine_op A (sval rho phi s)) ->
    all_satisfied rho phi (run_plan plan_LipschitzOperator st).
Proof. exact @c03_LipschitzOperator. Qed.
Print Assumptions C03_LipschitzOperator.

Theorem C03_LipschitzStronglyMonotoneOperator :
  forall (E : ips) (rho : nat -> E) (phi : nat -> R) (mu L : R) (A : graph) (st : fstate),
    lipschitz_strongly_monotone_op mu L A ->
    par_is st 0 L -> par_is st 1 mu -> wf_state st ->
    (forall s, In s (f_points st) -> genuine_op A (sval rho phi s)) ->
    all_satisfied rho phi (run_plan plan_LipschitzStronglyMonotoneOperator st).
Proof. exact @c03_LipschitzStronglyMonotoneOperator. Qed.
Print Assumptions C03_LipschitzStronglyMonotoneOperator.

Theorem C03_CocoerciveStronglyMonotoneOperator :
  forall (E : ips) (rho : nat -> E) (phi : nat -> R) (mu beta : R) (A : graph) (st : fstate),
    cocoercive_strongly_monotone_op mu beta A ->
    par_is st 1 mu -> par_is st 4 beta -> wf_state st ->
    (forall s, In s (f_points st) -> genuine_op A (sval rho phi s)) ->
    all_satisfied rho phi (run_plan plan_CocoerciveStronglyMonotoneOperator st).
Proof. exact @c03_CocoerciveStronglyMonotoneOperator. Qed.
Print Assumptions C03_CocoerciveStronglyMonotoneOperator.

(** with or without a declared infimal displacement vector [self.v] ([f_v st]) *)
Theorem C03_NonexpansiveOperator :
  forall (E : ips) (rho : nat -> E) (phi : nat -> R) (A : graph) (st : fstate),
    nonexpansive_op A ->
    (forall d, f_v st = Some d -> inf_displacement A (evalP rho d)) ->
    wf_state st ->
    (forall s, In s (f_points st) -> genuine_op A (sval rho phi s)) ->
    all_satisfied rho phi (run_plan plan_NonexpansiveOperator st).
Proof. exact @c03_NonexpansiveOperator. Qed.
Print Assumptions C03_NonexpansiveOperator.

(** * linear operator classes (scalar conditions and LMIs) *)

Theorem C03_LinearOperator :
  forall (E : ips) (rho : nat -> E) (phi : nat -> R) (L : R) (M Mt : E -> E) (st : fstate),
    bounded_pair L M Mt -> par_is st 0 L -> wf_state st ->
    (forall s, In s (f_points st) -> genuine_lin M (sval rho phi s)) ->
    (forall s, In s (f_tpoints st) -> genuine_lin Mt (sval rho phi s)) ->
    all_satisfied rho phi (run_plan plan_LinearOperator st).
Proof. exact @c03_LinearOperator. Qed.
Print Assumptions C03_LinearOperator.

Theorem C03_SkewSymmetricLinearOperator :
  forall (E : ips) (rho : nat -> E) (phi : nat -> R) (L : R) (A : E -> E) (st : fstate),
    skew_bounded L A -> par_is st 0 L -> wf_state st ->
    (forall s, In s (f_points st) -> genuine_lin A (sval rho phi s)) ->
    all_satisfied rho phi (run_plan plan_SkewSymmetricLinearOperator st).
Proof. exact @c03_SkewSymmetricLinearOperator. Qed.
Print Assumptions C03_SkewSymmetricLinearOperator.

Theorem C03_SymmetricLinearOperator :
  forall (E : ips) (rho : nat -> E) (phi : nat -> R) (mu L : R) (Q : E -> E) (st : fstate),
    sa_bounded mu L Q -> par_is st 0 L -> par_is st 1 mu -> wf_state st ->
    (forall s, In s (f_points st) -> genuine_lin Q (sval rho phi s)) ->
    all_satisfied rho phi (run_plan plan_SymmetricLinearOperator st).
Proof. exact @c03_SymmetricLinearOperator. Qed.
Print Assumptions C03_SymmetricLinearOperator.

(** * every class the translator found in /repo has its theorem *)

(** the table of statements covers exactly the translated classes (a class added to PEPit without a
    theorem breaks this, and [C03_all_classes]) *)
Theorem C03_covered_classes :
  forall (E : ips) (rho : nat -> E) (phi : nat -> R),
    map fst (c03_table rho phi) = translated_classes /\ map fst all_plans = translated_classes.
Proof. exact @c03_covered_classes. Qed.
Print Assumptions C03_covered_classes.

(** [c03_statement rho phi name plan] is the statement of the theorem of class [name] above, about [plan]
    ([False] for an unknown name) *)
Theorem C03_all_classes :
  forall (E : ips) (rho : nat -> E) (phi : nat -> R) name plan,
    In (name, plan) all_plans -> c03_statement rho phi name plan.
Proof. exact @c03_all_classes. Qed.
Print Assumptions C03_all_classes.

(** * non-vacuity: concrete members, states with three samples, valuations meeting every hypothesis *)

Example C03_SmoothConvexFunction_nonvacuous :
  0 < 2 /\ smooth_convex_member 2 ex1_F /\ par_is ex1_st 0 2 /\ wf_state ex1_st /\
  (forall s, In s (f_points ex1_st) -> genuine_grad ex1_F (sval ex1_rho ex1_phi s)) /\
  all_satisfied ex1_rho ex1_phi (run_plan plan_SmoothConvexFunction ex1_st) /\
  List.length (g_cons (run_plan plan_SmoothConvexFunction ex1_st)) = 6%nat.
Proof. exact ex_SmoothConvexFunction. Qed.

Example C03_ConvexFunction_nonvacuous :
  wf_state ex2_st /\
  (forall s, In s (f_points ex2_st) -> genuine_sub ex2_F (sval ex2_rho ex2_phi s)) /\
  all_satisfied ex2_rho ex2_phi (run_plan plan_ConvexFunction ex2_st) /\
  List.length (g_cons (run_plan plan_ConvexFunction ex2_st)) = 10%nat.
Proof. exact ex_ConvexFunction. Qed.

Example C03_ConvexIndicatorFunction_nonvacuous :
  indicator_member (Some 2) ex3_F /\ opt_par_is ex3_st 3 (Some 2) /\ wf_state ex3_st /\
  (forall s, In s (f_points ex3_st) -> genuine_sub ex3_F (sval ex3_rho ex3_phi s)) /\
  all_satisfied ex3_rho ex3_phi (run_plan plan_ConvexIndicatorFunction ex3_st) /\
  List.length (g_cons (run_plan plan_ConvexIndicatorFunction ex3_st)) = 15%nat.
Proof. exact ex_ConvexIndicatorFunction. Qed.

Example C03_CocoerciveOperator_nonvacuous :
  cocoercive_op (1 / 2) ex4_A /\ par_is ex4_st 4 (1 / 2) /\ wf_state ex4_st /\
  (forall s, In s (f_points ex4_st) -> genuine_op ex4_A (sval ex4_rho (fun _ => 0) s)) /\
  all_satisfied ex4_rho (fun _ => 0) (run_plan plan_CocoerciveOperator ex4_st) /\
  List.length (g_cons (run_plan plan_CocoerciveOperator ex4_st)) = 3%nat.
Proof. exact ex_CocoerciveOperator. Qed.

Example C03_LinearOperator_nonvacuous :
  bounded_pair 1 ex5_J ex5_Jt /\ par_is ex5_st 0 1 /\ wf_state ex5_st /\
  (forall s, In s (f_points ex5_st) -> genuine_lin ex5_J (sval ex5_rho (fun _ => 0) s)) /\
  (forall s, In s (f_tpoints ex5_st) -> genuine_lin ex5_Jt (sval ex5_rho (fun _ => 0) s)) /\
  all_satisfied ex5_rho (fun _ => 0) (run_plan plan_LinearOperator ex5_st) /\
  List.length (g_cons (run_plan plan_LinearOperator ex5_st)) = 2%nat /\
  List.length (g_lmis (run_plan plan_LinearOperator ex5_st)) = 2%nat.
Proof. exact ex_LinearOperator. Qed.

Example C03_SmoothStronglyConvexQuadraticFunction_nonvacuous :
  sa_bounded 1 3 ex6_Q /\ par_is ex6_st 0 3 /\ par_is ex6_st 1 1 /\ wf_state ex6_st /\
  (forall s, In s (f_points ex6_st) ->
             genuine_quad ex6_Q (stat_x ex6_rho ex6_st) (stat_f ex6_rho ex6_phi ex6_st) (sval ex6_rho ex6_phi s)) /\
  all_satisfied ex6_rho ex6_phi (run_plan plan_SmoothStronglyConvexQuadraticFunction ex6_st) /\
  List.length (g_cons (run_plan plan_SmoothStronglyConvexQuadraticFunction ex6_st)) = 6%nat /\
  List.length (g_lmis (run_plan plan_SmoothStronglyConvexQuadraticFunction ex6_st)) = 1%nat.
Proof. exact ex_SmoothStronglyConvexQuadraticFunction. Qed.

(** * Non-gradient members: the scaled rotations a I + b J of the plane ([rot_graph a b], Proofs/C03Rotation.v) sit on
      the boundary of the monotone-type classes and are not gradients (b <> 0).  They are what separates the operator
      classes from the classes of gradient fields; the failing-input search of this check (harness/members.py)
      samples exactly these members numerically. *)
Theorem C03_rotation_scaled_strongly_monotone :
  forall a b : R, strongly_monotone_op a (rot_graph a b).
Proof. exact rotation_scaled_strongly_monotone. Qed.
Print Assumptions C03_rotation_scaled_strongly_monotone.

Theorem C03_rotation_scaled_cocoercive :
  forall a b : R, 0 < a * a + b * b -> cocoercive_op (a / (a * a + b * b)) (rot_graph a b).
Proof. exact rotation_scaled_cocoercive. Qed.
Print Assumptions C03_rotation_scaled_cocoercive.

Theorem C03_rotation_scaled_cocoercive_strongly_monotone :
  forall a b : R, 0 < a * a + b * b ->
    cocoercive_strongly_monotone_op a (a / (a * a + b * b)) (rot_graph a b).
Proof. exact rotation_scaled_cocoercive_strongly_monotone. Qed.
Print Assumptions C03_rotation_scaled_cocoercive_strongly_monotone.

Theorem C03_rotation_scaled_lipschitz :
  forall a b L : R, a * a + b * b <= L ^ 2 -> lipschitz_op L (rot_graph a b).
Proof. exact rotation_scaled_lipschitz. Qed.
Print Assumptions C03_rotation_scaled_lipschitz.

Theorem C03_rotation_scaled_neg_comonotone :
  forall a b : R, 0 < a * a + b * b -> neg_comonotone_op (- a / (a * a + b * b)) (rot_graph a b).
Proof. exact rotation_scaled_neg_comonotone. Qed.
Print Assumptions C03_rotation_scaled_neg_comonotone.

(** a member of CocoerciveStronglyMonotoneOperator(1, 1/2) on which the inequality valid for gradients of
    mu-strongly convex 1/beta-smooth functions, <dg,dx> >= (beta |dg|^2 + mu |dx|^2)/(1 + mu beta), fails: generating
    that inequality for the class would exclude a real member *)
Theorem C03_rotation_violates_gradient_only_inequality :
  let A := rot_graph 1 1 in
  cocoercive_strongly_monotone_op 1 (1 / 2) A /\
  exists x u y v, A x u /\ A y v /\
    ~ (inner (vsub u v) (vsub x y) >= (1 / 2 * nrm2 (vsub u v) + 1 * nrm2 (vsub x y)) / (1 + 1 * (1 / 2))).
Proof. exact rotation_violates_gradient_only_inequality. Qed.
Print Assumptions C03_rotation_violates_gradient_only_inequality.

Example C03_rotation_member_nonvacuous :
  cocoercive_strongly_monotone_op 1 (1 / 2) (rot_graph 1 1) /\ par_is rot_st 1 1 /\ par_is rot_st 4 (1 / 2) /\
  wf_state rot_st /\
  (forall s, In s (f_points rot_st) -> genuine_op (rot_graph 1 1) (sval rot_rho (fun _ => 0) s)) /\
  all_satisfied rot_rho (fun _ => 0) (run_plan plan_CocoerciveStronglyMonotoneOperator rot_st) /\
  List.length (g_cons (run_plan plan_CocoerciveStronglyMonotoneOperator rot_st)) = 6%nat.
Proof. exact rotation_member_example. Qed.
