(** C01 — the returned upper bound is backed by a complete, checkable dual certificate.
    Property theorems only; proofs live in Proofs/C01Layout.v, C01Gram.v, C01Identity.v,
    C01Refuted.v (regression for the formula used before the repair of F-C01a), PSDLemmas.v.  Models: Model/Cvxpy.v (emit, recover, assign), Model/Cert.v
    (reconstruct); solver assumption: Spec/KKT.v ([kkt_dual] = shapes + [stationary]). *)
From Coq Require Import List QArith Reals Qreals Lra.
From PV Require Import Base.IPS Model.Dict Model.Terms Model.Sent Model.Cvxpy Model.Cert
     Spec.GramSem Spec.KKT Proofs.C01Layout Proofs.C01Identity Proofs.C01Refuted Proofs.C01Examples
     Proofs.PSDLemmas Proofs.C01Tolerance.
Import ListNotations.
Local Open Scope R_scope.

(** For EVERY tracked list (any interleaving of scalar constraints and LMIs of any sizes) and every
    dual vector with one entry per solver constraint: _recover_dual_values returns
    [residual; dual at the main row of item 0; ...; dual at the main row of item n-1], its final assertion
    holds, and entries_dual_variable_value of an LMI is the block of n*m duals that follows its main row,
    reshaped row-major (nothing for a scalar constraint); assign_dual_values gives item k the k-th main dual;
    the main row of item k is its own <=/==/>> row; consecutive main positions differ by 1 (scalar) or 1 + n*m
    (LMI), the rows in between being exactly the n*m entry equalities of that LMI; nothing is left over. *)
Theorem C01_layout :
  forall (tracked : sent) (temp : list dval),
    length temp = length (emit tracked) ->
    let exposed_duals := map (fun k => nth (main_pos tracked k) temp dnone) (seq 0 (length tracked)) in
    let exposed_entries :=
      map (fun k => entries_of_item temp (main_pos tracked k) (nth k tracked (SC [] Ineq))) (seq 0 (length tracked)) in
    recover tracked temp = (nth 0 temp dnone :: exposed_duals, nth 0 temp dnone, S (length tracked), exposed_entries)
    /\ length (nth 0 temp dnone :: exposed_duals) = S (length tracked)
    /\ assign tracked (nth 0 temp dnone :: exposed_duals) = combine tracked exposed_duals
    /\ nth 0 (emit tracked) (RLe []) = RGram
    /\ (forall k it, nth_error tracked k = Some it ->
          nth (main_pos tracked k) (emit tracked) RGram = main_row (lmi_index tracked k) it
          /\ main_pos tracked (S k) = (main_pos tracked k + width it)%nat
          /\ (forall m, it = LMI m -> forall i j, (i < nrows m)%nat -> (j < ncols m)%nat ->
                nth (main_pos tracked k + 1 + i * ncols m + j) (emit tracked) RGram
                = REnt (lmi_index tracked k) i j (entry m i j)))
    /\ main_pos tracked (length tracked) = length (emit tracked).
Proof. exact layout. Qed.

(** when every tracked object is sent once, each position shows its own duals (objects sent several times show,
    at every occurrence, the values of their LAST occurrence: Model.Cvxpy.by_object) *)
Theorem C01_objects_sent_once :
  forall (A : Type) (ids : list nat) (vals : list A) (d : A),
    NoDup ids -> length ids = length vals -> by_object ids vals d = vals.
Proof. exact @by_object_nodup. Qed.

(** HEADLINE.  Under the solver assumption (the Lagrangian of the emitted problem is constant = tau on
    {G symmetric} x F x {M_k symmetric}), for EVERY declared model - LMIs symmetric as written or not - whose
    objects are each sent once: what the objects show after assign o recover satisfies
      objective - tau = sum lambda_c e_c - <residual,G> - sum_k sum_ij u_kij e_kij   for ALL symmetric G, all F
    (u_k = entries_dual_variable_value, the multipliers of the entry correspondences of the k-th LMI);
    check_feasibility's reconstruction returns exactly tau; and the pruned symmetrised dictionary has no
    non-constant key left. *)
Theorem C01_identity :
  forall (obj : edict) (tracked : sent) (ids : list nat) (temp : list dval) (tau : R),
    wf_edict obj -> wf_sent tracked ->
    NoDup ids -> length ids = length tracked ->
    kkt_dual obj (emit tracked) temp tau ->
    let '(a, res, fd, t) := certificate obj tracked ids temp in
    certificate_identity obj a (res_matrix res) tau
    /\ Q2R t = tau
    /\ (forall k v, In (k, v) fd -> k = K1).
Proof. exact identity. Qed.

Theorem C01_identity_proj :
  forall (obj : edict) (tracked : sent) (ids : list nat) (temp : list dval) (tau : R),
    wf_edict obj -> wf_sent tracked -> NoDup ids -> length ids = length tracked ->
    kkt_dual obj (emit tracked) temp tau ->
    certificate_identity obj (fst (exposed tracked ids temp)) (res_matrix (snd (exposed tracked ids temp))) tau
    /\ Q2R (snd (certificate obj tracked ids temp)) = tau.
Proof. exact identity_proj. Qed.

(** stationarity in the matrix variables: the dual matrix S_k = eval_dual() of every LMI is the symmetric part of
    its entry multipliers u_k (so <u_k, E> = <S_k, E> whenever E is symmetric, e.g. at every feasible point) *)
Theorem C01_dual_matrix_is_sym_part :
  forall (obj : edict) (tracked : sent) (ids : list nat) (temp : list dval) (tau : R),
    NoDup ids -> length ids = length tracked ->
    length temp = length (emit tracked) ->
    stationary obj (emit tracked) temp tau ->
    Forall sym_ok (fst (exposed tracked ids temp)).
Proof. exact dual_matrix_is_sym_part. Qed.

(** identity + lambda >= 0 on inequalities + residual and the dual matrices S_k finite sums of rank-one matrices
    + S_k = symmetric part of u_k  => objective <= tau at every feasible point (G symmetric PSD, every scalar
    constraint holds, every LMI matrix symmetric PSD). *)
Theorem C01_weak_duality :
  forall (np : nat) (obj : edict) (tracked : sent) (duals : list dval) (entries : list (option (list (list Q))))
         (res : list (list Q)) (tau : R),
    length duals = length tracked -> length entries = length tracked ->
    certificate_identity obj (combine (combine tracked duals) entries) res tau ->
    dual_feasible (combine (combine tracked duals) entries) ->
    rank1sum res np ->
    forall G F, feasible np tracked G F -> evalGF G F obj <= tau.
Proof. exact weak_duality. Qed.

(** the PSD x PSD pairing lemma in the chosen form, and Gram matrices are PSD in the primal sense *)
Theorem C01_psd_pairing :
  forall Sm A n, rank1sum Sm n -> psd_qf n A -> 0 <= mdot Sm A.
Proof. exact psd_pairing_nonneg. Qed.

Theorem C01_gram_is_psd :
  forall (E : ips) (rho : nat -> E) n, psd_qf n (fun i j => inner (rho i) (rho j)).
Proof. exact @gram_psd. Qed.

(** REGRESSION for the repaired finding F-C01a: the formula check_feasibility used BEFORE commit bd99691 (the LMI
    expressions combined with eval_dual() instead of the entry multipliers; Model.Cert.old_reconstruct) is refuted
    on an LMI that is not symmetric as written - a KKT, dual-feasible dual and a feasible point whose objective
    value is strictly above what the old formula returns - while the CURRENT formula returns tau on that very
    instance (which meets every hypothesis of C01_identity: the asymmetric non-vacuity example). *)
Theorem C01_old_formula_refuted :
  exists (np : nat) (obj : edict) (tracked : sent) (ids : list nat) (temp : list dval) (tau : R)
         (G : nat -> nat -> R) (F : nat -> R),
    wf_edict obj /\ wf_sent tracked /\ NoDup ids /\ length ids = length tracked
    /\ all_lmis_symmetric tracked = false
    /\ kkt_dual obj (emit tracked) temp tau
    /\ (let '(a, res) := exposed tracked ids temp in dual_feasible a /\ rank1sum (res_matrix res) np)
    /\ feasible np tracked G F
    /\ (let '(a, res) := exposed tracked ids temp in
        Q2R (old_reconstruct obj (res_matrix res) a) < evalGF G F obj
        /\ Q2R (reconstruct obj (res_matrix res) a) = tau).
Proof. exact old_formula_refuted. Qed.

(** the numbers observed on the real code for [[|x1-xs|^2, t],[s+1, 1]], metric t: 0.40 before the repair, 0.90 =
    primal = dual after it *)
Theorem C01_asym_observed_value :
  kkt_dual w_obj (emit w_sent) (w_duals (5 # 9) (9 # 20)) (9 / 10)
  /\ Q2R (old_value (w_duals (5 # 9) (9 # 20))) = 2 / 5
  /\ Q2R (new_value (w_duals (5 # 9) (9 # 20))) = 9 / 10.
Proof. exact asym_observed_value. Qed.

(** "ALL UP TO SOLVER TOLERANCE".  (1) With NO assumption on the solver: for every dual vector of the right
    shapes, what check_feasibility computes satisfies, for all symmetric G and all F,
    objective = fd + sum multiplier x constraint - <residual, G>, where fd is the pruned symmetrised
    dictionary whose constant is the returned value and whose other entries are the "remaining terms". *)
Theorem C01_reconstruction_unconditional :
  forall (obj : edict) (tracked : sent) (ids : list nat) (temp : list dval),
    wf_edict obj -> wf_sent tracked ->
    NoDup ids -> length ids = length tracked ->
    Forall2 dual_fits (emit tracked) temp ->
    let '(a, res, fd, t) := certificate obj tracked ids temp in
    (forall G F, symG G ->
       evalGF G F obj = evalGF G F fd + multiplier_sum G F a - mdot (res_matrix res) G)
    /\ t = constant_of fd.
Proof. exact reconstruction_unconditional. Qed.

Theorem C01_constant_split :
  forall G F (d : edict), NoDup (keys d) ->
    evalGF G F d = Q2R (constant_of d) + evalGF G F (remaining d).
Proof. exact constant_split. Qed.

(** (2) If the multipliers are dual feasible only up to eps (inequality multipliers >= -eps, residual and LMI
    dual matrices entry-wise within eps of a sum of rank-one matrices), then at every feasible point the
    objective is at most fd(G,F) + eps x (l1 size of the constrained quantities and of G): the returned
    constant dominates the objective up to the remaining terms and eps.  eps = 0 gives C01_weak_duality. *)
Theorem C01_weak_duality_tolerance :
  forall (eps : R) (np : nat) (obj fd : edict) (tracked : sent) (duals : list dval)
         (entries : list (option (list (list Q)))) (res : list (list Q)),
    0 <= eps ->
    length duals = length tracked -> length entries = length tracked ->
    (forall G F, symG G ->
       evalGF G F obj = evalGF G F fd + multiplier_sum G F (combine (combine tracked duals) entries) - mdot res G) ->
    dual_feasible_tol eps (combine (combine tracked duals) entries) ->
    near_rank1sum eps res np ->
    forall G F, feasible np tracked G F ->
      evalGF G F obj <= evalGF G F fd + eps * (slack G F tracked + abs_sum np G).
Proof. exact weak_duality_tol. Qed.

Theorem C01_exact_is_tolerance_zero :
  forall a, dual_feasible a -> dual_feasible_tol 0 a.
Proof. exact dual_feasible_tol0. Qed.

(** Non-vacuity: an inexact dual for the model of C01_example (a multiplier off by 1/1000, an INDEFINITE LMI dual
    matrix within 1/1000 of a rank-one matrix): shapes fit, a remaining term (F2 - F0)/1000 is left, the returned
    constant is 2403/2000, and the tolerance hypotheses hold with eps = 1/1000. *)
Example C01_tolerance_example :
  Forall2 dual_fits (emit s_sent) t_duals
  /\ (let '(_, _, fd, t) := certificate w_obj s_sent w_ids t_duals in
      map (fun kv => (fst kv, Qred (snd kv))) (remaining fd) = [(KF 2, (1 # 1000)%Q); (KF 0, (-1 # 1000)%Q)]
      /\ Qred t = (2403 # 2000)%Q)
  /\ (let '(a, res) := exposed s_sent w_ids t_duals in
      dual_feasible_tol (1 / 1000) a /\ near_rank1sum (1 / 1000) (res_matrix res) 1).
Proof. split; [exact t_fits|]. split; [exact t_remaining|exact t_dual_feasible_tol]. Qed.

(** Non-vacuity, symmetric LMI: a model with a symmetric 2x2 LMI, a rational dual satisfying the solver assumption
    and dual feasibility, a feasible point; the reconstruction returns the constant 481/400 and the
    feasible objective value 9/10 is below it. *)
Example C01_example :
  wf_edict w_obj /\ wf_sent s_sent /\ NoDup w_ids /\ length w_ids = length s_sent
  /\ all_lmis_symmetric s_sent = true
  /\ kkt_dual w_obj (emit s_sent) s_duals (481 / 400)
  /\ (snd (certificate w_obj s_sent w_ids s_duals) == 481 # 400)%Q
  /\ (let '(a, res) := exposed s_sent w_ids s_duals in dual_feasible a /\ rank1sum (res_matrix res) 1)
  /\ feasible 1 s_sent w_G s_F /\ evalGF w_G s_F w_obj = 9 / 10.
Proof.
  split; [apply s_wf|]. split; [apply s_wf|]. split; [apply w_ids_ok|]. split; [apply w_ids_ok|].
  split; [apply s_symmetric|]. split; [apply s_kkt|].
  split; [apply s_reconstruct|]. split; [apply s_dual_feasible|]. exact s_feasible.
Qed.

(** Non-vacuity, LMI NOT symmetric as written: every hypothesis of C01_identity and C01_weak_duality is met by
    [[<p,p>, t],[s + 1, 1]]; the reconstruction returns 481/400 = tau for the dual (a, u11) = (1/4, 1) and
    9/10 = the optimum for the optimal dual. *)
Example C01_example_asymmetric :
  wf_edict w_obj /\ wf_sent w_sent /\ NoDup w_ids /\ length w_ids = length w_sent
  /\ all_lmis_symmetric w_sent = false
  /\ kkt_dual w_obj (emit w_sent) (w_duals (1 # 4) 1) (Q2R (1 # 4) * (81 / 100) + Q2R 1)
  /\ (new_value (w_duals (1 # 4) 1) == 481 # 400)%Q
  /\ (new_value (w_duals (5 # 9) (9 # 20)) == 9 # 10)%Q
  /\ (let '(a, res) := exposed w_sent w_ids (w_duals (1 # 4) 1) in dual_feasible a /\ rank1sum (res_matrix res) 1)
  /\ feasible 1 w_sent w_G w_F /\ evalGF w_G w_F w_obj = 9 / 10.
Proof.
  split; [apply w_wf|]. split; [apply w_wf|]. split; [apply w_ids_ok|]. split; [apply w_ids_ok|].
  split; [apply w_not_symmetric|]. split; [apply w_kkt|]. split; [apply w_new_feasible_dual|].
  split; [apply w_new_optimal_dual|]. split; [apply w_dual_feasible|]. exact w_feasible.
Qed.

(** layout on a concrete interleaving: scalar, 2x2 LMI, scalar, 1x1 LMI, scalar -> positions 1,2,7,8,10 of 11;
    the same constraint object sent twice shows the dual of its last occurrence at both positions *)
Example C01_layout_example :
  let l := [SC [] Ineq; LMI [[[]; []]; [[]; []]]; SC [] Equ; LMI [[[]]]; SC [] Ineq] in
  map (main_pos l) (seq 0 5) = [1; 2; 7; 8; 10]%nat /\ length (emit l) = 11%nat.
Proof. vm_compute. split; reflexivity. Qed.

Example C01_duplicate_object_example :
  map (fun p => snd (fst p)) (fst (exposed [SC [] Ineq; SC [(K1, 1%Q)] Ineq; SC [(K1, 1%Q)] Ineq] [0; 1; 1]%nat
                                         [VM []; VS 5%Q; VS 1%Q; VS 2%Q]))
  = [VS 5%Q; VS 2%Q; VS 2%Q].
Proof. exact duplicate_shows_last. Qed.

Print Assumptions C01_layout.
Print Assumptions C01_objects_sent_once.
Print Assumptions C01_identity.
Print Assumptions C01_identity_proj.
Print Assumptions C01_dual_matrix_is_sym_part.
Print Assumptions C01_weak_duality.
Print Assumptions C01_psd_pairing.
Print Assumptions C01_gram_is_psd.
Print Assumptions C01_old_formula_refuted.
Print Assumptions C01_asym_observed_value.
Print Assumptions C01_reconstruction_unconditional.
Print Assumptions C01_constant_split.
Print Assumptions C01_weak_duality_tolerance.
Print Assumptions C01_exact_is_tolerance_zero.
