(** C01 — the returned upper bound is backed by a complete, checkable dual certificate.
    Property theorems only; proofs live in Proofs/C01Layout.v, C01Gram.v, C01Identity.v,
    C01Refuted.v, PSDLemmas.v.  Models: Model/Cvxpy.v (emit, recover, assign), Model/Cert.v
    (reconstruct); solver assumption: Spec/KKT.v ([kkt_dual] = shapes + [stationary]). *)
From Coq Require Import List QArith Reals Qreals Lra.
From PV Require Import Base.IPS Model.Dict Model.Terms Model.Sent Model.Cvxpy Model.Cert
     Spec.GramSem Spec.KKT Proofs.C01Layout Proofs.C01Identity Proofs.C01Refuted Proofs.C01Examples
     Proofs.PSDLemmas.
Import ListNotations.
Local Open Scope R_scope.

(** For EVERY tracked list (any interleaving of scalar constraints and LMIs of any sizes) and every
    dual vector with one entry per solver constraint: _recover_dual_values returns
    [residual; dual at the main row of item 0; ...; dual at the main row of item n-1] and its final
    assertion holds; assign_dual_values gives item k the k-th of these; the main row of item k is its
    own <=/==/>> row; consecutive main positions differ by 1 (scalar) or 1 + n*m (LMI), the rows in
    between being exactly the n*m entry equalities of that LMI, row-major; nothing is left over. *)
Theorem C01_layout :
  forall (tracked : sent) (temp : list dval),
    length temp = length (emit tracked) ->
    let exposed_duals := map (fun k => nth (main_pos tracked k) temp dnone) (seq 0 (length tracked)) in
    recover tracked temp = (nth 0 temp dnone :: exposed_duals, nth 0 temp dnone, S (length tracked))
    /\ length (nth 0 temp dnone :: exposed_duals) = S (length tracked)
    /\ assign tracked (nth 0 temp dnone :: exposed_duals) = combine tracked exposed_duals
    /\ nth 0 (emit tracked) (RLe []) = RGram
    /\ (forall k it, nth_error tracked k = Some it ->
          nth (main_pos tracked k) (emit tracked) RGram = main_row (lmi_index tracked k) it
          /\ main_pos tracked (S k) = (main_pos tracked k + width it)%nat
          /\ (forall m, it = LMI m -> forall i j, (i < nrows m)%nat -> (j < ncols m)%nat ->
                nth (main_pos tracked k + 1 + i * ncols m + j) (emit tracked) RGram
                = REnt (lmi_index tracked k) i j (entry m i j)))
    /\ main_pos tracked (length tracked) = length (emit tracked).
Proof. exact layout. Qed.

(** Under the solver assumption (the Lagrangian of the emitted problem is constant = tau on
    {G symmetric} x F x {M_k symmetric}), for every declared model whose LMIs are symmetric as written:
    the multipliers exposed by assign o recover satisfy
      objective - tau = sum lambda_c e_c - <residual,G> - sum_k <S_k, E_k(G,F)>   for ALL symmetric G, all F;
    check_feasibility's reconstruction returns exactly tau; and the pruned symmetrised dictionary has no
    non-constant key left. *)
Theorem C01_identity_sym :
  forall (obj : edict) (tracked : sent) (temp : list dval) (tau : R),
    wf_edict obj -> wf_sent tracked ->
    all_lmis_symmetric tracked = true ->
    kkt_dual obj (emit tracked) temp tau ->
    let '(a, res, fd, t) := certificate obj tracked temp in
    certificate_identity obj a (res_matrix res) tau
    /\ Q2R t = tau
    /\ (forall k v, In (k, v) fd -> k = K1).
Proof. exact identity_sym. Qed.

(** identity + lambda >= 0 on inequalities + residual and S_k finite sums of rank-one matrices
    => objective <= tau at every feasible point (G PSD, every scalar constraint holds, every LMI matrix PSD). *)
Theorem C01_weak_duality :
  forall (np : nat) (obj : edict) (tracked : sent) (duals : list dval) (res : list (list Q)) (tau : R),
    length duals = length tracked ->
    certificate_identity obj (combine tracked duals) res tau ->
    dual_feasible (combine tracked duals) ->
    rank1sum res np ->
    forall G F, feasible np tracked G F -> evalGF G F obj <= tau.
Proof. exact weak_duality. Qed.

(** the PSD x PSD pairing lemma in the chosen form, and Gram matrices are PSD in the primal sense *)
Theorem C01_psd_pairing :
  forall Sm A n, rank1sum Sm n -> psd_qf n A -> 0 <= mdot Sm A.
Proof. exact psd_pairing_nonneg. Qed.

Theorem C01_gram_is_psd :
  forall (E : ips) (rho : nat -> E) n, psd_qf n (fun i j => inner (rho i) (rho j)).
Proof. exact @gram_psd. Qed.

(** KNOWN FINDING F-C01a: an LMI that is not symmetric as written.  There is a declared model, a dual
    satisfying the solver assumption AND dual feasibility, and a feasible point whose objective value is
    strictly above the number check_feasibility returns. *)
Theorem C01_identity_asym_refuted :
  exists (np : nat) (obj : edict) (tracked : sent) (temp : list dval) (tau : R)
         (G : nat -> nat -> R) (F : nat -> R),
    wf_edict obj /\ wf_sent tracked
    /\ all_lmis_symmetric tracked = false
    /\ kkt_dual obj (emit tracked) temp tau
    /\ (let '(a, res) := exposed tracked temp in dual_feasible a /\ rank1sum (res_matrix res) np)
    /\ feasible np tracked G F
    /\ Q2R (snd (certificate obj tracked temp)) < evalGF G F obj.
Proof. exact identity_asym_refuted. Qed.

(** with the optimal dual of the same model the reconstruction returns 2/5 while the dual value and the
    primal optimum are 9/10: the numbers observed on the real code (0.40 < 0.90) *)
Theorem C01_asym_observed_value :
  kkt_dual w_obj (emit w_sent) (w_duals (5 # 9) (9 # 20)) (9 / 10)
  /\ Q2R (snd (certificate w_obj w_sent (w_duals (5 # 9) (9 # 20)))) = 2 / 5.
Proof. exact asym_observed_value. Qed.

(** the property under the decidable guard that excludes exactly that trigger *)
Theorem C01_identity_partial :
  forall (obj : edict) (tracked : sent) (temp : list dval) (tau : R),
    all_lmis_symmetric tracked = true ->
    wf_edict obj -> wf_sent tracked ->
    kkt_dual obj (emit tracked) temp tau ->
    certificate_identity obj (fst (exposed tracked temp)) (res_matrix (snd (exposed tracked temp))) tau
    /\ Q2R (snd (certificate obj tracked temp)) = tau.
Proof. exact identity_partial. Qed.

(** Non-vacuity: a model with a symmetric 2x2 LMI, a rational dual satisfying the solver assumption and
    dual feasibility, a feasible point; the reconstruction returns the constant 481/400 and the
    feasible objective value 9/10 is below it. *)
Example C01_example :
  wf_edict w_obj /\ wf_sent s_sent
  /\ all_lmis_symmetric s_sent = true
  /\ kkt_dual w_obj (emit s_sent) s_duals (481 / 400)
  /\ (snd (certificate w_obj s_sent s_duals) == 481 # 400)%Q
  /\ (let '(a, res) := exposed s_sent s_duals in dual_feasible a /\ rank1sum (res_matrix res) 1)
  /\ feasible 1 s_sent w_G s_F /\ evalGF w_G s_F w_obj = 9 / 10.
Proof.
  split; [apply s_wf|]. split; [apply s_wf|]. split; [apply s_symmetric|]. split; [apply s_kkt|].
  split; [apply s_reconstruct|]. split; [apply s_dual_feasible|]. exact s_feasible.
Qed.

(** layout on a concrete interleaving: scalar, 2x2 LMI, scalar, 1x1 LMI, scalar -> positions 1,2,7,8,10 of 11 *)
Example C01_layout_example :
  let l := [SC [] Ineq; LMI [[[]; []]; [[]; []]]; SC [] Equ; LMI [[[]]]; SC [] Ineq] in
  map (main_pos l) (seq 0 5) = [1; 2; 7; 8; 10]%nat /\ length (emit l) = 11%nat.
Proof. vm_compute. split; reflexivity. Qed.

Print Assumptions C01_layout.
Print Assumptions C01_identity_sym.
Print Assumptions C01_weak_duality.
Print Assumptions C01_psd_pairing.
Print Assumptions C01_gram_is_psd.
Print Assumptions C01_identity_asym_refuted.
Print Assumptions C01_asym_observed_value.
Print Assumptions C01_identity_partial.
