(** C04 — class constraints are complete and independent of the declaration order.
    Property theorems only; proofs live in Proofs/ClassGenLemmas.v, Proofs/C04Lemmas.v, Proofs/FormulaEq.v.

    How the pieces add up.  [C04_pairs_*]: the generic pair generator emits, for lists l1 l2, exactly one
    constraint per selected pair of positions, selected = "not the same triplet object, and i <= j under the
    symmetry flag" (same list: every i <> j, resp. every i < j).  [C04_symmetric_flag_sound]: every formula any
    shipped class passes with symmetry=True is symmetric in (i,j).  [C04_shipped_complete]: hence for every shipped
    class the conjunction of the generated scalar constraints is the conjunction over ALL ordered pairs of distinct
    recorded samples (all samples for one-point conditions) of the statement's formula; [C04_formula_*] (41): that
    formula is the reference condition of Spec/Reference.v.  [C04_order_independent], [C04_lmi_order_independent]:
    recording the samples in another order gives the same conjunction / a congruent LMI.
    Known finding F-C04b: [C04_skew_diagonal_refuted] / [C04_skew_offdiagonal_partial].  (F-C04c, the tuple
    equality of BlockSmoothConvexFunction, was repaired in /repo b61687d: [C04_block_same_xg_regression].) *)
From Coq Require Import List QArith Reals Qreals Lra Bool Arith String Permutation.
From PV Require Import Base.IPS Model.Dict Model.Terms Model.ClassGen Spec.Sem Spec.Reference.
From PV Require Import Proofs.DictLemmas Proofs.SemLemmas Proofs.ClassGenLemmas Proofs.FormulaEq Proofs.C04Lemmas.
From PV Require Import Gen.Classes.
Import ListNotations.
Local Open Scope R_scope.

(** * (a) which pairs get a constraint, how many times *)

(** The constraints appended to list_of_class_constraints by add_constraints_from_two_lists_of_points are, in
    order, the images of the list [sel_pairs] of selected (position, sample) pairs ... *)
Theorem C04_pairs_flat :
  forall st l1 l2 cname f sym,
    flatten_opts (gen_pairs st l1 l2 cname f sym)
    = map (fun ab => pcitem st cname f (fst ab) (snd ab)) (sel_pairs sym l1 l2).
Proof. exact gen_pairs_flat. Qed.

(** ... which contains exactly the pairs of positions that are not skipped: different triplet objects, and
    i <= j when symmetry=True (for two different lists, e.g. stationary points x all points: every pair of
    distinct samples) ... *)
Theorem C04_pairs_selected :
  forall sym l1 l2 i si j sj,
    In ((i, si), (j, sj)) (sel_pairs sym l1 l2) <->
    nth_error l1 i = Some si /\ nth_error l2 j = Some sj /\
    (s_uid si <> s_uid sj /\ (sym = true -> (i <= j)%nat)).
Proof. exact sel_pairs_In. Qed.

(** ... each pair of positions at most once. *)
Theorem C04_pairs_once :
  forall sym l1 l2, NoDup (map (fun ab => (fst (fst ab), fst (snd ab))) (sel_pairs sym l1 l2)).
Proof. exact sel_pairs_NoDup. Qed.

Theorem C04_pairs_spec :
  forall st l1 l2 cname f sym c,
    In c (flatten_opts (gen_pairs st l1 l2 cname f sym)) <->
    exists i j si sj, nth_error l1 i = Some si /\ nth_error l2 j = Some sj /\ pair_selected sym i j si sj /\
                      c = mkC (Some (pair_name st cname si sj i j)) (inst st f si sj).
Proof. exact gen_pairs_spec. Qed.

(** The same list on both sides, distinct triplet objects: every ordered pair i <> j (symmetry=False), every
    unordered pair i < j (symmetry=True). *)
Theorem C04_pairs_same_list :
  forall (l : list sample) sym i j si sj,
    NoDup (map s_uid l) -> nth_error l i = Some si -> nth_error l j = Some sj ->
    (pair_selected sym i j si sj <-> i <> j /\ (sym = true -> (i < j)%nat)).
Proof. exact pair_selected_same_list. Qed.

(** * (b) symmetry=True is only used with symmetric formulas *)
Theorem C04_symmetric_flag_sound :
  forall name plan f, In (name, plan) all_plans -> In f (sym_formulas plan) ->
    forall (E : ips) (par : nat -> R) (up : nat -> E) (ux : nat -> R),
      denoteC par up ux f <-> denoteC par (swapP up) (swapX ux) f.
Proof. exact symmetric_flag_sound. Qed.

Theorem C04_symmetry_halving_lossless :
  forall (E : ips) (rho : nat -> E) (phi : nat -> R) st l cname f,
    (forall si sj, In si l -> In sj l ->
                   (holds rho phi (inst st f si sj) <-> holds rho phi (inst st f sj si))) ->
    (all_hold rho phi (flatten_opts (gen_pairs st l l cname f true)) <->
     all_hold rho phi (flatten_opts (gen_pairs st l l cname f false))).
Proof. exact @symmetry_halving_lossless. Qed.

(** * (c) completeness over all required pairs, order independence *)
Theorem C04_pairs_nosym_complete :
  forall (E : ips) (rho : nat -> E) (phi : nat -> R) st l1 l2 cname f,
    all_hold rho phi (flatten_opts (gen_pairs st l1 l2 cname f false)) <->
    forall si sj, In si l1 -> In sj l2 -> s_uid si <> s_uid sj -> holds rho phi (inst st f si sj).
Proof. exact @pairs_nosym_complete. Qed.

Theorem C04_pairs_sym_complete :
  forall (E : ips) (rho : nat -> E) (phi : nat -> R) st l cname f,
    (forall si sj, In si l -> In sj l ->
                   (holds rho phi (inst st f si sj) <-> holds rho phi (inst st f sj si))) ->
    (all_hold rho phi (flatten_opts (gen_pairs st l l cname f true)) <->
     forall si sj, In si l -> In sj l -> s_uid si <> s_uid sj -> holds rho phi (inst st f si sj)).
Proof. exact @pairs_sym_complete. Qed.

(** a generated constraint object holds at a valuation iff the formula written in the source holds of the two
    samples (then [C04_formula_*]: iff the reference condition holds) *)
Theorem C04_inst_holds_denote :
  forall (E : ips) (rho : nat -> E) (phi : nat -> R) st f si sj,
    wf_state st -> wf_sample si -> wf_sample sj -> cdef (parR st) f ->
    (holds rho phi (inst st f si sj) <-> denoteC (parR st) (upR rho st si sj) (uxR rho phi st si sj) f).
Proof. exact @inst_holds_denote. Qed.

(** For every shipped class, every number of recorded samples: the generated scalar class constraints hold iff,
    for every statement of add_class_constraints, its condition holds on ALL required pairs / points. *)
Theorem C04_shipped_complete :
  forall (E : ips) (rho : nat -> E) (phi : nat -> R) name plan st,
    In (name, plan) all_plans -> wf_state st ->
    (all_hold rho phi (g_cons (run_plan plan st)) <->
     forall it, In it plan -> item_full rho phi (start_state plan st) it).
Proof. exact @shipped_complete. Qed.

(** "Stationary sample" is a property of the recorded data (zero gradient: the gradient's decomposition prunes to
    the empty dictionary), whichever way it was recorded -- stationary_point(), add_point with a zero gradient,
    stationary_point() of a composite c*f.  The list the implementation keeps is an input of the model; the
    class-generation stream checks on every case that it is exactly the zero-gradient samples ([stat_consistent]);
    the automatic stationary point preserves this ... *)
Theorem C04_stationary_list_is_data :
  forall plan st, stat_consistent st -> stat_consistent (start_state plan st).
Proof. exact stat_consistent_start. Qed.

(** ... and then the "stationary samples x all samples" statements (ConvexQGFunction, RsiEbFunction) stand for one
    condition per (recorded zero-gradient sample, other recorded sample). *)
Theorem C04_stationary_pairs_complete :
  forall (E : ips) (rho : nat -> E) (phi : nat -> R) st cname f sym,
    stat_consistent st ->
    (item_full rho phi st (Pairs LStationary LPoints cname f sym) <->
     forall si sj, In si (f_points st) -> zero_grad si = true -> In sj (f_points st) -> s_uid si <> s_uid sj ->
                   holds rho phi (inst st f si sj)).
Proof. exact @stationary_pairs_complete. Qed.

(** Recording the same samples in another order (any permutation of list_of_points, of
    list_of_stationary_points with the same first element, of T.list_of_points) gives the same set. *)
Theorem C04_order_independent :
  forall (E : ips) (rho : nat -> E) (phi : nat -> R) name plan st st',
    In (name, plan) all_plans -> perm_equiv st st' -> wf_state st -> wf_state st' ->
    (all_hold rho phi (g_cons (run_plan plan st)) <-> all_hold rho phi (g_cons (run_plan plan st'))).
Proof. exact @shipped_order_independent. Qed.

Theorem C04_plan_order_independent :
  forall (E : ips) (rho : nat -> E) (phi : nat -> R) plan st st',
    auto_head_only plan = true -> perm_equiv st st' ->
    (forall it, In it plan -> sym_ok rho phi (start_state plan st) it) ->
    (forall it, In it plan -> sym_ok rho phi (start_state plan st') it) ->
    (all_hold rho phi (g_cons (run_plan plan st)) <-> all_hold rho phi (g_cons (run_plan plan st'))).
Proof. exact @plan_order_independent. Qed.

(** LMIs: c^T M c of the generated matrix is the quadratic form over (coefficient, sample) pairs ... *)
Theorem C04_lmi_qform :
  forall (E : ips) (rho : nat -> E) (phi : nat -> R) st l entry c,
    mat_qform (evalM rho phi (map (fun si => map (fun sj => instX st entry si sj) (get_list st l)) (get_list st l))) c
    = qform (lmi_entry rho phi st entry) (combine c (get_list st l)).
Proof. exact @lmi_qform. Qed.

(** ... which is invariant under permutations: a permutation of the samples is a congruence P M P^T, symmetry
    and positive semi-definiteness are preserved. *)
Theorem C04_psd_perm :
  forall (A : Type) (e : A -> A -> R) l l', Permutation l l' -> psd_on e l -> psd_on e l'.
Proof. exact @psd_perm. Qed.

Theorem C04_lmi_order_independent :
  forall (E : ips) (rho : nat -> E) (phi : nat -> R) st st' l entry,
    perm_equiv st st' ->
    (psd_on (lmi_entry rho phi st entry) (get_list st l) <-> psd_on (lmi_entry rho phi st' entry) (get_list st' l)).
Proof. exact @lmi_order_independent. Qed.

(** * (e) where every generated constraint / LMI comes from (used by C03) *)
Theorem C04_run_plan_items_spec :
  forall plan st c,
    In c (g_cons (run_plan plan st)) <->
    exists pre it post, plan = pre ++ it :: post /\ item_src (g_state (run_plan pre st)) it c.
Proof. exact run_plan_items_spec. Qed.

Theorem C04_run_plan_items_spec_simple :
  forall plan st c, auto_head_only plan = true ->
    (In c (g_cons (run_plan plan st)) <-> exists it, In it plan /\ item_src (start_state plan st) it c).
Proof. exact run_plan_items_spec_simple. Qed.

Theorem C04_run_plan_lmis_spec_simple :
  forall plan st m, auto_head_only plan = true ->
    (In m (g_lmis (run_plan plan st)) <-> exists it, In it plan /\ item_lmi_src (start_state plan st) it m).
Proof. exact run_plan_lmis_spec_simple. Qed.

Theorem C04_shipped_plans_auto_head :
  forall name plan, In (name, plan) all_plans -> auto_head_only plan = true.
Proof. exact shipped_auto_head. Qed.

(** * no empty LMI (/repo 818e4b8: the linear operator classes guard their LMI by `if N > 0`) *)
(** the guarded LMI statement generates the matrix over the samples iff there is at least one sample ... *)
Theorem C04_guarded_lmi_iff :
  forall st l entry m,
    In m (item_lmis st (Guarded (GNonEmpty l) (LMI l entry))) <->
    get_list st l <> [] /\ m = map (fun si => map (fun sj => instX st entry si sj) (get_list st l)) (get_list st l).
Proof. exact guarded_lmi_iff. Qed.

(** ... a plan all of whose LMI statements are guarded never generates a 0 x 0 LMI ... *)
Theorem C04_no_empty_lmi :
  forall plan st m,
    auto_head_only plan = true -> forallb lmi_guarded plan = true ->
    In m (g_lmis (run_plan plan st)) -> m <> [].
Proof. exact no_empty_lmi. Qed.

(** ... and the LMI statements of LinearOperator (both), SymmetricLinearOperator and SkewSymmetricLinearOperator, as
    found in the sources, ARE guarded: whatever was recorded (nothing, samples of the operator only, of its
    transpose only), every generated LMI has size >= 1.  (The unguarded form is translated to the plain [LMI] item,
    for which this fails.) *)
Theorem C04_linear_classes_no_empty_lmi :
  forall st m,
    (In m (g_lmis (run_plan plan_LinearOperator st)) -> m <> []) /\
    (In m (g_lmis (run_plan plan_SymmetricLinearOperator st)) -> m <> []) /\
    (In m (g_lmis (run_plan plan_SkewSymmetricLinearOperator st)) -> m <> []).
Proof. exact linear_classes_no_empty_lmi. Qed.

(** * known finding F-C04b *)
Theorem C04_skew_diagonal_refuted :
  exists st si, f_points st = [si] /\
    g_cons (run_plan plan_SkewSymmetricLinearOperator st) = [] /\
    exists (rho : nat -> R1) (phi : nat -> R),
      psd_on (lmi_entry rho phi st lmi_SkewSymmetricLinearOperator_1) (f_points st) /\
      ref_skew (evalP rho (s_x si)) (evalP rho (s_g si)) (evalP rho (s_x si)) (evalP rho (s_g si)) <> 0.
Proof. exact skew_diagonal_refuted. Qed.

Theorem C04_skew_offdiagonal_partial :
  forall (E : ips) (rho : nat -> E) (phi : nat -> R) st,
    wf_state st ->
    (all_hold rho phi (g_cons (run_plan plan_SkewSymmetricLinearOperator st)) <->
     forall si sj, In si (f_points st) -> In sj (f_points st) -> s_uid si <> s_uid sj ->
                   ref_skew (evalP rho (s_x si)) (evalP rho (s_g si)) (evalP rho (s_x sj)) (evalP rho (s_g sj)) = 0).
Proof. exact @skew_offdiagonal_partial. Qed.

(** * LinearOperator: the adjoint equalities range over two DIFFERENT lists (samples of the operator x samples of
    its transpose) *)
Theorem C04_linear_adjoint_complete :
  forall (E : ips) (rho : nat -> E) (phi : nat -> R) st,
    wf_state st ->
    (all_hold rho phi (g_cons (run_plan plan_LinearOperator st)) <->
     forall si sj, In si (f_points st) -> In sj (f_tpoints st) -> s_uid si <> s_uid sj ->
                   ref_lin_adjoint (evalP rho (s_x si)) (evalP rho (s_g si))
                                   (evalP rho (s_x sj)) (evalP rho (s_g sj)) = 0).
Proof. exact @linear_adjoint_complete. Qed.

(** regression for the repaired F-C04c (/repo b61687d): two distinct samples (x, g, f1), (x, g, f2) of a
    BlockSmoothConvexFunction holding the same Point objects x and g now get both their conditions *)
Example C04_block_same_xg_regression :
  map c_name (g_cons (run_plan plan_BlockSmoothConvexFunction block_witness))
  = [Some "IC_Function_0_smoothness_convexity_block_0(Point_0, Point_1)"%string;
     Some "IC_Function_0_smoothness_convexity_block_0(Point_1, Point_0)"%string].
Proof. exact block_same_xg_regression. Qed.

(** * (d) every formula found in the sources denotes its literature reference condition *)
Section Formulas.
  Context {E : ips}.
  Variable par : nat -> R.
  Variable up : nat -> E.
  Variable ux : nat -> R.
  Notation xi := (up 0%nat). Notation gi := (up 1%nat). Notation xj := (up 2%nat). Notation gj := (up 3%nat).
  Notation xs := (up 4%nat). Notation vv := (up 5%nat). Notation gik := (up 6%nat). Notation gjk := (up 7%nat).
  Notation fi := (ux 0%nat). Notation fj := (ux 1%nat). Notation fs := (ux 2%nat).
  Notation pL := (par 0%nat). Notation pmu := (par 1%nat). Notation pM := (par 2%nat). Notation pD := (par 3%nat).
  Notation pbeta := (par 4%nat). Notation prho := (par 5%nat). Notation pLk := (par 6%nat).

  Theorem C04_formula_convex : cdef par f_ConvexFunction_convexity_constraint_i_j /\ lhs_minus_rhs par up ux f_ConvexFunction_convexity_constraint_i_j = (ref_convex xi xj gj fi fj, Ineq).
  Proof. exact (feq_convex par up ux). Qed.

  Theorem C04_formula_ind_value : cdef par f_ConvexIndicatorFunction_value_constraint_i /\ lhs_minus_rhs par up ux f_ConvexIndicatorFunction_value_constraint_i = (ref_ind_value fi, Equ).
  Proof. exact (feq_ind_value par up ux). Qed.

  Theorem C04_formula_ind_normal : cdef par f_ConvexIndicatorFunction_convexity_constraint_i_j /\ lhs_minus_rhs par up ux f_ConvexIndicatorFunction_convexity_constraint_i_j = (ref_ind_normal xi xj gj, Ineq).
  Proof. exact (feq_ind_normal par up ux). Qed.

  Theorem C04_formula_ind_diameter : cdef par f_ConvexIndicatorFunction_diameter_constraint_i_j /\ lhs_minus_rhs par up ux f_ConvexIndicatorFunction_diameter_constraint_i_j = (ref_diameter pD xi xj, Ineq).
  Proof. exact (feq_ind_diameter par up ux). Qed.

  Theorem C04_formula_clip_bound : cdef par f_ConvexLipschitzFunction_lipschitz_continuity_constraint_i /\ lhs_minus_rhs par up ux f_ConvexLipschitzFunction_lipschitz_continuity_constraint_i = (ref_bounded_g pM gi, Ineq).
  Proof. exact (feq_clip_bound par up ux). Qed.

  Theorem C04_formula_clip_convex : cdef par f_ConvexLipschitzFunction_convexity_constraint_i_j /\ lhs_minus_rhs par up ux f_ConvexLipschitzFunction_convexity_constraint_i_j = (ref_convex xi xj gj fi fj, Ineq).
  Proof. exact (feq_clip_convex par up ux). Qed.

  Theorem C04_formula_qg_convex : cdef par f_ConvexQGFunction_convexity_constraint_i_j /\ lhs_minus_rhs par up ux f_ConvexQGFunction_convexity_constraint_i_j = (ref_convex xi xj gj fi fj, Ineq).
  Proof. exact (feq_qg_convex par up ux). Qed.

  Theorem C04_formula_qg_qg : pL <> 0 -> cdef par f_ConvexQGFunction_qg_convexity_constraint_i_j /\ lhs_minus_rhs par up ux f_ConvexQGFunction_qg_convexity_constraint_i_j = (ref_qg pL xi xj gj fi fj, Ineq).
  Proof. exact (feq_qg_qg par up ux). Qed.

  Theorem C04_formula_sup_fenchel : cdef par f_ConvexSupportFunction_fenchel_value_constraint_i /\ lhs_minus_rhs par up ux f_ConvexSupportFunction_fenchel_value_constraint_i = (ref_sup_fenchel xi gi fi, Equ).
  Proof. exact (feq_sup_fenchel par up ux). Qed.

  Theorem C04_formula_sup_bound : cdef par f_ConvexSupportFunction_lipschitz_continuity_constraint_i /\ lhs_minus_rhs par up ux f_ConvexSupportFunction_lipschitz_continuity_constraint_i = (ref_bounded_g pM gi, Ineq).
  Proof. exact (feq_sup_bound par up ux). Qed.

  Theorem C04_formula_sup_convex : cdef par f_ConvexSupportFunction_convexity_constraint_i_j /\ lhs_minus_rhs par up ux f_ConvexSupportFunction_convexity_constraint_i_j = (ref_sup_convex xj gi gj, Ineq).
  Proof. exact (feq_sup_convex par up ux). Qed.

  Theorem C04_formula_rsi : cdef par f_RsiEbFunction_rsi_constraints_i_j /\ lhs_minus_rhs par up ux f_RsiEbFunction_rsi_constraints_i_j = (ref_strong_monotone pmu xi gi xj gj, Ineq).
  Proof. exact (feq_rsi par up ux). Qed.

  Theorem C04_formula_eb : cdef par f_RsiEbFunction_eb_constraints_i_j /\ lhs_minus_rhs par up ux f_RsiEbFunction_eb_constraints_i_j = (ref_lipschitz pL xi gi xj gj, Ineq).
  Proof. exact (feq_eb par up ux). Qed.

  Theorem C04_formula_smooth_convex : pL <> 0 -> cdef par f_SmoothConvexFunction_smoothness_convexity_constraint_i_j /\ lhs_minus_rhs par up ux f_SmoothConvexFunction_smoothness_convexity_constraint_i_j = (ref_smooth_convex pL xi gi xj gj fi fj, Ineq).
  Proof. exact (feq_smooth_convex par up ux). Qed.

  Theorem C04_formula_scl_smooth_convex : pL <> 0 -> cdef par f_SmoothConvexLipschitzFunction_smoothness_convexity_constraint_i_j /\ lhs_minus_rhs par up ux f_SmoothConvexLipschitzFunction_smoothness_convexity_constraint_i_j = (ref_smooth_convex pL xi gi xj gj fi fj, Ineq).
  Proof. exact (feq_scl_smooth_convex par up ux). Qed.

  Theorem C04_formula_scl_bound : cdef par f_SmoothConvexLipschitzFunction_lipschitz_continuity_constraint_i /\ lhs_minus_rhs par up ux f_SmoothConvexLipschitzFunction_lipschitz_continuity_constraint_i = (ref_bounded_g pM gi, Ineq).
  Proof. exact (feq_scl_bound par up ux). Qed.

  Theorem C04_formula_smooth : pL <> 0 -> cdef par f_SmoothFunction_smoothness_i_j /\ lhs_minus_rhs par up ux f_SmoothFunction_smoothness_i_j = (ref_smooth pL xi gi xj gj fi fj, Ineq).
  Proof. exact (feq_smooth par up ux). Qed.

  Theorem C04_formula_ssc : pL <> 0 -> pmu <> pL -> cdef par f_SmoothStronglyConvexFunction_smoothness_strong_convexity_constraint_i_j /\ lhs_minus_rhs par up ux f_SmoothStronglyConvexFunction_smoothness_strong_convexity_constraint_i_j = (ref_smooth_strongly_convex pmu pL xi gi xj gj fi fj, Ineq).
  Proof. exact (feq_ssc par up ux). Qed.

  Theorem C04_formula_quad_value : cdef par f_SmoothStronglyConvexQuadraticFunction_value_constraint_i /\ lhs_minus_rhs par up ux f_SmoothStronglyConvexQuadraticFunction_value_constraint_i = (ref_quad_value xi gi xs fi fs, Equ).
  Proof. exact (feq_quad_value par up ux). Qed.

  Theorem C04_formula_quad_sym : cdef par f_SmoothStronglyConvexQuadraticFunction_symmetry_constraint_i_j /\ lhs_minus_rhs par up ux f_SmoothStronglyConvexQuadraticFunction_symmetry_constraint_i_j = (ref_quad_sym xi gi xj gj xs, Equ).
  Proof. exact (feq_quad_sym par up ux). Qed.

  Theorem C04_formula_quad_lmi : xdef par lmi_SmoothStronglyConvexQuadraticFunction_1 /\ denoteX par up ux lmi_SmoothStronglyConvexQuadraticFunction_1 = ref_quad_lmi pmu pL xi gi xj gj xs.
  Proof. exact (feq_quad_lmi par up ux). Qed.

  Theorem C04_formula_strongly_convex : cdef par f_StronglyConvexFunction_strong_convexity_constraint_i_j /\ lhs_minus_rhs par up ux f_StronglyConvexFunction_strong_convexity_constraint_i_j = (ref_strongly_convex pmu xi xj gj fi fj, Ineq).
  Proof. exact (feq_strongly_convex par up ux). Qed.

  Theorem C04_formula_cocoercive : cdef par f_CocoerciveOperator_cocoercivity_constraint_i_j /\ lhs_minus_rhs par up ux f_CocoerciveOperator_cocoercivity_constraint_i_j = (ref_cocoercive pbeta xi gi xj gj, Ineq).
  Proof. exact (feq_cocoercive par up ux). Qed.

  Theorem C04_formula_csm_cocoercive : cdef par f_CocoerciveStronglyMonotoneOperator_cocoercivity_constraint_i_j /\ lhs_minus_rhs par up ux f_CocoerciveStronglyMonotoneOperator_cocoercivity_constraint_i_j = (ref_cocoercive pbeta xi gi xj gj, Ineq).
  Proof. exact (feq_csm_cocoercive par up ux). Qed.

  Theorem C04_formula_csm_strong : cdef par f_CocoerciveStronglyMonotoneOperator_strong_monotonicity_constraint_i_j /\ lhs_minus_rhs par up ux f_CocoerciveStronglyMonotoneOperator_strong_monotonicity_constraint_i_j = (ref_strong_monotone pmu xi gi xj gj, Ineq).
  Proof. exact (feq_csm_strong par up ux). Qed.

  Theorem C04_formula_lin_adjoint : cdef par f_LinearOperator_adjoint_constraint_i_j /\ lhs_minus_rhs par up ux f_LinearOperator_adjoint_constraint_i_j = (ref_lin_adjoint xi gi xj gj, Equ).
  Proof. exact (feq_lin_adjoint par up ux). Qed.

  Theorem C04_formula_lin_lmi1 : xdef par lmi_LinearOperator_1 /\ denoteX par up ux lmi_LinearOperator_1 = ref_lin_lmi pL xi gi xj gj.
  Proof. exact (feq_lin_lmi1 par up ux). Qed.

  Theorem C04_formula_lin_lmi2 : xdef par lmi_LinearOperator_2 /\ denoteX par up ux lmi_LinearOperator_2 = ref_lin_lmi pL xi gi xj gj.
  Proof. exact (feq_lin_lmi2 par up ux). Qed.

  Theorem C04_formula_lipschitz : cdef par f_LipschitzOperator_lipschitz_continuity_constraint_i_j /\ lhs_minus_rhs par up ux f_LipschitzOperator_lipschitz_continuity_constraint_i_j = (ref_lipschitz pL xi gi xj gj, Ineq).
  Proof. exact (feq_lipschitz par up ux). Qed.

  Theorem C04_formula_lsm_strong : cdef par f_LipschitzStronglyMonotoneOperator_strong_monotonicity_constraint_i_j /\ lhs_minus_rhs par up ux f_LipschitzStronglyMonotoneOperator_strong_monotonicity_constraint_i_j = (ref_strong_monotone pmu xi gi xj gj, Ineq).
  Proof. exact (feq_lsm_strong par up ux). Qed.

  Theorem C04_formula_lsm_lipschitz : cdef par f_LipschitzStronglyMonotoneOperator_lipschitz_continuity_constraint_i_j /\ lhs_minus_rhs par up ux f_LipschitzStronglyMonotoneOperator_lipschitz_continuity_constraint_i_j = (ref_lipschitz pL xi gi xj gj, Ineq).
  Proof. exact (feq_lsm_lipschitz par up ux). Qed.

  Theorem C04_formula_monotone : cdef par f_MonotoneOperator_monotonicity_constraint_i_j /\ lhs_minus_rhs par up ux f_MonotoneOperator_monotonicity_constraint_i_j = (ref_monotone xi gi xj gj, Ineq).
  Proof. exact (feq_monotone par up ux). Qed.

  Theorem C04_formula_neg_comonotone : cdef par f_NegativelyComonotoneOperator_negative_comonotonicity_constraint_i_j /\ lhs_minus_rhs par up ux f_NegativelyComonotoneOperator_negative_comonotonicity_constraint_i_j = (ref_neg_comonotone prho xi gi xj gj, Ineq).
  Proof. exact (feq_neg_comonotone par up ux). Qed.

  Theorem C04_formula_nonexpansive : cdef par f_NonexpansiveOperator_nonexpansiveness_constraint_i_j /\ lhs_minus_rhs par up ux f_NonexpansiveOperator_nonexpansiveness_constraint_i_j = (ref_nonexpansive xi gi xj gj, Ineq).
  Proof. exact (feq_nonexpansive par up ux). Qed.

  Theorem C04_formula_inf_displacement : cdef par f_NonexpansiveOperator_infimal_displacement_vector_constraint_i /\ lhs_minus_rhs par up ux f_NonexpansiveOperator_infimal_displacement_vector_constraint_i = (ref_inf_displacement vv xi gi, Ineq).
  Proof. exact (feq_inf_displacement par up ux). Qed.

  Theorem C04_formula_skew : cdef par f_SkewSymmetricLinearOperator_antisymmetric_linear_constraint_i_j /\ lhs_minus_rhs par up ux f_SkewSymmetricLinearOperator_antisymmetric_linear_constraint_i_j = (ref_skew xi gi xj gj, Equ).
  Proof. exact (feq_skew par up ux). Qed.

  Theorem C04_formula_skew_lmi : xdef par lmi_SkewSymmetricLinearOperator_1 /\ denoteX par up ux lmi_SkewSymmetricLinearOperator_1 = ref_lin_lmi pL xi gi xj gj.
  Proof. exact (feq_skew_lmi par up ux). Qed.

  Theorem C04_formula_strongly_monotone : cdef par f_StronglyMonotoneOperator_strong_monotonicity_constraint_i_j /\ lhs_minus_rhs par up ux f_StronglyMonotoneOperator_strong_monotonicity_constraint_i_j = (ref_strong_monotone pmu xi gi xj gj, Ineq).
  Proof. exact (feq_strongly_monotone par up ux). Qed.

  Theorem C04_formula_sym : cdef par f_SymmetricLinearOperator_symmetric_linear_constraint_i_j /\ lhs_minus_rhs par up ux f_SymmetricLinearOperator_symmetric_linear_constraint_i_j = (ref_sym xi gi xj gj, Equ).
  Proof. exact (feq_sym par up ux). Qed.

  Theorem C04_formula_sym_lmi : xdef par lmi_SymmetricLinearOperator_1 /\ denoteX par up ux lmi_SymmetricLinearOperator_1 = ref_sym_lmi pmu pL xi gi xj gj.
  Proof. exact (feq_sym_lmi par up ux). Qed.

  Theorem C04_formula_block_smooth : pLk <> 0 -> cdef par f_BlockSmoothConvexFunction_smoothness_convexity_block /\ lhs_minus_rhs par up ux f_BlockSmoothConvexFunction_smoothness_convexity_block = (ref_block_smooth pLk xi xj gj gik gjk fi fj, Ineq).
  Proof. exact (feq_block_smooth par up ux). Qed.

  (** all 41 at once (one [Print Assumptions] covers them) *)
  Theorem C04_formulas_all :
    (cdef par f_ConvexFunction_convexity_constraint_i_j /\ lhs_minus_rhs par up ux f_ConvexFunction_convexity_constraint_i_j = (ref_convex xi xj gj fi fj, Ineq)) /\
    (cdef par f_ConvexIndicatorFunction_value_constraint_i /\ lhs_minus_rhs par up ux f_ConvexIndicatorFunction_value_constraint_i = (ref_ind_value fi, Equ)) /\
    (cdef par f_ConvexIndicatorFunction_convexity_constraint_i_j /\ lhs_minus_rhs par up ux f_ConvexIndicatorFunction_convexity_constraint_i_j = (ref_ind_normal xi xj gj, Ineq)) /\
    (cdef par f_ConvexIndicatorFunction_diameter_constraint_i_j /\ lhs_minus_rhs par up ux f_ConvexIndicatorFunction_diameter_constraint_i_j = (ref_diameter pD xi xj, Ineq)) /\
    (cdef par f_ConvexLipschitzFunction_lipschitz_continuity_constraint_i /\ lhs_minus_rhs par up ux f_ConvexLipschitzFunction_lipschitz_continuity_constraint_i = (ref_bounded_g pM gi, Ineq)) /\
    (cdef par f_ConvexLipschitzFunction_convexity_constraint_i_j /\ lhs_minus_rhs par up ux f_ConvexLipschitzFunction_convexity_constraint_i_j = (ref_convex xi xj gj fi fj, Ineq)) /\
    (cdef par f_ConvexQGFunction_convexity_constraint_i_j /\ lhs_minus_rhs par up ux f_ConvexQGFunction_convexity_constraint_i_j = (ref_convex xi xj gj fi fj, Ineq)) /\
    (pL <> 0 -> cdef par f_ConvexQGFunction_qg_convexity_constraint_i_j /\ lhs_minus_rhs par up ux f_ConvexQGFunction_qg_convexity_constraint_i_j = (ref_qg pL xi xj gj fi fj, Ineq)) /\
    (cdef par f_ConvexSupportFunction_fenchel_value_constraint_i /\ lhs_minus_rhs par up ux f_ConvexSupportFunction_fenchel_value_constraint_i = (ref_sup_fenchel xi gi fi, Equ)) /\
    (cdef par f_ConvexSupportFunction_lipschitz_continuity_constraint_i /\ lhs_minus_rhs par up ux f_ConvexSupportFunction_lipschitz_continuity_constraint_i = (ref_bounded_g pM gi, Ineq)) /\
    (cdef par f_ConvexSupportFunction_convexity_constraint_i_j /\ lhs_minus_rhs par up ux f_ConvexSupportFunction_convexity_constraint_i_j = (ref_sup_convex xj gi gj, Ineq)) /\
    (cdef par f_RsiEbFunction_rsi_constraints_i_j /\ lhs_minus_rhs par up ux f_RsiEbFunction_rsi_constraints_i_j = (ref_strong_monotone pmu xi gi xj gj, Ineq)) /\
    (cdef par f_RsiEbFunction_eb_constraints_i_j /\ lhs_minus_rhs par up ux f_RsiEbFunction_eb_constraints_i_j = (ref_lipschitz pL xi gi xj gj, Ineq)) /\
    (pL <> 0 -> cdef par f_SmoothConvexFunction_smoothness_convexity_constraint_i_j /\ lhs_minus_rhs par up ux f_SmoothConvexFunction_smoothness_convexity_constraint_i_j = (ref_smooth_convex pL xi gi xj gj fi fj, Ineq)) /\
    (pL <> 0 -> cdef par f_SmoothConvexLipschitzFunction_smoothness_convexity_constraint_i_j /\ lhs_minus_rhs par up ux f_SmoothConvexLipschitzFunction_smoothness_convexity_constraint_i_j = (ref_smooth_convex pL xi gi xj gj fi fj, Ineq)) /\
    (cdef par f_SmoothConvexLipschitzFunction_lipschitz_continuity_constraint_i /\ lhs_minus_rhs par up ux f_SmoothConvexLipschitzFunction_lipschitz_continuity_constraint_i = (ref_bounded_g pM gi, Ineq)) /\
    (pL <> 0 -> cdef par f_SmoothFunction_smoothness_i_j /\ lhs_minus_rhs par up ux f_SmoothFunction_smoothness_i_j = (ref_smooth pL xi gi xj gj fi fj, Ineq)) /\
    (pL <> 0 -> pmu <> pL -> cdef par f_SmoothStronglyConvexFunction_smoothness_strong_convexity_constraint_i_j /\ lhs_minus_rhs par up ux f_SmoothStronglyConvexFunction_smoothness_strong_convexity_constraint_i_j = (ref_smooth_strongly_convex pmu pL xi gi xj gj fi fj, Ineq)) /\
    (cdef par f_SmoothStronglyConvexQuadraticFunction_value_constraint_i /\ lhs_minus_rhs par up ux f_SmoothStronglyConvexQuadraticFunction_value_constraint_i = (ref_quad_value xi gi xs fi fs, Equ)) /\
    (cdef par f_SmoothStronglyConvexQuadraticFunction_symmetry_constraint_i_j /\ lhs_minus_rhs par up ux f_SmoothStronglyConvexQuadraticFunction_symmetry_constraint_i_j = (ref_quad_sym xi gi xj gj xs, Equ)) /\
    (xdef par lmi_SmoothStronglyConvexQuadraticFunction_1 /\ denoteX par up ux lmi_SmoothStronglyConvexQuadraticFunction_1 = ref_quad_lmi pmu pL xi gi xj gj xs) /\
    (cdef par f_StronglyConvexFunction_strong_convexity_constraint_i_j /\ lhs_minus_rhs par up ux f_StronglyConvexFunction_strong_convexity_constraint_i_j = (ref_strongly_convex pmu xi xj gj fi fj, Ineq)) /\
    (cdef par f_CocoerciveOperator_cocoercivity_constraint_i_j /\ lhs_minus_rhs par up ux f_CocoerciveOperator_cocoercivity_constraint_i_j = (ref_cocoercive pbeta xi gi xj gj, Ineq)) /\
    (cdef par f_CocoerciveStronglyMonotoneOperator_cocoercivity_constraint_i_j /\ lhs_minus_rhs par up ux f_CocoerciveStronglyMonotoneOperator_cocoercivity_constraint_i_j = (ref_cocoercive pbeta xi gi xj gj, Ineq)) /\
    (cdef par f_CocoerciveStronglyMonotoneOperator_strong_monotonicity_constraint_i_j /\ lhs_minus_rhs par up ux f_CocoerciveStronglyMonotoneOperator_strong_monotonicity_constraint_i_j = (ref_strong_monotone pmu xi gi xj gj, Ineq)) /\
    (cdef par f_LinearOperator_adjoint_constraint_i_j /\ lhs_minus_rhs par up ux f_LinearOperator_adjoint_constraint_i_j = (ref_lin_adjoint xi gi xj gj, Equ)) /\
    (xdef par lmi_LinearOperator_1 /\ denoteX par up ux lmi_LinearOperator_1 = ref_lin_lmi pL xi gi xj gj) /\
    (xdef par lmi_LinearOperator_2 /\ denoteX par up ux lmi_LinearOperator_2 = ref_lin_lmi pL xi gi xj gj) /\
    (cdef par f_LipschitzOperator_lipschitz_continuity_constraint_i_j /\ lhs_minus_rhs par up ux f_LipschitzOperator_lipschitz_continuity_constraint_i_j = (ref_lipschitz pL xi gi xj gj, Ineq)) /\
    (cdef par f_LipschitzStronglyMonotoneOperator_strong_monotonicity_constraint_i_j /\ lhs_minus_rhs par up ux f_LipschitzStronglyMonotoneOperator_strong_monotonicity_constraint_i_j = (ref_strong_monotone pmu xi gi xj gj, Ineq)) /\
    (cdef par f_LipschitzStronglyMonotoneOperator_lipschitz_continuity_constraint_i_j /\ lhs_minus_rhs par up ux f_LipschitzStronglyMonotoneOperator_lipschitz_continuity_constraint_i_j = (ref_lipschitz pL xi gi xj gj, Ineq)) /\
    (cdef par f_MonotoneOperator_monotonicity_constraint_i_j /\ lhs_minus_rhs par up ux f_MonotoneOperator_monotonicity_constraint_i_j = (ref_monotone xi gi xj gj, Ineq)) /\
    (cdef par f_NegativelyComonotoneOperator_negative_comonotonicity_constraint_i_j /\ lhs_minus_rhs par up ux f_NegativelyComonotoneOperator_negative_comonotonicity_constraint_i_j = (ref_neg_comonotone prho xi gi xj gj, Ineq)) /\
    (cdef par f_NonexpansiveOperator_nonexpansiveness_constraint_i_j /\ lhs_minus_rhs par up ux f_NonexpansiveOperator_nonexpansiveness_constraint_i_j = (ref_nonexpansive xi gi xj gj, Ineq)) /\
    (cdef par f_NonexpansiveOperator_infimal_displacement_vector_constraint_i /\ lhs_minus_rhs par up ux f_NonexpansiveOperator_infimal_displacement_vector_constraint_i = (ref_inf_displacement vv xi gi, Ineq)) /\
    (cdef par f_SkewSymmetricLinearOperator_antisymmetric_linear_constraint_i_j /\ lhs_minus_rhs par up ux f_SkewSymmetricLinearOperator_antisymmetric_linear_constraint_i_j = (ref_skew xi gi xj gj, Equ)) /\
    (xdef par lmi_SkewSymmetricLinearOperator_1 /\ denoteX par up ux lmi_SkewSymmetricLinearOperator_1 = ref_lin_lmi pL xi gi xj gj) /\
    (cdef par f_StronglyMonotoneOperator_strong_monotonicity_constraint_i_j /\ lhs_minus_rhs par up ux f_StronglyMonotoneOperator_strong_monotonicity_constraint_i_j = (ref_strong_monotone pmu xi gi xj gj, Ineq)) /\
    (cdef par f_SymmetricLinearOperator_symmetric_linear_constraint_i_j /\ lhs_minus_rhs par up ux f_SymmetricLinearOperator_symmetric_linear_constraint_i_j = (ref_sym xi gi xj gj, Equ)) /\
    (xdef par lmi_SymmetricLinearOperator_1 /\ denoteX par up ux lmi_SymmetricLinearOperator_1 = ref_sym_lmi pmu pL xi gi xj gj) /\
    (pLk <> 0 -> cdef par f_BlockSmoothConvexFunction_smoothness_convexity_block /\ lhs_minus_rhs par up ux f_BlockSmoothConvexFunction_smoothness_convexity_block = (ref_block_smooth pLk xi xj gj gik gjk fi fj, Ineq)).
  Proof. exact (conj C04_formula_convex (conj C04_formula_ind_value (conj C04_formula_ind_normal (conj C04_formula_ind_diameter (conj C04_formula_clip_bound (conj C04_formula_clip_convex (conj C04_formula_qg_convex (conj C04_formula_qg_qg (conj C04_formula_sup_fenchel (conj C04_formula_sup_bound (conj C04_formula_sup_convex (conj C04_formula_rsi (conj C04_formula_eb (conj C04_formula_smooth_convex (conj C04_formula_scl_smooth_convex (conj C04_formula_scl_bound (conj C04_formula_smooth (conj C04_formula_ssc (conj C04_formula_quad_value (conj C04_formula_quad_sym (conj C04_formula_quad_lmi (conj C04_formula_strongly_convex (conj C04_formula_cocoercive (conj C04_formula_csm_cocoercive (conj C04_formula_csm_strong (conj C04_formula_lin_adjoint (conj C04_formula_lin_lmi1 (conj C04_formula_lin_lmi2 (conj C04_formula_lipschitz (conj C04_formula_lsm_strong (conj C04_formula_lsm_lipschitz (conj C04_formula_monotone (conj C04_formula_neg_comonotone (conj C04_formula_nonexpansive (conj C04_formula_inf_displacement (conj C04_formula_skew (conj C04_formula_skew_lmi (conj C04_formula_strongly_monotone (conj C04_formula_sym (conj C04_formula_sym_lmi C04_formula_block_smooth)))))))))))))))))))))))))))))))))))))))). Qed.
End Formulas.

(** * non-vacuity *)
Definition ex_s (k : nat) : sample :=
  mkSample [(k, 1%Q)] [((k + 3)%nat, 1%Q)] [(KF k, 1%Q)] None k (10 + k) (20 + k) [].
Definition ex_state (l : list sample) : fstate :=
  mkF "Function_0" (fun _ => 1%Q) (fun _ => false) l [] [] None 6 3 30 0 (fun _ => 0%Q).

(** (hand-written plans and formula, so that the example does not depend on the generated plans) *)
Definition ex_f : cterm := CLeS (XSub (XSq (PSub (PVar 1) (PVar 3))) (XSq (PSub (PVar 0) (PVar 2)))) (SNum 0).
Definition ex_plan (sym : bool) : list plan_item := [Pairs LPoints LPoints "cond" ex_f sym].

(** three samples recorded in two orders: the hypotheses of [C04_plan_order_independent] /
    [C04_order_independent] are met; without the symmetry flag the 6 ordered pairs are generated, with it the
    3 unordered ones *)
Example C04_example :
  let st := ex_state [ex_s 0; ex_s 1; ex_s 2] in
  let st' := ex_state [ex_s 2; ex_s 0; ex_s 1] in
  perm_equiv st st' /\ wf_state st /\ wf_state st' /\
  In ("ConvexFunction"%string, plan_ConvexFunction) all_plans /\
  auto_head_only (ex_plan true) = true /\
  List.length (g_cons (run_plan (ex_plan false) st)) = 6%nat /\
  List.length (g_cons (run_plan (ex_plan true) st)) = 3%nat /\
  sym_formulas (ex_plan true) = [ex_f] /\
  map c_name (g_cons (run_plan (ex_plan true) st'))
  = [Some "IC_Function_0_cond(Point_0, Point_1)"%string;
     Some "IC_Function_0_cond(Point_0, Point_2)"%string;
     Some "IC_Function_0_cond(Point_1, Point_2)"%string].
Proof.
  cbv zeta. split; [|split; [|split; [|split; [|split; [|split; [|split; [|split]]]]]]].
  - unfold perm_equiv, ex_state. cbn. repeat split; try reflexivity.
    apply Permutation_sym. apply (Permutation_cons_app [ex_s 0; ex_s 1] [] (ex_s 2)). rewrite app_nil_r. apply Permutation_refl.
  - unfold wf_state, ex_state. cbn [f_points f_stat f_tpoints f_v].
    split; [|split; [intros s []|split; [intros s []|exact I]]].
    intros s [<-|[<-|[<-|[]]]]; unfold wf_sample; cbn; repeat split; apply NoDupKeys_single.
  - unfold wf_state, ex_state. cbn [f_points f_stat f_tpoints f_v].
    split; [|split; [intros s []|split; [intros s []|exact I]]].
    intros s [<-|[<-|[<-|[]]]]; unfold wf_sample; cbn; repeat split; apply NoDupKeys_single.
  - unfold all_plans. cbn. tauto.
  - reflexivity.
  - vm_compute. reflexivity.
  - vm_compute. reflexivity.
  - reflexivity.
  - vm_compute. reflexivity.
Qed.

Print Assumptions C04_pairs_flat.
Print Assumptions C04_pairs_selected.
Print Assumptions C04_pairs_once.
Print Assumptions C04_pairs_spec.
Print Assumptions C04_pairs_same_list.
Print Assumptions C04_symmetric_flag_sound.
Print Assumptions C04_symmetry_halving_lossless.
Print Assumptions C04_pairs_nosym_complete.
Print Assumptions C04_pairs_sym_complete.
Print Assumptions C04_inst_holds_denote.
Print Assumptions C04_shipped_complete.
Print Assumptions C04_stationary_list_is_data.
Print Assumptions C04_stationary_pairs_complete.
Print Assumptions C04_order_independent.
Print Assumptions C04_plan_order_independent.
Print Assumptions C04_lmi_qform.
Print Assumptions C04_psd_perm.
Print Assumptions C04_lmi_order_independent.
Print Assumptions C04_run_plan_items_spec.
Print Assumptions C04_run_plan_items_spec_simple.
Print Assumptions C04_run_plan_lmis_spec_simple.
Print Assumptions C04_shipped_plans_auto_head.
Print Assumptions C04_guarded_lmi_iff.
Print Assumptions C04_no_empty_lmi.
Print Assumptions C04_linear_classes_no_empty_lmi.
Print Assumptions C04_skew_diagonal_refuted.
Print Assumptions C04_skew_offdiagonal_partial.
Print Assumptions C04_linear_adjoint_complete.
Print Assumptions C04_formulas_all.

(** * (f) SUFFICIENCY ("a finite primal value is attained by a real member of the class"), for the classes where it
    is elementary (Proofs/C04Sufficiency.v).  Whenever a finite list of triples (x_i, g_i, f_i) of an arbitrary
    inner-product space satisfies the reference conditions of the class on ALL ordered pairs, there EXISTS a real
    member of the class (Spec/Classes.v) of which every triple is a genuine sample (value and subgradient).
    [convex_member] is [True] by definition, so the convexity of the constructed function ([convex_seg]: convex
    domain, value below the chord) is part of each conclusion.  ConvexFunction: the max-affine interpolant;
    ConvexIndicatorFunction(D), D finite or not: the indicator of the convex hull of the x_i (the diameter bound is
    proved to extend from the points to their hull); StronglyConvexFunction(mu), mu >= 0: max-affine interpolant of
    the shifted data plus mu/2 |.|^2.  For every other interpolation class sufficiency is the cited theorem and
    stays in the trusted base (this half of C04 is partial). *)
From PV Require Import Spec.Classes Proofs.C04Sufficiency.

Theorem C04_sufficiency_convex :
  forall (E : ips) (l : list (@triple E)),
    l <> [] ->
    (forall xi gi fi xj gj fj, In (xi, gi, fi) l -> In (xj, gj, fj) l -> ref_convex xi xj gj fi fj <= 0) ->
    exists F : @fn E,
      convex_member F /\ convex_seg F /\ (forall x, dom F x) /\
      forall s, In s l -> genuine_sub F s.
Proof. exact @suff_convex. Qed.

Theorem C04_sufficiency_indicator :
  forall (E : ips) (D : option R) (l : list (@triple E)),
    (forall x g f, In (x, g, f) l -> ref_ind_value f = 0) /\
    (forall xi gi fi xj gj fj, In (xi, gi, fi) l -> In (xj, gj, fj) l -> ref_ind_normal xi xj gj <= 0) /\
    match D with
    | Some d => forall xi gi fi xj gj fj, In (xi, gi, fi) l -> In (xj, gj, fj) l -> ref_diameter d xi xj <= 0
    | None => True
    end ->
    exists F : @fn E,
      indicator_member D F /\ convex_seg F /\
      (forall x, dom F x <-> hull (fun u => exists g f, In (u, g, f) l) x) /\
      forall s, In s l -> genuine_sub F s.
Proof. exact @suff_indicator. Qed.

Theorem C04_sufficiency_strongly_convex :
  forall (E : ips) (mu : R) (l : list (@triple E)),
    0 <= mu -> l <> [] ->
    (forall xi gi fi xj gj fj, In (xi, gi, fi) l -> In (xj, gj, fj) l ->
                               ref_strongly_convex mu xi xj gj fi fj <= 0) ->
    exists F : @fn E,
      strongly_convex_member mu F /\ convex_seg F /\ (forall x, dom F x) /\
      forall s, In s l -> genuine_sub F s.
Proof. exact @suff_strongly_convex. Qed.

(** what the hull used above is: the points, closed under segments; inside every half-space and every ball that
    contains the points *)
Theorem C04_sufficiency_hull_spec :
  forall (E : ips) (P : E -> Prop),
    (forall x, P x -> hull P x) /\
    (forall y z t, hull P y -> hull P z -> 0 <= t <= 1 -> hull P (seg y z t)) /\
    (forall g b y, (forall u, P u -> inner u g <= b) -> hull P y -> inner y g <= b) /\
    (forall z r y, (forall u, P u -> nrm2 (vsub u z) <= r) -> hull P y -> nrm2 (vsub y z) <= r).
Proof. exact (fun E P => conj (@hull_pt E P) (conj (@hull_convex E P) (conj (@hull_halfspace E P) (@hull_ball E P)))). Qed.

(** non-vacuity: three samples of |x|, of the indicator of [-1,1] (D = 2), of x^2 (mu = 2) on the real line meet
    the hypotheses *)
Example C04_sufficiency_examples :
  (ex_abs <> [] /\ convex_cond ex_abs) /\ indicator_cond (Some 2) ex_ind /\
  (ex_sq <> [] /\ strongly_convex_cond 2 ex_sq).
Proof.
  exact (conj (conj (proj1 suff_convex_nonvacuous) (proj1 (proj2 suff_convex_nonvacuous)))
              (conj (proj1 suff_indicator_nonvacuous)
                    (conj (proj1 suff_strongly_convex_nonvacuous) (proj1 (proj2 suff_strongly_convex_nonvacuous))))).
Qed.

Print Assumptions C04_sufficiency_convex.
Print Assumptions C04_sufficiency_indicator.
Print Assumptions C04_sufficiency_strongly_convex.
Print Assumptions C04_sufficiency_hull_spec.

(** * (f, continued) sufficiency for ConvexLipschitzFunction(M), ConvexSupportFunction(M), and the operator
    classes that Spec/Classes.v defines on graphs *)

(** ConvexLipschitzFunction(M): the max-affine interpolant is M-Lipschitz when every |g_i|^2 <= M^2 (each affine
    piece by Cauchy-Schwarz, a finite max of M-Lipschitz functions is M-Lipschitz); only M^2 occurs, no sign
    condition on M is needed. *)
Theorem C04_sufficiency_convex_lipschitz :
  forall (E : ips) (M : R) (l : list (@triple E)),
    l <> [] ->
    (forall xi gi fi xj gj fj, In (xi, gi, fi) l -> In (xj, gj, fj) l -> ref_convex xi xj gj fi fj <= 0) ->
    (forall x g f, In (x, g, f) l -> ref_bounded_g M g <= 0) ->
    exists F : @fn E,
      lipschitz_fn M F /\ convex_member F /\ convex_seg F /\
      forall s, In s l -> genuine_sub F s.
Proof. exact @suff_convex_lipschitz. Qed.

(** ConvexSupportFunction(M), M finite or not: C = convex hull of the g_i, sigma = max_i <g_i, .>; beyond
    [support_member] (sigma dominates <c, .> on C; C inside the ball of radius M) the conclusion records that C
    is convex and that sigma x is attained in C at every x, i.e. sigma IS the support function of C. *)
Theorem C04_sufficiency_support :
  forall (E : ips) (M : option R) (l : list (@triple E)),
    l <> [] ->
    (forall x g f, In (x, g, f) l -> ref_sup_fenchel x g f = 0) /\
    (forall xi gi fi xj gj fj, In (xi, gi, fi) l -> In (xj, gj, fj) l -> ref_sup_convex xj gi gj <= 0) /\
    match M with
    | Some m => forall x g f, In (x, g, f) l -> ref_bounded_g m g <= 0
    | None => True
    end ->
    exists (C : E -> Prop) (sigma : E -> R),
      support_member M C sigma /\
      (forall c c' t, C c -> C c' -> 0 <= t <= 1 -> C (seg c c' t)) /\
      (forall x, exists c, C c /\ inner c x = sigma x) /\
      forall s, In s l -> genuine_support C sigma s.
Proof. exact @suff_support. Qed.

(** Operator classes defined on graphs (monotone, strongly monotone, cocoercive, negatively comonotone, Lipschitz,
    nonexpansive): interpolation BY THE FINITE GRAPH ITSELF.  [graph_of l x g := exists f, In (x, g, f) l];
    [all_pairs r l := forall xi gi fi xj gj fj, In (xi,gi,fi) l -> In (xj,gj,fj) l -> r xi gi xj gj <= 0].
    The finite graph is a member of the class iff the reference condition holds on all ordered pairs, and every
    sample is a genuine sample of it; this is what the first-principles definitions admit.  The extension to a
    maximal monotone / everywhere-defined Lipschitz operator (Zorn, Kirszbraun-Valentine) is not proved and stays
    in the trusted base. *)
Theorem C04_sufficiency_graph_classes :
  forall (E : ips) (l : list (@triple E)),
    (forall s, In s l -> genuine_op (graph_of l) s) /\
    (all_pairs ref_monotone l <-> monotone_op (graph_of l)) /\
    (forall mu, all_pairs (ref_strong_monotone mu) l <-> strongly_monotone_op mu (graph_of l)) /\
    (forall beta, all_pairs (ref_cocoercive beta) l <-> cocoercive_op beta (graph_of l)) /\
    (forall rho, all_pairs (ref_neg_comonotone rho) l <-> neg_comonotone_op rho (graph_of l)) /\
    (forall L, all_pairs (ref_lipschitz L) l <-> lipschitz_op L (graph_of l)) /\
    (all_pairs ref_nonexpansive l <-> nonexpansive_op (graph_of l)).
Proof. exact @suff_graph_classes. Qed.

(** non-vacuity: the three triples (-1,-1,1), (0,0,0), (1,1,1) on the real line are samples of |x| as a
    1-Lipschitz convex function, as the support function of [-1,1] (M = 1), and of a monotone nonexpansive graph *)
Example C04_sufficiency_examples2 :
  bounded_cond 1 ex_abs /\ support_cond (Some 1) ex_abs /\
  all_pairs ref_monotone ex_abs /\ all_pairs ref_nonexpansive ex_abs.
Proof.
  exact (conj (proj1 suff_lipschitz_nonvacuous)
              (conj (proj1 suff_support_nonvacuous)
                    (conj (proj1 suff_graph_nonvacuous) (proj1 (proj2 suff_graph_nonvacuous))))).
Qed.

Print Assumptions C04_sufficiency_convex_lipschitz.
Print Assumptions C04_sufficiency_support.
Print Assumptions C04_sufficiency_graph_classes.
