(** C17 — dual tables report each multiplier at the pair of points it belongs to.
    Property theorems only; proofs live in Proofs/ClassGenLemmas.v and Proofs/C17Lemmas.v.

    Model: a table cell holds the scalar 0 ([None]) or a Constraint *object*; an object is identified by its
    position in list_of_class_constraints ([Some (p, c)]).  [duals_table dual t] is
    get_class_constraints_duals() for one table, [dual p] being the multiplier of the p-th class constraint.
    [C17_named_tabulated]: no class constraint is left unnamed or outside the tables (F-C17b was repaired in
    /repo 763e32e). *)
From Coq Require Import List QArith Bool Arith String.
From PV Require Import Model.Dict Model.Terms Model.ClassGen Model.ClassDump Proofs.ClassGenLemmas Proofs.C17Lemmas.
From PV Require Import Gen.Classes.
Import ListNotations.
Local Open Scope nat_scope.

(** After set_class_constraints(), for every plan (every class): each cell of each table of
    tables_of_constraints that holds an object holds the object at the recorded position of
    list_of_class_constraints. *)
Theorem C17_tables_hold_objects :
  forall plan st t, In t (g_tables (run_plan plan st)) ->
    forall i j p c, table_cell t i j = Some (Some (p, c)) -> nth_error (g_cons (run_plan plan st)) p = Some c.
Proof. exact run_plan_tables_ok. Qed.

(** Pair conditions (add_constraints_from_two_lists_of_points), for all lists of all lengths: one table under the
    condition name, of shape |list1| x |list2| with the point names as labels; cell (i, j) holds the constraint
    generated for that ordered pair -- the very object of list_of_class_constraints -- exactly when the pair is
    selected, the scalar 0 otherwise; the dual table reports at (i, j) that constraint's multiplier, 0 otherwise. *)
Theorem C17_pairs_table :
  forall plan st pre it post l1 l2 cname f sym,
    plan = pre ++ it :: post ->
    let s1 := g_state (run_plan pre st) in
    item_core s1 it = Some (Pairs l1 l2 cname f sym) ->
    get_list s1 l1 <> [] ->
    exists t, In t (g_tables (run_plan plan st)) /\ t_name t = cname /\
      t_index t = labels (get_list s1 l1) /\ t_columns t = labels (get_list s1 l2) /\
      List.length (t_rows t) = List.length (get_list s1 l1) /\
      (forall i row, nth_error (t_rows t) i = Some row -> List.length row = List.length (get_list s1 l2)) /\
      forall i j si sj, nth_error (get_list s1 l1) i = Some si -> nth_error (get_list s1 l2) j = Some sj ->
        forall dual,
        if skip_pair sym i j si sj
        then table_cell t i j = Some None /\ cell (duals_table dual t) i j = Some 0%Q
        else exists p, let c := mkC (Some (pair_name s1 cname si sj i j)) (inst s1 f si sj) in
               table_cell t i j = Some (Some (p, c)) /\ nth_error (g_cons (run_plan plan st)) p = Some c /\
               cell (duals_table dual t) i j = Some (dual p).
Proof. exact plan_pairs_table. Qed.

(** One-point conditions: a 1 x n table. *)
Theorem C17_singles_table :
  forall plan st pre it post l cname f,
    plan = pre ++ it :: post ->
    let s1 := g_state (run_plan pre st) in
    item_core s1 it = Some (Singles l cname f) ->
    exists t, In t (g_tables (run_plan plan st)) /\ t_name t = cname /\
      t_columns t = labels (get_list s1 l) /\ List.length (t_rows t) = 1 /\
      (forall row, nth_error (t_rows t) 0 = Some row -> List.length row = List.length (get_list s1 l)) /\
      forall i si, nth_error (get_list s1 l) i = Some si -> forall dual,
        exists p, let c := mkC (Some (single_name s1 cname si i)) (inst s1 f si si) in
          table_cell t 0 i = Some (Some (p, c)) /\ nth_error (g_cons (run_plan plan st)) p = Some c /\
          cell (duals_table dual t) 0 i = Some (dual p).
Proof. exact plan_singles_table. Qed.

(** BlockSmoothConvexFunction: one n x n table per block k. *)
Theorem C17_block_tables :
  forall plan st pre it post cprefix f k,
    plan = pre ++ it :: post ->
    let s1 := g_state (run_plan pre st) in
    item_core s1 it = Some (BlockPairs cprefix f) ->
    f_points s1 <> [] -> k < f_nblocks s1 ->
    exists t, In t (g_tables (run_plan plan st)) /\ t_name t = (cprefix ++ nat_to_string k)%string /\
      t_index t = labels (f_points s1) /\ t_columns t = labels (f_points s1) /\
      List.length (t_rows t) = List.length (f_points s1) /\
      forall i j si sj, nth_error (f_points s1) i = Some si -> nth_error (f_points s1) j = Some sj ->
        forall dual,
        if same_tuple si sj
        then table_cell t i j = Some None /\ cell (duals_table dual t) i j = Some 0%Q
        else exists p, let c := mkC (Some (block_name s1 cprefix k si sj i j)) (instB s1 f k si sj) in
               table_cell t i j = Some (Some (p, c)) /\ nth_error (g_cons (run_plan plan st)) p = Some c /\
               cell (duals_table dual t) i j = Some (dual p).
Proof. exact plan_block_tables. Qed.

(** get_class_constraints_duals(): same shape as the table of constraints; each cell is the multiplier of the
    object in the corresponding cell, 0 for the scalar 0.  [dual] is an ARBITRARY assignment of rationals to the
    class constraints -- negative values included (equality conditions have sign-free multipliers, solvers return
    slightly negative ones for inactive inequalities): the accessor is the identity on what is stored, it neither
    clips nor rounds.  The same quantification over [dual] holds in [C17_pairs_table], [C17_singles_table],
    [C17_block_tables]. *)
Theorem C17_duals_cell :
  forall dual t i j,
    cell (duals_table dual t) i j
    = option_map (fun o => match o with Some (p, _) => dual p | None => 0%Q end) (table_cell t i j).
Proof. exact duals_table_cell. Qed.

Theorem C17_duals_shape :
  forall dual t,
    List.length (duals_table dual t) = List.length (t_rows t) /\
    forall i, option_map (@List.length Q) (nth_error (duals_table dual t) i)
              = option_map (@List.length _) (nth_error (t_rows t) i).
Proof. exact duals_table_shape. Qed.

(** For every shipped class the condition names are pairwise distinct, so the dictionary
    tables_of_constraints keeps every table and a lookup by condition name returns it. *)
Theorem C17_table_lookup :
  forall name plan st t,
    In (name, plan) all_plans -> In t (g_tables (run_plan plan st)) ->
    tables_dict (g_tables (run_plan plan st)) = g_tables (run_plan plan st) /\
    table_get (t_name t) (tables_dict (g_tables (run_plan plan st))) = Some t.
Proof. exact shipped_table_lookup. Qed.

(** Names: "IC_<function id>_<condition>(<xi>, <xj>)"; within one function and condition the name determines
    the pair (i, j) of unnamed samples (decimal printing of indices is injective) ... *)
Theorem C17_pair_name_inj :
  forall st cname si sj i j si' sj' i' j',
    s_name si = None -> s_name sj = None -> s_name si' = None -> s_name sj' = None ->
    pair_name st cname si sj i j = pair_name st cname si' sj' i' j' -> i = i' /\ j = j'.
Proof. exact pair_name_inj. Qed.

Theorem C17_single_name_inj :
  forall st cname si i si' i',
    s_name si = None -> s_name si' = None -> single_name st cname si i = single_name st cname si' i' -> i = i'.
Proof. exact single_name_inj. Qed.

Theorem C17_block_name_inj :
  forall st cprefix k si sj i j si' sj' i' j',
    s_name si = None -> s_name sj = None -> s_name si' = None -> s_name sj' = None ->
    block_name st cprefix k si sj i j = block_name st cprefix k si' sj' i' j' -> i = i' /\ j = j'.
Proof. exact block_name_inj. Qed.

Theorem C17_nat_to_string_inj : forall n m, nat_to_string n = nat_to_string m -> n = m.
Proof. exact nat_to_string_inj. Qed.

(** ... and carries the function id and the condition name. *)
Theorem C17_pair_name_prefix :
  forall st cname si sj i j,
    exists rest, pair_name st cname si sj i j = ("IC_" ++ f_id st ++ "_" ++ cname ++ "(" ++ rest)%string.
Proof. exact pair_name_prefix. Qed.

Theorem C17_single_name_prefix :
  forall st cname si i,
    exists rest, single_name st cname si i = ("IC_" ++ f_id st ++ "_" ++ cname ++ "(" ++ rest)%string.
Proof. exact single_name_prefix. Qed.

Theorem C17_block_name_prefix :
  forall st cprefix k si sj i j,
    exists rest, block_name st cprefix k si sj i j
                 = ("IC_" ++ f_id st ++ "_" ++ (cprefix ++ nat_to_string k) ++ "(" ++ rest)%string.
Proof. exact block_name_prefix. Qed.

(** Every class constraint generated by any plan (so by every shipped class, LinearOperator's adjoint equalities
    included since /repo 763e32e) carries a name and is the object held by some cell of some table of
    tables_of_constraints, at its own position of list_of_class_constraints. *)
Theorem C17_named_tabulated :
  forall plan st c,
    In c (g_cons (run_plan plan st)) ->
    (exists nm, c_name c = Some nm) /\
    exists t i j p, In t (g_tables (run_plan plan st)) /\ table_cell t i j = Some (Some (p, c)) /\
                    nth_error (g_cons (run_plan plan st)) p = Some c.
Proof. exact run_plan_named_tabulated. Qed.

(** regression for the repaired F-C17b: one sample of a LinearOperator and one of its transpose *)
Example C17_linear_adjoint_regression :
  map c_name (g_cons (run_plan plan_LinearOperator lin_witness)) = [Some "IC_Function_0_adjoint(Point_0, Point_0)"%string] /\
  map t_name (g_tables (run_plan plan_LinearOperator lin_witness)) = ["adjoint"%string] /\
  map (duals_table (fun p => inject_Z (Z.of_nat p + 7))) (g_tables (run_plan plan_LinearOperator lin_witness))
  = [[[7%Q]]].
Proof. exact linear_adjoint_regression. Qed.

(** * non-vacuity: a convex function with three unnamed samples; the 3 x 3 table has 0 on the diagonal and the
    six constraints, in row-major order, elsewhere; the dual table reads the (signed) tags back *)
Definition ex_s (k : nat) : sample :=
  mkSample [(k, 1%Q)] [((k + 3)%nat, 1%Q)] [(KF k, 1%Q)] None k (10 + k) (20 + k) [].
Definition ex_state : fstate :=
  mkF "f" (fun _ => 1%Q) (fun _ => false) [ex_s 0; ex_s 1; ex_s 2] [] [] None 6 3 30 0 (fun _ => 0%Q).

(** (a hand-written plan and formula, so that the example does not depend on the generated plans) *)
Definition ex_f : cterm := CGe (XSub (XVar 0) (XVar 1)) (XInner (PVar 3) (PSub (PVar 0) (PVar 2))).
Definition ex_plan : list plan_item := [Pairs LPoints LPoints "convexity" ex_f false].

Example C17_example :
  let out := run_plan ex_plan ex_state in
  ex_plan = [] ++ Pairs LPoints LPoints "convexity" ex_f false :: [] /\
  get_list ex_state LPoints <> [] /\
  (exists t, g_tables out = [t] /\
     duals_table Model.ClassDump.dual_tag t
     = [[0; (-1) # 4; 3 # 4]; [(-5) # 4; 0; 7 # 4]; [(-9) # 4; 11 # 4; 0]]%Q /\
     t_index t = ["Point_0"; "Point_1"; "Point_2"]%string) /\
  map c_name (g_cons out)
  = [Some "IC_f_convexity(Point_0, Point_1)"; Some "IC_f_convexity(Point_0, Point_2)";
     Some "IC_f_convexity(Point_1, Point_0)"; Some "IC_f_convexity(Point_1, Point_2)";
     Some "IC_f_convexity(Point_2, Point_0)"; Some "IC_f_convexity(Point_2, Point_1)"]%string.
Proof.
  cbv zeta. split; [reflexivity|]. split; [discriminate|]. split.
  - eexists. split; [vm_compute; reflexivity|]. split; vm_compute; reflexivity.
  - vm_compute. reflexivity.
Qed.

Print Assumptions C17_tables_hold_objects.
Print Assumptions C17_pairs_table.
Print Assumptions C17_singles_table.
Print Assumptions C17_block_tables.
Print Assumptions C17_duals_cell.
Print Assumptions C17_duals_shape.
Print Assumptions C17_table_lookup.
Print Assumptions C17_pair_name_inj.
Print Assumptions C17_single_name_inj.
Print Assumptions C17_block_name_inj.
Print Assumptions C17_nat_to_string_inj.
Print Assumptions C17_pair_name_prefix.
Print Assumptions C17_single_name_prefix.
Print Assumptions C17_block_name_prefix.
Print Assumptions C17_named_tabulated.
