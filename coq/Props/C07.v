(** C07 — Oracle bookkeeping is coherent for leaf and composite functions.
    Property theorems only; model in Model/Func.v, proofs in Proofs/C07{Dict,Inv,Ops,Main,Thm}.v.

    [run ops] is the state of the model of PEPit/function.py after the op sequence [ops]
    (NewPoint / NewExpr / NewLeaf / Combine / Direct / Oracle / Gradient / Value / Stationary / Fixed / AddPoint,
    on leaf and composite functions, in any order).  [ops_ok ops] is the decidable side condition:
      [op_scoped]  ids exist, dictionaries have unique keys, a composite has >= 1 operand, user-level add_point
                   on a point not yet recorded for the function or its terms (how the primitive steps call it);
      [op_guard]   no composite is the zero function: its weights (built as Python builds them since /repo
                   5162ea4: bare scaling first, then merge-and-PRUNE per [+]) are neither a bare zero scaling
                   [{f: 0}] (F-C07d) nor empty because everything cancelled (F-C07c); a dictionary handed
                   directly to the constructor ([Direct]) has no zero weight and is not empty (F-C07e); no
                   query point has an explicit zero coefficient (F-C07b).  Cancelling weights such as f1 + f2 - f2 are ACCEPTED
                   (the repaired F-C07a; see the regression examples at the end).
    Without [op_guard] the statement is refuted ([C07_inv_refuted_*]). *)
From Coq Require Import String List QArith Reals Qreals Lra Bool Arith.
From PV Require Import Gen.Classes.
From PV Require Import Base.IPS Model.Dict Model.Terms Model.Func Spec.Sem
  Proofs.DictLemmas Proofs.C07Dict Proofs.C07Inv Proofs.C07Ops Proofs.C07Main Proofs.C07Thm Proofs.C07InvB.
Import ListNotations.
Local Open Scope R_scope.

(** The invariant (I0 well-formedness / flatness, I1, I2, I3, stationary samples, I6; see [inv_gen] in
    Proofs/C07Inv.v) holds initially, is preserved by every op, hence holds after EVERY accepted op
    sequence (induction on the list, no bound on its length). *)
Theorem C07_inv_init : inv init.
Proof. exact init_inv. Qed.

Theorem C07_inv_step :
  forall s o, inv s -> op_scoped s o = true -> op_guard s o = true -> inv (step s o).
Proof. exact step_inv. Qed.

Theorem C07_inv_partial : forall ops, ops_ok ops = true -> inv (run ops).
Proof. exact inv_partial. Qed.

(** The executable form of the invariant ([inv_b], Proofs/C07InvB.v: meanings compared as pruned
    differences of dictionaries, the choice of I3 found by enumeration) is sound for [inv]. *)
Theorem C07_inv_b_sound : forall s, inv_b s = true -> inv s.
Proof. exact inv_b_sound. Qed.

(** Unguarded statement refuted: well-scoped op sequences that break the invariant. *)
Theorem C07_inv_refuted_zero_scaling :     (* F-C07d: F = 0*f keeps {f: 0}; F.oracle(x) records two fresh leaves for the zero function *)
  exists ops, ops_scoped ops = true /\ ~ inv (run ops).
Proof. exact (ex_intro _ ops_zero_scaling refuted_zero_scaling). Qed.

Theorem C07_inv_refuted_all_weights_cancel : (* F-C07c: stationary point of f - f records a free value for the zero function *)
  exists ops, ops_scoped ops = true /\ ~ inv (run ops).
Proof. exact (ex_intro _ ops_all_cancel refuted_all_cancel). Qed.

Theorem C07_inv_refuted_ctor_zero_weight : (* F-C07e: {f1: 1, f2: 0} handed to the constructor: a LEAF gets two values at x *)
  exists ops, ops_scoped ops = true /\ ~ inv (run ops).
Proof. exact (ex_intro _ ops_ctor_zero_weight refuted_ctor_zero_weight). Qed.

Theorem C07_inv_refuted_zero_query :       (* F-C07b: 0*y queried twice: two values at the point {} *)
  exists ops, ops_scoped ops = true /\ ~ inv (run ops).
Proof. exact (ex_intro _ ops_zero_query refuted_zero_query). Qed.

(** What a call returns is a sample recorded for the function at a point equal to the query (so I1/I2/I3
    speak about every returned object): "one value however often and through whichever route it is queried". *)
Theorem C07_oracle_returns_recorded :
  forall s f p, (f < nfun s)%nat -> wfq s p ->
    let s' := fst (oracle s f p) in
    let g := fst (snd (oracle s f p)) in
    let v := snd (snd (oracle s f p)) in
    exists x0, In (x0, g, v) (f_pts (getf s' f)) /\ dict_eqb Nat.eqb x0 p = true.
Proof. exact oracle_returns_recorded. Qed.

Theorem C07_value_returns_recorded :
  forall s f p, (f < nfun s)%nat -> wfq s p ->
    let s' := fst (value s f p) in
    let v := snd (value s f p) in
    exists x0 g, In (x0, g, v) (f_pts (getf s' f)) /\ dict_eqb Nat.eqb x0 p = true.
Proof. exact value_returns_recorded. Qed.

(** The clauses of the property, for the state after any accepted op sequence. *)

(** composite dictionaries only contain distinct leaves, with non-zero weights (recursion depth 2) *)
Theorem C07_flat :
  forall ops, ops_ok ops = true -> let s := run ops in
  forall F, (F < nfun s)%nat -> f_leaf (getf s F) = false ->
    NoDup (keys (f_w (getf s F))) /\
    forall k q, In (k, q) (f_w (getf s F)) ->
      (k < nfun s)%nat /\ f_leaf (getf s k) = true /\ f_w (getf s k) = [(k, 1%Q)] /\ ~ (q == 0)%Q.
Proof. exact (fun ops H => read_flat (run ops) (inv_partial ops H)). Qed.

(** I1 — a function has one value per point: two samples recorded at equal decompositions have values
    with the same meaning under every valuation of the leaves *)
Theorem C07_one_value_per_point :
  forall ops, ops_ok ops = true -> let s := run ops in
  forall f t1 t2, (f < nfun s)%nat -> In t1 (f_pts (getf s f)) -> In t2 (f_pts (getf s f)) ->
    dict_eqb Nat.eqb (xof t1) (xof t2) = true ->
    forall (E : ips) (rho : nat -> E) (phi : nat -> R), evalE rho phi (vof t1) = evalE rho phi (vof t2).
Proof. exact (fun ops H => read_I1 (run ops) (inv_partial ops H)). Qed.

(** I2 — a differentiable function (reuse_gradient) has one gradient per point *)
Theorem C07_one_gradient_if_differentiable :
  forall ops, ops_ok ops = true -> let s := run ops in
  forall f t1 t2, (f < nfun s)%nat -> f_reuse (getf s f) = true ->
    In t1 (f_pts (getf s f)) -> In t2 (f_pts (getf s f)) ->
    dict_eqb Nat.eqb (xof t1) (xof t2) = true ->
    forall (E : ips) (rho : nat -> E), veq (evalP rho (gof t1)) (evalP rho (gof t2)).
Proof. exact (fun ops H => read_I2 (run ops) (inv_partial ops H)). Qed.

(** I3 — every recorded (point, gradient, value) of a weighted sum is the same weighted sum of samples
    recorded at that point for its terms, in every inner-product space, under every valuation *)
Theorem C07_composite_sample_is_weighted_sum :
  forall ops, ops_ok ops = true -> let s := run ops in
  forall F t, (F < nfun s)%nat -> f_leaf (getf s F) = false -> In t (f_pts (getf s F)) ->
    exists ch : nat -> sample,
      (forall i q, In (i, q) (f_w (getf s F)) ->
         In (ch i) (f_pts (getf s i)) /\ dict_eqb Nat.eqb (xof (ch i)) (xof t) = true) /\
      forall (E : ips) (rho : nat -> E) (phi : nat -> R),
        veq (evalP rho (gof t)) (wlin rho (f_w (getf s F)) (fun i => gof (ch i))) /\
        evalE rho phi (vof t) = wsum rho phi (f_w (getf s F)) (fun i => vof (ch i)).
Proof. exact (fun ops H => read_I3 (run ops) (inv_partial ops H)). Qed.

(** I4 — a declared stationary point has zero total gradient *)
Theorem C07_stationary_zero_total_gradient :
  forall ops, ops_ok ops = true -> let s := run ops in
  forall F t, (F < nfun s)%nat -> In t (f_stat (getf s F)) ->
    In t (f_pts (getf s F)) /\ gof t = [] /\
    (f_leaf (getf s F) = false ->
     exists ch : nat -> sample,
       (forall i q, In (i, q) (f_w (getf s F)) ->
          In (ch i) (f_pts (getf s i)) /\ dict_eqb Nat.eqb (xof (ch i)) (xof t) = true) /\
       forall (E : ips) (rho : nat -> E), veq (wlin rho (f_w (getf s F)) (fun i => gof (ch i))) vzero).
Proof. exact (fun ops H => read_I4 (run ops) (inv_partial ops H)). Qed.

(** I5 — two points with the same decomposition are the same point: the lookup returns the first sample
    whose decomposition is equal (as a Python dict) and nothing else; it gives the same answer for equal
    decompositions; recorded decompositions are in normal form (pruned, unique keys) *)
Theorem C07_lookup_exact :
  forall pts x,
    match find_pt pts x with
    | Some (g, v) => exists x0, In (x0, g, v) pts /\ dict_eqb Nat.eqb x0 x = true
    | None => forall t, In t pts -> dict_eqb Nat.eqb (xof t) x = false
    end.
Proof. exact lookup_exact. Qed.

Theorem C07_equal_decompositions_same_point :
  forall ops, ops_ok ops = true -> let s := run ops in
  forall f p p', (f < nfun s)%nat -> NoDupKeys nat p -> NoDupKeys nat p' -> dict_eqb Nat.eqb p p' = true ->
    find_pt (f_pts (getf s f)) p = find_pt (f_pts (getf s f)) p' /\
    forall t, In t (f_pts (getf s f)) -> NoDup (keys (xof t)) /\ prune (xof t) = xof t.
Proof. exact (fun ops H => read_I5 (run ops) (inv_partial ops H)). Qed.

(** The lemma that makes the bookkeeping theorems apply to POINTS (vectors) and not only to dictionaries:
    for decompositions in pruned normal form (unique keys, no explicit zero) the comparison of raw
    dictionaries used by the lookup is equality of the two points as vectors, under every valuation of the
    leaf points in every inner-product space.  The normal form of recorded points is part of the invariant
    ([C07_equal_decompositions_same_point]); that of query points is [op_guard] in the model, and on the
    implementation it is CHECKED by the correspondence stream: every Point handed to oracle / gradient /
    value / add_point must have exactly the decomposition [pt t] of the term [t] the user wrote.  [+] and
    [-] always return normal forms ([C07_point_algebra_normal_form]); only a final scaling by 0 does not
    (F-C07b). *)
Theorem C07_lookup_is_vector_equality :
  forall a b : pdict, NoDupKeys nat a -> NoDupKeys nat b -> allnz nat a = true -> allnz nat b = true ->
    (dict_eqb Nat.eqb a b = true <-> forall (E : ips) (rho : nat -> E), veq (evalP rho a) (evalP rho b)).
Proof. exact lookup_is_vector_equality. Qed.

Theorem C07_point_algebra_normal_form :
  forall a b : pterm,
    allnz nat (pt (PAdd a b)) = true /\ allnz nat (pt (PSub a b)) = true /\
    NoDupKeys nat (pt (PAdd a b)) /\ NoDupKeys nat (pt (PSub a b)).
Proof. exact pt_normal_form. Qed.

Theorem C07_dict_equality_is_equivalence :
  forall a b c : pdict, NoDupKeys nat a -> NoDupKeys nat b -> NoDupKeys nat c ->
    dict_eqb Nat.eqb a a = true /\
    (dict_eqb Nat.eqb a b = true -> dict_eqb Nat.eqb b a = true) /\
    (dict_eqb Nat.eqb a b = true -> dict_eqb Nat.eqb b c = true -> dict_eqb Nat.eqb a c = true).
Proof.
  exact (fun a b c Na Nb Nc => conj (peqb_refl a Na) (conj (peqb_sym a b Na Nb) (peqb_trans a b c Na Nb Nc))).
Qed.

(** Leaves that are instances of the 24 shipped classes: the effective flag of [Cls(..., reuse_gradient=d)] is
    [leaf_reuse Cls d = class_forced Cls || d].  The specification [class_forced] agrees, class by class, with
    what the translator reads in the constructors of /repo on every run (Gen/Classes.v, fail-closed: a
    constructor that neither forces True nor forwards its argument is not translated and this file no longer
    compiles); the harness checks the same rule, and the behaviour "same gradient object iff the flag is True",
    on the real objects of all 24 classes. *)
Example C07_class_flags_agree_with_source :
  class_forced "BlockSmoothConvexFunction" = force_reuse_BlockSmoothConvexFunction /\
  class_forced "ConvexFunction" = force_reuse_ConvexFunction /\
  class_forced "ConvexIndicatorFunction" = force_reuse_ConvexIndicatorFunction /\
  class_forced "ConvexLipschitzFunction" = force_reuse_ConvexLipschitzFunction /\
  class_forced "ConvexQGFunction" = force_reuse_ConvexQGFunction /\
  class_forced "ConvexSupportFunction" = force_reuse_ConvexSupportFunction /\
  class_forced "RsiEbFunction" = force_reuse_RsiEbFunction /\
  class_forced "SmoothConvexFunction" = force_reuse_SmoothConvexFunction /\
  class_forced "SmoothConvexLipschitzFunction" = force_reuse_SmoothConvexLipschitzFunction /\
  class_forced "SmoothFunction" = force_reuse_SmoothFunction /\
  class_forced "SmoothStronglyConvexFunction" = force_reuse_SmoothStronglyConvexFunction /\
  class_forced "SmoothStronglyConvexQuadraticFunction" = force_reuse_SmoothStronglyConvexQuadraticFunction /\
  class_forced "StronglyConvexFunction" = force_reuse_StronglyConvexFunction /\
  class_forced "CocoerciveOperator" = force_reuse_CocoerciveOperator /\
  class_forced "CocoerciveStronglyMonotoneOperator" = force_reuse_CocoerciveStronglyMonotoneOperator /\
  class_forced "LinearOperator" = force_reuse_LinearOperator /\
  class_forced "LipschitzOperator" = force_reuse_LipschitzOperator /\
  class_forced "LipschitzStronglyMonotoneOperator" = force_reuse_LipschitzStronglyMonotoneOperator /\
  class_forced "MonotoneOperator" = force_reuse_MonotoneOperator /\
  class_forced "NegativelyComonotoneOperator" = force_reuse_NegativelyComonotoneOperator /\
  class_forced "NonexpansiveOperator" = force_reuse_NonexpansiveOperator /\
  class_forced "SkewSymmetricLinearOperator" = force_reuse_SkewSymmetricLinearOperator /\
  class_forced "StronglyMonotoneOperator" = force_reuse_StronglyMonotoneOperator /\
  class_forced "SymmetricLinearOperator" = force_reuse_SymmetricLinearOperator.
Proof. repeat split; reflexivity. Qed.

(** ... hence a leaf of a class that is differentiable by nature, or declared with reuse_gradient=True, has one
    gradient per point (I2 instantiated with the class rule); for the other declarations I1 still gives one
    value per point and a new subgradient may be returned. *)
Theorem C07_class_leaf_one_gradient :
  forall ops, ops_ok ops = true -> let s := run ops in
  forall (cls : string) (declared : bool) f t1 t2,
    (f < nfun s)%nat -> f_reuse (getf s f) = leaf_reuse cls declared ->
    class_forced cls = true \/ declared = true ->
    In t1 (f_pts (getf s f)) -> In t2 (f_pts (getf s f)) ->
    dict_eqb Nat.eqb (xof t1) (xof t2) = true ->
    forall (E : ips) (rho : nat -> E), veq (evalP rho (gof t1)) (evalP rho (gof t2)).
Proof. exact class_leaf_one_gradient. Qed.

(** I6 — a sum declared differentiable (reuse_gradient) only has differentiable terms.  (The flag is the
    conjunction over all operands of the construction, cancelled ones included, so a sum may be declared
    non-differentiable although its remaining terms are differentiable; the property allows that: "a
    non-differentiable one MAY return a new subgradient".) *)
Theorem C07_differentiable_sum_has_differentiable_terms :
  forall ops, ops_ok ops = true -> let s := run ops in
  forall F, (F < nfun s)%nat -> f_leaf (getf s F) = false -> f_reuse (getf s F) = true ->
    forall k q, In (k, q) (f_w (getf s F)) -> f_reuse (getf s k) = true.
Proof. exact (fun ops H => read_I6 (run ops) (inv_partial ops H)). Qed.

(** Non-vacuity: an accepted sequence with a differentiable and a non-differentiable leaf, the sum
    F = f0 + 2 f1 evaluated after one of its terms, re-evaluated (new subgradient, remainder rule on f1),
    a stationary point of F, a nested sum G = F/2 - f0 (weights {f0: -1/2, f1: 1}) evaluated where its terms
    already are: the guard holds, F has 4 samples (one stationary; the last query (x0 + P1) - P1 is recognised as x0), f1 has 7. *)
Definition x0 : pterm := PVar 0.
Definition ops_example : list op :=
  [NewPoint; NewLeaf true; NewLeaf false; Combine [(0%nat, 1%Q); (1%nat, 2%Q)];
   Oracle 1%nat x0; Oracle 2%nat x0; Gradient 2%nat x0; Stationary 2%nat;
   Combine [(2%nat, (1 # 2)%Q); (0%nat, (-1)%Q)]; Value 3%nat x0; Oracle 3%nat (PSub (PScal (SNum 2) (PVar 0)) (PVar 1));
   Oracle 2%nat (PSub (PAdd x0 (PVar 1)) (PVar 1)); Value 0%nat (PSub (PVar 2) (PSub (PVar 2) x0))].

Example C07_example :
  ops_ok ops_example = true /\ inv_b (run ops_example) = true /\
  let s := run ops_example in
  length (f_pts (getf s 2%nat)) = 4%nat /\ length (f_stat (getf s 2%nat)) = 1%nat /\
  length (f_pts (getf s 1%nat)) = 7%nat /\
  dict_eqb Nat.eqb (f_w (getf s 3%nat)) [(0%nat, (-1 # 2)%Q); (1%nat, 1%Q)] = true /\ f_reuse (getf s 3%nat) = false.
Proof. vm_compute. repeat split; reflexivity. Qed.

(** points that return to an earlier point have the earlier point's decomposition; without the normal form
    the raw comparison is NOT vector equality ({y: 0} vs {}) *)
Example C07_cancellation_returns_to_the_point :
  pt (PSub (PAdd (PVar 0) (PVar 1)) (PVar 1)) = pt (PVar 0) /\
  dict_eqb Nat.eqb (pt (PSub (PVar 1) (PSub (PVar 1) (PVar 0)))) (pt (PVar 0)) = true /\
  dict_eqb Nat.eqb (pt (PAdd (PAdd (PVar 0) (PScal (SNum 2) (PVar 1))) (PNeg (PScal (SNum 2) (PVar 1))))) (pt (PVar 0)) = true /\
  dict_eqb Nat.eqb (pt (PScal (SNum 0) (PVar 1))) [] = false.
Proof. vm_compute. repeat split; reflexivity. Qed.

(** the refuting sequences are well scoped but rejected by the guard *)
Example C07_refuting_sequences_rejected_by_guard :
  ops_ok ops_zero_scaling = false /\ ops_ok ops_all_cancel = false /\ ops_ok ops_zero_query = false /\
  ops_ok ops_ctor_zero_weight = false /\ inv_b (run ops_ctor_zero_weight) = false /\
  inv_b (run ops_zero_scaling) = false /\ inv_b (run ops_all_cancel) = false /\ inv_b (run ops_zero_query) = false.
Proof. vm_compute. repeat split; reflexivity. Qed.

(** REGRESSION (F-C07a, repaired by /repo 5162ea4): [f1.oracle(x); F = f1 + f2 - f2; F.oracle(x)].
    With the current construction ([__add__] prunes: F = {f1: 1}) both sequences are accepted by the guard
    and satisfy the invariant; with the OLD construction ([run_old]: merge without pruning, F = {f1: 1, f2: 0})
    the same sequences break it. *)
Example C07_regression_cancelled_weights :
  ops_ok ops_cancel_nondiff = true /\ inv_b (run ops_cancel_nondiff) = true /\
  ops_ok ops_cancel_diff = true /\ inv_b (run ops_cancel_diff) = true /\
  dict_eqb Nat.eqb (f_w (getf (run ops_cancel_diff) 2%nat)) [(0%nat, 1%Q)] = true /\
  inv_b (run_old ops_cancel_nondiff) = false /\ inv_b (run_old ops_cancel_diff) = false.
Proof. vm_compute. repeat split; reflexivity. Qed.

(** the operator tree is followed: a bare zero scaling keeps its zero, a later [+] prunes it *)
Example C07_construction :
  let s := run [NewLeaf true; NewLeaf false] in
  combine_weights s [(0%nat, 0%Q)] = [(0%nat, (0 * 1)%Q)] /\
  dict_eqb Nat.eqb (combine_weights s [(0%nat, 0%Q); (1%nat, 1%Q)]) [(1%nat, 1%Q)] = true /\
  combine_weights s [(0%nat, 1%Q); (0%nat, (-1)%Q)] = [] /\
  dict_eqb Nat.eqb (combine_weights s [(0%nat, 1%Q); (1%nat, 1%Q); (0%nat, (-1)%Q); (0%nat, 2%Q)])
                   [(1%nat, 1%Q); (0%nat, 2%Q)] = true.
Proof. vm_compute. repeat split; reflexivity. Qed.

Print Assumptions C07_inv_init.
Print Assumptions C07_inv_step.
Print Assumptions C07_inv_partial.
Print Assumptions C07_inv_b_sound.
Print Assumptions C07_inv_refuted_zero_scaling.
Print Assumptions C07_inv_refuted_zero_query.
Print Assumptions C07_inv_refuted_ctor_zero_weight.
Print Assumptions C07_inv_refuted_all_weights_cancel.
Print Assumptions C07_oracle_returns_recorded.
Print Assumptions C07_value_returns_recorded.
Print Assumptions C07_flat.
Print Assumptions C07_one_value_per_point.
Print Assumptions C07_one_gradient_if_differentiable.
Print Assumptions C07_composite_sample_is_weighted_sum.
Print Assumptions C07_stationary_zero_total_gradient.
Print Assumptions C07_lookup_exact.
Print Assumptions C07_equal_decompositions_same_point.
Print Assumptions C07_dict_equality_is_equivalence.
Print Assumptions C07_lookup_is_vector_equality.
Print Assumptions C07_point_algebra_normal_form.
Print Assumptions C07_differentiable_sum_has_differentiable_terms.
Print Assumptions C07_class_leaf_one_gradient.

(** ** STEP calls on leaf and composite functions
    The primitive steps (PEPit/primitive_steps) reach the bookkeeping only through [oracle], [value], [add_point]
    and fresh leaves.  Model/StepsFunc.v runs the step programs that translator/tr_steps.py regenerates from their
    sources (any program of that step language) over THIS model's state; every bookkeeping instruction is one
    op of the op language above with its side conditions ([C07_step_instruction_is_op]; the step hands over the
    dictionary of the point object it built, where the op carries the term), so the invariant is preserved by
    every step applied to any function, leaf or composite, under the guard [StepsFunc.ok_prog] = [op_scoped] and
    [op_guard] of each instruction evaluated along the execution.  Proofs/C08Composite.v; the instances for the
    8 generated programs and the examples on F = f0 + 2 f1 are in Props/C08.v. *)
From PV Require Model.StepsRT Model.StepsFunc Proofs.C08Composite.

Theorem C07_step_instruction_is_op :
  forall (a : StepsRT.args) (tp : nat -> pterm) (i : StepsRT.sinstr) (e : StepsRT.env) (s : state) (cs : StepsFunc.clog),
  (forall v, StepsRT.e_p e v = pt (tp v)) ->
  match C08Composite.op_of a tp e i with
  | Some o =>
      (exists e', StepsFunc.exec_s a i (e, (s, cs)) = inl (e', (step s o, cs))) /\
      StepsFunc.guard_s a i (e, (s, cs)) = (op_scoped s o && op_guard s o)%bool
  | None =>
      StepsFunc.guard_s a i (e, (s, cs)) = true /\
      match StepsFunc.exec_s a i (e, (s, cs)) with
      | inl (_, (s', _)) => s' = s
      | inr (_, (_, (s', _))) => s' = s
      end
  end.
Proof. exact C08Composite.exec_s_is_func_op. Qed.

Theorem C07_inv_step_program :
  forall (prog : StepsRT.program) (a : StepsRT.args) (s : state) (cs : StepsFunc.clog),
  inv s -> StepsFunc.ok_prog prog a (s, cs) = true -> inv (StepsFunc.run_state prog a (s, cs)).
Proof. exact C08Composite.run_inv_steps. Qed.

(** oracle / gradient / value / stationary-point / fixed-point / add_point calls in any order, THEN a step *)
Theorem C07_inv_ops_then_step_program :
  forall (ops : list op) (prog : StepsRT.program) (a : StepsRT.args) (cs : StepsFunc.clog),
  ops_ok ops = true -> StepsFunc.ok_prog prog a (run ops, cs) = true ->
  inv (StepsFunc.run_state prog a (run ops, cs)).
Proof. exact C08Composite.run_inv_steps_after_ops. Qed.

(** ... and any further ops after the step (the invariant is all [C07_inv_step] needs) *)
Theorem C07_inv_step_program_then_ops :
  forall (prog : StepsRT.program) (a : StepsRT.args) (s : state) (cs : StepsFunc.clog) (ops : list op),
  inv s -> StepsFunc.ok_prog prog a (s, cs) = true ->
  run_ok (StepsFunc.run_state prog a (s, cs)) ops = true ->
  inv (fold_left step ops (StepsFunc.run_state prog a (s, cs))).
Proof. exact (fun prog a s cs ops Hinv Hok => run_inv ops _ (C08Composite.run_inv_steps prog a s cs Hinv Hok)). Qed.

(** I3 after a step: every sample of every composite is the weighted sum of samples of its terms at that point *)
Theorem C07_step_program_composite_sample_is_weighted_sum :
  forall (prog : StepsRT.program) (a : StepsRT.args) (s : state) (cs : StepsFunc.clog),
  inv s -> StepsFunc.ok_prog prog a (s, cs) = true ->
  let s' := StepsFunc.run_state prog a (s, cs) in
  forall F t, (F < nfun s)%nat -> f_leaf (getf s F) = false -> In t (f_pts (getf s' F)) ->
    exists ch : nat -> sample,
      (forall i q, In (i, q) (f_w (getf s' F)) ->
         In (ch i) (f_pts (getf s' i)) /\ dict_eqb Nat.eqb (xof (ch i)) (xof t) = true) /\
      forall (E : ips) (rho : nat -> E) (phi : nat -> R),
        veq (evalP rho (gof t)) (wlin rho (f_w (getf s' F)) (fun i => gof (ch i))) /\
        evalE rho phi (vof t) = wsum rho phi (f_w (getf s' F)) (fun i => vof (ch i)).
Proof. exact C08Composite.run_composite_samples. Qed.

(** non-vacuity: a hand-written proximal-step program (x = x0 - gx/2; F.add_point((x, gx, fx))) on F = f0 + 2 f1
    after the sequence [ops_example] above (F is function 2, evaluated three times, one stationary point) *)
Example C07_step_program_example :
  let prog := [StepsRT.I (StepsRT.FreshPoint 1); StepsRT.I (StepsRT.FreshExpr 0);
               StepsRT.I (StepsRT.LetP 2 (PSub (PVar 0) (PScal (SPar 0) (PVar 1))));
               StepsRT.I (StepsRT.AddPoint 0 2 1 0); StepsRT.Return [StepsRT.RetP 2; StepsRT.RetP 1; StepsRT.RetX 0]] in
  let a := StepsRT.mk_args [[(0%nat, 1%Q)]] [2%nat] [(1 # 2)%Q] [] in
  ops_ok ops_example = true /\ StepsFunc.ok_prog prog a (run ops_example, []) = true /\
  inv_b (StepsFunc.run_state prog a (run ops_example, [])) = true /\
  length (f_pts (getf (StepsFunc.run_state prog a (run ops_example, [])) 2%nat)) = 5%nat.
Proof. vm_compute. repeat split; reflexivity. Qed.

Print Assumptions C07_step_instruction_is_op.
Print Assumptions C07_inv_step_program.
Print Assumptions C07_inv_ops_then_step_program.
Print Assumptions C07_inv_step_program_then_ops.
Print Assumptions C07_step_program_composite_sample_is_weighted_sum.
