(** C02 — primal output is a feasible, self-consistent worst-case instance.
    Property theorems only; proofs live in Proofs/C02Vec.v, C02Cache.v, C02Main.v.
    Model: Model/Eval.v (the four [eval] methods with their caches, leaf assignment). *)
From Coq Require Import List QArith Reals Qreals Lra.
From PV Require Import Base.IPS Model.Dict Model.Terms Model.Dump Model.Eval Model.Resolve Spec.Sem Spec.GramSem
  Proofs.DictLemmas Proofs.C02Vec Proofs.C02Cache Proofs.C02Main Proofs.C02Factor Proofs.C02FactorReading.
From PV Require Spec.KKT.
From PV Require Import Model.FactorPlan Gen.Factor.
Import ListNotations.
Local Open Scope R_scope.

(** For every store, every object [r] whose caches (its own and those of the expressions it refers
    to) are empty or coherent with the current leaf values, every assignment of leaf values in which
    all assigned leaf points have [n] coordinates: whatever [eval] returns is the same linear /
    bilinear combination of the values of the operands, read in the inner-product space R^n
    ([means]: evalP for points -- coordinate by coordinate, and [n] coordinates unless the combination
    is empty --, evalE for expressions / constraints / every LMI entry).  Objects built after the solve
    are just more entries of the store.  Since the repair e997f00 there is NO guard on the class
    counter: leaf points created after the solve do not matter. *)
Theorem C02_eval_hom :
  forall n st r o st' v,
    solved n st -> get_obj st r = Some o -> good (length (lpv st)) st r ->
    eval_obj st r = (st', Ok v) -> means n st (okind_of o) v.
Proof. exact eval_hom. Qed.

(** ... and it does return a value as soon as every leaf the object mentions has one. *)
Theorem C02_eval_total :
  forall n st r o,
    solved n st -> get_obj st r = Some o -> good (length (lpv st)) st r ->
    assigned st (okind_of o) -> exists v, snd (eval_obj st r) = Ok v.
Proof. exact eval_total. Qed.

(** empty caches are coherent with any leaf values *)
Theorem C02_clean_is_good : forall m st r, clean st r -> good m st r.
Proof. exact clean_good. Qed.

(** evaluation never touches leaf values, kinds or duals, and keeps coherent objects coherent *)
Theorem C02_eval_frame : forall st r st' x, eval_obj st r = (st', x) -> frame st st'.
Proof. exact eval_obj_frame. Qed.

(** F-C02b (the narrow remainder of F-C02a): the EMPTY combination ([x - x], ...) evaluates to
    [np.zeros(Point.counter)] with the CURRENT class counter ... *)
Theorem C02_empty_point_value :
  forall st r o st' x,
    get_obj st r = Some o -> okind_of o = KPoint [] -> ocache o = None ->
    eval_obj st r = (st', x) -> x = Ok (VVec (repeat 0%Q (length (lpv st)))).
Proof. exact empty_point_value. Qed.

(** ... so that, on a reachable state (solve with 2 leaf points, then one more leaf point), it has 3
    coordinates while [x0 - x1], not evaluated before either, has the 2 coordinates of the instance
    (and no error: the trigger of the repaired F-C02a). *)
Theorem C02_empty_point_length_refuted :
  let st := es (final c02b_prog) in
  solved 2 st /\ clean st 0 /\ clean st 1
  /\ snd (eval_obj st 1) = Ok (VVec [1%Q; (-1)%Q])
  /\ snd (eval_obj st 0) = Ok (VVec [0%Q; 0%Q; 0%Q]).
Proof. exact empty_point_length_refuted. Qed.

(** Regression Example about the OLD formula (before e997f00; [old_point_compute] is NOT the model): it
    raised on the state on which the repaired evaluation returns the combination. *)
Example C02_old_formula_regression :
  let st := es (final c02b_prog) in
  old_point_compute st [(0%nat, 1%Q); (1%nat, (-1)%Q)] = Raise EShape
  /\ point_compute (length (lpv st)) st [(0%nat, 1%Q); (1%nat, (-1)%Q)] = Ok [1%Q; (-1)%Q].
Proof. split; vm_compute; reflexivity. Qed.

(** If the leaf vectors reproduce [Gp] (the PSD projection of the solver's Gram matrix: numpy's
    eigh / clipping / QR are trusted for this and MEASURED by the harness on every solve), every
    dictionary has at the returned instance exactly the value the solver saw at (Gp, F). *)
Theorem C02_gram_reading :
  forall n st (Gp : nat -> nat -> R),
    (forall i j, inner (rho_of n st i) (rho_of n st j) = Gp i j) ->
    forall d, evalE (rho_of n st) (phi_of st) d = evalGF Gp (phi_of st) d.
Proof. exact gram_reading. Qed.

Theorem C02_gram_reading_holds :
  forall n st Gp c,
    (forall i j, inner (rho_of n st i) (rho_of n st j) = Gp i j) ->
    (holds (rho_of n st) (phi_of st) c <-> holdsGF Gp (phi_of st) c).
Proof. exact gram_reading_holds. Qed.

(** Model with metric rows [tau - m_k <= 0] (k = 0..K, at least one), [tau] = a leaf nothing else
    mentions (it is created after everything it is compared with), any other scalar constraints and
    LMIs: at a point that is optimal among the points differing from it in [tau] only, [tau] is the
    smallest metric.  (Optimality is a hypothesis about the solver.) *)
Theorem C02_objective_is_min :
  forall (G : nat -> nat -> R) (o : nat) (m0 : edict) (ms : list edict) (others : list (edict * sense))
         (lmis : list (list (list edict))) (PsdM : list (list R) -> Prop),
    (forall m, In m (m0 :: ms) -> nokey o m /\ NoDupKeys ekey m) ->
    (forall c, In c others -> nokey o (fst c)) ->
    (forall M row d, In M lmis -> In row M -> In d row -> nokey o d) ->
    forall F,
      feasible G o m0 ms others lmis PsdM F ->
      (forall F', (forall e, e <> o -> F' e = F e) -> feasible G o m0 ms others lmis PsdM F' -> F' o <= F o) ->
      F o = minl (evalGF G F m0) (map (evalGF G F) ms).
Proof. exact objective_is_min. Qed.

(** [_eval_points_and_function_values]: leaf point i gets column i of [points_values], leaf expression
    i gets entry i of [F_value] -- total on the registries, the index map is the identity (injective);
    no cache, kind or dual is touched; every vector has as many coordinates as the matrix has rows;
    the second pass over the PEP-level LMIs re-writes the same entries. *)
Theorem C02_leaf_assignment :
  forall st Pm Fv,
    let st' := assign_solution st Pm Fv in
    objs st' = objs st
    /\ length (lpv st') = length (lpv st) /\ length (lev st') = length (lev st)
    /\ (forall i, (i < length (lpv st))%nat -> leafP st' i = Ok (column Pm i))
    /\ (forall i, (i < length (lev st))%nat -> leafE st' i = Ok (nth i Fv 0%Q))
    /\ solved (length Pm) st'.
Proof. exact leaf_assignment. Qed.

Theorem C02_leaf_reassignment_idempotent :
  forall st Pm Fv i j,
    let st' := assign_solution st Pm Fv in
    (i < length (lpv st))%nat -> (j < length (lev st))%nat ->
    reassign_leafP st' Pm i = st' /\ reassign_leafE st' Fv j = st'.
Proof. exact reassign_idempotent. Qed.

(** the list dot product the model computes with is bilinear and symmetric *)
Theorem C02_dot_bilinear :
  (forall a b, (dotl a b == dotl b a)%Q)
  /\ (forall a b c, length a = length b -> length a = length c -> (dotl (zipadd a b) c == dotl a c + dotl b c)%Q)
  /\ (forall w a c, (dotl (vscale w a) c == w * dotl a c)%Q).
Proof. exact (conj dotl_sym (conj dotl_zipadd_l dotl_vscale_l)). Qed.

(** Non-vacuity: two leaf points, one leaf expression, d = x0 - x1 and e = |x0 - x1|^2 - 3 f0 built
    AFTER an injected solve; the hypotheses of C02_eval_hom hold and the values are (1,-1) and -1. *)
Definition c02_ex : list op :=
  [NewLeafP; NewLeafP; NewLeafE; AddMetric (ELeaf 0);
   Solve (Some (mkSol [[1%Q; 0%Q]; [0%Q; 1%Q]] [1%Q; 1%Q] [VNum 1%Q]));
   MkPoint [(0%nat, 1%Q); (1%nat, (-1)%Q)];
   MkExpr [(KG 0 0, 1%Q); (KG 0 1, (-2)%Q); (KG 1 1, 1%Q); (KF 0, (-3)%Q)]].
Example C02_example :
  let st := es (final c02_ex) in
  clean st 2 /\ clean st 3 /\ length (lpv st) = 2%nat
  /\ snd (eval_obj st 2) = Ok (VVec [1%Q; (-1)%Q])
  /\ exists q, snd (eval_obj st 3) = Ok (VNum q) /\ (q == -1)%Q.
Proof.
  cbv zeta. split; [|split; [|split; [|split]]].
  - intros o. vm_compute. intros [= <-]. split; [reflexivity|intros r' []].
  - intros o. vm_compute. intros [= <-]. split; [reflexivity|intros r' []].
  - vm_compute. reflexivity.
  - vm_compute. reflexivity.
  - eexists. split; [vm_compute; reflexivity|]. reflexivity.
Qed.

(** The factorisation of pep.py (_eval_points_and_function_values): eigh, clipping, sqrt, QR.  From the
    SPECIFICATIONS of numpy's eigh (V^T V = I, G = V diag(lam) V^T) and qr (M = Q R, Q^T Q = I) -- the routines
    themselves stay trusted and are measured -- for every size n: the columns of [points_values] = R have the
    inner products of Gp = V diag(max(lam,0)) V^T; Gp is PSD; Gp = G when no eigenvalue is negative; G - Gp is
    the negative spectral part, entry-wise at most eps * sum_k |V_ik V_jk| when every eigenvalue is >= -eps. *)
Theorem C02_factor_reproduces_projection :
  forall n G lam V Qm Rm,
    eigh_spec n G lam V -> qr_spec n (scaled_T lam V) Qm Rm ->
    forall i j, (i < n)%nat -> (j < n)%nat ->
      KKT.sumn n (fun b => Rm b i * Rm b j) = proj n lam V i j.
Proof. exact factor_reproduces_projection. Qed.

Theorem C02_projection_psd : forall n lam V, KKT.psd_qf n (proj n lam V).
Proof. exact projection_psd. Qed.

Theorem C02_projection_is_identity_on_psd :
  forall n G lam V, eigh_spec n G lam V -> (forall k, (k < n)%nat -> 0 <= lam k) ->
    forall i j, (i < n)%nat -> (j < n)%nat -> proj n lam V i j = G i j.
Proof. exact projection_is_identity_on_psd. Qed.

Theorem C02_projection_error_bound :
  forall n G lam V eps, eigh_spec n G lam V -> 0 <= eps -> (forall k, (k < n)%nat -> - eps <= lam k) ->
    forall i j, (i < n)%nat -> (j < n)%nat ->
      Rabs (G i j - proj n lam V i j) <= eps * KKT.sumn n (fun k => Rabs (V i k * V j k)).
Proof. exact projection_error_bound. Qed.

(** Composition with the Gram reading: when the coordinates of the evaluated leaf points are the columns of that R
    factor (what the leaf assignment gives), every dictionary over the n leaf points has at the returned instance
    exactly the value the solver saw at the PSD projection of its Gram matrix -- at the Gram matrix itself when it has
    no negative eigenvalue.  No hypothesis about numpy is left except the specifications of eigh and qr. *)
Theorem C02_instance_reads_projection :
  forall n st G lam V Qm Rm,
    eigh_spec n G lam V -> qr_spec n (scaled_T lam V) Qm Rm ->
    (forall k b, (k < n)%nat -> (b < n)%nat -> (rho_of n st k : nat -> R) b = Rm b k) ->
    forall d, keys_below n d ->
      evalE (rho_of n st) (phi_of st) d = evalGF (proj n lam V) (phi_of st) d.
Proof. exact instance_reads_projection. Qed.

Theorem C02_instance_reads_gram :
  forall n st G lam V Qm Rm,
    eigh_spec n G lam V -> qr_spec n (scaled_T lam V) Qm Rm ->
    (forall k, (k < n)%nat -> 0 <= lam k) ->
    (forall k b, (k < n)%nat -> (b < n)%nat -> (rho_of n st k : nat -> R) b = Rm b k) ->
    forall d, keys_below n d ->
      evalE (rho_of n st) (phi_of st) d = evalGF G (phi_of st) d.
Proof. exact instance_reads_gram. Qed.

(** Tie of the factorisation theorems to the source: the plan REGENERATED from pep.py on every run is eigh, clipping
    of the negative eigenvalues, QR of (sqrt(eig_val) * eig_vec)^T keeping R -- what [eigh_spec] / [scaled_T] /
    [qr_spec] formalise -- and every leaf value assigned afterwards is column x.counter of that R (points) or
    entry x.counter of F (expressions), nothing else. *)
Theorem C02_factor_plan_modelled :
  factor_plan_ok factor_plan = true /\ value_assignments_ok value_assignments = true.
Proof. split; vm_compute; reflexivity. Qed.

Example C02_factor_example :
  eigh_spec 2 ex_G ex_lam delta /\ qr_spec 2 (scaled_T ex_lam delta) delta (scaled_T ex_lam delta)
  /\ proj 2 ex_lam delta 1 1 = 0 /\ ex_G 1%nat 1%nat = -1.
Proof. split; [exact ex_eigh|]. split; [exact ex_qr|exact ex_projection_differs]. Qed.

Print Assumptions C02_eval_hom.
Print Assumptions C02_eval_total.
Print Assumptions C02_clean_is_good.
Print Assumptions C02_eval_frame.
Print Assumptions C02_empty_point_value.
Print Assumptions C02_empty_point_length_refuted.
Print Assumptions C02_gram_reading.
Print Assumptions C02_gram_reading_holds.
Print Assumptions C02_objective_is_min.
Print Assumptions C02_leaf_assignment.
Print Assumptions C02_leaf_reassignment_idempotent.
Print Assumptions C02_dot_bilinear.
Print Assumptions C02_factor_reproduces_projection.
Print Assumptions C02_projection_psd.
Print Assumptions C02_projection_is_identity_on_psd.
Print Assumptions C02_projection_error_bound.
Print Assumptions C02_factor_plan_modelled.
Print Assumptions C02_instance_reads_projection.
Print Assumptions C02_instance_reads_gram.
