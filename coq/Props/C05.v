(** C05 — the problem handed to the solver is exactly the declared model.
    Property theorems only; proofs live in Proofs/C05Lemmas.v (numeric data) and Proofs/C05Collect.v
    (collection order, on the plan GENERATED from PEP._solve_with_wrapper).  Specifications:
    Proofs/C05Spec.v ([dense_val], [sparse_val], [expected_sent], ...), Spec/GramSem.v ([evalGF]). *)
From Coq Require Import List QArith Reals Qreals Lra Bool Arith.
From PV Require Import Model.Dict Model.Terms Model.Sent Model.Matrices Model.Collect Gen.SolvePlan
     Spec.GramSem Proofs.DictLemmas Proofs.C05Spec Proofs.C05Lemmas Proofs.C05Collect.
From PV Require Model.Mosek Proofs.C11Run Proofs.C11Sem.
Import ListNotations.
Local Open Scope R_scope.

(** Dense data (cvxpy back-end).  For every expression (leaf or composite: any dictionary with distinct
    keys — repeated / mirrored / diagonal inner-product keys, zero weights, constants are all just
    dictionaries), every symmetric G and every F: <Gweights, G> + Fweights . F + cons is the value of
    the expression.  [in_bounds] is "no IndexError" (all counters below Point.counter / Expression.counter). *)
Theorem C05_dense :
  forall (G : nat -> nat -> R) (F : nat -> R) (n m : nat) (x : expr),
    symG G -> NoDupKeys ekey (dict_of x) -> in_bounds n m x = true ->
    dense_val G F n m (expression_to_matrices x) = evalGF G F (dict_of x).
Proof. exact dense_correct. Qed.

(** Sparse data (MOSEK back-end), read with MOSEK's symmetric-storage convention for lower-triangular
    triples ([tri_val]): same value, for every expression, every symmetric G and every F. *)
Theorem C05_sparse :
  forall (G : nat -> nat -> R) (F : nat -> R) (x : expr),
    symG G -> NoDupKeys ekey (dict_of x) ->
    sparse_val G F (expression_to_sparse_matrices x) = evalGF G F (dict_of x).
Proof. exact sparse_correct. Qed.

(** ... and every emitted triple is lower-triangular (what MOSEK requires), for every dictionary. *)
Theorem C05_sparse_lower :
  forall x : expr, lower_triangular (expression_to_sparse_matrices x).
Proof. exact sparse_lower. Qed.

(** Both encodings denote the same affine functional of (G, F). *)
Theorem C05_dense_sparse_agree :
  forall (G : nat -> nat -> R) (F : nat -> R) (n m : nat) (x : expr),
    symG G -> NoDupKeys ekey (dict_of x) -> in_bounds n m x = true ->
    dense_val G F n m (expression_to_matrices x) = sparse_val G F (expression_to_sparse_matrices x).
Proof. exact dense_sparse_agree. Qed.

(** Collection.  Interpreting the plan generated from the current source of _solve_with_wrapper, for
    every declared model (any number of metrics, constraints, LMIs, functions leaf or not, partitions;
    arbitrary stale content of the class / partition / tracking lists): what the wrapper has received
    when generate_problem is called is, in this order,
      [objective <= metric | metrics] ++ pep constraints ++ pep LMIs
      ++ for each leaf function (class constraints ++ class LMIs)            (those generated at THIS solve)
      ++ for each function with own constraints or LMIs (constraints ++ LMIs)
      ++ for each partition its constraints,
    the two tracking lists are the scalar / LMI projections of that sequence, the maximised leaf is the
    fresh objective leaf, and F was dimensioned after every leaf had been created. *)
(** Declaration copies.  The declared model is a value ([model]: functional lists of dictionaries): an LMI is the
    matrix of dictionaries its entries had WHEN add_psd_matrix WAS CALLED, so a later mutation of the caller's
    container (an ndarray buffer overwritten or re-used for another declaration, a nested list modified in place)
    cannot change [m], hence not what [collect] sends.  Nothing in Model/Collect.v is needed for that; the tie is
    the collect stream, whose programs declare LMIs from nested lists / tuples / object ndarrays, overwrite and
    re-use those containers afterwards, and compare what reaches the recording wrapper with the entries
    snapshotted at declaration time (harness/p_c05.py [declare_lmi]).  Scalar constraints are single objects
    (no caller-owned container is retained), so the question only arises for LMIs. *)
Theorem C05_collect :
  forall m : model, collect solve_plan m = Some (expected_result m).
Proof. exact collect_correct. Qed.

(** Hence every declared item reaches the solver with exactly its declared multiplicity (and sense:
    items carry their sense), and nothing else does: for any item x and any equality test, the number
    of occurrences of x in what was sent is the sum of its numbers of occurrences in the sources. *)
Theorem C05_multiplicity :
  forall (m : model) (r : result),
    collect solve_plan m = Some r ->
    forall (eqb : item -> item -> bool) (x : item),
      count_item eqb x (r_sent r)
      = (count_item eqb x (map (metric_row (m_expr_ctr m)) (m_metrics m))
         + count_item eqb x (map sc (m_cons m))
         + count_item eqb x (map LMI (m_psd m))
         + list_sum (map (fun f => count_item eqb x (map sc (f_class_cons f))
                                   + count_item eqb x (map LMI (f_class_psd f)))
                         (filter f_is_leaf (m_funcs m)))
         + list_sum (map (fun f => count_item eqb x (map sc (f_cons f)) + count_item eqb x (map LMI (f_psd f)))
                         (filter has_own (m_funcs m)))
         + list_sum (map (fun p => count_item eqb x (map sc (p_cons p))) (m_parts m)))%nat.
Proof. exact multiplicity. Qed.

(** The row sent for a metric means  objective - metric <= 0  (Gram reading, objective = leaf tau). *)
Theorem C05_metric_row :
  forall (G : nat -> nat -> R) (F : nat -> R) (tau : nat) (e : edict),
    NoDupKeys ekey e ->
    (holdsGF G F (c_le [(KF tau, 1%Q)] e) <-> F tau - evalGF G F e <= 0).
Proof. exact metric_row_holds. Qed.

(** ... so, at fixed values m0, m1, ... of the (at least one) metrics, the largest feasible value of the
    objective is their minimum: the minimum is feasible and bounds every feasible value. *)
Theorem C05_max_min :
  forall (m0 : R) (ms : list R),
    Forall (fun mk => min_list m0 ms - mk <= 0) (m0 :: ms)
    /\ (forall tau, Forall (fun mk => tau - mk <= 0) (m0 :: ms) -> tau <= min_list m0 ms).
Proof. exact max_min. Qed.

(* ------------------------------------------------------------------ non-vacuity *)
(** 3<x0,x1> + <x1,x0> + 2|x0|^2 + 5<x2,x0> + f0/2 + 7  (mirrored pair, diagonal key, unmirrored key,
    leaf value, constant): the model's output is the one the real functions print; the hypotheses of the
    theorems hold for it, on a symmetric G that is not a constant. *)
Definition ex_dict : edict :=
  [(KG 0 1, 3 # 1); (KG 1 0, 1 # 1); (KG 0 0, 2 # 1); (KG 2 0, 5 # 1); (KF 0, 1 # 2); (K1, 7 # 1)]%Q.

Example C05_example_data :
  Model.Dump.D_eqb
    (dump_matrices 3 1 (EComp ex_dict))
    (Model.Dump.DL
       [Model.Dump.DL
          [Model.Dump.DL [Model.Dump.DL [Model.Dump.DQ 2; Model.Dump.DQ 2; Model.Dump.DQ (5 # 2)];
                          Model.Dump.DL [Model.Dump.DQ 2; Model.Dump.DQ 0; Model.Dump.DQ 0];
                          Model.Dump.DL [Model.Dump.DQ (5 # 2); Model.Dump.DQ 0; Model.Dump.DQ 0]];
           Model.Dump.DL [Model.Dump.DQ (1 # 2)]; Model.Dump.DQ 7];
        Model.Dump.DL
          [Model.Dump.DL [Model.Dump.DL [Model.Dump.DZ 1; Model.Dump.DZ 0; Model.Dump.DQ 2];
                          Model.Dump.DL [Model.Dump.DZ 0; Model.Dump.DZ 0; Model.Dump.DQ 2];
                          Model.Dump.DL [Model.Dump.DZ 2; Model.Dump.DZ 0; Model.Dump.DQ (5 # 2)]];
           Model.Dump.DL [Model.Dump.DL [Model.Dump.DZ 0; Model.Dump.DQ (1 # 2)]]; Model.Dump.DQ 7]])%Q
  = true.
Proof. vm_compute. reflexivity. Qed.

Example C05_example_hypotheses :
  NoDupKeys ekey (dict_of (EComp ex_dict)) /\ in_bounds 3 1 (EComp ex_dict) = true
  /\ symG (fun i j => INR i * INR j + INR (i + j)).
Proof.
  split; [|split].
  - unfold NoDupKeys, ex_dict. cbn. repeat constructor; cbn; intuition discriminate.
  - vm_compute. reflexivity.
  - intros i j. rewrite (Nat.add_comm i j). lra.
Qed.

(** a model with two metrics, a leaf function with a class LMI and stale class constraints, a composite
    function with an own constraint, a partition: collect on the generated plan succeeds and sends 7 items *)
Definition ex_model : model :=
  mkModel [[(KF 0, 1)]; [(KG 0 0, 2)]]%Q [([(KG 1 1, 1); (K1, -1 # 1)], Ineq)]%Q []
          [mkFunc 0 true [([(K1, 5)], Ineq)]%Q [] [([(KG 0 1, 1)], Ineq)]%Q [[[[(KG 0 0, 1)]]]]%Q 1 [] [];
           mkFunc 1 false [] [] [] [] 0 [([(KF 0, 1)], Equ)]%Q []]
          [mkPart 0 [] [([(KG 2 3, 1)], Equ)]%Q] 3 [([], Equ)] [].

Example C05_example_collect :
  match collect solve_plan ex_model with
  | Some r => (length (r_sent r), length (r_track_cons r), length (r_track_psd r), r_objective r, r_fdim r)
              = (7, 6, 1, 3, 5)%nat
  | None => False
  end.
Proof. vm_compute. reflexivity. Qed.

(** The MOSEK back-end ("in either back-end"): the sequence of Task calls the model of mosek_wrapper.py issues for ANY
    declared model denotes, under the API semantics of Model/Mosek.v, exactly the declared SDP -- every scalar row in its
    own row (LMI entry rows counted), every LMI coupled entry by entry to the matrix variable appended for it -- and
    its rows hold iff every declared constraint holds in the Gram reading.  (These are C11's theorems; they are
    restated here because C05's stream `mosek-call-log` ties the same model to the real wrapper.) *)
Theorem C05_mosek_task_is_declared_sdp :
  forall (l : Model.Sent.sent) (pc ec obj : nat),
    Model.Mosek.guard l pc ec obj = true ->
    Model.Mosek.task_denote (Model.Mosek.emit l pc ec obj) = Some (Model.Mosek.sdp_of l pc ec obj).
Proof. exact Proofs.C11Run.same_sdp. Qed.

Theorem C05_mosek_rows_meaning :
  forall (x : nat -> R) (X : nat -> nat -> nat -> R), (forall j, Spec.GramSem.symG (X j)) ->
  forall (l : Model.Sent.sent) (kb : nat), Proofs.C11Sem.wfR l ->
    (Forall (Proofs.C11Sem.row_holds x X) (Model.Mosek.rows_of kb l) <-> Proofs.C11Sem.sat_items x X kb l).
Proof. exact Proofs.C11Sem.rows_meaning. Qed.

Print Assumptions C05_dense.
Print Assumptions C05_sparse.
Print Assumptions C05_sparse_lower.
Print Assumptions C05_dense_sparse_agree.
Print Assumptions C05_collect.
Print Assumptions C05_multiplicity.
Print Assumptions C05_metric_row.
Print Assumptions C05_max_min.
Print Assumptions C05_mosek_task_is_declared_sdp.
Print Assumptions C05_mosek_rows_meaning.
