(** Meaning of coefficient dictionaries ([evalP], [evalE]) and of DSL trees ([denoteP], [denoteX],
    [denoteC]) in an arbitrary real inner-product space.  These are specifications (short, read
    them): a dictionary means the linear / bilinear combination of its leaves; a tree means what its
    operators mean in mathematics. *)
From Coq Require Import List QArith Reals Qreals.
From PV Require Import Base.IPS Model.Dict Model.Terms.
Import ListNotations.
Local Open Scope R_scope.

Section Sem.
  Context {E : ips}.
  Variable rho : nat -> E.          (* value of each leaf point *)
  Variable phi : nat -> R.          (* value of each leaf expression *)

  Fixpoint evalP (d : pdict) : E :=
    match d with
    | [] => vzero
    | (k, q) :: d' => vadd (vscal (Q2R q) (rho k)) (evalP d')
    end.

  Definition evalK (k : ekey) : R :=
    match k with
    | KF e => phi e
    | KG i j => inner (rho i) (rho j)
    | K1 => 1
    end.

  Fixpoint evalE (d : edict) : R :=
    match d with
    | [] => 0
    | (k, q) :: d' => Q2R q * evalK k + evalE d'
    end.

  (** A constraint object holds at a valuation. *)
  Definition holds (c : edict * sense) : Prop :=
    match snd c with
    | Ineq => evalE (fst c) <= 0
    | Equ => evalE (fst c) = 0
    end.
End Sem.

Section Denote.
  Context {E : ips}.
  Variable penvR : nat -> R.
  Variable up : nat -> E.           (* value of each point variable *)
  Variable ux : nat -> R.           (* value of each expression variable *)

  Fixpoint sdenote (s : sterm) : R :=
    match s with
    | SNum q => Q2R q
    | SPar p => penvR p
    | SAdd a b => sdenote a + sdenote b
    | SSub a b => sdenote a - sdenote b
    | SMul a b => sdenote a * sdenote b
    | SDiv a b => sdenote a / sdenote b
    | SNeg a => - sdenote a
    | SPow a n => sdenote a ^ n
    end.

  (** no division by zero anywhere in the scalar term (Python would raise ZeroDivisionError) *)
  Fixpoint sdef (s : sterm) : Prop :=
    match s with
    | SNum _ | SPar _ => True
    | SAdd a b | SSub a b | SMul a b => sdef a /\ sdef b
    | SDiv a b => sdef a /\ sdef b /\ sdenote b <> 0
    | SNeg a | SPow a _ => sdef a
    end.

  Fixpoint denoteP (t : pterm) : E :=
    match t with
    | PVar v => up v
    | PAdd a b => vadd (denoteP a) (denoteP b)
    | PSub a b => vsub (denoteP a) (denoteP b)
    | PNeg a => vneg (denoteP a)
    | PScal s a => vscal (sdenote s) (denoteP a)
    | PDiv a s => vscal (1 / sdenote s) (denoteP a)
    end.

  Fixpoint pdef (t : pterm) : Prop :=
    match t with
    | PVar _ => True
    | PAdd a b | PSub a b => pdef a /\ pdef b
    | PNeg a => pdef a
    | PScal s a => sdef s /\ pdef a
    | PDiv a s => pdef a /\ sdef s /\ sdenote s <> 0
    end.

  Fixpoint denoteX (t : xterm) : R :=
    match t with
    | XVar v => ux v
    | XInner a b => inner (denoteP a) (denoteP b)
    | XSq a => inner (denoteP a) (denoteP a)
    | XAdd a b => denoteX a + denoteX b
    | XAddS a s => denoteX a + sdenote s
    | XSub a b => denoteX a - denoteX b
    | XSubS a s => denoteX a - sdenote s
    | XSSub s a => sdenote s - denoteX a
    | XNeg a => - denoteX a
    | XScal s a => sdenote s * denoteX a
    | XDiv a s => denoteX a / sdenote s
    end.

  Fixpoint xdef (t : xterm) : Prop :=
    match t with
    | XVar _ => True
    | XInner a b => pdef a /\ pdef b
    | XSq a => pdef a
    | XAdd a b | XSub a b => xdef a /\ xdef b
    | XAddS a s | XSubS a s | XSSub s a | XScal s a => xdef a /\ sdef s
    | XNeg a => xdef a
    | XDiv a s => xdef a /\ sdef s /\ sdenote s <> 0
    end.

  (** What the comparison written in the source means. *)
  Definition denoteC (t : cterm) : Prop :=
    match t with
    | CLe a b => denoteX a <= denoteX b
    | CGe a b => denoteX a >= denoteX b
    | CEq a b => denoteX a = denoteX b
    | CLeS a s => denoteX a <= sdenote s
    | CGeS a s => denoteX a >= sdenote s
    | CEqS a s => denoteX a = sdenote s
    | CSLe s a => sdenote s <= denoteX a
    | CSGe s a => sdenote s >= denoteX a
    | CSEq s a => sdenote s = denoteX a
    end.

  Definition cdef (t : cterm) : Prop :=
    match t with
    | CLe a b | CGe a b | CEq a b => xdef a /\ xdef b
    | CLeS a s | CGeS a s | CEqS a s | CSLe s a | CSGe s a | CSEq s a => xdef a /\ sdef s
    end.

  (** left-minus-right and sense, as written *)
  Definition lhs_minus_rhs (t : cterm) : R * sense :=
    match t with
    | CLe a b => (denoteX a - denoteX b, Ineq)
    | CGe a b => (denoteX b - denoteX a, Ineq)
    | CEq a b => (denoteX a - denoteX b, Equ)
    | CLeS a s => (denoteX a - sdenote s, Ineq)
    | CGeS a s => (sdenote s - denoteX a, Ineq)
    | CEqS a s => (denoteX a - sdenote s, Equ)
    | CSLe s a => (sdenote s - denoteX a, Ineq)
    | CSGe s a => (denoteX a - sdenote s, Ineq)
    | CSEq s a => (denoteX a - sdenote s, Equ)
    end.
End Denote.
