(** The "Gram reading" of an expression dictionary: its value as an affine function of a matrix
    [G] (entry (i,j) for the inner product of leaf points i and j; [G] need not be a Gram matrix
    here) and a vector [F] of leaf-expression values.  This is what the solver sees. *)
From Coq Require Import List QArith Reals Qreals.
From PV Require Import Model.Dict Model.Terms.
Import ListNotations.
Local Open Scope R_scope.

Section GF.
  Variable G : nat -> nat -> R.
  Variable F : nat -> R.

  Definition evalKGF (k : ekey) : R :=
    match k with
    | KF e => F e
    | KG i j => G i j
    | K1 => 1
    end.

  Fixpoint evalGF (d : edict) : R :=
    match d with
    | [] => 0
    | (k, q) :: d' => Q2R q * evalKGF k + evalGF d'
    end.

  Definition holdsGF (c : edict * sense) : Prop :=
    match snd c with
    | Ineq => evalGF (fst c) <= 0
    | Equ => evalGF (fst c) = 0
    end.
End GF.

Definition symG (G : nat -> nat -> R) : Prop := forall i j, G i j = G j i.
