(** The one assumption made about the SDP solver, and the vocabulary of the certificate.

    The problem handed to cvxpy ([Model.Cvxpy.emit]) has the primal variables G (symmetric), F and one
    symmetric matrix M_k per LMI.  With cvxpy's sign convention for the duals of a [Maximize] problem
    (the dual of [a <= b] and of [a == b] multiplies (a - b); the dual of [X >> 0] is paired with X) its
    Lagrangian is

      L(G,F,M) = obj(F) + <S0,G> - sum_c lambda_c e_c(G,F) + sum_k <S_k,M_k>
                 - sum_k sum_ij u_kij (M_k[i][j] - e_kij(G,F)),

    an AFFINE function of (G,F,M).  "The solver returned KKT duals" means dual stationarity: L is
    constant on {G symmetric} x F x {M_k symmetric}; the constant is the dual objective value.
    That statement is [stationary] below; it is the only thing assumed about the solver in every
    theorem of C01 (dual feasibility - the signs and PSD-ness of the multipliers - is a separate,
    explicit hypothesis of the weak-duality theorem).  The harness measures it on real SCS output. *)
From Coq Require Import List QArith Reals Qreals.
From PV Require Import Model.Dict Model.Terms Model.Sent Model.Cvxpy Model.Cert Spec.GramSem.
Import ListNotations.
Local Open Scope R_scope.

Fixpoint sumn (n : nat) (f : nat -> R) : R :=
  match n with O => 0 | S k => sumn k f + f k end.

(** <S, A> for a rational matrix given by rows and a real matrix given as a function *)
Fixpoint rdot (row : list Q) (a : nat -> R) (j : nat) : R :=
  match row with
  | [] => 0
  | q :: r => Q2R q * a j + rdot r a (S j)
  end.
Fixpoint mdot_from (Sm : list (list Q)) (A : nat -> nat -> R) (i : nat) : R :=
  match Sm with
  | [] => 0
  | row :: r => rdot row (A i) 0 + mdot_from r A (S i)
  end.
Definition mdot (Sm : list (list Q)) (A : nat -> nat -> R) : R := mdot_from Sm A 0.

Definition matR (Sm : list (list Q)) (i j : nat) : R := Q2R (matq Sm i j).

Definition shape (Sm : list (list Q)) (n m : nat) : Prop :=
  length Sm = n /\ Forall (fun row => length row = m) Sm.

(** value of the matrix of expressions of an LMI at (G,F) *)
Definition lmi_value (G : nat -> nat -> R) (F : nat -> R) (m : list (list edict)) : nat -> nat -> R :=
  fun i j => evalGF G F (entry m i j).

Section Lagrangian.
  Variable obj : edict.
  Variable G : nat -> nat -> R.
  Variable F : nat -> R.
  Variable M : nat -> nat -> nat -> R.       (* M k : value of the k-th matrix variable *)

  Definition row_term (r : solver_row) (d : dval) : R :=
    match r, d with
    | RGram, VM Sd => mdot Sd G
    | RLe e, VS l => - (Q2R l * evalGF G F e)
    | REq e, VS l => - (Q2R l * evalGF G F e)
    | RPsd k _ _, VM Sd => mdot Sd (M k)
    | REnt k i j e, VS u => - (Q2R u * (M k i j - evalGF G F e))
    | RObjGe o c, VS l => - (Q2R l * (Q2R c - evalGF G F o))
    | _, _ => 0
    end.

  Fixpoint rows_term (rows : list solver_row) (duals : list dval) : R :=
    match rows, duals with
    | r :: rs, d :: ds => row_term r d + rows_term rs ds
    | _, _ => 0
    end.

  Definition lagrangian (rows : list solver_row) (duals : list dval) : R :=
    evalGF G F obj + rows_term rows duals.
End Lagrangian.

(** each dual has the kind and shape of its constraint (cvxpy: float for a scalar constraint, an array
    of the constraint's shape for [>>]; PEPit asserts the shapes in assign_dual_values) *)
Definition dual_fits (r : solver_row) (d : dval) : Prop :=
  match r, d with
  | RGram, VM _ => True
  | RPsd _ n m, VM Sd => shape Sd n m
  | (RLe _ | REq _ | REnt _ _ _ _ | RObjGe _ _), VS _ => True
  | _, _ => False
  end.

(** THE SOLVER ASSUMPTION: dual stationarity of the emitted problem. *)
Definition stationary (obj : edict) (rows : list solver_row) (duals : list dval) (tau : R) : Prop :=
  forall (G : nat -> nat -> R) (F : nat -> R) (M : nat -> nat -> nat -> R),
    symG G -> (forall k, symG (M k)) -> lagrangian obj G F M rows duals = tau.

Record kkt_dual (obj : edict) (rows : list solver_row) (duals : list dval) (tau : R) : Prop := {
  kkt_fits : Forall2 dual_fits rows duals;
  kkt_stationary : stationary obj rows duals tau
}.

(** ** What the exposed multipliers are claimed to certify *)

(** sum_c lambda_c * e_c(G,F) - sum_k sum_ij u_kij * e_kij(G,F) over what the sent objects show: eval_dual() of a
    scalar constraint, and for an LMI the multipliers u_k of its entry correspondences
    (entries_dual_variable_value; eval_dual() only when that attribute is None - [Model.Cert.lmi_multiplier]).
    When the matrix of expressions takes a symmetric value E_k - in particular at every feasible point - and
    S_k = sym(u_k) (stationarity in M_k), the LMI part is <S_k, E_k>. *)
Fixpoint multiplier_sum (G : nat -> nat -> R) (F : nat -> R) (a : list expo) : R :=
  match a with
  | [] => 0
  | (it, d, u) :: r =>
      match it, d with
      | SC e _, VS l => Q2R l * evalGF G F e
      | LMI m, _ => match lmi_multiplier d u with Some s => - mdot s (lmi_value G F m) | None => 0 end
      | _, _ => 0
      end + multiplier_sum G F r
  end.

(** objective - tau = sum multiplier x constraint - <residual,G> - sum_k sum_ij u_kij e_kij, for ALL symmetric G and all F *)
Definition certificate_identity (obj : edict) (a : list expo) (res : list (list Q)) (tau : R) : Prop :=
  forall G F, symG G -> evalGF G F obj - tau = multiplier_sum G F a - mdot res G.

(** the same with the formula used before the repair of F-C01a (eval_dual() of the LMI instead of u) *)
Fixpoint old_multiplier_sum (G : nat -> nat -> R) (F : nat -> R) (a : list expo) : R :=
  match a with
  | [] => 0
  | (it, d, _) :: r =>
      match it, d with
      | SC e _, VS l => Q2R l * evalGF G F e
      | LMI m, VM s => - mdot s (lmi_value G F m)
      | _, _ => 0
      end + old_multiplier_sum G F r
  end.

(** ** Positive semidefiniteness.
    Primal matrices (the Gram matrix, the value of an LMI): symmetric with a non-negative quadratic
    form.  Multipliers (residual, S_k): finite sums of rank-one matrices v v^T with real vectors v
    (what an eigen-decomposition exhibits).  Proofs/PSDLemmas.v proves <S,A> >= 0 for such a pair and
    that a Gram matrix of vectors of any inner-product space is PSD in the first sense. *)
Definition psd_qf (n : nat) (A : nat -> nat -> R) : Prop :=
  (forall i j, (i < n)%nat -> (j < n)%nat -> A i j = A j i) /\
  forall c : nat -> R, 0 <= sumn n (fun i => sumn n (fun j => c i * A i j * c j)).

Fixpoint rank1_at (vs : list (nat -> R)) (i j : nat) : R :=
  match vs with
  | [] => 0
  | v :: r => v i * v j + rank1_at r i j
  end.

Definition rank1sum (Sm : list (list Q)) (n : nat) : Prop :=
  shape Sm n n /\ exists vs : list (nat -> R), forall i j, (i < n)%nat -> (j < n)%nat -> matR Sm i j = rank1_at vs i j.

(** the symmetric parts of two matrices agree on indices < n *)
Definition same_sym_part (u Sm : list (list Q)) (n : nat) : Prop :=
  forall i j, (i < n)%nat -> (j < n)%nat -> matR u i j + matR u j i = matR Sm i j + matR Sm j i.

(** dual feasibility of what the objects show: lambda >= 0 on inequalities; for an LMI the dual matrix
    S = eval_dual() is PSD (the eigenvalue check of check_feasibility) and is the symmetric part of the entry
    multipliers u (stationarity of the Lagrangian in M_k; derived from [stationary] in Proofs/C01Identity.v) *)
Fixpoint dual_feasible (a : list expo) : Prop :=
  match a with
  | [] => True
  | (SC _ Ineq, VS l, _) :: r => 0 <= Q2R l /\ dual_feasible r
  | (SC _ Equ, VS _, _) :: r => dual_feasible r
  | (LMI m, VM Sd, Some u) :: r =>
      rank1sum Sd (nrows m) /\ shape u (nrows m) (nrows m) /\ same_sym_part u Sd (nrows m) /\ dual_feasible r
  | _ :: r => False
  end.

(** the feasible set of the declared model, in the Gram reading: G symmetric and PSD of size [np], every
    scalar constraint holds, every LMI matrix is PSD *)
Definition item_holds (G : nat -> nat -> R) (F : nat -> R) (it : item) : Prop :=
  match it with
  | SC e s => holdsGF G F (e, s)
  | LMI m => psd_qf (nrows m) (lmi_value G F m)
  end.

Definition feasible (np : nat) (l : sent) (G : nat -> nat -> R) (F : nat -> R) : Prop :=
  symG G /\ psd_qf np G /\ Forall (item_holds G F) l.

(** ** "Symmetric as written" (decidable guard): e_ij - e_ji, computed with the model's operators,
    symmetrised and pruned, is the empty dictionary, i.e. the two entries are the same affine
    function of (symmetric G, F). *)
Definition sym_entry (a b : edict) : bool :=
  match prune (symmetrize (x_sub a b)) with [] => true | _ => false end.

Definition lmi_symmetric (m : list (list edict)) : bool :=
  let n := Nat.max (nrows m) (ncols m) in
  forallb (fun i => forallb (fun j => sym_entry (entry m i j) (entry m j i)) (seq 0 n)) (seq 0 n).

Definition all_lmis_symmetric (l : sent) : bool := forallb lmi_symmetric (lmis l).

(** well-formedness of what PEPit can send: dictionaries have unique keys (they are Python dicts),
    matrices are rectangular (numpy arrays) *)
Definition wf_edict (e : edict) : Prop := NoDup (keys e).
Definition wf_item (it : item) : Prop :=
  match it with
  | SC e _ => wf_edict e
  | LMI m => Forall (fun row => length row = ncols m /\ Forall wf_edict row) m
  end.
Definition wf_sent (l : sent) : Prop := Forall wf_item l.

(** ** Feasibility of a cvxpy problem (a list of solver rows) at (G, F, M) *)
Definition row_holds (np : nat) (G : nat -> nat -> R) (F : nat -> R) (M : nat -> nat -> nat -> R)
           (r : solver_row) : Prop :=
  match r with
  | RGram => psd_qf np G
  | RLe e => evalGF G F e <= 0
  | REq e => evalGF G F e = 0
  | RPsd k n _ => psd_qf n (M k)
  | REnt k i j e => M k i j = evalGF G F e
  | RObjGe o c => Q2R c <= evalGF G F o
  end.

Definition rows_feasible (np : nat) (rows : list solver_row) G F M : Prop :=
  symG G /\ Forall (row_holds np G F M) rows.

Definition square_item (it : item) : Prop :=
  match it with SC _ _ => True | LMI m => nrows m = ncols m end.
