(** Reference conditions of the 24 shipped classes, typed by hand from the class docstrings and the
    papers they cite (Taylor-Hendrickx-Glineur 2017 for the function classes; Ryu-Taylor-Bergeling-
    Giselsson 2020 for operators; Bousselmi-Hendrickx-Glineur 2023 for linear operators; Goujaud-
    Taylor-Dieuleveut 2022 for quadratic growth; Guille-Escuret et al. 2022 for RSI/EB).
    Each is the left-minus-right of a condition "[expr] <= 0" (or "= 0"): a real number depending on
    the two samples (xi, gi, fi), (xj, gj, fj).  Proofs/FormulaEq.v proves that every formula found
    in the sources denotes exactly its reference. *)
From Coq Require Import Reals.
From PV Require Import Base.IPS.
Local Open Scope R_scope.

Section Ref.
  Context {E : ips}.
  Implicit Types xi gi xj gj xs v gik gjk yi yj uj vj : E.
  Implicit Types fi fj fs L mu M D beta rho : R.

  (** f_i >= f_j + <g_j, x_i - x_j> *)
  Definition ref_convex xi xj gj fi fj := fj - fi + inner gj (vsub xi xj).
  (** indicator: f_i = 0,  <g_j, x_i - x_j> <= 0,  |x_i - x_j|^2 <= D^2 *)
  Definition ref_ind_value fi := fi.
  Definition ref_ind_normal xi xj gj := inner gj (vsub xi xj).
  Definition ref_diameter D xi xj := nrm2 (vsub xi xj) - D ^ 2.
  (** |g_i|^2 <= M^2 *)
  Definition ref_bounded_g M gi := nrm2 gi - M ^ 2.
  (** QG+ convex (i stationary): f_i >= f_j + <g_j, x_i - x_j> + 1/(2L) |g_j|^2 *)
  Definition ref_qg L xi xj gj fi fj := fj - fi + inner gj (vsub xi xj) + 1 / (2 * L) * nrm2 gj.
  (** support function: <g_i, x_i> = f_i,  <x_j, g_i - g_j> <= 0 *)
  Definition ref_sup_fenchel xi gi fi := inner gi xi - fi.
  Definition ref_sup_convex xj gi gj := inner xj (vsub gi gj).
  (** RSI: <g_i - g_j, x_i - x_j> >= mu |x_i - x_j|^2   EB: |g_i - g_j|^2 <= L^2 |x_i - x_j|^2 *)
  Definition ref_strong_monotone mu xi gi xj gj := mu * nrm2 (vsub xi xj) - inner (vsub gi gj) (vsub xi xj).
  Definition ref_lipschitz L xi gi xj gj := nrm2 (vsub gi gj) - L ^ 2 * nrm2 (vsub xi xj).
  (** smooth convex *)
  Definition ref_smooth_convex L xi gi xj gj fi fj :=
    fj - fi + inner gj (vsub xi xj) + 1 / (2 * L) * nrm2 (vsub gi gj).
  (** smooth (possibly non-convex) *)
  Definition ref_smooth L xi gi xj gj fi fj :=
    fj - fi - L / 4 * nrm2 (vsub xi xj) + 1 / 2 * inner (vadd gi gj) (vsub xi xj)
    + 1 / (4 * L) * nrm2 (vsub gi gj).
  (** smooth strongly convex *)
  Definition ref_smooth_strongly_convex mu L xi gi xj gj fi fj :=
    fj - fi + inner gj (vsub xi xj) + 1 / (2 * L) * nrm2 (vsub gi gj)
    + mu / (2 * (1 - mu / L)) * nrm2 (vsub (vsub xi xj) (vscal (1 / L) (vsub gi gj))).
  (** strongly convex *)
  Definition ref_strongly_convex mu xi xj gj fi fj :=
    fj - fi + inner gj (vsub xi xj) + mu / 2 * nrm2 (vsub xi xj).
  (** quadratics 1/2 <x - xs, Q (x - xs)> + fs *)
  Definition ref_quad_value xi gi xs fi fs := fi - fs - 1 / 2 * inner (vsub xi xs) gi.
  Definition ref_quad_sym xi gi xj gj xs := inner (vsub xi xs) gj - inner (vsub xj xs) gi.
  Definition ref_quad_lmi mu L xi gi xj gj xs :=
    (L + mu) * inner gi (vsub xj xs) - inner gi gj - mu * L * inner (vsub xi xs) (vsub xj xs).
  (** operators *)
  Definition ref_cocoercive beta xi gi xj gj := beta * nrm2 (vsub gi gj) - inner (vsub gi gj) (vsub xi xj).
  Definition ref_monotone xi gi xj gj := - inner (vsub gi gj) (vsub xi xj).
  Definition ref_neg_comonotone rho xi gi xj gj :=
    - inner (vsub gi gj) (vsub xi xj) - rho * nrm2 (vsub gi gj).
  Definition ref_nonexpansive xi gi xj gj := nrm2 (vsub gi gj) - nrm2 (vsub xi xj).
  Definition ref_inf_displacement v xi gi := nrm2 v - inner (vsub xi gi) v.
  (** linear operators: y = M x, v = M^T u *)
  Definition ref_lin_adjoint xi yi uj vj := inner xi vj - inner yi uj.
  Definition ref_lin_lmi L xi yi xj yj := L ^ 2 * inner xi xj - inner yi yj.
  Definition ref_skew xi gi xj gj := inner xi gj + inner xj gi.
  Definition ref_sym xi gi xj gj := inner xi gj - inner xj gi.
  Definition ref_sym_lmi mu L xi gi xj gj :=
    L * inner gi xj - inner gi gj - mu * L * inner xi xj + mu * inner xi gj.
  (** block smooth convex, block k *)
  Definition ref_block_smooth Lk xi xj gj gik gjk fi fj :=
    fj - fi + inner gj (vsub xi xj) + 1 / (2 * Lk) * nrm2 (vsub gik gjk).
End Ref.
