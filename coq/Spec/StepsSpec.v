(** SPECIFICATION of the 8 primitive steps, written by hand from the docstrings of
    PEPit/primitive_steps/*.py (short; read it).

    Part 1: what a call must return and record (over the state of Model/StepsRT.v), with the
    relations in semantic form: for every real inner-product space and every valuation of the
    leaf points ([rho]) and leaf expressions ([phi]).
    Part 2: what the REAL operation is on a real function (prox, line search, linear optimisation,
    Bregman steps, epsilon-subgradient, primal-dual gap of the proximal problem). *)
From Coq Require Import List QArith Reals Qreals String.
From PV Require Import Base.IPS Model.Dict Model.Terms Model.StepsRT Spec.Sem Spec.Classes.
Import ListNotations.
Local Open Scope R_scope.

(** ** Part 1 — records *)

(** dictionaries have unique keys (a Python dict always has); leaves below the counters exist *)
Definition pwf (d : pdict) : Prop := NoDup (keys d).
Definition ewf (d : edict) : Prop := NoDup (keys d).
Definition sample_wf (smp : sample) : Prop := let '(x, g, v) := smp in pwf x /\ pwf g /\ ewf v.
Definition state_wf (s : state) : Prop := forall f, Forall sample_wf (f_points (funs s f)).

(** every leaf point mentioned by d was created before the counter reached n *)
Definition below (n : nat) (d : pdict) : Prop := forall k, In k (keys d) -> (k < n)%nat.
(** the recorded samples only mention existing leaf points *)
Definition state_below (s : state) : Prop :=
  forall f x g v, In (x, g, v) (f_points (funs s f)) -> below (pt_ctr s) x /\ below (pt_ctr s) g.

(** value of a recorded sample under a valuation of the leaves *)
Definition sem_smp {E : ips} (rho : nat -> E) (phi : nat -> R) (smp : sample) : E * E * R :=
  let '(x, g, v) := smp in (evalP rho x, evalP rho g, evalE rho phi v).

(** [f.list_of_constraints] extended by a list *)
Definition add_conss (f : nat) (cs : list constr) (s : state) : state :=
  fold_left (fun s c => add_cons f c s) cs s.

Local Notation "'P[' rho ']' d" := (evalP rho d) (at level 9, d at level 9).

(** proximal_step(x0, f, gamma):  x = x0 - gamma gx,  gx in the subdifferential of f at x,  fx = f(x).
    gx and fx are NEW leaves, the triple (x, gx, fx) is recorded on f, nothing else. *)
Definition proximal_step_spec (x0 : pdict) (f : nat) (gamma : Q) (s : state) (out : result * state) : Prop :=
  let gx := pt_ctr s in let fx := ex_ctr s in
  exists x,
    out = (ROk [RP x; RP (leafP gx); RX (leafX fx)], add_sample f (x, leafP gx, leafX fx) (bump 1 1 s))
    /\ pwf x
    /\ forall (E : ips) (rho : nat -> E),
         veq (evalP rho x) (vsub (evalP rho x0) (vscal (Q2R gamma) (rho gx))).

(** inexact_gradient_step(x0, f, gamma, epsilon, notion):  (g, fx0) = f.oracle(x0);  d a NEW leaf with
    |g - d|^2 <= eps^2  ('absolute')   or   |g - d|^2 <= eps^2 |g|^2  ('relative')
    recorded as ONE inequality on f;  x = x0 - gamma d;  returns (x, d, fx0). *)
Definition inexact_gradient_step_spec (relative : bool) (x0 : pdict) (f : nat) (gamma eps : Q)
           (s : state) (out : result * state) : Prop :=
  let '(g, fx0, _, s1) := oracle_leaf f x0 s in
  let d := pt_ctr s1 in
  exists x c,
    out = (ROk [RP x; RP (leafP d); RX fx0], add_cons f c (bump 1 0 s1))
    /\ pwf x
    /\ (forall (E : ips) (rho : nat -> E),
          veq (evalP rho x) (vsub (evalP rho x0) (vscal (Q2R gamma) (rho d))))
    /\ snd c = Ineq
    /\ forall (E : ips) (rho : nat -> E) (phi : nat -> R),
         holds rho phi c <->
         nrm2 (vsub (evalP rho g) (rho d))
         <= Q2R eps ^ 2 * (if relative then nrm2 (evalP rho g) else 1).

(** any other notion: ValueError, after the oracle call and the creation of d (as in the source) *)
Definition inexact_gradient_step_invalid_spec (x0 : pdict) (f : nat) (s : state) (out : result * state) : Prop :=
  let '(_, _, _, s1) := oracle_leaf f x0 s in
  out = (RErr "ValueError", bump 1 0 s1).

(** exact_linesearch_step(x0, f, directions):  x a NEW leaf, (gx, fx) = f.oracle(x);
    recorded on f, in this order:  <x - x0, gx> = 0  and, for every direction d,  <d, gx> = 0. *)
Definition exact_linesearch_step_spec (x0 : pdict) (f : nat) (dirs : list pdict)
           (s : state) (out : result * state) : Prop :=
  let n := pt_ctr s in
  let '(gx, fx, x, s1) := oracle_leaf f (leafP n) (bump 1 0 s) in
  exists c0 cs,
    out = (ROk [RP x; RP gx; RX fx], add_conss f (c0 :: cs) s1)
    /\ (forall (E : ips) (rho : nat -> E), veq (evalP rho x) (rho n))
    /\ snd c0 = Equ
    /\ (forall (E : ips) (rho : nat -> E) (phi : nat -> R),
          holds rho phi c0 <-> inner (vsub (rho n) (evalP rho x0)) (evalP rho gx) = 0)
    /\ Forall2 (fun d c => snd c = Equ /\
                  forall (E : ips) (rho : nat -> E) (phi : nat -> R),
                    holds rho phi c <-> inner (evalP rho d) (evalP rho gx) = 0) dirs cs.

(** linear_optimization_step(dir, ind):  x, fx NEW leaves,  gx = - dir  (so that -dir is recorded as an
    element of the normal cone at x); the triple (x, gx, fx) is recorded on ind. *)
Definition linear_optimization_step_spec (dir : pdict) (ind : nat) (s : state) (out : result * state) : Prop :=
  let x := pt_ctr s in let fx := ex_ctr s in
  exists gx,
    out = (ROk [RP (leafP x); RP gx; RX (leafX fx)], add_sample ind (leafP x, gx, leafX fx) (bump 1 1 s))
    /\ pwf gx
    /\ forall (E : ips) (rho : nat -> E), veq (evalP rho gx) (vneg (evalP rho dir)).

(** bregman_gradient_step(gx0, sx0, h, gamma):  x, hx NEW leaves,  grad h(x) = sx = sx0 - gamma gx0;
    (x, sx, hx) recorded on the mirror map h. *)
Definition bregman_gradient_step_spec (gx0 sx0 : pdict) (h : nat) (gamma : Q) (s : state) (out : result * state) : Prop :=
  let x := pt_ctr s in let hx := ex_ctr s in
  exists sx,
    out = (ROk [RP (leafP x); RP sx; RX (leafX hx)], add_sample h (leafP x, sx, leafX hx) (bump 1 1 s))
    /\ pwf sx
    /\ forall (E : ips) (rho : nat -> E),
         veq (evalP rho sx) (vsub (evalP rho sx0) (vscal (Q2R gamma) (evalP rho gx0))).

(** bregman_proximal_step(sx0, h, f, gamma):  x, gx, fx, hx NEW leaves,  sx = sx0 - gamma gx;
    (x, gx, fx) recorded on f, then (x, sx, hx) on h;  returns (x, sx, hx, gx, fx). *)
Definition bregman_proximal_step_spec (sx0 : pdict) (h f : nat) (gamma : Q) (s : state) (out : result * state) : Prop :=
  let x := pt_ctr s in let gx := S (pt_ctr s) in
  let fx := ex_ctr s in let hx := S (ex_ctr s) in
  exists sx,
    out = (ROk [RP (leafP x); RP sx; RX (leafX hx); RP (leafP gx); RX (leafX fx)],
           add_sample h (leafP x, sx, leafX hx) (add_sample f (leafP x, leafP gx, leafX fx) (bump 2 2 s)))
    /\ pwf sx
    /\ forall (E : ips) (rho : nat -> E),
         veq (evalP rho sx) (vsub (evalP rho sx0) (vscal (Q2R gamma) (rho gx))).

(** epsilon_subgradient_step(x0, f, gamma):  g0 a NEW leaf,  f0 = f.value(x0),  eps a NEW leaf,
    x = x0 - gamma g0;  y, fy NEW leaves with (y, g0, fy) recorded on f (so f*(g0) = <g0, y> - fy), and
    ONE inequality on f:   f0 + f*(g0) - <g0, x0> <= eps.   Returns (x, g0, f0, eps). *)
Definition epsilon_subgradient_step_spec (x0 : pdict) (f : nat) (gamma : Q) (s : state) (out : result * state) : Prop :=
  let g0 := pt_ctr s in
  let '(f0, _, s1) := value_leaf f x0 (bump 1 0 s) in
  let eps := ex_ctr s1 in let y := pt_ctr s1 in let fy := S (ex_ctr s1) in
  exists x c,
    out = (ROk [RP x; RP (leafP g0); RX f0; RX (leafX eps)],
           add_cons f c (add_sample f (leafP y, leafP g0, leafX fy) (bump 1 2 s1)))
    /\ pwf x
    /\ (forall (E : ips) (rho : nat -> E),
          veq (evalP rho x) (vsub (evalP rho x0) (vscal (Q2R gamma) (rho g0))))
    /\ snd c = Ineq
    /\ forall (E : ips) (rho : nat -> E) (phi : nat -> R),
         holds rho phi c <->
         evalE rho phi f0 + (inner (rho g0) (rho y) - phi fy) - inner (rho g0) (evalP rho x0) <= phi eps.

(** The primal-dual gap of the proximal problem, as in the docstring of inexact_proximal_step:
      Phi_p(x) = gamma f(x) + 1/2 |x - x0|^2,
      Phi_d(v) = - gamma f*(v) - 1/2 |x0 - gamma v|^2 + 1/2 |x0|^2,
    with f*(v) = <v, w> - f(w) for the recorded w with v in the subdifferential of f at w. *)
Section Gap.
  Context {E : ips}.
  Definition phi_p (gamma : R) (x0 x : E) (fx : R) : R := gamma * fx + 1 / 2 * nrm2 (vsub x x0).
  Definition phi_d (gamma : R) (x0 v : E) (fstar_v : R) : R :=
    - gamma * fstar_v - 1 / 2 * nrm2 (vsub x0 (vscal gamma v)) + 1 / 2 * nrm2 x0.
  Definition pd_gap (gamma : R) (x0 x : E) (fx : R) (v w : E) (fw : R) : R :=
    phi_p gamma x0 x fx - phi_d gamma x0 v (inner v w - fw).
End Gap.

(** inexact_proximal_step(x0, f, gamma, 'PD_gapI'):  v, w, fw, x, gx, fx, eps NEW leaves;
    (w, v, fw) then (x, gx, fx) recorded on f;  ONE inequality  Phi_p(x) - Phi_d(v) <= eps. *)
Definition inexact_proximal_step_I_spec (x0 : pdict) (f : nat) (gamma : Q) (s : state) (out : result * state) : Prop :=
  let v := pt_ctr s in let w := S (pt_ctr s) in let x := S (S (pt_ctr s)) in let gx := S (S (S (pt_ctr s))) in
  let fw := ex_ctr s in let fx := S (ex_ctr s) in let eps := S (S (ex_ctr s)) in
  exists c,
    out = (ROk [RP (leafP x); RP (leafP gx); RX (leafX fx); RP (leafP w); RP (leafP v); RX (leafX fw); RX (leafX eps)],
           add_cons f c (add_sample f (leafP x, leafP gx, leafX fx)
                           (add_sample f (leafP w, leafP v, leafX fw) (bump 4 3 s))))
    /\ snd c = Ineq
    /\ forall (E : ips) (rho : nat -> E) (phi : nat -> R),
         holds rho phi c <->
         pd_gap (Q2R gamma) (evalP rho x0) (rho x) (phi fx) (rho v) (rho w) (phi fw) <= phi eps.

(** 'PD_gapII':  e, gx, fx, eps NEW leaves,  x = x0 - gamma gx + e,  (x, gx, fx) recorded on f,
    v := gx, w := x, fw := fx;  ONE inequality  Phi_p(x) - Phi_d(gx) <= eps  (which is 1/2 |e|^2 <= eps). *)
Definition inexact_proximal_step_II_spec (x0 : pdict) (f : nat) (gamma : Q) (s : state) (out : result * state) : Prop :=
  let e := pt_ctr s in let gx := S (pt_ctr s) in
  let fx := ex_ctr s in let eps := S (ex_ctr s) in
  exists x c,
    out = (ROk [RP x; RP (leafP gx); RX (leafX fx); RP x; RP (leafP gx); RX (leafX fx); RX (leafX eps)],
           add_cons f c (add_sample f (x, leafP gx, leafX fx) (bump 2 2 s)))
    /\ pwf x
    /\ (forall (E : ips) (rho : nat -> E),
          veq (evalP rho x) (vadd (vsub (evalP rho x0) (vscal (Q2R gamma) (rho gx))) (rho e)))
    /\ snd c = Ineq
    /\ forall (E : ips) (rho : nat -> E) (phi : nat -> R),
         holds rho phi c <->
         pd_gap (Q2R gamma) (evalP rho x0) (evalP rho x) (phi fx) (rho gx) (evalP rho x) (phi fx) <= phi eps.

(** 'PD_gapIII' (gamma <> 0):  x, gx, w, fw, fx, eps NEW leaves,  v = (x0 - x) / gamma;
    (x, gx, fx) then (w, v, fw) recorded on f;  ONE inequality  Phi_p(x) - Phi_d(v) <= eps. *)
Definition inexact_proximal_step_III_spec (x0 : pdict) (f : nat) (gamma : Q) (s : state) (out : result * state) : Prop :=
  let x := pt_ctr s in let gx := S (pt_ctr s) in let w := S (S (pt_ctr s)) in
  let fw := ex_ctr s in let fx := S (ex_ctr s) in let eps := S (S (ex_ctr s)) in
  exists v c,
    out = (ROk [RP (leafP x); RP (leafP gx); RX (leafX fx); RP (leafP w); RP v; RX (leafX fw); RX (leafX eps)],
           add_cons f c (add_sample f (leafP w, v, leafX fw)
                           (add_sample f (leafP x, leafP gx, leafX fx) (bump 3 3 s))))
    /\ pwf v
    /\ (forall (E : ips) (rho : nat -> E),
          veq (evalP rho v) (vscal (1 / Q2R gamma) (vsub (evalP rho x0) (rho x))))
    /\ snd c = Ineq
    /\ forall (E : ips) (rho : nat -> E) (phi : nat -> R),
         holds rho phi c <->
         pd_gap (Q2R gamma) (evalP rho x0) (rho x) (phi fx) (evalP rho v) (rho w) (phi fw) <= phi eps.

(** gamma = 0 with 'PD_gapIII': Python raises ZeroDivisionError after creating x, gx, w *)
Definition inexact_proximal_step_III_zero_spec (s : state) (out : result * state) : Prop :=
  out = (RErr "ZeroDivisionError", bump 3 0 s).

(** any other option: ValueError, nothing created *)
Definition inexact_proximal_step_invalid_spec (s : state) (out : result * state) : Prop :=
  out = (RErr "ValueError", s).

(** ** Equality of outcomes up to the representation of dictionaries (same meaning under every
    valuation): used to state that a specification leaves no freedom *)
Definition peq (a b : pdict) : Prop := forall (E : ips) (rho : nat -> E), veq (evalP rho a) (evalP rho b).
Definition xeq (a b : edict) : Prop :=
  forall (E : ips) (rho : nat -> E) (phi : nat -> R), evalE rho phi a = evalE rho phi b.
Definition ceq (a b : constr) : Prop :=
  snd a = snd b /\ forall (E : ips) (rho : nat -> E) (phi : nat -> R), holds rho phi a <-> holds rho phi b.
Definition smp_eq (a b : sample) : Prop :=
  let '(x, g, v) := a in let '(x', g', v') := b in peq x x' /\ peq g g' /\ xeq v v'.
Definition frec_eq (r r' : frec) : Prop :=
  f_reuse r = f_reuse r' /\ Forall2 smp_eq (f_points r) (f_points r') /\ Forall2 ceq (f_cons r) (f_cons r').
Definition state_eq (s s' : state) : Prop :=
  pt_ctr s = pt_ctr s' /\ ex_ctr s = ex_ctr s' /\ forall f, frec_eq (funs s f) (funs s' f).
Definition rval_eq (a b : rval) : Prop :=
  match a, b with RP x, RP y => peq x y | RX x, RX y => xeq x y | _, _ => False end.
Definition result_eq (a b : result) : Prop :=
  match a, b with
  | ROk l, ROk l' => Forall2 rval_eq l l'
  | RNone, RNone => True
  | RErr e, RErr e' => e = e'
  | _, _ => False
  end.
Definition out_eq (a b : result * state) : Prop := result_eq (fst a) (fst b) /\ state_eq (snd a) (snd b).

(** ** Part 2 — the real operations *)
Section Real.
  Context {E : ips}.

  (** functions on E are functions of what inner products can see *)
  Definition fn_ext (F : @fn E) : Prop :=
    forall a b, veq a b -> (dom F a <-> dom F b) /\ val F a = val F b.
  Definition dfn_ext (F : @dfn E) : Prop :=
    forall a b, veq a b -> dval F a = dval F b /\ veq (dgrad F a) (dgrad F b).

  (** convex extended-valued function *)
  Definition convex_fn (F : @fn E) : Prop :=
    forall x y t, dom F x -> dom F y -> 0 < t < 1 ->
      dom F (seg x y t) /\ val F (seg x y t) <= (1 - t) * val F x + t * val F y.

  (** x = prox_{gamma F}(x0): x minimises gamma F(.) + 1/2 |. - x0|^2 over dom F *)
  Definition is_prox (F : @fn E) (gamma : R) (x0 x : E) : Prop :=
    dom F x /\ forall y, dom F y ->
      gamma * val F x + 1 / 2 * nrm2 (vsub x x0) <= gamma * val F y + 1 / 2 * nrm2 (vsub y x0).

  (** x in argmin of <dir, .> over dom F (F the indicator of a set) *)
  Definition is_linopt (F : @fn E) (dir x : E) : Prop :=
    dom F x /\ forall y, dom F y -> inner dir x <= inner dir y.

  (** differentiability of a total function along every line (Gateaux), [dgrad] being the gradient *)
  Definition gateaux (F : @dfn E) : Prop :=
    forall x d eps, 0 < eps -> exists delta, 0 < delta /\
      forall t, Rabs t < delta ->
        Rabs (dval F (vadd x (vscal t d)) - dval F x - t * inner (dgrad F x) d) <= eps * Rabs t.

  (** u in span(ds) *)
  Definition in_span (u : E) (ds : list E) : Prop :=
    exists cs : list R, List.length cs = List.length ds /\ veq u (lincomb (combine cs ds)).

  (** exact line / span search: x minimises F over x0 + span(ds) *)
  Definition is_linesearch (F : @dfn E) (x0 : E) (ds : list E) (x : E) : Prop :=
    in_span (vsub x x0) ds /\ forall y, in_span (vsub y x0) ds -> dval F x <= dval F y.

  (** g is an eps-subgradient of F at x0 *)
  Definition eps_subgrad (F : @fn E) (eps : R) (x0 g : E) : Prop :=
    dom F x0 /\ forall z, dom F z -> val F z >= val F x0 + inner g (vsub z x0) - eps.

  (** The two mirror steps.  With D_h(y; x0) = h(y) - h(x0) - <s0, y - x0>, s0 = grad h(x0), and
      gamma > 0, minimising  <g0, y - x0> + 1/gamma D_h(y; x0)  (resp. f(y) + 1/gamma D_h(y; x0)) over y
      is minimising  gamma <g0, y> + h(y) - <s0, y>  (resp. gamma f(y) + h(y) - <s0, y>): the other
      terms do not depend on y.  The steps receive s0 (and g0), not x0. *)
  Definition is_bregman_gradient (H : @dfn E) (gamma : R) (g0 s0 x : E) : Prop :=
    forall y, gamma * inner g0 x + (dval H x - inner s0 x) <= gamma * inner g0 y + (dval H y - inner s0 y).
  Definition is_bregman_prox (F : @fn E) (H : @dfn E) (gamma : R) (s0 x : E) : Prop :=
    dom F x /\ forall y, dom F y ->
      gamma * val F x + (dval H x - inner s0 x) <= gamma * val F y + (dval H y - inner s0 y).
End Real.
