(** What a "real member" of each shipped class is, and what a genuine sample of it is.

    First-principles definitions over an arbitrary real inner-product space [E] (not the
    interpolation inequalities themselves).  Functions may be extended-valued ([dom]); oracles of
    non-differentiable classes are set-valued ([subgrad]); operators are set-valued graphs.
    A sample is a triple (x, g, f) of an element of E, an element of E and a real.

    Named textbook equivalences that are *not* proved here (trusted, DESIGN.md 5.3): L-Lipschitz
    gradient <-> two-sided quadratic bound; subdifferential of a support function = argmax;
    Pazy's theorem (closure of the range of I - T is convex for nonexpansive T). *)
From Coq Require Import Reals List.
From PV Require Import Base.IPS.
Import ListNotations.
Local Open Scope R_scope.

Section Classes.
  Context {E : ips}.

  Definition triple : Type := (E * E * R)%type.

  (** ** Extended-valued functions, subgradients *)
  Record fn := mkFn { dom : E -> Prop; val : E -> R }.

  Definition subgrad (F : fn) (x g : E) : Prop :=
    dom F x /\ forall y, dom F y -> val F y >= val F x + inner g (vsub y x).

  Definition genuine_sub (F : fn) (s : triple) : Prop :=
    let '(x, g, f) := s in subgrad F x g /\ f = val F x.

  (** point on the segment: x + t (y - x) *)
  Definition seg (x y : E) (t : R) : E := vadd x (vscal t (vsub y x)).

  (** ConvexFunction: closed proper convex functions; every function admitting subgradients at the
      sampled points qualifies, nothing more is needed for the generated constraints to hold. *)
  Definition convex_member (F : fn) : Prop := True.

  (** StronglyConvexFunction(mu): convex-combination inequality with modulus mu on a convex domain. *)
  Definition strongly_convex_member (mu : R) (F : fn) : Prop :=
    forall x y t, dom F x -> dom F y -> 0 < t < 1 ->
      dom F (seg x y t) /\
      val F (seg x y t) <= (1 - t) * val F x + t * val F y - mu / 2 * t * (1 - t) * nrm2 (vsub y x).

  (** ConvexLipschitzFunction(M): finite everywhere, |F x - F y| <= M |x - y| (squared, no sqrt). *)
  Definition lipschitz_fn (M : R) (F : fn) : Prop :=
    (forall x, dom F x) /\ forall x y, (val F x - val F y) ^ 2 <= M ^ 2 * nrm2 (vsub x y).

  (** ConvexIndicatorFunction(D): indicator of a set C (value 0 on C, dom = C), diameter <= D.
      g is in the normal cone of C at x. *)
  Definition indicator_member (D : option R) (F : fn) : Prop :=
    (forall x, dom F x -> val F x = 0) /\
    match D with Some d => forall x y, dom F x -> dom F y -> nrm2 (vsub x y) <= d ^ 2 | None => True end.

  (** ConvexSupportFunction(M): F = sigma_C, C inside the ball of radius M; a subgradient at x is a
      maximiser of <c, x> over C (argmax characterisation of the subdifferential taken as definition). *)
  Record support_member (M : option R) (C : E -> Prop) (sigma : E -> R) : Prop := {
    sup_upper : forall x c, C c -> inner c x <= sigma x;
    sup_bound : match M with Some m => forall c, C c -> nrm2 c <= m ^ 2 | None => True end
  }.
  Definition genuine_support (C : E -> Prop) (sigma : E -> R) (s : triple) : Prop :=
    let '(x, g, f) := s in C g /\ inner g x = sigma x /\ f = sigma x.

  (** ** Differentiable functions: total value + gradient map; a sample's g is the gradient (up to
      [veq], i.e. as seen by every inner product). *)
  Record dfn := mkD { dval : E -> R; dgrad : E -> E }.
  Definition genuine_grad (F : dfn) (s : triple) : Prop :=
    let '(x, g, f) := s in veq g (dgrad F x) /\ f = dval F x.

  Definition grad_convex (F : dfn) : Prop :=
    forall x y, dval F y >= dval F x + inner (dgrad F x) (vsub y x).
  Definition grad_strongly_convex (mu : R) (F : dfn) : Prop :=
    forall x y, dval F y >= dval F x + inner (dgrad F x) (vsub y x) + mu / 2 * nrm2 (vsub y x).
  Definition quad_upper (L : R) (F : dfn) : Prop :=
    forall x y, dval F y <= dval F x + inner (dgrad F x) (vsub y x) + L / 2 * nrm2 (vsub y x).
  Definition quad_lower (L : R) (F : dfn) : Prop :=
    forall x y, dval F y >= dval F x + inner (dgrad F x) (vsub y x) - L / 2 * nrm2 (vsub y x).

  (** SmoothFunction(L) *)
  Definition smooth_member (L : R) (F : dfn) : Prop := quad_upper L F /\ quad_lower L F.
  (** SmoothConvexFunction(L) *)
  Definition smooth_convex_member (L : R) (F : dfn) : Prop := grad_convex F /\ quad_upper L F.
  (** SmoothStronglyConvexFunction(mu, L) *)
  Definition smooth_strongly_convex_member (mu L : R) (F : dfn) : Prop :=
    grad_strongly_convex mu F /\ quad_upper L F.
  (** SmoothConvexLipschitzFunction(L, M) *)
  Definition smooth_convex_lipschitz_member (L M : R) (F : dfn) : Prop :=
    smooth_convex_member L F /\ forall x y, (dval F x - dval F y) ^ 2 <= M ^ 2 * nrm2 (vsub x y).

  (** ConvexQGFunction(L): convex with a minimiser xs and quadratic upper growth
      F x - F xs <= L/2 |x - xs|^2 ; samples are subgradient samples, stationary samples are
      minimisers (g = 0 is a subgradient there). *)
  Definition qg_member (L : R) (F : fn) : Prop :=
    (forall x, dom F x) /\
    forall xs x, subgrad F xs vzero -> val F x - val F xs <= L / 2 * nrm2 (vsub x xs).

  (** RsiEbFunction(mu, L): restricted secant inequality and error bound w.r.t. the stationary point xs *)
  Definition rsi_eb_member (mu L : R) (F : dfn) (xs : E) : Prop :=
    veq (dgrad F xs) vzero /\
    forall x, inner (dgrad F x) (vsub x xs) >= mu * nrm2 (vsub x xs)
              /\ nrm2 (dgrad F x) <= L ^ 2 * nrm2 (vsub x xs).

  (** ** Linear maps *)
  Record linear (M : E -> E) : Prop := {
    lin_add : forall a b, veq (M (vadd a b)) (vadd (M a) (M b));
    lin_scal : forall c a, veq (M (vscal c a)) (vscal c (M a));
    lin_zero : veq (M vzero) vzero;
    lin_ext : forall a b, veq a b -> veq (M a) (M b)
  }.

  (** SmoothStronglyConvexQuadraticFunction(mu, L): F x = fs + 1/2 <x - xs, Q (x - xs)>, Q linear
      self-adjoint with mu |u|^2 <= <Q u, u> <= L |u|^2. *)
  Record sa_bounded (mu L : R) (Q : E -> E) : Prop := {
    sab_lin : linear Q;
    sab_sym : forall a b, inner (Q a) b = inner a (Q b);
    sab_lo : forall a, mu * nrm2 a <= inner (Q a) a;
    sab_hi : forall a, inner (Q a) a <= L * nrm2 a
  }.
  Definition genuine_quad (Q : E -> E) (xs : E) (fs : R) (s : triple) : Prop :=
    let '(x, g, f) := s in veq g (Q (vsub x xs)) /\ f = fs + 1 / 2 * inner (vsub x xs) (Q (vsub x xs)).

  (** SymmetricLinearOperator(mu, L): g = Q x *)
  Definition genuine_lin (M : E -> E) (s : triple) : Prop := let '(x, g, _) := s in veq g (M x).

  (** LinearOperator(L): y = M x on the operator, v = Mt u on its transpose; singular values <= L *)
  Record bounded_pair (L : R) (M Mt : E -> E) : Prop := {
    bp_lin : linear M;
    bp_lint : linear Mt;
    bp_adj : forall a b, inner (M a) b = inner a (Mt b);
    bp_bound : forall a, nrm2 (M a) <= L ^ 2 * nrm2 a;
    bp_boundt : forall a, nrm2 (Mt a) <= L ^ 2 * nrm2 a
  }.

  (** SkewSymmetricLinearOperator(L) *)
  Record skew_bounded (L : R) (A : E -> E) : Prop := {
    sk_lin : linear A;
    sk_skew : forall a b, inner (A a) b = - inner a (A b);
    sk_bound : forall a, nrm2 (A a) <= L ^ 2 * nrm2 a
  }.

  (** ** Set-valued operators: graphs *)
  Definition graph := E -> E -> Prop.
  Definition genuine_op (A : graph) (s : triple) : Prop := let '(x, g, _) := s in A x g.

  Definition monotone_op (A : graph) : Prop :=
    forall x u y v, A x u -> A y v -> inner (vsub u v) (vsub x y) >= 0.
  Definition strongly_monotone_op (mu : R) (A : graph) : Prop :=
    forall x u y v, A x u -> A y v -> inner (vsub u v) (vsub x y) >= mu * nrm2 (vsub x y).
  Definition cocoercive_op (beta : R) (A : graph) : Prop :=
    forall x u y v, A x u -> A y v -> inner (vsub u v) (vsub x y) >= beta * nrm2 (vsub u v).
  Definition neg_comonotone_op (rho : R) (A : graph) : Prop :=
    forall x u y v, A x u -> A y v -> inner (vsub u v) (vsub x y) >= - rho * nrm2 (vsub u v).
  Definition lipschitz_op (L : R) (A : graph) : Prop :=
    forall x u y v, A x u -> A y v -> nrm2 (vsub u v) <= L ^ 2 * nrm2 (vsub x y).
  Definition nonexpansive_op (A : graph) : Prop := lipschitz_op 1 A.
  (** infimal displacement vector: the projection of 0 onto a convex set containing every
      displacement x - T x (Pazy); characterised by the variational inequality of a projection. *)
  Definition inf_displacement (A : graph) (v : E) : Prop :=
    forall x g, A x g -> inner v (vsub (vsub x g) v) >= 0.

  (** ** Positive semidefiniteness of a finite real matrix given as rows *)
  Fixpoint wsum {A} (c : nat -> R) (f : A -> R) (i : nat) (l : list A) : R :=
    match l with [] => 0 | a :: l' => c i * f a + wsum c f (S i) l' end.
  Definition quadform (c : nat -> R) (M : list (list R)) : R :=
    wsum c (fun row => wsum c (fun m => m) 0 row) 0 M.
  Definition psd_rows (M : list (list R)) : Prop := forall c, 0 <= quadform c M.
  (** the matrix [T[i][j] = ref x_i g_i x_j g_j] over a list of (x, g) pairs *)
  Definition lmi_matrix (ref : E -> E -> E -> E -> R) (l : list (E * E)) : list (list R) :=
    map (fun '(xi, gi) => map (fun '(xj, gj) => ref xi gi xj gj) l) l.
  Definition sym_rows (M : list (list R)) : Prop :=
    forall i j, nth j (nth i M []) 0 = nth i (nth j M []) 0.

  (** ** Conjunction classes of operators *)
  (** LipschitzStronglyMonotoneOperator(mu, L) *)
  Definition lipschitz_strongly_monotone_op (mu L : R) (A : graph) : Prop :=
    strongly_monotone_op mu A /\ lipschitz_op L A.
  (** CocoerciveStronglyMonotoneOperator(mu, beta) *)
  Definition cocoercive_strongly_monotone_op (mu beta : R) (A : graph) : Prop :=
    strongly_monotone_op mu A /\ cocoercive_op beta A.
  (** NonexpansiveOperator with a declared infimal displacement vector v *)
  Definition nonexpansive_with_displacement (A : graph) (v : E) : Prop :=
    nonexpansive_op A /\ inf_displacement A v.

  (** ** BlockSmoothConvexFunction(partition, [L_0 .. L_{K-1}])
      The partition of the space into K blocks is a family of "block projections" P_0 .. P_{K-1}:
      linear, self-adjoint, idempotent, mutually orthogonal, summing to the identity (on R^d: the
      coordinate-block projections).  A member is convex and satisfies, for every block k, the
      quadratic upper bound along displacements inside block k with constant L_k:
        F (x + P_k d) <= F x + <grad F x, P_k d> + L_k / 2 |P_k d|^2. *)
  Fixpoint block_sum (P : nat -> E -> E) (K : nat) (a : E) : E :=
    match K with O => vzero | S k => vadd (block_sum P k a) (P k a) end.
  Record block_projections (K : nat) (P : nat -> E -> E) : Prop := {
    blk_lin : forall k, (k < K)%nat -> linear (P k);
    blk_sa : forall k a b, (k < K)%nat -> inner (P k a) b = inner a (P k b);
    blk_idem : forall k a, (k < K)%nat -> veq (P k (P k a)) (P k a);
    blk_orth : forall k k' a b, (k < K)%nat -> (k' < K)%nat -> k <> k' -> inner (P k a) (P k' b) = 0;
    blk_sum : forall a, veq (block_sum P K a) a
  }.
  Definition block_upper (Pk : E -> E) (Lk : R) (F : dfn) : Prop :=
    forall x d, dval F (vadd x (Pk d))
                <= dval F x + inner (dgrad F x) (Pk d) + Lk / 2 * nrm2 (Pk d).
  Definition block_smooth_convex_member (K : nat) (P : nat -> E -> E) (Ls : nat -> R) (F : dfn) : Prop :=
    block_projections K P /\ grad_convex F /\
    forall k, (k < K)%nat -> block_upper (P k) (Ls k) F.
End Classes.
