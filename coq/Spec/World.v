(** Running a modelled method in a "world" (C09).

    A world gives every leaf function a real oracle [orc f : E -> E * R] (a point is mapped to a
    (sub)gradient / operator output and a value) together with the class' notion of a genuine sample
    [Gen f].  Running the recorded program in the world assigns to each fresh gradient / value leaf
    the real oracle's output at the value of the evaluated point: this is what "running the method
    numerically on a real function" means for the leaves of the model. *)
From Coq Require Import List QArith Reals Qreals Arith Bool.
From PV Require Import Base.IPS Model.Dict Model.Terms Model.Method Spec.Sem.
Import ListNotations.
Local Open Scope R_scope.

Section World.
  Context {E : ips}.

  Record world : Type := mkW {
    orc : nat -> E -> E * R;
    Gen : nat -> (E * E * R) -> Prop;
    (* a stationary point of each function and its value (only used by [MStat]) *)
    stat : nat -> E * R;
    (* the oracle's outputs are genuine samples; at the stationary point the zero vector is one *)
    orc_genuine : forall f x, Gen f (x, fst (orc f x), snd (orc f x));
    stat_genuine : forall f, Gen f (fst (stat f), vzero, snd (stat f));
    (* genuineness only looks at the gradient through inner products *)
    Gen_veq : forall f x g g' v, Gen f (x, g, v) -> veq g g' -> Gen f (x, g', v);
    (* ... and at the point through its value as seen by every inner product (the stationary sample's point
       is read back as 1 * leaf + 0) *)
    Gen_xveq : forall f x x' g v, Gen f (x, g, v) -> veq x x' -> Gen f (x', g, v);
    (* proximal operator (resolvent) of the functions that have one: [prox f gamma x0] is the proximal point
       of step gamma > 0 from x0 and [proxval f gamma x0] the function value there.  Specification only (that
       (x0 - prox)/gamma is a subgradient at the proximal point of a convex function is C08's theorem, used
       when a world is built): the proximal point with (x0 - prox)/gamma and that value is a genuine sample.
       Functions without a proximal operator have [has_prox f = false]; a program may only take proximal
       steps on flagged functions ([prox_ok]). *)
    has_prox : nat -> bool;
    prox : nat -> R -> E -> E;
    proxval : nat -> R -> E -> R;
    prox_genuine : forall f gamma x0, has_prox f = true -> 0 < gamma ->
      Gen f (prox f gamma x0, vscal (1 / gamma) (vsub x0 (prox f gamma x0)), proxval f gamma x0);
    (* linear minimisation oracle of the functions that have one (indicators of sets): [lmo f d] is a minimiser
       of <d, .> over the set together with the function value there; specification: that point with -d is a
       genuine sample (-d is in the normal cone of the set at a minimiser of <d, .>: C08's theorem, used when a
       world is built) *)
    has_lmo : nat -> bool;
    lmo : nat -> E -> E * R;
    lmo_genuine : forall f d, has_lmo f = true -> Gen f (fst (lmo f d), vneg d, snd (lmo f d));
    (* inexact gradients: [inexact f relative eps x] is the direction an inexact first-order oracle of accuracy eps
       returns at x (absolute: |g - d|^2 <= eps^2; relative: <= eps^2 |g|^2, g the oracle's output at x).  Every
       world has one (the exact output), so no flag is needed. *)
    inexact : nat -> bool -> R -> E -> E;
    inexact_bound : forall f relative eps x,
      nrm2 (vsub (fst (orc f x)) (inexact f relative eps x))
      <= eps ^ 2 * (if relative then nrm2 (fst (orc f x)) else 1);
    (* exact line / span search of the functions that have one: [linesearch f x0 ds] minimises f over
       x0 + span ds; specification: the oracle's output there is orthogonal to x - x0 and to every direction
       (for a differentiable function: C08's theorem, used when a world is built) *)
    has_ls : nat -> bool;
    linesearch : nat -> E -> list E -> E;
    ls_orth : forall f x0 ds, has_ls f = true ->
      let x := linesearch f x0 ds in
      inner (vsub x x0) (fst (orc f x)) = 0 /\ forall d, In d ds -> inner d (fst (orc f x)) = 0;
    (* epsilon-subgradients: [epssub f x0] = ((g0, eps), (y, fy)) is what an epsilon-subgradient oracle returns at
       x0: a vector g0 and an accuracy eps, together with a point y at which g0 is an (exact) subgradient and the
       value fy there, i.e. the conjugate of f at g0 is <g0, y> - fy.  Specification: (y, g0, fy) is a genuine
       sample and f(x0) + f^*(g0) - <g0, x0> <= eps, f(x0) being the oracle's value at x0 (for a convex function
       this says exactly that g0 is an eps-subgradient at x0: C08's theorems eps_subgrad_from_record /
       eps_subgrad_to_record).  Every world has one (the oracle's own output, eps = 0, y = x0), so no flag. *)
    epssub : nat -> E -> (E * R) * (E * R);
    epssub_spec : forall f x0,
      let g0 := fst (fst (epssub f x0)) in let eps := snd (fst (epssub f x0)) in
      let y := fst (snd (epssub f x0)) in let fy := snd (snd (epssub f x0)) in
      Gen f (y, g0, fy) /\ snd (orc f x0) + (inner g0 y - fy) - inner g0 x0 <= eps;
    (* mirror maps (Bregman gradient steps): [mirror h s] is the point at which the mirror map h has gradient s (the
       minimiser of <g0, .> + 1/gamma D_h(.; x0) when s = grad h(x0) - gamma g0: C08's theorem
       bregman_gradient_optimality) together with the value of h there; specification: that point with s is a
       genuine sample of h *)
    has_mirror : nat -> bool;
    mirror : nat -> E -> E * R;
    mirror_genuine : forall h s, has_mirror h = true -> Gen h (fst (mirror h s), s, snd (mirror h s));
    (* Bregman proximal steps: [bprox h f gamma s0] = ((x, gx), (fx, hx)) is the minimiser x of
       f + 1/gamma D_h(.; x0), s0 = grad h(x0), the subgradient gx of f at x singled out by the optimality condition
       grad h(x) = s0 - gamma gx (C08's theorem bregman_prox_optimality) and the values of f and h at x;
       specification: (x, gx, fx) is a genuine sample of f and (x, s0 - gamma gx, hx) one of h *)
    has_bprox : nat -> nat -> bool;
    bprox : nat -> nat -> R -> E -> (E * E) * (R * R);
    bprox_genuine : forall h f gamma s0, has_bprox h f = true -> 0 < gamma ->
      let x := fst (fst (bprox h f gamma s0)) in let gx := snd (fst (bprox h f gamma s0)) in
      Gen f (x, gx, fst (snd (bprox h f gamma s0))) /\
      Gen h (x, vsub s0 (vscal gamma gx), snd (snd (bprox h f gamma s0)));
    (* inexact proximal steps: [iprox f opt gamma x0] = (((w, v, fw), (x, gx, fx)), eps) is what an approximate
       proximal operator of step gamma > 0 returns at x0: the approximate proximal point x with a subgradient gx and
       the value fx there, a dual point v with a point w at which v is a subgradient and the value fw there (not
       used by 'PD_gapII'; for 'PD_gapIII' v is (x0 - x) / gamma), and the accuracy eps reached.  Specification:
       the samples are genuine and the criterion of the option holds with that eps
         PD_gapI:    |x - x0 + gamma v|^2 / 2 + gamma (fx - fw - <v, x - w>) <= eps
         PD_gapII:   |x - x0 + gamma gx|^2 / 2 <= eps
         PD_gapIII:  gamma (fx - fw - <v, x - w>) <= eps,  v = (x0 - x) / gamma.
       Every world has one (e.g. x = w = x0 with the oracle's output there), so no flag. *)
    iprox : nat -> ipopt -> R -> E -> ((E * E * R) * (E * E * R)) * R;
    iprox_spec : forall f opt gamma x0, 0 < gamma ->
      let r := iprox f opt gamma x0 in
      let w := fst (fst (fst (fst r))) in let v := snd (fst (fst (fst r))) in let fw := snd (fst (fst r)) in
      let x := fst (fst (snd (fst r))) in let gx := snd (fst (snd (fst r))) in let fx := snd (snd (fst r)) in
      Gen f (x, gx, fx) /\
      match opt with
      | PDgapI => Gen f (w, v, fw) /\
                  nrm2 (vadd (vsub x x0) (vscal gamma v)) / 2 + gamma * (fx - fw - inner v (vsub x w)) <= snd r
      | PDgapII => nrm2 (vadd (vsub x x0) (vscal gamma gx)) / 2 <= snd r
      | PDgapIII => Gen f (w, vscal (1 / gamma) (vsub x0 x), fw) /\
                    gamma * (fx - fw - inner (vscal (1 / gamma) (vsub x0 x)) (vsub x w)) <= snd r
      end
  }.

  (** the program takes proximal / linear-optimization / line-search / Bregman steps only on functions of the world
      that have a proximal operator / a linear minimisation oracle / an exact line search / a mirror map inverse / a
      Bregman proximal operator *)
  Definition step_ok (W : world) (o : mop) : bool :=
    match o with
    | MProx f _ _ => has_prox W f | MLinOpt f _ => has_lmo W f | MLineSearch f _ _ => has_ls W f
    | MBregGrad h _ _ _ => has_mirror W h | MBregProx h f _ _ => has_bprox W h f | _ => true
    end.
  Definition steps_ok (W : world) (ops : list mop) : bool := forallb (step_ok W) ops.

  Definition upd {A} (h : nat -> A) (k : nat) (a : A) : nat -> A :=
    fun i => if Nat.eqb i k then a else h i.

  (** one step of the real run: values of the leaves after the operation *)
  Definition wstep (W : world) (vs : (nat -> E) * (nat -> R)) (s : mstate) (o : mop)
    : (nat -> E) * (nat -> R) :=
    match o with
    | MFresh => vs                      (* a free point keeps the value the initial valuation gives it *)
    | MEval f p =>
        let x := evalP (fst vs) p in
        (upd (fst vs) (m_np s) (fst (orc W f x)), upd (snd vs) (m_ne s) (snd (orc W f x)))
    | MStat f =>
        (upd (fst vs) (m_np s) (fst (stat W f)), upd (snd vs) (m_ne s) (snd (stat W f)))
    | MProx f p gamma =>
        (* the fresh subgradient leaf gets (x0 - prox)/gamma, the fresh value leaf the value at the proximal
           point; the recorded point p - gamma * gx then evaluates to the proximal point *)
        let x0 := evalP (fst vs) p in
        let g := Q2R gamma in
        (upd (fst vs) (m_np s) (vscal (1 / g) (vsub x0 (prox W f g x0))),
         upd (snd vs) (m_ne s) (proxval W f g x0))
    | MLinOpt f dir =>
        (* the fresh point leaf gets a minimiser of <d, .> over the set, the fresh value leaf the value there *)
        let d := evalP (fst vs) dir in
        (upd (fst vs) (m_np s) (fst (lmo W f d)), upd (snd vs) (m_ne s) (snd (lmo W f d)))
    | MInexact f p relative eps =>
        (* as MEval for the gradient and value leaves; the fresh leaf dx0 gets the inexact direction *)
        let x := evalP (fst vs) p in
        (upd (upd (fst vs) (m_np s) (fst (orc W f x))) (S (m_np s)) (inexact W f relative (Q2R eps) x),
         upd (snd vs) (m_ne s) (snd (orc W f x)))
    | MLineSearch f x0 dirs =>
        (* the fresh point leaf gets the line-search minimiser, then as MEval at it *)
        let x := linesearch W f (evalP (fst vs) x0) (map (evalP (fst vs)) dirs) in
        (upd (upd (fst vs) (m_np s) x) (S (m_np s)) (fst (orc W f x)),
         upd (snd vs) (m_ne s) (snd (orc W f x)))
    | MEpsSub f p =>
        (* the fresh leaf g0 gets the epsilon-subgradient, then as MEval at p, the fresh value leaf epsilon gets the
           accuracy, the fresh leaves y and fy the point where the conjugate is attained and the value there *)
        let x := evalP (fst vs) p in
        let r := epssub W f x in
        (upd (upd (upd (fst vs) (m_np s) (fst (fst r))) (S (m_np s)) (fst (orc W f x))) (S (S (m_np s))) (fst (snd r)),
         upd (upd (upd (snd vs) (m_ne s) (snd (orc W f x))) (S (m_ne s)) (snd (fst r))) (S (S (m_ne s))) (snd (snd r)))
    | MBregGrad h gx0 sx0 gamma =>
        (* the fresh point leaf gets the point where the mirror map has gradient sx0 - gamma gx0, the fresh value
           leaf the value of the mirror map there *)
        let sd := vsub (evalP (fst vs) sx0) (vscal (Q2R gamma) (evalP (fst vs) gx0)) in
        (upd (fst vs) (m_np s) (fst (mirror W h sd)), upd (snd vs) (m_ne s) (snd (mirror W h sd)))
    | MBregProx h f sx0 gamma =>
        (* the fresh leaves x, gx get the Bregman proximal point and the subgradient of f there, the fresh value
           leaves the values of f and of the mirror map there *)
        let r := bprox W h f (Q2R gamma) (evalP (fst vs) sx0) in
        (upd (upd (fst vs) (m_np s) (fst (fst r))) (S (m_np s)) (snd (fst r)),
         upd (upd (snd vs) (m_ne s) (fst (snd r))) (S (m_ne s)) (snd (snd r)))
    | MInexactProx f x0 gamma opt =>
        (* the fresh leaves get the outputs of the approximate proximal operator; for 'PD_gapII' the fresh point leaf e
           gets the error x - x0 + gamma gx, so that the recorded point x0 - gamma gx + e evaluates to x *)
        let x0v := evalP (fst vs) x0 in
        let r := iprox W f opt (Q2R gamma) x0v in
        let w := fst (fst (fst (fst r))) in let v := snd (fst (fst (fst r))) in let fw := snd (fst (fst r)) in
        let x := fst (fst (snd (fst r))) in let gx := snd (fst (snd (fst r))) in let fx := snd (snd (fst r)) in
        match opt with
        | PDgapI =>
            (upd (upd (upd (upd (fst vs) (m_np s) v) (S (m_np s)) w) (S (S (m_np s))) x) (S (S (S (m_np s)))) gx,
             upd (upd (upd (snd vs) (m_ne s) fw) (S (m_ne s)) fx) (S (S (m_ne s))) (snd r))
        | PDgapII =>
            (upd (upd (fst vs) (m_np s) (vadd (vsub x x0v) (vscal (Q2R gamma) gx))) (S (m_np s)) gx,
             upd (upd (snd vs) (m_ne s) fx) (S (m_ne s)) (snd r))
        | PDgapIII =>
            (upd (upd (upd (fst vs) (m_np s) x) (S (m_np s)) gx) (S (S (m_np s))) w,
             upd (upd (upd (snd vs) (m_ne s) fw) (S (m_ne s)) fx) (S (S (m_ne s))) (snd r))
        end
    end.

  Fixpoint wrun (W : world) (ops : list mop) (s : mstate) (vs : (nat -> E) * (nat -> R))
    : (nat -> E) * (nat -> R) :=
    match ops with
    | [] => vs
    | o :: ops' => wrun W ops' (mstep s o) (wstep W vs s o)
    end.

  (** a recorded sample, read at a valuation *)
  Definition sample_at (rho : nat -> E) (phi : nat -> R) (t : msample) : E * E * R :=
    let '(x, g, fx) := t in (evalP rho x, evalP rho g, evalE rho phi fx).
End World.
