(** Executable model of PEPit/tools/expressions_to_matrices.py.

    [expression_to_matrices]  (dense, used by the cvxpy wrapper):
        cons = 0 ; Fweights = zeros(Expression.counter) ; Gweights = zeros(Point.counter, Point.counter)
        leaf expression:  Fweights[expression.counter] += 1
        otherwise, for key, weight in decomposition_dict.items():   (dict order)
            Fweights[key.counter] = weight | Gweights[p1.counter, p2.counter] = weight | cons = weight
        Gweights = (Gweights + Gweights.T) / 2
    [expression_to_sparse_matrices]  (sparse lower-triangular triples, used by the MOSEK wrapper): see
    [sparse_step] below, which follows the Python loop branch by branch.

    An Expression object is seen by both functions as "leaf with counter c" or "composite with a
    decomposition dict"; leaf points / leaf expressions are identified with their counters
    (the keys [KG i j], [KF e] of Model/Dict.v).  Arrays are total functions on indices; an index
    outside the allocated shape is an IndexError in Python: [in_bounds] is that check. *)
From Coq Require Import List QArith ZArith Bool Arith String.
From PV Require Import Model.Dict Model.Terms Model.Dump.
Import ListNotations.
Local Open Scope Q_scope.

Inductive expr : Type :=
| ELeaf (c : nat)            (* expression.get_is_leaf() ; decomposition_dict = {self: 1} *)
| EComp (d : edict).

Definition dict_of (x : expr) : edict :=
  match x with ELeaf c => [(KF c, 1)] | EComp d => d end.

(* ---------------------------------------------------------------- dense *)
Definition gmat := nat -> nat -> Q.
Definition fvec := nat -> Q.

Definition gset (g : gmat) (a b : nat) (w : Q) : gmat :=
  fun i j => if Nat.eqb i a && Nat.eqb j b then w else g i j.
Definition fset (f : fvec) (a : nat) (w : Q) : fvec :=
  fun i => if Nat.eqb i a then w else f i.

Record dense : Type := mkDense { dG : gmat; dF : fvec; dC : Q }.

Definition dense0 : dense := mkDense (fun _ _ => 0) (fun _ => 0) 0.

(** one iteration of the loop: plain assignment [=] in each branch *)
Definition dense_step (acc : dense) (kw : ekey * Q) : dense :=
  match fst kw with
  | KF e => mkDense (dG acc) (fset (dF acc) e (snd kw)) (dC acc)
  | KG i j => mkDense (gset (dG acc) i j (snd kw)) (dF acc) (dC acc)
  | K1 => mkDense (dG acc) (dF acc) (snd kw)
  end.

Definition dense_loop (d : edict) : dense := fold_left dense_step d dense0.

(** the leaf shortcut: [Fweights[expression.counter] += 1] *)
Definition dense_leaf (c : nat) : dense :=
  mkDense (dG dense0) (fset (dF dense0) c (dF dense0 c + 1)) (dC dense0).

(** [(Gweights + Gweights.T) / 2] *)
Definition symmetrize_G (g : gmat) : gmat := fun i j => (g i j + g j i) / 2.

Definition expression_to_matrices (x : expr) : dense :=
  let r := match x with ELeaf c => dense_leaf c | EComp d => dense_loop d end in
  mkDense (symmetrize_G (dG r)) (dF r) (dC r).

(** every index used fits the allocated arrays ([n] = Point.counter, [m] = Expression.counter) *)
Definition key_in_bounds (n m : nat) (k : ekey) : bool :=
  match k with
  | KF e => Nat.ltb e m
  | KG i j => Nat.ltb i n && Nat.ltb j n
  | K1 => true
  end.
Definition in_bounds (n m : nat) (x : expr) : bool :=
  forallb (fun kw => key_in_bounds n m (fst kw)) (dict_of x).

(* ---------------------------------------------------------------- sparse *)
Record sparse : Type := mkSparse {
  sG : list (nat * nat * Q);      (* (Gweights_indi, Gweights_indj, Gweights_val), in emission order *)
  sF : list (nat * Q);            (* (Fweights_ind, Fweights_val) *)
  sC : Q }.

Definition sparse0 : sparse := mkSparse [] [] 0.

(** one iteration of the loop of expression_to_sparse_matrices over (key, weight); [d] is the whole
    decomposition dict (consulted for the mirrored key):
      weight_sym = 0
      if (point2, point1) in dict:
          if point1.counter >= point2.counter:
              weight_sym = dict[(point2, point1)] ; emit (c1, c2, (weight + weight_sym) / 2)
      else:
          emit (max(c1,c2), min(c1,c2), (weight + weight_sym) / 2)                              *)
Definition sparse_step (d : edict) (acc : sparse) (kw : ekey * Q) : sparse :=
  match fst kw with
  | KF e => mkSparse (sG acc) (sF acc ++ [(e, snd kw)]) (sC acc)
  | KG i j =>
      match lookup ekey_eqb (KG j i) d with
      | Some wsym =>
          if Nat.leb j i
          then mkSparse (sG acc ++ [(i, j, (snd kw + wsym) / 2)]) (sF acc) (sC acc)
          else acc
      | None => mkSparse (sG acc ++ [(Nat.max i j, Nat.min i j, (snd kw + 0) / 2)]) (sF acc) (sC acc)
      end
  | K1 => mkSparse (sG acc) (sF acc) (snd kw)
  end.

Definition sparse_loop (d : edict) : sparse := fold_left (sparse_step d) d sparse0.

(** leaf shortcut: [Fweights_ind.append(expression.counter); Fweights_val.append(1)] *)
Definition sparse_leaf (c : nat) : sparse := mkSparse [] [(c, 1)] 0.

Definition expression_to_sparse_matrices (x : expr) : sparse :=
  match x with ELeaf c => sparse_leaf c | EComp d => sparse_loop d end.

(* ---------------------------------------------------------------- dumps (correspondence) *)
Definition dump_dense (n m : nat) (r : dense) : D :=
  DL [DL (map (fun i => DL (map (fun j => DQ (dG r i j)) (seq 0 n))) (seq 0 n));
      DL (map (fun k => DQ (dF r k)) (seq 0 m));
      DQ (dC r)].

Definition dump_sparse (s : sparse) : D :=
  DL [DL (map (fun t => DL [DN (fst (fst t)); DN (snd (fst t)); DQ (snd t)]) (sG s));
      DL (map (fun t => DL [DN (fst t); DQ (snd t)]) (sF s));
      DQ (sC s)].

Definition dump_matrices (n m : nat) (x : expr) : D :=
  if in_bounds n m x
  then DL [dump_dense n m (expression_to_matrices x); dump_sparse (expression_to_sparse_matrices x)]
  else DS "IndexError".
