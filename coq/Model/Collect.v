(** Executable model of the collection phase of [PEP._solve_with_wrapper] (PEPit/pep.py), from the
    creation of the objective leaf up to and including [wrapper.generate_problem(self.objective)].

    The ORDER OF EVENTS is not written here: it is the generated term [Gen.SolvePlan.solve_plan],
    produced on every run from the Python source by translator/tr_solveplan.py.  This file gives
    (1) the declared model as the solve sees it ([model]), (2) the small statement language of plans
    ([stmt]) and (3) its interpreter ([exec], [collect]).

    Faithfulness points:
    - lists consulted before the statement that (re)fills them hold their STALE content
      (class constraints before [function.set_class_constraints()], partition constraints before
      [partition.add_partition_constraints()], the tracking lists before their re-initialisation);
    - a send before [wrapper.set_main_variables()] or after [generate_problem] is an error ([None]);
    - [send_constraint_to_solver] asserts a Constraint, [send_lmi_constraint_to_solver] a PSDMatrix;
    - [self.objective <= metric] is [Expression.__le__] of Model/Terms.v ([c_le]) applied to the
      objective leaf's dictionary [{objective: 1}] and the metric's dictionary. *)
From Coq Require Import List QArith ZArith Bool Arith String.
From PV Require Import Model.Dict Model.Terms Model.Dump Model.Sent.
Import ListNotations.

Definition cons_t := (edict * sense)%type.
Definition psd_t := list (list edict).

(* ---------------------------------------------------------------- the declared model *)
Record func : Type := mkFunc {
  f_id : nat;                         (* position in Function.list_of_functions *)
  f_is_leaf : bool;
  f_class_cons_old : list cons_t;     (* list_of_class_constraints as left by a previous solve *)
  f_class_psd_old : list psd_t;
  f_class_cons : list cons_t;         (* what set_class_constraints() puts there at this solve *)
  f_class_psd : list psd_t;
  f_fresh_exprs : nat;                (* leaf expressions created by set_class_constraints() *)
  f_cons : list cons_t;               (* function.list_of_constraints (add_constraint) *)
  f_psd : list psd_t }.               (* function.list_of_psd (add_psd_matrix) *)

Record part : Type := mkPart {
  p_id : nat;
  p_cons_old : list cons_t;           (* partition.list_of_constraints before add_partition_constraints() *)
  p_cons : list cons_t }.             (* ... after *)

Record model : Type := mkModel {
  m_metrics : list edict;             (* decomposition dicts of pep.list_of_performance_metrics *)
  m_cons : list cons_t;               (* pep.list_of_constraints *)
  m_psd : list psd_t;                 (* pep.list_of_psd *)
  m_funcs : list func;                (* Function.list_of_functions *)
  m_parts : list part;                (* BlockPartition.list_of_partitions *)
  m_expr_ctr : nat;                   (* Expression.counter when the solve starts *)
  m_track_cons_old : list cons_t;     (* pep._list_of_constraints_sent_to_wrapper before the solve *)
  m_track_psd_old : list psd_t }.

(* ---------------------------------------------------------------- plans *)
Inductive src : Type :=
| SMetrics        (* self.list_of_performance_metrics *)
| SPepCons        (* self.list_of_constraints *)
| SPepPsd         (* self.list_of_psd *)
| SClassCons      (* function.list_of_class_constraints *)
| SClassPsd       (* function.list_of_class_psd *)
| SOwnCons        (* function.list_of_constraints *)
| SOwnPsd         (* function.list_of_psd *)
| SPartCons.      (* partition.list_of_constraints *)

Inductive operand : Type := OObjective | OLoopVar.
Inductive cmp : Type := CmpLe | CmpGe | CmpEq.
Inductive payload : Type :=
| PLoopVar                                   (* the loop variable itself *)
| PCompare (c : cmp) (l r : operand).        (* e.g. (self.objective <= performance_metric) *)
Inductive meth : Type := MScalar | MLmi.     (* send_constraint_to_solver | send_lmi_constraint_to_solver *)
Inductive track : Type := TCons | TPsd.      (* self._list_of_constraints_sent_to_wrapper | _list_of_psd_sent_to_wrapper *)

Inductive lstmt : Type :=                    (* body of a loop over items *)
| LSend (m : meth) (p : payload)
| LTrack (t : track) (p : payload).

Inductive fcond : Type :=                    (* filter of a list comprehension over functions *)
| FIsLeaf
| FNonEmpty (s : src)
| FOr (a b : fcond)
| FAnd (a b : fcond)
| FNot (a : fcond).

Inductive stmt : Type :=
| ObjectiveLeaf                              (* self.objective = Expression(is_leaf=True) *)
| BindFunctions (v : nat) (c : fcond)        (* name_v = [f for f in Function.list_of_functions if c] *)
| SetMainVariables                           (* wrapper.set_main_variables() *)
| InitTrack (t : track)                      (* self._list_of_..._sent_to_wrapper = list() *)
| GenerateProblem                            (* wrapper.generate_problem(self.objective) *)
| SetClassConstraints                        (* function.set_class_constraints() *)
| AddPartitionConstraints                    (* partition.add_partition_constraints() *)
| ForFunctions (v : nat) (body : list stmt)  (* for function in name_v: *)
| ForPartitions (body : list stmt)           (* for partition in BlockPartition.list_of_partitions: *)
| IfNonEmpty (s : src) (body : list stmt)    (* if len(<list>) > 0: *)
| ForItems (s : src) (body : list lstmt).    (* for x in <list>:  /  for c, x in enumerate(<list>): *)

(* ---------------------------------------------------------------- interpreter *)
Inductive obj : Type := OE (e : edict) | OC (c : cons_t) | OP (m : psd_t).

Record state : Type := mkState {
  s_expr_ctr : nat;
  s_objective : option nat;                  (* counter of the leaf held by self.objective *)
  s_lists : list (nat * list func);          (* local names bound to filtered function lists *)
  s_class_set : list nat;                    (* ids of functions whose class constraints are fresh *)
  s_part_set : list nat;
  s_fdim : option nat;                       (* Expression.counter seen by set_main_variables *)
  s_track_c : list cons_t;
  s_track_p : list psd_t;
  s_sent : sent;
  s_generated : option nat }.                (* objective leaf handed to generate_problem *)

Record ctx : Type := mkCtx { c_fun : option func; c_part : option part }.

Definition init_state (m : model) : state :=
  mkState (m_expr_ctr m) None [] [] [] None (m_track_cons_old m) (m_track_psd_old m) [] None.

Definition mem_nat (x : nat) (l : list nat) : bool := existsb (Nat.eqb x) l.

Fixpoint assoc {A} (v : nat) (l : list (nat * A)) : option A :=
  match l with
  | [] => None
  | (k, a) :: l' => if Nat.eqb v k then Some a else assoc v l'
  end.

(** the list an attribute currently holds *)
Definition fetch (m : model) (c : ctx) (st : state) (s : src) : option (list obj) :=
  match s with
  | SMetrics => Some (map OE (m_metrics m))
  | SPepCons => Some (map OC (m_cons m))
  | SPepPsd => Some (map OP (m_psd m))
  | SClassCons =>
      match c_fun c with
      | Some f => Some (map OC (if mem_nat (f_id f) (s_class_set st) then f_class_cons f else f_class_cons_old f))
      | None => None end
  | SClassPsd =>
      match c_fun c with
      | Some f => Some (map OP (if mem_nat (f_id f) (s_class_set st) then f_class_psd f else f_class_psd_old f))
      | None => None end
  | SOwnCons => match c_fun c with Some f => Some (map OC (f_cons f)) | None => None end
  | SOwnPsd => match c_fun c with Some f => Some (map OP (f_psd f)) | None => None end
  | SPartCons =>
      match c_part c with
      | Some p => Some (map OC (if mem_nat (p_id p) (s_part_set st) then p_cons p else p_cons_old p))
      | None => None end
  end.

Definition is_nil {A} (l : list A) : bool := match l with [] => true | _ => false end.

(** filter conditions are evaluated on the function as it is when the comprehension runs *)
Fixpoint fcond_holds (m : model) (st : state) (f : func) (c : fcond) : option bool :=
  match c with
  | FIsLeaf => Some (f_is_leaf f)
  | FNonEmpty s =>
      match fetch m (mkCtx (Some f) None) st s with
      | Some l => Some (negb (is_nil l))
      | None => None end
  | FOr a b =>
      match fcond_holds m st f a, fcond_holds m st f b with
      | Some x, Some y => Some (x || y) | _, _ => None end
  | FAnd a b =>
      match fcond_holds m st f a, fcond_holds m st f b with
      | Some x, Some y => Some (x && y) | _, _ => None end
  | FNot a => match fcond_holds m st f a with Some x => Some (negb x) | None => None end
  end.

Fixpoint filter_funcs (m : model) (st : state) (c : fcond) (fs : list func) : option (list func) :=
  match fs with
  | [] => Some []
  | f :: fs' =>
      match fcond_holds m st f c, filter_funcs m st c fs' with
      | Some b, Some r => Some (if b then f :: r else r)
      | _, _ => None end
  end.

Definition operand_dict (st : state) (x : obj) (o : operand) : option edict :=
  match o with
  | OObjective => match s_objective st with Some t => Some [(KF t, 1%Q)] | None => None end
  | OLoopVar => match x with OE e => Some e | _ => None end
  end.

Definition eval_payload (st : state) (x : obj) (p : payload) : option obj :=
  match p with
  | PLoopVar => Some x
  | PCompare c l r =>
      match operand_dict st x l, operand_dict st x r with
      | Some a, Some b =>
          Some (OC (match c with CmpLe => c_le a b | CmpGe => c_ge a b | CmpEq => c_eq a b end))
      | _, _ => None end
  end.

Definition set_sent st v := mkState (s_expr_ctr st) (s_objective st) (s_lists st) (s_class_set st) (s_part_set st)
                                    (s_fdim st) (s_track_c st) (s_track_p st) v (s_generated st).
Definition set_track_c st v := mkState (s_expr_ctr st) (s_objective st) (s_lists st) (s_class_set st) (s_part_set st)
                                       (s_fdim st) v (s_track_p st) (s_sent st) (s_generated st).
Definition set_track_p st v := mkState (s_expr_ctr st) (s_objective st) (s_lists st) (s_class_set st) (s_part_set st)
                                       (s_fdim st) (s_track_c st) v (s_sent st) (s_generated st).

Definition wrapper_open (st : state) : bool :=
  match s_fdim st, s_generated st with Some _, None => true | _, _ => false end.

Definition exec_l (st : state) (x : obj) (l : lstmt) : option state :=
  match l with
  | LSend mt p =>
      if wrapper_open st then
        match mt, eval_payload st x p with
        | MScalar, Some (OC c) => Some (set_sent st (s_sent st ++ [SC (fst c) (snd c)]))
        | MLmi, Some (OP mx) => Some (set_sent st (s_sent st ++ [LMI mx]))
        | _, _ => None
        end
      else None
  | LTrack t p =>
      match t, eval_payload st x p with
      | TCons, Some (OC c) => Some (set_track_c st (s_track_c st ++ [c]))
      | TPsd, Some (OP mx) => Some (set_track_p st (s_track_p st ++ [mx]))
      | _, _ => None
      end
  end.

Fixpoint exec_lbody (st : state) (x : obj) (body : list lstmt) : option state :=
  match body with
  | [] => Some st
  | l :: body' => match exec_l st x l with Some st' => exec_lbody st' x body' | None => None end
  end.

Fixpoint exec_items (body : list lstmt) (xs : list obj) (st : state) : option state :=
  match xs with
  | [] => Some st
  | x :: xs' => match exec_lbody st x body with Some st' => exec_items body xs' st' | None => None end
  end.

(** sequencing and the loops over functions / partitions, parametrised by the interpreter of one statement *)
Section Lists.
  Variable run : ctx -> stmt -> state -> option state.

  Fixpoint run_list (c : ctx) (l : list stmt) (st : state) {struct l} : option state :=
    match l with
    | [] => Some st
    | s :: l' => match run c s st with Some st' => run_list c l' st' | None => None end
    end.

  Variable body : list stmt.

  Fixpoint run_funcs (cp : option part) (fs : list func) (st : state) {struct fs} : option state :=
    match fs with
    | [] => Some st
    | f :: fs' =>
        match run_list (mkCtx (Some f) cp) body st with
        | Some st' => run_funcs cp fs' st' | None => None end
    end.

  Fixpoint run_parts (cf : option func) (ps : list part) (st : state) {struct ps} : option state :=
    match ps with
    | [] => Some st
    | p :: ps' =>
        match run_list (mkCtx cf (Some p)) body st with
        | Some st' => run_parts cf ps' st' | None => None end
    end.
End Lists.

Fixpoint exec (m : model) (c : ctx) (s : stmt) (st : state) {struct s} : option state :=
  match s with
  | ObjectiveLeaf =>
      Some (mkState (S (s_expr_ctr st)) (Some (s_expr_ctr st)) (s_lists st) (s_class_set st) (s_part_set st)
                    (s_fdim st) (s_track_c st) (s_track_p st) (s_sent st) (s_generated st))
  | BindFunctions v cnd =>
      match filter_funcs m st cnd (m_funcs m) with
      | Some fs => Some (mkState (s_expr_ctr st) (s_objective st) ((v, fs) :: s_lists st) (s_class_set st)
                                 (s_part_set st) (s_fdim st) (s_track_c st) (s_track_p st) (s_sent st)
                                 (s_generated st))
      | None => None end
  | SetMainVariables =>
      match s_fdim st with
      | None => Some (mkState (s_expr_ctr st) (s_objective st) (s_lists st) (s_class_set st) (s_part_set st)
                              (Some (s_expr_ctr st)) (s_track_c st) (s_track_p st) (s_sent st) (s_generated st))
      | Some _ => None end
  | InitTrack TCons => Some (set_track_c st [])
  | InitTrack TPsd => Some (set_track_p st [])
  | GenerateProblem =>
      match s_fdim st, s_generated st, s_objective st with
      | Some _, None, Some t =>
          Some (mkState (s_expr_ctr st) (s_objective st) (s_lists st) (s_class_set st) (s_part_set st)
                        (s_fdim st) (s_track_c st) (s_track_p st) (s_sent st) (Some t))
      | _, _, _ => None end
  | SetClassConstraints =>
      match c_fun c with
      | Some f => Some (mkState (s_expr_ctr st + f_fresh_exprs f) (s_objective st) (s_lists st)
                                (f_id f :: s_class_set st) (s_part_set st) (s_fdim st) (s_track_c st)
                                (s_track_p st) (s_sent st) (s_generated st))
      | None => None end
  | AddPartitionConstraints =>
      match c_part c with
      | Some p => Some (mkState (s_expr_ctr st) (s_objective st) (s_lists st) (s_class_set st)
                                (p_id p :: s_part_set st) (s_fdim st) (s_track_c st) (s_track_p st)
                                (s_sent st) (s_generated st))
      | None => None end
  | ForFunctions v body =>
      match assoc v (s_lists st) with
      | Some fs => run_funcs (exec m) body (c_part c) fs st
      | None => None end
  | ForPartitions body => run_parts (exec m) body (c_fun c) (m_parts m) st
  | IfNonEmpty s body =>
      match fetch m c st s with
      | Some [] => Some st
      | Some _ => run_list (exec m) c body st
      | None => None end
  | ForItems s body =>
      match fetch m c st s with
      | Some xs => exec_items body xs st
      | None => None end
  end.

Definition exec_list (m : model) : ctx -> list stmt -> state -> option state := run_list (exec m).

(** what the wrapper holds when [generate_problem] has been called *)
Record result : Type := mkResult {
  r_sent : sent;
  r_track_cons : list cons_t;
  r_track_psd : list psd_t;
  r_objective : nat;         (* leaf index of the maximised expression *)
  r_fdim : nat }.            (* length of the solver's F variable *)

Definition collect (plan : list stmt) (m : model) : option result :=
  match exec_list m (mkCtx None None) plan (init_state m) with
  | Some st =>
      match s_generated st, s_fdim st with
      | Some t, Some n => Some (mkResult (s_sent st) (s_track_c st) (s_track_p st) t n)
      | _, _ => None end
  | None => None
  end.

(* ---------------------------------------------------------------- dumps (correspondence) *)
Definition dump_psd (mx : psd_t) : D := DL (map (fun row => DL (map dump_edict row)) mx).
Definition dump_item (it : item) : D :=
  match it with
  | SC e s => DL [DZ 0; dump_cons (e, s)]
  | LMI mx => DL [DZ 1; dump_psd mx]
  end.
Definition dump_result (r : option result) : D :=
  match r with
  | None => DS "error"%string
  | Some r => DL [DL (map dump_item (r_sent r)); DL (map dump_cons (r_track_cons r));
                  DL (map dump_psd (r_track_psd r)); DN (r_objective r); DN (r_fdim r)]
  end.
