(** Canonical dump of the method-recording model (correspondence with Function.oracle on leaf functions). *)
From Coq Require Import List QArith ZArith Bool String.
From PV Require Import Model.Dict Model.Terms Model.Dump Model.Method.
Import ListNotations.

Definition dump_msample (t : msample) : D :=
  let '(x, g, fx) := t in DL [dump_pdict x; dump_pdict g; dump_edict fx].

Definition samples_of (f : nat) (s : mstate) : list msample :=
  flat_map (fun '(f', t) => if Nat.eqb f f' then [t] else []) (m_samples s).

Definition cons_of (f : nat) (s : mstate) : list (edict * sense) :=
  flat_map (fun '(f', c) => if Nat.eqb f f' then [c] else []) (m_cons s).

(** counters, then the recorded samples of functions 0 .. nf-1, each in recording order, then the constraints the
    steps added to each function *)
Definition dump_mrun (nf : nat) (ops : list mop) : D :=
  let s := mrun ops minit in
  DL [DN (m_np s); DN (m_ne s); DB (mwf ops minit);
      DL (map (fun f => DL (map dump_msample (samples_of f s))) (seq 0 nf));
      DL (map (fun f => DL (map dump_cons (cons_of f s))) (seq 0 nf))].
