(** Executable model of the four [eval] methods of PEPit with their [_value] caches
    (PEPit/point.py 274-300, expression.py 387-432, constraint.py 95-117, psd_matrix.py 150-172)
    and of the leaf assignment of [PEP._eval_points_and_function_values] (pep.py 889-895).

    Leaf points / leaf expressions are identified by their class counter (the index in the
    registries [Point.list_of_leaf_points] / [Expression.list_of_leaf_expressions]); their [_value]
    lives in the tables [lpv] / [lev] ([None] = the Python attribute is [None]).  Every other object a
    user can hold (derived point, derived expression, constraint, LMI) is an entry of the store
    [objs], referred to by its creation index; it carries its own optional cache and optional dual.
    Numbers are exact rationals; no proofs in this file. *)
From Coq Require Import List QArith Qabs ZArith Bool Arith String.
From PV Require Import Model.Dict Model.Terms Model.Dump.
Import ListNotations.
Local Open Scope Q_scope.
Local Notation length := List.length.

(** Python exceptions seen by the caller of [eval]:
    [EUnsolved] = ValueError("The PEP must be solved to evaluate ...")
    [EShape]    = numpy's ValueError on operands of different lengths (broadcasting / dot). *)
Inductive err : Type := EUnsolved | EShape.
Inductive res (A : Type) : Type := Ok (a : A) | Raise (e : err).
Arguments Ok {A}.
Arguments Raise {A}.

(** An [Expression] object as it sits inside a constraint or an LMI: a leaf (by counter) or a derived
    expression held in the store. *)
Inductive eh : Type := ELeaf (id : nat) | ERef (r : nat).

Inductive okind : Type :=
| KPoint (d : pdict)                      (* Point(is_leaf=False, decomposition_dict=d) *)
| KExpr (d : edict)                       (* Expression(is_leaf=False, decomposition_dict=d) *)
| KCons (e : eh) (s : sense)              (* Constraint(expression=e, ...) *)
| KLmi (m : list (list eh)).              (* PSDMatrix(matrix_of_expressions=m) *)

Inductive val : Type := VVec (v : list Q) | VNum (q : Q) | VMat (m : list (list Q)).

Record obj : Type := mkObj { okind_of : okind; ocache : option val; odual : option val }.

Record est : Type := mkEst {
  objs : list obj;
  lpv : list (option (list Q));           (* leaf point counter -> _value ; length = Point.counter *)
  lev : list (option Q)                   (* leaf expression counter -> _value ; length = Expression.counter *)
}.

Definition est0 : est := mkEst [] [] [].

(** ** numpy on vectors *)
Definition vscale (w : Q) (v : list Q) : list Q := map (Qmult w) v.

Fixpoint zipadd (a b : list Q) : list Q :=
  match a, b with
  | x :: a', y :: b' => (x + y) :: zipadd a' b'
  | _, _ => []
  end.

(** [value + v] (a new array, NOT in place): equal lengths add pointwise; a length-1 operand on
    either side is broadcast; anything else is numpy's "operands could not be broadcast together". *)
Definition np_add (a b : list Q) : res (list Q) :=
  if Nat.eqb (length a) (length b) then Ok (zipadd a b)
  else if Nat.eqb (length b) 1 then Ok (map (fun x => x + hd 0 b) a)
  else if Nat.eqb (length a) 1 then Ok (map (fun x => hd 0 a + x) b)
  else Raise EShape.

Fixpoint dotl (a b : list Q) : Q :=
  match a, b with
  | x :: a', y :: b' => x * y + dotl a' b'
  | _, _ => 0
  end.

Definition np_dot (a b : list Q) : res Q :=
  if Nat.eqb (length a) (length b) then Ok (dotl a b) else Raise EShape.

(** ** leaves: [if self._value is None: raise ValueError(...)] *)
Definition leafP (st : est) (i : nat) : res (list Q) :=
  match nth_error (lpv st) i with Some (Some v) => Ok v | _ => Raise EUnsolved end.
Definition leafE (st : est) (i : nat) : res Q :=
  match nth_error (lev st) i with Some (Some q) => Ok q | _ => Raise EUnsolved end.

(** ** Point.eval on a derived point (point.py 294-300, after the repair e997f00):
      value = 0
      for point, weight in dict.items(): value = value + weight * point.eval()
      if len(dict) == 0: value = np.zeros(Point.counter)
    The accumulator is [None] while it is still the integer 0 ([0 + array] is the array).  Only the EMPTY
    combination still looks at the class counter: its null vector has [m] = the CURRENT number of leaf
    points coordinates (documented in Props/C02: finding F-C02b). *)
Fixpoint point_sum (st : est) (acc : option (list Q)) (d : pdict) : res (option (list Q)) :=
  match d with
  | [] => Ok acc
  | (k, w) :: d' =>
      match leafP st k with
      | Raise e => Raise e
      | Ok v => match acc with
                | None => point_sum st (Some (vscale w v)) d'
                | Some a => match np_add a (vscale w v) with
                            | Raise e => Raise e
                            | Ok a' => point_sum st (Some a') d'
                            end
                end
      end
  end.
Definition point_compute (m : nat) (st : est) (d : pdict) : res (list Q) :=
  match point_sum st None d with
  | Raise e => Raise e
  | Ok (Some v) => Ok v
  | Ok None => Ok (repeat 0 m)              (* reached exactly when d = [] *)
  end.

(** ** Expression.eval on a derived expression: three kinds of keys *)
Definition key_val (st : est) (k : ekey) : res Q :=
  match k with
  | KF e => leafE st e
  | KG i j => match leafP st i with
              | Raise e => Raise e
              | Ok vi => match leafP st j with
                         | Raise e => Raise e
                         | Ok vj => np_dot vi vj
                         end
              end
  | K1 => Ok 1
  end.
Fixpoint expr_sum (st : est) (acc : Q) (d : edict) : res Q :=
  match d with
  | [] => Ok acc
  | (k, w) :: d' =>
      match key_val st k with
      | Raise e => Raise e
      | Ok x => expr_sum st (acc + w * x) d'
      end
  end.
Definition expr_compute (st : est) (d : edict) : res Q := expr_sum st 0 d.

(** ** the store *)
Fixpoint upd_nth {A} (f : A -> A) (n : nat) (l : list A) : list A :=
  match l, n with
  | [], _ => []
  | a :: l', O => f a :: l'
  | a :: l', S n' => a :: upd_nth f n' l'
  end.
Definition set_cache (st : est) (r : nat) (v : val) : est :=
  mkEst (upd_nth (fun o => mkObj (okind_of o) (Some v) (odual o)) r (objs st)) (lpv st) (lev st).
Definition set_dual (st : est) (r : nat) (v : val) : est :=
  mkEst (upd_nth (fun o => mkObj (okind_of o) (ocache o) (Some v)) r (objs st)) (lpv st) (lev st).
Definition get_obj (st : est) (r : nat) : option obj := nth_error (objs st) r.

Definition as_num (v : val) : Q := match v with VNum q => q | _ => 0 end.

(** [expression.eval()] for an Expression object sitting in a constraint / an LMI entry.
    A leaf has no cache of its own (its [_value] IS the assigned value); a derived expression
    returns its cache when it has one, otherwise computes, stores and returns. *)
Definition eval_eh (st : est) (e : eh) : est * res Q :=
  match e with
  | ELeaf id => (st, leafE st id)
  | ERef r =>
      match get_obj st r with
      | Some o =>
          match okind_of o with
          | KExpr d =>
              match ocache o with
              | Some v => (st, Ok (as_num v))
              | None => match expr_compute st d with
                        | Ok q => (set_cache st r (VNum q), Ok q)
                        | Raise e => (st, Raise e)
                        end
              end
          | _ => (st, Raise EShape)            (* not an Expression: unreachable in well-formed stores *)
          end
      | None => (st, Raise EShape)
      end
  end.

(** [[expression.eval() for expression in line]]: left to right, stops at the first exception,
    the entries evaluated so far keep their fresh caches. *)
Fixpoint eval_row (st : est) (row : list eh) : est * res (list Q) :=
  match row with
  | [] => (st, Ok [])
  | e :: row' =>
      match eval_eh st e with
      | (st1, Raise x) => (st1, Raise x)
      | (st1, Ok q) => match eval_row st1 row' with
                       | (st2, Raise x) => (st2, Raise x)
                       | (st2, Ok qs) => (st2, Ok (q :: qs))
                       end
      end
  end.
Fixpoint eval_rows (st : est) (m : list (list eh)) : est * res (list (list Q)) :=
  match m with
  | [] => (st, Ok [])
  | row :: m' =>
      match eval_row st row with
      | (st1, Raise x) => (st1, Raise x)
      | (st1, Ok qs) => match eval_rows st1 m' with
                        | (st2, Raise x) => (st2, Raise x)
                        | (st2, Ok qss) => (st2, Ok (qs :: qss))
                        end
      end
  end.

(** [obj.eval()] for the object with reference [r]. *)
Definition eval_obj (st : est) (r : nat) : est * res val :=
  match get_obj st r with
  | None => (st, Raise EShape)
  | Some o =>
      match ocache o with
      | Some v => (st, Ok v)                                   (* "if self._value is None" is false *)
      | None =>
          match okind_of o with
          | KPoint d =>
              match point_compute (length (lpv st)) st d with    (* np.zeros(Point.counter) *)
              | Ok v => (set_cache st r (VVec v), Ok (VVec v))
              | Raise e => (st, Raise e)
              end
          | KExpr d =>
              match expr_compute st d with
              | Ok q => (set_cache st r (VNum q), Ok (VNum q))
              | Raise e => (st, Raise e)
              end
          | KCons e _ =>
              match eval_eh st e with
              | (st1, Ok q) => (set_cache st1 r (VNum q), Ok (VNum q))
              | (st1, Raise _) => (st1, Raise EUnsolved)       (* except ValueError: raise ValueError(...) *)
              end
          | KLmi m =>
              match eval_rows st m with
              | (st1, Ok qss) => (set_cache st1 r (VMat qss), Ok (VMat qss))
              | (st1, Raise _) => (st1, Raise EUnsolved)
              end
          end
      end
  end.

Definition eval_dual (st : est) (r : nat) : res val :=
  match get_obj st r with
  | Some o => match odual o with Some v => Ok v | None => Raise EUnsolved end
  | None => Raise EShape
  end.

(** ** creation *)
Definition new_leafP (st : est) : est := mkEst (objs st) (lpv st ++ [None]) (lev st).
Definition new_leafE (st : est) : est := mkEst (objs st) (lpv st) (lev st ++ [None]).
Definition new_obj (st : est) (k : okind) : est := mkEst (objs st ++ [mkObj k None None]) (lpv st) (lev st).
Definition next_ref (st : est) : nat := length (objs st).

(** ** leaf assignment (pep.py 889-895).  [Pm] = the matrix [points_values] as a list of rows,
    [Fv] = [F_value].
      for point in Point.list_of_leaf_points:           point._value = points_values[:, point.counter]
      for expression in Expression.list_of_leaf_expressions: expression._value = F_value[expression.counter]
    The registries hold the leaves in creation order and [counter] = position (class counters are only
    ever incremented on registration), so the loops visit counters 0 .. n-1.  Only the LEAF tables are
    written: no cache of a derived object, constraint or LMI is touched. *)
Definition column (Pm : list (list Q)) (i : nat) : list Q := map (fun row => nth i row 0) Pm.
Definition assign_solution (st : est) (Pm : list (list Q)) (Fv : list Q) : est :=
  mkEst (objs st)
        (map (fun i => Some (column Pm i)) (seq 0 (length (lpv st))))
        (map (fun i => Some (nth i Fv 0)) (seq 0 (length (lev st)))).

(** The extra loop over [self.list_of_psd] (pep.py 896-922) re-assigns the SAME entries of
    [points_values] / [F_value] to the leaves occurring in the PEP-level LMIs. *)
Definition reassign_leafP (st : est) (Pm : list (list Q)) (i : nat) : est :=
  mkEst (objs st) (upd_nth (fun _ => Some (column Pm i)) i (lpv st)) (lev st).
Definition reassign_leafE (st : est) (Fv : list Q) (i : nat) : est :=
  mkEst (objs st) (lpv st) (upd_nth (fun _ => Some (nth i Fv 0)) i (lev st)).

(** ** dumps *)
Definition dump_err (e : err) : D := DS (match e with EUnsolved => "unsolved" | EShape => "shape" end)%string.
(** numbers that went through eigh / QR on the Python side are compared with a tolerance: they are
    wrapped in [DL [DS "~"; ...]] (see [D_close]) *)
Definition approx (l : list D) : D := DL (DS "~"%string :: l).
Definition dump_val (v : val) : D :=
  match v with
  | VVec x => DL (map DQ x)
  | VNum q => DQ q
  | VMat m => DL (map (fun row => DL (map DQ row)) m)
  end.

(** A vector is observed through inner products only (QR fixes coordinates up to an orthogonal map):
    its length, its squared norm and, when [cross] is set, its inner product with every leaf point
    whose current value has the same length. *)
Definition cross_dots (st : est) (v : list Q) : list D :=
  flat_map (fun ov => match ov with
                      | Some u => if Nat.eqb (length u) (length v) then [DQ (dotl v u)] else [DL []]
                      | None => [DL []]
                      end) (lpv st).
Definition dump_vec (st : est) (cross : bool) (v : list Q) : D :=
  DL [DN (length v); approx [DQ (dotl v v)]; approx (if cross then cross_dots st v else [])].

(** tolerant comparison: exact on integers / strings / shapes, and on rationals outside a "~" block;
    inside a "~" block [|x - y| <= tol * (1 + |x|)] *)
Definition q_close (tol x y : Q) : bool := Qle_bool (Qabs (x - y)) (tol * (1 + Qabs x)).
Fixpoint D_close (tol : Q) (ap : bool) (a b : D) {struct a} : bool :=
  match a, b with
  | DZ x, DZ y => Z.eqb x y
  | DQ x, DQ y => if ap then q_close tol x y else Qeq_bool x y
  | DS x, DS y => String.eqb x y
  | DL x, DL y =>
      let ap' := match x with DS s :: _ => if String.eqb s "~" then true else ap | _ => ap end in
      (fix go (x y : list D) {struct x} : bool :=
         match x, y with
         | [], [] => true
         | a :: x', b :: y' => D_close tol ap' a b && go x' y'
         | _, _ => false
         end) x y
  | _, _ => false
  end.
