(** Executable model of PEPit/block_partition.py (BlockPartition.get_block,
    BlockPartition.add_partition_constraints) and of the way pep.py drives partitions
    (declare_block_partition; the solve-time loop calling add_partition_constraints on every partition).

    A Point OBJECT is identified by an [objid] (a nat supplied by the harness: the identity of the
    Python object; Point defines neither __eq__ nor __hash__, so [blocks_dict] is keyed by identity).
    A LEAF point is identified, as everywhere in the model, by its [counter] (value of Point.counter
    when it was created); the keys of point dictionaries are leaf ids.  No proofs in this file. *)
From Coq Require Import String List QArith Bool Arith.
From PV Require Import Model.Dict Model.Terms Model.Dump.
Import ListNotations.
Local Open Scope Q_scope.

Definition objid := nat.

(** One BlockPartition: [self.d], the global [Point.counter] as seen by this partition, and
    [self.blocks_dict] in insertion order (values: the list of the d block dictionaries). *)
Record pstate : Type := mkP {
  bp_d : nat;
  bp_next : nat;
  bp_blocks : list (objid * list pdict)
}.

Definition init_partition (d next : nat) : pstate := mkP d next [].

(** [self.blocks_dict[point]] / [point not in self.blocks_dict.keys()] *)
Fixpoint find_blocks (o : objid) (l : list (objid * list pdict)) : option (list pdict) :=
  match l with
  | [] => None
  | (o', bl) :: l' => if Nat.eqb o o' then Some bl else find_blocks o l'
  end.

(** a leaf Point(): decomposition_dict = {self: 1} *)
Definition leaf_dict (id : nat) : pdict := [(id, 1)].

(** the module-level [null_point]: non-leaf, empty dictionary *)
Definition null_dict : pdict := [].

(** [for i in range(self.d-1): new_point = Point(); accumulation += new_point;
     point_partition.append(new_point)].
    [accumulation += new_point] is [accumulation = accumulation.__add__(new_point)] (Point has no
    __iadd__): merge then prune. *)
Fixpoint fresh_loop (n next : nat) (acc : pdict) (part : list pdict) : nat * pdict * list pdict :=
  match n with
  | O => (next, acc, part)
  | S n' => fresh_loop n' (S next) (p_add acc (leaf_dict next)) (part ++ [leaf_dict next])
  end.

(** the "not in" branch of get_block: returns the new Point.counter and [point_partition]
    ([point_partition.append(point - accumulation)]: Point.__sub__ = __add__ of (-1) * accumulation). *)
Definition decompose (d next : nat) (pd : pdict) : nat * list pdict :=
  let '(next', acc, part) := fresh_loop (d - 1) next null_dict [] in
  (next', part ++ [p_sub pd acc]).

(** BlockPartition.get_block(point, block_number) for 0 <= block_number <= d-1
    ([obj]: identity of [point], [pd]: its decomposition_dict at the time of the call). *)
Definition get_block (st : pstate) (obj : objid) (pd : pdict) (k : nat) : pdict * pstate :=
  match find_blocks obj (bp_blocks st) with
  | Some bl => (nth k bl [], st)
  | None =>
      let '(next', bl) := decompose (bp_d st) (bp_next st) pd in
      (nth k bl [], mkP (bp_d st) next' (bp_blocks st ++ [(obj, bl)]))
  end.

(** BlockPartition.add_partition_constraints: the list is reset, then
    [for xi in values: for xj in values: for k in range(d): for l in range(k):
       add_constraint(xi[k] * xj[l] == 0)]
    ([Point * Point] = multiply_dicts, [Expression == 0] = Constraint(self - 0, 'equality')). *)
Definition block_constraint (a b : pdict) : edict * sense := c_eqs (multiply a b) 0.

Definition partition_constraints (st : pstate) : list (edict * sense) :=
  let vals := map snd (bp_blocks st) in
  flat_map (fun xi =>
    flat_map (fun xj =>
      flat_map (fun k =>
        map (fun l => block_constraint (nth k xi []) (nth l xj [])) (seq 0 k))
        (seq 0 (bp_d st)))
      vals)
    vals.

(** * Solve time, several partitions (pep.py, PEP._solve_with_wrapper)

    [BlockPartition.list_of_partitions] is the class-level registry: BlockPartition.__init__ appends
    EVERY partition to it, whether it was built by [pep.declare_block_partition(d)] (a staticmethod:
    any PEP object, or the class, will do) or directly by [BlockPartition(d)]; PEP() resets it.
    At solve time
      [for partition in BlockPartition.list_of_partitions: partition.add_partition_constraints()]
    and later, with no guard,
      [for partition in BlockPartition.list_of_partitions:
         for constraint in partition.list_of_constraints: wrapper.send_constraint_to_solver(constraint)]
    so what reaches the wrapper from the partitions is the concatenation, in registry order, of the
    lists of ALL registered partitions (one-block and never-used partitions contribute nothing and
    change nothing for the others). *)
Definition sent_partition_constraints (parts : list pstate) : list (edict * sense) :=
  flat_map partition_constraints parts.

(** * The world of the correspondence stream: objects, several partitions, one Point.counter. *)
Inductive wop : Type :=
| WLeaf                                   (* Point() *)
| WTerm (t : pterm)                       (* real operators over existing objects; PVar v = object number v *)
| WPart (d : nat)                         (* pep.declare_block_partition(d), through any PEP object *)
| WPartC (d : nat)                        (* BlockPartition(d): the class constructor, same registry *)
| WSolve                                  (* pep.solve(): the scalar constraints received by the wrapper *)
| WGet (p : nat) (obj : nat) (k : nat)    (* partitions[p].get_block(objects[obj], k) *)
| WCons (p : nat).                        (* partitions[p].add_partition_constraints(); list_of_constraints *)

Record world : Type := mkW {
  w_ctr : nat;                            (* Point.counter *)
  w_objs : list pdict;                    (* decomposition_dict of every object, by object number *)
  w_parts : list pstate;
  w_base : list (nat * nat * nat)         (* (partition, object, object number of its block 0) *)
}.

Definition world0 : world := mkW 0 [] [] [].

Fixpoint find_base (p o : nat) (l : list (nat * nat * nat)) : option nat :=
  match l with
  | [] => None
  | (p', o', b) :: l' => if Nat.eqb p p' && Nat.eqb o o' then Some b else find_base p o l'
  end.

Fixpoint set_nth {A} (i : nat) (x : A) (l : list A) : list A :=
  match l, i with
  | [], _ => []
  | _ :: l', O => x :: l'
  | a :: l', S i' => a :: set_nth i' x l'
  end.

Definition wstep (w : world) (o : wop) : world * D :=
  match o with
  | WLeaf =>
      (mkW (S (w_ctr w)) (w_objs w ++ [leaf_dict (w_ctr w)]) (w_parts w) (w_base w),
       DL [DN (length (w_objs w)); DN (S (w_ctr w))])
  | WTerm t =>
      let pd := compileP (fun _ => 0) (fun v => nth v (w_objs w) []) t in
      (mkW (w_ctr w) (w_objs w ++ [pd]) (w_parts w) (w_base w),
       DL [DN (length (w_objs w)); dump_pdict pd])
  | WPart d | WPartC d =>
      (mkW (w_ctr w) (w_objs w) (w_parts w ++ [init_partition d 0]) (w_base w),
       DL [DN (length (w_parts w)); DN d])
  | WSolve =>
      (* a PEP of the stream has no metric, no constraint and no function of its own *)
      (w, DL (map dump_cons (sent_partition_constraints (w_parts w))))
  | WGet p obj k =>
      match nth_error (w_parts w) p, nth_error (w_objs w) obj with
      | Some st, Some pd =>
          if Nat.ltb k (bp_d st) then
            let st0 := mkP (bp_d st) (w_ctr w) (bp_blocks st) in
            let '(b, st1) := get_block st0 obj pd k in
            match find_base p obj (w_base w) with
            | Some base =>      (* decomposed before: the stored objects are returned *)
                (mkW (bp_next st1) (w_objs w) (set_nth p st1 (w_parts w)) (w_base w),
                 DL [dump_pdict b; DN (base + k); DN (bp_next st1)])
            | None =>           (* the d blocks are new objects *)
                let base := length (w_objs w) in
                let bl := match find_blocks obj (bp_blocks st1) with Some bl => bl | None => [] end in
                (mkW (bp_next st1) (w_objs w ++ bl) (set_nth p st1 (w_parts w)) (w_base w ++ [(p, obj, base)]),
                 DL [dump_pdict b; DN (base + k); DN (bp_next st1)])
            end
          else (w, DS "AssertionError"%string)
      | _, _ => (w, DS "bad-reference"%string)
      end
  | WCons p =>
      match nth_error (w_parts w) p with
      | Some st => (w, DL (map dump_cons (partition_constraints st)))
      | None => (w, DS "bad-reference"%string)
      end
  end.

Fixpoint wrun (w : world) (ops : list wop) : list D :=
  match ops with
  | [] => []
  | o :: r => let '(w', d) := wstep w o in d :: wrun w' r
  end.

Definition run_world (ops : list wop) : D := DL (wrun world0 ops).
