(** The oracle calls of a method, as PEPit records them (C09).

    A modelled method is a straight-line program over the DSL: free leaf points (starting point,
    optimum, ...), linear combinations of earlier points (built with the Point operators, C06), and
    evaluations of LEAF functions at such points.  For a leaf function evaluated at a point it has
    not been evaluated on, [Function.oracle] (PEPit/function.py) allocates a fresh leaf Point for the
    gradient and a fresh leaf Expression for the value and records the triple.  This file models
    exactly that bookkeeping (the reuse of earlier evaluations is property C07's model). *)
From Coq Require Import List QArith ZArith Arith Bool.
From PV Require Import Model.Dict Model.Terms.
Import ListNotations.

(** the three accuracy criteria of inexact_proximal_step ('PD_gapI', 'PD_gapII', 'PD_gapIII') *)
Inductive ipopt : Type := PDgapI | PDgapII | PDgapIII.

Inductive mop : Type :=
| MFresh                        (* x = Point() : a free leaf point *)
| MEval (f : nat) (p : pdict)   (* g, fx = f.oracle(p) : fresh gradient leaf, fresh value leaf *)
| MStat (f : nat)               (* xs = f.stationary_point() : fresh leaf point, EMPTY gradient, fresh value leaf *)
| MProx (f : nat) (p : pdict) (gamma : Q)
                                (* x, gx, fx = proximal_step(p, f, gamma) (PEPit/primitive_steps/proximal_step.py):
                                   gx = Point(); fx = Expression(); x = p - gamma * gx; f.add_point((x, gx, fx)) *)
| MLinOpt (f : nat) (dir : pdict)
                                (* x, gx, fx = linear_optimization_step(dir, f) (primitive_steps/linear_optimization_step.py):
                                   x = Point(); gx = -dir; fx = Expression(); f.add_point((x, gx, fx)) *)
| MInexact (f : nat) (p : pdict) (relative : bool) (eps : Q)
                                (* x, dx0, fx0 = inexact_gradient_step(p, f, gamma, eps, notion) (inexact_gradient_step.py):
                                   gx0, fx0 = f.oracle(p); dx0 = Point();
                                   f.add_constraint((gx0 - dx0) ** 2 - eps ** 2 [* gx0 ** 2] <= 0);
                                   the returned x = p - gamma * dx0 is not recorded anywhere *)
| MLineSearch (f : nat) (x0 : pdict) (dirs : list pdict)
                                (* x, gx, fx = exact_linesearch_step(x0, f, dirs) (exact_linesearch_step.py):
                                   x = Point(); gx, fx = f.oracle(x); f.add_constraint((x - x0) * gx == 0);
                                   for d in dirs: f.add_constraint(d * gx == 0) *)
| MEpsSub (f : nat) (p : pdict)
                                (* x, g0, f0, epsilon = epsilon_subgradient_step(p, f, gamma) (epsilon_subgradient_step.py):
                                   g0 = Point(); f0 = f.value(p) (an oracle call: fresh gradient leaf, fresh value leaf);
                                   epsilon = Expression(); y = Point(); fy = Expression(); f.add_point((y, g0, fy));
                                   f.add_constraint(f0 + (g0 * y - fy) - g0 * p <= epsilon);
                                   the returned x = p - gamma * g0 is not recorded anywhere *)
| MBregGrad (h : nat) (gx0 sx0 : pdict) (gamma : Q)
                                (* x, sx, hx = bregman_gradient_step(gx0, sx0, h, gamma) (bregman_gradient_step.py):
                                   x = Point(); hx = Expression(); sx = sx0 - gamma * gx0; h.add_point((x, sx, hx)) *)
| MBregProx (h f : nat) (sx0 : pdict) (gamma : Q)
                                (* x, sx, hx, gx, fx = bregman_proximal_step(sx0, h, f, gamma) (bregman_proximal_step.py):
                                   x = Point(); gx = Point(); fx = Expression(); sx = sx0 - gamma * gx; hx = Expression();
                                   f.add_point((x, gx, fx)); h.add_point((x, sx, hx)) *)
| MInexactProx (f : nat) (x0 : pdict) (gamma : Q) (opt : ipopt).
                                (* x, gx, fx, w, v, fw, eps_var = inexact_proximal_step(x0, f, gamma, opt)
                                   (inexact_proximal_step.py):
                                   PD_gapI:   v = Point(); w = Point(); fw = Expression(); f.add_point((w, v, fw));
                                              x = Point(); gx = Point(); fx = Expression(); f.add_point((x, gx, fx));
                                              eps_var = Expression(); e = x - x0 + gamma * v;
                                              f.add_constraint(e ** 2 / 2 + gamma * (fx - fw - v * (x - w)) <= eps_var)
                                   PD_gapII:  e = Point(); gx = Point(); x = x0 - gamma * gx + e; fx = Expression();
                                              f.add_point((x, gx, fx)); eps_var = Expression();
                                              f.add_constraint(e ** 2 / 2 <= eps_var)
                                   PD_gapIII: x, gx, w = Point(), Point(), Point(); v = (x0 - x) / gamma;
                                              fw, fx = Expression(), Expression(); f.add_point((x, gx, fx));
                                              f.add_point((w, v, fw)); eps_var = Expression();
                                              f.add_constraint(gamma * (fx - fw - v * (x - w)) <= eps_var) *)

Definition msample : Type := (pdict * pdict * edict)%type.

Record mstate : Type := mkM {
  m_np : nat;                               (* Point.counter *)
  m_ne : nat;                               (* Expression.counter *)
  m_samples : list (nat * msample);         (* (function id, recorded triple), in recording order *)
  m_cons : list (nat * (edict * sense))     (* (function id, constraint added to that function by a step) *)
}.

Definition minit : mstate := mkM 0 0 [] [].

(** the accuracy constraint of inexact_gradient_step, as the operator overloads build it: gx0 is leaf n, dx0 leaf
    S n (same formula as the one the translator reads into Gen/Steps.v) *)
Definition inexact_formula (relative : bool) : cterm :=
  if relative
  then CLeS (XSub (XSq (PSub (PVar 0) (PVar 1))) (XScal (SPow (SPar 0) 2) (XSq (PVar 0)))) (SNum 0)
  else CLeS (XSubS (XSq (PSub (PVar 0) (PVar 1))) (SPow (SPar 0) 2)) (SNum 0).
Definition inexact_vp (n : nat) : nat -> pdict :=
  fun v => match v with O => [(n, 1%Q)] | _ => [(S n, 1%Q)] end.
Definition inexact_cons (n : nat) (relative : bool) (eps : Q) : edict * sense :=
  compileC (fun _ => eps) (inexact_vp n) (fun _ => []) (inexact_formula relative).

(** the orthogonality constraints of exact_linesearch_step: x is leaf n, gx leaf S n (same formulas as the ones the
    translator reads into Gen/Steps.v) *)
Definition ls_vp0 (n : nat) (x0 : pdict) : nat -> pdict :=
  fun v => match v with O => [(n, 1%Q)] | S O => x0 | _ => [(S n, 1%Q)] end.
Definition ls_cons0 (n : nat) (x0 : pdict) : edict * sense :=
  compileC (fun _ => 0%Q) (ls_vp0 n x0) (fun _ => [])
           (CEqS (XInner (PSub (PVar 0) (PVar 1)) (PVar 2)) (SNum 0)).
Definition ls_vp (n : nat) (d : pdict) : nat -> pdict :=
  fun v => match v with O => d | _ => [(S n, 1%Q)] end.
Definition ls_cons (n : nat) (d : pdict) : edict * sense :=
  compileC (fun _ => 0%Q) (ls_vp n d) (fun _ => []) (CEqS (XInner (PVar 0) (PVar 1)) (SNum 0)).

(** the epsilon-subgradient constraint of epsilon_subgradient_step, as the operator overloads build it
    ([fstarg0 = g0 * y - fy] inlined; same formula as the one the translator reads into Gen/Steps.v): point variables
    x0 = 0 (the dictionary p), g0 = 1 (leaf n), y = 3 (leaf S (S n)); expression variables f0 = 0 (leaf e),
    epsilon = 1 (leaf S e), fy = 2 (leaf S (S e)) *)
Definition epssub_formula : cterm :=
  CLe (XSub (XAdd (XVar 0) (XSub (XInner (PVar 1) (PVar 3)) (XVar 2))) (XInner (PVar 1) (PVar 0))) (XVar 1).
Definition epssub_vp (n : nat) (p : pdict) : nat -> pdict :=
  fun v => match v with O => p | S O => [(n, 1%Q)] | _ => [(S (S n), 1%Q)] end.
Definition epssub_vx (e : nat) : nat -> edict :=
  fun v => match v with O => [(KF e, 1%Q)] | S O => [(KF (S e), 1%Q)] | _ => [(KF (S (S e)), 1%Q)] end.
Definition epssub_cons (n e : nat) (p : pdict) : edict * sense :=
  compileC (fun _ => 0%Q) (epssub_vp n p) (epssub_vx e) epssub_formula.

(** the gradient of the mirror map recorded by the two Bregman steps: [sx0 - gamma * g] is Point.__rmul__ (no
    pruning) then Point.__sub__ (merge, prune); add_point prunes it in place once more *)
Definition breg_dual (sx0 g : pdict) (gamma : Q) : pdict := prune (p_sub sx0 (p_scal gamma g)).

(** the accuracy constraints of inexact_proximal_step ([e] and [eps_sub] inlined; same formulas as the ones the
    translator reads into Gen/Steps.v).  Point variables: x0 = 0, v = 1, w = 2, x = 3, gx = 4, e = 5; expression
    variables: fw = 0, fx = 1, eps_var = 2; scalar parameter 0 = gamma. *)
Definition ip_eps_sub : xterm := XSub (XSub (XVar 1) (XVar 0)) (XInner (PVar 1) (PSub (PVar 3) (PVar 2))).
Definition ip_formula (opt : ipopt) : cterm :=
  match opt with
  | PDgapI => CLe (XAdd (XDiv (XSq (PAdd (PSub (PVar 3) (PVar 0)) (PScal (SPar 0) (PVar 1)))) (SNum 2))
                        (XScal (SPar 0) ip_eps_sub)) (XVar 2)
  | PDgapII => CLe (XDiv (XSq (PVar 5)) (SNum 2)) (XVar 2)
  | PDgapIII => CLe (XScal (SPar 0) ip_eps_sub) (XVar 2)
  end.
(** PD_gapII: the recorded point x0 - gamma * gx + e (e is leaf n, gx leaf S n); PD_gapIII: the recorded
    (sub)gradient v = (x0 - x) / gamma (x is leaf n), pruned in place by add_point before the constraint is built *)
Definition ip2_point (n : nat) (x0 : pdict) (gamma : Q) : pdict :=
  prune (p_add (p_sub x0 (p_scal gamma [(S n, 1%Q)])) [(n, 1%Q)]).
Definition ip3_grad (n : nat) (x0 : pdict) (gamma : Q) : pdict :=
  prune (p_div (p_sub x0 [(n, 1%Q)]) gamma).
Definition ip_vp (opt : ipopt) (n : nat) (x0 : pdict) (gamma : Q) : nat -> pdict :=
  match opt with
  | PDgapI => fun v => match v with O => x0 | 1 => [(n, 1%Q)] | 2 => [(S n, 1%Q)] | 3 => [(S (S n), 1%Q)]
                                | _ => [(S (S (S n)), 1%Q)] end
  | PDgapII => fun v => [(n, 1%Q)]
  | PDgapIII => fun v => match v with O => x0 | 1 => ip3_grad n x0 gamma | 2 => [(S (S n), 1%Q)] | _ => [(n, 1%Q)] end
  end%nat.
Definition ip_vx (opt : ipopt) (e : nat) : nat -> edict :=
  match opt with
  | PDgapII => fun v => [(KF (S e), 1%Q)]
  | _ => fun v => match v with O => [(KF e, 1%Q)] | 1 => [(KF (S e), 1%Q)] | _ => [(KF (S (S e)), 1%Q)] end
  end%nat.
Definition ip_cons (opt : ipopt) (n e : nat) (x0 : pdict) (gamma : Q) : edict * sense :=
  compileC (fun _ => gamma) (ip_vp opt n x0 gamma) (ip_vx opt e) (ip_formula opt).

Definition mstep (s : mstate) (o : mop) : mstate :=
  match o with
  | MFresh => mkM (S (m_np s)) (m_ne s) (m_samples s) (m_cons s)
  | MEval f p =>
      mkM (S (m_np s)) (S (m_ne s))
          (m_samples s ++ [(f, (p, [(m_np s, 1%Q)], [(KF (m_ne s), 1%Q)]))]) (m_cons s)
  | MStat f =>
      mkM (S (m_np s)) (S (m_ne s))
          (m_samples s ++ [(f, ([(m_np s, 1%Q)], [], [(KF (m_ne s), 1%Q)]))]) (m_cons s)
  | MProx f p gamma =>
      (* [gamma * gx] is Point.__rmul__ (no pruning), [p - ...] is Point.__sub__ (merge, then prune);
         add_point prunes the three dictionaries in place, which changes nothing: the point is already pruned,
         the two others are fresh leaves *)
      mkM (S (m_np s)) (S (m_ne s))
          (m_samples s ++ [(f, (prune (p_sub p (p_scal gamma [(m_np s, 1%Q)])), [(m_np s, 1%Q)], [(KF (m_ne s), 1%Q)]))]) (m_cons s)
  | MLinOpt f dir =>
      (* [-dir] is Point.__neg__ (a scaling by -1, no pruning); add_point prunes it in place *)
      mkM (S (m_np s)) (S (m_ne s))
          (m_samples s ++ [(f, ([(m_np s, 1%Q)], prune (p_neg dir), [(KF (m_ne s), 1%Q)]))]) (m_cons s)
  | MInexact f p relative eps =>
      (* the oracle call (as MEval), then the fresh leaf dx0 = S (m_np s), then the constraint on f *)
      mkM (S (S (m_np s))) (S (m_ne s))
          (m_samples s ++ [(f, (p, [(m_np s, 1%Q)], [(KF (m_ne s), 1%Q)]))])
          (m_cons s ++ [(f, inexact_cons (m_np s) relative eps)])
  | MLineSearch f x0 dirs =>
      (* the fresh leaf x = m_np s, the oracle call at it (gradient leaf S (m_np s), value leaf), the constraints *)
      mkM (S (S (m_np s))) (S (m_ne s))
          (m_samples s ++ [(f, ([(m_np s, 1%Q)], [(S (m_np s), 1%Q)], [(KF (m_ne s), 1%Q)]))])
          (m_cons s ++ (f, ls_cons0 (m_np s) x0) :: map (fun d => (f, ls_cons (m_np s) d)) dirs)
  | MEpsSub f p =>
      (* the fresh leaf g0 = m_np s, the oracle call at p (gradient leaf S (m_np s), value leaf m_ne s), the fresh
         value leaf epsilon = S (m_ne s), the fresh leaves y = S (S (m_np s)) and fy = S (S (m_ne s)), the sample
         (y, g0, fy) and the constraint on f *)
      mkM (S (S (S (m_np s)))) (S (S (S (m_ne s))))
          (m_samples s ++ [(f, (p, [(S (m_np s), 1%Q)], [(KF (m_ne s), 1%Q)]));
                           (f, ([(S (S (m_np s)), 1%Q)], [(m_np s, 1%Q)], [(KF (S (S (m_ne s))), 1%Q)]))])
          (m_cons s ++ [(f, epssub_cons (m_np s) (m_ne s) p)])
  | MBregGrad h gx0 sx0 gamma =>
      mkM (S (m_np s)) (S (m_ne s))
          (m_samples s ++ [(h, ([(m_np s, 1%Q)], breg_dual sx0 gx0 gamma, [(KF (m_ne s), 1%Q)]))]) (m_cons s)
  | MBregProx h f sx0 gamma =>
      (* x = m_np s, gx = S (m_np s), fx = m_ne s, hx = S (m_ne s); first the sample on f, then the one on h *)
      mkM (S (S (m_np s))) (S (S (m_ne s)))
          (m_samples s ++ [(f, ([(m_np s, 1%Q)], [(S (m_np s), 1%Q)], [(KF (m_ne s), 1%Q)]));
                           (h, ([(m_np s, 1%Q)], breg_dual sx0 [(S (m_np s), 1%Q)] gamma, [(KF (S (m_ne s)), 1%Q)]))])
          (m_cons s)
  | MInexactProx f x0 gamma PDgapI =>
      (* v = m_np s, w = S .., x = S (S ..), gx = S (S (S ..)); fw = m_ne s, fx = S .., eps_var = S (S ..) *)
      mkM (S (S (S (S (m_np s))))) (S (S (S (m_ne s))))
          (m_samples s ++ [(f, ([(S (m_np s), 1%Q)], [(m_np s, 1%Q)], [(KF (m_ne s), 1%Q)]));
                           (f, ([(S (S (m_np s)), 1%Q)], [(S (S (S (m_np s))), 1%Q)], [(KF (S (m_ne s)), 1%Q)]))])
          (m_cons s ++ [(f, ip_cons PDgapI (m_np s) (m_ne s) x0 gamma)])
  | MInexactProx f x0 gamma PDgapII =>
      (* e = m_np s, gx = S ..; fx = m_ne s, eps_var = S .. *)
      mkM (S (S (m_np s))) (S (S (m_ne s)))
          (m_samples s ++ [(f, (ip2_point (m_np s) x0 gamma, [(S (m_np s), 1%Q)], [(KF (m_ne s), 1%Q)]))])
          (m_cons s ++ [(f, ip_cons PDgapII (m_np s) (m_ne s) x0 gamma)])
  | MInexactProx f x0 gamma PDgapIII =>
      (* x = m_np s, gx = S .., w = S (S ..); fw = m_ne s, fx = S .., eps_var = S (S ..) *)
      mkM (S (S (S (m_np s)))) (S (S (S (m_ne s))))
          (m_samples s ++ [(f, ([(m_np s, 1%Q)], [(S (m_np s), 1%Q)], [(KF (S (m_ne s)), 1%Q)]));
                           (f, ([(S (S (m_np s)), 1%Q)], ip3_grad (m_np s) x0 gamma, [(KF (m_ne s), 1%Q)]))])
          (m_cons s ++ [(f, ip_cons PDgapIII (m_np s) (m_ne s) x0 gamma)])
  end.

Definition mrun (ops : list mop) (s : mstate) : mstate := fold_left mstep ops s.

(** every evaluated point only mentions leaves that exist when it is evaluated *)
Definition keys_below (n : nat) (p : pdict) : bool := forallb (fun '(k, _) => Nat.ltb k n) p.

(** a positive rational step size; the evaluated dictionary has unique keys (as every Python dict) *)
Definition qpos (q : Q) : bool := Z.ltb 0 (Qnum q).
Fixpoint nodupb (l : list nat) : bool :=
  match l with [] => true | k :: l' => negb (existsb (Nat.eqb k) l') && nodupb l' end.

Definition op_wf (s : mstate) (o : mop) : bool :=
  match o with
  | MEval _ p => keys_below (m_np s) p
  | MProx _ p gamma => keys_below (m_np s) p && nodupb (keys p) && qpos gamma
  | MLinOpt _ dir => keys_below (m_np s) dir
  | MInexact _ p _ _ => keys_below (m_np s) p
  | MLineSearch _ x0 dirs =>
      keys_below (m_np s) x0 && nodupb (keys x0) && forallb (fun d => keys_below (m_np s) d && nodupb (keys d)) dirs
  | MEpsSub _ p => keys_below (m_np s) p && nodupb (keys p)
  | MBregGrad _ gx0 sx0 _ =>
      keys_below (m_np s) gx0 && nodupb (keys gx0) && keys_below (m_np s) sx0 && nodupb (keys sx0)
  | MBregProx _ _ sx0 gamma => keys_below (m_np s) sx0 && nodupb (keys sx0) && qpos gamma
  | MInexactProx _ x0 gamma _ => keys_below (m_np s) x0 && nodupb (keys x0) && qpos gamma
  | _ => true
  end.

Fixpoint mwf (ops : list mop) (s : mstate) : bool :=
  match ops with
  | [] => true
  | o :: ops' => op_wf s o && mwf ops' (mstep s o)
  end.

(** a linear-optimization step whose direction is the zero vector records a sample with an EMPTY gradient
    dictionary, which PEPit then also lists as a stationary point of the function; likewise a Bregman gradient step
    whose dual point sx0 - gamma * gx0 is the zero vector, and a Bregman proximal step of step size 0 (for a non-zero
    step size the recorded dual point mentions the fresh leaf gx) *)
Definition linopt_dir_nonzero (o : mop) : bool :=
  match o with
  | MLinOpt _ dir => match prune (p_neg dir) with [] => false | _ => true end
  | MBregGrad _ gx0 sx0 gamma => match breg_dual sx0 gx0 gamma with [] => false | _ => true end
  | MBregProx _ _ _ gamma => negb (Qeq_bool gamma 0)
  | _ => true
  end.
