(** The oracle calls of a method, as PEPit records them (C09).

    A modelled method is a straight-line program over the DSL: free leaf points (starting point,
    optimum, ...), linear combinations of earlier points (built with the Point operators, C06), and
    evaluations of LEAF functions at such points.  For a leaf function evaluated at a point it has
    not been evaluated on, [Function.oracle] (PEPit/function.py) allocates a fresh leaf Point for the
    gradient and a fresh leaf Expression for the value and records the triple.  This file models
    exactly that bookkeeping (the reuse of earlier evaluations is property C07's model). *)
From Coq Require Import List QArith ZArith Arith Bool.
From PV Require Import Model.Dict Model.Terms.
Import ListNotations.

Inductive mop : Type :=
| MFresh                        (* x = Point() : a free leaf point *)
| MEval (f : nat) (p : pdict)   (* g, fx = f.oracle(p) : fresh gradient leaf, fresh value leaf *)
| MStat (f : nat)               (* xs = f.stationary_point() : fresh leaf point, EMPTY gradient, fresh value leaf *)
| MProx (f : nat) (p : pdict) (gamma : Q)
                                (* x, gx, fx = proximal_step(p, f, gamma) (PEPit/primitive_steps/proximal_step.py):
                                   gx = Point(); fx = Expression(); x = p - gamma * gx; f.add_point((x, gx, fx)) *)
| MLinOpt (f : nat) (dir : pdict)
                                (* x, gx, fx = linear_optimization_step(dir, f) (primitive_steps/linear_optimization_step.py):
                                   x = Point(); gx = -dir; fx = Expression(); f.add_point((x, gx, fx)) *)
| MInexact (f : nat) (p : pdict) (relative : bool) (eps : Q)
                                (* x, dx0, fx0 = inexact_gradient_step(p, f, gamma, eps, notion) (inexact_gradient_step.py):
                                   gx0, fx0 = f.oracle(p); dx0 = Point();
                                   f.add_constraint((gx0 - dx0) ** 2 - eps ** 2 [* gx0 ** 2] <= 0);
                                   the returned x = p - gamma * dx0 is not recorded anywhere *)
| MLineSearch (f : nat) (x0 : pdict) (dirs : list pdict).
                                (* x, gx, fx = exact_linesearch_step(x0, f, dirs) (exact_linesearch_step.py):
                                   x = Point(); gx, fx = f.oracle(x); f.add_constraint((x - x0) * gx == 0);
                                   for d in dirs: f.add_constraint(d * gx == 0) *)

Definition msample : Type := (pdict * pdict * edict)%type.

Record mstate : Type := mkM {
  m_np : nat;                               (* Point.counter *)
  m_ne : nat;                               (* Expression.counter *)
  m_samples : list (nat * msample);         (* (function id, recorded triple), in recording order *)
  m_cons : list (nat * (edict * sense))     (* (function id, constraint added to that function by a step) *)
}.

Definition minit : mstate := mkM 0 0 [] [].

(** the accuracy constraint of inexact_gradient_step, as the operator overloads build it: gx0 is leaf n, dx0 leaf
    S n (same formula as the one the translator reads into Gen/Steps.v) *)
Definition inexact_formula (relative : bool) : cterm :=
  if relative
  then CLeS (XSub (XSq (PSub (PVar 0) (PVar 1))) (XScal (SPow (SPar 0) 2) (XSq (PVar 0)))) (SNum 0)
  else CLeS (XSubS (XSq (PSub (PVar 0) (PVar 1))) (SPow (SPar 0) 2)) (SNum 0).
Definition inexact_vp (n : nat) : nat -> pdict :=
  fun v => match v with O => [(n, 1%Q)] | _ => [(S n, 1%Q)] end.
Definition inexact_cons (n : nat) (relative : bool) (eps : Q) : edict * sense :=
  compileC (fun _ => eps) (inexact_vp n) (fun _ => []) (inexact_formula relative).

(** the orthogonality constraints of exact_linesearch_step: x is leaf n, gx leaf S n (same formulas as the ones the
    translator reads into Gen/Steps.v) *)
Definition ls_vp0 (n : nat) (x0 : pdict) : nat -> pdict :=
  fun v => match v with O => [(n, 1%Q)] | S O => x0 | _ => [(S n, 1%Q)] end.
Definition ls_cons0 (n : nat) (x0 : pdict) : edict * sense :=
  compileC (fun _ => 0%Q) (ls_vp0 n x0) (fun _ => [])
           (CEqS (XInner (PSub (PVar 0) (PVar 1)) (PVar 2)) (SNum 0)).
Definition ls_vp (n : nat) (d : pdict) : nat -> pdict :=
  fun v => match v with O => d | _ => [(S n, 1%Q)] end.
Definition ls_cons (n : nat) (d : pdict) : edict * sense :=
  compileC (fun _ => 0%Q) (ls_vp n d) (fun _ => []) (CEqS (XInner (PVar 0) (PVar 1)) (SNum 0)).

Definition mstep (s : mstate) (o : mop) : mstate :=
  match o with
  | MFresh => mkM (S (m_np s)) (m_ne s) (m_samples s) (m_cons s)
  | MEval f p =>
      mkM (S (m_np s)) (S (m_ne s))
          (m_samples s ++ [(f, (p, [(m_np s, 1%Q)], [(KF (m_ne s), 1%Q)]))]) (m_cons s)
  | MStat f =>
      mkM (S (m_np s)) (S (m_ne s))
          (m_samples s ++ [(f, ([(m_np s, 1%Q)], [], [(KF (m_ne s), 1%Q)]))]) (m_cons s)
  | MProx f p gamma =>
      (* [gamma * gx] is Point.__rmul__ (no pruning), [p - ...] is Point.__sub__ (merge, then prune);
         add_point prunes the three dictionaries in place, which changes nothing: the point is already pruned,
         the two others are fresh leaves *)
      mkM (S (m_np s)) (S (m_ne s))
          (m_samples s ++ [(f, (prune (p_sub p (p_scal gamma [(m_np s, 1%Q)])), [(m_np s, 1%Q)], [(KF (m_ne s), 1%Q)]))]) (m_cons s)
  | MLinOpt f dir =>
      (* [-dir] is Point.__neg__ (a scaling by -1, no pruning); add_point prunes it in place *)
      mkM (S (m_np s)) (S (m_ne s))
          (m_samples s ++ [(f, ([(m_np s, 1%Q)], prune (p_neg dir), [(KF (m_ne s), 1%Q)]))]) (m_cons s)
  | MInexact f p relative eps =>
      (* the oracle call (as MEval), then the fresh leaf dx0 = S (m_np s), then the constraint on f *)
      mkM (S (S (m_np s))) (S (m_ne s))
          (m_samples s ++ [(f, (p, [(m_np s, 1%Q)], [(KF (m_ne s), 1%Q)]))])
          (m_cons s ++ [(f, inexact_cons (m_np s) relative eps)])
  | MLineSearch f x0 dirs =>
      (* the fresh leaf x = m_np s, the oracle call at it (gradient leaf S (m_np s), value leaf), the constraints *)
      mkM (S (S (m_np s))) (S (m_ne s))
          (m_samples s ++ [(f, ([(m_np s, 1%Q)], [(S (m_np s), 1%Q)], [(KF (m_ne s), 1%Q)]))])
          (m_cons s ++ (f, ls_cons0 (m_np s) x0) :: map (fun d => (f, ls_cons (m_np s) d)) dirs)
  end.

Definition mrun (ops : list mop) (s : mstate) : mstate := fold_left mstep ops s.

(** every evaluated point only mentions leaves that exist when it is evaluated *)
Definition keys_below (n : nat) (p : pdict) : bool := forallb (fun '(k, _) => Nat.ltb k n) p.

(** a positive rational step size; the evaluated dictionary has unique keys (as every Python dict) *)
Definition qpos (q : Q) : bool := Z.ltb 0 (Qnum q).
Fixpoint nodupb (l : list nat) : bool :=
  match l with [] => true | k :: l' => negb (existsb (Nat.eqb k) l') && nodupb l' end.

Definition op_wf (s : mstate) (o : mop) : bool :=
  match o with
  | MEval _ p => keys_below (m_np s) p
  | MProx _ p gamma => keys_below (m_np s) p && nodupb (keys p) && qpos gamma
  | MLinOpt _ dir => keys_below (m_np s) dir
  | MInexact _ p _ _ => keys_below (m_np s) p
  | MLineSearch _ x0 dirs =>
      keys_below (m_np s) x0 && nodupb (keys x0) && forallb (fun d => keys_below (m_np s) d && nodupb (keys d)) dirs
  | _ => true
  end.

Fixpoint mwf (ops : list mop) (s : mstate) : bool :=
  match ops with
  | [] => true
  | o :: ops' => op_wf s o && mwf ops' (mstep s o)
  end.

(** a linear-optimization step whose direction is the zero vector records a sample with an EMPTY gradient
    dictionary, which PEPit then also lists as a stationary point of the function *)
Definition linopt_dir_nonzero (o : mop) : bool :=
  match o with
  | MLinOpt _ dir => match prune (p_neg dir) with [] => false | _ => true end
  | _ => true
  end.
