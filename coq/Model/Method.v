(** The oracle calls of a method, as PEPit records them (C09).

    A modelled method is a straight-line program over the DSL: free leaf points (starting point,
    optimum, ...), linear combinations of earlier points (built with the Point operators, C06), and
    evaluations of LEAF functions at such points.  For a leaf function evaluated at a point it has
    not been evaluated on, [Function.oracle] (PEPit/function.py) allocates a fresh leaf Point for the
    gradient and a fresh leaf Expression for the value and records the triple.  This file models
    exactly that bookkeeping (the reuse of earlier evaluations is property C07's model). *)
From Coq Require Import List QArith ZArith Arith Bool.
From PV Require Import Model.Dict Model.Terms.
Import ListNotations.

Inductive mop : Type :=
| MFresh                        (* x = Point() : a free leaf point *)
| MEval (f : nat) (p : pdict)   (* g, fx = f.oracle(p) : fresh gradient leaf, fresh value leaf *)
| MStat (f : nat)               (* xs = f.stationary_point() : fresh leaf point, EMPTY gradient, fresh value leaf *)
| MProx (f : nat) (p : pdict) (gamma : Q).
                                (* x, gx, fx = proximal_step(p, f, gamma) (PEPit/primitive_steps/proximal_step.py):
                                   gx = Point(); fx = Expression(); x = p - gamma * gx; f.add_point((x, gx, fx)) *)

Definition msample : Type := (pdict * pdict * edict)%type.

Record mstate : Type := mkM {
  m_np : nat;                               (* Point.counter *)
  m_ne : nat;                               (* Expression.counter *)
  m_samples : list (nat * msample)          (* (function id, recorded triple), in recording order *)
}.

Definition minit : mstate := mkM 0 0 [].

Definition mstep (s : mstate) (o : mop) : mstate :=
  match o with
  | MFresh => mkM (S (m_np s)) (m_ne s) (m_samples s)
  | MEval f p =>
      mkM (S (m_np s)) (S (m_ne s))
          (m_samples s ++ [(f, (p, [(m_np s, 1%Q)], [(KF (m_ne s), 1%Q)]))])
  | MStat f =>
      mkM (S (m_np s)) (S (m_ne s))
          (m_samples s ++ [(f, ([(m_np s, 1%Q)], [], [(KF (m_ne s), 1%Q)]))])
  | MProx f p gamma =>
      (* [gamma * gx] is Point.__rmul__ (no pruning), [p - ...] is Point.__sub__ (merge, then prune);
         add_point prunes the three dictionaries in place, which changes nothing: the point is already pruned,
         the two others are fresh leaves *)
      mkM (S (m_np s)) (S (m_ne s))
          (m_samples s ++ [(f, (prune (p_sub p (p_scal gamma [(m_np s, 1%Q)])), [(m_np s, 1%Q)], [(KF (m_ne s), 1%Q)]))])
  end.

Definition mrun (ops : list mop) (s : mstate) : mstate := fold_left mstep ops s.

(** every evaluated point only mentions leaves that exist when it is evaluated *)
Definition keys_below (n : nat) (p : pdict) : bool := forallb (fun '(k, _) => Nat.ltb k n) p.

(** a positive rational step size; the evaluated dictionary has unique keys (as every Python dict) *)
Definition qpos (q : Q) : bool := Z.ltb 0 (Qnum q).
Fixpoint nodupb (l : list nat) : bool :=
  match l with [] => true | k :: l' => negb (existsb (Nat.eqb k) l') && nodupb l' end.

Definition op_wf (s : mstate) (o : mop) : bool :=
  match o with
  | MEval _ p => keys_below (m_np s) p
  | MProx _ p gamma => keys_below (m_np s) p && nodupb (keys p) && qpos gamma
  | _ => true
  end.

Fixpoint mwf (ops : list mop) (s : mstate) : bool :=
  match ops with
  | [] => true
  | o :: ops' => op_wf s o && mwf ops' (mstep s o)
  end.
