(** Vocabulary of the plan that translator/tr_factor.py regenerates from PEP._eval_points_and_function_values
    (pep.py), and the decidable predicate saying that the plan is the one the theorems of Proofs/C02Factor.v
    are about: eigh, clipping of the negative eigenvalues (guarded by `min < 0` or not: maximum(.,0) is the
    identity on non-negative vectors), QR of (sqrt(eig_val) * eig_vec)^T keeping R; every leaf point then gets
    ITS column of R and every leaf expression ITS entry of F.  No proofs here. *)
From Coq Require Import List String Bool.
Import ListNotations.

Inductive fstep : Type :=
| FEigh | FClipGuarded | FClip | FQrScaledT
| FOther (why : string).

Inductive vread : Type := VColumn | VEntry | VOther (why : string).

Definition factor_plan_ok (p : list fstep) : bool :=
  match p with
  | [FEigh; FClipGuarded; FQrScaledT] => true
  | [FEigh; FClip; FQrScaledT] => true
  | _ => false
  end.

Definition vread_ok (v : vread) : bool := match v with VOther _ => false | _ => true end.

Definition has_column (l : list vread) : bool := existsb (fun v => match v with VColumn => true | _ => false end) l.
Definition has_entry (l : list vread) : bool := existsb (fun v => match v with VEntry => true | _ => false end) l.

Definition value_assignments_ok (l : list vread) : bool := forallb vread_ok l && has_column l && has_entry l.
