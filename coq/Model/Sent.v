(** What a solve hands to the wrapper: the declared model as an ordered list of items.
    Shared by the solve-pipeline properties (C01, C05, C11, C13, C14). *)
From Coq Require Import List QArith.
From PV Require Import Model.Dict Model.Terms.
Import ListNotations.

Inductive item : Type :=
| SC (e : edict) (s : sense)              (* scalar constraint  e <= 0  |  e == 0 *)
| LMI (m : list (list edict)).            (* matrix of expressions constrained to be PSD *)

Definition sent := list item.

Definition scalars (l : sent) : list (edict * sense) :=
  flat_map (fun it => match it with SC e s => [(e, s)] | LMI _ => [] end) l.
Definition lmis (l : sent) : list (list (list edict)) :=
  flat_map (fun it => match it with SC _ _ => [] | LMI m => [m] end) l.
