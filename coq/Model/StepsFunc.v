(** The primitive-step programs over C07's function state: LEAF AND COMPOSITE functions.

    Model/StepsRT.v interprets the generated step programs (Gen/Steps.v, type [StepsRT.program]) over a state
    in which every function is a leaf.  This file executes THE SAME programs (same instruction type, same
    arguments, same environments, same term compilation [Terms.compileP/X/C], same zero-division rule) over
    the state of Model/Func.v, in which a function is a leaf or a weighted sum of leaves:

      [Oracle f p g fx]     calls [Func.oracle]     (composite: classification, fresh / summed gradient and
                                                     value, [add_point] with distribution over the terms),
      [Value f p fx]        calls [Func.value],
      [AddPoint f x g fx]   calls [Func.add_point]  (leaf: record; composite: record, prune the weights,
                                                     distribute, "the last term gets the remainder"),
      [FreshPoint]/[FreshExpr] are [Func.fresh_pt]/[Func.fresh_ex],
      [AddConstraint f c]   appends to [f.list_of_constraints] whatever [f] is; Func.v has no such field, the
                            side constraints are kept beside the function state as the log [(fid, constraint)]
                            in call order ([cons_of] = the list of one function).

    So every instruction that touches the bookkeeping IS one op of C07's op language (Proofs/C08Composite.v,
    [exec_s_is_func_op]); the only difference is that a step hands over the DICTIONARY of a point object it
    built, where the C07 op carries the term the user wrote.

    In-place pruning of argument objects (observable by the caller, dumped by the stream): [add_point] prunes
    the three objects it is given; [oracle] calls [add_point] with the query object unless the function is
    differentiable and already evaluated there ([oracle_touch]); [value] calls [oracle] unless evaluated
    ([value_touch]).  The rule is the same for leaves and composites.

    [guard_s] is C07's decidable side condition of the corresponding op ([Func.op_scoped && Func.op_guard]
    with the dictionary in place of [pt p]); [ok_prog] evaluates it along the execution.  Executable Gallina,
    no proofs. *)
From Coq Require Import List QArith Bool String Arith.
From PV Require Import Model.Dict Model.Terms Model.StepsRT.
From PV Require Model.Func.
Import ListNotations.
Local Open Scope Q_scope.

(** ** State: C07's function table + the side constraints, in call order *)
Definition clog : Type := list (nat * constr).
Definition fstate : Type := (Func.state * clog)%type.

Definition cons_of (cs : clog) (f : nat) : list constr :=
  map snd (filter (fun fc => Nat.eqb (fst fc) f) cs).

(** new contents of the query point object after [f.oracle(x)] / [f.value(x)] *)
Definition oracle_touch (s : Func.state) (f : nat) (x : pdict) : pdict :=
  match Func.find_pt (Func.f_pts (Func.getf s f)) x with
  | Some _ => if Func.f_reuse (Func.getf s f) then x else prune x
  | None => prune x
  end.
Definition value_touch (s : Func.state) (f : nat) (x : pdict) : pdict :=
  match Func.find_pt (Func.f_pts (Func.getf s f)) x with
  | Some _ => x
  | None => prune x
  end.

(** one simple instruction (same result shape as [StepsRT.exec_s]) *)
Definition exec_s (a : args) (i : sinstr) (es : env * fstate) : (env * fstate) + (string * (env * fstate)) :=
  let '(e, (s, cs)) := es in
  match i with
  | FreshPoint v => let '(d, s') := Func.fresh_pt s in inl (setp v d e, (s', cs))
  | FreshExpr v => let '(d, s') := Func.fresh_ex s in inl (setx v d e, (s', cs))
  | Oracle f p g fx =>
      let '(s', (gd, vd)) := Func.oracle s (a_fun a f) (e_p e p) in
      inl (setx fx vd (setp g gd (setp p (oracle_touch s (a_fun a f) (e_p e p)) e)), (s', cs))
  | Value f p fx =>
      let '(s', vd) := Func.value s (a_fun a f) (e_p e p) in
      inl (setx fx vd (setp p (value_touch s (a_fun a f) (e_p e p)) e), (s', cs))
  | LetP v t =>
      if pdefb (a_scal a) t then inl (setp v (compileP (a_scal a) (e_p e) t) e, (s, cs)) else inr (zdiv, es)
  | LetX v t =>
      if xdefb (a_scal a) t then inl (setx v (compileX (a_scal a) (e_p e) (e_x e) t) e, (s, cs)) else inr (zdiv, es)
  | LetC c t =>
      if cdefb (a_scal a) t then inl (setc c (compileC (a_scal a) (e_p e) (e_x e) t) e, (s, cs)) else inr (zdiv, es)
  | SetName _ _ => inl es
  | AddPoint f x g fx =>
      let t := (e_p e x, e_p e g, e_x e fx) in
      let '(xd, gd, vd) := Func.pruned_sample t in
      inl (setx fx vd (setp g gd (setp x xd e)), (Func.add_point s (a_fun a f) t, cs))
  | AddConstraint f c => inl (e, (s, cs ++ [(a_fun a f, e_c e c)]))
  end.

Fixpoint exec_body (a : args) (body : list sinstr) (es : env * fstate)
  : (env * fstate) + (string * (env * fstate)) :=
  match body with
  | [] => inl es
  | i :: rest => match exec_s a i es with
                 | inl es' => exec_body a rest es'
                 | inr err => inr err
                 end
  end.

Fixpoint exec_loop (a : args) (d : nat) (body : list sinstr) (ds : list pdict) (es : env * fstate)
  : (env * fstate) + (string * (env * fstate)) :=
  match ds with
  | [] => inl es
  | dv :: ds' => match exec_body a body (setp d dv (fst es), snd es) with
                 | inl es' => exec_loop a d body ds' es'
                 | inr err => inr err
                 end
  end.

Fixpoint exec (a : args) (prog : program) (es : env * fstate) : result * (env * fstate) :=
  match prog with
  | [] => (RNone, es)
  | I i :: rest => match exec_s a i es with
                   | inl es' => exec a rest es'
                   | inr (exn, es') => (RErr exn, es')
                   end
  | ForEach d body :: rest => match exec_loop a d body (a_dirs a) es with
                              | inl es' => exec a rest es'
                              | inr (exn, es') => (RErr exn, es')
                              end
  | Return l :: _ => (ROk (map (eval_rv (fst es)) l), es)
  | Raise exn :: _ => (RErr exn, es)
  end.

Definition run_full (prog : program) (a : args) (s : fstate) : result * (env * fstate) :=
  exec a prog (init_env a, s).

(** what a caller observes: the returned tuple and the new state *)
Definition run (prog : program) (a : args) (s : fstate) : result * fstate :=
  (fst (run_full prog a s), snd (snd (run_full prog a s))).

(** the function state after the call *)
Definition run_state (prog : program) (a : args) (s : fstate) : Func.state :=
  fst (snd (run prog a s)).

(** ** C07's side conditions, instruction by instruction
    [Oracle]/[Value]: the function exists, the query dictionary has unique keys over existing leaf points and
    no explicit zero coefficient (F-C07b); [AddPoint]: the function exists, unique keys, the (pruned) point is
    not yet recorded for the function nor for one of its terms.  Composites that are the zero function
    (F-C07c/d/e) cannot be in a state that satisfies the invariant, which is the other hypothesis of the
    theorems. *)
Definition guard_s (a : args) (i : sinstr) (es : env * fstate) : bool :=
  let '(e, (s, _)) := es in
  match i with
  | Oracle f p _ _ | Value f p _ =>
      Func.in_range s (a_fun a f) && Func.pwf_b s (e_p e p) && Func.allnz_b (e_p e p)
  | AddPoint f x g fx =>
      Func.in_range s (a_fun a f) && Func.pwf_b s (e_p e x)
      && Func.nodup_by Nat.eqb (keys (e_p e g)) && Func.nodup_by ekey_eqb (keys (e_x e fx))
      && Func.fresh_for s (a_fun a f) (prune (e_p e x))
  | _ => true
  end.

Fixpoint ok_body (a : args) (body : list sinstr) (es : env * fstate) : bool :=
  match body with
  | [] => true
  | i :: rest => guard_s a i es &&
                 match exec_s a i es with
                 | inl es' => ok_body a rest es'
                 | inr _ => true
                 end
  end.

Fixpoint ok_loop (a : args) (d : nat) (body : list sinstr) (ds : list pdict) (es : env * fstate) : bool :=
  match ds with
  | [] => true
  | dv :: ds' => ok_body a body (setp d dv (fst es), snd es) &&
                 match exec_body a body (setp d dv (fst es), snd es) with
                 | inl es' => ok_loop a d body ds' es'
                 | inr _ => true
                 end
  end.

Fixpoint ok_exec (a : args) (prog : program) (es : env * fstate) : bool :=
  match prog with
  | [] => true
  | I i :: rest => guard_s a i es &&
                   match exec_s a i es with
                   | inl es' => ok_exec a rest es'
                   | inr _ => true
                   end
  | ForEach d body :: rest => ok_loop a d body (a_dirs a) es &&
                              match exec_loop a d body (a_dirs a) es with
                              | inl es' => ok_exec a rest es'
                              | inr _ => true
                              end
  | Return _ :: _ => true
  | Raise _ :: _ => true
  end.

Definition ok_prog (prog : program) (a : args) (s : fstate) : bool := ok_exec a prog (init_env a, s).

(** ** Canonical dumps for the correspondence stream (harness/p_c08.py, stream "step-calls-composite") *)
From PV Require Import Model.Dump.

(** result; the point arguments after the call; counters; for the functions 0 .. nf-1 the record of
    Model/Func.v ([is_leaf], [reuse_gradient], weights, [list_of_points], [list_of_stationary_points])
    and the function's [list_of_constraints] *)
Definition dump_run (nf np : nat) (out : result * (env * fstate)) : D :=
  let '(r, (e, (s, cs))) := out in
  DL [dump_result r;
      DL (map (fun k => dump_pdict (e_p e k)) (seq 0 np));
      DN (Func.pt_ctr s); DN (Func.ex_ctr s);
      DL (map (fun f => DL [Func.dump_frec (Func.getf s f); DL (map dump_cons (cons_of cs f))]) (seq 0 nf))].

Record fcase : Type := mkFCase {
  fc_prog : program; fc_args : args; fc_state : Func.state; fc_cons : clog; fc_nf : nat; fc_np : nat
}.
Definition run_fcase (c : fcase) : D :=
  dump_run (fc_nf c) (fc_np c) (run_full (fc_prog c) (fc_args c) (fc_state c, fc_cons c)).
