(** Vocabulary of the plan that translator/tr_entry.py regenerates from PEP.solve (pep.py) -- back-end selection with
    its two fall-backs to cvxpy, then ONE call of _solve_with_wrapper -- and the decidable predicate [entry_ok] saying
    that every option of the public signature reaches _solve_with_wrapper unchanged, under its own name, with the same
    constant default on both signatures, and that nothing else happens in between.  No proofs here. *)
From Coq Require Import List String Bool.
Import ListNotations.
Local Open Scope string_scope.

Inductive estep : Type :=
| ELower | EFallbackNotInstalled | EInstantiate | EFallbackNoLicense
| EStore (attr : string)
| ECall
| EOther (why : string).

Inductive dflt : Type := DNone | DStr (s : string) | DNum (repr : string) | DOther (what : string).

Definition estep_eqb (a b : estep) : bool :=
  match a, b with
  | ELower, ELower | EFallbackNotInstalled, EFallbackNotInstalled | EInstantiate, EInstantiate
  | EFallbackNoLicense, EFallbackNoLicense | ECall, ECall => true
  | EStore x, EStore y => String.eqb x y
  | _, _ => false
  end.

Fixpoint plan_eqb (p q : list estep) : bool :=
  match p, q with
  | [], [] => true
  | a :: p', b :: q' => estep_eqb a b && plan_eqb p' q'
  | _, _ => false
  end.

Definition expected_plan : list estep :=
  [ELower; EFallbackNotInstalled; EInstantiate; EFallbackNoLicense; EStore "wrapper_name"; EStore "wrapper"; ECall].

(** the options of the public API that must travel unchanged *)
Definition option_names : list string :=
  ["verbose"; "return_primal_or_dual"; "dimension_reduction_heuristic"; "eig_regularization"; "tol_dimension_reduction"].

Fixpoint lookup_s {A} (k : string) (l : list (string * A)) : option A :=
  match l with
  | [] => None
  | (k', v) :: l' => if String.eqb k k' then Some v else lookup_s k l'
  end.

Definition dflt_eqb (a b : dflt) : bool :=
  match a, b with
  | DNone, DNone => true
  | DStr x, DStr y => String.eqb x y
  | DNum x, DNum y => String.eqb x y
  | _, _ => false          (* DOther is never accepted *)
  end.

Definition forwarded_ok (fw : list (string * string)) : bool :=
  forallb (fun o => match lookup_s o fw with Some src => String.eqb src o | None => false end) option_names
  && match lookup_s "wrapper" fw with Some src => String.eqb src "<wrapper object>" | None => false end
  && match lookup_s "**" fw with Some src => String.eqb src "kwargs" | None => false end
  && Nat.eqb (List.length fw) (S (S (List.length option_names))).

Definition defaults_ok (outer inner : list (string * dflt)) : bool :=
  forallb (fun o => match lookup_s o outer, lookup_s o inner with
                    | Some a, Some b => dflt_eqb a b
                    | _, _ => false
                    end) option_names
  && match lookup_s "wrapper" outer with Some (DStr "cvxpy") => true | _ => false end.

Definition entry_ok (plan : list estep) (fw : list (string * string)) (outer inner : list (string * dflt)) : bool :=
  plan_eqb plan expected_plan && forwarded_ok fw && defaults_ok outer inner.
