(** Canonical dumps of class-generation results (correspondence with Function.set_class_constraints
    and Function.get_class_constraints_duals). *)
From Coq Require Import List QArith ZArith Bool String.
From PV Require Import Model.Dict Model.Terms Model.Dump Model.ClassGen.
Import ListNotations.

Definition dump_ostr (o : option string) : D := match o with Some s => DL [DS s] | None => DL [] end.
Definition dump_sample (s : sample) : D :=
  DL [dump_pdict (s_x s); dump_pdict (s_g s); dump_edict (s_f s); dump_ostr (s_name s); DN (s_uid s)].
Definition dump_citem (c : citem) : D := DL [dump_ostr (c_name c); dump_cons (c_obj c)].
Definition dump_lmi (m : list (list edict)) : D := DL (map (fun row => DL (map dump_edict row)) m).
(** a cell: [] for the scalar 0, else [position of the object in list_of_class_constraints, object] *)
Definition dump_rows (rows : list (list (option (nat * citem)))) : D :=
  DL (map (fun row => DL (map (fun o => match o with
                                        | Some (p, c) => DL [DN p; dump_citem c]
                                        | None => DL []
                                        end) row)) rows).
Definition dump_table (t : table) : D :=
  DL [DS (t_name t); dump_rows (t_rows t); DL (map DS (t_index t)); DL (map DS (t_columns t)); DS (t_title t)].
(** get_class_constraints_duals() after the harness stored, as dual value of the p-th class constraint, the tag
    [dual_tag p] = -1/4, 3/4, -5/4, 7/4, ... : both signs, pairwise distinct, never 0, on every table (the
    accessor must be the identity on whatever number the solver stored, equalities have sign-free multipliers) *)
Definition dual_tag (p : nat) : Q :=
  ((if Nat.even p then (-1)%Z else 1%Z) * (2 * Z.of_nat p + 1) # 4)%Q.
Definition dump_duals (t : table) : D :=
  DL [DS (t_name t); DL (map (fun row => DL (map DQ row)) (duals_table dual_tag t))].

Definition dump_genout (o : genout) : D :=
  DL [DL (map dump_citem (g_cons o));
      DL (map dump_lmi (g_lmis o));
      DL (map dump_table (tables_dict (g_tables o)));
      DL (map dump_duals (tables_dict (g_tables o)));
      DL (map dump_sample (f_points (g_state o)));
      DL (map dump_sample (f_stat (g_state o)));
      DN (f_next_point (g_state o)); DN (f_next_expr (g_state o))].
