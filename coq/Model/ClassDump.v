(** Canonical dumps of class-generation results (correspondence with Function.set_class_constraints). *)
From Coq Require Import List QArith ZArith Bool String.
From PV Require Import Model.Dict Model.Terms Model.Dump Model.ClassGen.
Import ListNotations.

Definition dump_ostr (o : option string) : D := match o with Some s => DL [DS s] | None => DL [] end.
Definition dump_sample (s : sample) : D :=
  DL [dump_pdict (s_x s); dump_pdict (s_g s); dump_edict (s_f s); dump_ostr (s_name s)].
Definition dump_citem (c : citem) : D := DL [dump_ostr (c_name c); dump_cons (c_obj c)].
Definition dump_lmi (m : list (list edict)) : D := DL (map (fun row => DL (map dump_edict row)) m).
Definition dump_rows (rows : list (list (option citem))) : D :=
  DL (map (fun row => DL (map (fun o => match o with Some c => dump_citem c | None => DL [] end) row)) rows).

(** Python dict semantics of tables_of_constraints[cname] = df : overwrite in place, else append *)
Fixpoint table_set (t : table) (l : list table) : list table :=
  match l with
  | [] => [t]
  | t' :: l' => if String.eqb (t_name t') (t_name t) then t :: l' else t' :: table_set t l'
  end.
Definition tables_dict (ts : list table) : list table := fold_left (fun acc t => table_set t acc) ts [].

Definition dump_genout (o : genout) : D :=
  DL [DL (map dump_citem (g_cons o));
      DL (map dump_lmi (g_lmis o));
      DL (map (fun t => DL [DS (t_name t); dump_rows (t_rows t)]) (tables_dict (g_tables o)));
      DL (map dump_sample (f_points (g_state o)));
      DL (map dump_sample (f_stat (g_state o)));
      DN (f_next_point (g_state o)); DN (f_next_expr (g_state o))].
