(** Vocabulary of the list that translator/tr_purity.py regenerates from the SOURCE of PEPit's operator overloads
    (class Point, class Expression), of the three constructors they call (Point / Expression / Constraint __init__) and of
    the dictionary helpers (PEPit/tools/dict_operations.py), and the decidable predicate [purity_ok]:

      - no statement of an analysed function may write through an object reachable from an operand ([PWrite]);
      - nothing was met that the analysis does not understand ([POther]);
      - every operator method / constructor / helper that the property is about was analysed (a function the translator
        skipped, or that was renamed away, breaks the obligation);
      - every helper hands back a fresh dictionary (so a later write to its result is not a write to an operand).

    [PGlobal] items (class counters, the registries of leaf points / expressions) are updates of class-level state, not of
    an operand; they are listed for the reader and accepted here (process-global state is the subject of C12).
    No proofs here. *)
From Coq Require Import List String Bool.
Import ListNotations.
Local Open Scope string_scope.

Inductive wkind : Type :=
| WSubscript        (* x[k] = .. / x[k] op= ..            x possibly operand-owned *)
| WAttribute        (* x.a = ..  / x.a op= ..                                       *)
| WDelete           (* del x[k] / del x.a                                           *)
| WAugmented        (* name op= ..   on a name that may BE an operand-owned object  *)
| WMutatingCall     (* x.update(..) / x.pop(..) / x.append(..) / x.__setitem__(..) ... *)
| WEscape.          (* possibly operand-owned object handed to a function that is not analysed *)

Inductive pitem : Type :=
| PWrite (k : wkind) (fn : string) (what : string)
| PGlobal (fn : string) (what : string)
| POther (fn : string) (why : string).

Definition item_ok (i : pitem) : bool :=
  match i with
  | PGlobal _ _ => true
  | PWrite _ _ _ => false
  | POther _ _ => false
  end.

Definition pair_eqb (a b : string * string) : bool :=
  String.eqb (fst a) (fst b) && String.eqb (snd a) (snd b).

Definition mem_pair (a : string * string) (l : list (string * string)) : bool :=
  existsb (pair_eqb a) l.

Definition point_operators : list string :=
  ["__add__"; "__sub__"; "__neg__"; "__rmul__"; "__mul__"; "__truediv__"; "__pow__"].

Definition expression_operators : list string :=
  ["__add__"; "__radd__"; "__sub__"; "__rsub__"; "__neg__"; "__rmul__"; "__mul__"; "__truediv__";
   "__le__"; "__lt__"; "__ge__"; "__gt__"; "__eq__"].

Definition helper_names : list string :=
  ["merge_dict"; "prune_dict"; "multiply_dicts"; "symmetrize_dict"].

(** (owner, function): what must have been analysed *)
Definition expected : list (string * string) :=
  map (fun m => ("Point", m)) point_operators
  ++ map (fun m => ("Expression", m)) expression_operators
  ++ [("Point", "__init__"); ("Expression", "__init__"); ("Constraint", "__init__")]
  ++ map (fun h => ("dict_operations", h)) helper_names.

Fixpoint lookup_b (k : string) (l : list (string * bool)) : option bool :=
  match l with
  | [] => None
  | (k', v) :: l' => if String.eqb k k' then Some v else lookup_b k l'
  end.

Definition writes (items : list pitem) : list pitem := filter (fun i => negb (item_ok i)) items.

Definition purity_ok (analysed : list (string * string)) (items : list pitem) (fresh : list (string * bool)) : bool :=
  forallb item_ok items
  && forallb (fun e => mem_pair e analysed) expected
  && forallb (fun h => match lookup_b h fresh with Some true => true | _ => false end) helper_names.
