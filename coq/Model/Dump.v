(** Canonical dumps: the common currency of the correspondence check.  The Python harness dumps
    what the implementation produced into the same tree shape; comparison happens inside Coq
    ([D_eqb], rationals compared by value) and only the indices of disagreeing cases are printed. *)
From Coq Require Import List QArith ZArith Bool String.
From PV Require Import Model.Dict Model.Terms.
Import ListNotations.

Inductive D : Type :=
| DZ (z : Z)
| DQ (q : Q)
| DS (s : string)
| DL (l : list D).

Fixpoint D_eqb (a b : D) {struct a} : bool :=
  match a, b with
  | DZ x, DZ y => Z.eqb x y
  | DQ x, DQ y => Qeq_bool x y
  | DS x, DS y => String.eqb x y
  | DL x, DL y =>
      (fix go (x y : list D) {struct x} : bool :=
         match x, y with
         | [], [] => true
         | a :: x', b :: y' => D_eqb a b && go x' y'
         | _, _ => false
         end) x y
  | _, _ => false
  end.

Definition DN (n : nat) : D := DZ (Z.of_nat n).
Definition DB (b : bool) : D := DZ (if b then 1 else 0)%Z.
Definition DO {A} (f : A -> D) (o : option A) : D :=
  match o with None => DL [] | Some a => DL [f a] end.

Definition dump_pdict (d : pdict) : D := DL (map (fun '(k, v) => DL [DN k; DQ v]) d).
Definition dump_ekey (k : ekey) : D :=
  match k with
  | KF e => DL [DZ 0; DN e]
  | KG i j => DL [DZ 1; DN i; DN j]
  | K1 => DL [DZ 2]
  end.
Definition dump_edict (d : edict) : D := DL (map (fun '(k, v) => DL [dump_ekey k; DQ v]) d).
Definition dump_sense (s : sense) : D := DZ (match s with Ineq => 0 | Equ => 1 end)%Z.
Definition dump_cons (c : edict * sense) : D := DL [dump_edict (fst c); dump_sense (snd c)].

(** indices of the cases on which model and implementation disagree *)
Fixpoint mismatches_from {A} (run : A -> D) (i : nat) (cases : list (A * D)) : list nat :=
  match cases with
  | [] => []
  | (a, expected) :: rest =>
      if D_eqb (run a) expected then mismatches_from run (S i) rest
      else i :: mismatches_from run (S i) rest
  end.
Definition mismatches {A} (run : A -> D) (cases : list (A * D)) : list nat :=
  mismatches_from run 0 cases.
