(** Executable model of PEPit/wrappers/cvxpy_wrapper.py and of Wrapper.assign_dual_values
    (PEPit/wrapper.py): what is handed to cvxpy ([emit]), how the solver's dual values are mapped
    back onto the constraints that were sent ([recover], [assign]), and the cvxpy side of the
    dimension-reduction heuristic ([prepare_heuristic], [heuristic]).  No proofs here.

    cvxpy_wrapper.py 66-77   set_main_variables            -> first row [RGram]            (G >> 0)
                    108-141  send_constraint_to_solver     -> one row [RLe e] / [REq e]
                    143-178  send_lmi_constraint_to_solver -> [RPsd k n m] (M_k >> 0, M_k a fresh symmetric
                                                              variable) then, for i in range(n), j in range(m),
                                                              [REnt k i j e_ij]   (M_k[i, j] == e_ij)
                    180-229  _recover_dual_values          -> [recover]
                    231-248  generate_problem              -> [generate_problem]
                    312-341  prepare_heuristic / heuristic -> [prepare_heuristic] / [heuristic]
    wrapper.py      127-156  assign_dual_values            -> [assign]                                  *)
From Coq Require Import List QArith ZArith Bool.
From PV Require Import Model.Dict Model.Terms Model.Sent Model.Dump.
Import ListNotations.
Local Open Scope Q_scope.

(** One constraint of the cvxpy problem (an element of [_list_of_solver_constraints]). *)
Inductive solver_row : Type :=
| RGram                                  (* self.G >> 0 *)
| RLe (e : edict)                        (* _expression_to_solver(e) <= 0 *)
| REq (e : edict)                        (* _expression_to_solver(e) == 0 *)
| RPsd (k n m : nat)                     (* M_k >> 0,  M_k = cp.Variable((n, m), symmetric=True) *)
| REnt (k i j : nat) (e : edict)         (* M_k[i, j] == _expression_to_solver(e) *)
| RObjGe (o : edict) (c : Q).            (* self.objective >= c   (prepare_heuristic) *)

(** Shape of a PSDMatrix: [matrix_of_expressions.shape].  (PSDMatrix._store asserts a square shape;
    the model does not need it.) *)
Definition nrows (m : list (list edict)) : nat := length m.
Definition ncols (m : list (list edict)) : nat := length (hd [] m).
Definition entry (m : list (list edict)) (i j : nat) : edict := nth j (nth i m []) [].

(** the two nested [for i in range(shape[0]): for j in range(shape[1])] loops *)
Definition entry_rows (k : nat) (m : list (list edict)) : list solver_row :=
  flat_map (fun i => map (fun j => REnt k i j (entry m i j)) (seq 0 (ncols m))) (seq 0 (nrows m)).

Definition lmi_rows (k : nat) (m : list (list edict)) : list solver_row :=
  RPsd k (nrows m) (ncols m) :: entry_rows k m.

Definition scalar_row (e : edict) (s : sense) : solver_row :=
  match s with Ineq => RLe e | Equ => REq e end.

(** rows appended by the successive send_* calls; [k] = number of LMIs sent so far *)
Fixpoint emit_from (k : nat) (l : sent) : list solver_row :=
  match l with
  | [] => []
  | SC e s :: r => scalar_row e s :: emit_from k r
  | LMI m :: r => lmi_rows k m ++ emit_from (S k) r
  end.

Definition emit (l : sent) : list solver_row := RGram :: emit_from 0 l.

(** A dual value as cvxpy reports it: a float for a scalar constraint, an array for [>>]. *)
Inductive dval : Type :=
| VS (q : Q)
| VM (s : list (list Q)).

Definition dnone : dval := VS 0.

(** float(dual_value) of the dual of a scalar constraint *)
Definition scalar_of (d : dval) : Q := match d with VS q => q | VM _ => 0 end.

(** numpy reshape of a flat list to (n, m), row-major *)
Fixpoint reshape (m : nat) (l : list Q) (n : nat) : list (list Q) :=
  match n with
  | O => []
  | S n' => firstn m l :: reshape m (skipn m l) n'
  end.

(** np.array([float(d) for d in dual_values_temp[counter:counter + size]]).reshape(shape) *)
Definition entries_at (temp : list dval) (counter : nat) (m : list (list edict)) : list (list Q) :=
  reshape (ncols m) (map scalar_of (firstn (nrows m * ncols m) (skipn counter temp))) (nrows m).

(** _recover_dual_values, lines 204-228: [counter] walks through [dual_values_temp] (one value per
    solver constraint), [counter2] counts what is kept.  For an LMI the duals of its n*m entry equalities
    are stored, reshaped, in PSDMatrix.entries_dual_variable_value (second component; None for a scalar
    constraint). *)
Fixpoint recover_loop (tracked : sent) (temp : list dval) (counter counter2 : nat)
  : list dval * list (option (list (list Q))) * nat :=
  match tracked with
  | [] => ([], [], counter2)
  | SC _ _ :: r =>
      let d := nth counter temp dnone in
      let '(ds, es, c2) := recover_loop r temp (counter + 1) (counter2 + 1) in
      (d :: ds, None :: es, c2)
  | LMI m :: r =>
      let d := nth counter temp dnone in
      let size := (nrows m * ncols m)%nat in
      let u := entries_at temp (counter + 1) m in
      let '(ds, es, c2) := recover_loop r temp (counter + 1 + size) (counter2 + 1) in
      (d :: ds, Some u :: es, c2)
  end.

(** returns (dual_values, residual, counter2, entries); the Python code asserts len(dual_values) == counter2 *)
Definition recover (tracked : sent) (temp : list dval)
  : list dval * dval * nat * list (option (list (list Q))) :=
  let residual := nth 0 temp dnone in
  let '(ds, es, c2) := recover_loop tracked temp 1 1 in
  (residual :: ds, residual, c2, es).

(** assign_dual_values: [zip(self._list_of_constraints_sent_to_solver, dual_values[1:])] *)
Definition assign (tracked : sent) (dual_values : list dval) : list (item * dval) :=
  combine tracked (tl dual_values).

(** Object identity.  The tracked list holds Python OBJECTS; [ids] gives, for each position, an identifier
    of the object sitting there (equal identifiers = the very same Constraint / PSDMatrix object sent
    several times).  Both stores ( _dual_variable_value in assign_dual_values, entries_dual_variable_value
    in _recover_dual_values ) are attribute assignments in list order, so what an object shows afterwards
    is the value of its LAST occurrence. *)
Fixpoint last_pos_from (ids : list nat) (x : nat) (i : nat) (found : nat) : nat :=
  match ids with
  | [] => found
  | y :: r => last_pos_from r x (S i) (if Nat.eqb y x then i else found)
  end.
Definition by_object {A} (ids : list nat) (vals : list A) (dflt : A) : list A :=
  map (fun k => nth (last_pos_from ids (nth k ids 0%nat) 0 k) vals dflt) (seq 0 (length vals)).

(** one exposed entry: the object, its eval_dual(), its entries_dual_variable_value *)
Definition expo : Type := (item * dval * option (list (list Q)))%type.

(** what PEP.solve leaves behind: for every position of the tracked list (the PEP's two lists are its
    sub-sequences) what the object there shows, in send order, and PEP.residual *)
Definition exposed (tracked : sent) (ids : list nat) (temp : list dval) : list expo * dval :=
  let '(dv, res, _, es) := recover tracked temp in
  let a := assign tracked dv in
  (combine (combine tracked (by_object ids (map snd a) dnone)) (by_object ids es None), res).

(** ** The cvxpy problem object and the heuristic *)
Inductive objective : Type :=
| OMax (e : edict)                       (* cp.Maximize(_expression_to_solver(e)) *)
| OMinW (W : list (list Q)).             (* cp.Minimize(cp.sum(cp.multiply(G, W))) *)

Record problem : Type := { p_obj : objective; p_rows : list solver_row }.

(** wrapper attributes: _list_of_solver_constraints, objective, prob *)
Record wstate : Type := { w_rows : list solver_row; w_objective : edict; w_prob : problem }.

Definition generate_problem (obj : edict) (l : sent) : wstate :=
  {| w_rows := emit l; w_objective := obj; w_prob := {| p_obj := OMax obj; p_rows := emit l |} |}.

(** self._list_of_solver_constraints.append(self.objective >= wc_value - tol_dimension_reduction) *)
Definition prepare_heuristic (w : wstate) (wc tol : Q) : wstate :=
  {| w_rows := w_rows w ++ [RObjGe (w_objective w) (wc - tol)];
     w_objective := w_objective w; w_prob := w_prob w |}.

(** self.prob = cp.Problem(objective=cp.Minimize(<G, weight>), constraints=self._list_of_solver_constraints) *)
Definition heuristic (w : wstate) (W : list (list Q)) : wstate :=
  {| w_rows := w_rows w; w_objective := w_objective w;
     w_prob := {| p_obj := OMinW W; p_rows := w_rows w |} |}.

(** ** Rational evaluation (used by the correspondence stream: every row of the real cvxpy problem is
    evaluated at a tagged rational point and compared with the model's row) *)
Section EvalQ.
  Variable G : list (list Q).
  Variable F : list Q.
  Variable M : list (list (list Q)).      (* value given to the k-th matrix variable *)

  Definition matq (A : list (list Q)) (i j : nat) : Q := nth j (nth i A []) 0.

  Definition evalKQ (k : ekey) : Q :=
    match k with
    | KF e => nth e F 0
    | KG i j => matq G i j
    | K1 => 1
    end.

  Fixpoint evalQ (d : edict) : Q :=
    match d with
    | [] => 0
    | (k, q) :: d' => q * evalKQ k + evalQ d'
    end.

  (** value of [lhs - rhs] of the cvxpy constraint ([a <= b], [a == b]; [a >= b] is stored as [b <= a]);
      0 for the two cone constraints *)
  Definition row_value (r : solver_row) : Q :=
    match r with
    | RGram => 0
    | RLe e | REq e => evalQ e
    | RPsd _ _ _ => 0
    | REnt k i j e => matq (nth k M []) i j - evalQ e
    | RObjGe o c => c - evalQ o
    end.
End EvalQ.

(** ** Dumps *)
Definition dump_qmat (A : list (list Q)) : D := DL (map (fun row => DL (map DQ row)) A).
Definition dump_dval (d : dval) : D :=
  match d with VS q => DL [DZ 0; DQ q] | VM s => DL [DZ 1; dump_qmat s] end.

(** kind of a row as seen on the cvxpy object: 0 PSD (with shape), 1 Inequality, 2 Equality *)
Definition dump_row (G : list (list Q)) (F : list Q) (M : list (list (list Q))) (np : nat) (r : solver_row) : D :=
  match r with
  | RGram => DL [DZ 0; DN np; DN np]
  | RPsd _ n m => DL [DZ 0; DN n; DN m]
  | RLe _ | RObjGe _ _ => DL [DZ 1; DQ (row_value G F M r)]
  | REq _ | REnt _ _ _ _ => DL [DZ 2; DQ (row_value G F M r)]
  end.

Definition dump_objective (G : list (list Q)) (F : list Q) (o : objective) : D :=
  match o with
  | OMax e => DL [DZ 0; DQ (evalQ G F e)]       (* Maximize: value of the objective at the tagged point *)
  | OMinW W => DL [DZ 1; dump_qmat W]           (* Minimize <W,G>: the weight matrix *)
  end.
