(** Run-time of the 8 primitive steps (PEPit/primitive_steps/*.py): a small straight-line step
    language, its interpreter, and the part of PEPit/function.py the steps call
    ([Function.oracle], [Function.value], [Function.add_point], [Function.add_constraint]) for LEAF
    functions.  Executable Gallina, no proofs.

    The programs themselves are NOT written here: translator/tr_steps.py regenerates them from the
    Python sources into Gen/Steps.v on every check.

    Scope.  A function is an abstract identifier (a natural number) with its record [frec]:
    the [reuse_gradient] flag, the recorded samples ([list_of_points]) and the recorded side
    constraints ([list_of_constraints]).  Only leaf functions are modelled: for a composite function
    [add_point] additionally distributes gradients / values over its leaves (function.py 629-667),
    which is the subject of property C07, not of this model.  [list_of_stationary_points] is not a
    field: it is always the sub-list of [list_of_points] whose gradient dictionary is empty (every
    insertion goes through [add_point]); the harness checks that on the implementation.  Names
    (set_name / get_name) are kept as opaque strings and do not influence anything.

    In-place pruning.  [add_point] replaces the dictionaries of the three objects it is given by
    their pruned versions (function.py 617-618).  Variables of a step are names bound to objects, so
    the model re-binds the three variables to the pruned dictionaries; the translator rejects
    programs in which two names could denote the same object while one of them is pruned later. *)
From Coq Require Import List QArith Bool String Arith.
From PV Require Import Model.Dict Model.Terms.
Import ListNotations.
Local Open Scope Q_scope.

(** ** State *)
Definition sample : Type := (pdict * pdict * edict)%type.     (* (x, g, f) *)
Definition constr : Type := (edict * sense)%type.

Record frec : Type := mkFrec {
  f_reuse : bool;                 (* Function.reuse_gradient *)
  f_points : list sample;         (* Function.list_of_points *)
  f_cons : list constr            (* Function.list_of_constraints *)
}.

Record state : Type := mkState {
  pt_ctr : nat;                   (* Point.counter : id of the next leaf point *)
  ex_ctr : nat;                   (* Expression.counter : id of the next leaf expression *)
  funs : nat -> frec              (* function id -> its record *)
}.

Definition leafP (n : nat) : pdict := [(n, 1)].            (* Point() : {self: 1} *)
Definition leafX (n : nat) : edict := [(KF n, 1)].         (* Expression() : {self: 1} *)

Definition updf (f : nat) (r : frec) (fs : nat -> frec) : nat -> frec :=
  fun f' => if Nat.eqb f' f then r else fs f'.

(** [np] new leaf points and [nx] new leaf expressions have been created *)
Definition bump (np nx : nat) (s : state) : state :=
  mkState (np + pt_ctr s) (nx + ex_ctr s) (funs s).

(** [self.list_of_points.append(triplet)] *)
Definition add_sample (f : nat) (smp : sample) (s : state) : state :=
  let r := funs s f in
  mkState (pt_ctr s) (ex_ctr s) (updf f (mkFrec (f_reuse r) (f_points r ++ [smp]) (f_cons r)) (funs s)).

(** [self.list_of_constraints.append(constraint)] *)
Definition add_cons (f : nat) (c : constr) (s : state) : state :=
  let r := funs s f in
  mkState (pt_ctr s) (ex_ctr s) (updf f (mkFrec (f_reuse r) (f_points r) (f_cons r ++ [c])) (funs s)).

(** Function.add_point on a leaf function: prune the three dictionaries in place, append.
    Returns the pruned dictionaries (the new contents of the three objects). *)
Definition add_point (f : nat) (smp : sample) (s : state) : sample * state :=
  let '(x, g, v) := smp in
  let smp' := (prune x, prune g, prune v) in
  (smp', add_sample f smp' s).

(** Function._is_already_evaluated_on_point: first recorded sample whose point dictionary is equal
    (Python dict ==, order-insensitive, zeros NOT pruned) to the query's. *)
Fixpoint find_eval (p : pdict) (l : list sample) : option (pdict * edict) :=
  match l with
  | [] => None
  | (x, g, v) :: l' => if dict_eqb Nat.eqb x p then Some (g, v) else find_eval p l'
  end.

(** Function.oracle on a leaf function (function.py 669-740 with decomposition_dict = {self: 1}).
    Returns (g, f, new contents of the query point object, state). *)
Definition oracle_leaf (f : nat) (p : pdict) (s : state) : pdict * edict * pdict * state :=
  let r := funs s f in
  match find_eval p (f_points r) with
  | Some (g, v) =>
      if f_reuse r then (g, v, p, s)                       (* differentiable: reuse both *)
      else                                                 (* new subgradient, same value *)
        let gn := leafP (pt_ctr s) in
        let '((p', g', v'), s') := add_point f (p, gn, v) (bump 1 0 s) in
        (g', v', p', s')
  | None =>
      let vn := leafX (ex_ctr s) in
      let gn := leafP (pt_ctr s) in
      let '((p', g', v'), s') := add_point f (p, gn, vn) (bump 1 1 s) in
      (g', v', p', s')
  end.

(** Function.value on a leaf function (function.py 788-820). *)
Definition value_leaf (f : nat) (p : pdict) (s : state) : edict * pdict * state :=
  match find_eval p (f_points (funs s f)) with
  | Some (_, v) => (v, p, s)
  | None => let '(_, v, p', s') := oracle_leaf f p s in (v, p', s')
  end.

(** ** The step language *)
Inductive rv : Type := RetP (v : nat) | RetX (v : nat).     (* an element of the returned tuple *)

(** simple instructions.  Point / expression / constraint variables and function arguments are
    numbered by the translator (name tables are printed beside each generated program). *)
Inductive sinstr : Type :=
| FreshPoint (v : nat)                         (* v = Point() *)
| FreshExpr (v : nat)                          (* v = Expression() *)
| Oracle (f p g fx : nat)                      (* g, fx = f.oracle(p) *)
| Value (f p fx : nat)                         (* fx = f.value(p) *)
| LetP (v : nat) (t : pterm)                   (* v = <point expression> *)
| LetX (v : nat) (t : xterm)                   (* v = <expression> *)
| LetC (c : nat) (t : cterm)                   (* c = (<comparison>) *)
| SetName (c : nat) (fmt : string)             (* c.set_name(fmt.format(...)) : opaque *)
| AddPoint (f x g fx : nat)                    (* f.add_point((x, g, fx)) *)
| AddConstraint (f c : nat).                   (* f.add_constraint(c) *)

Inductive instr : Type :=
| I (i : sinstr)
| ForEach (d : nat) (body : list sinstr)       (* for d in directions: body *)
| Return (l : list rv)
| Raise (exn : string).

Definition program : Type := list instr.

(** arguments of a step call *)
Record args : Type := mkArgs {
  a_scal : nat -> Q;          (* gamma, epsilon, ... *)
  a_fun : nat -> nat;         (* function parameters -> function ids *)
  a_pts : nat -> pdict;       (* point parameters (initial binding of the point variables) *)
  a_dirs : list pdict         (* the list parameter [directions] *)
}.

Definition mk_args (pts : list pdict) (fs : list nat) (scs : list Q) (dirs : list pdict) : args :=
  mkArgs (fun k => nth k scs 0) (fun k => nth k fs O) (fun k => nth k pts []) dirs.

Record env : Type := mkEnv {
  e_p : nat -> pdict;
  e_x : nat -> edict;
  e_c : nat -> constr
}.

Definition upd {A} (v : nat) (a : A) (m : nat -> A) : nat -> A :=
  fun v' => if Nat.eqb v' v then a else m v'.
Definition setp v d (e : env) := mkEnv (upd v d (e_p e)) (e_x e) (e_c e).
Definition setx v d (e : env) := mkEnv (e_p e) (upd v d (e_x e)) (e_c e).
Definition setc v c (e : env) := mkEnv (e_p e) (e_x e) (upd v c (e_c e)).

(** Python raises ZeroDivisionError when a scalar divisor is zero; everything else in the term
    grammar is total. *)
Section Defined.
  Variable penv : nat -> Q.
  Fixpoint sdefb (s : sterm) : bool :=
    match s with
    | SNum _ | SPar _ => true
    | SAdd a b | SSub a b | SMul a b => sdefb a && sdefb b
    | SDiv a b => sdefb a && sdefb b && negb (Qeq_bool (seval penv b) 0)
    | SNeg a | SPow a _ => sdefb a
    end.
  Fixpoint pdefb (t : pterm) : bool :=
    match t with
    | PVar _ => true
    | PAdd a b | PSub a b => pdefb a && pdefb b
    | PNeg a => pdefb a
    | PScal s a => sdefb s && pdefb a
    | PDiv a s => pdefb a && sdefb s && negb (Qeq_bool (seval penv s) 0)
    end.
  Fixpoint xdefb (t : xterm) : bool :=
    match t with
    | XVar _ => true
    | XInner a b => pdefb a && pdefb b
    | XSq a => pdefb a
    | XAdd a b | XSub a b => xdefb a && xdefb b
    | XAddS a s | XSubS a s | XSSub s a | XScal s a => xdefb a && sdefb s
    | XNeg a => xdefb a
    | XDiv a s => xdefb a && sdefb s && negb (Qeq_bool (seval penv s) 0)
    end.
  Definition cdefb (t : cterm) : bool :=
    match t with
    | CLe a b | CGe a b | CEq a b => xdefb a && xdefb b
    | CLeS a s | CGeS a s | CEqS a s | CSLe s a | CSGe s a | CSEq s a => xdefb a && sdefb s
    end.
End Defined.

Definition zdiv : string := "ZeroDivisionError".

(** one simple instruction: new (environment, state), or the exception raised (with the
    environment and state at that moment) *)
Definition exec_s (a : args) (i : sinstr) (es : env * state) : (env * state) + (string * (env * state)) :=
  let '(e, s) := es in
  match i with
  | FreshPoint v => inl (setp v (leafP (pt_ctr s)) e, bump 1 0 s)
  | FreshExpr v => inl (setx v (leafX (ex_ctr s)) e, bump 0 1 s)
  | Oracle f p g fx =>
      let '(gd, vd, pd, s') := oracle_leaf (a_fun a f) (e_p e p) s in
      inl (setx fx vd (setp g gd (setp p pd e)), s')
  | Value f p fx =>
      let '(vd, pd, s') := value_leaf (a_fun a f) (e_p e p) s in
      inl (setx fx vd (setp p pd e), s')
  | LetP v t =>
      if pdefb (a_scal a) t then inl (setp v (compileP (a_scal a) (e_p e) t) e, s) else inr (zdiv, es)
  | LetX v t =>
      if xdefb (a_scal a) t then inl (setx v (compileX (a_scal a) (e_p e) (e_x e) t) e, s) else inr (zdiv, es)
  | LetC c t =>
      if cdefb (a_scal a) t then inl (setc c (compileC (a_scal a) (e_p e) (e_x e) t) e, s) else inr (zdiv, es)
  | SetName _ _ => inl es
  | AddPoint f x g fx =>
      let '((xd, gd, vd), s') := add_point (a_fun a f) (e_p e x, e_p e g, e_x e fx) s in
      inl (setx fx vd (setp g gd (setp x xd e)), s')
  | AddConstraint f c => inl (e, add_cons (a_fun a f) (e_c e c) s)
  end.

Fixpoint exec_body (a : args) (body : list sinstr) (es : env * state)
  : (env * state) + (string * (env * state)) :=
  match body with
  | [] => inl es
  | i :: rest => match exec_s a i es with
                 | inl es' => exec_body a rest es'
                 | inr err => inr err
                 end
  end.

Fixpoint exec_loop (a : args) (d : nat) (body : list sinstr) (ds : list pdict) (es : env * state)
  : (env * state) + (string * (env * state)) :=
  match ds with
  | [] => inl es
  | dv :: ds' => match exec_body a body (setp d dv (fst es), snd es) with
                 | inl es' => exec_loop a d body ds' es'
                 | inr err => inr err
                 end
  end.

Inductive rval : Type := RP (d : pdict) | RX (d : edict).
Inductive result : Type :=
| ROk (l : list rval)          (* the returned tuple, as dictionaries *)
| RNone                        (* fell off the end: Python returns None *)
| RErr (exn : string).

Definition eval_rv (e : env) (r : rv) : rval :=
  match r with RetP v => RP (e_p e v) | RetX v => RX (e_x e v) end.

Fixpoint exec (a : args) (prog : program) (es : env * state) : result * (env * state) :=
  match prog with
  | [] => (RNone, es)
  | I i :: rest => match exec_s a i es with
                   | inl es' => exec a rest es'
                   | inr (exn, es') => (RErr exn, es')
                   end
  | ForEach d body :: rest => match exec_loop a d body (a_dirs a) es with
                              | inl es' => exec a rest es'
                              | inr (exn, es') => (RErr exn, es')
                              end
  | Return l :: _ => (ROk (map (eval_rv (fst es)) l), es)
  | Raise exn :: _ => (RErr exn, es)
  end.

Definition init_env (a : args) : env :=
  mkEnv (a_pts a) (fun _ => []) (fun _ => ([], Ineq)).

Definition run_full (prog : program) (a : args) (s : state) : result * (env * state) :=
  exec a prog (init_env a, s).

(** what a caller observes: the returned tuple and the new state *)
Definition run (prog : program) (a : args) (s : state) : result * state :=
  let '(r, (_, s')) := run_full prog a s in (r, s').

(** ** Canonical dumps for the correspondence stream (harness/p_c08.py) *)
From PV Require Import Model.Dump.

Definition dump_sample (s : sample) : D :=
  let '(x, g, v) := s in DL [dump_pdict x; dump_pdict g; dump_edict v].
Definition dump_frec (r : frec) : D :=
  DL [DB (f_reuse r); DL (map dump_sample (f_points r)); DL (map dump_cons (f_cons r))].
Definition dump_rval (r : rval) : D :=
  match r with RP d => DL [DS "P"; dump_pdict d] | RX d => DL [DS "X"; dump_edict d] end.
Definition dump_result (r : result) : D :=
  match r with
  | ROk l => DL [DS "ok"; DL (map dump_rval l)]
  | RNone => DL [DS "none"]
  | RErr e => DL [DS "err"; DS e]
  end.

(** result; the point arguments after the call (objects may have been pruned in place); counters;
    the records of functions 0 .. nf-1 *)
Definition dump_run (nf np : nat) (out : result * (env * state)) : D :=
  let '(r, (e, s)) := out in
  DL [dump_result r;
      DL (map (fun k => dump_pdict (e_p e k)) (seq 0 np));
      DN (pt_ctr s); DN (ex_ctr s);
      DL (map (fun f => dump_frec (funs s f)) (seq 0 nf))].

Definition mk_state (pc xc : nat) (l : list frec) : state :=
  mkState pc xc (fun f => nth f l (mkFrec false [] [])).

Record scase : Type := mkCase {
  c_prog : program; c_args : args; c_state : state; c_nf : nat; c_np : nat
}.
Definition run_case (c : scase) : D :=
  dump_run (c_nf c) (c_np c) (run_full (c_prog c) (c_args c) (c_state c)).
