(** Executable model of the oracle bookkeeping of PEPit/function.py (constructor, operator overloads,
    [_is_already_evaluated_on_point], [_separate_leaf_functions_regarding_their_need_on_point],
    [add_point], [oracle], [gradient]/[subgradient], [value], [stationary_point], [fixed_point]).

    State = the two class counters that name fresh leaves ([Point.counter], [Expression.counter]) and
    the table of every function built so far, in creation order.  A function is a LEAF (weights
    [{self: 1}]) or a COMPOSITE whose [decomposition_dict] maps leaf functions to weights (the
    operators only ever merge / scale dictionaries over leaves, so the recursion depth of
    [oracle]/[add_point] is 2: composite -> leaves; the model is structural, no fuel).

    A sample is the triple of decomposition dictionaries (point, gradient, value): lookup uses nothing
    else of a point than its dictionary.  Dictionaries are ordered association lists (order is
    observable in the dumps).

    In-place effects that are modelled because they are observable:
      - [add_point] prunes the three recorded objects, so the objects returned by [oracle] are pruned,
        and a query point written [0*y] (dictionary [{y: 0}]) is recorded as [{}];
      - [Function.__add__] prunes the merged weights (since /repo 5162ea4), [__rmul__] does not: a
        composite carries a zero weight only as a bare zero scaling [0*F] (then ALL its weights are
        zero); [add_point] on a composite prunes the composite's weights in place;
      - classification inside [oracle] runs BEFORE [add_point] (unpruned query point, unpruned
        weights), the one inside [add_point] AFTER both prunings.
    Aliasing that is NOT observable and therefore not modelled: the same Python [Point] object is
    recorded in the composite's list and in each term's list, and a reused value object is recorded
    in several triples; the only mutation ever applied to a recorded object is [prune_dict], which
    is idempotent, so sharing cannot be seen in any dump.  (The harness builds a fresh query object
    for every op; re-submitting an object that [add_point] pruned in place is the same as submitting
    the pruned dictionary.) *)
From Coq Require Import String List QArith Bool Arith.
From PV Require Import Model.Dict Model.Terms.
Import ListNotations.
Local Open Scope Q_scope.

Definition fid := nat.
Definition wdict := dict nat.                      (* weights over leaf-function ids *)
Definition sample : Type := pdict * pdict * edict. (* (point, gradient, value) *)

Record frec : Type := mkF {
  f_leaf : bool;                 (* Function._is_leaf *)
  f_reuse : bool;                (* Function.reuse_gradient *)
  f_w : wdict;                   (* Function.decomposition_dict *)
  f_pts : list sample;           (* Function.list_of_points *)
  f_stat : list sample           (* Function.list_of_stationary_points *)
}.

Record state : Type := mkS {
  pt_ctr : nat;                  (* Point.counter : next leaf point *)
  ex_ctr : nat;                  (* Expression.counter : next leaf expression *)
  funs : list frec               (* every Function object, creation order; fid = index *)
}.

Definition init : state := mkS 0 0 [].

Definition dummy : frec := mkF true false [] [] [].
Definition getf (s : state) (i : fid) : frec := nth i (funs s) dummy.

Fixpoint upd {A} (i : nat) (f : A -> A) (l : list A) : list A :=
  match l, i with
  | [], _ => []
  | a :: l', O => f a :: l'
  | a :: l', S i' => a :: upd i' f l'
  end.

Definition setf (s : state) (i : fid) (f : frec -> frec) : state :=
  mkS (pt_ctr s) (ex_ctr s) (upd i f (funs s)).

(** [Point()] / [Expression()] : a fresh leaf, dictionary [{self: 1}]. *)
Definition fresh_pt (s : state) : pdict * state :=
  ([(pt_ctr s, 1)], mkS (S (pt_ctr s)) (ex_ctr s) (funs s)).
Definition fresh_ex (s : state) : edict * state :=
  ([(KF (ex_ctr s), 1)], mkS (pt_ctr s) (S (ex_ctr s)) (funs s)).

(** [_is_already_evaluated_on_point]: first triple whose point dictionary [==] the query's. *)
Fixpoint find_pt (pts : list sample) (x : pdict) : option (pdict * edict) :=
  match pts with
  | [] => None
  | (x0, g, v) :: r => if dict_eqb Nat.eqb x0 x then Some (g, v) else find_pt r x
  end.

Definition is_nil {A} (l : list A) : bool := match l with [] => true | _ => false end.

(** [add_point], the part common to leaves and composites: prune the three objects in place, append
    to [list_of_points], and to [list_of_stationary_points] when the pruned gradient is [{}]. *)
Definition pruned_sample (t : sample) : sample :=
  let '(x, g, v) := t in (prune x, prune g, prune v).

Definition record (s : state) (i : fid) (t : sample) : state :=
  let t' := pruned_sample t in
  setf s i (fun r => mkF (f_leaf r) (f_reuse r) (f_w r) (f_pts r ++ [t'])
                         (if is_nil (snd (fst t')) then f_stat r ++ [t'] else f_stat r)).

(** [oracle] of a leaf (weights [{self: 1}]): stored pair when evaluated and differentiable; stored
    value + fresh subgradient when evaluated and not differentiable; fresh value (created first) and
    fresh gradient otherwise. *)
Definition leaf_oracle (s : state) (i : fid) (x : pdict) : state * (pdict * edict) :=
  let r := getf s i in
  match find_pt (f_pts r) x with
  | Some (g, v) =>
      if f_reuse r then (s, (g, v))
      else let '(g', s1) := fresh_pt s in
           (record s1 i (x, g', v), (prune g', prune v))
  | None =>
      let '(v', s1) := fresh_ex s in
      let '(g', s2) := fresh_pt s1 in
      (record s2 i (x, g', v'), (prune g', prune v'))
  end.

(** [value] of a leaf: stored value if evaluated, else [oracle]. *)
Definition leaf_value (s : state) (i : fid) (x : pdict) : state * edict :=
  match find_pt (f_pts (getf s i)) x with
  | Some (_, v) => (s, v)
  | None => let '(s', (_, v)) := leaf_oracle s i x in (s', v)
  end.

(** [_separate_leaf_functions_regarding_their_need_on_point] on the weights [w] (iteration order
    kept inside each class): (need nothing, need gradient only, need gradient and value). *)
Fixpoint classify (s : state) (w : wdict) (x : pdict) : wdict * wdict * wdict :=
  match w with
  | [] => ([], [], [])
  | (i, q) :: w' =>
      let '(n, go, gv) := classify s w' x in
      match find_pt (f_pts (getf s i)) x with
      | Some _ => if f_reuse (getf s i) then ((i, q) :: n, go, gv) else (n, (i, q) :: go, gv)
      | None => (n, go, (i, q) :: gv)
      end
  end.

(** The loop at the end of [add_point] on a composite.  [budget] = number of terms that are still to
    be evaluated with [oracle] before "the last one" ([total - 1 - number_of_currently_computed]);
    [G], [V] = gradient / value of the composite minus the weighted samples of the visited terms.
    When the budget is exhausted the current term receives the remainder divided by its weight. *)
Fixpoint distribute (s : state) (x : pdict) (G : pdict) (V : edict) (budget : nat) (l : wdict) : state :=
  match l with
  | [] => s
  | (i, q) :: rest =>
      match budget with
      | S b =>
          let '(s', (g, v)) := leaf_oracle s i x in
          distribute s' x (p_sub G (p_scal q g)) (x_sub V (x_scal q v)) b rest
      | O =>
          let G' := p_div G q in
          let V' := x_div V q in
          distribute (record s i (x, G', V')) x G' V' O rest
      end
  end.

(** [add_point] on a composite. *)
Definition comp_add_point (s : state) (F : fid) (t : sample) : state :=
  let '(x, g, v) := pruned_sample t in
  let s1 := record s F t in
  let s2 := setf s1 F (fun r => mkF (f_leaf r) (f_reuse r) (prune (f_w r)) (f_pts r) (f_stat r)) in
  let w := f_w (getf s2 F) in
  let '(n, go, gv) := classify s2 w x in
  let something := go ++ gv in
  if is_nil something then s2
  else distribute s2 x g v (length w - 1) (n ++ something).

Definition add_point (s : state) (f : fid) (t : sample) : state :=
  if f_leaf (getf s f) then record s f t else comp_add_point s f t.

(** [f = Expression({}); for function, weight in items: f += weight * function.value(point)] *)
Fixpoint sum_values (s : state) (w : wdict) (x : pdict) (acc : edict) : state * edict :=
  match w with
  | [] => (s, acc)
  | (i, q) :: w' => let '(s', v) := leaf_value s i x in sum_values s' w' x (x_add acc (x_scal q v))
  end.

(** [g = Point({}); for function, weight in items: g += weight * function.gradient(point)] *)
Fixpoint sum_grads (s : state) (w : wdict) (x : pdict) (acc : pdict) : state * pdict :=
  match w with
  | [] => (s, acc)
  | (i, q) :: w' => let '(s', (g, _)) := leaf_oracle s i x in sum_grads s' w' x (p_add acc (p_scal q g))
  end.

(** [oracle] on a composite. *)
Definition comp_oracle (s : state) (F : fid) (x : pdict) : state * (pdict * edict) :=
  let r := getf s F in
  let assoc := find_pt (f_pts r) x in
  match assoc, f_reuse r with
  | Some gv, true => (s, gv)
  | _, _ =>
      let w := f_w r in
      let '(n, go, gvl) := classify s w x in
      let '(s1, v) :=
        match assoc with
        | Some (_, v0) => (s, v0)
        | None => if is_nil gvl then sum_values s w x []
                  else let '(v', s') := fresh_ex s in (s', v')
        end in
      let '(s2, g) :=
        if is_nil gvl && is_nil go then sum_grads s1 w x []
        else let '(g', s') := fresh_pt s1 in (s', g') in
      (comp_add_point s2 F (x, g, v), (prune g, prune v))
  end.

Definition oracle (s : state) (f : fid) (x : pdict) : state * (pdict * edict) :=
  if f_leaf (getf s f) then leaf_oracle s f x else comp_oracle s f x.

Definition value (s : state) (f : fid) (x : pdict) : state * edict :=
  match find_pt (f_pts (getf s f)) x with
  | Some (_, v) => (s, v)
  | None => let '(s', (_, v)) := oracle s f x in (s', v)
  end.

(** The op language.  [Combine terms] is the composite obtained with the operator overloads from
    [q1*t1 + q2*t2 + ...] (terms are leaves or composites), built the way Python evaluates it:
    [q1*t1] is a bare scaling ([__rmul__]: no pruning, so [0*f] keeps [{f: 0}]); every following
    [+ qk*tk] is [Function.__add__]: merge, then PRUNE (so [f1 + f2 - f2] is [{f1: 1}],
    [0*f1 + f2] is [{f2: 1}], [f - f] is [{}]).  [-], unary [-], [/] are [+] and scalings.
    [reuse_gradient] is and-ed over ALL operands, cancelled ones included.
    [Direct w reuse] is the documented constructor call with an explicit dictionary over leaf functions:
    nothing is pruned or checked there. *)
Inductive op : Type :=
| NewPoint                                  (* Point() by the user *)
| NewExpr                                   (* Expression() by the user *)
| NewLeaf (reuse : bool)                    (* Function(is_leaf=True, reuse_gradient=reuse) *)
| Combine (terms : list (fid * Q))
| Direct (w : wdict) (reuse : bool)         (* Function(is_leaf=False, decomposition_dict=w, reuse_gradient=reuse) *)
| Oracle (f : fid) (p : pterm)               (* the query point as the user WROTE it with the Point operators *)
| Gradient (f : fid) (p : pterm)
| Value (f : fid) (p : pterm)
| Stationary (f : fid)
| Fixed (f : fid)
| AddPoint (f : fid) (x g : pterm) (v : edict).

(** The decomposition of a point written with the Point operators over the leaf points: [Terms.compileP]
    (the model of PEPit/point.py, C06).  The bookkeeping only ever sees this dictionary; [+] and [-] prune
    it, so that a point that returns to an earlier one ([x1 - (x1 - x0)], [(x0 + g) - g]) has the earlier
    one's decomposition; a scaling does not prune ([0*y] is [{y: 0}]). *)
Definition pt (t : pterm) : pdict := compileP (fun _ => 0) (fun v => [(v, 1)]) t.

(** Leaves that are instances of the shipped classes (PEPit/functions, PEPit/operators).  Documented rule for
    [reuse_gradient]: the classes whose members are differentiable / single-valued FORCE it to True whatever
    the user declares ("Smooth functions are necessarily differentiable, hence reuse_gradient is set to True"),
    every other class FORWARDS the declared value (default False).  [class_forced] is the specification of the
    first list; it is compared with the constructors of /repo in two ways: [Gen/Classes.v] ([force_reuse_<Cls>],
    extracted from the source on every run; Example [C07_class_flags_agree_with_source]) and on the real
    objects (harness: effective flag = [leaf_reuse cls declared], and two gradient queries at one point return
    the same object iff that flag is True). *)
Definition forced_classes : list string :=
  ["BlockSmoothConvexFunction"; "SmoothConvexFunction"; "SmoothConvexLipschitzFunction"; "SmoothFunction";
   "SmoothStronglyConvexFunction"; "SmoothStronglyConvexQuadraticFunction";
   "CocoerciveOperator"; "CocoerciveStronglyMonotoneOperator"; "LinearOperator"; "LipschitzOperator";
   "LipschitzStronglyMonotoneOperator"; "NonexpansiveOperator"; "SkewSymmetricLinearOperator";
   "SymmetricLinearOperator"]%string.
Definition class_forced (cls : string) : bool := existsb (String.eqb cls) forced_classes.
(** the effective flag of [Cls(..., reuse_gradient=declared)]; the op is [NewLeaf (leaf_reuse cls declared)] *)
Definition leaf_reuse (cls : string) (declared : bool) : bool := class_forced cls || declared.

Definition combine_weights (s : state) (terms : list (fid * Q)) : wdict :=
  match terms with
  | [] => []
  | (f0, q0) :: rest =>
      fold_left (fun acc '(f, q) => prune (merge Nat.eqb acc (scale q (f_w (getf s f)))))
                rest (scale q0 (f_w (getf s f0)))
  end.

(** the construction before /repo 5162ea4 ([__add__] did not prune); kept for the regression examples *)
Definition combine_weights_old (s : state) (terms : list (fid * Q)) : wdict :=
  fold_left (fun acc '(f, q) => merge Nat.eqb acc (scale q (f_w (getf s f)))) terms [].
Definition combine_reuse (s : state) (terms : list (fid * Q)) : bool :=
  forallb (fun '(f, _) => f_reuse (getf s f)) terms.

(** what the call returned: dictionaries of the returned objects, in order *)
Definition ret : Type := list (pdict + edict).

Definition step_ret (s : state) (o : op) : state * ret :=
  match o with
  | NewPoint => let '(p, s') := fresh_pt s in (s', [inl p])
  | NewExpr => let '(e, s') := fresh_ex s in (s', [inr e])
  | NewLeaf reuse =>
      let i := length (funs s) in
      (mkS (pt_ctr s) (ex_ctr s) (funs s ++ [mkF true reuse [(i, 1)] [] []]), [])
  | Combine terms =>
      (mkS (pt_ctr s) (ex_ctr s)
           (funs s ++ [mkF false (combine_reuse s terms) (combine_weights s terms) [] []]), [])
  | Direct w reuse =>
      (mkS (pt_ctr s) (ex_ctr s) (funs s ++ [mkF false reuse w [] []]), [])
  | Oracle f p => let '(s', (g, v)) := oracle s f (pt p) in (s', [inl g; inr v])
  | Gradient f p => let '(s', (g, _)) := oracle s f (pt p) in (s', [inl g])
  | Value f p => let '(s', v) := value s f (pt p) in (s', [inr v])
  | Stationary f =>
      let '(x, s1) := fresh_pt s in
      let '(v, s2) := fresh_ex s1 in
      (add_point s2 f (x, [], v), [inl x])
  | Fixed f =>
      let '(x, s1) := fresh_pt s in
      let '(v, s2) := fresh_ex s1 in
      (add_point s2 f (x, x, v), [inl x; inl x; inr v])
  | AddPoint f x g v => (add_point s f (pt x, pt g, v), [])
  end.

Definition step (s : state) (o : op) : state := fst (step_ret s o).
Definition run (ops : list op) : state := fold_left step ops init.

(** ** Canonical dumps for the correspondence stream *)
From PV Require Import Model.Dump.

Definition dump_sample (t : sample) : D :=
  let '(x, g, v) := t in DL [dump_pdict x; dump_pdict g; dump_edict v].
Definition dump_frec (r : frec) : D :=
  DL [DB (f_leaf r); DB (f_reuse r); dump_pdict (f_w r);
      DL (map dump_sample (f_pts r)); DL (map dump_sample (f_stat r))].
Definition dump_state (s : state) : D :=
  DL [DN (pt_ctr s); DN (ex_ctr s); DL (map dump_frec (funs s))].
Definition dump_ret (r : ret) : D :=
  DL (map (fun o => match o with inl p => dump_pdict p | inr e => dump_edict e end) r).

(** per op: what it returned (and the whole state after it when [full]); then the final state *)
Fixpoint trace_from (full : bool) (s : state) (ops : list op) : list D * state :=
  match ops with
  | [] => ([], s)
  | o :: rest =>
      let '(s', r) := step_ret s o in
      let '(ds, sf) := trace_from full s' rest in
      (DL [dump_ret r; if full then dump_state s' else DL []] :: ds, sf)
  end.
Definition trace (c : bool * list op) : D :=
  let '(ds, sf) := trace_from (fst c) init (snd c) in DL [DL ds; dump_state sf].

(** ** Executable side conditions on op lists (used by the theorems of Props/C07.v)

    [op_scoped]: the op only mentions objects that exist (function ids, leaf points), dictionaries have
    unique keys (every Python dict has), a composite has at least one operand, an explicit dictionary
    handed to the constructor is over leaf functions and is not declared differentiable with a
    non-differentiable term, and [add_point] is called by the user the way the primitive steps call it: on a point that is not yet recorded for
    the function or for one of its terms.
    Query points are point TERMS: the side conditions speak about [pt p], the decomposition the Point
    algebra of /repo gives to what the user wrote (that the implementation's object has exactly this
    decomposition is part of the correspondence check).
    [op_guard]: excludes exactly the triggers of the open findings: a composite that is the ZERO
    FUNCTION -- its weights are a bare zero scaling [{f: 0, ...}] (F-C07d) or everything cancelled
    [{}] (F-C07c); with [__add__] pruning, these are the only operator-built composites with a zero
    weight --, an explicit constructor dictionary with a zero weight (F-C07e, the old F-C07a through
    the constructor), and a query point with an explicit zero coefficient (F-C07b).  Cancelling weights ([f1 + f2 - f2]) are
    accepted. *)
Fixpoint nodup_by {A} (eqb : A -> A -> bool) (l : list A) : bool :=
  match l with
  | [] => true
  | a :: r => negb (existsb (eqb a) r) && nodup_by eqb r
  end.

Definition pwf_b (s : state) (d : pdict) : bool :=
  nodup_by Nat.eqb (keys d) && forallb (fun k => Nat.ltb k (pt_ctr s)) (keys d).

Definition allnz_b {K} (d : dict K) : bool := forallb (fun '(_, v) => nonzero v) d.

Definition is_none {A} (o : option A) : bool := match o with None => true | Some _ => false end.

Definition fresh_for (s : state) (f : fid) (x : pdict) : bool :=
  is_none (find_pt (f_pts (getf s f)) x) &&
  forallb (fun '(i, _) => is_none (find_pt (f_pts (getf s i)) x)) (f_w (getf s f)).

Definition in_range (s : state) (f : fid) : bool := Nat.ltb f (length (funs s)).

Definition op_scoped (s : state) (o : op) : bool :=
  match o with
  | NewPoint | NewExpr | NewLeaf _ => true
  | Combine terms =>
      forallb (fun '(f, _) => in_range s f) terms && negb (is_nil terms)
  | Direct w reuse =>
      nodup_by Nat.eqb (keys w) && forallb (fun '(k, _) => in_range s k && f_leaf (getf s k)) w
      && implb reuse (forallb (fun '(k, _) => f_reuse (getf s k)) w)
  | Oracle f p | Gradient f p | Value f p => in_range s f && pwf_b s (pt p)
  | Stationary f | Fixed f => in_range s f
  | AddPoint f x g v =>
      in_range s f && pwf_b s (pt x) && nodup_by Nat.eqb (keys (pt g)) && nodup_by ekey_eqb (keys v)
      && fresh_for s f (prune (pt x))
  end.

Definition op_guard (s : state) (o : op) : bool :=
  match o with
  | Combine terms => allnz_b (combine_weights s terms) && negb (is_nil (combine_weights s terms))
  | Direct w _ => allnz_b w && negb (is_nil w)
  | Oracle _ p | Gradient _ p | Value _ p => allnz_b (pt p)
  | _ => true
  end.

Fixpoint run_scoped (s : state) (ops : list op) : bool :=
  match ops with
  | [] => true
  | o :: r => op_scoped s o && run_scoped (step s o) r
  end.

Fixpoint run_ok (s : state) (ops : list op) : bool :=
  match ops with
  | [] => true
  | o :: r => op_scoped s o && op_guard s o && run_ok (step s o) r
  end.

Definition ops_scoped (ops : list op) : bool := run_scoped init ops.
Definition ops_ok (ops : list op) : bool := run_ok init ops.
