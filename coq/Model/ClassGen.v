(** Executable model of class-constraint generation: PEPit/function.py 323-453 (the two generic
    generators with their tables and names), Function.get_class_constraints_duals (455-502),
    Function.set_class_constraints, BlockSmoothConvexFunction.add_class_constraints (hand-rolled
    loops) and the shapes of the other [add_class_constraints] bodies ("plans", emitted by the
    translator from functions/*.py and operators/*.py into Gen/Classes.v).  No proofs here. *)
From Coq Require Import List QArith Bool String Ascii Arith.
From Coq Require Import Numbers.DecimalString Numbers.DecimalNat.
From PV Require Import Model.Dict Model.Terms.
Import ListNotations.
Local Open Scope string_scope.

(** A recorded sample (x, g, f) of a function: decomposition dictionaries + the name of x.
    Object identities (Python [is]) are small integers handed out by the harness from [id(obj)]:
    [s_uid] is the identity of the triplet tuple object itself (the same tuple object sits in
    list_of_points and in list_of_stationary_points), [s_xid]/[s_gid] those of the Point objects x
    and g (recorded, no generator looks at them any more).  [s_gblocks] = [partition.get_block(g, k) for k in range(d)] (BlockSmooth only; the block
    partition itself is modelled elsewhere, the blocks are input data here). *)
Record sample := mkSample {
  s_x : pdict; s_g : pdict; s_f : edict;
  s_name : option string;
  s_uid : nat;
  s_xid : nat; s_gid : nat;
  s_gblocks : list pdict
}.

Inductive lst := LPoints | LStationary | LTPoints.

Inductive guard :=
| GParFinite (p : nat)      (* if self.<p> != np.inf *)
| GHasV                     (* if self.v is not None *)
| GNonEmpty (l : lst).      (* if N > 0  with N = len(<list l>) : guards the PSDMatrix of an LMI block *)

Inductive plan_item :=
| Pairs (l1 l2 : lst) (cname : string) (f : cterm) (symmetry : bool)
| Singles (l : lst) (cname : string) (f : cterm)
| Guarded (g : guard) (item : plan_item)
| AutoStationary             (* if self.list_of_stationary_points == list(): self.stationary_point() *)
| LMI (l : lst) (entry : xterm)  (* the N x N matrix over list l, appended whatever N (0 x 0 for an empty list);
                                    the linear operator classes guard it: Guarded (GNonEmpty l) (LMI l entry) *)
| BlockPairs (cprefix : string) (f : cterm).
                             (* BlockSmoothConvexFunction: for i: for j: if point_i is point_j: 0 else for k: f *)

(** variable numbering used by every generated formula (see translator/pep2coq.py) *)
Definition V_xi := 0%nat. Definition V_gi := 1%nat. Definition V_xj := 2%nat. Definition V_gj := 3%nat.
Definition V_xs := 4%nat. Definition V_v := 5%nat. Definition V_gik := 6%nat. Definition V_gjk := 7%nat.
Definition X_fi := 0%nat. Definition X_fj := 1%nat. Definition X_fs := 2%nat.
Definition P_Lk := 6%nat.           (* self.L[k] inside the block formula *)

(** state of one leaf function when its class constraints are generated *)
Record fstate := mkF {
  f_id : string;                    (* name, or "Function_<counter>" *)
  f_par : nat -> Q;                 (* self.L, self.mu, ... (numbering in Gen/Classes.v) *)
  f_inf : nat -> bool;              (* parameter is np.inf *)
  f_points : list sample;
  f_stat : list sample;
  f_tpoints : list sample;          (* LinearOperator: self.T.list_of_points *)
  f_v : option pdict;               (* NonexpansiveOperator: self.v *)
  f_next_point : nat;               (* Point.counter / fresh leaf id *)
  f_next_expr : nat;                (* Expression.counter *)
  f_next_uid : nat;                 (* first unused object identity *)
  f_nblocks : nat;                  (* BlockSmooth: self.partition.get_nb_blocks() *)
  f_Lk : nat -> Q                   (* BlockSmooth: self.L[k] *)
}.

Definition nat_to_string (n : nat) : string := NilEmpty.string_of_uint (Nat.to_uint n).

Definition point_id (s : sample) (i : nat) : string :=
  match s_name s with Some n => n | None => "Point_" ++ nat_to_string i end.

(** a generated class constraint: its name (every generator names its constraints; [None] is kept for
    unnamed objects, none is generated any more) and object *)
Record citem := mkC { c_name : option string; c_obj : edict * sense }.

Definition get_list (st : fstate) (l : lst) : list sample :=
  match l with LPoints => f_points st | LStationary => f_stat st | LTPoints => f_tpoints st end.

Definition env_p (st : fstate) (si sj : sample) : nat -> pdict :=
  fun v =>
    match v with
    | 0 => s_x si | 1 => s_g si | 2 => s_x sj | 3 => s_g sj
    | 4 => match f_stat st with s :: _ => s_x s | [] => [] end
    | 5 => match f_v st with Some d => d | None => [] end
    | _ => []
    end%nat.

Definition env_x (st : fstate) (si sj : sample) : nat -> edict :=
  fun v =>
    match v with
    | 0 => s_f si | 1 => s_f sj
    | 2 => match f_stat st with s :: _ => s_f s | [] => [] end
    | _ => []
    end%nat.

Definition inst (st : fstate) (f : cterm) (si sj : sample) : edict * sense :=
  compileC (f_par st) (env_p st si sj) (env_x st si sj) f.

Definition instX (st : fstate) (t : xterm) (si sj : sample) : edict :=
  compileX (f_par st) (env_p st si sj) (env_x st si sj) t.

(** block k of the formula of BlockSmoothConvexFunction: gik, gjk = get_block(gi, k), get_block(gj, k);
    self.L[k] *)
Definition env_pb (st : fstate) (k : nat) (si sj : sample) : nat -> pdict :=
  fun v => if Nat.eqb v V_gik then nth k (s_gblocks si) []
           else if Nat.eqb v V_gjk then nth k (s_gblocks sj) []
           else env_p st si sj v.
Definition par_b (st : fstate) (k : nat) : nat -> Q :=
  fun p => if Nat.eqb p P_Lk then f_Lk st k else f_par st p.
Definition instB (st : fstate) (f : cterm) (k : nat) (si sj : sample) : edict * sense :=
  compileC (par_b st k) (env_pb st k si sj) (env_x st si sj) f.

Fixpoint enumerate_from {A} (i : nat) (l : list A) : list (nat * A) :=
  match l with [] => [] | a :: l' => (i, a) :: enumerate_from (S i) l' end.
Definition enumerate {A} (l : list A) := enumerate_from 0 l.

Definition pair_name (st : fstate) (cname : string) (si sj : sample) (i j : nat) : string :=
  "IC_" ++ f_id st ++ "_" ++ cname ++ "(" ++ point_id si i ++ ", " ++ point_id sj j ++ ")".
Definition single_name (st : fstate) (cname : string) (si : sample) (i : nat) : string :=
  "IC_" ++ f_id st ++ "_" ++ cname ++ "(" ++ point_id si i ++ ")".

(** function.py:421  [if point_i is point_j or (i > j and symmetry)] : the pair is skipped *)
Definition skip_pair (symmetry : bool) (i j : nat) (si sj : sample) : bool :=
  Nat.eqb (s_uid si) (s_uid sj) || (Nat.ltb j i && symmetry).

(** function.py:375 add_constraints_from_two_lists_of_points.
    Row i / column j: [None] (a 0 in the table) when the pair is skipped, else the constraint.
    Returns rows of optional constraints; the flat list in row-major order is what is appended to
    list_of_class_constraints. *)
Definition gen_pairs (st : fstate) (l1 l2 : list sample) (cname : string) (f : cterm) (symmetry : bool)
  : list (list (option citem)) :=
  map (fun '(i, si) =>
         map (fun '(j, sj) =>
                if skip_pair symmetry i j si sj then None
                else Some (mkC (Some (pair_name st cname si sj i j)) (inst st f si sj)))
             (enumerate l2))
      (enumerate l1).

(** function.py:323 add_constraints_from_one_list_of_points *)
Definition gen_singles (st : fstate) (l : list sample) (cname : string) (f : cterm) : list citem :=
  map (fun '(i, si) => mkC (Some (single_name st cname si i)) (inst st f si si)) (enumerate l).

Definition flatten_opts {A} (rows : list (list (option A))) : list A :=
  flat_map (fun row => flat_map (fun o => match o with Some a => [a] | None => [] end) row) rows.

(** A table cell holds the Constraint *object*; an object is identified by its position in
    list_of_class_constraints (every generated constraint is appended there exactly once).
    [number_rows off rows] attaches to every [Some] cell, in row-major order, the positions
    off, off+1, ... *)
Fixpoint number_row {A} (off : nat) (row : list (option A)) : list (option (nat * A)) * nat :=
  match row with
  | [] => ([], off)
  | None :: r => let '(r', n) := number_row off r in (None :: r', n)
  | Some a :: r => let '(r', n) := number_row (S off) r in (Some (off, a) :: r', n)
  end.
Fixpoint number_rows {A} (off : nat) (rows : list (list (option A))) : list (list (option (nat * A))) :=
  match rows with
  | [] => []
  | r :: rs => let '(r', n) := number_row off r in r' :: number_rows n rs
  end.

(** the pandas DataFrame stored in tables_of_constraints[t_name]: cells, row labels (index), column
    labels, columns.name *)
Record table := mkT {
  t_name : string;
  t_rows : list (list (option (nat * citem)));
  t_index : list string;
  t_columns : list string;
  t_title : string
}.

(** [point[0].name or "Point_{}".format(point_index)] *)
Definition labels (l : list sample) : list string := map (fun '(i, s) => point_id s i) (enumerate l).

Record genout := mkG {
  g_cons : list citem;              (* list_of_class_constraints, in order *)
  g_lmis : list (list (list edict));(* list_of_class_psd, in order *)
  g_tables : list table;            (* tables_of_constraints entries written, in order (later writes win) *)
  g_state : fstate
}.

Definition guard_true (st : fstate) (g : guard) : bool :=
  match g with
  | GParFinite p => negb (f_inf st p)
  | GHasV => match f_v st with Some _ => true | None => false end
  | GNonEmpty l => match get_list st l with [] => false | _ => true end
  end.

(** Function.stationary_point() : fresh leaf point, empty gradient, fresh leaf value; the new
    triplet object is appended to both lists *)
Definition auto_stationary (st : fstate) : fstate :=
  let u := f_next_uid st in
  let s := mkSample [(f_next_point st, 1)] [] [(KF (f_next_expr st), 1)] None u (S u) (S (S u)) [] in
  mkF (f_id st) (f_par st) (f_inf st) (f_points st ++ [s]) (f_stat st ++ [s]) (f_tpoints st) (f_v st)
      (S (f_next_point st)) (S (f_next_expr st)) (S (S (S u))) (f_nblocks st) (f_Lk st).

Definition append_out (o : genout) (cs : list citem) (ls : list (list (list edict))) (ts : list table) st :=
  mkG (g_cons o ++ cs) (g_lmis o ++ ls) (g_tables o ++ ts) st.

(** ---- BlockSmoothConvexFunction.add_class_constraints (functions/block_smooth_convex_function.py).
    The skip test is [point_i is point_j]: the identity of the two triplet objects, as in the generic
    generators.  (Before /repo b61687d it was the tuple equality [point_i == point_j], under which two
    triplets holding the same Point objects x and g compared equal whatever their f; the translator now
    refuses that comparison.) *)
Definition same_tuple (si sj : sample) : bool := Nat.eqb (s_uid si) (s_uid sj).

Definition block_name (st : fstate) (cprefix : string) (k : nat) (si sj : sample) (i j : nat) : string :=
  "IC_" ++ f_id st ++ "_" ++ cprefix ++ nat_to_string k ++ "(" ++ point_id si i ++ ", " ++ point_id sj j ++ ")".

(** the ordered pairs that get constraints (None = skipped), as a grid *)
Definition block_grid (l : list sample) : list (list (option (nat * sample * nat * sample))) :=
  map (fun '(i, si) =>
         map (fun '(j, sj) => if same_tuple si sj then None else Some (i, si, j, sj)) (enumerate l))
      (enumerate l).

Definition block_citem (st : fstate) (cprefix : string) (f : cterm) (k : nat)
           (q : nat * sample * nat * sample) : citem :=
  let '(i, si, j, sj) := q in mkC (Some (block_name st cprefix k si sj i j)) (instB st f k si sj).

(** appended to list_of_class_constraints: for i, for j (not skipped), for k *)
Definition gen_block_flat (st : fstate) (cprefix : string) (f : cterm) (l : list sample) : list citem :=
  flat_map (fun q => map (fun k => block_citem st cprefix f k q) (seq 0 (f_nblocks st)))
           (flatten_opts (block_grid l)).

(** table of block k: the r-th generated pair contributes positions off + nb*r + k *)
Definition block_table (st : fstate) (cprefix : string) (f : cterm) (l : list sample) (off k : nat) : table :=
  mkT (cprefix ++ nat_to_string k)
      (map (map (option_map (fun '(r, q) => ((off + f_nblocks st * r + k)%nat, block_citem st cprefix f k q))))
           (number_rows 0 (block_grid l)))
      (labels l) (labels l) ("IC_" ++ f_id st).

Fixpoint run_item (it : plan_item) (o : genout) {struct it} : genout :=
  let st := g_state o in
  match it with
  | Pairs l1 l2 cname f sym =>
      let rows := gen_pairs st (get_list st l1) (get_list st l2) cname f sym in
      (* np.array(rows).shape != (0,)  <=>  list1 is not empty *)
      let ts := match get_list st l1 with
                | [] => []
                | _ => [mkT cname (number_rows (List.length (g_cons o)) rows)
                            (labels (get_list st l1)) (labels (get_list st l2)) ("IC_" ++ f_id st)]
                end in
      append_out o (flatten_opts rows) [] ts st
  | Singles l cname f =>
      let cs := gen_singles st (get_list st l) cname f in
      (* reshape(1,-1) always gives shape (1, n) != (0,) : the table is always stored; default index [0] *)
      append_out o cs []
                 [mkT cname (number_rows (List.length (g_cons o)) [map Some cs])
                      ["0"] (labels (get_list st l)) ("IC_" ++ f_id st)] st
  | Guarded g it' => if guard_true st g then run_item it' o else o
  | AutoStationary =>
      match f_stat st with
      | [] => mkG (g_cons o) (g_lmis o) (g_tables o) (auto_stationary st)
      | _ => o
      end
  | LMI l entry =>
      let pts := get_list st l in
      append_out o [] [map (fun si => map (fun sj => instX st entry si sj) pts) pts] [] st
  | BlockPairs cprefix f =>
      let l := f_points st in
      let ts := match l with
                | [] => []
                | _ => map (block_table st cprefix f l (List.length (g_cons o))) (seq 0 (f_nblocks st))
                end in
      append_out o (gen_block_flat st cprefix f l) [] ts st
  end.

(** Function.set_class_constraints: reset list_of_class_constraints and list_of_class_psd, run the
    class body. *)
Definition run_plan (plan : list plan_item) (st : fstate) : genout :=
  fold_left (fun o it => run_item it o) plan (mkG [] [] [] st).

(** Python dict semantics of tables_of_constraints[cname] = df : overwrite in place, else append *)
Fixpoint table_set (t : table) (l : list table) : list table :=
  match l with
  | [] => [t]
  | t' :: l' => if String.eqb (t_name t') (t_name t) then t :: l' else t' :: table_set t l'
  end.
Definition tables_dict (ts : list table) : list table := fold_left (fun acc t => table_set t acc) ts [].

Fixpoint table_get (name : string) (l : list table) : option table :=
  match l with
  | [] => None
  | t :: l' => if String.eqb (t_name t) name then Some t else table_get name l'
  end.

(** function.py:455 get_class_constraints_duals, one table: the dual value of the Constraint object
    in each cell ([dual p] = multiplier of the p-th class constraint of this function), the scalar 0
    where the table holds 0 *)
Definition duals_table (dual : nat -> Q) (t : table) : list (list Q) :=
  map (map (fun o => match o with Some (p, _) => dual p | None => 0%Q end)) (t_rows t).
