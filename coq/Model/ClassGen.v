(** Executable model of class-constraint generation: PEPit/function.py 323-453 (the two generic
    generators with their tables and names), Function.set_class_constraints, and the shapes of
    [add_class_constraints] bodies ("plans", emitted by the translator from functions/*.py and
    operators/*.py into Gen/Plans.v). *)
From Coq Require Import List QArith Bool String Ascii Arith.
From Coq Require Import Numbers.DecimalString Numbers.DecimalNat.
From PV Require Import Model.Dict Model.Terms.
Import ListNotations.
Local Open Scope string_scope.

(** A recorded sample (x, g, f) of a function: decomposition dictionaries + the name of x. *)
Record sample := mkSample {
  s_x : pdict; s_g : pdict; s_f : edict;
  s_name : option string
}.

Inductive lst := LPoints | LStationary | LTPoints.

Inductive guard :=
| GParFinite (p : nat)      (* if self.<p> != np.inf *)
| GHasV.                    (* if self.v is not None *)

Inductive plan_item :=
| Pairs (l1 l2 : lst) (cname : string) (f : cterm) (symmetry : bool)
| Singles (l : lst) (cname : string) (f : cterm)
| Guarded (g : guard) (item : plan_item)
| AutoStationary             (* if self.list_of_stationary_points == list(): self.stationary_point() *)
| LMI (l : lst) (entry : xterm)
| CrossEq (f : cterm).       (* LinearOperator: for xy in points: for uv in T.points: append (f) unnamed *)

(** variable numbering used by every generated formula (see translator/pep2coq.py) *)
Definition V_xi := 0%nat. Definition V_gi := 1%nat. Definition V_xj := 2%nat. Definition V_gj := 3%nat.
Definition V_xs := 4%nat. Definition V_v := 5%nat. Definition V_gik := 6%nat. Definition V_gjk := 7%nat.
Definition X_fi := 0%nat. Definition X_fj := 1%nat. Definition X_fs := 2%nat.

(** state of one leaf function when its class constraints are generated *)
Record fstate := mkF {
  f_id : string;                    (* name, or "Function_<counter>" *)
  f_par : nat -> Q;                 (* self.L, self.mu, ... (numbering in Gen/Plans.v) *)
  f_inf : nat -> bool;              (* parameter is np.inf *)
  f_points : list sample;
  f_stat : list sample;
  f_tpoints : list sample;          (* LinearOperator: self.T.list_of_points *)
  f_v : option pdict;               (* NonexpansiveOperator: self.v *)
  f_next_point : nat;               (* Point.counter / fresh leaf id *)
  f_next_expr : nat                 (* Expression.counter *)
}.

Definition nat_to_string (n : nat) : string := NilEmpty.string_of_uint (Nat.to_uint n).

Definition point_id (s : sample) (i : nat) : string :=
  match s_name s with Some n => n | None => "Point_" ++ nat_to_string i end.

(** a generated class constraint: its name (None for LinearOperator's unnamed equalities) and object *)
Record citem := mkC { c_name : option string; c_obj : edict * sense }.

Definition get_list (st : fstate) (l : lst) : list sample :=
  match l with LPoints => f_points st | LStationary => f_stat st | LTPoints => f_tpoints st end.

Definition env_p (st : fstate) (si sj : sample) : nat -> pdict :=
  fun v =>
    match v with
    | 0 => s_x si | 1 => s_g si | 2 => s_x sj | 3 => s_g sj
    | 4 => match f_stat st with s :: _ => s_x s | [] => [] end
    | 5 => match f_v st with Some d => d | None => [] end
    | _ => []
    end%nat.

Definition env_x (st : fstate) (si sj : sample) : nat -> edict :=
  fun v =>
    match v with
    | 0 => s_f si | 1 => s_f sj
    | 2 => match f_stat st with s :: _ => s_f s | [] => [] end
    | _ => []
    end%nat.

Definition inst (st : fstate) (f : cterm) (si sj : sample) : edict * sense :=
  compileC (f_par st) (env_p st si sj) (env_x st si sj) f.

Definition instX (st : fstate) (t : xterm) (si sj : sample) : edict :=
  compileX (f_par st) (env_p st si sj) (env_x st si sj) t.

Fixpoint enumerate_from {A} (i : nat) (l : list A) : list (nat * A) :=
  match l with [] => [] | a :: l' => (i, a) :: enumerate_from (S i) l' end.
Definition enumerate {A} (l : list A) := enumerate_from 0 l.

(** function.py:375 add_constraints_from_two_lists_of_points.
    Row i / column j: [None] (a 0 in the table) when [i == j or (i > j and symmetry)], else the
    constraint.  Returns rows of optional constraints; the flat list in row-major order is what is
    appended to list_of_class_constraints. *)
Definition gen_pairs (st : fstate) (l1 l2 : list sample) (cname : string) (f : cterm) (symmetry : bool)
  : list (list (option citem)) :=
  map (fun '(i, si) =>
         map (fun '(j, sj) =>
                if Nat.eqb i j || (Nat.ltb j i && symmetry) then None
                else Some (mkC (Some ("IC_" ++ f_id st ++ "_" ++ cname ++ "(" ++ point_id si i ++ ", "
                                              ++ point_id sj j ++ ")"))
                               (inst st f si sj)))
             (enumerate l2))
      (enumerate l1).

(** function.py:323 add_constraints_from_one_list_of_points *)
Definition gen_singles (st : fstate) (l : list sample) (cname : string) (f : cterm) : list citem :=
  map (fun '(i, si) =>
         mkC (Some ("IC_" ++ f_id st ++ "_" ++ cname ++ "(" ++ point_id si i ++ ")")) (inst st f si si))
      (enumerate l).

Definition flatten_opts {A} (rows : list (list (option A))) : list A :=
  flat_map (fun row => flat_map (fun o => match o with Some a => [a] | None => [] end) row) rows.

(** the table stored in tables_of_constraints[cname]; absent when the array has shape (0,) *)
Record table := mkT { t_name : string; t_rows : list (list (option citem)) }.

Record genout := mkG {
  g_cons : list citem;              (* list_of_class_constraints, in order *)
  g_lmis : list (list (list edict));(* list_of_class_psd appended by this call *)
  g_tables : list table;            (* tables_of_constraints entries written, in order (later writes win) *)
  g_state : fstate
}.

Definition guard_true (st : fstate) (g : guard) : bool :=
  match g with
  | GParFinite p => negb (f_inf st p)
  | GHasV => match f_v st with Some _ => true | None => false end
  end.

(** Function.stationary_point() : fresh leaf point, empty gradient, fresh leaf value *)
Definition auto_stationary (st : fstate) : fstate :=
  let s := mkSample [(f_next_point st, 1)] [] [(KF (f_next_expr st), 1)] None in
  mkF (f_id st) (f_par st) (f_inf st) (f_points st ++ [s]) (f_stat st ++ [s]) (f_tpoints st) (f_v st)
      (S (f_next_point st)) (S (f_next_expr st)).

Definition append_out (o : genout) (cs : list citem) (ls : list (list (list edict))) (ts : list table) st :=
  mkG (g_cons o ++ cs) (g_lmis o ++ ls) (g_tables o ++ ts) st.

Fixpoint run_item (it : plan_item) (o : genout) {struct it} : genout :=
  let st := g_state o in
  match it with
  | Pairs l1 l2 cname f sym =>
      let rows := gen_pairs st (get_list st l1) (get_list st l2) cname f sym in
      (* np.array(rows).shape != (0,)  <=>  list1 is not empty *)
      let ts := match get_list st l1 with [] => [] | _ => [mkT cname rows] end in
      append_out o (flatten_opts rows) [] ts st
  | Singles l cname f =>
      let cs := gen_singles st (get_list st l) cname f in
      (* reshape(1,-1) always gives shape (1, n) != (0,) : the table is always stored *)
      append_out o cs [] [mkT cname [map Some cs]] st
  | Guarded g it' => if guard_true st g then run_item it' o else o
  | AutoStationary =>
      match f_stat st with
      | [] => mkG (g_cons o) (g_lmis o) (g_tables o) (auto_stationary st)
      | _ => o
      end
  | LMI l entry =>
      let pts := get_list st l in
      append_out o [] [map (fun si => map (fun sj => instX st entry si sj) pts) pts] [] st
  | CrossEq f =>
      let cs := flat_map (fun si => map (fun sj => mkC None (inst st f si sj)) (f_tpoints st)) (f_points st) in
      append_out o cs [] [] st
  end.

(** Function.set_class_constraints: reset list_of_class_constraints (only), run the class body. *)
Definition run_plan (plan : list plan_item) (st : fstate) : genout :=
  fold_left (fun o it => run_item it o) plan (mkG [] [] [] st).
