(** Executable model of PEPit's process-global state (property C12).

    Global state = one value per class-level attribute [(class, attribute)]: counters are integers,
    registries are lists; a registry entry is represented by the [.counter] attribute of the registered
    object ([None] for a non-leaf Function), which is what the harness dumps.  The only global state that
    is not a class attribute are the module-level objects [null_point] / [null_expression]; of those the
    model keeps what can change: the cached value of [null_point] (a zero vector, i.e. its dimension).

    Operations = what a user program does to this state: constructors of the DSL classes
    (read-and-increment a counter, append to a registry), [PEP()] (reset, driven by the list of
    assignments that the translator reads from [PEP._reset_classes]), reading the globals (what [solve]
    does), and [null_point.eval()].  No proofs in this file. *)
From Coq Require Import List String ZArith Bool.
Import ListNotations.
Open Scope string_scope.

(** value of a class-level assignment [Name = ...] / of an assignment in [_reset_classes] *)
Inductive ginit : Type :=
| IInt (z : Z)            (* Name = 0 *)
| IEmptyList              (* Name = list() | [] *)
| IEmptyDict              (* Name = dict() | {} *)
| IEmptySet               (* Name = set() *)
| IConst (s : string).    (* any other constant (repr) *)

Definition ginit_eqb (a b : ginit) : bool :=
  match a, b with
  | IInt x, IInt y => Z.eqb x y
  | IEmptyList, IEmptyList | IEmptyDict, IEmptyDict | IEmptySet, IEmptySet => true
  | IConst x, IConst y => String.eqb x y
  | _, _ => false
  end.

(** counters and registries are mutable process state; a constant is state only if somebody rebinds it *)
Definition is_mutable (i : ginit) : bool :=
  match i with IConst _ => false | _ => true end.

Definition key : Type := (string * string)%type.
Definition key_eqb (a b : key) : bool := String.eqb (fst a) (fst b) && String.eqb (snd a) (snd b).
Definition mem_key (k : key) (l : list key) : bool := existsb (key_eqb k) l.

Inductive val : Type :=
| VN (z : Z)                       (* a counter *)
| VL (l : list (option Z))         (* a registry: the [.counter] of each registered object *)
| VC (s : string).                 (* a constant *)

Definition val_of_init (i : ginit) : val :=
  match i with
  | IInt z => VN z
  | IEmptyList | IEmptyDict | IEmptySet => VL []
  | IConst s => VC s
  end.

Definition gmap : Type := key -> val.
Definition set (k : key) (v : val) (g : gmap) : gmap := fun k' => if key_eqb k' k then v else g k'.

Record pstate : Type := { glob : gmap ; null_dim : option Z }.

(** [PEP._reset_classes]: the assignments, in source order *)
Definition reset_with (fields : list (key * ginit)) (g : gmap) : gmap :=
  fold_left (fun g f => set (fst f) (val_of_init (snd f)) g) fields g.

(** the state of a fresh interpreter: every class attribute at its class-body value *)
Definition init_state (attrs : list (key * ginit)) : pstate :=
  {| glob := reset_with attrs (fun _ => VC "") ; null_dim := None |}.

(** the attributes the operations below touch *)
Definition kPointC : key := ("Point", "counter").
Definition kPointL : key := ("Point", "list_of_leaf_points").
Definition kExprC : key := ("Expression", "counter").
Definition kExprL : key := ("Expression", "list_of_leaf_expressions").
Definition kFunC : key := ("Function", "counter").
Definition kFunL : key := ("Function", "list_of_functions").
Definition kConsC : key := ("Constraint", "counter").
Definition kPsdC : key := ("PSDMatrix", "counter").
Definition kPartC : key := ("BlockPartition", "counter").
Definition kPartL : key := ("BlockPartition", "list_of_partitions").
Definition kPepC : key := ("PEP", "counter").
Definition model_keys : list key :=
  [kPointC; kPointL; kExprC; kExprL; kFunC; kFunL; kConsC; kPsdC; kPartC; kPartL; kPepC].

Definition getN (g : gmap) (k : key) : Z := match g k with VN z => z | _ => 0%Z end.
Definition getL (g : gmap) (k : key) : list (option Z) := match g k with VL l => l | _ => [] end.
(** [obj.counter = C.counter; C.counter += 1] *)
Definition fresh (c : key) (g : gmap) : Z * gmap := (getN g c, set c (VN (getN g c + 1)) g).
(** [C.registry.append(obj)] *)
Definition push (r : key) (x : option Z) (g : gmap) : gmap := set r (VL (getL g r ++ [x])) g.

Inductive op : Type :=
| NewPEP                       (* PEP(): _reset_classes(); self.counter = PEP.counter; PEP.counter += 1 *)
| NewPoint                     (* Point() *)
| NewExpression                (* Expression() *)
| NewFunction (leaf : bool)    (* Function(is_leaf=leaf, ...): every function is registered, leaves are numbered *)
| NewLinearOperator            (* LinearOperator(): a leaf, plus self.T = Function(is_leaf=True); T.counter = None; Function.counter -= 1 *)
| NewConstraint                (* Constraint(...) (every comparison of expressions) *)
| NewPSD                       (* PSDMatrix(...) *)
| NewPartition                 (* BlockPartition(d) *)
| ReadGlobals                  (* what solve() reads: every counter and every registry *)
| EvalNull.                    (* null_point.eval() *)

Inductive out : Type :=
| OIdx (z : Z)                 (* the index handed to the new object *)
| ONone                        (* the new object has no index (counter = None) *)
| OState (l : list val)        (* the globals, in the order of [model_keys] *)
| ODim (z : Z).                (* length of the vector returned by null_point.eval() *)

Definition step (fields : list (key * ginit)) (o : op) (s : pstate) : out * pstate :=
  let g := glob s in
  match o with
  | NewPEP =>
      let (i, g1) := fresh kPepC (reset_with fields g) in
      (OIdx i, {| glob := g1 ; null_dim := null_dim s |})
  | NewPoint =>
      let (i, g1) := fresh kPointC g in
      (OIdx i, {| glob := push kPointL (Some i) g1 ; null_dim := null_dim s |})
  | NewExpression =>
      let (i, g1) := fresh kExprC g in
      (OIdx i, {| glob := push kExprL (Some i) g1 ; null_dim := null_dim s |})
  | NewFunction true =>
      let (i, g1) := fresh kFunC (push kFunL (Some (getN g kFunC)) g) in
      (OIdx i, {| glob := g1 ; null_dim := null_dim s |})
  | NewFunction false =>
      (ONone, {| glob := push kFunL None g ; null_dim := null_dim s |})
  | NewLinearOperator =>
      let (i, g1) := fresh kFunC (push kFunL (Some (getN g kFunC)) g) in
      let (_, g2) := fresh kFunC (push kFunL None g1) in
      (OIdx i, {| glob := set kFunC (VN (getN g2 kFunC - 1)) g2 ; null_dim := null_dim s |})
  | NewConstraint =>
      let (i, g1) := fresh kConsC g in (OIdx i, {| glob := g1 ; null_dim := null_dim s |})
  | NewPSD =>
      let (i, g1) := fresh kPsdC g in (OIdx i, {| glob := g1 ; null_dim := null_dim s |})
  | NewPartition =>
      let (i, g1) := fresh kPartC g in
      (OIdx i, {| glob := push kPartL (Some i) g1 ; null_dim := null_dim s |})
  | ReadGlobals => (OState (map g model_keys), s)
  | EvalNull =>
      let d := match null_dim s with Some d => d | None => getN g kPointC end in
      (ODim d, {| glob := g ; null_dim := Some d |})
  end.

Fixpoint run (fields : list (key * ginit)) (prog : list op) (s : pstate) : list out * pstate :=
  match prog with
  | [] => ([], s)
  | o :: rest =>
      let (x, s1) := step fields o s in
      let (xs, s2) := run fields rest s1 in
      (x :: xs, s2)
  end.

Definition is_eval_null (o : op) : bool := match o with EvalNull => true | _ => false end.
Definition no_null_eval (prog : list op) : bool := forallb (fun o => negb (is_eval_null o)) prog.

(** keys of a generated [(class, attribute, x)] list *)
Definition keys3 {A} (l : list (string * string * A)) : list key := map (fun t => (fst (fst t), snd (fst t))) l.
Definition fields_of (l : list (string * string * ginit)) : list (key * ginit) :=
  map (fun t => ((fst (fst t), snd (fst t)), snd t)) l.

Fixpoint nodup_keys (l : list key) : bool :=
  match l with
  | [] => true
  | k :: r => negb (mem_key k r) && nodup_keys r
  end.

(** decidable obligations on the generated lists (proved [= true] in Proofs/C12Reset.v) *)
Definition triple_eqb (a b : string * string * ginit) : bool :=
  key_eqb (fst a) (fst b) && ginit_eqb (snd a) (snd b).
Definition reset_to_initial (reset attrs : list (string * string * ginit)) : bool :=
  forallb (fun a => negb (is_mutable (snd a)) || existsb (triple_eqb a) reset) attrs.
Definition mutated_are_reset (reset : list (string * string * ginit)) (muts : list (string * string * string)) : bool :=
  forallb (fun m => mem_key (fst m) (keys3 reset)) muts.
Definition covers (ks : list key) (sub : list key) : bool := forallb (fun k => mem_key k ks) sub.

(** -------- verbosity: a summary language for the uses of [verbose] (Gen/Guards.v) -------- *)
Inductive vuse : Type :=
| VParam                      (* parameter declaration  def f(..., verbose=1) *)
| VPrintGuard                 (* test of an [if] whose body only prints (and builds the printed message) *)
| VForwardCtor                (* verbose=verbose handed to a wrapper constructor *)
| VForwardSelf (m : string)   (* handed on to another method of the same class *)
| VStoreAttr                  (* self.verbose = verbose *)
| VSolverLog                  (* test of an [if] whose body only switches the solver's own log on *)
| VOther (why : string).      (* anything else *)

Definition vuse_ok (u : vuse) : bool := match u with VOther _ => false | _ => true end.

(** A program in which [verbose] can occur only through the classified uses: sending data never looks
    at it, printing does.  A method call that forwards [verbose] is the callee's statements inlined.
    [SDep f] is a statement whose sent data depends on [verbose]: what a use classified [VOther]
    stands for. *)
Inductive vstmt : Type :=
| SSend (d : nat)                          (* wrapper.send_*(d), or any statement that does not mention verbose *)
| SIfVerbosePrint (lvl : nat) (msg : nat)  (* if verbose > lvl: print(msg) *)
| SSolverLog (lvl : nat)                   (* if verbose > lvl: solver log on *)
| SDep (f : nat -> list nat).              (* sends [f verbose] *)

Record vres : Type := { sent : list nat ; printed : list nat ; solver_log : bool }.

Fixpoint vexec (verbose : nat) (p : list vstmt) : vres :=
  match p with
  | [] => {| sent := [] ; printed := [] ; solver_log := false |}
  | st :: rest =>
      let r := vexec verbose rest in
      match st with
      | SSend d => {| sent := d :: sent r ; printed := printed r ; solver_log := solver_log r |}
      | SIfVerbosePrint lvl m =>
          {| sent := sent r ; printed := (if Nat.ltb lvl verbose then [m] else []) ++ printed r ;
             solver_log := solver_log r |}
      | SSolverLog lvl => {| sent := sent r ; printed := printed r ; solver_log := Nat.ltb lvl verbose || solver_log r |}
      | SDep f => {| sent := f verbose ++ sent r ; printed := printed r ; solver_log := solver_log r |}
      end
  end.

Definition vclean_stmt (st : vstmt) : bool := match st with SDep _ => false | _ => true end.
Definition vclean (p : list vstmt) : bool := forallb vclean_stmt p.
