(** Executable model of one [PEP.solve] after another (PEPit/pep.py [_solve_with_wrapper],
    [_eval_points_and_function_values], [check_feasibility]; wrapper.py [assign_dual_values];
    function.py [set_class_constraints]; block_partition.py [add_partition_constraints]) at the level
    of lists of objects and what is handed to the wrapper.  The SDP solver is an INPUT: each [Solve]
    op carries the answer of the wrapper ([None] = the wrapper returned value [None]).

    What a function class / a partition generates from its recorded samples is data here
    ([ftempl] / a list of dictionaries, set by [SetTemplates]: "what [add_class_constraints] /
    the loop nest of [add_partition_constraints] produces right now"); this file models what the
    solve pipeline DOES with it: reset-then-fill with freshly created objects, at every solve.
    No proofs in this file. *)
From Coq Require Import List QArith ZArith Bool Arith String.
From PV Require Import Model.Dict Model.Terms Model.Dump Model.Eval.
Import ListNotations.
Local Open Scope Q_scope.
Local Notation length := List.length.

Record ftempl : Type := mkFT {
  t_cons : list (edict * sense);              (* scalar class constraints, in generation order *)
  t_lmis : list (list (list edict))           (* class LMIs: matrices of freshly built expressions *)
}.

Record frec : Type := mkF { f_class_cons : list nat; f_class_psd : list nat }.

(** the answer of the wrapper: [points_values] after eigh / clipping / QR as a list of rows
    (trusted numpy part, see Props/C02), [F_value], and one dual per sent item (position-tagged) *)
Record solution : Type := mkSol { sP : list (list Q); sF : list Q; sDual : list val }.

Record pst : Type := mkPst {
  es : est;
  metrics : list eh;                          (* PEP.list_of_performance_metrics *)
  conds : list nat;                           (* PEP.list_of_constraints *)
  psds : list nat;                            (* PEP.list_of_psd *)
  ftem : list ftempl;                         (* one per leaf function, declaration order *)
  ptem : list (list edict);                   (* one per partition: the equalities of the loop nest *)
  fcls : list frec;                           (* Function.list_of_class_constraints / list_of_class_psd *)
  pcls : list (list nat);                     (* BlockPartition.list_of_constraints *)
  objective : option nat;                     (* PEP.objective: counter of the leaf expression *)
  wsent : list nat;                           (* wrapper._list_of_constraints_sent_to_solver, latest solve *)
  fown : list (list nat * list nat)           (* per function of Function.list_of_functions (leaf AND composite,
                                                 creation order): its own list_of_constraints / list_of_psd *)
}.

Definition pst0 : pst := mkPst est0 [] [] [] [] [] [] [] None [] [].

Definition with_es (s : pst) (e : est) : pst :=
  mkPst e (metrics s) (conds s) (psds s) (ftem s) (ptem s) (fcls s) (pcls s) (objective s) (wsent s) (fown s).

(** ** creation of fresh objects from generated dictionaries *)
(* [expr <= 0] / [expr == 0]: a new derived Expression, then the Constraint holding it *)
Definition mk_cons (st : est) (c : edict * sense) : est * nat :=
  let r := next_ref st in
  let st1 := new_obj st (KExpr (fst c)) in
  (new_obj st1 (KCons (ERef r) (snd c)), S r).

Fixpoint mk_conss (st : est) (cs : list (edict * sense)) : est * list nat :=
  match cs with
  | [] => (st, [])
  | c :: cs' => let '(st1, r) := mk_cons st c in
                let '(st2, rs) := mk_conss st1 cs' in (st2, r :: rs)
  end.

(* entries of a generated LMI: one new derived Expression each, row-major; then the PSDMatrix *)
Fixpoint mk_entries (st : est) (row : list edict) : est * list eh :=
  match row with
  | [] => (st, [])
  | d :: row' => let r := next_ref st in
                 let '(st1, es) := mk_entries (new_obj st (KExpr d)) row' in (st1, ERef r :: es)
  end.
Fixpoint mk_matrix (st : est) (m : list (list edict)) : est * list (list eh) :=
  match m with
  | [] => (st, [])
  | row :: m' => let '(st1, es) := mk_entries st row in
                 let '(st2, ess) := mk_matrix st1 m' in (st2, es :: ess)
  end.
Definition mk_lmi (st : est) (m : list (list edict)) : est * nat :=
  let '(st1, ess) := mk_matrix st m in (new_obj st1 (KLmi ess), next_ref st1).
Fixpoint mk_lmis (st : est) (ms : list (list (list edict))) : est * list nat :=
  match ms with
  | [] => (st, [])
  | m :: ms' => let '(st1, r) := mk_lmi st m in
                let '(st2, rs) := mk_lmis st1 ms' in (st2, r :: rs)
  end.

(** [Function.set_class_constraints]: both lists are reset, then filled *)
Definition gen_function (st : est) (t : ftempl) : est * frec :=
  let '(st1, cs) := mk_conss st (t_cons t) in
  let '(st2, ls) := mk_lmis st1 (t_lmis t) in
  (st2, mkF cs ls).
Fixpoint gen_functions (st : est) (ts : list ftempl) : est * list frec :=
  match ts with
  | [] => (st, [])
  | t :: ts' => let '(st1, f) := gen_function st t in
                let '(st2, fs) := gen_functions st1 ts' in (st2, f :: fs)
  end.
(** [BlockPartition.add_partition_constraints]: the list is reset, then filled with equalities *)
Fixpoint gen_partitions (st : est) (ps : list (list edict)) : est * list (list nat) :=
  match ps with
  | [] => (st, [])
  | p :: ps' => let '(st1, cs) := mk_conss st (map (fun d => (d, Equ)) p) in
                let '(st2, css) := gen_partitions st1 ps' in (st2, cs :: css)
  end.

(** decomposition dictionary of an Expression object *)
Definition dict_of_eh (st : est) (e : eh) : edict :=
  match e with
  | ELeaf id => [(KF id, 1)]
  | ERef r => match get_obj st r with
              | Some o => match okind_of o with KExpr d => d | _ => [] end
              | None => []
              end
  end.

(** [self.objective <= performance_metric]  =  Constraint(objective - metric, 'inequality') *)
Definition metric_row (st : est) (o : nat) (m : eh) : edict * sense :=
  c_le [(KF o, 1)] (dict_of_eh st m).

(** ** the solve *)
Definition is_lmi (st : est) (r : nat) : bool :=
  match get_obj st r with Some o => match okind_of o with KLmi _ => true | _ => false end | None => false end.
Definition cons_sense (st : est) (r : nat) : option sense :=
  match get_obj st r with Some o => match okind_of o with KCons _ s => Some s | _ => None end | None => None end.
Definition is_ineq (st : est) (r : nat) : bool := match cons_sense st r with Some Ineq => true | _ => false end.
Definition is_eq (st : est) (r : nat) : bool := match cons_sense st r with Some Equ => true | _ => false end.

Fixpoint eval_all (st : est) (rs : list nat) : est :=
  match rs with [] => st | r :: rs' => eval_all (fst (eval_obj st r)) rs' end.

(** wrapper.assign_dual_values: zip(sent, dual_values[1:]) *)
Fixpoint assign_duals (st : est) (rs : list nat) (ds : list val) : est :=
  match rs, ds with
  | r :: rs', d :: ds' => assign_duals (set_dual st r d) rs' ds'
  | _, _ => st
  end.

(** "functions with own items" (pep.py 409-410, 497-525): a function -- leaf or composite -- enters the loop
    iff it has an own constraint OR an own LMI; its own constraints are sent first, then its own LMIs *)
Definition has_own (f : list nat * list nat) : bool :=
  negb (match fst f with [] => true | _ => false end) || negb (match snd f with [] => true | _ => false end).
Definition own_refs (s : pst) : list nat :=
  flat_map (fun f => fst f ++ snd f) (filter has_own (fown s)).

(** everything up to [wrapper.solve()]: fresh objective leaf, class constraints and partition
    constraints regenerated, fresh tracking lists filled in the fixed order of the pipeline *)
Definition prepare (s : pst) : pst :=
  let o := length (lev (es s)) in
  let st0 := new_leafE (es s) in
  let '(st1, fs) := gen_functions st0 (ftem s) in
  let '(st2, ps) := gen_partitions st1 (ptem s) in
  let '(st3, ms) := mk_conss st2 (map (metric_row st2 o) (metrics s)) in
  let sent := ms ++ conds s ++ psds s
              ++ flat_map (fun f => f_class_cons f ++ f_class_psd f) fs
              ++ own_refs s
              ++ List.concat ps in
  mkPst st3 (metrics s) (conds s) (psds s) (ftem s) (ptem s) fs ps (Some o) sent (fown s).

(** after a finite answer: duals of the SENT items, leaf values, then check_feasibility evaluates
    (hence caches) every sent LMI, every sent inequality, every sent equality, in that order *)
Definition finish (s : pst) (sol : solution) : pst :=
  let st1 := assign_duals (es s) (wsent s) (sDual sol) in
  let st2 := assign_solution st1 (sP sol) (sF sol) in
  let st3 := eval_all st2 (filter (is_lmi st2) (wsent s)) in
  let st4 := eval_all st3 (filter (is_ineq st3) (wsent s)) in
  let st5 := eval_all st4 (filter (is_eq st4) (wsent s)) in
  with_es s st5.

Definition solve (s : pst) (a : option solution) : pst :=
  let s1 := prepare s in
  match a with
  | None => s1                                   (* if wc_value is None: return wc_value *)
  | Some sol => finish s1 sol
  end.

(** with a dimension-reduction heuristic (pep.py 573-626): [assign_dual_values] runs on the FIRST answer, before
    the heuristic; [G_value, F_value] are those of the LAST re-solve *)
Definition last_sol (first : solution) (rest : list solution) : solution := last rest first.
Definition answer_of (first : solution) (rest : list solution) : solution :=
  mkSol (sP (last_sol first rest)) (sF (last_sol first rest)) (sDual first).

(** *** what the CVXPY wrapper hands to the solver (cvxpy_wrapper.py): [G >> 0], one row per scalar constraint, and
    per n x n LMI one [M >> 0] plus n^2 entry equalities; variables: F, G and one M per LMI.  The problem of a
    dimension-reduction heuristic (prepare_heuristic + heuristic) is THAT wrapper's list plus exactly ONE bound row
    [objective >= wc - tol], over the same variables.  [sizes]: 0 for a scalar constraint, n for an n x n LMI. *)
Definition cvx_rows_sizes (sizes : list nat) : nat :=
  S (list_sum (map (fun n => match n with O => 1%nat | _ => S (n * n)%nat end) sizes)).
Definition cvx_heuristic_rows_sizes (sizes : list nat) : nat := S (cvx_rows_sizes sizes).
Definition cvx_vars_sizes (sizes : list nat) : nat :=
  (2 + length (filter (fun n => negb (Nat.eqb n 0)) sizes))%nat.
Definition dump_cvx (sizes : list nat) : D :=
  DL [DN (cvx_rows_sizes sizes); DN (cvx_heuristic_rows_sizes sizes); DN (cvx_vars_sizes sizes)].

(** what the wrapper received, item by item *)
Definition dump_sent_item (st : est) (r : nat) : D :=
  match get_obj st r with
  | Some o =>
      match okind_of o with
      | KCons e s => DL [DZ 0; dump_edict (dict_of_eh st e); dump_sense s]
      | KLmi m => DL [DZ 1; DL (map (fun row => DL (map (fun e => dump_edict (dict_of_eh st e)) row)) m)]
      | _ => DS "not-a-constraint"
      end
  | None => DS "dangling"
  end.
Definition dump_solve (s : pst) : D :=
  DL [DN (length (lpv (es s))); DN (length (lev (es s)));
      DO DN (objective s); DL (map (dump_sent_item (es s)) (wsent s))].

(** ** programs *)
Inductive op : Type :=
| NewLeafP | NewLeafE
| MkPoint (d : pdict) | MkExpr (d : edict) | MkCons (e : eh) (s : sense) | MkLmi (m : list (list eh))
| AddCond (r : nat) | DelCond (r : nat) | AddMetric (e : eh) | AddPsd (r : nat)
| SetTemplates (f : list ftempl) (p : list (list edict))
| DeclFun                                   (* a new Function object (declare_function, f + g, c * f, ...) *)
| FAddCons (f : nat) (r : nat)              (* Function.add_constraint *)
| FAddPsd (f : nat) (r : nat)               (* Function.add_psd_matrix (the PSDMatrix is object r) *)
| Solve (a : option solution)
| SolveH (first : solution) (rest : list solution)   (* a finite solve followed by the re-solves of a
                                                        dimension-reduction heuristic *)
| Eval (r : nat) | EvalLeafP (i : nat) | EvalLeafE (i : nat) | EvalDual (r : nat).

Definition has_cache (st : est) (r : nat) : bool :=
  match get_obj st r with Some o => match ocache o with Some _ => true | None => false end | None => false end.

Definition dump_eval (st0 st1 : est) (r : nat) (x : res val) : D :=
  match x with
  | Raise e => dump_err e
  | Ok (VVec v) => DL [DB (has_cache st0 r); dump_vec st1 (negb (has_cache st0 r)) v]
  | Ok v => DL [DB (has_cache st0 r); approx [dump_val v]]
  end.

(** Python cannot build an object that refers to something that does not exist: an op that would is
    rejected (state unchanged).  Dictionaries mention registered leaves only. *)
Definition wf_pdictb (st : est) (d : pdict) : bool :=
  forallb (fun '(k, _) => Nat.ltb k (length (lpv st))) d.
Definition wf_ekeyb (st : est) (k : ekey) : bool :=
  match k with
  | KF e => Nat.ltb e (length (lev st))
  | KG i j => Nat.ltb i (length (lpv st)) && Nat.ltb j (length (lpv st))
  | K1 => true
  end.
Definition wf_edictb (st : est) (d : edict) : bool := forallb (fun '(k, _) => wf_ekeyb st k) d.
Definition is_expr (st : est) (r : nat) : bool :=
  match get_obj st r with Some o => match okind_of o with KExpr _ => true | _ => false end | None => false end.
Definition valid_ehb (st : est) (e : eh) : bool :=
  match e with ELeaf id => Nat.ltb id (length (lev st)) | ERef r => is_expr st r end.
Definition is_cons (st : est) (r : nat) : bool :=
  match cons_sense st r with Some _ => true | None => false end.
Definition item_okb (st : est) (r : nat) : bool :=
  match get_obj st r with
  | Some o => match okind_of o with
              | KCons e _ => valid_ehb st e
              | KLmi m => forallb (fun row => forallb (valid_ehb st) row) m
              | _ => false
              end
  | None => false
  end.
Definition wf_ftemplb (st : est) (t : ftempl) : bool :=
  forallb (fun c => wf_edictb st (fst c)) (t_cons t)
  && forallb (fun m => forallb (fun row => forallb (wf_edictb st) row) m) (t_lmis t).
Definition valid_op (s : pst) (o : op) : bool :=
  let st := es s in
  match o with
  | MkPoint d => wf_pdictb st d
  | MkExpr d => wf_edictb st d
  | MkCons e _ => valid_ehb st e
  | MkLmi m => forallb (fun row => forallb (valid_ehb st) row) m
  | AddCond r => is_cons st r && item_okb st r
  | AddMetric e => valid_ehb st e && wf_edictb st (dict_of_eh st e)
  | AddPsd r => is_lmi st r && item_okb st r
  | SetTemplates f p => forallb (wf_ftemplb st) f && forallb (fun q => forallb (wf_edictb st) q) p
  | FAddCons f r => Nat.ltb f (length (fown s)) && (is_cons st r && item_okb st r)
  | FAddPsd f r => Nat.ltb f (length (fown s)) && (is_lmi st r && item_okb st r)
  | _ => true
  end.

Definition step_valid (s : pst) (o : op) : pst * D :=
  match o with
  | NewLeafP => (with_es s (new_leafP (es s)), DL [])
  | NewLeafE => (with_es s (new_leafE (es s)), DL [])
  | MkPoint d => (with_es s (new_obj (es s) (KPoint d)), DL [])
  | MkExpr d => (with_es s (new_obj (es s) (KExpr d)), DL [])
  | MkCons e sn => (with_es s (new_obj (es s) (KCons e sn)), DL [])
  | MkLmi m => (with_es s (new_obj (es s) (KLmi m)), DL [])
  | AddCond r => (mkPst (es s) (metrics s) (conds s ++ [r]) (psds s) (ftem s) (ptem s) (fcls s) (pcls s)
                        (objective s) (wsent s) (fown s), DL [])
  | DelCond r => (mkPst (es s) (metrics s) (filter (fun x => negb (Nat.eqb x r)) (conds s)) (psds s) (ftem s)
                        (ptem s) (fcls s) (pcls s) (objective s) (wsent s) (fown s), DL [])
  | AddMetric e => (mkPst (es s) (metrics s ++ [e]) (conds s) (psds s) (ftem s) (ptem s) (fcls s) (pcls s)
                          (objective s) (wsent s) (fown s), DL [])
  | AddPsd r => (mkPst (es s) (metrics s) (conds s) (psds s ++ [r]) (ftem s) (ptem s) (fcls s) (pcls s)
                       (objective s) (wsent s) (fown s), DL [])
  | SetTemplates f p => (mkPst (es s) (metrics s) (conds s) (psds s) f p (fcls s) (pcls s)
                               (objective s) (wsent s) (fown s), DL [])
  | DeclFun => (mkPst (es s) (metrics s) (conds s) (psds s) (ftem s) (ptem s) (fcls s) (pcls s)
                      (objective s) (wsent s) (fown s ++ [([], [])]), DL [])
  | FAddCons f r => (mkPst (es s) (metrics s) (conds s) (psds s) (ftem s) (ptem s) (fcls s) (pcls s)
                           (objective s) (wsent s) (upd_nth (fun o => (fst o ++ [r], snd o)) f (fown s)), DL [])
  | FAddPsd f r => (mkPst (es s) (metrics s) (conds s) (psds s) (ftem s) (ptem s) (fcls s) (pcls s)
                          (objective s) (wsent s) (upd_nth (fun o => (fst o, snd o ++ [r])) f (fown s)), DL [])
  | Solve a => let s1 := solve s a in (s1, dump_solve s1)
  | SolveH first rest => let s1 := solve s (Some (answer_of first rest)) in (s1, dump_solve s1)
  | Eval r => let '(st1, x) := eval_obj (es s) r in (with_es s st1, dump_eval (es s) st1 r x)
  | EvalLeafP i => (s, match leafP (es s) i with
                       | Ok v => dump_vec (es s) true v
                       | Raise e => dump_err e
                       end)
  | EvalLeafE i => (s, match leafE (es s) i with Ok q => approx [DQ q] | Raise e => dump_err e end)
  | EvalDual r => (s, match eval_dual (es s) r with Ok v => dump_val v | Raise e => dump_err e end)
  end.

Definition step (s : pst) (o : op) : pst * D :=
  if valid_op s o then step_valid s o else (s, DS "invalid").

Fixpoint run (s : pst) (ops : list op) : pst * list D :=
  match ops with
  | [] => (s, [])
  | o :: ops' => let '(s1, d) := step s o in
                 let '(s2, ds) := run s1 ops' in (s2, d :: ds)
  end.

Definition final (ops : list op) : pst := fst (run pst0 ops).
Definition outputs (ops : list op) : list D := snd (run pst0 ops).

(** the correspondence stream: [DL []] iff the model reproduces what the implementation printed *)
Definition tol : Q := 1 # 100000000.
Definition check_case (c : list op * D) : D :=
  let out := DL (outputs (fst c)) in
  if D_close tol false out (snd c) then DL [] else out.
