(** The DSL as syntax trees, and [compile]: what PEPit's operator overloads compute on coefficient
    dictionaries (PEPit/point.py 132-272, PEPit/expression.py 133-382, PEPit/constraint.py).

    The same trees are (a) the random programs of the C06 correspondence stream, (b) the terms
    emitted by the translator for every class formula and primitive step.  [compile] follows the
    Python dispatch exactly, including which intermediate results are pruned and which are not
    (e.g. [c * p] keeps zero entries, [p + q] prunes), because key order and unpruned zeros are
    observable. *)
From Coq Require Import List QArith Bool ZArith.
From PV Require Import Model.Dict.
Import ListNotations.
Local Open Scope Q_scope.

(** Python scalars (int / float), computed before they meet a Point or Expression. *)
Inductive sterm : Type :=
| SNum (q : Q)
| SPar (p : nat)                      (* self.L, self.mu, gamma, epsilon, ... *)
| SAdd (a b : sterm)
| SSub (a b : sterm)
| SMul (a b : sterm)
| SDiv (a b : sterm)
| SNeg (a : sterm)
| SPow (a : sterm) (n : nat).         (* a ** n, n a literal *)

Inductive pterm : Type :=
| PVar (v : nat)
| PAdd (a b : pterm)                  (* Point.__add__ *)
| PSub (a b : pterm)                  (* Point.__sub__ *)
| PNeg (a : pterm)                    (* Point.__neg__ *)
| PScal (s : sterm) (a : pterm)       (* s * a  and  a * s : both Point.__rmul__ *)
| PDiv (a : pterm) (s : sterm).       (* Point.__truediv__ *)

Inductive xterm : Type :=
| XVar (v : nat)
| XInner (a b : pterm)                (* a * b : Point.__rmul__ with a Point *)
| XSq (a : pterm)                     (* a ** 2 *)
| XAdd (a b : xterm)
| XAddS (a : xterm) (s : sterm)       (* a + s and s + a (__radd__) *)
| XSub (a b : xterm)
| XSubS (a : xterm) (s : sterm)       (* a - s *)
| XSSub (s : sterm) (a : xterm)       (* s - a : __rsub__ *)
| XNeg (a : xterm)
| XScal (s : sterm) (a : xterm)       (* s * a and a * s *)
| XDiv (a : xterm) (s : sterm).

Inductive sense : Type := Ineq | Equ.   (* expression <= 0  |  expression == 0 *)

Inductive cterm : Type :=
| CLe (a b : xterm) | CGe (a b : xterm) | CEq (a b : xterm)
| CLeS (a : xterm) (s : sterm) | CGeS (a : xterm) (s : sterm) | CEqS (a : xterm) (s : sterm)
| CSLe (s : sterm) (a : xterm) | CSGe (s : sterm) (a : xterm) | CSEq (s : sterm) (a : xterm).

Section Compile.
  Variable penv : nat -> Q.         (* scalar parameters *)
  Variable vp : nat -> pdict.       (* point variables -> decomposition dict *)
  Variable vx : nat -> edict.       (* expression variables -> decomposition dict *)

  Fixpoint qpow (q : Q) (n : nat) : Q :=
    match n with O => 1 | S n' => q * qpow q n' end.

  Fixpoint seval (s : sterm) : Q :=
    match s with
    | SNum q => q
    | SPar p => penv p
    | SAdd a b => seval a + seval b
    | SSub a b => seval a - seval b
    | SMul a b => seval a * seval b
    | SDiv a b => seval a / seval b
    | SNeg a => - seval a
    | SPow a n => qpow (seval a) n
    end.

  (* Point.__add__ : merge then prune *)
  Definition p_add (a b : pdict) : pdict := prune (pmerge a b).
  (* Point.__rmul__ with a scalar : no pruning *)
  Definition p_scal (c : Q) (a : pdict) : pdict := scale c a.
  Definition p_neg (a : pdict) : pdict := p_scal (-1) a.
  Definition p_sub (a b : pdict) : pdict := p_add a (p_neg b).
  Definition p_div (a : pdict) (c : Q) : pdict := p_scal (1 / c) a.

  Fixpoint compileP (t : pterm) : pdict :=
    match t with
    | PVar v => vp v
    | PAdd a b => p_add (compileP a) (compileP b)
    | PSub a b => p_sub (compileP a) (compileP b)
    | PNeg a => p_neg (compileP a)
    | PScal s a => p_scal (seval s) (compileP a)
    | PDiv a s => p_div (compileP a) (seval s)
    end.

  (* Expression.__add__ *)
  Definition x_add (a b : edict) : edict := prune (emerge a b).
  Definition x_adds (a : edict) (c : Q) : edict := prune (emerge a [(K1, c)]).
  Definition x_scal (c : Q) (a : edict) : edict := scale c a.
  Definition x_neg (a : edict) : edict := x_scal (-1) a.
  (* Expression.__sub__ : self.__add__(-other) *)
  Definition x_sub (a b : edict) : edict := x_add a (x_neg b).
  Definition x_subs (a : edict) (c : Q) : edict := x_adds a (- c).
  (* Expression.__rsub__ : -(self.__sub__(other)) *)
  Definition x_ssub (c : Q) (a : edict) : edict := x_neg (x_subs a c).
  Definition x_div (a : edict) (c : Q) : edict := x_scal (1 / c) a.

  Fixpoint compileX (t : xterm) : edict :=
    match t with
    | XVar v => vx v
    | XInner a b => multiply (compileP a) (compileP b)
    | XSq a => multiply (compileP a) (compileP a)
    | XAdd a b => x_add (compileX a) (compileX b)
    | XAddS a s => x_adds (compileX a) (seval s)
    | XSub a b => x_sub (compileX a) (compileX b)
    | XSubS a s => x_subs (compileX a) (seval s)
    | XSSub s a => x_ssub (seval s) (compileX a)
    | XNeg a => x_neg (compileX a)
    | XScal s a => x_scal (seval s) (compileX a)
    | XDiv a s => x_div (compileX a) (seval s)
    end.

  (* Expression.__le__ : Constraint(self - other, 'inequality')
     Expression.__ge__ : -self <= -other
     Expression.__eq__ : Constraint(self - other, 'equality')
     scalar on the left: Python reflects ( s <= a  is  a >= s,  s >= a  is  a <= s,  s == a  is  a == s ). *)
  Definition c_le (a b : edict) := (x_sub a b, Ineq).
  Definition c_les (a : edict) (c : Q) := (x_subs a c, Ineq).
  Definition c_ge (a b : edict) := c_le (x_neg a) (x_neg b).
  Definition c_ges (a : edict) (c : Q) := c_les (x_neg a) (- c).
  Definition c_eq (a b : edict) := (x_sub a b, Equ).
  Definition c_eqs (a : edict) (c : Q) := (x_subs a c, Equ).

  Definition compileC (t : cterm) : edict * sense :=
    match t with
    | CLe a b => c_le (compileX a) (compileX b)
    | CGe a b => c_ge (compileX a) (compileX b)
    | CEq a b => c_eq (compileX a) (compileX b)
    | CLeS a s => c_les (compileX a) (seval s)
    | CGeS a s => c_ges (compileX a) (seval s)
    | CEqS a s => c_eqs (compileX a) (seval s)
    | CSLe s a => c_ges (compileX a) (seval s)
    | CSGe s a => c_les (compileX a) (seval s)
    | CSEq s a => c_eqs (compileX a) (seval s)
    end.
End Compile.
