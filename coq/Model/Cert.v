(** Executable model of the proof reconstruction in PEP.check_feasibility (PEPit/pep.py 733-783), on
    coefficient dictionaries, with Python's operator dispatch made explicit.  No proofs here.

    733  constraints_combination = -np.dot(leafs, np.dot(self.residual, leafs))
           np.dot over object arrays: row i is  ((r_i0*P_0 + r_i1*P_1) + r_i2*P_2) + ...   with
           r*P = Point.__rmul__ (no pruning), + = Point.__add__ (merge, prune), left to right starting
           from the first product; then  ((P_0*v_0 + P_1*v_1) + P_2*v_2) + ...  with P*v = Point.__rmul__
           on two points (multiply_dicts) and + = Expression.__add__; finally Expression.__neg__.
    747  constraints_combination -= np.sum(psd.eval_dual() * psd.matrix_of_expressions)
           elementwise float * Expression = Expression.__rmul__, np.sum adds the entries row-major
           starting from the first one (Expression.__add__), then Expression.__sub__.
    763  constraints_combination += constraint.eval_dual() * constraint.expression
    769  dual_objective_expression = self.objective - constraints_combination
    771  prune_dict(symmetrize_dict(...)), 777-780 the constant term or 0.
    (Order established by tracing the operator calls of the real classes, see harness/p_c01.py.) *)
From Coq Require Import List QArith ZArith Bool.
From PV Require Import Model.Dict Model.Terms Model.Sent Model.Dump Model.Cvxpy.
Import ListNotations.
Local Open Scope Q_scope.

(** reduction of a non-empty sequence with a binary operator, first element as start value *)
Definition fold1 {A} (f : A -> A -> A) (dflt : A) (l : list A) : A :=
  match l with [] => dflt | a :: r => fold_left f r a end.

Definition leaf_p (i : nat) : pdict := [(i, 1)].

(** [r_0 * P_j; r_1 * P_(j+1); ...] *)
Fixpoint scaled_leaves (row : list Q) (j : nat) : list pdict :=
  match row with
  | [] => []
  | r :: row' => p_scal r (leaf_p j) :: scaled_leaves row' (S j)
  end.

(** np.dot(residual, leafs) : one Point per row *)
Definition res_times_points (res : list (list Q)) : list pdict :=
  map (fun row => fold1 p_add [] (scaled_leaves row 0)) res.

(** [P_i * v_0; P_(i+1) * v_1; ...] *)
Fixpoint points_times (vs : list pdict) (i : nat) : list edict :=
  match vs with
  | [] => []
  | v :: r => multiply (leaf_p i) v :: points_times r (S i)
  end.

(** line 733 *)
Definition gram_term (res : list (list Q)) : edict :=
  x_neg (fold1 x_add [] (points_times (res_times_points res) 0)).

(** np.sum(S * E) *)
Definition lmi_term (S : list (list Q)) (E : list (list edict)) : edict :=
  fold1 x_add [] (map (fun '(s, e) => x_scal s e) (combine (concat S) (concat E))).

(** the multipliers read back from the objects: PSD matrices and scalar constraints with what they show, each
    in send order ( _list_of_psd_sent_to_wrapper / _list_of_constraints_sent_to_wrapper ).
    pep.py 748-752 (since the repair of F-C01a): an LMI is combined with the duals of its ENTRY equalities,
    [entries_dual_variable_value], falling back to eval_dual() when that attribute is None. *)
Definition lmi_multiplier (d : dval) (u : option (list (list Q))) : option (list (list Q)) :=
  match u, d with
  | Some u, _ => Some u
  | None, VM s => Some s
  | None, VS _ => None
  end.
Definition psd_part (a : list expo) : list (list (list Q) * list (list edict)) :=
  flat_map (fun '(it, d, u) => match it, lmi_multiplier d u with LMI m, Some s => [(s, m)] | _, _ => [] end) a.
Definition scalar_part (a : list expo) : list (Q * edict) :=
  flat_map (fun '(it, d, _) => match it, d with SC e _, VS l => [(l, e)] | _, _ => [] end) a.

(** lines 733-768 *)
Definition combine_terms (res : list (list Q)) (psds : list (list (list Q) * list (list edict)))
           (scs : list (Q * edict)) : edict :=
  let cc0 := gram_term res in
  let cc1 := fold_left (fun cc '(s, m) => x_sub cc (lmi_term s m)) psds cc0 in
  fold_left (fun cc '(l, e) => x_add cc (x_scal l e)) scs cc1.

Definition combination (res : list (list Q)) (a : list expo) : edict :=
  combine_terms res (psd_part a) (scalar_part a).

(** the formula BEFORE that repair (pep.py at 5162ea4): the LMI expressions were combined with eval_dual(), the
    dual matrix of [M >> 0]; kept only for the regression theorem of Proofs/C01Refuted.v *)
Definition old_psd_part (a : list expo) : list (list (list Q) * list (list edict)) :=
  flat_map (fun '(it, d, _) => match it, d with LMI m, VM s => [(s, m)] | _, _ => [] end) a.
Definition old_combination (res : list (list Q)) (a : list expo) : edict :=
  combine_terms res (old_psd_part a) (scalar_part a).

(** lines 774-780; [obj] is the decomposition dict of self.objective *)
Definition final_dict_of (obj cc : edict) : edict := prune (symmetrize (x_sub obj cc)).
Definition final_dict (obj : edict) (res : list (list Q)) (a : list expo) : edict :=
  final_dict_of obj (combination res a).

(** lines 777-780 *)
Definition constant_of (d : edict) : Q :=
  match lookup ekey_eqb K1 d with Some v => v | None => 0 end.

Definition reconstruct (obj : edict) (res : list (list Q)) (a : list expo) : Q :=
  constant_of (final_dict obj res a).
Definition old_reconstruct (obj : edict) (res : list (list Q)) (a : list expo) : Q :=
  constant_of (final_dict_of obj (old_combination res a)).

Definition res_matrix (d : dval) : list (list Q) := match d with VM s => s | VS _ => [] end.

(** the whole post-solve pipeline on the solver's dual vector: what ends up exposed and returned *)
Definition certificate (obj : edict) (tracked : sent) (ids : list nat) (temp : list dval)
  : list expo * dval * edict * Q :=
  let '(a, res) := exposed tracked ids temp in
  (a, res, final_dict obj (res_matrix res) a, reconstruct obj (res_matrix res) a).

Definition dump_entries (u : option (list (list Q))) : D :=
  match u with None => DL [] | Some u => DL [dump_qmat u] end.

(** ** Dump of one correspondence case: the rows of the cvxpy problem evaluated at a tagged point,
    every eval_dual() and entries_dual_variable_value in send order, PEP.residual, the pruned symmetrised
    dictionary (keys in order) and the constant returned by check_feasibility. *)
Definition dump_certificate (c : list expo * dval * edict * Q) : list D :=
  let '(a, res, fd, tau) := c in
  [ DL (map (fun '(_, d, u) => DL [dump_dval d; dump_entries u]) a); dump_dval res; dump_edict fd; DQ tau ].

Definition run_case (np : nat) (obj : edict) (tracked : sent) (ids : list nat) (temp : list dval)
           (G : list (list Q)) (F : list Q) (M : list (list (list Q))) : D :=
  DL (DL (map (dump_row G F M np) (emit tracked)) :: dump_certificate (certificate obj tracked ids temp)).

(** one case of the C14 stream: the problem before and after prepare_heuristic + heuristic (rows evaluated at the
    tagged point, objective), and what stays exposed: the certificate of the FIRST solve's duals. *)
Definition run_case_heuristic (np : nat) (obj : edict) (tracked : sent) (ids : list nat) (temp : list dval)
           (G : list (list Q)) (F : list Q) (M : list (list (list Q))) (wc tol : Q) (W : list (list Q)) : D :=
  let w0 := generate_problem obj tracked in
  let w2 := heuristic (prepare_heuristic w0 wc tol) W in
  DL ([ DL (map (dump_row G F M np) (p_rows (w_prob w0)));
        dump_objective G F (p_obj (w_prob w0));
        DL (map (dump_row G F M np) (p_rows (w_prob w2)));
        dump_objective G F (p_obj (w_prob w2)) ]
      ++ dump_certificate (certificate obj tracked ids temp)).
