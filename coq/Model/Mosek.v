(** Executable model of PEPit/wrappers/mosek_wrapper.py and of the part of MOSEK's Optimizer API it
    drives (C11).  No proofs here.

    [emit]          the sequence of Task calls MosekWrapper issues for a declared model ([sent], in
                    the order pep.py sends it), WITH the wrapper's own index expressions:
                    row number = what [getnumcon] returned, symmetric-matrix index = what
                    [appendsparsesymmat] returned, bar-variable index of an LMI =
                    [self._nb_pep_SDPconstraints_in_mosek - 1] (the wrapper's own count of matrix
                    variables, incremented just before), row-index vector
                    [nb_cons + np.zeros(shape, dtype=np.int32)] (numpy >= 2 raises OverflowError when
                    nb_cons >= 2^31: the native index type of the API), [putclist([self.objective.counter], [0.0])]
                    in prepare_heuristic, [xx[self.objective.counter]] in solve.
                    (/repo after the fix: commits 88e1f86, 067bbb4, 54e4665.)
    [step]/[run]    MOSEK's documented semantics of those calls on a task state (assumption A1 of
                    harness/standin/mosek/__init__.py, which implements the same semantics and is what
                    the real wrapper code runs against); [None] = the API (or numpy) raises.
    [task_denote]   the SDP a call sequence denotes: the final task state minus the table of stored
                    symmetric matrices (their indices are resolved into the coefficient data).
    [sdp_of]        the DECLARED problem, written down directly from [sent]: one row per scalar
                    constraint, n*n coupling rows per n x n LMI attached to ITS OWN matrix variable
                    (the k-th LMI sent owns bar variable k+1), free leaf-expression variables,
                    objective = the objective leaf, maximise.
    Sparse coefficient data of an expression = Model/Matrices.v ([sparse_loop], package C05). *)
From Coq Require Import String List QArith ZArith Bool Arith.
From PV Require Import Model.Dict Model.Terms Model.Sent Model.Dump Model.Matrices.
Import ListNotations.
Local Open Scope nat_scope.

(* ------------------------------------------------------------------ the API surface *)
Inductive bkey : Type := BFr | BUp | BFx | BLo.
Inductive osense : Type := OMax | OMin.
Definition triple : Type := (nat * nat * Q)%type.

Inductive task_call : Type :=
| TAppendBarvars (dims : list nat)
| TAppendVars (n : nat)
| TPutVarBound (j : nat) (bk : bkey) (lo up : Q)
| TGetNumCon (ret : nat)
| TAppendCons (n : nat)
| TAppendSparseSymMat (dim : nat) (tr : list triple) (ret : nat)   (* subi, subj, valij zipped *)
| TPutBarAij (i j : nat) (sub : list nat) (w : list Q)
| TPutAijList (rows cols : list nat) (vals : list Q)
| TPutConBound (i : nat) (bk : bkey) (lo up : Q)
| TGetMaxNumVar (ret : nat)
| TPutCList (subj : list nat) (vals : list Q)
| TPutObjSense (s : osense)
| TPutBarCj (j : nat) (sub : list nat) (w : list Q)
| TOptimize
| TGetBarxj (j : nat)
| TGetBarsj (j : nat)
| TGetXx
| TGetY
| TGetProsta
| TPyOverflow.        (* the wrapper's own numpy expression raised OverflowError: nothing follows *)

(* ------------------------------------------------------------------ emit: mosek_wrapper.py *)
Definition sp (e : edict) : sparse := sparse_loop e.     (* expression_to_sparse_matrices *)

(** [nb_cons + np.zeros(a_i.shape, dtype=np.int32)]: numpy >= 2 converts the Python int to int32 first and raises
    OverflowError when it does not fit; 2^31 is also the limit of every index of the MOSEK API *)
Definition int32_lim : Z := 2147483648%Z.
Definition int32_ok (n : nat) : bool := Z.ltb (Z.of_nat n) int32_lim.

(** [putaijlist(nb + zeros(int32), a_i, a_val)] then [putconbound] (lines 149-157 / 204-205) *)
Definition row_tail (nb : nat) (e : edict) (bk : bkey) (lo up : Q) : list task_call :=
  if int32_ok nb
  then [TPutAijList (repeat nb (length (sF (sp e)))) (map fst (sF (sp e))) (map snd (sF (sp e)));
        TPutConBound nb bk lo up]
  else [TPyOverflow].

(** bounds of a scalar constraint: [up, -inf, -alpha] with inf = 1.0 "symbolic", [fx, -alpha, -alpha] *)
Definition sc_bound (e : edict) (s : sense) : bkey * Q * Q :=
  match s with
  | Ineq => (BUp, (- (1))%Q, (- sC (sp e))%Q)
  | Equ => (BFx, (- sC (sp e))%Q, (- sC (sp e))%Q)
  end.

(** send_constraint_to_solver, lines 141-157; [nb] = getnumcon(), [k] = next symmetric-matrix index *)
Definition emit_sc (pc nb k : nat) (e : edict) (s : sense) : list task_call :=
  [TGetNumCon nb; TAppendCons 1; TAppendSparseSymMat pc (sG (sp e)) k; TPutBarAij nb 0 [k] [1%Q]]
  ++ row_tail nb e (fst (fst (sc_bound e s))) (snd (fst (sc_bound e s))) (snd (sc_bound e s)).

(** [-.5 * (i != j) - 1 * (i == j)] *)
Definition coupling_weight (i j : nat) : Q := if Nat.eqb i j then (- (1))%Q else (- (1 # 2))%Q.
Definition coupling_triple (i j : nat) : triple := (Nat.max i j, Nat.min i j, coupling_weight i j).

(** one entry of send_lmi_constraint_to_solver, lines 190-205; [bar] = self._nb_pep_SDPconstraints_in_mosek - 1 *)
Definition emit_entry (pc size bar nb k i j : nat) (e : edict) : list task_call :=
  [TGetNumCon nb; TAppendCons 1;
   TAppendSparseSymMat pc (sG (sp e)) k;
   TAppendSparseSymMat size [coupling_triple i j] (S k);
   TPutBarAij nb 0 [k] [1%Q];
   TPutBarAij nb bar [S k] [1%Q]]
  ++ row_tail nb e BFx (- sC (sp e))%Q (- sC (sp e))%Q.

(** entries of a matrix of expressions, row-major, with their coordinates *)
Fixpoint row_entries (i j : nat) (r : list edict) : list (nat * nat * edict) :=
  match r with [] => [] | e :: r' => (i, j, e) :: row_entries i (S j) r' end.
Fixpoint mat_entries (i : nat) (m : list (list edict)) : list (nat * nat * edict) :=
  match m with [] => [] | r :: m' => row_entries i 0 r ++ mat_entries (S i) m' end.
Definition entries (m : list (list edict)) := mat_entries 0 m.

Fixpoint emit_entries (pc size bar nb k : nat) (es : list (nat * nat * edict)) : list task_call :=
  match es with
  | [] => []
  | (i, j, e) :: rest =>
      emit_entry pc size bar nb k i j e
      ++ (if int32_ok nb then emit_entries pc size bar (S nb) (S (S k)) rest else [])
  end.

(** the body of _solve_with_wrapper's send loops over the already collected list;
    [nsdp] = self._nb_pep_SDPconstraints_in_mosek (1 after set_main_variables, +1 at the start of every
    send_lmi_constraint_to_solver) *)
Fixpoint emit_items (pc nb k nsdp : nat) (l : sent) : list task_call :=
  match l with
  | [] => []
  | SC e s :: rest =>
      emit_sc pc nb k e s ++ (if int32_ok nb then emit_items pc (S nb) (S k) nsdp rest else [])
  | LMI m :: rest =>
      let es := entries m in
      TAppendBarvars [length m]
      :: TGetNumCon nb          (* self._lmi_entries_index_in_mosek.append(self.task.getnumcon()) *)
      :: emit_entries pc (length m) (S nsdp - 1) nb k es
      ++ (if Z.leb (Z.of_nat (nb + length es)) int32_lim
          then emit_items pc (nb + length es) (k + 2 * length es) (S nsdp) rest else [])
  end.

Definition item_rows (it : item) : nat :=
  match it with SC _ _ => 1 | LMI m => length (entries m) end.
Definition item_syms (it : item) : nat :=
  match it with SC _ _ => 1 | LMI m => 2 * length (entries m) end.
Definition total_rows (l : sent) : nat := fold_right (fun it n => item_rows it + n) 0 l.
Definition total_syms (l : sent) : nat := fold_right (fun it n => item_syms it + n) 0 l.

(** set_main_variables, lines 89-96 ([pc] = Point.counter, [ec] = Expression.counter) *)
Definition prologue (pc ec : nat) : list task_call :=
  TAppendBarvars [pc] :: TAppendVars (S ec) :: map (fun i => TPutVarBound i BFr (- (1))%Q 1%Q) (seq 0 ec).

(** generate_problem, lines 270-276 (the objective is a leaf: Fweights = ([counter], [1])) *)
Definition epilogue (ec obj : nat) : list task_call :=
  [TGetMaxNumVar (S ec); TPutCList [obj] [1%Q]; TPutObjSense OMax].

(** everything up to (excluding) the first optimize *)
Definition rows_fit_int32 (l : sent) : bool := Z.leb (Z.of_nat (total_rows l)) int32_lim.
Definition emit (l : sent) (pc ec obj : nat) : list task_call :=
  prologue pc ec ++ emit_items pc 0 0 1 l
  ++ (if rows_fit_int32 l then epilogue ec obj else []).

(** solve (298-304) and _recover_dual_values (228-244): the reads; [counter_psd] counts LMIs in send order *)
Definition solve_reads : list task_call := [TOptimize; TGetBarxj 0; TGetXx; TGetProsta].
Fixpoint recover_lmi_reads (cp : nat) (l : sent) : list task_call :=
  match l with
  | [] => []
  | SC _ _ :: rest => recover_lmi_reads cp rest
  | LMI _ :: rest => TGetBarsj cp :: recover_lmi_reads (S cp) rest
  end.
Definition recover_reads (l : sent) : list task_call := TGetY :: TGetBarsj 0 :: recover_lmi_reads 1 l.

(** The wrapper's own bookkeeping while sending ([nb] = what getnumcon returned at that moment):
    [_constraint_index_in_mosek] (row of each tracked scalar constraint) and
    [_lmi_entries_index_in_mosek] (row of the first entry of each LMI), both in send order. *)
Fixpoint sc_index (nb : nat) (l : sent) : list nat :=
  match l with
  | [] => []
  | SC _ _ :: rest => nb :: sc_index (S nb) rest
  | LMI m :: rest => sc_index (nb + length (entries m)) rest
  end.
Fixpoint lmi_first_index (nb : nat) (l : sent) : list nat :=
  match l with
  | [] => []
  | SC _ _ :: rest => lmi_first_index (S nb) rest
  | LMI m :: rest => nb :: lmi_first_index (nb + length (entries m)) rest
  end.

(** _get_Gram_from_mosek (lines 372-381): the lower triangle, columns one after the other *)
Fixpoint col_offset (size c : nat) : nat :=
  match c with O => 0 | S c' => col_offset size c' + (size - c') end.
Definition gram_entry (tril : list Q) (size r c : nat) : Q :=
  nth (col_offset size (Nat.min r c) + (Nat.max r c - Nat.min r c)) tril 0%Q.
Definition get_gram (tril : list Q) (size : nat) : list (list Q) :=
  map (fun r => map (fun c => gram_entry tril size r c) (seq 0 size)) (seq 0 size).
Definition mat_opp (m : list (list Q)) : list (list Q) := map (map Qopp) m.

(** [np.array(v).reshape((n, n))] of a list of n*n values *)
Fixpoint chunks (n rows : nat) (v : list Q) : list (list Q) :=
  match rows with O => [] | S r => firstn n v :: chunks n r (skipn n v) end.

(** _recover_dual_values (lines 228-262 after bd99691).  [y] = gety, [bars j] = getbarsj(itr, j).
    Per tracked item, in send order: scalar constraint -> y[_constraint_index_in_mosek[counter_scalar]];
    LMI -> (-Gram(getbarsj(counter_psd)),  -y[first : first + n*n].reshape(n, n))  with
    first = _lmi_entries_index_in_mosek[counter_psd - 1]. *)
Inductive recovered : Type :=
| RScalar (lam : Q)
| RLmi (dual : list (list Q)) (entries_dual : list (list Q)).

Fixpoint recover_items (y : list Q) (bars : nat -> list Q) (scidx firsts : list nat)
         (counter_scalar counter_psd : nat) (l : sent) : list recovered :=
  match l with
  | [] => []
  | SC _ _ :: rest =>
      RScalar (nth (nth counter_scalar scidx 0) y 0%Q)
      :: recover_items y bars scidx firsts (S counter_scalar) counter_psd rest
  | LMI m :: rest =>
      let n := length m in
      let first := nth (counter_psd - 1) firsts 0 in
      RLmi (mat_opp (get_gram (bars counter_psd) n))
           (mat_opp (chunks n n (firstn (n * n) (skipn first y))))
      :: recover_items y bars scidx firsts counter_scalar (S counter_psd) rest
  end.

Definition recover (l : sent) (pc : nat) (y : list Q) (bars : nat -> list Q) : list (list Q) * list recovered :=
  (mat_opp (get_gram (bars 0) pc),                                     (* residual = dual_values[0] *)
   recover_items y bars (sc_index 0 l) (lmi_first_index 0 l) 0 1 l).

(** prepare_heuristic (322-324): [self.objective >= wc_value - tol] is Expression.__ge__ with a scalar;
    [v] = wc_value - tol_dimension_reduction; sent with track=False through the same code *)
Definition heur_edict (obj : nat) (v : Q) : edict := fst (c_ges [(KF obj, 1%Q)] v).
Definition emit_prepare (pc ec obj nb k : nat) (v : Q) : list task_call :=
  [TPutCList [obj] [0%Q]; TPutObjSense OMin] ++ emit_sc pc nb k (heur_edict obj v) Ineq.
(** heuristic (337-343): [W] = the non-zero lower-triangular entries of the weight, row-major *)
Definition emit_heuristic (pc k : nat) (W : list triple) : list task_call :=
  [TAppendSparseSymMat pc W k; TPutBarCj 0 [k] [1%Q]; TPutObjSense OMin].
Definition identity_triples (pc : nat) : list triple := map (fun i => (i, i, 1%Q)) (seq 0 pc).

(** a whole [PEP.solve(wrapper="mosek", dimension_reduction_heuristic=...)]:
    [Ws] = one weight per heuristic solve ([identity_triples] for "trace") *)
Fixpoint heuristic_rounds (pc k : nat) (Ws : list (list triple)) : list task_call :=
  match Ws with
  | [] => []
  | W :: rest => emit_heuristic pc k W ++ solve_reads ++ heuristic_rounds pc (S k) rest
  end.
Definition emit_session (l : sent) (pc ec obj : nat)
           (heur : option (Q * list (list triple))) : list task_call :=
  emit l pc ec obj
  ++ (if rows_fit_int32 l
      then solve_reads ++ recover_reads l
           ++ match heur with
              | None => []
              | Some (v, Ws) =>
                  emit_prepare pc ec obj (total_rows l) (total_syms l) v
                  ++ (if int32_ok (total_rows l) then heuristic_rounds pc (S (total_syms l)) Ws else [])
              end
      else []).

(** what solve() returns: [tau = xx[self.objective.counter]], whatever getprosta says (lines 301-305) *)
Inductive prosta : Type := PrimAndDualFeas | PrimInfeas | DualInfeas | ProstaUnknown.
Definition mosek_solve_value (xx : list Q) (obj : nat) (st : prosta) : option Q :=
  Some (nth obj xx 0%Q).
(** cvxpy path: [self.objective.value], which cvxpy leaves at None unless a solution was found *)
Definition cvxpy_solve_value (value : Q) (st : prosta) : option Q :=
  match st with PrimAndDualFeas => Some value | _ => None end.

(* ------------------------------------------------------------------ API semantics *)
Definition wmat : Type := list (Q * list triple).      (* sum_k w_k * E_k, E_k in lower-triangular triples *)

Record row : Type := mkRow {
  r_lin : list (nat * Q);            (* a_{i,.}  : variable -> coefficient *)
  r_bar : list (nat * wmat);         (* Abar_{i,.}: bar variable -> coefficient matrix *)
  r_bnd : bkey * Q * Q }.

Record tstate : Type := mkT {
  t_bars : list nat;                 (* dimensions of the bar variables *)
  t_vb : list (bkey * Q * Q);        (* variable bounds *)
  t_rows : list row;
  t_syms : list (nat * list triple); (* stored symmetric matrices *)
  t_c : list (nat * Q);
  t_barc : list (nat * wmat);
  t_sense : osense }.

Definition t0 : tstate := mkT [] [] [] [] [] [] OMin.     (* a fresh task; MOSEK's default sense is minimize *)
Definition empty_row : row := mkRow [] [] (BFr, 0%Q, 0%Q).     (* appendcons: free, no coefficient *)
Definition fixed0 : bkey * Q * Q := (BFx, 0%Q, 0%Q).           (* appendvars: fixed at zero *)

(** "SET" semantics of every put*: replace the entry of that index, or add it *)
Fixpoint set_assoc {A} (k : nat) (v : A) (l : list (nat * A)) : list (nat * A) :=
  match l with
  | [] => [(k, v)]
  | (k', v') :: l' => if Nat.eqb k k' then (k, v) :: l' else (k', v') :: set_assoc k v l'
  end.

Fixpoint upd_nth {A} (n : nat) (f : A -> A) (l : list A) : option (list A) :=
  match l, n with
  | [], _ => None
  | x :: l', O => Some (f x :: l')
  | x :: l', S n' => match upd_nth n' f l' with Some r => Some (x :: r) | None => None end
  end.

(** a stored symmetric matrix must be given by in-range, lower-triangular, pairwise distinct positions *)
Fixpoint pos_mem (i j : nat) (tr : list triple) : bool :=
  match tr with
  | [] => false
  | (i', j', _) :: tr' => (Nat.eqb i i' && Nat.eqb j j') || pos_mem i j tr'
  end.
Fixpoint valid_triples (dim : nat) (tr : list triple) : bool :=
  match tr with
  | [] => true
  | (i, j, _) :: tr' => Nat.ltb i dim && Nat.leb j i && negb (pos_mem i j tr') && valid_triples dim tr'
  end.

(** sub/weights of putbaraij / putbarcj resolved against the stored matrices; every matrix must have
    the dimension [dim] of the bar variable *)
Fixpoint resolve (syms : list (nat * list triple)) (dim : nat) (sub : list nat) (w : list Q) : option wmat :=
  match sub, w with
  | [], [] => Some []
  | s :: sub', q :: w' =>
      match nth_error syms s, resolve syms dim sub' w' with
      | Some (d, tr), Some r => if Nat.eqb d dim then Some ((q, tr) :: r) else None
      | _, _ => None
      end
  | _, _ => None
  end.

Fixpoint put_aij (nvar : nat) (rows : list row) (rs cs : list nat) (vs : list Q) : option (list row) :=
  match rs, cs, vs with
  | [], [], [] => Some rows
  | r :: rs', c :: cs', v :: vs' =>
      if Nat.ltb c nvar
      then match upd_nth r (fun x => mkRow (set_assoc c v (r_lin x)) (r_bar x) (r_bnd x)) rows with
           | Some rows' => put_aij nvar rows' rs' cs' vs'
           | None => None
           end
      else None
  | _, _, _ => None
  end.

Fixpoint put_c (nvar : nat) (c : list (nat * Q)) (js : list nat) (vs : list Q) : option (list (nat * Q)) :=
  match js, vs with
  | [], [] => Some c
  | j :: js', v :: vs' => if Nat.ltb j nvar then put_c nvar (set_assoc j v c) js' vs' else None
  | _, _ => None
  end.

Definition step (st : tstate) (c : task_call) : option tstate :=
  match c with
  | TAppendBarvars dims =>
      Some (mkT (t_bars st ++ dims) (t_vb st) (t_rows st) (t_syms st) (t_c st) (t_barc st) (t_sense st))
  | TAppendVars n =>
      Some (mkT (t_bars st) (t_vb st ++ repeat fixed0 n) (t_rows st) (t_syms st) (t_c st) (t_barc st) (t_sense st))
  | TPutVarBound j bk lo up =>
      match upd_nth j (fun _ => (bk, lo, up)) (t_vb st) with
      | Some vb => Some (mkT (t_bars st) vb (t_rows st) (t_syms st) (t_c st) (t_barc st) (t_sense st))
      | None => None
      end
  | TGetNumCon ret => if Nat.eqb ret (length (t_rows st)) then Some st else None
  | TAppendCons n =>
      Some (mkT (t_bars st) (t_vb st) (t_rows st ++ repeat empty_row n) (t_syms st) (t_c st) (t_barc st) (t_sense st))
  | TAppendSparseSymMat dim tr ret =>
      if valid_triples dim tr && Nat.eqb ret (length (t_syms st))
      then Some (mkT (t_bars st) (t_vb st) (t_rows st) (t_syms st ++ [(dim, tr)]) (t_c st) (t_barc st) (t_sense st))
      else None
  | TPutBarAij i j sub w =>
      match nth_error (t_bars st) j with
      | Some dim =>
          match resolve (t_syms st) dim sub w with
          | Some wm =>
              match upd_nth i (fun x => mkRow (r_lin x) (set_assoc j wm (r_bar x)) (r_bnd x)) (t_rows st) with
              | Some rows => Some (mkT (t_bars st) (t_vb st) rows (t_syms st) (t_c st) (t_barc st) (t_sense st))
              | None => None
              end
          | None => None
          end
      | None => None
      end
  | TPutAijList rs cs vs =>
      match put_aij (length (t_vb st)) (t_rows st) rs cs vs with
      | Some rows => Some (mkT (t_bars st) (t_vb st) rows (t_syms st) (t_c st) (t_barc st) (t_sense st))
      | None => None
      end
  | TPutConBound i bk lo up =>
      match upd_nth i (fun x => mkRow (r_lin x) (r_bar x) (bk, lo, up)) (t_rows st) with
      | Some rows => Some (mkT (t_bars st) (t_vb st) rows (t_syms st) (t_c st) (t_barc st) (t_sense st))
      | None => None
      end
  | TGetMaxNumVar ret => if Nat.eqb ret (length (t_vb st)) then Some st else None
  | TPutCList js vs =>
      match put_c (length (t_vb st)) (t_c st) js vs with
      | Some c' => Some (mkT (t_bars st) (t_vb st) (t_rows st) (t_syms st) c' (t_barc st) (t_sense st))
      | None => None
      end
  | TPutObjSense s => Some (mkT (t_bars st) (t_vb st) (t_rows st) (t_syms st) (t_c st) (t_barc st) s)
  | TPutBarCj j sub w =>
      match nth_error (t_bars st) j with
      | Some dim =>
          match resolve (t_syms st) dim sub w with
          | Some wm => Some (mkT (t_bars st) (t_vb st) (t_rows st) (t_syms st) (t_c st)
                                 (set_assoc j wm (t_barc st)) (t_sense st))
          | None => None
          end
      | None => None
      end
  | TOptimize | TGetXx | TGetY | TGetProsta => Some st
  | TGetBarxj j | TGetBarsj j => if Nat.ltb j (length (t_bars st)) then Some st else None
  | TPyOverflow => None
  end.

Fixpoint run (cs : list task_call) (st : tstate) : option tstate :=
  match cs with
  | [] => Some st
  | c :: cs' => match step st c with Some st' => run cs' st' | None => None end
  end.

(** the calls actually issued: up to and including the first one that raises *)
Fixpoint run_prefix (cs : list task_call) (st : tstate) : list task_call :=
  match cs with
  | [] => []
  | c :: cs' => c :: match step st c with Some st' => run_prefix cs' st' | None => [] end
  end.

(** the denoted problem: maximize|minimize  c.x + sum_j <Cbar_j, Xbar_j>  over x (bounds d_vb) and PSD
    Xbar_j (dimensions d_bars), subject to the rows *)
Record sdp : Type := mkSdp {
  d_bars : list nat;
  d_vb : list (bkey * Q * Q);
  d_rows : list row;
  d_c : list (nat * Q);
  d_barc : list (nat * wmat);
  d_sense : osense }.

Definition sdp_of_state (st : tstate) : sdp :=
  mkSdp (t_bars st) (t_vb st) (t_rows st) (t_c st) (t_barc st) (t_sense st).

Definition task_denote (cs : list task_call) : option sdp :=
  match run cs t0 with Some st => Some (sdp_of_state st) | None => None end.

(* ------------------------------------------------------------------ the declared problem *)
(** coefficients of the leaf-expression variables in a row: the pairs (index, weight) of the
    expression, a later pair for the same variable replacing an earlier one (none repeats when the
    dictionary has distinct keys: [lin_of] is then the list itself) *)
Definition lin_of (l : list (nat * Q)) : list (nat * Q) :=
  fold_left (fun acc cv => set_assoc (fst cv) (snd cv) acc) l [].

(** a scalar constraint  e <= 0 | e == 0  as a row:  <A,G> + a.F  <= | ==  -alpha *)
Definition sc_row (e : edict) (s : sense) : row :=
  mkRow (lin_of (sF (sp e))) [(0, [(1%Q, sG (sp e))])] (sc_bound e s).

(** entry (i,j) of the [kbar]-th matrix variable coupled to the expression e:
    <A,G> + a.F + <coupling_ij, M> == -alpha *)
Definition lmi_row (kbar i j : nat) (e : edict) : row :=
  mkRow (lin_of (sF (sp e)))
        [(0, [(1%Q, sG (sp e))]); (kbar, [(1%Q, [coupling_triple i j])])]
        (BFx, (- sC (sp e))%Q, (- sC (sp e))%Q).

(** [kbar] = bar variable owned by the next LMI (1 + number of LMIs before it) *)
Fixpoint rows_of (kbar : nat) (l : sent) : list row :=
  match l with
  | [] => []
  | SC e s :: rest => sc_row e s :: rows_of kbar rest
  | LMI m :: rest => map (fun ije => lmi_row kbar (fst (fst ije)) (snd (fst ije)) (snd ije)) (entries m)
                     ++ rows_of (S kbar) rest
  end.

Definition sdp_of (l : sent) (pc ec obj : nat) : sdp :=
  mkSdp (pc :: map (fun m => length m) (lmis l))
        (repeat (BFr, (- (1))%Q, 1%Q) ec ++ [fixed0])
        (rows_of 1 l)
        [(obj, 1%Q)] [] OMax.

(** after prepare_heuristic + heuristic(W): the DECLARED second problem: minimise <W,G> under the same
    rows plus  -tau <= -(wc - tol) *)
Definition sdp_heur (l : sent) (pc ec obj : nat) (v : Q) (W : list triple) : sdp :=
  mkSdp (pc :: map (fun m => length m) (lmis l))
        (repeat (BFr, (- (1))%Q, 1%Q) ec ++ [fixed0])
        (rows_of 1 l ++ [sc_row (heur_edict obj v) Ineq])
        [(obj, 0%Q)] [(0, [(1%Q, W)])] OMin.

(* ------------------------------------------------------------------ the guard *)
(** well-formedness of what is sent (true of every PEPit object: keys are leaf points / leaf
    expressions that exist, dictionaries have distinct keys, PSD matrices are square) *)
Definition wf_expr (pc ec : nat) (e : edict) : bool :=
  valid_triples pc (sG (sp e)) && forallb (fun cv => Nat.ltb (fst cv) ec) (sF (sp e)).
Definition wf_item (pc ec : nat) (it : item) : bool :=
  match it with
  | SC e _ => wf_expr pc ec e
  | LMI m => forallb (fun r => Nat.eqb (length r) (length m)) m
             && forallb (fun ije => wf_expr pc ec (snd ije)) (entries m)
  end.
Definition wf_sent (pc ec : nat) (l : sent) : bool := forallb (wf_item pc ec) l.

(** every row index fits the API's native int (int32): the only limit left, and MOSEK's own *)
Definition guard (l : sent) (pc ec obj : nat) : bool :=
  wf_sent pc ec l && Nat.ltb obj ec && rows_fit_int32 l.

(* ------------------------------------------------------------------ dumps (correspondence) *)
Open Scope string_scope.
Definition dump_bkey (b : bkey) : D :=
  DS (match b with BFr => "fr" | BUp => "up" | BFx => "fx" | BLo => "lo" end).
Definition dump_osense (s : osense) : D := DS (match s with OMax => "maximize" | OMin => "minimize" end).
Definition dump_nats (l : list nat) : D := DL (map DN l).
Definition dump_qs (l : list Q) : D := DL (map DQ l).
Definition dump_triples (l : list triple) : D :=
  DL (map (fun t => DL [DN (fst (fst t)); DN (snd (fst t)); DQ (snd t)]) l).

Definition dump_call (c : task_call) : D :=
  match c with
  | TAppendBarvars dims => DL [DS "appendbarvars"; dump_nats dims]
  | TAppendVars n => DL [DS "appendvars"; DN n]
  | TPutVarBound j bk lo up => DL [DS "putvarbound"; DN j; dump_bkey bk; DQ lo; DQ up]
  | TGetNumCon ret => DL [DS "getnumcon"; DN ret]
  | TAppendCons n => DL [DS "appendcons"; DN n]
  | TAppendSparseSymMat dim tr ret => DL [DS "appendsparsesymmat"; DN dim; dump_triples tr; DN ret]
  | TPutBarAij i j sub w => DL [DS "putbaraij"; DN i; DN j; dump_nats sub; dump_qs w]
  | TPutAijList rs cs vs => DL [DS "putaijlist"; dump_nats rs; dump_nats cs; dump_qs vs]
  | TPutConBound i bk lo up => DL [DS "putconbound"; DN i; dump_bkey bk; DQ lo; DQ up]
  | TGetMaxNumVar ret => DL [DS "getmaxnumvar"; DN ret]
  | TPutCList js vs => DL [DS "putclist"; dump_nats js; dump_qs vs]
  | TPutObjSense s => DL [DS "putobjsense"; dump_osense s]
  | TPutBarCj j sub w => DL [DS "putbarcj"; DN j; dump_nats sub; dump_qs w]
  | TOptimize => DL [DS "optimize"]
  | TGetBarxj j => DL [DS "getbarxj"; DN j]
  | TGetBarsj j => DL [DS "getbarsj"; DN j]
  | TGetXx => DL [DS "getxx"]
  | TGetY => DL [DS "gety"]
  | TGetProsta => DL [DS "getprosta"]
  | TPyOverflow => DL [DS "OverflowError"]
  end.

Definition dump_wmat (w : wmat) : D := DL (map (fun qt => DL [DQ (fst qt); dump_triples (snd qt)]) w).
Definition dump_bound (b : bkey * Q * Q) : D := DL [dump_bkey (fst (fst b)); DQ (snd (fst b)); DQ (snd b)].
Definition dump_row (r : row) : D :=
  DL [DL (map (fun cv => DL [DN (fst cv); DQ (snd cv)]) (r_lin r));
      DL (map (fun jw => DL [DN (fst jw); dump_wmat (snd jw)]) (r_bar r));
      dump_bound (r_bnd r)].
Definition dump_sdp (d : sdp) : D :=
  DL [dump_nats (d_bars d); DL (map dump_bound (d_vb d)); DL (map dump_row (d_rows d));
      DL (map (fun cv => DL [DN (fst cv); DQ (snd cv)]) (d_c d));
      DL (map (fun jw => DL [DN (fst jw); dump_wmat (snd jw)]) (d_barc d));
      dump_osense (d_sense d)].

(** one correspondence case: the whole session's call log; the second component tells whether the
    model says the API accepts every call ("ok") or raises, and the guard's verdict *)
Definition dump_mat (m : list (list Q)) : D := DL (map dump_qs m).
Definition dump_recovered (r : recovered) : D :=
  match r with
  | RScalar lam => DQ lam
  | RLmi d e => DL [dump_mat d; dump_mat e]
  end.

(** [sol] = what the solver answered to the first solve: (gety, [getbarsj 0; getbarsj 1; ...]) *)
Definition dump_session (l : sent) (pc ec obj : nat)
           (heur : option (Q * list (list triple))) (sol : option (list Q * list (list Q))) : D :=
  let cs := emit_session l pc ec obj heur in
  DL [DL (map dump_call (run_prefix cs t0));
      DB (match run cs t0 with Some _ => true | None => false end);
      DB (guard l pc ec obj);
      match sol with
      | None => DL []
      | Some (y, bars) =>
          let r := recover l pc y (fun j => nth j bars []) in
          DL [dump_mat (fst r); DL (map dump_recovered (snd r))]
      end].
