(** Executable model of PEPit/tools/dict_operations.py over ordered association lists.

    A Python dict is modelled by [list (K * Q)] in insertion order (Python dicts are ordered and the
    order is observable downstream: sparse triples, solver rows).  Keys are unique in every Python
    dict; the model functions below coincide with the Python loops on such lists (invariant
    [NoDupKeys], proved preserved in Proofs/DictLemmas.v).  Values are exact rationals: every Python
    int/float is a rational, float rounding is outside the model (DESIGN.md §0). *)
From Coq Require Import List QArith Bool.
Import ListNotations.
Local Open Scope Q_scope.

Section Dict.
  Variable K : Type.
  Variable keqb : K -> K -> bool.

  Definition dict := list (K * Q).

  Fixpoint lookup (k : K) (d : dict) : option Q :=
    match d with
    | [] => None
    | (k', v) :: d' => if keqb k k' then Some v else lookup k d'
    end.

  Definition mem (k : K) (d : dict) : bool :=
    match lookup k d with Some _ => true | None => false end.

  (** dict_operations.merge_dict: start from dict1; keys of dict2 present in dict1 get [+=] in place,
      the others are appended in dict2's order. *)
  Definition merge (d1 d2 : dict) : dict :=
    map (fun '(k, v) => match lookup k d2 with Some v2 => (k, v + v2) | None => (k, v) end) d1
    ++ filter (fun '(k, _) => negb (mem k d1)) d2.

  (** Python's [value != 0]. *)
  Definition nonzero (q : Q) : bool := negb (Qeq_bool q 0).

  (** dict_operations.prune_dict *)
  Definition prune (d : dict) : dict := filter (fun '(_, v) => nonzero v) d.

  (** [new[key] = value * c] for every item (the body of every [__rmul__]). *)
  Definition scale (c : Q) (d : dict) : dict := map (fun '(k, v) => (k, v * c)) d.

  (** [{key: value/2 ...}] (last line of symmetrize_dict) *)
  Definition halve (d : dict) : dict := map (fun '(k, v) => (k, v / 2)) d.

  Definition keys (d : dict) : list K := map fst d.

  (** Python dict equality: same key set, equal values (order-insensitive). *)
  Definition sub_eqb (d1 d2 : dict) : bool :=
    forallb (fun '(k, v) => match lookup k d2 with Some v2 => Qeq_bool v v2 | None => false end) d1.
  Definition dict_eqb (d1 d2 : dict) : bool :=
    Nat.eqb (length d1) (length d2) && sub_eqb d1 d2.
End Dict.

Arguments lookup {K}.
Arguments mem {K}.
Arguments merge {K}.
Arguments prune {K}.
Arguments scale {K}.
Arguments halve {K}.
Arguments keys {K}.
Arguments dict_eqb {K}.
Arguments sub_eqb {K}.

(** Keys of point dictionaries: leaf points, identified by a unique id. *)
Definition pdict := dict nat.

(** Keys of expression dictionaries: a leaf expression (function value), an ordered pair of leaf
    points (inner product), or the integer 1 (constant). *)
Inductive ekey : Type :=
| KF (e : nat)
| KG (i j : nat)
| K1.

Definition ekey_eqb (a b : ekey) : bool :=
  match a, b with
  | KF x, KF y => Nat.eqb x y
  | KG i j, KG i' j' => Nat.eqb i i' && Nat.eqb j j'
  | K1, K1 => true
  | _, _ => false
  end.

Definition edict := dict ekey.

Definition pmerge := merge Nat.eqb.
Definition emerge := merge ekey_eqb.

(** dict_operations.multiply_dicts on two point dictionaries: all ordered pairs, row-major.
    (With unique keys in both operands no product key repeats, so the [+=] branch is dead.) *)
Definition multiply (d1 d2 : pdict) : edict :=
  flat_map (fun '(k1, v1) => map (fun '(k2, v2) => (KG k1 k2, v1 * v2)) d2) d1.

Definition swap_key (k : ekey) : ekey :=
  match k with KG i j => KG j i | _ => k end.

(** dict_operations.symmetrize_dict *)
Definition symmetrize (d : edict) : edict :=
  halve (emerge d (map (fun '(k, v) => (swap_key k, v)) d)).
