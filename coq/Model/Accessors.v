(** Executable model of the accessors [eval] / [eval_dual] of PEPit's DSL objects and of the tail of
    [PEP._solve_with_wrapper] (property C16).

    An accessor returns a value or raises; only the CLASS of the outcome is modelled ([Value] of a
    number / a vector of some length / a matrix, or [Raise] of an exception class).  The control
    structure of each accessor -- which guard, which exception on the unsolved branch, which [except]
    matcher and which exception inside the handler -- is NOT fixed here: it is a parameter of type
    [acc_shape], instantiated in the proofs by the terms that translator/tr_handlers.py reads from the
    sources (Gen/Handlers.v).  Python's [try/except] matching is modelled by [run_try].
    No proofs in this file. *)
From Coq Require Import List String Bool PeanoNat.
Import ListNotations.
Open Scope string_scope.

Inductive exn : Type :=
| ValueError | TypeError | AssertionError | RuntimeError | KeyError | AttributeError
| Exception                       (* the base class: as a matcher it catches every class above *)
| OtherExn (name : string).

Definition exn_eqb (a b : exn) : bool :=
  match a, b with
  | ValueError, ValueError | TypeError, TypeError | AssertionError, AssertionError
  | RuntimeError, RuntimeError | KeyError, KeyError | AttributeError, AttributeError
  | Exception, Exception => true
  | OtherExn x, OtherExn y => String.eqb x y
  | _, _ => false
  end.

(** [isinstance(e, c)] for the built-in classes above (an [OtherExn] matches only itself and Exception) *)
Definition exn_isa (e c : exn) : bool :=
  exn_eqb e c || exn_eqb c Exception || (exn_eqb c (OtherExn "BaseException")).

Inductive matcher : Type :=
| MClass (c : exn)            (* except C:            *)
| MInstance (c : exn)         (* except C("..."):  the matcher evaluates to an instance *)
| MTuple (cs : list exn)      (* except (C1, C2):     *)
| MBare.                      (* except:              *)

(** branches of the fold over [decomposition_dict] (shape A) *)
Inductive branch : Type :=
| BAny                          (* points: value = np.zeros(Point.counter); value += weight * k.eval()   (in place) *)
| BSum (empty_is_null : bool)   (* points: value = 0; value = value + weight * k.eval()   (re-bound);
                                   empty_is_null: an empty sum is replaced by np.zeros(Point.counter) *)
| BLeafExpr (asserted : bool)   (* type(key) == Expression: [assert key.get_is_leaf()]; weight * key.eval() *)
| BInner (asserted : bool)      (* type(key) == tuple: [assert both leaves]; weight * np.dot(p1.eval(), p2.eval()) *)
| BConst                        (* key == 1: weight *)
| BElseRaise (e : exn).         (* else: raise e *)

Inductive acc_shape : Type :=
| ALeafOrFold (leaf_raise : exn) (branches : list branch)
    (* if self._value is None: if self._is_leaf: raise leaf_raise else: fold; cache.  return self._value *)
| ATryInner (m : matcher) (reraise : exn)
    (* if self._value is None: try: self._value = f(components' eval()) except m: raise reraise.  return self._value *)
| ADualField (unsolved_raise : exn).
    (* if self._dual_variable_value is None: raise unsolved_raise.  return self._dual_variable_value *)

Inductive val : Type :=
| VNum                  (* a float *)
| VVec (dim : nat)      (* a 1-D array of that length *)
| VMat.                 (* a 2-D array *)

Inductive result : Type :=
| Value (v : val)
| Raise (e : exn).

(** Python's try/except: the matcher expression is evaluated only when an exception propagates; a matcher
    that is not a class (or tuple of classes) makes the interpreter raise TypeError("catching classes that
    do not inherit from BaseException is not allowed"). *)
Definition run_try (body : result) (m : matcher) (reraise : exn) : result :=
  match body with
  | Value v => Value v
  | Raise e =>
      match m with
      | MClass c => if exn_isa e c then Raise reraise else Raise e
      | MTuple cs => if existsb (exn_isa e) cs then Raise reraise else Raise e
      | MBare => Raise reraise
      | MInstance _ => Raise TypeError
      end
  end.

(** ------------------------------------------------------------------ objects *)
(** A point: a leaf ([_value] = None or a vector) or a combination of other points (the keys of its
    decomposition_dict; the code accepts any Point as key, the API only produces leaves) with an optional
    cached value. *)
Inductive point : Type :=
| PLeaf (v : option nat)
| PLin (cache : option nat) (terms : list point).

(** a key of an expression's decomposition_dict *)
Inductive eterm (E : Type) : Type :=
| TExpr (e : E)               (* an Expression *)
| TInner (p q : point)        (* a pair of Points *)
| TConst                      (* 1 *)
| TBad.                       (* anything else *)
Arguments TExpr {E}. Arguments TInner {E}. Arguments TConst {E}. Arguments TBad {E}.

Inductive expr : Type :=
| ELeaf (valued : bool)
| ELin (cached : bool) (terms : list (eterm expr)).

Record constraint : Type := { c_cached : bool ; c_dual : bool ; c_expr : expr }.
Record psd : Type := { m_cached : bool ; m_dual : bool ; m_entries : list (list expr) }.

Definition p_is_leaf (p : point) : bool := match p with PLeaf _ => true | _ => false end.
Definition e_is_leaf (e : expr) : bool := match e with ELeaf _ => true | _ => false end.

(** numpy:  [value += weight * x]  on 1-D arrays: x must have the length of value, or length 1 *)
Definition vec_iadd (acc : nat) (x : nat) : result :=
  if Nat.eqb x acc || Nat.eqb x 1 then Value (VVec acc) else Raise ValueError.
(** numpy:  [value = value + weight * x]  on 1-D arrays (out of place: either side of length 1 is broadcast) *)
Definition vec_add (acc : nat) (x : nat) : result :=
  if Nat.eqb x acc then Value (VVec acc)
  else if Nat.eqb acc 1 then Value (VVec x)
  else if Nat.eqb x 1 then Value (VVec acc)
  else Raise ValueError.
(** numpy:  [np.dot(a, b)]  on 1-D arrays *)
Definition vec_dot (a b : nat) : result := if Nat.eqb a b then Value VNum else Raise ValueError.

(** how Point.eval accumulates: [None] = the Python scalar 0 the re-binding fold starts from *)
Inductive fold_mode : Type := InPlace | Rebind (empty_is_null : bool).

(** the loop of Point.eval over the keys, left to right, [ev] evaluating one key *)
Definition fold_points (ev : point -> result) (mode : fold_mode) (dim : nat) : option nat -> list point -> result :=
  fix go (acc : option nat) (ts : list point) {struct ts} : result :=
  match ts with
  | [] =>
      match acc with
      | Some a => Value (VVec a)
      | None => match mode with
                | Rebind false => Value VNum          (* the scalar 0 *)
                | _ => Value (VVec dim)               (* np.zeros(Point.counter) *)
                end
      end
  | t :: rest =>
      match ev t with
      | Raise e => Raise e
      | Value (VVec n) =>
          match (match acc, mode with
                 | None, _ => Value (VVec n)                          (* 0 + weight * x *)
                 | Some a, InPlace => vec_iadd a n
                 | Some a, Rebind _ => vec_add a n
                 end) with
          | Value (VVec a') => go (Some a') rest
          | Value _ => Raise TypeError
          | Raise e => Raise e
          end
      | Value _ => Raise TypeError
      end
  end.

Section Eval.
  (** the shapes (from Gen/Handlers.v) and [Point.counter] at the time of the call *)
  Variable sh_point sh_expr sh_cons sh_psd sh_cons_dual sh_psd_dual : acc_shape.
  Variable dim : nat.

  Definition leaf_raise_of (sh : acc_shape) : exn :=
    match sh with ALeafOrFold e _ => e | ATryInner _ e => e | ADualField e => e end.
  Definition branches_of (sh : acc_shape) : list branch :=
    match sh with ALeafOrFold _ b => b | _ => [] end.

  Definition point_mode : fold_mode :=
    match find (fun b => match b with BSum _ => true | _ => false end) (branches_of sh_point) with
    | Some (BSum b) => Rebind b
    | _ => InPlace
    end.
  (** in place: the accumulator is the preallocated np.zeros(Point.counter) from the start *)
  Definition point_init : option nat := match point_mode with InPlace => Some dim | Rebind _ => None end.

  (** Point.eval *)
  Fixpoint eval_point (p : point) : result :=
    match p with
    | PLeaf (Some n) => Value (VVec n)
    | PLeaf None => Raise (leaf_raise_of sh_point)
    | PLin (Some n) _ => Value (VVec n)
    | PLin None ts => fold_points eval_point point_mode dim point_init ts
    end.

  Definition find_branch (k : branch -> bool) : option branch := find k (branches_of sh_expr).
  Definition else_raise : exn :=
    match find (fun b => match b with BElseRaise _ => true | _ => false end) (branches_of sh_expr) with
    | Some (BElseRaise e) => e
    | _ => TypeError
    end.

  (** one key of an expression's dictionary, given the evaluation of sub-expressions *)
  Definition eval_term (ev : expr -> result) (t : eterm expr) : result :=
    match t with
    | TExpr e =>
        match find_branch (fun b => match b with BLeafExpr _ => true | _ => false end) with
        | Some (BLeafExpr asserted) =>
            if asserted && negb (e_is_leaf e) then Raise AssertionError
            else match ev e with Raise x => Raise x | Value _ => Value VNum end
        | _ => Raise else_raise
        end
    | TInner p q =>
        match find_branch (fun b => match b with BInner _ => true | _ => false end) with
        | Some (BInner asserted) =>
            if asserted && negb (p_is_leaf p) then Raise AssertionError
            else if asserted && negb (p_is_leaf q) then Raise AssertionError
            else match eval_point p with
                 | Raise x => Raise x
                 | Value (VVec a) =>
                     match eval_point q with
                     | Raise x => Raise x
                     | Value (VVec b) => vec_dot a b
                     | Value _ => Raise TypeError
                     end
                 | Value _ => Raise TypeError
                 end
        | _ => Raise else_raise
        end
    | TConst =>
        match find_branch (fun b => match b with BConst => true | _ => false end) with
        | Some _ => Value VNum
        | None => Raise else_raise
        end
    | TBad => Raise else_raise
    end.

  (** Expression.eval *)
  Fixpoint eval_expr (e : expr) : result :=
    match e with
    | ELeaf true => Value VNum
    | ELeaf false => Raise (leaf_raise_of sh_expr)
    | ELin true _ => Value VNum
    | ELin false ts =>
        (fix fold (ts : list (eterm expr)) : result :=
           match ts with
           | [] => Value VNum                          (* value = 0 *)
           | t :: rest =>
               match eval_term eval_expr t with
               | Raise x => Raise x
               | Value _ => fold rest
               end
           end) ts
    end.

  (** Constraint.eval / PSDMatrix.eval (shape B), eval_dual (shape C) *)
  Definition eval_constraint (c : constraint) : result :=
    if c_cached c then Value VNum
    else match sh_cons with
         | ATryInner m r => run_try (eval_expr (c_expr c)) m r
         | _ => Raise (OtherExn "shape")
         end.

  Fixpoint eval_row (row : list expr) : result :=
    match row with
    | [] => Value VMat
    | e :: rest => match eval_expr e with Raise x => Raise x | Value _ => eval_row rest end
    end.
  Fixpoint eval_rows (rows : list (list expr)) : result :=
    match rows with
    | [] => Value VMat
    | r :: rest => match eval_row r with Raise x => Raise x | Value _ => eval_rows rest end
    end.
  Definition eval_psd (m : psd) : result :=
    if m_cached m then Value VMat
    else match sh_psd with
         | ATryInner mt r => run_try (eval_rows (m_entries m)) mt r
         | _ => Raise (OtherExn "shape")
         end.

  Definition eval_dual_field (sh : acc_shape) (has_dual : bool) (v : val) : result :=
    match sh with
    | ADualField e => if has_dual then Value v else Raise e
    | _ => Raise (OtherExn "shape")
    end.
  Definition eval_dual_constraint (c : constraint) : result := eval_dual_field sh_cons_dual (c_dual c) VNum.
  Definition eval_dual_psd (m : psd) : result := eval_dual_field sh_psd_dual (m_dual m) VMat.
End Eval.

(** ------------------------------------------------------------------ "pending": an unsolved object *)
(** evaluation of the object reaches a leaf without value before any cache answers *)
Fixpoint pending_p (p : point) : bool :=
  match p with
  | PLeaf None => true
  | PLeaf (Some _) => false
  | PLin (Some _) _ => false
  | PLin None ts => (fix ex (ts : list point) : bool := match ts with [] => false | t :: r => pending_p t || ex r end) ts
  end.

Definition pending_term (t : eterm expr) : bool :=
  match t with
  | TExpr (ELeaf false) => true
  | TInner p q => pending_p p || pending_p q
  | _ => false
  end.
Definition pending_e (e : expr) : bool :=
  match e with
  | ELeaf v => negb v
  | ELin true _ => false
  | ELin false ts => existsb pending_term ts
  end.

(** what the API builds: the keys of an expression are leaf expressions, pairs of leaf points, or 1 *)
Definition wf_term (t : eterm expr) : bool :=
  match t with
  | TExpr e => e_is_leaf e
  | TInner p q => p_is_leaf p && p_is_leaf q
  | TConst => true
  | TBad => false
  end.
Definition wf_e (e : expr) : bool :=
  match e with ELeaf _ => true | ELin _ ts => forallb wf_term ts end.

(** objects that mention no leaf at all (x - x, Expression constants, the null objects) *)
Definition const_only (e : expr) : bool :=
  match e with
  | ELeaf _ => false
  | ELin _ ts => forallb (fun t => match t with TConst => true | _ => false end) ts
  end.

(** ------------------------------------------------------------------ the tail of _solve_with_wrapper *)
Inductive pstep : Type :=
| PSolve                (* solver_status, solver_name, wc_value = wrapper.solve(..) *)
| PPrint                (* if verbose: print(...) *)
| PGuardNone            (* if wc_value is None: [print]; return wc_value *)
| PAssignDuals          (* self.residual = wrapper.assign_dual_values()      -> constraints / LMIs get duals *)
| PGetPrimal            (* G_value, F_value = wrapper.get_primal_variables() *)
| PHeuristic            (* if dimension_reduction_heuristic: ... (may raise for an invalid string) *)
| PStoreGF              (* self.G_value = .. / self.F_value = .. *)
| PEvalPoints           (* self._eval_points_and_function_values(..)        -> leaves get values *)
| PCheckFeasibility     (* dual_objective = self.check_feasibility(..) *)
| PReturnChoice.        (* if return_primal_or_dual == "dual": return .. elif "primal": .. else: raise *)

Inductive assigned : Type := GotDuals | GotValues.

Record solve_outcome : Type := { returned : option (option unit) ; (* None: fell off / raised; Some None: returned None; Some (Some tt): a number *)
                                 writes : list assigned }.

(** runs the plan with the solver's answer [wc] ([None]: no finite optimum reported) *)
Fixpoint run_plan (plan : list pstep) (wc : option unit) : solve_outcome :=
  match plan with
  | [] => {| returned := None ; writes := [] |}
  | st :: rest =>
      match st with
      | PGuardNone =>
          match wc with
          | None => {| returned := Some None ; writes := [] |}
          | Some _ => run_plan rest wc
          end
      | PAssignDuals => let r := run_plan rest wc in {| returned := returned r ; writes := GotDuals :: writes r |}
      | PEvalPoints => let r := run_plan rest wc in {| returned := returned r ; writes := GotValues :: writes r |}
      | PReturnChoice => {| returned := Some wc ; writes := [] |}
      | _ => run_plan rest wc
      end
  end.

(** the guard comes right after the solver call, only prints in between *)
Fixpoint guard_first (plan : list pstep) : bool :=
  match plan with
  | PSolve :: rest =>
      (fix skip (l : list pstep) : bool :=
         match l with
         | PPrint :: l' => skip l'
         | PGuardNone :: _ => true
         | _ => false
         end) rest
  | _ => false
  end.

(** option strings *)
Record option_check : Type := { accepted : list string ; prefixes : list string ; rejected_with : exn ;
                                checked_before_solve : bool }.
Definition check_option (c : option_check) (v : string) : result :=
  if existsb (String.eqb v) (accepted c) || existsb (fun p => String.prefix p v) (prefixes c)
  then Value VNum else Raise (rejected_with c).
