(** Real inner-product spaces, abstractly.

    Only the laws that the Gram reading of PEPit's objects can observe are required: bilinearity,
    symmetry and positivity of [inner].  Points are only ever observed through inner products, so
    "equality" of vectors is [veq] (indistinguishable by every inner product).  No vector-space
    equation with Leibniz equality is assumed, which lets [nat -> R] truncated at any dimension [n]
    be an instance without functional extensionality (see [Rn] below). *)
From Coq Require Import Reals Lra List.
Import ListNotations.
Local Open Scope R_scope.

Record ips : Type := {
  V :> Type;
  vzero : V;
  vadd : V -> V -> V;
  vscal : R -> V -> V;
  inner : V -> V -> R;
  inner_sym : forall u v, inner u v = inner v u;
  inner_add_l : forall u v w, inner (vadd u v) w = inner u w + inner v w;
  inner_scal_l : forall a u w, inner (vscal a u) w = a * inner u w;
  inner_zero_l : forall w, inner vzero w = 0;
  inner_pos : forall u, 0 <= inner u u
}.

Arguments vzero {_}.
Arguments vadd {_}.
Arguments vscal {_}.
Arguments inner {_}.

Section Laws.
  Context {E : ips}.
  Implicit Types u v w : E.

  Definition vneg u : E := vscal (-1) u.
  Definition vsub u v : E := vadd u (vneg v).
  Definition nrm2 u : R := inner u u.
  Definition veq u v : Prop := forall w, inner u w = inner v w.

  Lemma inner_add_r u v w : inner w (vadd u v) = inner w u + inner w v.
  Proof. rewrite (inner_sym E w), inner_add_l, !(inner_sym E w). reflexivity. Qed.
  Lemma inner_scal_r a u w : inner w (vscal a u) = a * inner w u.
  Proof. rewrite (inner_sym E w), inner_scal_l, (inner_sym E w). reflexivity. Qed.
  Lemma inner_zero_r w : inner w vzero = 0.
  Proof. rewrite (inner_sym E w). apply inner_zero_l. Qed.
  Lemma inner_neg_l u w : inner (vneg u) w = - inner u w.
  Proof. unfold vneg. rewrite inner_scal_l. lra. Qed.
  Lemma inner_neg_r u w : inner w (vneg u) = - inner w u.
  Proof. unfold vneg. rewrite inner_scal_r. lra. Qed.
  Lemma inner_sub_l u v w : inner (vsub u v) w = inner u w - inner v w.
  Proof. unfold vsub. rewrite inner_add_l, inner_neg_l. lra. Qed.
  Lemma inner_sub_r u v w : inner w (vsub u v) = inner w u - inner w v.
  Proof. unfold vsub. rewrite inner_add_r, inner_neg_r. lra. Qed.

  Lemma veq_refl u : veq u u. Proof. intro; reflexivity. Qed.
  Lemma veq_sym u v : veq u v -> veq v u. Proof. intros H w; symmetry; apply H. Qed.
  Lemma veq_trans u v w : veq u v -> veq v w -> veq u w.
  Proof. intros H1 H2 z; rewrite H1; apply H2. Qed.
  Lemma veq_inner_l u v w : veq u v -> inner u w = inner v w. Proof. intro H; apply H. Qed.
  Lemma veq_inner_r u v w : veq u v -> inner w u = inner w v.
  Proof. intro H; rewrite !(inner_sym E w); apply H. Qed.
  Lemma veq_inner u u' v v' : veq u u' -> veq v v' -> inner u v = inner u' v'.
  Proof. intros H1 H2. rewrite (veq_inner_l _ _ _ H1). apply veq_inner_r, H2. Qed.
  Lemma veq_add u u' v v' : veq u u' -> veq v v' -> veq (vadd u v) (vadd u' v').
  Proof. intros H1 H2 w. rewrite !inner_add_l, H1, H2. reflexivity. Qed.
  Lemma veq_scal a u u' : veq u u' -> veq (vscal a u) (vscal a u').
  Proof. intros H w. rewrite !inner_scal_l, H. reflexivity. Qed.
  Lemma veq_neg u u' : veq u u' -> veq (vneg u) (vneg u').
  Proof. apply veq_scal. Qed.
  Lemma veq_sub u u' v v' : veq u u' -> veq v v' -> veq (vsub u v) (vsub u' v').
  Proof. intros; apply veq_add; [|apply veq_neg]; assumption. Qed.

  (** Cauchy-Schwarz, from positivity alone (no definiteness needed). *)
  Lemma cauchy_schwarz u v : inner u v * inner u v <= inner u u * inner v v.
  Proof.
    pose proof (inner_pos E u) as Hu. pose proof (inner_pos E v) as Hv.
    destruct (Req_dec (inner v v) 0) as [Hz|Hnz].
    - (* <v,v> = 0 : use t = <u,v> * s with s large; simpler: both signs of a linear form *)
      assert (H : forall t, 0 <= inner u u + 2 * t * inner u v).
      { intro t. pose proof (inner_pos E (vadd u (vscal t v))) as P.
        rewrite inner_add_l, !inner_add_r, inner_scal_l, !inner_scal_r, inner_scal_l in P.
        rewrite (inner_sym E v u), Hz in P. lra. }
      destruct (Req_dec (inner u v) 0) as [Huv|Huv]; [rewrite Huv, Hz; lra|].
      exfalso. pose proof (H (- (inner u u + 1) / (2 * inner u v))) as P.
      replace (2 * (- (inner u u + 1) / (2 * inner u v)) * inner u v) with (- (inner u u + 1)) in P
        by (field; exact Huv). lra.
    - assert (Hvpos : 0 < inner v v) by lra.
      pose proof (inner_pos E (vadd u (vscal (- inner u v / inner v v) v))) as P.
      rewrite inner_add_l, !inner_add_r, inner_scal_l, !inner_scal_r, inner_scal_l in P.
      rewrite (inner_sym E v u) in P.
      assert (Q : 0 <= (inner u u * inner v v - inner u v * inner u v) / inner v v).
      { replace ((inner u u * inner v v - inner u v * inner u v) / inner v v)
          with (inner u u + - inner u v / inner v v * inner u v +
                (- inner u v / inner v v * inner u v +
                 - inner u v / inner v v * (- inner u v / inner v v * inner v v)))
          by (field; exact Hnz). exact P. }
      apply Rmult_le_compat_r with (r := inner v v) in Q; [|lra].
      unfold Rdiv in Q. rewrite Rmult_assoc, Rinv_l, Rmult_1_r in Q by exact Hnz. lra.
  Qed.
End Laws.

(** Finite linear combinations. *)
Section Comb.
  Context {E : ips}.
  Fixpoint lincomb (l : list (R * E)) : E :=
    match l with
    | [] => vzero
    | (a, u) :: l' => vadd (vscal a u) (lincomb l')
    end.
  Lemma inner_lincomb_l l w :
    inner (lincomb l) w = fold_right (fun '(a, u) acc => a * inner u w + acc) 0 l.
  Proof.
    induction l as [|[a u] l IH]; cbn [lincomb fold_right].
    - apply inner_zero_l.
    - rewrite inner_add_l, inner_scal_l, IH. reflexivity.
  Qed.
End Comb.

(** Instance 1: the real line. *)
Definition R1 : ips.
Proof.
  refine {| V := R; vzero := 0; vadd := Rplus; vscal := Rmult; inner := Rmult |}; intros; try lra.
  nra.
Defined.

(** Instance 2: R^n as functions [nat -> R] observed on coordinates [< n].  No functional
    extensionality is needed since no Leibniz equation between vectors is part of [ips]. *)
Section Rn.
  Variable n : nat.
  Fixpoint dotn (k : nat) (u v : nat -> R) : R :=
    match k with O => 0 | S k' => dotn k' u v + u k' * v k' end.
  Lemma dotn_sym k u v : dotn k u v = dotn k v u.
  Proof. induction k; cbn; [reflexivity|rewrite IHk; lra]. Qed.
  Lemma dotn_add k u v w : dotn k (fun i => u i + v i) w = dotn k u w + dotn k v w.
  Proof. induction k; cbn; [lra|rewrite IHk; lra]. Qed.
  Lemma dotn_scal k a u w : dotn k (fun i => a * u i) w = a * dotn k u w.
  Proof. induction k; cbn; [lra|rewrite IHk; lra]. Qed.
  Lemma dotn_zero k w : dotn k (fun _ => 0) w = 0.
  Proof. induction k; cbn; [lra|rewrite IHk; lra]. Qed.
  Lemma dotn_pos k u : 0 <= dotn k u u.
  Proof. induction k; cbn; [lra|nra]. Qed.
  Definition Rn : ips :=
    {| V := nat -> R; vzero := fun _ => 0; vadd := fun u v i => u i + v i;
       vscal := fun a u i => a * u i; inner := dotn n;
       inner_sym := dotn_sym n; inner_add_l := dotn_add n; inner_scal_l := dotn_scal n;
       inner_zero_l := dotn_zero n; inner_pos := dotn_pos n |}.
End Rn.
