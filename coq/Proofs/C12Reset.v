(** C12 — lemmas: the reset is total (over the generated lists), history cannot leak through the
    class-level state (for all states and all programs), what leaks through the un-reset null point. *)
From Coq Require Import List String ZArith Bool Lia.
From PV Require Import Model.Reset Gen.Globals Gen.Guards.
Import ListNotations.
Open Scope string_scope.

(** ------------------------------------------------------------------ keys *)
Lemma key_eqb_spec : forall a b : key, reflect (a = b) (key_eqb a b).
Proof.
  intros [a1 a2] [b1 b2]. unfold key_eqb. cbn [fst snd].
  destruct (String.eqb_spec a1 b1) as [H1|H1]; destruct (String.eqb_spec a2 b2) as [H2|H2]; cbn;
    constructor; congruence.
Qed.

Lemma key_eqb_refl : forall k, key_eqb k k = true.
Proof. intro k. destruct (key_eqb_spec k k); congruence. Qed.

Lemma mem_key_In : forall k l, mem_key k l = true <-> In k l.
Proof.
  intros k l. unfold mem_key. rewrite existsb_exists. split.
  - intros [x [Hx He]]. destruct (key_eqb_spec k x); [subst; assumption|discriminate].
  - intros H. exists k. split; [assumption|apply key_eqb_refl].
Qed.

Lemma set_same : forall k v g, set k v g k = v.
Proof. intros. unfold set. now rewrite key_eqb_refl. Qed.
Lemma set_other : forall k k' v g, k' <> k -> set k v g k' = g k'.
Proof. intros k k' v g H. unfold set. destruct (key_eqb_spec k' k); congruence. Qed.

(** ------------------------------------------------------------------ agreement on a set of keys *)
Definition agree (P : key -> Prop) (g g' : gmap) : Prop := forall k, P k -> g k = g' k.

Lemma agree_set_new : forall P k v g g',
    agree P g g' -> agree (fun x => P x \/ x = k) (set k v g) (set k v g').
Proof.
  intros P k v g g' H x Hx. unfold set. destruct (key_eqb_spec x k) as [E|E]; [reflexivity|].
  destruct Hx as [Hx|Hx]; [apply H; assumption|contradiction].
Qed.

Lemma agree_weaken : forall (P Q : key -> Prop) g g', (forall k, Q k -> P k) -> agree P g g' -> agree Q g g'.
Proof. intros P Q g g' HQ H k Hk. apply H, HQ, Hk. Qed.

(** writing a value computed from agreed keys keeps the agreement *)
Lemma agree_set : forall (P : key -> Prop) k v v' g g',
    agree P g g' -> (P k -> v = v') -> agree P (set k v g) (set k v' g').
Proof.
  intros P k v v' g g' H Hv x Hx. unfold set. destruct (key_eqb_spec x k) as [E|E].
  - subst. auto.
  - auto.
Qed.

(** after the reset, two arbitrary states agree on every key the reset assigns *)
Lemma reset_agree : forall fields P g g',
    agree P g g' ->
    agree (fun k => P k \/ In k (map fst fields)) (reset_with fields g) (reset_with fields g').
Proof.
  unfold reset_with. induction fields as [|[k i] fs IH]; intros P g g' H.
  - cbn. intros k [Hk|[]]. apply H, Hk.
  - cbn [fold_left fst snd map].
    specialize (IH (fun x => P x \/ x = k) _ _ (agree_set_new P k (val_of_init i) g g' H)).
    eapply agree_weaken; [|exact IH]. cbn. intros x [Hx|[Hx|Hx]]; auto.
Qed.

Lemma reset_forgets : forall fields g g',
    agree (fun k => In k (map fst fields)) (reset_with fields g) (reset_with fields g').
Proof.
  intros fields g g'. eapply agree_weaken; [|apply (reset_agree fields (fun _ => False) g g')].
  - intros k Hk. right. exact Hk.
  - intros k [].
Qed.

(** a key not assigned by the reset keeps its value *)
Lemma reset_frame : forall fields g k, ~ In k (map fst fields) -> reset_with fields g k = g k.
Proof.
  unfold reset_with. induction fields as [|[k0 i] fs IH]; intros g k H; [reflexivity|].
  cbn [fold_left fst snd]. rewrite IH.
  - apply set_other. intro E. apply H. left. cbn. congruence.
  - intro Hin. apply H. right. exact Hin.
Qed.

(** the value of a key assigned exactly once is the value written there, whatever the state *)
Lemma reset_value : forall fields g k i,
    In (k, i) fields -> nodup_keys (map fst fields) = true -> reset_with fields g k = val_of_init i.
Proof.
  unfold reset_with. induction fields as [|[k0 i0] fs IH]; intros g k i Hin Hnd; [destruct Hin|].
  cbn [map fst nodup_keys] in Hnd. apply andb_true_iff in Hnd. destruct Hnd as [Hnot Hnd].
  cbn [fold_left fst snd]. destruct Hin as [E|Hin].
  - inversion E; subst. fold (reset_with fs (set k (val_of_init i) g)).
    rewrite reset_frame; [apply set_same|].
    intro Hk. apply mem_key_In in Hk. rewrite Hk in Hnot. discriminate.
  - apply IH; assumption.
Qed.

(** ------------------------------------------------------------------ frame lemma per operation *)
Section Frame.
  Variable fields : list (key * ginit).
  Let K : key -> Prop := fun k => In k (map fst fields).
  Hypothesis Hcov : covers (map fst fields) model_keys = true.

  Lemma K_model : forall k, In k model_keys -> K k.
  Proof.
    intros k Hk. unfold covers in Hcov. rewrite forallb_forall in Hcov.
    apply mem_key_In. apply Hcov. exact Hk.
  Qed.

  Ltac kin := apply K_model; cbn; tauto.

  Lemma getN_agree : forall g g' k, agree K g g' -> K k -> getN g k = getN g' k.
  Proof. intros g g' k H Hk. unfold getN. now rewrite (H k Hk). Qed.
  Lemma getL_agree : forall g g' k, agree K g g' -> K k -> getL g k = getL g' k.
  Proof. intros g g' k H Hk. unfold getL. now rewrite (H k Hk). Qed.

  Lemma fresh_agree : forall c g g', K c -> agree K g g' ->
      fst (fresh c g) = fst (fresh c g') /\ agree K (snd (fresh c g)) (snd (fresh c g')).
  Proof.
    intros c g g' Hc H. unfold fresh. cbn [fst snd]. split.
    - apply getN_agree; assumption.
    - apply agree_set; [assumption|]. intros _. now rewrite (getN_agree g g' c H Hc).
  Qed.

  Lemma push_agree : forall r x x' g g', K r -> x = x' -> agree K g g' -> agree K (push r x g) (push r x' g').
  Proof.
    intros r x x' g g' Hr Hx H. unfold push. apply agree_set; [assumption|]. intros _.
    now rewrite (getL_agree g g' r H Hr), Hx.
  Qed.

  (** equal outputs, agreement preserved; [EvalNull] additionally needs equal caches *)
  Lemma step_agree : forall o s s',
      agree K (glob s) (glob s') ->
      (o = EvalNull -> null_dim s = null_dim s') ->
      fst (step fields o s) = fst (step fields o s') /\
      agree K (glob (snd (step fields o s))) (glob (snd (step fields o s'))).
  Proof.
    intros o s s' H Hnull.
    assert (HPC : K kPointC) by kin. assert (HPL : K kPointL) by kin.
    assert (HEC : K kExprC) by kin. assert (HEL : K kExprL) by kin.
    assert (HFC : K kFunC) by kin. assert (HFL : K kFunL) by kin.
    assert (HCC : K kConsC) by kin. assert (HMC : K kPsdC) by kin.
    assert (HBC : K kPartC) by kin. assert (HBL : K kPartL) by kin.
    assert (HQC : K kPepC) by kin.
    destruct o as [| | |leaf| | | | | |]; cbn [step].
    - (* NewPEP *)
      assert (Hr : agree K (reset_with fields (glob s)) (reset_with fields (glob s'))) by apply reset_forgets.
      destruct (fresh_agree kPepC _ _ HQC Hr) as [A B].
      destruct (fresh kPepC (reset_with fields (glob s))) as [i g1].
      destruct (fresh kPepC (reset_with fields (glob s'))) as [i' g1']. cbn [fst snd glob] in *.
      split; [now rewrite A|exact B].
    - (* NewPoint *)
      destruct (fresh_agree kPointC _ _ HPC H) as [A B].
      destruct (fresh kPointC (glob s)) as [i g1]. destruct (fresh kPointC (glob s')) as [i' g1'].
      cbn [fst snd glob] in *. subst i'. split; [reflexivity|]. apply push_agree; auto.
    - (* NewExpression *)
      destruct (fresh_agree kExprC _ _ HEC H) as [A B].
      destruct (fresh kExprC (glob s)) as [i g1]. destruct (fresh kExprC (glob s')) as [i' g1'].
      cbn [fst snd glob] in *. subst i'. split; [reflexivity|]. apply push_agree; auto.
    - (* NewFunction *)
      destruct leaf.
      + assert (P1 : agree K (push kFunL (Some (getN (glob s) kFunC)) (glob s))
                             (push kFunL (Some (getN (glob s') kFunC)) (glob s'))).
        { apply push_agree; auto. now rewrite (getN_agree _ _ kFunC H HFC). }
        destruct (fresh_agree kFunC _ _ HFC P1) as [A B].
        destruct (fresh kFunC (push kFunL (Some (getN (glob s) kFunC)) (glob s))) as [i g1].
        destruct (fresh kFunC (push kFunL (Some (getN (glob s') kFunC)) (glob s'))) as [i' g1'].
        cbn [fst snd glob] in *. split; [now rewrite A|exact B].
      + cbn [fst snd glob]. split; [reflexivity|]. apply push_agree; auto.
    - (* NewLinearOperator *)
      assert (P1 : agree K (push kFunL (Some (getN (glob s) kFunC)) (glob s))
                           (push kFunL (Some (getN (glob s') kFunC)) (glob s'))).
      { apply push_agree; auto. now rewrite (getN_agree _ _ kFunC H HFC). }
      destruct (fresh_agree kFunC _ _ HFC P1) as [A B].
      destruct (fresh kFunC (push kFunL (Some (getN (glob s) kFunC)) (glob s))) as [i g1].
      destruct (fresh kFunC (push kFunL (Some (getN (glob s') kFunC)) (glob s'))) as [i' g1'].
      cbn [fst snd] in A, B.
      assert (P2 : agree K (push kFunL None g1) (push kFunL None g1')) by (apply push_agree; auto).
      destruct (fresh_agree kFunC _ _ HFC P2) as [A2 B2].
      destruct (fresh kFunC (push kFunL None g1)) as [j g2].
      destruct (fresh kFunC (push kFunL None g1')) as [j' g2'].
      cbn [fst snd glob] in *. split; [now rewrite A|].
      apply agree_set; [exact B2|]. intros _. now rewrite (getN_agree _ _ kFunC B2 HFC).
    - (* NewConstraint *)
      destruct (fresh_agree kConsC _ _ HCC H) as [A B].
      destruct (fresh kConsC (glob s)) as [i g1]. destruct (fresh kConsC (glob s')) as [i' g1'].
      cbn [fst snd glob] in *. split; [now rewrite A|exact B].
    - (* NewPSD *)
      destruct (fresh_agree kPsdC _ _ HMC H) as [A B].
      destruct (fresh kPsdC (glob s)) as [i g1]. destruct (fresh kPsdC (glob s')) as [i' g1'].
      cbn [fst snd glob] in *. split; [now rewrite A|exact B].
    - (* NewPartition *)
      destruct (fresh_agree kPartC _ _ HBC H) as [A B].
      destruct (fresh kPartC (glob s)) as [i g1]. destruct (fresh kPartC (glob s')) as [i' g1'].
      cbn [fst snd glob] in *. subst i'. split; [reflexivity|]. apply push_agree; auto.
    - (* ReadGlobals *)
      cbn [fst snd]. split; [|exact H]. f_equal. apply map_ext_in. intros k Hk. apply H. apply K_model, Hk.
    - (* EvalNull *)
      cbn [fst snd glob]. rewrite (Hnull eq_refl). rewrite (getN_agree _ _ kPointC H HPC). split; [reflexivity|exact H].
  Qed.

  (** a program without null_point.eval(): outputs and class-level state depend on the start state only
      through the agreed keys *)
  Lemma run_agree : forall prog s s',
      no_null_eval prog = true -> agree K (glob s) (glob s') ->
      fst (run fields prog s) = fst (run fields prog s') /\
      agree K (glob (snd (run fields prog s))) (glob (snd (run fields prog s'))).
  Proof.
    induction prog as [|o rest IH]; intros s s' Hn H.
    - cbn. split; [reflexivity|exact H].
    - cbn [no_null_eval forallb] in Hn. apply andb_true_iff in Hn. destruct Hn as [Ho Hn].
      assert (Hne : o = EvalNull -> null_dim s = null_dim s') by (intro E; subst o; discriminate).
      destruct (step_agree o s s' H Hne) as [A B].
      cbn [run]. destruct (step fields o s) as [x s1]. destruct (step fields o s') as [x' s1'].
      cbn [fst snd] in A, B. specialize (IH s1 s1' Hn B).
      destruct (run fields rest s1) as [xs s2]. destruct (run fields rest s1') as [xs' s2'].
      cbn [fst snd] in *. destruct IH as [IH1 IH2]. split; [now rewrite A, IH1|exact IH2].
  Qed.

  (** NON-INTERFERENCE: whatever happened before (two arbitrary states), a program that starts by
      creating a PEP hands out the same indices, reads the same globals and leaves the same registries *)
  Lemma noninterference : forall prog s s',
      no_null_eval prog = true ->
      fst (run fields (NewPEP :: prog) s) = fst (run fields (NewPEP :: prog) s') /\
      (forall k, In k model_keys ->
                 glob (snd (run fields (NewPEP :: prog) s)) k = glob (snd (run fields (NewPEP :: prog) s')) k).
  Proof.
    intros prog s s' Hn.
    assert (Hr : agree K (reset_with fields (glob s)) (reset_with fields (glob s'))) by apply reset_forgets.
    assert (HQC : K kPepC) by kin.
    destruct (fresh_agree kPepC _ _ HQC Hr) as [A B].
    cbn [run step].
    destruct (fresh kPepC (reset_with fields (glob s))) as [i g1].
    destruct (fresh kPepC (reset_with fields (glob s'))) as [i' g1']. cbn [fst snd] in A, B.
    pose (t := {| glob := g1 ; null_dim := null_dim s |}). pose (t' := {| glob := g1' ; null_dim := null_dim s' |}).
    destruct (run_agree prog t t' Hn B) as [C D]. fold t t'.
    destruct (run fields prog t) as [xs s2]. destruct (run fields prog t') as [xs' s2'].
    cbn [fst snd] in *. split; [now rewrite A, C|]. intros k Hk. apply D, K_model, Hk.
  Qed.
  (** with null_point.eval() allowed: its own output may depend on history (F-C12a), nothing else does --
      the cached value never flows into the class-level state, hence not into any index or registry *)
  Definition mask (x : out) : out := match x with ODim _ => ODim 0 | y => y end.

  Lemma step_agree_masked : forall o s s',
      agree K (glob s) (glob s') ->
      mask (fst (step fields o s)) = mask (fst (step fields o s')) /\
      agree K (glob (snd (step fields o s))) (glob (snd (step fields o s'))).
  Proof.
    intros o s s' H. destruct o;
      try (assert (Hn : forall A B : Prop, (A -> B) -> (A -> B)) by auto;
           match goal with
           | |- context [step fields ?op _] =>
               destruct (step_agree op s s' H) as [A B]; [intro E; discriminate E|]; rewrite A; split; [reflexivity|exact B]
           end).
    cbn [step fst snd glob mask]. split; [reflexivity|exact H].
  Qed.

  Lemma run_agree_masked : forall prog s s',
      agree K (glob s) (glob s') ->
      map mask (fst (run fields prog s)) = map mask (fst (run fields prog s')) /\
      agree K (glob (snd (run fields prog s))) (glob (snd (run fields prog s'))).
  Proof.
    induction prog as [|o rest IH]; intros s s' H.
    - cbn. split; [reflexivity|exact H].
    - destruct (step_agree_masked o s s' H) as [A B].
      cbn [run]. destruct (step fields o s) as [x s1]. destruct (step fields o s') as [x' s1'].
      cbn [fst snd] in A, B. specialize (IH s1 s1' B).
      destruct (run fields rest s1) as [xs s2]. destruct (run fields rest s1') as [xs' s2'].
      cbn [fst snd map] in *. destruct IH as [IH1 IH2]. split; [now rewrite A, IH1|exact IH2].
  Qed.

  Lemma noninterference_masked : forall prog s s',
      map mask (fst (run fields (NewPEP :: prog) s)) = map mask (fst (run fields (NewPEP :: prog) s')) /\
      (forall k, In k model_keys ->
                 glob (snd (run fields (NewPEP :: prog) s)) k = glob (snd (run fields (NewPEP :: prog) s')) k).
  Proof.
    intros prog s s'.
    assert (Hr : agree K (reset_with fields (glob s)) (reset_with fields (glob s'))) by apply reset_forgets.
    assert (HQC : K kPepC) by kin.
    destruct (fresh_agree kPepC _ _ HQC Hr) as [A B].
    cbn [run step].
    destruct (fresh kPepC (reset_with fields (glob s))) as [i g1].
    destruct (fresh kPepC (reset_with fields (glob s'))) as [i' g1']. cbn [fst snd] in A, B.
    pose (t := {| glob := g1 ; null_dim := null_dim s |}). pose (t' := {| glob := g1' ; null_dim := null_dim s' |}).
    destruct (run_agree_masked prog t t' B) as [C D]. fold t t'.
    destruct (run fields prog t) as [xs s2]. destruct (run fields prog t') as [xs' s2'].
    cbn [fst snd map mask] in *. split; [now rewrite A, C|]. intros k Hk. apply D, K_model, Hk.
  Qed.
End Frame.

(** ------------------------------------------------------------------ the generated lists *)
Definition gen_fields : list (key * ginit) := fields_of reset_fields.
Definition gen_attrs : list (key * ginit) := fields_of class_attrs.

Lemma gen_covers : covers (map fst gen_fields) model_keys = true.
Proof. vm_compute. reflexivity. Qed.

(** every counter / registry declared in a class body is assigned by _reset_classes, to its class-body value *)
Lemma gen_reset_to_initial : reset_to_initial reset_fields class_attrs = true.
Proof. vm_compute. reflexivity. Qed.
(** every class attribute written anywhere in PEPit (declared in a class body or not) is assigned by _reset_classes *)
Lemma gen_mutated_are_reset : mutated_are_reset reset_fields mutations = true.
Proof. vm_compute. reflexivity. Qed.
Lemma gen_reset_nodup : nodup_keys (keys3 reset_fields) = true.
Proof. vm_compute. reflexivity. Qed.
Lemma gen_no_opaque : opaque_writes = [] /\ container_writes = [] /\ init_resets_first = true /\ statements_before_reset = [].
Proof. repeat split. Qed.
(** model <-> sources: the model touches exactly the attributes that PEPit's code writes *)
Lemma gen_model_keys_exact :
  covers model_keys (keys3 mutations) = true /\ covers (keys3 mutations) model_keys = true
  /\ covers (keys3 class_attrs) model_keys = true.
Proof. repeat split; vm_compute; reflexivity. Qed.
(** the only process-global DSL state outside the classes: the two null objects *)
(** the null objects are only ever read to START an accumulation or as an operand of + / -: none is handed out *)
Definition use_ok (u : string * string * string * string) : bool :=
  let k := snd u in String.eqb k "accumulator" || String.eqb k "operand".
Lemma gen_null_objects_do_not_escape : forallb use_ok module_object_uses = true.
Proof. vm_compute. reflexivity. Qed.

Lemma gen_residual : map (fun t => snd (fst t)) module_objects = ["null_expression"; "null_point"]
                     /\ module_object_writes = [].
Proof. split; reflexivity. Qed.

Lemma triple_eqb_eq : forall a b, triple_eqb a b = true -> a = b.
Proof.
  intros [[c a] i] [[c' a'] i'] H. unfold triple_eqb in H. apply andb_true_iff in H. destruct H as [Hk Hi].
  cbn [fst snd] in *. destruct (key_eqb_spec (c, a) (c', a')) as [E|E]; [|discriminate]. inversion E; subst.
  f_equal. destruct i, i'; cbn in Hi; try discriminate; try reflexivity.
  - apply Z.eqb_eq in Hi. now subst.
  - apply String.eqb_eq in Hi. now subst.
Qed.

Lemma reset_total_forall :
  forall c a i, In (c, a, i) class_attrs -> is_mutable i = true -> In (c, a, i) reset_fields.
Proof.
  intros c a i Hin Hm. pose proof gen_reset_to_initial as H. unfold reset_to_initial in H.
  rewrite forallb_forall in H. specialize (H _ Hin). cbn [snd] in H. rewrite Hm in H. cbn [negb orb] in H.
  apply existsb_exists in H. destruct H as [x [Hx He]]. apply triple_eqb_eq in He. now subst.
Qed.

Lemma mutated_forall :
  forall c a o, In (c, a, o) mutations -> exists i, In (c, a, i) reset_fields.
Proof.
  intros c a o Hin. pose proof gen_mutated_are_reset as H. unfold mutated_are_reset in H.
  rewrite forallb_forall in H. specialize (H _ Hin). cbn [fst] in H. apply mem_key_In in H.
  unfold keys3 in H. apply in_map_iff in H. destruct H as [[[c' a'] i] [E Hi]]. cbn in E. inversion E; subst.
  exists i. exact Hi.
Qed.

(** after PEP() every declared counter / registry holds its class-body value, whatever the state before *)
Lemma reset_restores_initial :
  forall g c a i, In (c, a, i) class_attrs -> is_mutable i = true ->
                  reset_with gen_fields g (c, a) = val_of_init i.
Proof.
  intros g c a i Hin Hm. apply reset_value with (i := i).
  - unfold gen_fields, fields_of. apply in_map_iff. exists (c, a, i). split; [reflexivity|].
    apply reset_total_forall; assumption.
  - replace (map fst gen_fields) with (keys3 reset_fields); [exact gen_reset_nodup|].
    unfold gen_fields, fields_of, keys3. rewrite map_map. reflexivity.
Qed.

(** ------------------------------------------------------------------ the leak through null_point *)
Definition fresh_interpreter : pstate := init_state gen_attrs.
Definition leak_history : list op := [NewPEP; NewPoint; NewPoint; NewPoint; EvalNull].
Definition leak_program : list op := [NewPEP; NewPoint; EvalNull].

Lemma null_leak :
  fst (run gen_fields leak_program fresh_interpreter)
  <> fst (run gen_fields leak_program (snd (run gen_fields leak_history fresh_interpreter))).
Proof. vm_compute. discriminate. Qed.

(** ------------------------------------------------------------------ verbosity *)
Lemma gen_verbose_uses_ok : forallb (fun u => vuse_ok (snd u)) verbose_uses = true.
Proof. vm_compute. reflexivity. Qed.

Lemma vexec_sent_indep : forall p, vclean p = true -> forall v v', sent (vexec v p) = sent (vexec v' p).
Proof.
  induction p as [|st rest IH]; intros Hc v v'; [reflexivity|].
  cbn [vclean forallb] in Hc. apply andb_true_iff in Hc. destruct Hc as [Hs Hc].
  specialize (IH Hc v v'). destruct st; cbn [vexec sent]; try discriminate; now rewrite ?IH.
Qed.
