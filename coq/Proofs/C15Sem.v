(** C15 — meaning of block decompositions and of the generated constraints in an arbitrary real
    inner-product space: sum-back, the constraints are exactly the cross-block orthogonality
    relations, any family of orthogonal "projections" summing to the identity satisfies the model,
    and two objects with the same value are forced to have equal blocks. *)
From Coq Require Import List QArith Reals Qreals Lra Bool Arith Lia.
From PV Require Import Base.IPS Model.Dict Model.Terms Model.Blocks Spec.Sem
                       Proofs.DictLemmas Proofs.SemLemmas Proofs.C15Model.
Import ListNotations.
Local Open Scope R_scope.

(** * Exact shape of one generated constraint *)

Lemma keys_multiply_KG a b key :
  In key (keys (multiply a b)) -> exists x y, key = KG x y /\ In x (keys a) /\ In y (keys b).
Proof.
  unfold multiply, keys. intros H. apply in_map_iff in H as [[k v] [Hk H]]. cbn in Hk; subst k.
  apply in_flat_map in H as [[k1 v1] [H1 H]]. apply in_map_iff in H as [[k2 v2] [Heq H2]].
  injection Heq as <- _. exists k1, k2. split; [reflexivity|]. split; apply in_map_iff.
  - exists (k1, v1); auto.
  - exists (k2, v2); auto.
Qed.

Lemma x_subs_0 (M : edict) : ~ In K1 (keys M) -> x_subs M 0 = prune M.
Proof.
  intros H. unfold x_subs, x_adds, emerge, merge.
  assert (Hm : mem ekey_eqb K1 M = false) by (apply (mem_false ekey ekey_eqb ekey_eqb_spec); exact H).
  cbn [filter]. rewrite Hm. cbn [negb].
  assert (Hmap : map (fun '(k, v) => match lookup ekey_eqb k [(K1, (- 0)%Q)] with
                                     | Some v2 => (k, (v + v2)%Q) | None => (k, v) end) M = M).
  { clear Hm. induction M as [|[k v] M IH]; cbn [map]; [reflexivity|].
    rewrite IH by (intros Hin; apply H; right; exact Hin). f_equal.
    destruct k; cbn; try reflexivity. exfalso. apply H. left; reflexivity. }
  rewrite Hmap. unfold prune. rewrite filter_app. cbn. apply app_nil_r.
Qed.

(** [xi[k] * xj[l] == 0] is the (pruned) bilinear expansion of the two block dictionaries with
    sense "equality": nothing else (no constant, no function value). *)
Lemma block_constraint_shape a b : block_constraint a b = (prune (multiply a b), Equ).
Proof.
  unfold block_constraint, c_eqs. rewrite x_subs_0; [reflexivity|].
  intros H. apply keys_multiply_KG in H as (x & y & Hk & _). discriminate.
Qed.

Lemma block_constraint_keys a b key :
  In key (keys (fst (block_constraint a b))) ->
  exists x y, key = KG x y /\ In x (keys a) /\ In y (keys b).
Proof.
  rewrite block_constraint_shape. cbn [fst]. intros H. apply keys_multiply_KG.
  unfold keys, prune in *. apply in_map_iff in H as [kv [Hk H]]. apply filter_In in H as [H _].
  apply in_map_iff. exists kv; auto.
Qed.

Section Meaning.
  Context {E : ips}.

  Fixpoint vsum (l : list E) : E := match l with [] => vzero | u :: l' => vadd u (vsum l') end.

  Lemma inner_vsum_l l w : inner (vsum l) w = lsum (map (fun u => inner u w) l).
  Proof. induction l as [|u l IH]; cbn; [apply inner_zero_l|rewrite inner_add_l, IH; reflexivity]. Qed.
  Lemma inner_vsum_r l w : inner w (vsum l) = lsum (map (fun u => inner w u) l).
  Proof. rewrite inner_sym, inner_vsum_l. f_equal. apply map_ext. intro; apply inner_sym. Qed.

  Variable rho : nat -> E.
  Variable phi : nat -> R.

  (** the sum of the meanings of a list of block dictionaries *)
  Definition sumP (bl : list pdict) : E := vsum (map (evalP rho) bl).

  Lemma inner_sumP bl w :
    inner (sumP bl) w = lsum (map (dsum nat (fun k => inner (rho k) w)) bl).
  Proof.
    unfold sumP. rewrite inner_vsum_l, map_map. f_equal. apply map_ext. intro b. apply inner_evalP.
  Qed.

  (** ** Sum-back *)
  Lemma sum_back_dblocks d n pd : pND pd -> veq (sumP (dblocks d n pd)) (evalP rho pd).
  Proof. intros H w. rewrite inner_sumP, inner_evalP. apply ds_dblocks, H. Qed.

  Lemma evalP_leaf i : veq (evalP rho (leaf_dict i)) (rho i).
  Proof.
    intros w. unfold leaf_dict. cbn [evalP]. rewrite inner_add_l, inner_scal_l, inner_zero_l, Q2R_1. lra.
  Qed.

  Lemma evalP_prune pd : veq (evalP rho (prune pd)) (evalP rho pd).
  Proof. intros w. rewrite !inner_evalP. apply dsum_prune. Qed.

  (** ** One generated constraint holds iff the two blocks are orthogonal *)
  Lemma block_constraint_holds a b :
    pND a -> pND b ->
    (holds rho phi (block_constraint a b) <-> inner (evalP rho a) (evalP rho b) = 0).
  Proof.
    intros Ha Hb. unfold holds, block_constraint. cbn [snd c_eqs].
    rewrite evalE_c_eqs by (apply keys_multiply_NoDup; assumption).
    rewrite evalE_multiply, RMicromega.Q2R_0. split; intros H; lra.
  Qed.

  Lemma pND_nth_blocks d e k : pND (e_pd e) -> pND (nth k (blocks_of d e) []).
  Proof.
    intros H. destruct (nth_in_or_default k (blocks_of d e) []) as [Hin| ->].
    - eapply pND_dblocks; [exact H|exact Hin].
    - constructor.
  Qed.

  (** ** The list as a whole: all cross-block orthogonality relations, and only those *)
  Definition all_orthogonal (d : nat) (g : list entry) : Prop :=
    forall e1 e2, In e1 g -> In e2 g ->
    forall k l, (k < d)%nat -> (l < d)%nat -> k <> l ->
      inner (evalP rho (nth k (blocks_of d e1) [])) (evalP rho (nth l (blocks_of d e2) [])) = 0.

  Lemma constraints_iff d st g :
    Inv d st g ->
    ((forall c, In c (partition_constraints st) -> holds rho phi c) <-> all_orthogonal d g).
  Proof.
    intros I. pose proof (Inv_vals _ _ _ I) as Hv. pose proof (inv_d _ _ _ I) as Hd. split.
    - intros H e1 e2 He1 He2 k l Hk Hl Hne.
      assert (P1 : pND (e_pd e1)) by apply (inv_pd _ _ _ I e1 He1).
      assert (P2 : pND (e_pd e2)) by apply (inv_pd _ _ _ I e2 He2).
      destruct (Nat.lt_ge_cases l k) as [Hlt|Hge].
      + apply (block_constraint_holds _ _ (pND_nth_blocks d e1 k P1) (pND_nth_blocks d e2 l P2)).
        apply H. apply In_constraints. exists (blocks_of d e1), (blocks_of d e2), k, l.
        rewrite Hv, Hd. repeat split; auto using in_map.
      + rewrite inner_sym.
        apply (block_constraint_holds _ _ (pND_nth_blocks d e2 l P2) (pND_nth_blocks d e1 k P1)).
        apply H. apply In_constraints. exists (blocks_of d e2), (blocks_of d e1), l, k.
        rewrite Hv, Hd. repeat split; auto using in_map. lia.
    - intros H c Hc. apply In_constraints in Hc as (xi & xj & k & l & Hi & Hj & Hk & Hl & ->).
      rewrite Hv in Hi, Hj. rewrite Hd in Hk.
      apply in_map_iff in Hi as [e1 [<- He1]]. apply in_map_iff in Hj as [e2 [<- He2]].
      apply block_constraint_holds.
      + apply pND_nth_blocks, (inv_pd _ _ _ I e1 He1).
      + apply pND_nth_blocks, (inv_pd _ _ _ I e2 He2).
      + apply H; auto; lia.
  Qed.

  (** never-decomposed points are untouched: every term of every generated constraint is a product
      of two leaves each occurring in a block of a decomposed object (a leaf of its dictionary or one
      of its fresh leaves). *)
  Lemma constraints_mention d st g c key :
    Inv d st g -> In c (partition_constraints st) -> In key (keys (fst c)) ->
    exists x y e1 e2, key = KG x y /\ In e1 g /\ In e2 g
      /\ (In x (keys (e_pd e1)) \/ In x (leaves_of d e1))
      /\ (In y (keys (e_pd e2)) \/ In y (leaves_of d e2)).
  Proof.
    intros I Hc Hk. pose proof (Inv_vals _ _ _ I) as Hv.
    apply In_constraints in Hc as (xi & xj & k & l & Hi & Hj & _ & _ & ->).
    rewrite Hv in Hi, Hj. apply in_map_iff in Hi as [e1 [<- He1]]. apply in_map_iff in Hj as [e2 [<- He2]].
    apply block_constraint_keys in Hk as (x & y & -> & Hx & Hy). exists x, y, e1, e2.
    assert (G : forall e k x, In x (keys (nth k (blocks_of d e) [])) ->
                 In x (keys (e_pd e)) \/ In x (leaves_of d e)).
    { intros e k' x' H. destruct (nth_in_or_default k' (blocks_of d e) []) as [Hin|Heq].
      - destruct (keys_dblocks _ _ _ _ _ Hin H) as [A|A]; [left; exact A|right; apply in_seq; exact A].
      - rewrite Heq in H. destruct H. }
    repeat split; eauto.
  Qed.

  (** ** Two objects with the same value have the same blocks *)
  Lemma lsum_zero l : (forall i, (i < length l)%nat -> nth i l 0 = 0) -> lsum l = 0.
  Proof.
    induction l as [|x l IH]; cbn [lsum length]; intros H; [reflexivity|].
    rewrite IH by (intros i Hi; apply (H (S i)); lia). specialize (H 0%nat). cbn in H. rewrite H by lia. lra.
  Qed.

  Lemma lsum_single l : forall k, (k < length l)%nat ->
    (forall i, (i < length l)%nat -> i <> k -> nth i l 0 = 0) -> lsum l = nth k l 0.
  Proof.
    induction l as [|x l IH]; cbn [lsum length]; intros k Hk H; [lia|]. destruct k as [|k]; cbn [nth].
    - rewrite lsum_zero by (intros i Hi; apply (H (S i)); lia). lra.
    - rewrite (IH k) by (try lia; intros i Hi Hne; apply (H (S i)); lia).
      specialize (H 0%nat). cbn in H. rewrite H by lia. lra.
  Qed.

  Lemma inner_vsum_single (w : E) (L : list E) k :
    (k < length L)%nat ->
    (forall i, (i < length L)%nat -> i <> k -> inner w (nth i L vzero) = 0) ->
    inner w (vsum L) = inner w (nth k L vzero).
  Proof.
    intros Hk H. rewrite inner_vsum_r. rewrite (lsum_single _ k).
    - rewrite <- (inner_zero_r w) at 1. apply (map_nth (fun u => inner w u)).
    - rewrite map_length. exact Hk.
    - rewrite map_length. intros i Hi Hne. rewrite <- (inner_zero_r w) at 1.
      rewrite (map_nth (fun u => inner w u)). apply H; assumption.
  Qed.

  (** Two orthogonal families with the same sum that are also orthogonal ACROSS the families (for
      different indices) coincide block by block. *)
  Lemma orthogonal_families_equal (X Y : list E) d :
    length X = d -> length Y = d ->
    veq (vsum X) (vsum Y) ->
    (forall k l, (k < d)%nat -> (l < d)%nat -> k <> l ->
       inner (nth k X vzero) (nth l X vzero) = 0 /\ inner (nth k Y vzero) (nth l Y vzero) = 0
       /\ inner (nth k X vzero) (nth l Y vzero) = 0) ->
    forall k, (k < d)%nat -> veq (nth k X vzero) (nth k Y vzero).
  Proof.
    intros HX HY Hsum Horth k Hk. set (a := nth k X vzero). set (b := nth k Y vzero).
    assert (Eaa : inner a (vsum X) = inner a a).
    { apply inner_vsum_single; [lia|]. intros i Hi Hne. apply (Horth k i); lia. }
    assert (Eab : inner a (vsum Y) = inner a b).
    { apply inner_vsum_single; [lia|]. intros i Hi Hne. apply (Horth k i); lia. }
    assert (Eba : inner b (vsum X) = inner b a).
    { apply inner_vsum_single; [lia|]. intros i Hi Hne. rewrite inner_sym. apply (Horth i k); lia. }
    assert (Ebb : inner b (vsum Y) = inner b b).
    { apply inner_vsum_single; [lia|]. intros i Hi Hne. apply (Horth k i); lia. }
    pose proof (veq_inner_r _ _ a Hsum) as S1. pose proof (veq_inner_r _ _ b Hsum) as S2.
    pose proof (inner_sym E a b) as Sab.
    assert (Z : inner (vsub a b) (vsub a b) = 0).
    { rewrite inner_sub_l, !inner_sub_r. lra. }
    intros w. pose proof (cauchy_schwarz (vsub a b) w) as CS. rewrite Z in CS.
    rewrite inner_sub_l in CS. nra.
  Qed.

  Lemma nth_map_evalP bl k : nth k (map (evalP rho) bl) vzero = evalP rho (nth k bl []).
  Proof. apply (map_nth (evalP rho) bl [] k). Qed.

  Lemma two_objects d st g e1 e2 :
    (1 <= d)%nat -> Inv d st g -> In e1 g -> In e2 g ->
    (forall c, In c (partition_constraints st) -> holds rho phi c) ->
    veq (evalP rho (e_pd e1)) (evalP rho (e_pd e2)) ->
    forall k, (k < d)%nat ->
      veq (evalP rho (nth k (blocks_of d e1) [])) (evalP rho (nth k (blocks_of d e2) [])).
  Proof.
    intros Hd I He1 He2 Hc Hval k Hk.
    apply (constraints_iff d st g I) in Hc.
    assert (P1 : pND (e_pd e1)) by apply (inv_pd _ _ _ I e1 He1).
    assert (P2 : pND (e_pd e2)) by apply (inv_pd _ _ _ I e2 He2).
    rewrite <- !nth_map_evalP.
    apply (orthogonal_families_equal _ _ d); try exact Hk.
    - rewrite map_length. apply length_dblocks, Hd.
    - rewrite map_length. apply length_dblocks, Hd.
    - change (veq (sumP (blocks_of d e1)) (sumP (blocks_of d e2))).
      eapply veq_trans; [apply sum_back_dblocks, P1|]. eapply veq_trans; [exact Hval|].
      apply veq_sym, sum_back_dblocks, P2.
    - intros k' l' Hk' Hl' Hne. rewrite !nth_map_evalP. repeat split; apply Hc; assumption.
  Qed.
End Meaning.

(** * Any orthogonal family of "projections" summing to the identity satisfies the model *)
Section Projections.
  Context {E : ips}.
  Variable d : nat.
  Variable P : nat -> E -> E.
  Hypothesis d_pos : (1 <= d)%nat.
  Hypothesis P_sum : forall u, veq (vsum (map (fun k => P k u) (seq 0 d))) u.
  Hypothesis P_orth : forall k l u w, (k < d)%nat -> (l < d)%nat -> k <> l -> inner (P k u) (P l w) = 0.

  (** the fresh leaves of every decomposed object are valued by the projections of the object's value *)
  Definition consistent (g : list entry) (r : nat -> E) : Prop :=
    forall e, In e g -> forall k, (k < d - 1)%nat -> r (e_n e + k)%nat = P k (evalP r (e_pd e)).

  Lemma lsum_seq_shift (val : nat -> R) m : forall n,
    lsum (map val (seq n m)) = lsum (map (fun k => val (n + k)%nat) (seq 0 m)).
  Proof.
    induction m as [|m IH]; intros n; cbn [seq map lsum]; [reflexivity|].
    rewrite IH, <- seq_shift, map_map, Nat.add_0_r. f_equal. f_equal. apply map_ext. intros k.
    f_equal. lia.
  Qed.

  Lemma consistent_blocks r e :
    pND (e_pd e) ->
    (forall k, (k < d - 1)%nat -> r (e_n e + k)%nat = P k (evalP r (e_pd e))) ->
    forall k, (k < d)%nat -> veq (evalP r (nth k (blocks_of d e) [])) (P k (evalP r (e_pd e))).
  Proof.
    intros Hnd Hc k Hk. unfold blocks_of. destruct (Nat.eq_dec k (d - 1)) as [->|Hne].
    - rewrite nth_dblocks_last. intros w. rewrite inner_evalP.
      rewrite ds_p_sub, ds_acc by (exact Hnd || apply pND_acc). rewrite <- inner_evalP.
      pose proof (P_sum (evalP r (e_pd e)) w) as HS. rewrite inner_vsum_l, map_map in HS.
      replace (seq 0 d) with (seq 0 (S (d - 1))) in HS by (f_equal; lia).
      rewrite seq_S, map_app, lsum_app in HS. cbn in HS.
      rewrite lsum_seq_shift.
      rewrite (map_ext_in _ (fun k => inner (P k (evalP r (e_pd e))) w)).
      + lra.
      + intros k' Hk'. apply in_seq in Hk'. rewrite Hc by lia. reflexivity.
    - rewrite nth_dblocks_leaf by lia. eapply veq_trans; [apply evalP_leaf|]. rewrite Hc by lia. apply veq_refl.
  Qed.

  (** under a consistent valuation every block is the projection of the object's value, so the blocks
      sum back and every generated constraint holds *)
  Lemma consistent_sound st g r phi :
    Inv d st g -> consistent g r ->
    (forall e, In e g -> forall k, (k < d)%nat ->
        veq (evalP r (nth k (blocks_of d e) [])) (P k (evalP r (e_pd e))))
    /\ (forall e, In e g -> veq (sumP r (blocks_of d e)) (evalP r (e_pd e)))
    /\ (forall c, In c (partition_constraints st) -> holds r phi c).
  Proof.
    intros I Hc.
    assert (B : forall e, In e g -> forall k, (k < d)%nat ->
                 veq (evalP r (nth k (blocks_of d e) [])) (P k (evalP r (e_pd e)))).
    { intros e He. apply consistent_blocks; [apply (inv_pd _ _ _ I e He)|apply Hc, He]. }
    split; [exact B|]. split.
    - intros e He. apply sum_back_dblocks, (inv_pd _ _ _ I e He).
    - apply (constraints_iff r phi d st g I). intros e1 e2 He1 He2 k l Hk Hl Hne.
      rewrite (veq_inner _ _ _ _ (B e1 He1 k Hk) (B e2 He2 l Hl)). apply P_orth; assumption.
  Qed.

  Lemma evalP_ext (r r' : nat -> E) pd :
    (forall x, In x (keys pd) -> r x = r' x) -> evalP r pd = evalP r' pd.
  Proof.
    induction pd as [|[k q] pd IH]; intros H; cbn [evalP]; [reflexivity|].
    rewrite (H k) by (left; reflexivity). rewrite IH by (intros x Hx; apply H; right; exact Hx). reflexivity.
  Qed.

  (** such a valuation always exists, whatever the values of the leaves that are not block leaves *)
  Lemma consistent_exists_step st g o :
    Inv d st g -> op_ok st o ->
    (forall r0, exists r, consistent g r
        /\ forall x, (forall e, In e g -> ~ In x (leaves_of d e)) -> r x = r0 x) ->
    (forall r0, exists r, consistent (gstep st g o) r
        /\ forall x, (forall e, In e (gstep st g o) -> ~ In x (leaves_of d e)) -> r x = r0 x).
  Proof.
    intros I Hok IH r0. destruct o as [obj pd k|]; cbn [gstep]; [|apply IH].
    destruct (decomposed obj st); [apply IH|].
    destruct (IH r0) as [r [Hc Hagree]]. destruct Hok as [Hnd Hlt].
    set (n := bp_next st).
    set (r' := fun x => if (n <=? x)%nat && (x <? n + (d - 1))%nat
                        then P (x - n) (evalP r pd) else r x).
    assert (Hold : forall x, (x < n)%nat -> r' x = r x).
    { intros x Hx. unfold r'. destruct (Nat.leb_spec n x); [lia|reflexivity]. }
    exists r'. split.
    - intros e He k' Hk'. apply in_app_or in He as [He|[<-|[]]].
      + destruct (inv_pd _ _ _ I e He) as (_ & B & C). fold n in C.
        rewrite Hold by lia. rewrite (Hc e He k' Hk'). f_equal. apply evalP_ext.
        intros x Hx. symmetry. apply Hold. specialize (B x Hx). lia.
      + cbn [e_n e_pd]. fold n. unfold r' at 1.
        destruct (Nat.leb_spec n (n + k')); [|lia]. destruct (Nat.ltb_spec (n + k') (n + (d - 1))); [|lia].
        cbn [andb]. replace (n + k' - n)%nat with k' by lia. f_equal. apply evalP_ext.
        intros x Hx. symmetry. apply Hold. apply Hlt, Hx.
    - intros x Hx. unfold r'.
      destruct (Nat.leb_spec n x) as [H1|H1]; cbn [andb].
      + destruct (Nat.ltb_spec x (n + (d - 1))) as [H2|H2].
        * exfalso. apply (Hx (mkE obj pd n)); [apply in_or_app; right; left; reflexivity|].
          unfold leaves_of. cbn [e_n]. apply in_seq. lia.
        * apply Hagree. intros e He. apply Hx, in_or_app. left; exact He.
      + apply Hagree. intros e He. apply Hx, in_or_app. left; exact He.
  Qed.

  Lemma consistent_exists n0 ops :
    ok (init_partition d n0) ops ->
    forall r0, exists r,
      consistent (snd (trace (init_partition d n0) [] ops)) r
      /\ forall x, (forall e, In e (snd (trace (init_partition d n0) [] ops)) -> ~ In x (leaves_of d e))
                   -> r x = r0 x.
  Proof.
    intros Hok.
    refine (proj2 (trace_ind_from
      (fun _ g => forall r0, exists r, consistent g r
                  /\ forall x, (forall e, In e g -> ~ In x (leaves_of d e)) -> r x = r0 x)
      d _ ops _ _ (Inv_init d n0) _ Hok)).
    - intros st g o I HQ Ho. apply (consistent_exists_step st g o I Ho HQ).
    - intros r0. exists r0. split; [intros e []|reflexivity].
  Qed.
End Projections.
