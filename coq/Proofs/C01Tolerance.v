(** C01, "all up to solver tolerance": what remains true when the solver's duals are NOT exact KKT duals.

    1. [reconstruction_unconditional] : with NO assumption on the solver, for every dual vector of the
       right shapes, the dictionary [fd] that check_feasibility builds (objective - combination,
       symmetrised, pruned) satisfies, for all symmetric G and all F,
           objective(G,F) = fd(G,F) + sum multiplier x constraint - <residual, G>.
       [fd] = returned constant + "remaining terms" ([constant_split]); the remaining terms are what the
       solver's stationarity residual leaves behind.
    2. [weak_duality_tol] : if the multipliers are dual feasible only up to eps (inequality multipliers
       >= -eps; residual and LMI dual matrices within eps, entry-wise, of a sum of rank-one matrices), then
       at every feasible point
           objective <= fd(G,F) + eps * (sum |e_c| over inequalities + sum |G_ij| + sum_k sum |E_k,ij|),
       i.e. the returned constant dominates the objective up to the remaining terms and eps times an
       explicit l1 size of the primal point.  With eps = 0 and no remaining term this is [weak_duality]. *)
From Coq Require Import List QArith Reals Qreals Lra Lia Arith Bool.
From PV Require Import Base.IPS Model.Dict Model.Terms Model.Sent Model.Cvxpy Model.Cert
     Spec.Sem Spec.GramSem Spec.KKT Proofs.DictLemmas Proofs.SemLemmas Proofs.C01Layout Proofs.C01Gram
     Proofs.PSDLemmas Proofs.C01Identity.
Import ListNotations.
Local Open Scope R_scope.

(** * 1. the reconstruction, without the solver assumption *)
Theorem reconstruction_unconditional :
  forall (obj : edict) (tracked : sent) (ids : list nat) (temp : list dval),
    wf_edict obj -> wf_sent tracked ->
    NoDup ids -> length ids = length tracked ->
    Forall2 dual_fits (emit tracked) temp ->
    let '(a, res, fd, t) := certificate obj tracked ids temp in
    (forall G F, symG G ->
       evalGF G F obj = evalGF G F fd + multiplier_sum G F a - mdot (res_matrix res) G)
    /\ t = constant_of fd.
Proof.
  intros obj tracked ids temp Hobj Hwf Hnd Hids Hfit.
  assert (Hlen : length temp = length (emit tracked)) by (symmetry; apply (F2_length _ _ _ Hfit)).
  pose proof Hlen as Hlen'. rewrite length_emit in Hlen'.
  destruct temp as [|d0 ds]; [cbn in Hlen'; lia|]. cbn [length] in Hlen'.
  unfold certificate. rewrite (exposed_shown tracked ids d0 ds Hnd Hids) by lia.
  set (a := shown tracked ds).
  unfold emit in Hfit. inversion Hfit as [|r0 d0' rs ds' Hd0 Hfit']; subst.
  assert (Hok : Forall ok_expo a) by (apply (shown_ok tracked 0%nat ds Hwf Hfit')).
  split; [|reflexivity].
  intros G F HG. unfold final_dict, final_dict_of.
  destruct (combination_spec (symm G) F (res_matrix d0) a Hok) as [Hcc Hcv].
  rewrite ev_prune, evalGF_symmetrize by (apply eND_sub; assumption).
  rewrite ev_sub, Hcv by assumption.
  assert (Hs : forall e, evalGF (symm G) F e = evalGF G F e).
  { intro e. apply evalGF_ext; [intros i j; apply symm_of_sym; exact HG|reflexivity]. }
  assert (Hm : multiplier_sum (symm G) F a = multiplier_sum G F a).
  { clear - HG Hs. induction a as [|[[it d] u] a IH]; cbn [multiplier_sum]; [reflexivity|].
    rewrite IH. f_equal. destruct it as [e s|m]; [destruct d; rewrite ?Hs; reflexivity|].
    destruct (lmi_multiplier d u); [|reflexivity]. f_equal. apply mdot_ext. intros i j. unfold lmi_value. apply Hs. }
  assert (Hr : mdot (res_matrix d0) (symm G) = mdot (res_matrix d0) G).
  { apply mdot_ext. intros i j. apply symm_of_sym. exact HG. }
  rewrite Hs, Hm, Hr. lra.
Qed.

(** the dictionary = its constant + the "remaining terms" *)
Definition remaining (d : edict) : edict := filter (fun kv => negb (ekey_eqb K1 (fst kv))) d.

Lemma constant_split G F (d : edict) : NoDup (keys d) ->
  evalGF G F d = Q2R (constant_of d) + evalGF G F (remaining d).
Proof.
  unfold constant_of, remaining. induction d as [|[k q] d IH]; intro Hnd.
  - cbn. rewrite RMicromega.Q2R_0. lra.
  - cbn [keys map fst] in Hnd. inversion Hnd as [|? ? Hnin Hnd']; subst.
    cbn [lookup filter fst evalGF]. destruct (ekey_eqb_spec K1 k) as [<-|Hne].
    + cbn [negb]. apply (lookup_None ekey ekey_eqb ekey_eqb_spec) in Hnin.
      specialize (IH Hnd'). rewrite Hnin in IH. rewrite RMicromega.Q2R_0 in IH.
      rewrite IH. cbn. lra.
    + cbn [negb evalGF]. rewrite (IH Hnd'). lra.
Qed.

(** * 2. approximate dual feasibility *)
Definition abs_sum (n : nat) (A : nat -> nat -> R) : R :=
  sumn n (fun i => sumn n (fun j => Rabs (A i j))).

(** within eps, entry-wise, of a finite sum of rank-one matrices *)
Definition near_rank1sum (eps : R) (Sm : list (list Q)) (n : nat) : Prop :=
  shape Sm n n /\ exists vs : list (nat -> R),
    forall i j, (i < n)%nat -> (j < n)%nat -> Rabs (matR Sm i j - rank1_at vs i j) <= eps.

Fixpoint dual_feasible_tol (eps : R) (a : list expo) : Prop :=
  match a with
  | [] => True
  | (SC _ Ineq, VS l, _) :: r => - eps <= Q2R l /\ dual_feasible_tol eps r
  | (SC _ Equ, VS _, _) :: r => dual_feasible_tol eps r
  | (LMI m, VM Sd, Some u) :: r =>
      near_rank1sum eps Sd (nrows m) /\ shape u (nrows m) (nrows m) /\ same_sym_part u Sd (nrows m)
      /\ dual_feasible_tol eps r
  | _ :: r => False
  end.

(** l1 size of the constrained quantities at (G,F) *)
Fixpoint slack (G : nat -> nat -> R) (F : nat -> R) (l : sent) : R :=
  match l with
  | [] => 0
  | SC e Ineq :: r => Rabs (evalGF G F e) + slack G F r
  | SC _ Equ :: r => slack G F r
  | LMI m :: r => abs_sum (nrows m) (lmi_value G F m) + slack G F r
  end.

Lemma sumn_le n f g : (forall i, (i < n)%nat -> f i <= g i) -> sumn n f <= sumn n g.
Proof.
  induction n as [|n IH]; intro H; cbn [sumn]; [lra|].
  pose proof (IH (fun i Hi => H i (Nat.lt_lt_succ_r _ _ Hi))). pose proof (H n (Nat.lt_succ_diag_r n)). lra.
Qed.

Lemma sumn_minus n f g : sumn n (fun i => f i - g i) = sumn n f - sumn n g.
Proof. induction n as [|n IH]; cbn [sumn]; [lra|rewrite IH; lra]. Qed.

Lemma abs_sum_nonneg n A : 0 <= abs_sum n A.
Proof.
  unfold abs_sum. rewrite <- (sumn_zero n). apply sumn_le. intros i _.
  rewrite <- (sumn_zero n). apply sumn_le. intros j _. apply Rabs_pos.
Qed.

Theorem near_psd_pairing eps Sm A n :
  0 <= eps -> near_rank1sum eps Sm n -> psd_qf n A -> - (eps * abs_sum n A) <= mdot Sm A.
Proof.
  intros Heps [Hshape [vs Hvs]] [_ Hqf].
  rewrite (mdot_sumn Sm A n n Hshape).
  assert (H1 : 0 <= sumn n (fun i => sumn n (fun j => rank1_at vs i j * A i j))).
  { rewrite rank1_pair. clear Hvs. induction vs as [|v vs IH]; cbn [fold_right]; [lra|].
    specialize (Hqf v). lra. }
  assert (H2 : sumn n (fun i => sumn n (fun j => rank1_at vs i j * A i j))
               - sumn n (fun i => sumn n (fun j => matR Sm i j * A i j))
               <= eps * abs_sum n A).
  { rewrite <- sumn_minus. unfold abs_sum. rewrite <- sumn_scal. apply sumn_le. intros i Hi.
    rewrite <- sumn_minus, <- sumn_scal. apply sumn_le. intros j Hj.
    specialize (Hvs i j Hi Hj).
    replace (rank1_at vs i j * A i j - matR Sm i j * A i j) with (- ((matR Sm i j - rank1_at vs i j) * A i j)) by lra.
    eapply Rle_trans; [apply Rle_abs|]. rewrite Rabs_Ropp, Rabs_mult.
    apply Rmult_le_compat_r; [apply Rabs_pos|exact Hvs]. }
  lra.
Qed.

Lemma multiplier_sum_tol eps G F np l : 0 <= eps ->
  forall (ds : list dval) (es : list (option (list (list Q)))),
  feasible np l G F -> dual_feasible_tol eps (combine (combine l ds) es) ->
  length ds = length l -> length es = length l ->
  multiplier_sum G F (combine (combine l ds) es) <= eps * slack G F l.
Proof.
  intros Heps ds es [_ [_ Hfe]]. revert ds es.
  induction l as [|it l IH]; intros ds es Hdf Hlen Hlen'; [cbn; lra|].
  destruct ds as [|d ds]; [discriminate|]. destruct es as [|u es]; [discriminate|].
  cbn [length] in Hlen, Hlen'. injection Hlen as Hlen. injection Hlen' as Hlen'.
  inversion Hfe as [|? ? Hit Hfe']; subst. cbn [combine] in *.
  destruct it as [e s|m], d as [la|Sm]; cbn [dual_feasible_tol multiplier_sum slack] in *;
    try (destruct s; tauto); try tauto.
  - destruct s; cbn [item_holds holdsGF fst snd] in Hit.
    + destruct Hdf as [Hla Hdf]. specialize (IH Hfe' ds es Hdf Hlen Hlen').
      rewrite (Rabs_left1 _ Hit). nra.
    + specialize (IH Hfe' ds es Hdf Hlen Hlen'). rewrite Hit. lra.
  - destruct u as [u|]; [|tauto]. destruct Hdf as [Hr [Hu [Hsym Hdf]]].
    specialize (IH Hfe' ds es Hdf Hlen Hlen').
    cbn [item_holds lmi_multiplier] in *.
    rewrite (mdot_sym_part u Sm _ _ Hu (proj1 Hr) Hsym (proj1 Hit)).
    pose proof (near_psd_pairing eps Sm _ _ Heps Hr Hit). lra.
Qed.

Theorem weak_duality_tol :
  forall (eps : R) (np : nat) (obj fd : edict) (tracked : sent) (duals : list dval)
         (entries : list (option (list (list Q)))) (res : list (list Q)),
    0 <= eps ->
    length duals = length tracked -> length entries = length tracked ->
    (forall G F, symG G ->
       evalGF G F obj = evalGF G F fd + multiplier_sum G F (combine (combine tracked duals) entries) - mdot res G) ->
    dual_feasible_tol eps (combine (combine tracked duals) entries) ->
    near_rank1sum eps res np ->
    forall G F, feasible np tracked G F ->
      evalGF G F obj <= evalGF G F fd + eps * (slack G F tracked + abs_sum np G).
Proof.
  intros eps np obj fd tracked duals entries res Heps Hlen Hlen' Hid Hdf Hres G F Hfe.
  pose proof (Hid G F (proj1 Hfe)) as H.
  pose proof (multiplier_sum_tol eps G F np tracked Heps duals entries Hfe Hdf Hlen Hlen') as H1.
  pose proof (near_psd_pairing eps res G np Heps Hres (proj1 (proj2 Hfe))) as H2. lra.
Qed.

(** exact dual feasibility is the case eps = 0 *)
Lemma rank1sum_near Sm n : rank1sum Sm n -> near_rank1sum 0 Sm n.
Proof.
  intros [Hs [vs Hvs]]. split; [exact Hs|]. exists vs. intros i j Hi Hj. rewrite (Hvs i j Hi Hj).
  replace (rank1_at vs i j - rank1_at vs i j) with 0 by lra. rewrite Rabs_R0. lra.
Qed.

Lemma dual_feasible_tol0 a : dual_feasible a -> dual_feasible_tol 0 a.
Proof.
  induction a as [|[[it d] u] a IH]; cbn [dual_feasible dual_feasible_tol]; [tauto|].
  destruct it as [e s|m].
  - destruct s, d; try tauto. intros [H1 H2]. split; [lra|auto].
  - destruct d; try tauto. destruct u; try tauto. intros [H1 [H2 [H3 H4]]].
    split; [apply rank1sum_near; exact H1|]. split; [exact H2|]. split; [exact H3|auto].
Qed.

(** hence the exact theorem is the special case *)
Corollary weak_duality_from_tol :
  forall (np : nat) (obj fd : edict) (tracked : sent) (duals : list dval)
         (entries : list (option (list (list Q)))) (res : list (list Q)),
    length duals = length tracked -> length entries = length tracked ->
    (forall G F, symG G ->
       evalGF G F obj = evalGF G F fd + multiplier_sum G F (combine (combine tracked duals) entries) - mdot res G) ->
    dual_feasible (combine (combine tracked duals) entries) ->
    rank1sum res np ->
    forall G F, feasible np tracked G F -> evalGF G F obj <= evalGF G F fd.
Proof.
  intros np obj fd tracked duals entries res Hl Hl' Hid Hdf Hres G F Hfe.
  pose proof (weak_duality_tol 0 np obj fd tracked duals entries res (Rle_refl 0) Hl Hl' Hid
                (dual_feasible_tol0 _ Hdf) (rank1sum_near _ _ Hres) G F Hfe) as H. lra.
Qed.

(** * Non-vacuity: an INEXACT dual (one multiplier off by 1/1000, an indefinite LMI dual matrix within 1/1000 of a
    rank-one matrix).  It has the right shapes, the reconstruction leaves a remaining term, the tolerance
    hypotheses hold with eps = 1/1000 and the exact ones do not apply (the dual matrix is not PSD: its
    determinant is negative). *)
From PV Require Import Proofs.C01Refuted Proofs.C01Examples.

Definition t_duals : list dval :=
  [ VM [[0%Q]]; VS (999 # 1000)%Q; VS (1 # 4)%Q; VM [[(1 # 4)%Q; (-1 # 2)%Q]; [(-1 # 2)%Q; (999 # 1000)%Q]];
    VS (1 # 4)%Q; VS (-1 # 2)%Q; VS (-1 # 2)%Q; VS (999 # 1000)%Q ].

Lemma t_fits : Forall2 dual_fits (emit s_sent) t_duals.
Proof. rewrite s_emit. unfold t_duals. repeat (constructor; try exact I); cbn; repeat constructor. Qed.

Lemma t_remaining :
  let '(_, _, fd, t) := certificate w_obj s_sent w_ids t_duals in
  map (fun kv => (fst kv, Qred (snd kv))) (remaining fd) = [(KF 2, (1 # 1000)%Q); (KF 0, (-1 # 1000)%Q)]
  /\ Qred t = (2403 # 2000)%Q.
Proof. vm_compute. split; reflexivity. Qed.

Lemma t_dual_feasible_tol :
  let '(a, res) := exposed s_sent w_ids t_duals in
  dual_feasible_tol (1 / 1000) a /\ near_rank1sum (1 / 1000) (res_matrix res) 1.
Proof.
  cbn. split; [split; [q2r; lra|split; [q2r; lra|split; [|split; [|split; [|exact I]]]]]|].
  - split; [split; [reflexivity|repeat constructor]|].
    exists [fun k => match k with 0%nat => 1 / 2 | _ => -1 end].
    intros i j Hi Hj. unfold matR, matq, nrows, s_lmi in *. cbn [length] in *.
    destruct i as [|[|i]], j as [|[|j]]; try lia; cbn [nth rank1_at]; q2r; apply Rabs_le; lra.
  - split; [reflexivity|repeat constructor].
  - intros i j Hi Hj. unfold matR, matq, nrows, s_lmi in *. cbn [length] in *.
    destruct i as [|[|i]], j as [|[|j]]; try lia; cbn [nth]; q2r; lra.
  - split; [split; [reflexivity|repeat constructor]|].
    exists []. intros i j Hi Hj. destruct i, j; try lia. unfold matR, matq. cbn. q2r. apply Rabs_le; lra.
Qed.
