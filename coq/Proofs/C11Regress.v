(** C11 -- concrete instances, and REGRESSION examples about the index expressions mosek_wrapper.py used BEFORE the
    repairs 88e1f86 (int8 row indices), 067bbb4 (bar variable = PSDMatrix class counter + 1), 54e4665 (xx[-2],
    Expression.counter - 1).  The "old_*" definitions below are NOT the model of the current code: they restate the
    old expressions so that the examples show, on the former findings' inputs, that the old expression was wrong
    and the current one is right. *)
From Coq Require Import List QArith ZArith Bool Arith Lia.
From PV Require Import Model.Dict Model.Terms Model.Sent Model.Matrices Model.Mosek.
Import ListNotations.
Local Open Scope nat_scope.

(** tau <= t ; LMI [[ <p0,p0>, t ], [ t, 1 ]]  -- leaf expressions: 0 = t, 1 = objective; one leaf point *)
Definition w_lmi : list (list edict) :=
  [[ [(KG 0 0, 1%Q)]; [(KF 0, 1%Q)] ]; [ [(KF 0, 1%Q)]; [(K1, 1%Q)] ]].
Definition w_sent : sent := [SC [(KF 1, 1%Q); (KF 0, (- (1))%Q)] Ineq; LMI w_lmi].

Lemma lmi_model_ok : guard w_sent 1 2 1 = true /\ task_denote (emit w_sent 1 2 1) = Some (sdp_of w_sent 1 2 1).
Proof. vm_compute. split; reflexivity. Qed.

(** REGRESSION (F-C11a, fixed by 067bbb4).  The only LMI sent is the second PSDMatrix ever created (an unused one,
    a function-level one sent later, or the class LMI of a first solve came before): its class counter is 1.
    old: bar variable [counter + 1] = 2 does not exist -> the API refuses the coupling row;
    now: bar variable [nsdp - 1] = 1, the one just appended. *)
Definition old_bar_index (psd_counter : nat) : nat := S psd_counter.
Lemma regress_barvar_index :
  let before := prologue 1 2 ++ emit_sc 1 0 0 [(KF 1, 1%Q); (KF 0, (- (1))%Q)] Ineq ++ [TAppendBarvars [2]] in
  run (before ++ emit_entries 1 2 (old_bar_index 1) 1 1 (entries w_lmi)) t0 = None
  /\ (exists st, run (before ++ emit_entries 1 2 (2 - 1) 1 1 (entries w_lmi)) t0 = Some st).
Proof. cbv zeta. split; [vm_compute; reflexivity|]. eexists. vm_compute. reflexivity. Qed.

(** REGRESSION (F-C11c, fixed by 88e1f86): 129 rows.  old: row index 128 does not fit int8; now it fits int32 and the
    task denotes the declared SDP. *)
Definition old_int8_ok (n : nat) : bool := Nat.ltb n 128.
Definition w_many : sent := repeat (SC [(KF 0, 1%Q); (K1, (- (1))%Q)] Ineq) 129.
Lemma regress_int8 :
  old_int8_ok 128 = false /\ int32_ok 128 = true
  /\ guard w_many 1 1 0 = true /\ task_denote (emit w_many 1 1 0) = Some (sdp_of w_many 1 1 0).
Proof. vm_compute. repeat split; reflexivity. Qed.

(** REGRESSION (F-C11b, fixed by 54e4665): leaf expressions 0 = f0 (user), 1 = objective, 2 = created by
    class-constraint generation AFTER the objective (ConvexQG / RsiEb auto stationary point), so 4 variables.
    old: solve() read xx[-2] = variable 2 and prepare_heuristic zeroed c[Expression.counter - 1] = c[2], leaving tau in
    the heuristic objective; now both use the objective's own index and the heuristic task denotes the declared
    second problem. *)
Definition old_readout_index (nvar : nat) : nat := nvar - 2.
Definition w_leaf : sent := [SC [(KF 1, 1%Q); (KF 0, (- (1))%Q)] Ineq; SC [(KF 0, 1%Q); (KF 2, (- (1))%Q)] Ineq].
Lemma regress_objective_index :
  old_readout_index 4 <> 1
  /\ put_c 4 [(1, 1%Q)] [3 - 1] [0%Q] = Some [(1, 1%Q); (2, 0%Q)]
  /\ put_c 4 [(1, 1%Q)] [1] [0%Q] = Some [(1, 0%Q)]
  /\ guard w_leaf 1 3 1 = true
  /\ task_denote (emit w_leaf 1 3 1 ++ solve_reads ++ recover_reads w_leaf
                  ++ emit_prepare 1 3 1 (total_rows w_leaf) (total_syms w_leaf) (1 # 2)
                  ++ emit_heuristic 1 (S (total_syms w_leaf)) (identity_triples 1))
     = Some (sdp_heur w_leaf 1 3 1 (1 # 2) (identity_triples 1)).
Proof. vm_compute. repeat split; try reflexivity; discriminate. Qed.

(** F-C11d (OPEN): solve() returns a number whatever the problem status; the cvxpy path returns None *)
Lemma status_refuted :
  exists xx obj st v, st <> PrimAndDualFeas /\ mosek_solve_value xx obj st <> None /\ cvxpy_solve_value v st = None.
Proof. exists [0%Q; 0%Q], 0, PrimInfeas, 0%Q. repeat split; cbn; discriminate. Qed.

(** _recover_dual_values on a model with two LMIs of different sizes separated by scalar constraints
    (rows: 0 = SC, 1 = the 1x1 LMI, 2 = SC, 3..6 = the 2x2 LMI), y = (10,11,...,16), getbarsj(1) = [5],
    getbarsj(2) = [1;2;3] (lower triangle, column by column), getbarsj(0) = [7]:
    scalar duals y[0], y[2]; LMI duals -[[5]] and -[[1,2],[2,3]]; entry duals -[[11]] and -[[13,14],[15,16]]. *)
Definition w_two : sent :=
  [SC [(KF 1, 1%Q); (KF 0, (- (1))%Q)] Ineq; LMI [[ [(KF 0, 1%Q)] ]];
   SC [(KG 0 0, 1%Q); (K1, (- (1))%Q)] Ineq; LMI w_lmi].
Lemma recover_example :
  lmi_first_index 0 w_two = [1; 3] /\ sc_index 0 w_two = [0; 2]
  /\ recover w_two 1 [10#1; 11#1; 12#1; 13#1; 14#1; 15#1; 16#1]%Q
             (fun j => nth j [[7#1]; [5#1]; [1#1; 2#1; 3#1]]%Q [])
     = ([[- (7#1)]]%Q,
        [RScalar (10#1); RLmi [[- (5#1)]]%Q [[- (11#1)]]%Q; RScalar (12#1);
         RLmi [[- (1#1); - (2#1)]; [- (2#1); - (3#1)]]%Q [[- (13#1); - (14#1)]; [- (15#1); - (16#1)]]%Q]).
Proof. vm_compute. repeat split; reflexivity. Qed.
