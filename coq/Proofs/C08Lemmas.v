(** Lemmas shared by the C08 proofs: [veq] as a setoid, meaning of leaves / pruned dictionaries,
    well-formedness through the step interpreter, the oracle of a leaf function, equality of
    outcomes up to representation. *)
From Coq Require Import List QArith Reals Qreals Lra Bool Arith Lia String Morphisms Setoid.
From PV Require Import Base.IPS Model.Dict Model.Terms Model.StepsRT Spec.Sem Spec.Classes Spec.StepsSpec
                       Proofs.DictLemmas Proofs.SemLemmas.
Import ListNotations.
Local Open Scope R_scope.

(** ** [veq] is a congruence *)
Section Setoid.
  Context {E : ips}.
  Global Instance veq_Equivalence : Equivalence (@veq E).
  Proof. split; [exact veq_refl|exact veq_sym|exact veq_trans]. Qed.
  Global Instance inner_Proper : Proper (@veq E ==> @veq E ==> eq) (@inner E).
  Proof. intros a a' Ha b b' Hb. apply veq_inner; assumption. Qed.
  Global Instance vadd_Proper : Proper (@veq E ==> @veq E ==> @veq E) (@vadd E).
  Proof. intros a a' Ha b b' Hb. apply veq_add; assumption. Qed.
  Global Instance vscal_Proper : Proper (eq ==> @veq E ==> @veq E) (@vscal E).
  Proof. intros c c' <- a a' Ha. apply veq_scal; assumption. Qed.
  Global Instance vneg_Proper : Proper (@veq E ==> @veq E) (@vneg E).
  Proof. intros a a' Ha. apply veq_neg; assumption. Qed.
  Global Instance vsub_Proper : Proper (@veq E ==> @veq E ==> @veq E) (@vsub E).
  Proof. intros a a' Ha b b' Hb. apply veq_sub; assumption. Qed.
  Global Instance nrm2_Proper : Proper (@veq E ==> eq) (@nrm2 E).
  Proof. intros a a' Ha. unfold nrm2. rewrite Ha. reflexivity. Qed.
End Setoid.

Lemma veq_intro {E : ips} (u v : E) : (forall w, inner u w = inner v w) -> veq u v.
Proof. exact (fun H => H). Qed.
Lemma veq_elim {E : ips} (u v : E) : veq u v -> forall w, inner u w = inner v w.
Proof. exact (fun H => H). Qed.

(** bilinear expansion, then a fixed orientation of every inner product of two atoms *)
Ltac bilin :=
  unfold nrm2, vsub, vneg;
  repeat (rewrite ?inner_add_l, ?inner_add_r, ?inner_scal_l, ?inner_scal_r, ?inner_zero_l, ?inner_zero_r).
Ltac bilin_in H :=
  unfold nrm2, vsub, vneg in H;
  repeat (rewrite ?inner_add_l, ?inner_add_r, ?inner_scal_l, ?inner_scal_r, ?inner_zero_l, ?inner_zero_r in H).
Ltac orient1 a l :=
  lazymatch l with
  | nil => idtac
  | cons ?b ?r => rewrite ?(inner_sym _ b a); orient1 a r
  end.
Ltac orient l :=
  lazymatch l with
  | nil => idtac
  | cons ?a ?r => orient1 a r; orient r
  end.
Ltac orient1_in H a l :=
  lazymatch l with
  | nil => idtac
  | cons ?b ?r => rewrite ?(inner_sym _ b a) in H; orient1_in H a r
  end.
Ltac orient_in H l :=
  lazymatch l with
  | nil => idtac
  | cons ?a ?r => orient1_in H a r; orient_in H r
  end.

(** ** Leaves and pruned dictionaries *)
Section Meaning.
  Context {E : ips}.
  Variable rho : nat -> E.
  Variable phi : nat -> R.

  Lemma evalP_leaf n : veq (evalP rho (leafP n)) (rho n).
  Proof.
    intros w. unfold leafP. cbn [evalP]. rewrite inner_add_l, inner_scal_l, inner_zero_l, Q2R_1. lra.
  Qed.
  Lemma evalE_leaf n : evalE rho phi (leafX n) = phi n.
  Proof. unfold leafX. cbn [evalE evalK]. rewrite Q2R_1. lra. Qed.
  Lemma evalP_prune d : veq (evalP rho (prune d)) (evalP rho d).
  Proof. intros w. rewrite !inner_evalP. apply dsum_prune. Qed.
  Lemma evalE_prune d : evalE rho phi (prune d) = evalE rho phi d.
  Proof. rewrite !evalE_dsum. apply dsum_prune. Qed.
  Lemma evalP_nil : evalP rho [] = vzero.
  Proof. reflexivity. Qed.
End Meaning.

Lemma pND_leaf n : NoDupKeys nat (leafP n).
Proof. unfold NoDupKeys, leafP. cbn. constructor; [tauto|constructor]. Qed.
Lemma eND_leaf n : NoDupKeys ekey (leafX n).
Proof. unfold NoDupKeys, leafX. cbn. constructor; [tauto|constructor]. Qed.
Lemma pND_nil : NoDupKeys nat []. Proof. constructor. Qed.
Lemma eND_nil : NoDupKeys ekey []. Proof. constructor. Qed.
Lemma pND_prune d : NoDupKeys nat d -> NoDupKeys nat (prune d).
Proof. apply NoDupKeys_prune. Qed.
Lemma eND_prune d : NoDupKeys ekey d -> NoDupKeys ekey (prune d).
Proof. apply NoDupKeys_prune. Qed.
Lemma prune_leafP n : prune (leafP n) = leafP n. Proof. reflexivity. Qed.
Lemma prune_leafX n : prune (leafX n) = leafX n. Proof. reflexivity. Qed.

Lemma upd_wf {A} (P : A -> Prop) v a (m : nat -> A) :
  P a -> (forall k, P (m k)) -> forall k, P (upd v a m k).
Proof. intros Ha Hm k. unfold upd. destruct (Nat.eqb k v); auto. Qed.

Lemma nth_wf {A} (P : A -> Prop) (l : list A) (d : A) :
  P d -> Forall P l -> forall k, P (nth k l d).
Proof.
  intros Hd Hl k. revert l Hl. induction k; intros [|a l] Hl; cbn; auto; inversion Hl; subst; auto.
Qed.

Lemma peq_refl a : peq a a. Proof. intros E rho; reflexivity. Qed.
Lemma xeq_refl a : xeq a a. Proof. intros E rho phi; reflexivity. Qed.
Lemma ceq_refl a : ceq a a. Proof. split; [reflexivity|intros; tauto]. Qed.

(** ** The oracle of a leaf function *)
Lemma find_eval_wf p l g v :
  Forall sample_wf l -> find_eval p l = Some (g, v) -> NoDupKeys nat g /\ NoDupKeys ekey v.
Proof.
  induction l as [|[[x g'] v'] l IH]; cbn [find_eval]; intros Hl H; [discriminate|].
  inversion Hl as [|? ? Hs Hl']; subst. destruct (dict_eqb Nat.eqb x p).
  - injection H as <- <-. destruct Hs as (_ & Hg & Hv). split; assumption.
  - apply IH; assumption.
Qed.

(** the three outcomes of [Function.oracle] on a leaf function *)
Lemma oracle_leaf_cases f p s :
  let r := funs s f in
  (exists g v, find_eval p (f_points r) = Some (g, v) /\ f_reuse r = true /\
               oracle_leaf f p s = (g, v, p, s))
  \/ (exists g v, find_eval p (f_points r) = Some (g, v) /\ f_reuse r = false /\
                  oracle_leaf f p s =
                  (leafP (pt_ctr s), prune v, prune p,
                   add_sample f (prune p, leafP (pt_ctr s), prune v) (bump 1 0 s)))
  \/ (find_eval p (f_points r) = None /\
      oracle_leaf f p s =
      (leafP (pt_ctr s), leafX (ex_ctr s), prune p,
       add_sample f (prune p, leafP (pt_ctr s), leafX (ex_ctr s)) (bump 1 1 s))).
Proof.
  cbv zeta. unfold oracle_leaf. destruct (find_eval p (f_points (funs s f))) as [[g v]|] eqn:Hf.
  - destruct (f_reuse (funs s f)) eqn:Hr.
    + left. exists g, v. auto.
    + right; left. exists g, v. repeat split; reflexivity.
  - right; right. split; reflexivity.
Qed.

Lemma oracle_leaf_wf f p s g v p' s1 :
  state_wf s -> NoDupKeys nat p -> oracle_leaf f p s = (g, v, p', s1) ->
  NoDupKeys nat g /\ NoDupKeys ekey v /\ NoDupKeys nat p' /\ peq p' p.
Proof.
  intros Hs Hp Ho. destruct (oracle_leaf_cases f p s) as [(g0 & v0 & Hf & _ & He)|[(g0 & v0 & Hf & _ & He)|(Hf & He)]];
    rewrite He in Ho; injection Ho as <- <- <- <-.
  - destruct (find_eval_wf _ _ _ _ (Hs f) Hf). split; [|split; [|split]]; try assumption. apply peq_refl.
  - destruct (find_eval_wf _ _ _ _ (Hs f) Hf).
    split; [|split; [|split]]; auto using pND_leaf, eND_prune, pND_prune.
    intros E rho. apply evalP_prune.
  - split; [|split; [|split]]; auto using pND_leaf, eND_leaf, pND_prune. intros E rho. apply evalP_prune.
Qed.

Lemma value_leaf_wf f p s v p' s1 :
  state_wf s -> NoDupKeys nat p -> value_leaf f p s = (v, p', s1) ->
  NoDupKeys ekey v /\ NoDupKeys nat p' /\ peq p' p.
Proof.
  intros Hs Hp Hv. unfold value_leaf in Hv.
  destruct (find_eval p (f_points (funs s f))) as [[g0 v0]|] eqn:Hf.
  - injection Hv as <- <- <-. destruct (find_eval_wf _ _ _ _ (Hs f) Hf). split; [|split]; try assumption.
    apply peq_refl.
  - destruct (oracle_leaf f p s) as [[[g1 v1] p1] s2] eqn:Ho. injection Hv as <- <- <-.
    destruct (oracle_leaf_wf _ _ _ _ _ _ _ Hs Hp Ho) as (_ & H2 & H3 & H4). auto.
Qed.

(** ** Equality of outcomes up to representation *)
Lemma smp_eq_refl a : smp_eq a a.
Proof. destruct a as [[x g] v]. split; [|split]; auto using peq_refl, xeq_refl. Qed.
Lemma Forall2_refl {A} (R : A -> A -> Prop) l : (forall a, R a a) -> Forall2 R l l.
Proof. intros H. induction l; constructor; auto. Qed.
Lemma frec_eq_refl r : frec_eq r r.
Proof. split; [reflexivity|split; apply Forall2_refl; auto using smp_eq_refl, ceq_refl]. Qed.
Lemma state_eq_refl s : state_eq s s.
Proof. split; [reflexivity|split; [reflexivity|intros f; apply frec_eq_refl]]. Qed.

(** two dictionaries pinned to the same meaning are equal up to representation *)
Lemma peq_pinned a b (m : forall E : ips, (nat -> E) -> E) :
  (forall E rho, veq (evalP rho a) (m E rho)) -> (forall E rho, veq (evalP rho b) (m E rho)) -> peq a b.
Proof. intros Ha Hb E rho. rewrite Ha, Hb. reflexivity. Qed.
Lemma ceq_pinned a b (m : forall E : ips, (nat -> E) -> (nat -> R) -> Prop) :
  snd a = snd b ->
  (forall E rho phi, holds rho phi a <-> m E rho phi) -> (forall E rho phi, holds rho phi b <-> m E rho phi) ->
  ceq a b.
Proof. intros Hs Ha Hb. split; [exact Hs|]. intros E rho phi. rewrite Ha, Hb. tauto. Qed.

Lemma state_eq_bump a b s s' : state_eq s s' -> state_eq (bump a b s) (bump a b s').
Proof.
  intros (H1 & H2 & H3). unfold bump, state_eq; cbn [pt_ctr ex_ctr funs].
  split; [congruence|split; [congruence|exact H3]].
Qed.

Lemma state_eq_add_sample f a a' s s' :
  state_eq s s' -> smp_eq a a' -> state_eq (add_sample f a s) (add_sample f a' s').
Proof.
  intros (H1 & H2 & H3) Ha. unfold add_sample, state_eq; cbn [pt_ctr ex_ctr funs].
  split; [exact H1|split; [exact H2|]].
  intros f'. unfold updf. destruct (Nat.eqb f' f); [|apply H3].
  destruct (H3 f) as (R1 & R2 & R3). unfold frec_eq; cbn [f_reuse f_points f_cons].
  split; [exact R1|split; [|exact R3]].
  apply Forall2_app; [exact R2|constructor; [exact Ha|constructor]].
Qed.

Lemma state_eq_add_cons f a a' s s' :
  state_eq s s' -> ceq a a' -> state_eq (add_cons f a s) (add_cons f a' s').
Proof.
  intros (H1 & H2 & H3) Ha. unfold add_cons, state_eq; cbn [pt_ctr ex_ctr funs].
  split; [exact H1|split; [exact H2|]].
  intros f'. unfold updf. destruct (Nat.eqb f' f); [|apply H3].
  destruct (H3 f) as (R1 & R2 & R3). unfold frec_eq; cbn [f_reuse f_points f_cons].
  split; [exact R1|split; [exact R2|]].
  apply Forall2_app; [exact R3|constructor; [exact Ha|constructor]].
Qed.

Lemma state_eq_add_conss f l l' s s' :
  state_eq s s' -> Forall2 ceq l l' -> state_eq (add_conss f l s) (add_conss f l' s').
Proof.
  intros Hs Hl. revert s s' Hs. induction Hl as [|a a' l l' Ha Hl IH]; intros s s' Hs; cbn; [exact Hs|].
  apply IH. apply state_eq_add_cons; assumption.
Qed.

(** ** Symbolic execution of generated programs *)
Global Arguments nth {A} !n !l default : simpl nomatch.

Ltac closed_Qeq :=
  repeat match goal with
         | |- context [Qeq_bool (Qmake ?n ?d) 0%Q] =>
             let r := eval vm_compute in (Qeq_bool (Qmake n d) 0%Q) in
             change (Qeq_bool (Qmake n d) 0%Q) with r
         end.

(** all variables of an environment built by [upd] from well-formed dictionaries are well-formed *)
Ltac wf_env :=
  cbv beta;
  repeat match goal with
         | |- _ => assumption
         | |- NoDupKeys _ (leafP _) => apply pND_leaf
         | |- NoDupKeys _ (leafX _) => apply eND_leaf
         | |- NoDupKeys nat [] => apply pND_nil
         | |- NoDupKeys ekey [] => apply eND_nil
         | |- NoDupKeys nat (prune _) => apply pND_prune
         | |- NoDupKeys ekey (prune _) => apply eND_prune
         | |- NoDupKeys nat (compileP _ _ _) => apply compileP_wf
         | |- NoDupKeys ekey (compileX _ _ _ _) => apply compileX_wf
         | |- forall k, NoDupKeys nat (upd _ _ _ k) => apply (upd_wf (NoDupKeys nat))
         | |- forall k, NoDupKeys ekey (upd _ _ _ k) => apply (upd_wf (NoDupKeys ekey))
         | |- forall k, NoDupKeys nat (nth k _ _) => apply (nth_wf (NoDupKeys nat))
         | |- forall k, NoDupKeys _ [] => intro
         | |- Forall _ (_ :: _) => apply Forall_cons
         | |- Forall _ [] => apply Forall_nil
         | |- forall k, NoDupKeys _ _ => progress cbv beta
         end.

(** look-ups of concrete variables in environments built by [upd] *)
Ltac upd_red :=
  repeat match goal with
         | |- context [@upd ?A ?v ?a ?m ?k] =>
             let b := eval cbv in (Nat.eqb k v) in
             lazymatch b with
             | true => change (@upd A v a m k) with a
             | false => change (@upd A v a m k) with (m k)
             end
         end.

(** unfold the interpreter on a concrete program, leaving [compileP] / [compileX] / [compileC],
    [prune], [oracle_leaf], [value_leaf] and the state helpers folded *)
Ltac step_exec :=
  cbv [run run_full exec exec_s exec_body init_env mk_args a_scal a_fun a_pts a_dirs
       setp setx setc e_p e_x e_c fst snd add_point eval_rv map
       pdefb xdefb cdefb sdefb andb negb seval];
  cbn [nth]; closed_Qeq; cbn [negb andb]; upd_red; cbn [nth].
