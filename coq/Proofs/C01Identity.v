(** C01, the certificate: under the solver assumption [Spec.KKT.stationary], for EVERY declared model
    (LMIs symmetric as written or not) the multipliers the objects show after assign o recover - lambda_c,
    the residual and, for each LMI, the multipliers u_k of its entry correspondences - satisfy the identity
    over all symmetric G and all F, and the reconstruction returns exactly its constant; the dual matrix of an
    LMI is the symmetric part of u_k; weak duality follows from dual feasibility.
    (Proof of the identity: the constant Lagrangian is instantiated at M_k := 0, always a legal symmetric
    value; the entry rows then contribute u_kij * e_kij, like scalar equality rows.) *)
From Coq Require Import List QArith Reals Qreals Lra Lia Arith Bool.
From PV Require Import Base.IPS Model.Dict Model.Terms Model.Sent Model.Cvxpy Model.Cert
     Spec.Sem Spec.GramSem Spec.KKT Proofs.DictLemmas Proofs.SemLemmas Proofs.C01Layout Proofs.C01Gram
     Proofs.PSDLemmas.
Import ListNotations.
Local Open Scope R_scope.

Definition wf_lmi (m : list (list edict)) : Prop :=
  Forall (fun row => length row = ncols m /\ Forall wf_edict row) m.

Lemma F2_length {A B} (P : A -> B -> Prop) l1 l2 : Forall2 P l1 l2 -> length l1 = length l2.
Proof. induction 1; cbn; congruence. Qed.

(** ** The Lagrangian of the emitted problem, split into its (G,F) part and its M part *)
Section AtM.
  Variable G : nat -> nat -> R.
  Variable F : nat -> R.
  Variable M : nat -> nat -> nat -> R.

  Lemma rows_term_app r1 : forall r2 ds,
    rows_term G F M (r1 ++ r2) ds
    = rows_term G F M r1 (firstn (length r1) ds) + rows_term G F M r2 (skipn (length r1) ds).
  Proof.
    induction r1 as [|r r1 IH]; intros r2 ds; cbn [app length firstn skipn rows_term].
    - lra.
    - destruct ds as [|d ds]; cbn [firstn skipn rows_term].
      + destruct r2; cbn; lra.
      + rewrite IH. lra.
  Qed.

  (** one row of entry equalities M[i][jb..] == e_i,jb.. *)
  Lemma entry_row_terms kk m i : forall c0 jb dsr, length dsr = c0 ->
    rows_term G F M (map (fun j => REnt kk i j (entry m i j)) (seq jb c0)) dsr
    = rdot (map scalar_of dsr) (lmi_value G F m i) jb - rdot (map scalar_of dsr) (M kk i) jb.
  Proof.
    induction c0 as [|c0 IH]; intros jb dsr Hlen; destruct dsr as [|d dsr]; try discriminate;
      cbn [seq map rows_term rdot]; [lra|].
    cbn [length] in Hlen. injection Hlen as Hlen. rewrite (IH (S jb) dsr Hlen).
    destruct d as [u|Sm]; cbn [row_term scalar_of]; unfold lmi_value; [lra|].
    rewrite RMicromega.Q2R_0. lra.
  Qed.

  Lemma firstn_map {A B} (f : A -> B) n l : firstn n (map f l) = map f (firstn n l).
  Proof. revert l. induction n as [|n IH]; intros [|a l]; cbn; try reflexivity. rewrite IH. reflexivity. Qed.
  Lemma skipn_map' {A B} (f : A -> B) n l : skipn n (map f l) = map f (skipn n l).
  Proof. revert l. induction n as [|n IH]; intros [|a l]; cbn; try reflexivity. apply IH. Qed.

  (** all the entry equalities of an LMI *)
  Lemma entry_rows_terms kk m : forall n0 base ds, length ds = (n0 * ncols m)%nat ->
    rows_term G F M
      (flat_map (fun i => map (fun j => REnt kk i j (entry m i j)) (seq 0 (ncols m))) (seq base n0)) ds
    = mdot_from (reshape (ncols m) (map scalar_of ds) n0) (lmi_value G F m) base
      - mdot_from (reshape (ncols m) (map scalar_of ds) n0) (M kk) base.
  Proof.
    induction n0 as [|n0 IH]; intros base ds Hlen; cbn [seq flat_map reshape mdot_from rows_term]; [lra|].
    rewrite rows_term_app, map_length, seq_length.
    assert (Hc : (ncols m <= length ds)%nat) by (rewrite Hlen; cbn; lia).
    rewrite (entry_row_terms kk m base (ncols m) 0%nat) by (rewrite firstn_length; lia).
    rewrite (IH (S base)) by (rewrite skipn_length, Hlen; cbn; lia).
    rewrite firstn_map, skipn_map'. lra.
  Qed.

  (** the part of the Lagrangian that depends on M: sum_k <S_k, M_k> - sum_k <u_k, M_k> *)
  Fixpoint mpart (kk : nat) (l : sent) (ds : list dval) : R :=
    match l with
    | [] => 0
    | SC e s :: r => mpart kk r (skipn (width (SC e s)) ds)
    | LMI m :: r =>
        match hd dnone ds with VM Sd => mdot Sd (M kk) | VS _ => 0 end
        - mdot (reshape (ncols m) (map scalar_of (firstn (nrows m * ncols m) (tl ds))) (nrows m)) (M kk)
        + mpart (S kk) r (skipn (width (LMI m)) ds)
    end.

  Definition shown (l : sent) (ds : list dval) : list expo := combine (combine l (mains l ds)) (ents l ds).

  Lemma rows_term_emit l : forall kk ds,
    length ds = total_width l ->
    rows_term G F M (emit_from kk l) ds = - multiplier_sum G F (shown l ds) + mpart kk l ds.
  Proof.
    unfold shown.
    induction l as [|[e s|m] l IH]; intros kk ds Hlen;
      cbn [emit_from mains ents combine multiplier_sum rows_term mpart].
    - lra.
    - cbn [total_width width] in Hlen. destruct ds as [|d ds]; [cbn in Hlen; lia|].
      cbn [hd skipn width]. cbn [length] in Hlen.
      rewrite (IH kk ds) by lia.
      destruct s, d as [la|Sm]; cbn [scalar_row row_term multiplier_sum]; lra.
    - cbn [total_width width] in Hlen. destruct ds as [|d ds]; [cbn in Hlen; lia|].
      cbn [length] in Hlen. unfold lmi_rows. cbn [app rows_term hd tl width].
      change (skipn (1 + nrows m * ncols m) (d :: ds)) with (skipn (nrows m * ncols m) ds).
      rewrite rows_term_app, length_entry_rows. unfold entry_rows.
      rewrite (entry_rows_terms kk m (nrows m) 0%nat) by (rewrite firstn_length; lia).
      rewrite (IH (S kk)) by (rewrite skipn_length; lia).
      cbn [lmi_multiplier]. unfold mdot.
      destruct d as [la|Sm]; cbn [row_term]; unfold mdot; lra.
  Qed.
End AtM.

Lemma rdot_zero row j0 : rdot row (fun _ => 0) j0 = 0.
Proof. revert j0. induction row as [|q row IH]; intro j0; cbn [rdot]; [reflexivity|rewrite IH; lra]. Qed.
Lemma mdot_from_zero Sm i0 : mdot_from Sm (fun _ _ => 0) i0 = 0.
Proof. revert i0. induction Sm as [|row Sm IH]; intro i0; cbn [mdot_from]; [reflexivity|rewrite IH, rdot_zero; lra]. Qed.

Lemma mpart_zero l : forall kk ds, mpart (fun _ _ _ => 0) kk l ds = 0.
Proof.
  induction l as [|[e s|m] l IH]; intros kk ds; cbn [mpart]; [reflexivity|apply IH|].
  rewrite IH. unfold mdot. rewrite mdot_from_zero. destruct (hd dnone ds); [lra|rewrite mdot_from_zero; lra].
Qed.

(** ** What the objects show is well shaped *)
Lemma same_shape_of Sm m : shape Sm (nrows m) (ncols m) -> wf_lmi m -> same_shape Sm m.
Proof.
  intros [Hn Hf] Hwf. unfold same_shape, wf_lmi, nrows in *.
  set (c := ncols m) in *. clearbody c. revert m Hn Hwf.
  induction Sm as [|s Sm IH]; intros m Hn Hwf; destruct m as [|e m]; cbn [length] in Hn; try discriminate; constructor.
  - inversion Hf; inversion Hwf; subst. intuition congruence.
  - inversion Hf; inversion Hwf; subst. apply IH; auto.
Qed.

Lemma shape_reshape c l : forall n, length l = (n * c)%nat -> shape (reshape c l n) n c.
Proof.
  intros n. revert l. induction n as [|n IH]; intros l Hl; cbn [reshape]; [split; [reflexivity|constructor]|].
  destruct (IH (skipn c l)) as [H1 H2]; [rewrite skipn_length; cbn in Hl; lia|].
  split; [cbn [length]; rewrite H1; reflexivity|]. constructor; [|exact H2].
  rewrite firstn_length. cbn in Hl. lia.
Qed.

Lemma wf_lmi_matrix m : wf_lmi m -> wf_matrix m.
Proof. unfold wf_lmi, wf_matrix. apply Forall_impl. intros row [_ H]. exact H. Qed.

Lemma shown_ok l : forall kk ds,
  wf_sent l -> Forall2 dual_fits (emit_from kk l) ds ->
  Forall ok_expo (shown l ds).
Proof.
  unfold shown.
  induction l as [|[e s|m] l IH]; intros kk ds Hwf Hfit; cbn [mains ents combine]; [constructor| |].
  - inversion Hwf as [|? ? He Hwf']; subst. cbn [emit_from] in Hfit.
    inversion Hfit as [|r d rs ds' Hd Hfit']; subst. cbn [hd skipn width].
    constructor; [|apply (IH kk); assumption]. exact He.
  - inversion Hwf as [|? ? Hm Hwf']; subst. cbn [emit_from] in Hfit. unfold lmi_rows in Hfit.
    inversion Hfit as [|r d rs ds' Hd Hfit']; subst. cbn [hd tl width].
    change (skipn (1 + nrows m * ncols m) (d :: ds')) with (skipn (nrows m * ncols m) ds').
    apply Forall2_app_inv_l in Hfit' as [d1 [d2 [H1 [H2 ->]]]].
    assert (Hl : length d1 = (nrows m * ncols m)%nat)
      by (rewrite <- (F2_length _ _ _ H1); apply length_entry_rows).
    rewrite <- Hl, skipn_app, skipn_all, Nat.sub_diag, firstn_app, firstn_all, Nat.sub_diag. cbn [app skipn firstn].
    rewrite app_nil_r.
    constructor; [|apply (IH (S kk)); assumption].
    cbn [ok_expo lmi_multiplier]. split; [|split; [|apply wf_lmi_matrix; exact Hm]].
    + apply same_shape_of; [|exact Hm]. apply shape_reshape. rewrite map_length. exact Hl.
    + destruct d as [la|Sm]; [exact I|]. cbn [dual_fits] in Hd. apply same_shape_of; assumption.
Qed.

Lemma map_snd_combine {A B} (l : list A) (l' : list B) : length l = length l' -> map snd (combine l l') = l'.
Proof.
  revert l'. induction l as [|a l IH]; intros [|b l'] H; cbn in *; try discriminate; [reflexivity|].
  f_equal. apply IH. lia.
Qed.

(** with every object sent once, [exposed] is what [shown] says *)
Lemma exposed_shown tracked ids d0 ds :
  NoDup ids -> length ids = length tracked -> (total_width tracked <= length ds)%nat ->
  exposed tracked ids (d0 :: ds) = (shown tracked ds, d0).
Proof.
  intros Hnd Hlen Hds. unfold exposed, recover. cbn [nth].
  pose proof (recover_loop_spec tracked [d0] ds 1 Hds) as Hrec. cbn [length app] in Hrec.
  rewrite Hrec. unfold assign. cbn [tl].
  rewrite map_snd_combine by (rewrite length_mains; reflexivity).
  rewrite !by_object_nodup by (rewrite ?length_mains, ?length_ents; assumption).
  reflexivity.
Qed.

(** ** A dictionary whose value is the same at every (G,F) is a constant dictionary *)
Section Ident.
  Definition ind (k : ekey) : ekey -> R := fun k' => if ekey_eqb k' k then 1 else 0.

  Lemma dsum_ind_absent k d : ~ In k (keys d) -> dsum ekey (ind k) d = 0.
  Proof.
    induction d as [|[k' v] d IH]; intro H; cbn [dsum]; [reflexivity|].
    rewrite IH by (intro; apply H; right; assumption). unfold ind.
    destruct (ekey_eqb_spec k' k) as [->|]; [exfalso; apply H; left; reflexivity|lra].
  Qed.

  Definition getR (k : ekey) (d : edict) : R :=
    match lookup ekey_eqb k d with Some v => Q2R v | None => 0 end.

  Lemma dsum_ind k d : eND d -> dsum ekey (ind k) d = getR k d.
  Proof.
    unfold NoDupKeys, getR. induction d as [|[k' v] d IH]; intro H; cbn [dsum lookup]; [reflexivity|].
    inversion H as [|? ? Hn H']; subst. unfold ind at 1.
    destruct (ekey_eqb_spec k' k) as [->|Hne].
    - destruct (ekey_eqb_spec k k) as [_|]; [|congruence]. rewrite dsum_ind_absent by exact Hn. lra.
    - destruct (ekey_eqb_spec k k') as [->|_]; [congruence|]. rewrite IH by exact H'. lra.
  Qed.

  Lemma dsum_val_plus (v1 v2 : ekey -> R) d :
    dsum ekey (fun k => v1 k + v2 k) d = dsum ekey v1 d + dsum ekey v2 d.
  Proof. induction d as [|[k q] d IH]; cbn [dsum]; [lra|rewrite IH; lra]. Qed.

  Lemma dsum_val_ext (v1 v2 : ekey -> R) d : (forall k, v1 k = v2 k) -> dsum ekey v1 d = dsum ekey v2 d.
  Proof. intro H. induction d as [|[k q] d IH]; cbn [dsum]; [reflexivity|rewrite IH, H; reflexivity]. Qed.

  Lemma Q2R_nonzero v : ~ (v == 0)%Q -> Q2R v <> 0.
  Proof. intros H H0. apply H. apply eqR_Qeq. rewrite H0, RMicromega.Q2R_0. reflexivity. Qed.

  Theorem constant_dict d tau :
    eND d -> (forall k v, In (k, v) d -> ~ (v == 0)%Q) ->
    (forall G F, evalGF G F d = tau) ->
    Q2R (constant_of d) = tau /\ forall k v, In (k, v) d -> k = K1.
  Proof.
    intros Hd Hnz Hc.
    assert (H1 : getR K1 d = tau).
    { rewrite <- (Hc (fun _ _ => 0) (fun _ => 0)), ev_dsum, <- dsum_ind by exact Hd.
      apply dsum_val_ext. intros [e|i j|]; reflexivity. }
    split.
    - rewrite <- H1. unfold constant_of, getR. destruct (lookup ekey_eqb K1 d); [reflexivity|apply RMicromega.Q2R_0].
    - intros k v Hin.
      assert (Hg : getR k d = Q2R v).
      { unfold getR. rewrite (In_lookup ekey ekey_eqb ekey_eqb_spec k v d Hd Hin). reflexivity. }
      pose proof (Q2R_nonzero v (Hnz k v Hin)) as Hv.
      destruct k as [e|i j|]; [exfalso|exfalso|reflexivity].
      + pose proof (Hc (fun _ _ => 0) (fun e' => if Nat.eqb e' e then 1 else 0)) as H.
        rewrite ev_dsum in H.
        rewrite (dsum_val_ext _ (fun k => ind K1 k + ind (KF e) k)) in H.
        2:{ intros [e'|i' j'|]; unfold ind; cbn [evalKGF ekey_eqb]; lra. }
        rewrite dsum_val_plus, !dsum_ind in H by exact Hd. lra.
      + pose proof (Hc (fun i' j' => if (Nat.eqb i' i && Nat.eqb j' j)%bool then 1 else 0) (fun _ => 0)) as H.
        rewrite ev_dsum in H.
        rewrite (dsum_val_ext _ (fun k => ind K1 k + ind (KG i j) k)) in H.
        2:{ intros [e'|i' j'|]; unfold ind; cbn [evalKGF ekey_eqb]; lra. }
        rewrite dsum_val_plus, !dsum_ind in H by exact Hd. lra.
  Qed.
End Ident.

(** ** Stationarity in M_k: the dual matrix of an LMI is the symmetric part of its entry multipliers *)
Lemma rdot_ext row : forall a b j0, (forall j, a j = b j) -> rdot row a j0 = rdot row b j0.
Proof. induction row as [|q row IH]; intros a b j0 H; cbn [rdot]; [reflexivity|]. rewrite H, (IH a b); auto. Qed.
Lemma mdot_ext Sm A B : (forall i j, A i j = B i j) -> mdot Sm A = mdot Sm B.
Proof.
  intro H. unfold mdot. generalize 0%nat. induction Sm as [|row Sm IH]; intro i0; cbn [mdot_from]; [reflexivity|].
  rewrite IH. f_equal. apply rdot_ext. intro j. apply H.
Qed.

Lemma mpart_ext M M' l : forall kk ds,
  (forall k i j, (kk <= k)%nat -> M k i j = M' k i j) -> mpart M kk l ds = mpart M' kk l ds.
Proof.
  induction l as [|[e s|m] l IH]; intros kk ds H; cbn [mpart]; [reflexivity|apply IH; exact H|].
  rewrite (IH (S kk)) by (intros; apply H; lia).
  rewrite (mdot_ext _ (M kk) (M' kk)) by (intros; apply H; lia).
  destruct (hd dnone ds) as [q|Sd]; [reflexivity|].
  rewrite (mdot_ext Sd (M kk) (M' kk)) by (intros; apply H; lia). reflexivity.
Qed.

Definition delta (a i : nat) : R := if Nat.eqb a i then 1 else 0.

Lemma sumn_delta n (g : nat -> R) j : (j < n)%nat -> sumn n (fun b => g b * delta b j) = g j.
Proof.
  induction n as [|n IH]; intro Hj; [lia|]. cbn [sumn]. unfold delta at 2.
  destruct (Nat.eqb_spec n j) as [->|Hne].
  - rewrite (sumn_ext j _ (fun _ => 0)).
    + rewrite sumn_zero. lra.
    + intros b Hb. unfold delta. destruct (Nat.eqb_spec b j); [lia|lra].
  - rewrite IH by lia. lra.
Qed.

(** the symmetric matrix unit E_ij + E_ji *)
Definition sym_unit (i j : nat) : nat -> nat -> R := fun a b => delta a i * delta b j + delta a j * delta b i.

Lemma mdot_sym_unit X n i j : shape X n n -> (i < n)%nat -> (j < n)%nat ->
  mdot X (sym_unit i j) = matR X i j + matR X j i.
Proof.
  intros Hs Hi Hj. rewrite (mdot_sumn X _ n n Hs). unfold sym_unit.
  rewrite (sumn_ext n _ (fun a => matR X a j * delta a i + matR X a i * delta a j)).
  - rewrite sumn_plus, !sumn_delta by assumption. reflexivity.
  - intros a Ha.
    rewrite (sumn_ext n _ (fun b => (matR X a b * delta a i) * delta b j + (matR X a b * delta a j) * delta b i))
      by (intros; lra).
    rewrite sumn_plus.
    rewrite (sumn_delta n (fun b => matR X a b * delta a i) j Hj), (sumn_delta n (fun b => matR X a b * delta a j) i Hi).
    reflexivity.
Qed.

Definition sym_ok (p : expo) : Prop :=
  match p with
  | (LMI m, VM Sd, Some u) =>
      shape Sd (nrows m) (nrows m) -> shape u (nrows m) (nrows m) -> same_sym_part u Sd (nrows m)
  | _ => True
  end.

Lemma mpart_sym l : forall kk ds,
  (forall M, (forall k, symG (M k)) -> mpart M kk l ds = 0) -> Forall sym_ok (shown l ds).
Proof.
  unfold shown.
  induction l as [|[e s|m] l IH]; intros kk ds H; cbn [mains ents combine]; [constructor| |].
  - constructor; [exact I|]. apply (IH kk). intros M HM. exact (H M HM).
  - constructor.
    + cbn [sym_ok]. destruct (hd dnone ds) as [q|Sd] eqn:Hd; [exact I|]. intros HS Hu i j Hi Hj.
      set (A := sym_unit i j).
      pose (M := fun k : nat => if Nat.eqb k kk then A else (fun _ _ => 0)).
      assert (HM : forall k, symG (M k)).
      { intros k a b. unfold M. destruct (Nat.eqb k kk); [|reflexivity]. unfold A, sym_unit. lra. }
      specialize (H M HM). cbn [mpart] in H. rewrite Hd in H.
      rewrite (mpart_ext M (fun _ _ _ => 0)) in H.
      2:{ intros k a b Hk. unfold M. destruct (Nat.eqb_spec k kk); [lia|reflexivity]. }
      rewrite mpart_zero in H.
      assert (HMk : M kk = A) by (unfold M; rewrite Nat.eqb_refl; reflexivity).
      rewrite HMk in H. unfold A in H.
      rewrite (mdot_sym_unit Sd _ i j HS Hi Hj), (mdot_sym_unit _ _ i j Hu Hi Hj) in H. lra.
    + apply (IH (S kk)). intros M HM.
      pose (M' := fun k : nat => if Nat.leb k kk then (fun _ _ => 0) else M k).
      assert (HM' : forall k, symG (M' k)).
      { intros k a b. unfold M'. destruct (Nat.leb k kk); [reflexivity|apply HM]. }
      specialize (H M' HM'). cbn [mpart] in H.
      assert (Hz : M' kk = fun _ _ => 0) by (unfold M'; rewrite Nat.leb_refl; reflexivity).
      rewrite Hz in H. unfold mdot in H. rewrite !mdot_from_zero in H.
      rewrite (mpart_ext M' M) in H.
      2:{ intros k a b Hk. unfold M'. destruct (Nat.leb_spec k kk); [lia|reflexivity]. }
      destruct (hd dnone ds); rewrite ?mdot_from_zero in H; lra.
Qed.

(** * C01_dual_matrix_is_sym_part *)
Theorem dual_matrix_is_sym_part :
  forall (obj : edict) (tracked : sent) (ids : list nat) (temp : list dval) (tau : R),
    NoDup ids -> length ids = length tracked ->
    length temp = length (emit tracked) ->
    stationary obj (emit tracked) temp tau ->
    Forall sym_ok (fst (exposed tracked ids temp)).
Proof.
  intros obj tracked ids temp tau Hnd Hids Hlen Hstat.
  rewrite length_emit in Hlen. destruct temp as [|d0 ds]; [cbn in Hlen; lia|]. cbn [length] in Hlen.
  rewrite (exposed_shown tracked ids d0 ds Hnd Hids) by lia. cbn [fst].
  apply (mpart_sym tracked 0%nat ds). intros M HM.
  pose proof (Hstat (fun _ _ => 0) (fun _ => 0) M (fun _ _ => eq_refl) HM) as H1.
  pose proof (Hstat (fun _ _ => 0) (fun _ => 0) (fun _ _ _ => 0) (fun _ _ => eq_refl) (fun _ _ _ => eq_refl)) as H0.
  unfold lagrangian, emit in H1, H0. cbn [rows_term] in H1, H0.
  rewrite (rows_term_emit _ _ M tracked 0%nat ds) in H1 by lia.
  rewrite (rows_term_emit _ _ (fun _ _ _ => 0) tracked 0%nat ds) in H0 by lia.
  rewrite mpart_zero in H0.
  assert (Hg : forall M1 M2, row_term (fun _ _ => 0) (fun _ => 0) M1 RGram d0 = row_term (fun _ _ => 0) (fun _ => 0) M2 RGram d0)
    by (intros; destruct d0; reflexivity).
  rewrite (Hg M (fun _ _ _ => 0)) in H1. lra.
Qed.

(** * C01_identity : for ALL declared models *)
Theorem identity :
  forall (obj : edict) (tracked : sent) (ids : list nat) (temp : list dval) (tau : R),
    wf_edict obj -> wf_sent tracked ->
    NoDup ids -> length ids = length tracked ->
    kkt_dual obj (emit tracked) temp tau ->
    let '(a, res, fd, t) := certificate obj tracked ids temp in
    certificate_identity obj a (res_matrix res) tau
    /\ Q2R t = tau
    /\ (forall k v, In (k, v) fd -> k = K1).
Proof.
  intros obj tracked ids temp tau Hobj Hwf Hnd Hids [Hfit Hstat].
  assert (Hlen : length temp = length (emit tracked)) by (symmetry; apply (F2_length _ _ _ Hfit)).
  pose proof Hlen as Hlen'. rewrite length_emit in Hlen'.
  destruct temp as [|d0 ds]; [cbn in Hlen'; lia|]. cbn [length] in Hlen'.
  unfold certificate. rewrite (exposed_shown tracked ids d0 ds Hnd Hids) by lia.
  set (a := shown tracked ds).
  unfold emit in Hfit. inversion Hfit as [|r0 d0' rs ds' Hd0 Hfit']; subst.
  assert (Hok : Forall ok_expo a) by (apply (shown_ok tracked 0%nat ds Hwf Hfit')).
  (* the identity: the constant Lagrangian at M := 0 *)
  assert (Hid : certificate_identity obj a (res_matrix d0) tau).
  { intros G F HG.
    pose proof (Hstat G F (fun _ _ _ => 0) HG (fun _ _ _ => eq_refl)) as HL.
    unfold lagrangian, emit in HL. cbn [rows_term] in HL.
    rewrite (rows_term_emit G F _ tracked 0%nat ds) in HL by lia.
    rewrite mpart_zero in HL. fold a in HL.
    destruct d0 as [q|S0]; cbn [row_term res_matrix] in *; [unfold mdot; cbn [mdot_from]|]; lra. }
  split; [exact Hid|].
  (* the reconstruction *)
  unfold reconstruct.
  set (fd := final_dict obj (res_matrix d0) a).
  assert (Hfd : forall G F, evalGF G F fd = tau).
  { intros G F. unfold fd, final_dict, final_dict_of.
    destruct (combination_spec (symm G) F (res_matrix d0) a Hok) as [Hcc Hcv].
    rewrite ev_prune, evalGF_symmetrize by (apply eND_sub; assumption).
    rewrite ev_sub, Hcv by assumption.
    pose proof (Hid (symm G) F (symm_sym G)) as H. lra. }
  assert (HfdND : eND fd).
  { unfold fd, final_dict, final_dict_of. apply NoDupKeys_prune. unfold symmetrize.
    unfold NoDupKeys. rewrite keys_halve.
    destruct (combination_spec (fun _ _ => 0) (fun _ => 0) (res_matrix d0) a Hok) as [Hcc _].
    apply (NoDupKeys_merge ekey ekey_eqb ekey_eqb_spec); [|apply eND_swap]; apply eND_sub; assumption. }
  assert (Hfdnz : forall k v, In (k, v) fd -> ~ (v == 0)%Q).
  { intros k v Hin. unfold fd, final_dict, final_dict_of in Hin. exact (prune_nonzero ekey _ k v Hin). }
  exact (constant_dict fd tau HfdND Hfdnz Hfd).
Qed.

(** the same, restated with projections *)
Theorem identity_proj :
  forall (obj : edict) (tracked : sent) (ids : list nat) (temp : list dval) (tau : R),
    wf_edict obj -> wf_sent tracked -> NoDup ids -> length ids = length tracked ->
    kkt_dual obj (emit tracked) temp tau ->
    certificate_identity obj (fst (exposed tracked ids temp)) (res_matrix (snd (exposed tracked ids temp))) tau
    /\ Q2R (snd (certificate obj tracked ids temp)) = tau.
Proof.
  intros obj tracked ids temp tau Ho Hw Hnd Hl Hk.
  pose proof (identity obj tracked ids temp tau Ho Hw Hnd Hl Hk) as H.
  unfold certificate in *. destruct (exposed tracked ids temp) as [a res]. cbn [fst snd] in *.
  destruct H as [H1 [H2 _]]. split; assumption.
Qed.

(** * C01_weak_duality *)
Lemma multiplier_sum_nonpos G F np l : forall (ds : list dval) (es : list (option (list (list Q)))),
  feasible np l G F -> dual_feasible (combine (combine l ds) es) -> length ds = length l -> length es = length l ->
  multiplier_sum G F (combine (combine l ds) es) <= 0.
Proof.
  intros ds es [_ [_ Hfe]]. revert ds es. induction l as [|it l IH]; intros ds es Hdf Hlen Hlen'; [cbn; lra|].
  destruct ds as [|d ds]; [discriminate|]. destruct es as [|u es]; [discriminate|].
  cbn [length] in Hlen, Hlen'. injection Hlen as Hlen. injection Hlen' as Hlen'.
  inversion Hfe as [|? ? Hit Hfe']; subst. cbn [combine] in *.
  destruct it as [e s|m], d as [la|Sm]; cbn [dual_feasible multiplier_sum] in *; try (destruct s; tauto); try tauto.
  - destruct s; cbn [item_holds holdsGF fst snd] in Hit.
    + destruct Hdf as [Hla Hdf]. specialize (IH Hfe' ds es Hdf Hlen Hlen'). nra.
    + specialize (IH Hfe' ds es Hdf Hlen Hlen'). rewrite Hit. lra.
  - destruct u as [u|]; [|tauto]. destruct Hdf as [Hr [Hu [Hsym Hdf]]]. specialize (IH Hfe' ds es Hdf Hlen Hlen').
    cbn [item_holds lmi_multiplier] in *.
    rewrite (mdot_sym_part u Sm _ _ Hu (proj1 Hr) Hsym (proj1 Hit)).
    pose proof (psd_pairing_nonneg Sm _ _ Hr Hit). lra.
Qed.

Theorem weak_duality :
  forall (np : nat) (obj : edict) (tracked : sent) (duals : list dval) (entries : list (option (list (list Q))))
         (res : list (list Q)) (tau : R),
    length duals = length tracked -> length entries = length tracked ->
    certificate_identity obj (combine (combine tracked duals) entries) res tau ->
    dual_feasible (combine (combine tracked duals) entries) ->
    rank1sum res np ->
    forall G F, feasible np tracked G F -> evalGF G F obj <= tau.
Proof.
  intros np obj tracked duals entries res tau Hlen Hlen' Hid Hdf Hres G F Hfe.
  pose proof (Hid G F (proj1 Hfe)) as H.
  pose proof (multiplier_sum_nonpos G F np tracked duals entries Hfe Hdf Hlen Hlen') as H1.
  pose proof (psd_pairing_nonneg res G np Hres (proj1 (proj2 Hfe))) as H2. lra.
Qed.
