(** C01, the certificate: under the solver assumption [Spec.KKT.stationary], for every declared
    model whose LMIs are symmetric as written, the multipliers exposed by assign o recover satisfy
    the identity over all symmetric G and all F, and the reconstruction returns exactly its
    constant; weak duality follows from dual feasibility. *)
From Coq Require Import List QArith Reals Qreals Lra Lia Arith Bool.
From PV Require Import Base.IPS Model.Dict Model.Terms Model.Sent Model.Cvxpy Model.Cert
     Spec.Sem Spec.GramSem Spec.KKT Proofs.DictLemmas Proofs.SemLemmas Proofs.C01Layout Proofs.C01Gram
     Proofs.PSDLemmas.
Import ListNotations.
Local Open Scope R_scope.

(** ** "symmetric as written" gives a symmetric matrix value *)
Lemma ev_nil G F : evalGF G F [] = 0.
Proof. reflexivity. Qed.

Lemma sym_entry_spec a b : sym_entry a b = true -> eND a -> eND b ->
  forall G F, symG G -> evalGF G F a = evalGF G F b.
Proof.
  unfold sym_entry. intros H Ha Hb G F HG.
  destruct (prune (symmetrize (x_sub a b))) eqn:Hp; [|discriminate].
  assert (H0 : evalGF G F (prune (symmetrize (x_sub a b))) = 0) by (rewrite Hp; reflexivity).
  rewrite ev_prune, evalGF_symmetrize in H0 by (apply eND_sub; assumption).
  rewrite (evalGF_ext (symm G) G F F) in H0 by (intros; try apply symm_of_sym; auto).
  rewrite ev_sub in H0 by assumption. lra.
Qed.

Definition wf_lmi (m : list (list edict)) : Prop :=
  Forall (fun row => length row = ncols m /\ Forall wf_edict row) m.

Lemma wf_entry m i j : wf_lmi m -> eND (entry m i j).
Proof.
  intro H. unfold entry.
  destruct (nth_in_or_default i m []) as [Hin|Hd].
  - unfold wf_lmi in H. rewrite Forall_forall in H. destruct (H _ Hin) as [_ Hrow].
    destruct (nth_in_or_default j (nth i m []) []) as [Hin2|Hd2].
    + rewrite Forall_forall in Hrow. exact (Hrow _ Hin2).
    + rewrite Hd2. apply eND_nil.
  - rewrite Hd. destruct j; apply eND_nil.
Qed.

Lemma entry_out_of_range m i j : wf_lmi m ->
  (Nat.max (nrows m) (ncols m) <= i \/ Nat.max (nrows m) (ncols m) <= j)%nat -> entry m i j = [].
Proof.
  intros H Hij. unfold entry.
  destruct (le_lt_dec (nrows m) i) as [Hi|Hi].
  - unfold nrows in Hi. rewrite (nth_overflow m [] Hi). destruct j; reflexivity.
  - assert (Hin : In (nth i m []) m) by (apply nth_In; exact Hi).
    unfold wf_lmi in H. rewrite Forall_forall in H. destruct (H _ Hin) as [Hlen _].
    apply nth_overflow. rewrite Hlen. unfold nrows in *. lia.
Qed.

Lemma lmi_symmetric_spec m : lmi_symmetric m = true -> wf_lmi m ->
  forall G F, symG G -> symG (lmi_value G F m).
Proof.
  intros Hs Hwf G F HG i j. unfold lmi_value.
  set (n := Nat.max (nrows m) (ncols m)) in *.
  destruct (le_lt_dec n i) as [Hi|Hi]; [|destruct (le_lt_dec n j) as [Hj|Hj]].
  - rewrite (entry_out_of_range m i j), (entry_out_of_range m j i) by (auto; fold n; auto). reflexivity.
  - rewrite (entry_out_of_range m i j), (entry_out_of_range m j i) by (auto; fold n; auto). reflexivity.
  - unfold lmi_symmetric in Hs. fold n in Hs. rewrite forallb_forall in Hs.
    specialize (Hs i). rewrite forallb_forall in Hs.
    apply sym_entry_spec; [|apply wf_entry; exact Hwf|apply wf_entry; exact Hwf|exact HG].
    apply Hs; apply in_seq; lia.
Qed.

(** ** The Lagrangian of the emitted problem at M_k := E_k(G,F) *)
Section AtEk.
  Variable G : nat -> nat -> R.
  Variable F : nat -> R.
  Variable M : nat -> nat -> nat -> R.

  Lemma rows_term_app r1 : forall r2 ds,
    rows_term G F M (r1 ++ r2) ds
    = rows_term G F M r1 (firstn (length r1) ds) + rows_term G F M r2 (skipn (length r1) ds).
  Proof.
    induction r1 as [|r r1 IH]; intros r2 ds; cbn [app length firstn skipn rows_term].
    - lra.
    - destruct ds as [|d ds]; cbn [firstn skipn rows_term].
      + destruct r2; cbn; lra.
      + rewrite IH. lra.
  Qed.

  Lemma rows_term_zero rows : (forall r, In r rows -> forall d, row_term G F M r d = 0) ->
    forall ds, rows_term G F M rows ds = 0.
  Proof.
    induction rows as [|r rows IH]; intros H ds; cbn [rows_term]; [reflexivity|].
    destruct ds as [|d ds]; [reflexivity|].
    rewrite (H r (or_introl eq_refl)), IH by (intros; apply H; right; assumption). lra.
  Qed.

  Lemma entry_rows_vanish kk m : (forall i j, M kk i j = lmi_value G F m i j) ->
    forall ds, rows_term G F M (entry_rows kk m) ds = 0.
  Proof.
    intros HM. apply rows_term_zero. intros r Hin d. unfold entry_rows in Hin.
    apply in_flat_map in Hin as [i [_ Hin]]. apply in_map_iff in Hin as [j [<- _]].
    destruct d as [u|Sm]; cbn [row_term]; [|reflexivity].
    rewrite HM. unfold lmi_value. lra.
  Qed.

  Lemma rdot_ext row : forall a b j0, (forall j, a j = b j) -> rdot row a j0 = rdot row b j0.
  Proof. induction row as [|q row IH]; intros a b j0 H; cbn [rdot]; [reflexivity|]. rewrite H, (IH a b); auto. Qed.
  Lemma mdot_ext Sm A B : (forall i j, A i j = B i j) -> mdot Sm A = mdot Sm B.
  Proof.
    intro H. unfold mdot. generalize 0%nat. induction Sm as [|row Sm IH]; intro i0; cbn [mdot_from]; [reflexivity|].
    rewrite IH. f_equal. apply rdot_ext. intro j. apply H.
  Qed.

  Lemma rows_term_emit l : forall kk ds,
    (forall k i j, M (kk + k)%nat i j = lmi_value G F (nth k (lmis l) []) i j) ->
    length ds = total_width l ->
    rows_term G F M (emit_from kk l) ds = - multiplier_sum G F (combine l (mains l ds)).
  Proof.
    induction l as [|[e s|m] l IH]; intros kk ds HM Hlen; cbn [emit_from mains combine multiplier_sum rows_term].
    - lra.
    - cbn [total_width width] in Hlen. destruct ds as [|d ds]; [cbn in Hlen; lia|].
      cbn [hd skipn width]. cbn [length] in Hlen.
      rewrite (IH kk ds) by (try exact HM; lia).
      destruct s, d as [la|Sm]; cbn [scalar_row row_term multiplier_sum]; lra.
    - cbn [total_width width] in Hlen. destruct ds as [|d ds]; [cbn in Hlen; lia|].
      cbn [length] in Hlen. unfold lmi_rows. cbn [app rows_term hd width skipn].
      rewrite rows_term_app, length_entry_rows.
      rewrite entry_rows_vanish.
      2:{ intros i j. specialize (HM 0%nat i j). rewrite Nat.add_0_r in HM. exact HM. }
      rewrite (IH (S kk)).
      2:{ intros k i j. specialize (HM (S k) i j). cbn [lmis flat_map app nth] in HM.
          replace (S kk + k)%nat with (kk + S k)%nat by lia. exact HM. }
      2:{ rewrite skipn_length. lia. }
      change (skipn (1 + nrows m * ncols m) (d :: ds)) with (skipn (nrows m * ncols m) ds).
      destruct d as [la|Sm]; cbn [row_term multiplier_sum]; [lra|].
      rewrite (mdot_ext Sm (M kk) (lmi_value G F m)).
      2:{ intros i j. specialize (HM 0%nat i j). rewrite Nat.add_0_r in HM. exact HM. }
      lra.
  Qed.
End AtEk.

Lemma F2_length {A B} (P : A -> B -> Prop) l1 l2 : Forall2 P l1 l2 -> length l1 = length l2.
Proof. induction 1; cbn; congruence. Qed.

(** the exposed pairs are well-shaped *)
Lemma same_shape_of Sm m : shape Sm (nrows m) (ncols m) -> wf_lmi m -> same_shape Sm m.
Proof.
  intros [Hn Hf] Hwf. unfold same_shape, wf_lmi, nrows in *.
  set (c := ncols m) in *. clearbody c. revert m Hn Hwf.
  induction Sm as [|s Sm IH]; intros m Hn Hwf; destruct m as [|e m]; cbn [length] in Hn; try discriminate; constructor.
  - inversion Hf; inversion Hwf; subst. intuition congruence.
  - inversion Hf; inversion Hwf; subst. apply IH; auto.
Qed.

Lemma wf_lmi_matrix m : wf_lmi m -> wf_matrix m.
Proof. unfold wf_lmi, wf_matrix. apply Forall_impl. intros row [_ H]. exact H. Qed.

Lemma exposed_ok l : forall kk ds,
  wf_sent l -> Forall2 dual_fits (emit_from kk l) ds ->
  Forall ok_pair (combine l (mains l ds)).
Proof.
  induction l as [|[e s|m] l IH]; intros kk ds Hwf Hfit; cbn [mains combine]; [constructor| |].
  - inversion Hwf as [|? ? He Hwf']; subst. cbn [emit_from] in Hfit.
    inversion Hfit as [|r d rs ds' Hd Hfit']; subst. cbn [hd skipn width].
    constructor; [|apply (IH kk); assumption].
    destruct d; cbn [ok_pair]; [exact He|exact I].
  - inversion Hwf as [|? ? Hm Hwf']; subst. cbn [emit_from] in Hfit. unfold lmi_rows in Hfit.
    inversion Hfit as [|r d rs ds' Hd Hfit']; subst. cbn [hd skipn width].
    apply Forall2_app_inv_l in Hfit' as [d1 [d2 [H1 [H2 ->]]]].
    assert (Hl : length d1 = (nrows m * ncols m)%nat)
      by (rewrite <- (F2_length _ _ _ H1); apply length_entry_rows).
    change (skipn (1 + nrows m * ncols m) (d :: d1 ++ d2)) with (skipn (nrows m * ncols m) (d1 ++ d2)).
    rewrite <- Hl, skipn_app, skipn_all, Nat.sub_diag. cbn [app skipn].
    constructor; [|apply (IH (S kk)); assumption].
    destruct d as [la|Sm]; cbn [ok_pair]; [exact I|].
    cbn [dual_fits] in Hd. split; [apply same_shape_of; assumption|apply wf_lmi_matrix; exact Hm].
Qed.

(** ** A dictionary whose value is the same at every (G,F) is a constant dictionary *)
Section Ident.
  Definition ind (k : ekey) : ekey -> R := fun k' => if ekey_eqb k' k then 1 else 0.

  Lemma dsum_ind_absent k d : ~ In k (keys d) -> dsum ekey (ind k) d = 0.
  Proof.
    induction d as [|[k' v] d IH]; intro H; cbn [dsum]; [reflexivity|].
    rewrite IH by (intro; apply H; right; assumption). unfold ind.
    destruct (ekey_eqb_spec k' k) as [->|]; [exfalso; apply H; left; reflexivity|lra].
  Qed.

  Definition getR (k : ekey) (d : edict) : R :=
    match lookup ekey_eqb k d with Some v => Q2R v | None => 0 end.

  Lemma dsum_ind k d : eND d -> dsum ekey (ind k) d = getR k d.
  Proof.
    unfold NoDupKeys, getR. induction d as [|[k' v] d IH]; intro H; cbn [dsum lookup]; [reflexivity|].
    inversion H as [|? ? Hn H']; subst. unfold ind at 1.
    destruct (ekey_eqb_spec k' k) as [->|Hne].
    - destruct (ekey_eqb_spec k k) as [_|]; [|congruence]. rewrite dsum_ind_absent by exact Hn. lra.
    - destruct (ekey_eqb_spec k k') as [->|_]; [congruence|]. rewrite IH by exact H'. lra.
  Qed.

  Lemma dsum_val_plus (v1 v2 : ekey -> R) d :
    dsum ekey (fun k => v1 k + v2 k) d = dsum ekey v1 d + dsum ekey v2 d.
  Proof. induction d as [|[k q] d IH]; cbn [dsum]; [lra|rewrite IH; lra]. Qed.

  Lemma dsum_val_ext (v1 v2 : ekey -> R) d : (forall k, v1 k = v2 k) -> dsum ekey v1 d = dsum ekey v2 d.
  Proof. intro H. induction d as [|[k q] d IH]; cbn [dsum]; [reflexivity|rewrite IH, H; reflexivity]. Qed.

  Lemma Q2R_nonzero v : ~ (v == 0)%Q -> Q2R v <> 0.
  Proof. intros H H0. apply H. apply eqR_Qeq. rewrite H0, RMicromega.Q2R_0. reflexivity. Qed.

  Theorem constant_dict d tau :
    eND d -> (forall k v, In (k, v) d -> ~ (v == 0)%Q) ->
    (forall G F, evalGF G F d = tau) ->
    Q2R (constant_of d) = tau /\ forall k v, In (k, v) d -> k = K1.
  Proof.
    intros Hd Hnz Hc.
    assert (H1 : getR K1 d = tau).
    { rewrite <- (Hc (fun _ _ => 0) (fun _ => 0)), ev_dsum, <- dsum_ind by exact Hd.
      apply dsum_val_ext. intros [e|i j|]; reflexivity. }
    split.
    - rewrite <- H1. unfold constant_of, getR. destruct (lookup ekey_eqb K1 d); [reflexivity|apply RMicromega.Q2R_0].
    - intros k v Hin.
      assert (Hg : getR k d = Q2R v).
      { unfold getR. rewrite (In_lookup ekey ekey_eqb ekey_eqb_spec k v d Hd Hin). reflexivity. }
      pose proof (Q2R_nonzero v (Hnz k v Hin)) as Hv.
      destruct k as [e|i j|]; [exfalso|exfalso|reflexivity].
      + pose proof (Hc (fun _ _ => 0) (fun e' => if Nat.eqb e' e then 1 else 0)) as H.
        rewrite ev_dsum in H.
        rewrite (dsum_val_ext _ (fun k => ind K1 k + ind (KF e) k)) in H.
        2:{ intros [e'|i' j'|]; unfold ind; cbn [evalKGF ekey_eqb]; lra. }
        rewrite dsum_val_plus, !dsum_ind in H by exact Hd. lra.
      + pose proof (Hc (fun i' j' => if (Nat.eqb i' i && Nat.eqb j' j)%bool then 1 else 0) (fun _ => 0)) as H.
        rewrite ev_dsum in H.
        rewrite (dsum_val_ext _ (fun k => ind K1 k + ind (KG i j) k)) in H.
        2:{ intros [e'|i' j'|]; unfold ind; cbn [evalKGF ekey_eqb]; lra. }
        rewrite dsum_val_plus, !dsum_ind in H by exact Hd. lra.
  Qed.
End Ident.

(** * C01_identity_sym *)
Theorem identity_sym :
  forall (obj : edict) (tracked : sent) (temp : list dval) (tau : R),
    wf_edict obj -> wf_sent tracked ->
    all_lmis_symmetric tracked = true ->
    kkt_dual obj (emit tracked) temp tau ->
    let '(a, res, fd, t) := certificate obj tracked temp in
    certificate_identity obj a (res_matrix res) tau
    /\ Q2R t = tau
    /\ (forall k v, In (k, v) fd -> k = K1).
Proof.
  intros obj tracked temp tau Hobj Hwf Hsym [Hfit Hstat].
  assert (Hlen : length temp = length (emit tracked)) by (symmetry; apply (F2_length _ _ _ Hfit)).
  pose proof Hlen as Hlen'. rewrite length_emit in Hlen'.
  destruct temp as [|d0 ds]; [cbn in Hlen'; lia|]. cbn [length] in Hlen'.
  unfold certificate, exposed, recover. cbn [nth].
  pose proof (recover_loop_spec tracked [d0] ds 1) as Hrec. cbn [length app] in Hrec.
  rewrite Hrec by lia. unfold assign. cbn [tl].
  set (a := combine tracked (mains tracked ds)).
  unfold emit in Hfit. inversion Hfit as [|r0 d0' rs ds' Hd0 Hfit']; subst.
  assert (Hok : Forall ok_pair a) by (apply (exposed_ok tracked 0%nat ds Hwf Hfit')).
  (* the identity *)
  assert (Hid : certificate_identity obj a (res_matrix d0) tau).
  { intros G F HG.
    set (M := fun k => lmi_value G F (nth k (lmis tracked) [])).
    assert (HMsym : forall k, symG (M k)).
    { intro k. unfold M. destruct (nth_in_or_default k (lmis tracked) []) as [Hin|Hd].
      - apply lmi_symmetric_spec; [| |exact HG].
        + unfold all_lmis_symmetric in Hsym. rewrite forallb_forall in Hsym. apply Hsym. exact Hin.
        + unfold lmis in Hin |- *. apply in_flat_map in Hin as [it [Hit Hin]].
          destruct it as [e s|m]; [destruct Hin|]. destruct Hin as [<-|[]].
          unfold wf_sent in Hwf. rewrite Forall_forall in Hwf. exact (Hwf _ Hit).
      - rewrite Hd. intros i j. unfold lmi_value, entry. destruct i, j; reflexivity. }
    pose proof (Hstat G F M HG HMsym) as HL. unfold lagrangian, emit in HL. cbn [rows_term] in HL.
    rewrite (rows_term_emit G F M tracked 0%nat ds) in HL by (try (intros; reflexivity); lia).
    fold a in HL.
    destruct d0 as [q|S0]; cbn [row_term res_matrix] in *; [unfold mdot; cbn [mdot_from]|]; lra. }
  split; [exact Hid|].
  (* the reconstruction *)
  unfold reconstruct.
  set (fd := final_dict obj (res_matrix d0) a).
  assert (Hfd : forall G F, evalGF G F fd = tau).
  { intros G F. unfold fd, final_dict.
    destruct (combination_spec (symm G) F (res_matrix d0) a Hok) as [Hcc Hcv].
    rewrite ev_prune, evalGF_symmetrize by (apply eND_sub; assumption).
    rewrite ev_sub, Hcv by assumption.
    pose proof (Hid (symm G) F (symm_sym G)) as H. lra. }
  assert (HfdND : eND fd).
  { unfold fd, final_dict. apply NoDupKeys_prune. unfold symmetrize.
    unfold NoDupKeys. rewrite keys_halve.
    destruct (combination_spec (fun _ _ => 0) (fun _ => 0) (res_matrix d0) a Hok) as [Hcc _].
    apply (NoDupKeys_merge ekey ekey_eqb ekey_eqb_spec); [|apply eND_swap]; apply eND_sub; assumption. }
  assert (Hfdnz : forall k v, In (k, v) fd -> ~ (v == 0)%Q).
  { intros k v Hin. unfold fd, final_dict in Hin. exact (prune_nonzero ekey _ k v Hin). }
  exact (constant_dict fd tau HfdND Hfdnz Hfd).
Qed.

(** the same, restated with projections, under the decidable guard *)
Theorem identity_partial :
  forall (obj : edict) (tracked : sent) (temp : list dval) (tau : R),
    all_lmis_symmetric tracked = true ->
    wf_edict obj -> wf_sent tracked ->
    kkt_dual obj (emit tracked) temp tau ->
    certificate_identity obj (fst (exposed tracked temp)) (res_matrix (snd (exposed tracked temp))) tau
    /\ Q2R (snd (certificate obj tracked temp)) = tau.
Proof.
  intros obj tracked temp tau Hs Ho Hw Hk.
  pose proof (identity_sym obj tracked temp tau Ho Hw Hs Hk) as H.
  unfold certificate in *. destruct (exposed tracked temp) as [a res]. cbn [fst snd] in *.
  destruct H as [H1 [H2 _]]. split; assumption.
Qed.

(** * C01_weak_duality *)
Lemma multiplier_sum_nonpos G F np l : forall ds,
  feasible np l G F -> dual_feasible (combine l ds) -> length ds = length l ->
  multiplier_sum G F (combine l ds) <= 0.
Proof.
  intros ds [_ [_ Hfe]]. revert ds. induction l as [|it l IH]; intros ds Hdf Hlen; [cbn; lra|].
  destruct ds as [|d ds]; [discriminate|]. cbn [length] in Hlen. injection Hlen as Hlen.
  inversion Hfe as [|? ? Hit Hfe']; subst. cbn [combine] in *.
  destruct it as [e s|m], d as [la|Sm]; cbn [dual_feasible multiplier_sum] in *; try (destruct s; tauto); try tauto.
  - destruct s; cbn [item_holds holdsGF fst snd] in Hit.
    + destruct Hdf as [Hla Hdf]. specialize (IH Hfe' ds Hdf Hlen). nra.
    + specialize (IH Hfe' ds Hdf Hlen). rewrite Hit. lra.
  - destruct Hdf as [Hr Hdf]. specialize (IH Hfe' ds Hdf Hlen).
    cbn [item_holds] in Hit. pose proof (psd_pairing_nonneg Sm _ _ Hr Hit). lra.
Qed.

Theorem weak_duality :
  forall (np : nat) (obj : edict) (tracked : sent) (duals : list dval) (res : list (list Q)) (tau : R),
    length duals = length tracked ->
    certificate_identity obj (combine tracked duals) res tau ->
    dual_feasible (combine tracked duals) ->
    rank1sum res np ->
    forall G F, feasible np tracked G F -> evalGF G F obj <= tau.
Proof.
  intros np obj tracked duals res tau Hlen Hid Hdf Hres G F Hfe.
  pose proof (Hid G F (proj1 Hfe)) as H.
  pose proof (multiplier_sum_nonpos G F np tracked duals Hfe Hdf Hlen) as H1.
  pose proof (psd_pairing_nonneg res G np Hres (proj1 (proj2 Hfe))) as H2. lra.
Qed.
