(** C03 — the generic half of "class constraints never exclude a real member of the class".

    What is proved here, once, for every plan (no class in sight):

    - [plan_sound]: if every item of a plan is *sound at the state the generator starts from*
      ([item_ok]: the item's formula, instantiated by the executable generator on ANY two recorded
      samples of the lists it ranges over, holds; its LMI evaluates to a symmetric PSD matrix), then
      every constraint and every LMI in [run_plan plan st] is satisfied.  This rests on
      [run_plan_items_spec_simple] / [run_plan_lmis_spec_simple] of Proofs/ClassGenLemmas.v (every
      generated object comes from one item instantiated on samples of the function's lists).
    - [inst_holds_ref], [instB_holds_ref], [lmi_item_ref]: a constraint object / LMI built by the
      operator overloads (as modelled by [compileC], [compileX]) means what its source formula means
      ([compileC_holds], [compileX_denote] of Proofs/SemLemmas.v), which by a [feq_*] lemma of
      Proofs/FormulaEq.v is the reference condition of Spec/Reference.v on the values of the samples.

    Proofs/C03Assembly.v then closes each item of each shipped plan with a [mem_*] lemma of
    Proofs/Members{A,B,C}.v. *)
From Coq Require Import List QArith Reals Qreals Lra Bool Arith Lia String.
From PV Require Import Base.IPS Model.Dict Model.Terms Model.ClassGen Spec.Sem Spec.Reference Spec.Classes.
From PV Require Import Proofs.DictLemmas Proofs.SemLemmas Proofs.ClassGenLemmas Proofs.FormulaEq Proofs.C04Lemmas.
From PV Require Import Proofs.MembersC.
Import ListNotations.
Local Open Scope R_scope.

(** the stationary sample PEPit creates itself ([Function.stationary_point()] called by
    ConvexQGFunction / RsiEbFunction when none was recorded): fresh leaf point, empty gradient, fresh
    leaf value *)
Definition fresh_stationary (st : fstate) : sample :=
  mkSample [(f_next_point st, 1%Q)] [] [(KF (f_next_expr st), 1%Q)] None (f_next_uid st)
           (S (f_next_uid st)) (S (S (f_next_uid st))) [].

Lemma auto_stationary_lists st :
  f_points (auto_stationary st) = f_points st ++ [fresh_stationary st] /\
  f_stat (auto_stationary st) = f_stat st ++ [fresh_stationary st] /\
  f_tpoints (auto_stationary st) = f_tpoints st /\ f_v (auto_stationary st) = f_v st /\
  f_par (auto_stationary st) = f_par st /\ f_inf (auto_stationary st) = f_inf st.
Proof. repeat split. Qed.

(** the block dictionaries of the recorded gradients have unique keys (Python dicts) *)
Definition wf_blocks (st : fstate) : Prop :=
  forall s k, In s (f_points st) -> NoDupKeys nat (nth k (s_gblocks s) []).

Section Core.
  Context {E : ips}.
  Variable rho : nat -> E.          (* value of each leaf point *)
  Variable phi : nat -> R.          (* value of each leaf expression *)

  (** the numbers behind a recorded sample *)
  Definition px (s : sample) : E := evalP rho (s_x s).
  Definition pg (s : sample) : E := evalP rho (s_g s).
  Definition pf (s : sample) : R := evalE rho phi (s_f s).
  Definition sval (s : sample) : @triple E := (px s, pg s, pf s).
  (** value of block k of the recorded gradient *)
  Definition pgk (k : nat) (s : sample) : E := evalP rho (nth k (s_gblocks s) []).
  (** the first stationary sample (what [self.list_of_stationary_points[0]] refers to) *)
  Definition stat_x (st : fstate) : E := evalP rho (match f_stat st with s :: _ => s_x s | [] => [] end).
  Definition stat_f (st : fstate) : R := evalE rho phi (match f_stat st with s :: _ => s_f s | [] => [] end).
  (** value of [self.v] *)
  Definition v_val (st : fstate) : E := evalP rho (match f_v st with Some d => d | None => [] end).

  (** every generated scalar constraint holds; every generated LMI is a symmetric PSD matrix *)
  Definition lmi_ok (m : list (list edict)) : Prop :=
    psd_rows (evalM rho phi m) /\ sym_rows (evalM rho phi m).
  Definition all_satisfied (o : genout) : Prop :=
    (forall c, In c (g_cons o) -> holds rho phi (c_obj c)) /\
    (forall m, In m (g_lmis o) -> lmi_ok m).

  Definition lmi_of (st : fstate) (l : lst) (entry : xterm) : list (list edict) :=
    map (fun si => map (fun sj => instX st entry si sj) (get_list st l)) (get_list st l).

  (** an item is sound at a state: whatever samples of its lists it is instantiated on *)
  Fixpoint item_ok (st : fstate) (it : plan_item) : Prop :=
    match it with
    | Pairs l1 l2 _ f _ =>
        forall si sj, In si (get_list st l1) -> In sj (get_list st l2) -> holds rho phi (inst st f si sj)
    | Singles l _ f => forall si, In si (get_list st l) -> holds rho phi (inst st f si si)
    | Guarded g it' => guard_true st g = true -> item_ok st it'
    | AutoStationary => True
    | LMI l entry => lmi_ok (lmi_of st l entry)
    | BlockPairs _ f =>
        forall si sj k, In si (f_points st) -> In sj (f_points st) -> (k < f_nblocks st)%nat ->
                        holds rho phi (instB st f k si sj)
    end.

  Lemma item_ok_src st it c : item_ok st it -> item_src st it c -> holds rho phi (c_obj c).
  Proof.
    induction it as [l1 l2 cname f sym|l cname f|g it IH| |l entry|cprefix f]; cbn [item_ok item_src].
    - intros H (i & j & si & sj & Hi & Hj & _ & ->). cbn [c_obj].
      apply H; eapply nth_error_In; eassumption.
    - intros H (i & si & Hi & ->). cbn [c_obj]. apply H. eapply nth_error_In; eassumption.
    - intros H [Hg Hs]. exact (IH (H Hg) Hs).
    - intros _ [].
    - intros _ [].
    - intros H (i & j & k & si & sj & Hi & Hj & _ & Hk & ->). cbn [c_obj].
      apply H; [eapply nth_error_In; eassumption|eapply nth_error_In; eassumption|exact Hk].
  Qed.

  Lemma item_ok_lmi_src st it m : item_ok st it -> item_lmi_src st it m -> lmi_ok m.
  Proof.
    induction it as [l1 l2 cname f sym|l cname f|g it IH| |l entry|cprefix f];
      cbn [item_ok item_lmi_src]; try solve [intros _ []].
    - intros H [Hg Hs]. exact (IH (H Hg) Hs).
    - intros H ->. exact H.
  Qed.

  (** soundness of a whole plan from the soundness of its items *)
  Theorem plan_sound plan st :
    auto_head_only plan = true ->
    Forall (item_ok (start_state plan st)) plan ->
    all_satisfied (run_plan plan st).
  Proof.
    intros Hh Hall. rewrite Forall_forall in Hall. split.
    - intros c Hc. apply (run_plan_items_spec_simple plan st c Hh) in Hc as (it & Hin & Hsrc).
      exact (item_ok_src _ it c (Hall it Hin) Hsrc).
    - intros m Hm. apply (run_plan_lmis_spec_simple plan st m Hh) in Hm as (it & Hin & Hsrc).
      exact (item_ok_lmi_src _ it m (Hall it Hin) Hsrc).
  Qed.

  (** * one scalar constraint *)
  (** [feq_*] gives the second hypothesis, [mem_*] the third *)
  Lemma inst_holds_ref st f si sj (r : R) (sn : sense) :
    wf_state st -> wf_sample si -> wf_sample sj ->
    cdef (parR st) f /\ lhs_minus_rhs (parR st) (upR rho st si sj) (uxR rho phi st si sj) f = (r, sn) ->
    sat (r, sn) ->
    holds rho phi (inst st f si sj).
  Proof.
    intros Hst Hi Hj [Hdef Heq] Hsat.
    apply (inst_holds_denote rho phi st f si sj Hst Hi Hj Hdef).
    apply denoteC_sat. rewrite Heq. exact Hsat.
  Qed.

  (** the valuation of the formula variables: what each variable is, as numbers *)
  Lemma upR_0 st si sj : upR rho st si sj 0%nat = px si. Proof. reflexivity. Qed.
  Lemma upR_1 st si sj : upR rho st si sj 1%nat = pg si. Proof. reflexivity. Qed.
  Lemma upR_2 st si sj : upR rho st si sj 2%nat = px sj. Proof. reflexivity. Qed.
  Lemma upR_3 st si sj : upR rho st si sj 3%nat = pg sj. Proof. reflexivity. Qed.
  Lemma upR_4 st si sj : upR rho st si sj 4%nat = stat_x st.
  Proof. unfold upR, env_p, stat_x. destruct (f_stat st); reflexivity. Qed.
  Lemma upR_5 st si sj : upR rho st si sj 5%nat = v_val st.
  Proof. unfold upR, env_p, v_val. destruct (f_v st); reflexivity. Qed.
  Lemma uxR_0 st si sj : uxR rho phi st si sj 0%nat = pf si. Proof. reflexivity. Qed.
  Lemma uxR_1 st si sj : uxR rho phi st si sj 1%nat = pf sj. Proof. reflexivity. Qed.
  Lemma uxR_2 st si sj : uxR rho phi st si sj 2%nat = stat_f st.
  Proof. unfold uxR, env_x, stat_f. destruct (f_stat st); reflexivity. Qed.

  (** * one block constraint of BlockSmoothConvexFunction *)
  Definition parB (st : fstate) (k : nat) : nat -> R := fun p => Q2R (par_b st k p).
  Definition upB (st : fstate) (k : nat) (si sj : sample) : nat -> E := fun v => evalP rho (env_pb st k si sj v).

  Lemma env_pb_wf st k si sj :
    wf_state st -> wf_sample si -> wf_sample sj ->
    NoDupKeys nat (nth k (s_gblocks si) []) -> NoDupKeys nat (nth k (s_gblocks sj) []) ->
    forall v, NoDupKeys nat (env_pb st k si sj v).
  Proof.
    intros Hst Hi Hj Hbi Hbj v. unfold env_pb.
    destruct (Nat.eqb v V_gik); [exact Hbi|]. destruct (Nat.eqb v V_gjk); [exact Hbj|].
    apply env_p_wf; assumption.
  Qed.

  Lemma instB_holds_ref st f k si sj (r : R) (sn : sense) :
    wf_state st -> wf_sample si -> wf_sample sj ->
    NoDupKeys nat (nth k (s_gblocks si) []) -> NoDupKeys nat (nth k (s_gblocks sj) []) ->
    cdef (parB st k) f /\ lhs_minus_rhs (parB st k) (upB st k si sj) (uxR rho phi st si sj) f = (r, sn) ->
    sat (r, sn) ->
    holds rho phi (instB st f k si sj).
  Proof.
    intros Hst Hi Hj Hbi Hbj [Hdef Heq] Hsat. unfold instB.
    apply (compileC_holds rho phi (par_b st k) (env_pb st k si sj) (env_x st si sj)
                          (env_pb_wf st k si sj Hst Hi Hj Hbi Hbj) (env_x_wf st si sj Hst Hi Hj) f Hdef).
    apply denoteC_sat. unfold parB, upB, uxR in Heq. rewrite Heq. exact Hsat.
  Qed.

  Lemma upB_0 st k si sj : upB st k si sj 0%nat = px si. Proof. reflexivity. Qed.
  Lemma upB_2 st k si sj : upB st k si sj 2%nat = px sj. Proof. reflexivity. Qed.
  Lemma upB_3 st k si sj : upB st k si sj 3%nat = pg sj. Proof. reflexivity. Qed.
  Lemma upB_6 st k si sj : upB st k si sj 6%nat = pgk k si. Proof. reflexivity. Qed.
  Lemma upB_7 st k si sj : upB st k si sj 7%nat = pgk k sj. Proof. reflexivity. Qed.
  Lemma parB_6 st k : parB st k 6%nat = Q2R (f_Lk st k). Proof. reflexivity. Qed.

  (** * one LMI *)
  (** the numeric matrix of an LMI item is the reference matrix over the (x, g) values of the samples *)
  Lemma lmi_item_ref st l entry (ref : E -> E -> E -> E -> R) :
    wf_state st ->
    (forall si sj, In si (get_list st l) -> In sj (get_list st l) ->
       xdef (parR st) entry /\
       denoteX (parR st) (upR rho st si sj) (uxR rho phi st si sj) entry = ref (px si) (pg si) (px sj) (pg sj)) ->
    evalM rho phi (lmi_of st l entry) = Spec.Classes.lmi_matrix ref (map sample_xg (map sval (get_list st l))).
  Proof.
    intros Hst Href. unfold lmi_of. rewrite C04Lemmas.lmi_matrix. unfold Spec.Classes.lmi_matrix.
    rewrite !map_map. apply map_ext_in. intros si Hi.
    cbn beta iota delta [sample_xg sval fst snd]. rewrite map_map. apply map_ext_in. intros sj Hj.
    cbn beta iota delta [sample_xg sval fst snd]. destruct (Href si sj Hi Hj) as [Hdef Heq].
    rewrite <- Heq. unfold lmi_entry, instX.
    apply (compileX_denote rho phi (f_par st) (env_p st si sj) (env_x st si sj)).
    - apply env_p_wf; [exact Hst|exact (wf_get_list st l si Hst Hi)|exact (wf_get_list st l sj Hst Hj)].
    - apply env_x_wf; [exact Hst|exact (wf_get_list st l si Hst Hi)|exact (wf_get_list st l sj Hst Hj)].
    - exact Hdef.
  Qed.

  Lemma lmi_ok_ref st l entry (ref : E -> E -> E -> E -> R) :
    wf_state st ->
    (forall si sj, In si (get_list st l) -> In sj (get_list st l) ->
       xdef (parR st) entry /\
       denoteX (parR st) (upR rho st si sj) (uxR rho phi st si sj) entry = ref (px si) (pg si) (px sj) (pg sj)) ->
    psd_rows (Spec.Classes.lmi_matrix ref (map sample_xg (map sval (get_list st l)))) /\
    sym_rows (Spec.Classes.lmi_matrix ref (map sample_xg (map sval (get_list st l)))) ->
    lmi_ok (lmi_of st l entry).
  Proof. intros Hst Href H. unfold lmi_ok. rewrite (lmi_item_ref st l entry ref Hst Href). exact H. Qed.

  Lemma in_map_sval (G : @triple E -> Prop) l :
    (forall s, In s l -> G (sval s)) -> forall t, In t (map sval l) -> G t.
  Proof. intros H t Ht. apply in_map_iff in Ht as [s [<- Hs]]. exact (H s Hs). Qed.

  (** only the norm of a difference of two blocks enters the block condition *)
  Lemma ref_block_smooth_veq Lk (xi xj gj a b a' b' : E) fi fj :
    veq a a' -> veq b b' ->
    ref_block_smooth Lk xi xj gj a b fi fj = ref_block_smooth Lk xi xj gj a' b' fi fj.
  Proof.
    intros Ha Hb. unfold ref_block_smooth, nrm2. f_equal. f_equal.
    apply veq_inner; apply veq_sub; assumption.
  Qed.

  (** a stationary sample has the empty gradient dictionary: its value is the zero vector *)
  Lemma pg_nil s : s_g s = [] -> pg s = vzero.
  Proof. unfold pg. intros ->. reflexivity. Qed.

  (** a subgradient is only observed through inner products *)
  Lemma subgrad_veq (F : fn) (x g g' : E) : veq g g' -> subgrad F x g -> subgrad F x g'.
  Proof.
    intros Hv [Hd H]. split; [exact Hd|]. intros y Hy. rewrite <- (veq_inner_l _ _ _ Hv). exact (H y Hy).
  Qed.
End Core.

(** states whose parameter table / infinity flags agree with a member's optional parameter
    ([None] = the parameter is [np.inf]: the plan's guard removes the condition) *)
Definition par_is (st : fstate) (p : nat) (v : R) : Prop := Q2R (f_par st p) = v.
Definition opt_par_is (st : fstate) (p : nat) (o : option R) : Prop :=
  match o with
  | Some v => f_inf st p = false /\ Q2R (f_par st p) = v
  | None => f_inf st p = true
  end.

Lemma guard_finite_Some st p o :
  opt_par_is st p o -> guard_true st (GParFinite p) = true -> exists v, o = Some v /\ Q2R (f_par st p) = v.
Proof.
  unfold opt_par_is. cbn [guard_true]. destruct o as [v|].
  - intros [_ Hv] _. exists v. auto.
  - intros -> H. discriminate.
Qed.
