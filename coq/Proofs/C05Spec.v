(** C05 — specifications (definitions only, short: read them).

    What the numeric data handed to a solver *denotes*, as a function of a matrix [G] and a vector [F]:
    - dense (cvxpy wrapper: [cons + F @ Fweights + sum(multiply(G, Gweights))]);
    - sparse lower-triangular triples under MOSEK's symmetric-storage convention: a triple (i, j, v),
      i >= j, of a symmetric coefficient matrix stands for entry v at (i,j) AND at (j,i) when i <> j,
      so it contributes v * (G i j + G j i) to <A, G>, and v * G i i when i = j. *)
From Coq Require Import List QArith Reals Qreals.
From PV Require Import Model.Dict Model.Terms Model.Matrices Model.Sent Model.Collect Spec.GramSem.
Import ListNotations.
Local Open Scope R_scope.

(** sum_{i < n} f i *)
Fixpoint sumn (n : nat) (f : nat -> R) : R :=
  match n with O => 0 | S k => sumn k f + f k end.

(** sum_{x in l} f x *)
Fixpoint lsum {A : Type} (f : A -> R) (l : list A) : R :=
  match l with [] => 0 | x :: l' => f x + lsum f l' end.

Section Val.
  Variable G : nat -> nat -> R.
  Variable F : nat -> R.

  (** <Gw, G> + Fw . F + c   over an n x n matrix and an m-vector *)
  Definition dense_val (n m : nat) (r : dense) : R :=
    sumn n (fun i => sumn n (fun j => Q2R (dG r i j) * G i j))
    + sumn m (fun k => Q2R (dF r k) * F k)
    + Q2R (dC r).

  Definition tri_val (t : nat * nat * Q) : R :=
    if Nat.eqb (fst (fst t)) (snd (fst t))
    then Q2R (snd t) * G (fst (fst t)) (fst (fst t))
    else Q2R (snd t) * (G (fst (fst t)) (snd (fst t)) + G (snd (fst t)) (fst (fst t))).

  Definition sparse_val (s : sparse) : R :=
    lsum tri_val (sG s) + lsum (fun t => Q2R (snd t) * F (fst t)) (sF s) + Q2R (sC s).
End Val.

(** MOSEK accepts only lower-triangular triples *)
Definition lower_triangular (s : sparse) : Prop :=
  Forall (fun t => (snd (fst t) <= fst (fst t))%nat) (sG s).

(** minimum of a non-empty list of reals *)
Definition min_list (m0 : R) (ms : list R) : R := fold_left Rmin ms m0.

(* ------------------------------------------------------------------ what must reach the solver *)
Definition sc (c : cons_t) : item := SC (fst c) (snd c).

(** the row [self.objective <= metric] : objective - metric <= 0, objective being the leaf [tau] *)
Definition metric_row (tau : nat) (e : edict) : item := sc (c_le [(KF tau, 1%Q)] e).

Definition has_own (f : func) : bool := negb (is_nil (f_cons f)) || negb (is_nil (f_psd f)).

(** the declared model, in the order of the sources; class constraints are the ones generated at THIS solve *)
Definition expected_sent (m : model) : sent :=
  map (metric_row (m_expr_ctr m)) (m_metrics m)
  ++ map sc (m_cons m)
  ++ map LMI (m_psd m)
  ++ flat_map (fun f => map sc (f_class_cons f) ++ map LMI (f_class_psd f)) (filter f_is_leaf (m_funcs m))
  ++ flat_map (fun f => map sc (f_cons f) ++ map LMI (f_psd f)) (filter has_own (m_funcs m))
  ++ flat_map (fun p => map sc (p_cons p)) (m_parts m).

(** length of F: the leaves that existed, the objective leaf, the leaves class generation created *)
Definition expected_fdim (m : model) : nat :=
  S (m_expr_ctr m) + list_sum (map f_fresh_exprs (filter f_is_leaf (m_funcs m))).

Definition expected_result (m : model) : result :=
  mkResult (expected_sent m) (scalars (expected_sent m)) (lmis (expected_sent m))
           (m_expr_ctr m) (expected_fdim m).

(** number of occurrences of an item, up to a decidable equality supplied by the caller *)
Definition count_item (eqb : item -> item -> bool) (x : item) (l : sent) : nat :=
  length (filter (eqb x) l).
