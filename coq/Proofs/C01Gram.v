(** Gram reading of the dictionaries computed by [Model.Cert]: the value, as an affine function of
    (G,F), of every intermediate expression of the proof reconstruction. *)
From Coq Require Import List QArith Reals Qreals Lra Lia Arith Bool FinFun.
From PV Require Import Base.IPS Model.Dict Model.Terms Model.Sent Model.Cvxpy Model.Cert
     Spec.Sem Spec.GramSem Spec.KKT Proofs.DictLemmas Proofs.SemLemmas.
Import ListNotations.
Local Open Scope R_scope.

Lemma Q2R_0' : Q2R 0 = 0. Proof. apply RMicromega.Q2R_0. Qed.

Lemma eND_nil : eND [].
Proof. unfold NoDupKeys. cbn. constructor. Qed.

Section GF.
  Variable G : nat -> nat -> R.
  Variable F : nat -> R.
  Notation ev := (evalGF G F).
  Notation kv := (evalKGF G F).

  Lemma ev_dsum d : ev d = dsum ekey kv d.
  Proof. induction d as [|[k q] d IH]; cbn [evalGF dsum]; [reflexivity|rewrite IH; reflexivity]. Qed.

  Lemma ev_app a b : ev (a ++ b) = ev a + ev b.
  Proof. rewrite !ev_dsum. apply dsum_app. Qed.

  Lemma ev_add a b : eND a -> eND b -> ev (x_add a b) = ev a + ev b.
  Proof.
    intros Ha Hb. unfold x_add, emerge. rewrite !ev_dsum, dsum_prune.
    apply (dsum_merge ekey ekey_eqb ekey_eqb_spec); assumption.
  Qed.
  Lemma ev_scal c a : ev (x_scal c a) = Q2R c * ev a.
  Proof. unfold x_scal. rewrite !ev_dsum, dsum_scale. reflexivity. Qed.
  Lemma ev_neg a : ev (x_neg a) = - ev a.
  Proof. unfold x_neg. rewrite ev_scal, Q2R_m1. lra. Qed.
  Lemma ev_sub a b : eND a -> eND b -> ev (x_sub a b) = ev a - ev b.
  Proof. intros Ha Hb. unfold x_sub. rewrite ev_add, ev_neg by (assumption || apply eND_neg; assumption). lra. Qed.
  Lemma ev_prune d : ev (prune d) = ev d.
  Proof. rewrite !ev_dsum. apply dsum_prune. Qed.

  (** sum of the values of a list of dictionaries *)
  Fixpoint ev_list (l : list edict) : R :=
    match l with [] => 0 | d :: r => ev d + ev_list r end.

  Lemma fold_left_x_add l : forall acc, eND acc -> Forall eND l ->
    eND (fold_left x_add l acc) /\ ev (fold_left x_add l acc) = ev acc + ev_list l.
  Proof.
    induction l as [|d l IH]; intros acc Hacc Hl; cbn [fold_left ev_list].
    - split; [exact Hacc|lra].
    - inversion Hl as [|? ? Hd Hl']; subst.
      destruct (IH (x_add acc d) (eND_add _ _ Hacc Hd) Hl') as [H1 H2].
      split; [exact H1|]. rewrite H2, ev_add by assumption. lra.
  Qed.

  Lemma fold1_x_add l : Forall eND l ->
    eND (fold1 x_add [] l) /\ ev (fold1 x_add [] l) = ev_list l.
  Proof.
    destruct l as [|d l]; intro Hl; cbn [fold1 ev_list].
    - split; [apply eND_nil|reflexivity].
    - inversion Hl as [|? ? Hd Hl']; subst. apply fold_left_x_add; assumption.
  Qed.
End GF.

Lemma pND_nil : pND [].
Proof. unfold NoDupKeys. cbn. constructor. Qed.
Lemma pND_leaf (i : nat) (c : Q) : pND [(i, c)].
Proof. unfold NoDupKeys. cbn. constructor; [intros []|constructor]. Qed.

(** ** Points: value of a point dictionary under a valuation of the leaves *)
Section Pts.
  Variable val : nat -> R.
  Notation pv := (dsum nat val).

  Lemma pv_add a b : pND a -> pND b -> pv (p_add a b) = pv a + pv b.
  Proof.
    intros Ha Hb. unfold p_add, pmerge. rewrite dsum_prune.
    apply (dsum_merge nat Nat.eqb nat_eqb_spec); assumption.
  Qed.

  Fixpoint pv_list (l : list pdict) : R :=
    match l with [] => 0 | d :: r => pv d + pv_list r end.

  Lemma fold_left_p_add l : forall acc, pND acc -> Forall pND l ->
    pND (fold_left p_add l acc) /\ pv (fold_left p_add l acc) = pv acc + pv_list l.
  Proof.
    induction l as [|d l IH]; intros acc Hacc Hl; cbn [fold_left pv_list].
    - split; [exact Hacc|lra].
    - inversion Hl as [|? ? Hd Hl']; subst.
      destruct (IH (p_add acc d) (pND_add _ _ Hacc Hd) Hl') as [H1 H2].
      split; [exact H1|]. rewrite H2, pv_add by assumption. lra.
  Qed.

  Lemma fold1_p_add l : Forall pND l ->
    pND (fold1 p_add [] l) /\ pv (fold1 p_add [] l) = pv_list l.
  Proof.
    destruct l as [|d l]; intro Hl; cbn [fold1 pv_list].
    - split; [apply pND_nil|reflexivity].
    - inversion Hl as [|? ? Hd Hl']; subst. apply fold_left_p_add; assumption.
  Qed.

  Lemma scaled_leaves_spec row : forall j,
    Forall pND (scaled_leaves row j) /\ pv_list (scaled_leaves row j) = rdot row val j.
  Proof.
    induction row as [|r row IH]; intro j; cbn [scaled_leaves pv_list rdot].
    - split; [constructor|reflexivity].
    - destruct (IH (S j)) as [H1 H2]. split.
      + constructor; [|exact H1]. unfold p_scal, leaf_p. cbn [scale map]. apply pND_leaf.
      + rewrite H2. unfold p_scal, leaf_p. cbn [scale map dsum]. rewrite Q2R_mult, Q2R_1. lra.
  Qed.

  Lemma res_row_spec row :
    pND (fold1 p_add [] (scaled_leaves row 0)) /\ pv (fold1 p_add [] (scaled_leaves row 0)) = rdot row val 0.
  Proof.
    destruct (scaled_leaves_spec row 0) as [H1 H2].
    destruct (fold1_p_add _ H1) as [H3 H4]. split; [exact H3|]. rewrite H4. exact H2.
  Qed.
End Pts.

Section Recon.
  Variable G : nat -> nat -> R.
  Variable F : nat -> R.
  Notation ev := (evalGF G F).

  (** <P_i, v> *)
  Lemma ev_multiply_leaf i v : ev (multiply (leaf_p i) v) = dsum nat (G i) v.
  Proof.
    unfold multiply, leaf_p. cbn [flat_map]. rewrite app_nil_r.
    induction v as [|[k q] v IH]; cbn [map evalGF dsum evalKGF]; [reflexivity|].
    rewrite IH, Q2R_mult, Q2R_1. lra.
  Qed.

  Lemma points_times_spec vs : forall i0,
    Forall pND vs ->
    Forall eND (points_times vs i0)
    /\ ev_list G F (points_times vs i0)
       = (fix go (vs : list pdict) (i : nat) : R :=
            match vs with [] => 0 | v :: r => dsum nat (G i) v + go r (S i) end) vs i0.
  Proof.
    induction vs as [|v vs IH]; intros i0 Hvs; cbn [points_times ev_list].
    - split; [constructor|reflexivity].
    - inversion Hvs as [|? ? Hv Hvs']; subst. destruct (IH (S i0) Hvs') as [H1 H2]. split.
      + constructor; [|exact H1]. apply keys_multiply_NoDup; [apply pND_leaf|exact Hv].
      + rewrite H2, ev_multiply_leaf. reflexivity.
  Qed.

  (** line 733: the value of -<leafs, residual leafs> is -<residual, G>, for every G *)
  Lemma gram_term_spec res : eND (gram_term res) /\ ev (gram_term res) = - mdot res G.
  Proof.
    unfold gram_term, res_times_points.
    assert (Hvs : Forall pND (map (fun row => fold1 p_add [] (scaled_leaves row 0)) res)).
    { apply Forall_forall. intros v Hin. apply in_map_iff in Hin as [row [<- _]].
      exact (proj1 (res_row_spec (fun _ => 0) row)). }
    assert (Hgen : forall i0,
               (fix go (vs : list pdict) (i : nat) : R :=
                  match vs with [] => 0 | v :: r => dsum nat (G i) v + go r (S i) end)
                 (map (fun row => fold1 p_add [] (scaled_leaves row 0)) res) i0
               = mdot_from res G i0).
    { induction res as [|row res IH]; intro i0; cbn [map mdot_from]; [reflexivity|].
      inversion Hvs; subst. rewrite IH by assumption.
      rewrite (proj2 (res_row_spec (G i0) row)). reflexivity. }
    destruct (points_times_spec _ 0%nat Hvs) as [H1 H2].
    destruct (fold1_x_add G F _ H1) as [H3 H4]. split.
    - apply eND_neg. exact H3.
    - rewrite ev_neg, H4, H2, Hgen. reflexivity.
  Qed.

  (** sum over (coefficient, expression) pairs *)
  Fixpoint pair_sum (l : list (Q * edict)) : R :=
    match l with [] => 0 | (s, e) :: r => Q2R s * ev e + pair_sum r end.

  Lemma pair_sum_app a b : pair_sum (a ++ b) = pair_sum a + pair_sum b.
  Proof. induction a as [|[s e] a IH]; cbn [app pair_sum]; [lra|rewrite IH; lra]. Qed.

  Lemma scaled_list_spec l : Forall (fun p => eND (snd p)) l ->
    Forall eND (map (fun '(s, e) => x_scal s e) l)
    /\ ev_list G F (map (fun '(s, e) => x_scal s e) l) = pair_sum l.
  Proof.
    induction l as [|[s e] l IH]; intro Hl; cbn [map ev_list pair_sum].
    - split; [constructor|reflexivity].
    - inversion Hl as [|? ? He Hl']; subst. destruct (IH Hl') as [H1 H2]. cbn [snd] in He. split.
      + constructor; [apply eND_scal; exact He|exact H1].
      + rewrite H2, ev_scal. reflexivity.
  Qed.

  Lemma rdot_combine srow : forall erow j0 (a : nat -> R),
    length srow = length erow ->
    (forall k, (k < length erow)%nat -> a (j0 + k)%nat = ev (nth k erow [])) ->
    rdot srow a j0 = pair_sum (combine srow erow).
  Proof.
    induction srow as [|s srow IH]; intros erow j0 a Hlen Ha; destruct erow as [|e erow];
      cbn [rdot combine pair_sum]; try reflexivity; try discriminate.
    cbn [length] in Hlen. injection Hlen as Hlen.
    rewrite (IH erow (S j0) a Hlen).
    - specialize (Ha 0%nat). cbn [length nth] in Ha. rewrite Nat.add_0_r in Ha. rewrite Ha by lia. reflexivity.
    - intros k Hk. specialize (Ha (S k)). cbn [length nth] in Ha.
      replace (S j0 + k)%nat with (j0 + S k)%nat by lia. apply Ha. lia.
  Qed.

  Definition same_shape (Sm : list (list Q)) (m : list (list edict)) : Prop :=
    Forall2 (fun s e => length s = length e) Sm m.

  Lemma combine_app {A B} (a1 a2 : list A) (b1 b2 : list B) :
    length a1 = length b1 -> combine (a1 ++ a2) (b1 ++ b2) = combine a1 b1 ++ combine a2 b2.
  Proof.
    revert b1. induction a1 as [|x a1 IH]; intros [|y b1] H; cbn in *; try discriminate; [reflexivity|].
    f_equal. apply IH. lia.
  Qed.

  Lemma mdot_combine Sm : forall m i0 (A : nat -> nat -> R),
    same_shape Sm m ->
    (forall i j, A (i0 + i)%nat j = ev (nth j (nth i m []) [])) ->
    mdot_from Sm A i0 = pair_sum (combine (concat Sm) (concat m)).
  Proof.
    induction Sm as [|s Sm IH]; intros m i0 A Hsh HA; inversion Hsh as [|? e ? m' Hlen Hsh']; subst;
      cbn [mdot_from concat combine pair_sum]; [reflexivity|].
    rewrite combine_app by exact Hlen. rewrite pair_sum_app. f_equal.
    - apply rdot_combine; [exact Hlen|]. intros k _. cbn [Nat.add].
      specialize (HA 0%nat k). rewrite Nat.add_0_r in HA. cbn [nth] in HA. exact HA.
    - apply (IH m' (S i0) A Hsh'). intros i j. specialize (HA (S i) j). cbn [nth] in HA.
      replace (S i0 + i)%nat with (i0 + S i)%nat by lia. exact HA.
  Qed.

  Definition wf_matrix (m : list (list edict)) : Prop := Forall (Forall wf_edict) m.

  (** line 747: np.sum(S * E) evaluates to <S, E(G,F)> *)
  Lemma lmi_term_spec Sm m : same_shape Sm m -> wf_matrix m ->
    eND (lmi_term Sm m) /\ ev (lmi_term Sm m) = mdot Sm (lmi_value G F m).
  Proof.
    intros Hsh Hwf. unfold lmi_term.
    assert (Hl : Forall (fun p : Q * edict => eND (snd p)) (combine (concat Sm) (concat m))).
    { apply Forall_forall. intros [s e] Hin. cbn [snd]. apply in_combine_r in Hin.
      apply in_concat in Hin as [row [Hrow Hin]].
      unfold wf_matrix in Hwf. rewrite Forall_forall in Hwf. specialize (Hwf row Hrow).
      rewrite Forall_forall in Hwf. exact (Hwf e Hin). }
    destruct (scaled_list_spec _ Hl) as [H1 H2].
    destruct (fold1_x_add G F _ H1) as [H3 H4]. split; [exact H3|].
    rewrite H4, H2. unfold mdot. symmetry.
    apply mdot_combine; [exact Hsh|]. intros i j. reflexivity.
  Qed.

  (** ** The whole combination *)
  Definition ok_expo (p : expo) : Prop :=
    match p with
    | (SC e _, _, _) => wf_edict e
    | (LMI m, d, u) =>
        match lmi_multiplier d u with Some s => same_shape s m | None => True end
        /\ match d with VM s => same_shape s m | VS _ => True end
        /\ wf_matrix m
    end.

  Fixpoint psd_sum (l : list (list (list Q) * list (list edict))) : R :=
    match l with [] => 0 | (s, m) :: r => mdot s (lmi_value G F m) + psd_sum r end.

  Lemma multiplier_sum_split a :
    multiplier_sum G F a = pair_sum (scalar_part a) - psd_sum (psd_part a).
  Proof.
    induction a as [|[[it d] u] a IH]; cbn [multiplier_sum scalar_part psd_part flat_map pair_sum psd_sum]; [lra|].
    fold (scalar_part a). fold (psd_part a).
    destruct it as [e s|m].
    - destruct d as [l|Sm]; cbn [app pair_sum psd_sum]; rewrite IH; lra.
    - destruct (lmi_multiplier d u) as [s|]; destruct d; cbn [app pair_sum psd_sum]; rewrite IH; lra.
  Qed.

  Lemma old_multiplier_sum_split a :
    old_multiplier_sum G F a = pair_sum (scalar_part a) - psd_sum (old_psd_part a).
  Proof.
    induction a as [|[[it d] u] a IH]; cbn [old_multiplier_sum scalar_part old_psd_part flat_map pair_sum psd_sum]; [lra|].
    fold (scalar_part a). fold (old_psd_part a).
    destruct it as [e s|m], d as [l|Sm]; cbn [app pair_sum psd_sum]; rewrite IH; lra.
  Qed.

  Lemma fold_psd l : forall cc,
    eND cc -> Forall (fun p => same_shape (fst p) (snd p) /\ wf_matrix (snd p)) l ->
    eND (fold_left (fun cc '(s, m) => x_sub cc (lmi_term s m)) l cc)
    /\ ev (fold_left (fun cc '(s, m) => x_sub cc (lmi_term s m)) l cc) = ev cc - psd_sum l.
  Proof.
    induction l as [|[s m] l IH]; intros cc Hcc Hl; cbn [fold_left psd_sum].
    - split; [exact Hcc|lra].
    - inversion Hl as [|? ? [Hsh Hwf] Hl']; subst. cbn [fst snd] in *.
      destruct (lmi_term_spec s m Hsh Hwf) as [H1 H2].
      destruct (IH (x_sub cc (lmi_term s m)) (eND_sub _ _ Hcc H1) Hl') as [H3 H4].
      split; [exact H3|]. rewrite H4, ev_sub, H2 by assumption. lra.
  Qed.

  Lemma fold_scalars l : forall cc,
    eND cc -> Forall (fun p : Q * edict => eND (snd p)) l ->
    eND (fold_left (fun cc '(la, e) => x_add cc (x_scal la e)) l cc)
    /\ ev (fold_left (fun cc '(la, e) => x_add cc (x_scal la e)) l cc) = ev cc + pair_sum l.
  Proof.
    induction l as [|[la e] l IH]; intros cc Hcc Hl; cbn [fold_left pair_sum].
    - split; [exact Hcc|lra].
    - inversion Hl as [|? ? He Hl']; subst. cbn [snd] in He.
      destruct (IH (x_add cc (x_scal la e)) (eND_add _ _ Hcc (eND_scal la e He)) Hl') as [H1 H2].
      split; [exact H1|]. rewrite H2, ev_add, ev_scal by (assumption || apply eND_scal; assumption). lra.
  Qed.

  Lemma parts_ok a : Forall ok_expo a ->
    Forall (fun p => same_shape (fst p) (snd p) /\ wf_matrix (snd p)) (psd_part a)
    /\ Forall (fun p => same_shape (fst p) (snd p) /\ wf_matrix (snd p)) (old_psd_part a)
    /\ Forall (fun p : Q * edict => eND (snd p)) (scalar_part a).
  Proof.
    induction a as [|[[it d] u] a IH]; intro H; cbn [psd_part old_psd_part scalar_part flat_map].
    - repeat split; constructor.
    - inversion H as [|? ? Hp H']; subst. destruct (IH H') as [H1 [H2 H3]].
      fold (psd_part a). fold (old_psd_part a). fold (scalar_part a).
      destruct it as [e s|m]; cbn [ok_expo] in Hp.
      + destruct d as [l|Sm]; cbn [app]; repeat split; try assumption. constructor; assumption.
      + destruct Hp as [Hp1 [Hp2 Hp3]].
        destruct (lmi_multiplier d u) as [s|]; destruct d as [l|Sm]; cbn [app]; repeat split; try assumption;
          constructor; try assumption; cbn [fst snd]; split; assumption.
  Qed.

  (** lines 733-768 *)
  Lemma combine_terms_spec res psds scs :
    Forall (fun p => same_shape (fst p) (snd p) /\ wf_matrix (snd p)) psds ->
    Forall (fun p : Q * edict => eND (snd p)) scs ->
    eND (combine_terms res psds scs)
    /\ ev (combine_terms res psds scs) = pair_sum scs - psd_sum psds - mdot res G.
  Proof.
    intros Hp Hs. destruct (gram_term_spec res) as [H0 H0']. unfold combine_terms.
    destruct (fold_psd psds (gram_term res) H0 Hp) as [H1 H1'].
    destruct (fold_scalars scs _ H1 Hs) as [H2 H2'].
    split; [exact H2|]. rewrite H2', H1', H0'. lra.
  Qed.

  Theorem combination_spec res a : Forall ok_expo a ->
    eND (combination res a)
    /\ ev (combination res a) = multiplier_sum G F a - mdot res G.
  Proof.
    intro Hok. destruct (parts_ok a Hok) as [Hp [_ Hs]].
    destruct (combine_terms_spec res _ _ Hp Hs) as [H1 H2]. split; [exact H1|].
    unfold combination. rewrite H2, multiplier_sum_split. lra.
  Qed.

  Theorem old_combination_spec res a : Forall ok_expo a ->
    eND (old_combination res a)
    /\ ev (old_combination res a) = old_multiplier_sum G F a - mdot res G.
  Proof.
    intro Hok. destruct (parts_ok a Hok) as [_ [Hp Hs]].
    destruct (combine_terms_spec res _ _ Hp Hs) as [H1 H2]. split; [exact H1|].
    unfold old_combination. rewrite H2, old_multiplier_sum_split. lra.
  Qed.
End Recon.

(** ** symmetrize: its value at ANY matrix G is the value of the original at the symmetric part of G *)
Definition symm (G : nat -> nat -> R) : nat -> nat -> R := fun i j => (G i j + G j i) / 2.

Lemma symm_sym G : symG (symm G).
Proof. intros i j. unfold symm. lra. Qed.

Lemma evalGF_ext G G' F F' d :
  (forall i j, G i j = G' i j) -> (forall k, F k = F' k) -> evalGF G F d = evalGF G' F' d.
Proof.
  intros HG HF. induction d as [|[k q] d IH]; cbn [evalGF]; [reflexivity|].
  rewrite IH. f_equal. f_equal. destruct k; cbn [evalKGF]; auto.
Qed.

Lemma symm_of_sym G : symG G -> forall i j, symm G i j = G i j.
Proof. intros H i j. unfold symm. rewrite (H j i). lra. Qed.

Lemma swap_key_inj a b : swap_key a = swap_key b -> a = b.
Proof. destruct a, b; cbn; congruence. Qed.

Lemma eND_swap d : eND d -> eND (map (fun '(k, v) => (swap_key k, v)) d).
Proof.
  unfold NoDupKeys, keys. rewrite map_map.
  replace (map (fun x : ekey * Q => fst (let '(k, v) := x in (swap_key k, v))) d)
    with (map swap_key (map fst d))
    by (rewrite map_map; apply map_ext; intros [k v]; reflexivity).
  intro H. apply FinFun.Injective_map_NoDup; [|exact H]. intros a b. apply swap_key_inj.
Qed.

Lemma evalGF_swap G F d :
  evalGF G F (map (fun '(k, v) => (swap_key k, v)) d) = evalGF (fun i j => G j i) F d.
Proof.
  induction d as [|[k q] d IH]; cbn [map evalGF]; [reflexivity|].
  rewrite IH. f_equal. f_equal. destruct k; reflexivity.
Qed.

Lemma evalGF_symmetrize G F d : eND d -> evalGF G F (symmetrize d) = evalGF (symm G) F d.
Proof.
  intro Hd. unfold symmetrize, emerge.
  assert (Hh : forall d', evalGF G F (halve d') = evalGF G F d' / 2).
  { induction d' as [|[k q] d' IH]; cbn [halve map evalGF]; [lra|].
    change (map (fun '(k0, v) => (k0, (v / 2)%Q)) d') with (halve d'). rewrite IH.
    unfold Qdiv. rewrite Q2R_mult, Q2R_inv by (intro H; discriminate H). rewrite Q2R_2. lra. }
  rewrite Hh, ev_dsum.
  rewrite (dsum_merge ekey ekey_eqb ekey_eqb_spec) by (assumption || apply eND_swap; assumption).
  rewrite <- !ev_dsum, evalGF_swap.
  (* linearity in G *)
  clear Hd Hh. induction d as [|[k q] d IH]; cbn [evalGF]; [lra|].
  assert (evalGF G F d + evalGF (fun i j => G j i) F d = 2 * evalGF (symm G) F d) by lra.
  destruct k as [e|i j|]; cbn [evalKGF]; unfold symm in *; lra.
Qed.
