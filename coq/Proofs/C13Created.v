(** C13, part 4: the guard of C13_fresh_partial, on the state BEFORE the solve.  The objects the
    pipeline creates at a solve (class constraints, class LMIs and their entries, partition
    constraints, metric rows) hold no cache and refer to freshly created expressions only; the old
    objects are untouched by [prepare].  Hence: [clean] before the solve (for the objects that exist
    then) is [clean] when the solver is called. *)
From Coq Require Import List QArith Bool Arith Lia.
From PV Require Import Model.Dict Model.Terms Model.Dump Model.Sent Model.Eval Model.Resolve
  Proofs.C02Cache Proofs.C13Sent Proofs.C13Main Proofs.C13Fresh.
Import ListNotations.
Local Open Scope nat_scope.

Definition tail_clean (st : est) (n : nat) : Prop :=
  forall r o, n <= r -> get_obj st r = Some o ->
    ocache o = None /\ forall r', In (ERef r') (refs_of (okind_of o)) -> n <= r'.

Lemma tail_clean_clean st n x : tail_clean st n -> n <= x -> clean st x.
Proof.
  intros T Hx o Ho. destruct (T x o Hx Ho) as [Hc Hr]. split; [exact Hc|].
  intros r' Hin o' Ho'. apply (T r' o' (Hr r' Hin) Ho').
Qed.

(** [st'] extends [st]: old objects untouched, the tail stays clean *)
Definition grow (n : nat) (st st' : est) : Prop :=
  length (objs st) <= length (objs st')
  /\ (forall r, r < length (objs st) -> get_obj st' r = get_obj st r)
  /\ (tail_clean st n -> n <= length (objs st) -> tail_clean st' n).

Lemma grow_refl n st : grow n st st.
Proof. split; [lia|split; auto]. Qed.
Lemma grow_trans n a b c : grow n a b -> grow n b c -> grow n a c.
Proof.
  intros (A1 & A2 & A3) (B1 & B2 & B3). split; [lia|split].
  - intros r Hr. rewrite B2 by lia. apply A2, Hr.
  - intros T Hn. apply B3; [apply A3; assumption|lia].
Qed.
Lemma grow_new_obj n st k : (forall r', In (ERef r') (refs_of k) -> n <= r') -> grow n st (new_obj st k).
Proof.
  intro Hk. split; [rewrite length_new_obj; lia|split].
  - intros r Hr. apply get_obj_new_obj_old, Hr.
  - intros T Hn r o Hr Ho. destruct (Nat.lt_ge_cases r (length (objs st))) as [H|H].
    + rewrite get_obj_new_obj_old in Ho by exact H. apply (T r o Hr Ho).
    + pose proof (get_obj_lt _ _ _ Ho) as Hlt. rewrite length_new_obj in Hlt.
      assert (r = length (objs st)) by lia. subst r. rewrite get_obj_new_obj_last in Ho. injection Ho as <-.
      cbn [ocache okind_of]. split; [reflexivity|exact Hk].
Qed.

Lemma mk_cons_grow n st c st' r : mk_cons st c = (st', r) -> n <= length (objs st) -> grow n st st'.
Proof.
  unfold mk_cons, next_ref. intros [= <- <-] Hn.
  apply (grow_trans n st (new_obj st (KExpr (fst c)))).
  - apply grow_new_obj. intros r' [].
  - apply grow_new_obj. intros r' [H|[]]. injection H as <-. exact Hn.
Qed.
Lemma mk_conss_grow n : forall cs st st' rs, mk_conss st cs = (st', rs) -> n <= length (objs st) -> grow n st st'.
Proof.
  induction cs as [|c cs IH]; intros st st' rs; cbn [mk_conss]; [intros [= <- <-] _; apply grow_refl|].
  destruct (mk_cons st c) as [st1 r] eqn:H1. destruct (mk_conss st1 cs) as [st2 rs'] eqn:H2.
  intros [= <- <-] Hn. pose proof (mk_cons_grow n _ _ _ _ H1 Hn) as G1.
  eapply grow_trans; [exact G1|]. eapply IH; [exact H2|]. destruct G1 as (L & _). lia.
Qed.

Definition refs_ge (m : nat) (es : list eh) : Prop := forall r', In (ERef r') es -> m <= r'.

Lemma mk_entries_grow n : forall row st st' es, mk_entries st row = (st', es) ->
  grow n st st' /\ refs_ge (length (objs st)) es.
Proof.
  induction row as [|d row IH]; intros st st' es; cbn [mk_entries].
  - intros [= <- <-]. split; [apply grow_refl|intros r' []].
  - destruct (mk_entries (new_obj st (KExpr d)) row) as [st1 es'] eqn:H1. intros [= <- <-].
    apply IH in H1 as [G1 R1]. split.
    + apply (grow_trans n st (new_obj st (KExpr d))); [apply grow_new_obj; intros r' []|exact G1].
    + intros r' [H|H]; [injection H as <-; unfold next_ref; lia|].
      specialize (R1 r' H). rewrite length_new_obj in R1. lia.
Qed.
Lemma mk_matrix_grow n : forall m st st' ess, mk_matrix st m = (st', ess) ->
  grow n st st' /\ refs_ge (length (objs st)) (concat ess).
Proof.
  induction m as [|row m IH]; intros st st' ess; cbn [mk_matrix].
  - intros [= <- <-]. split; [apply grow_refl|intros r' []].
  - destruct (mk_entries st row) as [st1 es] eqn:H1. destruct (mk_matrix st1 m) as [st2 ess'] eqn:H2.
    intros [= <- <-]. apply (mk_entries_grow n) in H1 as [G1 R1]. apply IH in H2 as [G2 R2]. split.
    + eapply grow_trans; eassumption.
    + cbn [concat]. intros r' Hin. apply in_app_or in Hin as [Hin|Hin]; [apply R1, Hin|].
      specialize (R2 r' Hin). destruct G1 as (L & _). lia.
Qed.
Lemma mk_lmi_grow n st m st' r : mk_lmi st m = (st', r) -> n <= length (objs st) -> grow n st st'.
Proof.
  unfold mk_lmi. destruct (mk_matrix st m) as [st1 ess] eqn:H1. intros [= <- <-] Hn.
  apply (mk_matrix_grow n) in H1 as [G1 R1]. eapply grow_trans; [exact G1|].
  apply grow_new_obj. cbn [refs_of]. intros r' Hin. specialize (R1 r' Hin). lia.
Qed.
Lemma mk_lmis_grow n : forall ms st st' rs, mk_lmis st ms = (st', rs) -> n <= length (objs st) -> grow n st st'.
Proof.
  induction ms as [|m ms IH]; intros st st' rs; cbn [mk_lmis]; [intros [= <- <-] _; apply grow_refl|].
  destruct (mk_lmi st m) as [st1 r] eqn:H1. destruct (mk_lmis st1 ms) as [st2 rs'] eqn:H2.
  intros [= <- <-] Hn. pose proof (mk_lmi_grow n _ _ _ _ H1 Hn) as G1.
  eapply grow_trans; [exact G1|]. eapply IH; [exact H2|]. destruct G1 as (L & _). lia.
Qed.
Lemma gen_functions_grow n : forall ts st st' fs, gen_functions st ts = (st', fs) -> n <= length (objs st) ->
  grow n st st'.
Proof.
  induction ts as [|t ts IH]; intros st st' fs; cbn [gen_functions]; [intros [= <- <-] _; apply grow_refl|].
  unfold gen_function. destruct (mk_conss st (t_cons t)) as [sa cs] eqn:H1.
  destruct (mk_lmis sa (t_lmis t)) as [sb ls] eqn:H2. destruct (gen_functions sb ts) as [sc fs'] eqn:H3.
  intros [= <- <-] Hn. pose proof (mk_conss_grow n _ _ _ _ H1 Hn) as G1.
  assert (Ha : n <= length (objs sa)) by (destruct G1 as (L & _); lia).
  pose proof (mk_lmis_grow n _ _ _ _ H2 Ha) as G2.
  assert (Hb : n <= length (objs sb)) by (destruct G2 as (L & _); lia).
  eapply grow_trans; [exact G1|]. eapply grow_trans; [exact G2|]. eapply IH; eassumption.
Qed.
Lemma gen_partitions_grow n : forall ps st st' css, gen_partitions st ps = (st', css) -> n <= length (objs st) ->
  grow n st st'.
Proof.
  induction ps as [|p ps IH]; intros st st' css; cbn [gen_partitions]; [intros [= <- <-] _; apply grow_refl|].
  destruct (mk_conss st _) as [sa cs] eqn:H1. destruct (gen_partitions sa ps) as [sb css'] eqn:H2.
  intros [= <- <-] Hn. pose proof (mk_conss_grow n _ _ _ _ H1 Hn) as G1.
  eapply grow_trans; [exact G1|]. eapply IH; [exact H2|]. destruct G1 as (L & _). lia.
Qed.

Lemma prepare_grow s : grow (length (objs (es s))) (es s) (es (prepare s)).
Proof.
  unfold prepare. set (n := length (objs (es s))).
  destruct (gen_functions (new_leafE (es s)) (ftem s)) as [st1 fs] eqn:H1.
  destruct (gen_partitions st1 (ptem s)) as [st2 ps] eqn:H2.
  destruct (mk_conss st2 _) as [st3 ms] eqn:H3. cbn [es].
  assert (G0 : grow n (es s) (new_leafE (es s))) by (split; [cbn; lia|split; auto]).
  assert (N0 : n <= length (objs (new_leafE (es s)))) by (cbn; lia).
  pose proof (gen_functions_grow n _ _ _ _ H1 N0) as G1.
  assert (N1 : n <= length (objs st1)) by (destruct G1 as (L & _); cbn in L; lia).
  pose proof (gen_partitions_grow n _ _ _ _ H2 N1) as G2.
  assert (N2 : n <= length (objs st2)) by (destruct G2 as (L & _); lia).
  pose proof (mk_conss_grow n _ _ _ _ H3 N2) as G3.
  eapply grow_trans; [exact G0|]. eapply grow_trans; [exact G1|]. eapply grow_trans; eassumption.
Qed.

(** *** the guard of C13_fresh_partial, stated before the solve *)
Theorem guard_before_solve s x :
  (x < length (objs (es s)) -> clean (es s) x) -> clean (es (prepare s)) x.
Proof.
  intro H. destruct (prepare_grow s) as (L & Old & T).
  assert (TC : tail_clean (es (prepare s)) (length (objs (es s)))).
  { apply T; [|lia]. intros r o Hr Ho. apply get_obj_lt in Ho. lia. }
  destruct (Nat.lt_ge_cases x (length (objs (es s)))) as [Hx|Hx]; [|eapply tail_clean_clean; eassumption].
  specialize (H Hx). intros o Ho. rewrite Old in Ho by exact Hx. destruct (H o Ho) as [Hc Hr].
  split; [exact Hc|]. intros r' Hin o' Ho'.
  destruct (Nat.lt_ge_cases r' (length (objs (es s)))) as [Hr'|Hr'].
  - rewrite Old in Ho' by exact Hr'. apply (Hr r' Hin o' Ho').
  - apply (TC r' o' Hr' Ho').
Qed.

(** the guard is decidable *)
Definition cache_none (st : est) (r : nat) : bool :=
  match get_obj st r with Some o => match ocache o with None => true | Some _ => false end | None => true end.
Definition cleanb (st : est) (x : nat) : bool :=
  match get_obj st x with
  | None => true
  | Some o => cache_none st x &&
              forallb (fun e => match e with ERef r' => cache_none st r' | ELeaf _ => true end) (refs_of (okind_of o))
  end.
Lemma cleanb_clean st x : cleanb st x = true -> clean st x.
Proof.
  unfold cleanb, clean. intros H o Ho. rewrite Ho in H. apply andb_true_iff in H as [H1 H2].
  unfold cache_none in H1. rewrite Ho in H1. split; [destruct (ocache o); [discriminate|reflexivity]|].
  intros r' Hin o' Ho'. rewrite forallb_forall in H2. specialize (H2 _ Hin). cbn in H2.
  unfold cache_none in H2. rewrite Ho' in H2. destruct (ocache o'); [discriminate|reflexivity].
Qed.

(** C13_fresh_partial with the guard evaluated on the history before the solve: every object that
    exists then and satisfies [cleanb], and EVERY object the pipeline or the user creates afterwards
    out of fresh expressions, evaluates to solution k. *)
Theorem fresh_partial_guard ops0 sol ops x o :
  let s := final ops0 in
  let n := length (lpv (es s)) in
  let s2 := fst (run (solve s (Some sol)) ops) in
  (x < length (objs (es s)) -> cleanb (es s) x = true) ->
  x < length (objs (es (solve s (Some sol)))) ->
  forallb quiet ops = true ->
  get_obj (es s2) x = Some o -> okind_of o <> KPoint [] ->
  snd (eval_obj (es s2) x) = pure_obj n (es s2) (okind_of o).
Proof.
  cbv zeta. intros G Hx Q Ho Hne.
  apply (fresh_partial ops0 sol ops x o); try assumption.
  apply guard_before_solve. intro H. apply cleanb_clean, G, H.
Qed.
