(** C09 — a SHIPPED example as a program of the op language (the tie "shipped example = model program").

    The literal below is what harness/extrace.py produces from tracing
    PEPit/examples/unconstrained_convex_minimization/proximal_point.py, wc_proximal_point(gamma = 0.1, n = 3) (the
    parameters of tests/test_examples.py) on the real PEPit:
        func = problem.declare_function(ConvexFunction); xs = func.stationary_point(); fs = func(xs)   (a reuse: no op)
        x0 = problem.set_initial_point(); x = x0; for _ in range(3): x, _, fx = proximal_step(x, func, gamma)
    The step size is the float 0.1 as the exact rational it is.  The stream `examples-as-programs` of harness/p_c09.py
    re-traces the example on every run, compares `mrun` of the traced program with the real bookkeeping, and reports
    whether this literal is still the traced one (distribution.coq_example_literal_is_the_traced_program). *)
From Coq Require Import List QArith ZArith Arith Bool.
From PV Require Import Model.Dict Model.Terms Model.Method.
Import ListNotations.

Definition shipped_proximal_point_program : list mop :=
  [MStat 0%nat; MFresh; MProx 0%nat [(1%nat, (1 # 1)%Q)] (3602879701896397 # 36028797018963968)%Q; MProx 0%nat [(1%nat, (1 # 1)%Q); (2%nat, ((-3602879701896397) # 36028797018963968)%Q)] (3602879701896397 # 36028797018963968)%Q; MProx 0%nat [(1%nat, (1 # 1)%Q); (2%nat, ((-3602879701896397) # 36028797018963968)%Q); (3%nat, ((-3602879701896397) # 36028797018963968)%Q)] (3602879701896397 # 36028797018963968)%Q].

Definition shipped_gamma : Q := (3602879701896397 # 36028797018963968)%Q.

Example shipped_proximal_point_example :
  mwf shipped_proximal_point_program minit = true /\
  forallb linopt_dir_nonzero shipped_proximal_point_program = true /\
  m_np (mrun shipped_proximal_point_program minit) = 5%nat /\
  m_ne (mrun shipped_proximal_point_program minit) = 4%nat /\
  List.length (m_samples (mrun shipped_proximal_point_program minit)) = 4%nat /\
  m_cons (mrun shipped_proximal_point_program minit) = [] /\
  (* the last recorded triple: x3 = x0 - gamma g1 - gamma g2 - gamma g3, the fresh subgradient leaf 4, the fresh value leaf 3 *)
  nth_error (m_samples (mrun shipped_proximal_point_program minit)) 3 =
    Some (0%nat, ([(1%nat, 1%Q); (2%nat, Qopp shipped_gamma); (3%nat, Qopp shipped_gamma); (4%nat, Qopp shipped_gamma)],
                  [(4%nat, 1%Q)], [(KF 3, 1%Q)])).
Proof. vm_compute. repeat split; reflexivity. Qed.
