(** C08, second half: a REAL execution of a step satisfies what the step recorded, and conversely
    what was recorded characterises a real execution ("nothing stronger or weaker").

    Part 1: the mathematics, in an arbitrary real inner-product space (first-order optimality of
    the prox along segments with a t -> 0 limit, Fermat's rule along lines for Gateaux-
    differentiable functions, normal cones, Bregman steps, epsilon-subgradients, conjugates).
    Part 2: the tie to the generated programs: valuing the fresh leaves created by the step with the
    real outputs makes every recorded sample genuine and every recorded constraint true. *)
From Coq Require Import List QArith Reals Qreals Lra Psatz Bool Arith Lia String Morphisms Setoid.
From PV Require Import Base.IPS Model.Dict Model.Terms Model.StepsRT Gen.Steps Spec.Sem Spec.Classes Spec.StepsSpec
                       Proofs.DictLemmas Proofs.SemLemmas Proofs.C08Lemmas Proofs.C08Records.
Import ListNotations.
Local Open Scope R_scope.
Local Opaque veq.

(** two limit lemmas (t -> 0+) *)
Lemma limit_t0 a c : 0 <= c -> (forall t, 0 < t < 1 -> 0 <= a + t * c) -> 0 <= a.
Proof.
  intros Hc H. destruct (Rle_lt_dec 0 a) as [Ha|Ha]; [exact Ha|]. exfalso.
  destruct (Rle_lt_dec c (- a)) as [Hca|Hca].
  - pose proof (H (1 / 2) ltac:(lra)). lra.
  - assert (Hcpos : 0 < c) by lra.
    set (t := - a / (2 * c)).
    assert (Htc : t * c = - a / 2) by (unfold t; field; lra).
    assert (Ht0 : 0 < t) by (unfold t; apply Rdiv_lt_0_compat; lra).
    assert (Ht1 : t < 1).
    { apply Rmult_lt_reg_r with (r := c); [exact Hcpos|]. lra. }
    pose proof (H t (conj Ht0 Ht1)). lra.
Qed.

Lemma limit_eps a : (forall eps, 0 < eps -> 0 <= a + eps) -> 0 <= a.
Proof.
  intros H. destruct (Rle_lt_dec 0 a) as [Ha|Ha]; [exact Ha|]. exfalso.
  pose proof (H (- a / 2) ltac:(lra)). lra.
Qed.

Section Math.
  Context {E : ips}.
  Implicit Types x y z g d u v w : E.

  Lemma subgrad_ext (F : @fn E) x x' g g' :
    fn_ext F -> veq x x' -> veq g g' -> subgrad F x g -> subgrad F x' g'.
  Proof.
    intros HF Hx Hg [Hd Hs]. destruct (HF x x' Hx) as [Hdd Hv]. split; [apply Hdd; exact Hd|].
    intros y Hy. rewrite <- Hv, <- Hg, <- Hx. apply Hs, Hy.
  Qed.

  Lemma genuine_sub_ext (F : @fn E) x x' g g' f :
    fn_ext F -> veq x x' -> veq g g' -> genuine_sub F (x, g, f) -> genuine_sub F (x', g', f).
  Proof.
    intros HF Hx Hg [Hs Hf]. split; [exact (subgrad_ext F x x' g g' HF Hx Hg Hs)|].
    destruct (HF x x' Hx) as [_ Hv]. congruence.
  Qed.

  (** *** proximal step *)
  Lemma seg_sq x y x0 t :
    nrm2 (vsub (seg x y t) x0)
    = nrm2 (vsub x x0) + 2 * t * inner (vsub x x0) (vsub y x) + t * t * nrm2 (vsub y x).
  Proof. unfold seg. bilin. orient [x; y; x0]. ring. Qed.

  (** x = prox_{gamma F}(x0)  =>  (x0 - x) / gamma is a subgradient of F at x *)
  Theorem prox_optimality (F : @fn E) gamma x0 x :
    convex_fn F -> 0 < gamma -> is_prox F gamma x0 x ->
    subgrad F x (vscal (1 / gamma) (vsub x0 x)).
  Proof.
    intros Hc Hg [Hdx Hmin]. split; [exact Hdx|]. intros y Hy.
    set (a := gamma * (val F y - val F x) + inner (vsub x x0) (vsub y x)).
    assert (Ha : 0 <= a).
    { apply limit_t0 with (c := 1 / 2 * nrm2 (vsub y x)).
      - unfold nrm2. pose proof (inner_pos E (vsub y x)). lra.
      - intros t Ht. destruct (Hc x y t Hdx Hy Ht) as [Hdz Hvz].
        pose proof (Hmin _ Hdz) as Hm. rewrite seg_sq in Hm.
        assert (Hg' : gamma * val F (seg x y t) <= gamma * ((1 - t) * val F x + t * val F y))
          by (apply Rmult_le_compat_l; lra).
        assert (Hprod : 0 <= t * (a + t * (1 / 2 * nrm2 (vsub y x)))) by (unfold a; lra).
        destruct Ht as [Ht0 _].
        apply Rmult_le_reg_l with (r := t); [exact Ht0|]. lra. }
    rewrite inner_scal_l.
    assert (Hq : inner (vsub x0 x) (vsub y x) = - inner (vsub x x0) (vsub y x)).
    { bilin. ring. }
    rewrite Hq.
    assert (Hk : 0 < 1 / gamma) by (apply Rdiv_lt_0_compat; lra).
    assert (Hka : 0 <= 1 / gamma * a) by (apply Rmult_le_pos; lra).
    unfold a in Hka.
    replace (1 / gamma * (gamma * (val F y - val F x) + inner (vsub x x0) (vsub y x)))
      with (val F y - val F x + 1 / gamma * inner (vsub x x0) (vsub y x)) in Hka by (field; lra).
    lra.
  Qed.

  (** conversely x = x0 - gamma g with g a subgradient at x  =>  x is the prox (no convexity needed) *)
  Theorem prox_converse (F : @fn E) gamma x0 x g :
    0 <= gamma -> subgrad F x g -> veq x (vsub x0 (vscal gamma g)) -> is_prox F gamma x0 x.
  Proof.
    intros Hg [Hdx Hs] Hx. split; [exact Hdx|]. intros y Hy. pose proof (Hs y Hy) as Hsy.
    assert (Hd : veq (vsub x x0) (vscal (- gamma) g)).
    { apply veq_intro. intros w. rewrite Hx. bilin. ring. }
    assert (Hsq : nrm2 (vsub y x0) = nrm2 (vsub y x) + 2 * inner (vsub y x) (vsub x x0) + nrm2 (vsub x x0)).
    { bilin. orient [x; y; x0]. ring. }
    assert (Hi : inner (vsub y x) (vsub x x0) = - gamma * inner g (vsub y x)).
    { rewrite Hd, inner_scal_r, (inner_sym E (vsub y x) g). reflexivity. }
    rewrite Hsq, Hi.
    assert (Hn : 0 <= nrm2 (vsub y x)) by (unfold nrm2; apply inner_pos).
    assert (Hm : gamma * val F y >= gamma * (val F x + inner g (vsub y x))) by (apply Rmult_ge_compat_l; lra).
    lra.
  Qed.

  (** *** linear optimisation over the domain of an indicator *)
  Theorem linopt_iff_normal (F : @fn E) dir x :
    (forall z, dom F z -> val F z = 0) ->
    (is_linopt F dir x <-> subgrad F x (vneg dir)).
  Proof.
    intros Hind. split; intros [Hdx H]; (split; [exact Hdx|]); intros y Hy.
    - rewrite (Hind y Hy), (Hind x Hdx). pose proof (H y Hy) as P.
      assert (Hq : inner (vneg dir) (vsub y x) = inner dir x - inner dir y) by (bilin; ring). lra.
    - pose proof (H y Hy) as P. rewrite (Hind y Hy), (Hind x Hdx) in P.
      assert (Hq : inner (vneg dir) (vsub y x) = inner dir x - inner dir y) by (bilin; ring). lra.
  Qed.

  (** *** Fermat's rule along a line for a Gateaux-differentiable function *)
  Theorem fermat_line (F : @dfn E) x d :
    gateaux F -> (forall t, dval F x <= dval F (vadd x (vscal t d))) -> inner (dgrad F x) d = 0.
  Proof.
    intros HG Hmin. set (p := inner (dgrad F x) d).
    assert (Hb : forall eps, 0 < eps -> - eps <= p <= eps).
    { intros eps He. destruct (HG x d eps He) as (delta & Hd & Hg).
      assert (Habs1 : Rabs (delta / 2) = delta / 2) by (apply Rabs_pos_eq; lra).
      assert (Habs2 : Rabs (- (delta / 2)) = delta / 2) by (rewrite Rabs_Ropp; exact Habs1).
      pose proof (Hg (delta / 2) ltac:(lra)) as G1. rewrite Habs1 in G1.
      pose proof (Hg (- (delta / 2)) ltac:(lra)) as G2. rewrite Habs2 in G2.
      pose proof (Hmin (delta / 2)) as M1. pose proof (Hmin (- (delta / 2))) as M2.
      fold p in G1, G2.
      pose proof (Rle_abs (dval F (vadd x (vscal (delta / 2) d)) - dval F x - delta / 2 * p)) as A1.
      pose proof (Rle_abs (dval F (vadd x (vscal (- (delta / 2)) d)) - dval F x - - (delta / 2) * p)) as A2.
      assert (P1 : - (delta / 2) * p <= eps * (delta / 2)) by lra.
      assert (P2 : (delta / 2) * p <= eps * (delta / 2)) by lra.
      split; apply Rmult_le_reg_l with (r := delta / 2); lra. }
    destruct (Rtotal_order p 0) as [Hp|[Hp|Hp]]; [|exact Hp|].
    - pose proof (Hb (- p / 2) ltac:(lra)). lra.
    - pose proof (Hb (p / 2) ltac:(lra)). lra.
  Qed.

  (** spans *)
  Lemma inner_span g u ds :
    (forall d, In d ds -> inner g d = 0) -> in_span u ds -> inner g u = 0.
  Proof.
    intros Hg (cs & Hlen & Hu). rewrite Hu. clear Hu u. revert cs Hlen.
    induction ds as [|d ds IH]; intros [|c cs] Hlen; cbn [combine lincomb]; try discriminate.
    - apply inner_zero_r.
    - rewrite inner_add_r, inner_scal_r, (Hg d (or_introl eq_refl)), IH.
      + lra.
      + intros d' Hd'. apply Hg. right. exact Hd'.
      + cbn in Hlen. lia.
  Qed.

  Lemma in_span_add u t d ds : In d ds -> in_span u ds -> in_span (vadd u (vscal t d)) ds.
  Proof.
    intros Hin (cs & Hlen & Hu). revert u cs Hlen Hu Hin.
    induction ds as [|d0 ds IH]; intros u [|c cs] Hlen Hu Hin; try discriminate; [destruct Hin|].
    cbn [combine lincomb] in Hu. destruct Hin as [->|Hin].
    - exists ((c + t) :: cs). split; [exact Hlen|]. cbn [combine lincomb].
      apply veq_intro. intros w. rewrite Hu. bilin. ring.
    - destruct (IH (lincomb (combine cs ds)) cs) as (cs' & Hlen' & Hu'); [cbn in Hlen; lia|reflexivity|exact Hin|].
      exists (c :: cs'). split; [cbn in *; lia|]. cbn [combine lincomb].
      apply veq_intro. intros w. rewrite Hu. rewrite <- Hu'. bilin. ring.
  Qed.

  (** *** exact line search on a differentiable function: the documented conditions hold *)
  Theorem linesearch_orthogonality (F : @dfn E) x0 ds x :
    gateaux F -> dfn_ext F -> is_linesearch F x0 ds x ->
    (forall d, In d ds -> inner (dgrad F x) d = 0) /\ inner (dgrad F x) (vsub x x0) = 0.
  Proof.
    intros HG Hext [Hsp Hmin].
    assert (Hd : forall d, In d ds -> inner (dgrad F x) d = 0).
    { intros d Hin. apply fermat_line; [exact HG|]. intros t. apply Hmin.
      destruct (in_span_add (vsub x x0) t d ds Hin Hsp) as (cs & Hlen & Hu).
      exists cs. split; [exact Hlen|]. rewrite <- Hu. apply veq_intro. intros w. bilin. ring. }
    split; [exact Hd|]. apply inner_span with (ds := ds); assumption.
  Qed.

  (** conversely, for a convex differentiable F: x - x0 in the span and the gradient orthogonal to
      every direction  =>  x is the exact line/span search point.  (The step records the
      orthogonality conditions only: the documented relaxation.) *)
  Theorem linesearch_converse (F : @dfn E) x0 ds x :
    grad_convex F -> in_span (vsub x x0) ds ->
    (forall d, In d ds -> inner (dgrad F x) d = 0) -> is_linesearch F x0 ds x.
  Proof.
    intros Hc Hsp Hd. split; [exact Hsp|]. intros y Hy. pose proof (Hc x y) as P.
    assert (H1 : inner (dgrad F x) (vsub y x0) = 0) by (apply inner_span with (ds := ds); assumption).
    assert (H2 : inner (dgrad F x) (vsub x x0) = 0) by (apply inner_span with (ds := ds); assumption).
    assert (Hq : inner (dgrad F x) (vsub y x)
                 = inner (dgrad F x) (vsub y x0) - inner (dgrad F x) (vsub x x0)) by (bilin; ring).
    lra.
  Qed.

  (** *** inexact gradient: |g - d|^2 is |d - g|^2 *)
  Lemma nrm2_sub_sym u v : nrm2 (vsub u v) = nrm2 (vsub v u).
  Proof. bilin. orient [u; v]. ring. Qed.

  (** *** Bregman (mirror) gradient step *)
  Theorem bregman_gradient_optimality (H : @dfn E) gamma g0 s0 x :
    gateaux H -> is_bregman_gradient H gamma g0 s0 x ->
    veq (dgrad H x) (vsub s0 (vscal gamma g0)).
  Proof.
    intros HG Hmin.
    set (Phi := mkD (fun y => gamma * inner g0 y + (dval H y - inner s0 y))
                    (fun y => vadd (vscal gamma g0) (vsub (dgrad H y) s0))).
    assert (HGP : gateaux Phi).
    { intros z d eps He. destruct (HG z d eps He) as (delta & Hd & Hg). exists delta. split; [exact Hd|].
      intros t Ht. pose proof (Hg t Ht) as G. cbn [dval dgrad Phi].
      replace (gamma * inner g0 (vadd z (vscal t d)) + (dval H (vadd z (vscal t d)) - inner s0 (vadd z (vscal t d)))
               - (gamma * inner g0 z + (dval H z - inner s0 z))
               - t * inner (vadd (vscal gamma g0) (vsub (dgrad H z) s0)) d)
        with (dval H (vadd z (vscal t d)) - dval H z - t * inner (dgrad H z) d) by (bilin; ring).
      exact G. }
    apply veq_intro. intros w.
    pose proof (fermat_line Phi x w HGP) as Fm. cbn [dval dgrad Phi] in Fm.
    assert (Hz : inner (vadd (vscal gamma g0) (vsub (dgrad H x) s0)) w = 0).
    { apply Fm. intros t. apply Hmin. }
    bilin_in Hz. bilin. lra.
  Qed.

  Theorem bregman_gradient_converse (H : @dfn E) gamma g0 s0 x :
    grad_convex H -> veq (dgrad H x) (vsub s0 (vscal gamma g0)) -> is_bregman_gradient H gamma g0 s0 x.
  Proof.
    intros Hc Hg y. pose proof (Hc x y) as P. rewrite Hg in P. bilin_in P. lra.
  Qed.

  (** *** Bregman proximal step *)
  Theorem bregman_prox_optimality (F : @fn E) (H : @dfn E) gamma s0 x :
    convex_fn F -> gateaux H -> 0 < gamma -> is_bregman_prox F H gamma s0 x ->
    subgrad F x (vscal (1 / gamma) (vsub s0 (dgrad H x))).
  Proof.
    intros Hc HG Hg [Hdx Hmin]. split; [exact Hdx|]. intros y Hy.
    set (d := vsub y x).
    set (a := gamma * (val F y - val F x) + inner (vsub (dgrad H x) s0) d).
    assert (Ha : 0 <= a).
    { apply limit_eps. intros eps He. destruct (HG x d eps He) as (delta & Hd & HGd).
      set (t := Rmin (1 / 2) (delta / 2)).
      assert (Ht0 : 0 < t) by (unfold t; apply Rmin_glb_lt; lra).
      assert (Ht1 : t < 1) by (unfold t; pose proof (Rmin_l (1 / 2) (delta / 2)); lra).
      assert (Htd : t < delta) by (unfold t; pose proof (Rmin_r (1 / 2) (delta / 2)); lra).
      assert (Habs : Rabs t = t) by (apply Rabs_pos_eq; lra).
      destruct (Hc x y t Hdx Hy (conj Ht0 Ht1)) as [Hdz Hvz].
      pose proof (Hmin _ Hdz) as Hm. change (seg x y t) with (vadd x (vscal t d)) in *.
      pose proof (HGd t ltac:(rewrite Habs; exact Htd)) as G. rewrite Habs in G.
      pose proof (Rle_abs (dval H (vadd x (vscal t d)) - dval H x - t * inner (dgrad H x) d)) as A.
      assert (Hs : inner s0 (vadd x (vscal t d)) = inner s0 x + t * inner s0 d) by (bilin; ring).
      rewrite Hs in Hm.
      assert (Hg' : gamma * val F (vadd x (vscal t d)) <= gamma * ((1 - t) * val F x + t * val F y))
        by (apply Rmult_le_compat_l; lra).
      assert (Hi : inner (vsub (dgrad H x) s0) d = inner (dgrad H x) d - inner s0 d) by (bilin; ring).
      assert (Hprod : 0 <= t * (a + eps)) by (unfold a; rewrite Hi; lra).
      apply Rmult_le_reg_l with (r := t); [exact Ht0|]. lra. }
    rewrite inner_scal_l.
    assert (Hq : inner (vsub s0 (dgrad H x)) d = - inner (vsub (dgrad H x) s0) d)
      by (bilin; ring).
    fold d.
    rewrite Hq.
    assert (Hk : 0 < 1 / gamma) by (apply Rdiv_lt_0_compat; lra).
    assert (Hka : 0 <= 1 / gamma * a) by (apply Rmult_le_pos; lra).
    unfold a in Hka.
    replace (1 / gamma * (gamma * (val F y - val F x) + inner (vsub (dgrad H x) s0) d))
      with (val F y - val F x + 1 / gamma * inner (vsub (dgrad H x) s0) d) in Hka by (field; lra).
    lra.
  Qed.

  Theorem bregman_prox_converse (F : @fn E) (H : @dfn E) gamma s0 x g :
    grad_convex H -> 0 <= gamma -> subgrad F x g -> veq (dgrad H x) (vsub s0 (vscal gamma g)) ->
    is_bregman_prox F H gamma s0 x.
  Proof.
    intros Hc Hg [Hdx Hs] Hgr. split; [exact Hdx|]. intros y Hy.
    pose proof (Hc x y) as P. rewrite Hgr in P. bilin_in P. pose proof (Hs y Hy) as Q. bilin_in Q.
    assert (Hm : gamma * val F y >= gamma * (val F x + (inner g y + -1 * inner g x)))
      by (apply Rmult_ge_compat_l; lra).
    lra.
  Qed.

  (** *** epsilon-subgradients and conjugates *)

  (** for v a subgradient of F at w, the Fenchel conjugate f*(v) = sup_z <v,z> - F(z) is attained at w:
      the value <v,w> - F(w) used by the steps IS f*(v) *)
  Theorem conjugate_attained (F : @fn E) w v :
    subgrad F w v -> forall z, dom F z -> inner v z - val F z <= inner v w - val F w.
  Proof. intros [_ Hs] z Hz. pose proof (Hs z Hz) as P. bilin_in P. lra. Qed.

  (** recorded => real: the sample (y, g, F y) and the recorded inequality make g an eps-subgradient at x0 *)
  Theorem eps_subgrad_from_record (F : @fn E) eps x0 y g :
    dom F x0 -> subgrad F y g ->
    val F x0 + (inner g y - val F y) - inner g x0 <= eps -> eps_subgrad F eps x0 g.
  Proof.
    intros Hd0 [_ Hs] Hc. split; [exact Hd0|]. intros z Hz. pose proof (Hs z Hz) as P.
    bilin_in P. bilin. lra.
  Qed.

  (** real => recorded, under attainment of the conjugate (a point y with g a subgradient at y) *)
  Theorem eps_subgrad_to_record (F : @fn E) eps x0 y g :
    eps_subgrad F eps x0 g -> subgrad F y g ->
    val F x0 + (inner g y - val F y) - inner g x0 <= eps.
  Proof. intros [_ He] [Hdy _]. pose proof (He y Hdy) as P. bilin_in P. lra. Qed.
End Math.

(** ** Part 2 — valuing the fresh leaves by the real outputs *)

Lemma upd_other {A} v (a : A) m k : k <> v -> upd v a m k = m k.
Proof. intros H. unfold upd. destruct (Nat.eqb_spec k v); [contradiction|reflexivity]. Qed.

(** a dictionary that only mentions leaves created before n does not see the value given to leaf m >= n *)
Lemma evalP_upd_fresh {E : ips} (rho : nat -> E) n m v d :
  below n d -> (n <= m)%nat -> evalP (upd m v rho) d = evalP rho d.
Proof.
  intros Hb Hm. induction d as [|[k q] d IH]; cbn [evalP]; [reflexivity|].
  rewrite IH.
  - rewrite upd_other; [reflexivity|]. assert (k < n)%nat by (apply Hb; left; reflexivity). lia.
  - intros k' Hk'. apply Hb. right. exact Hk'.
Qed.

Lemma below_leaf n m : (n < m)%nat -> below m (leafP n).
Proof. intros H k [<-|[]]. exact H. Qed.

Lemma below_mono n m d : (n <= m)%nat -> below n d -> below m d.
Proof. intros H Hb k Hk. specialize (Hb k Hk). lia. Qed.

(** *** proximal step *)
Theorem proximal_step_real x0 f gamma s out :
  below (pt_ctr s) x0 -> proximal_step_spec x0 f gamma s out ->
  exists x,
    out = (ROk [RP x; RP (leafP (pt_ctr s)); RX (leafX (ex_ctr s))],
           add_sample f (x, leafP (pt_ctr s), leafX (ex_ctr s)) (bump 1 1 s))
    /\ (* a real proximal point, with its subgradient and value, satisfies what was recorded *)
       (forall (E : ips) (F : @fn E) (rho : nat -> E) (phi : nat -> R) (xr : E),
          convex_fn F -> fn_ext F -> 0 < Q2R gamma -> is_prox F (Q2R gamma) (evalP rho x0) xr ->
          let rho' := upd (pt_ctr s) (vscal (1 / Q2R gamma) (vsub (evalP rho x0) xr)) rho in
          let phi' := upd (ex_ctr s) (val F xr) phi in
          veq (evalP rho' x) xr
          /\ genuine_sub F (sem_smp rho' phi' (x, leafP (pt_ctr s), leafX (ex_ctr s))))
    /\ (* and whatever satisfies what was recorded is the proximal point *)
       (forall (E : ips) (F : @fn E) (rho : nat -> E) (phi : nat -> R),
          fn_ext F -> 0 <= Q2R gamma ->
          genuine_sub F (sem_smp rho phi (x, leafP (pt_ctr s), leafX (ex_ctr s))) ->
          is_prox F (Q2R gamma) (evalP rho x0) (evalP rho x)).
Proof.
  intros Hb (x & -> & _ & Hx). exists x. split; [reflexivity|]. split.
  - intros E F rho phi xr Hc Hext Hg Hp rho' phi'.
    assert (Hx0 : evalP rho' x0 = evalP rho x0) by (apply evalP_upd_fresh with (n := pt_ctr s); auto).
    assert (Hxr : veq (evalP rho' x) xr).
    { rewrite (Hx E rho'), Hx0. unfold rho'. rewrite upd_same.
      apply veq_intro. intros w. bilin. field. lra. }
    split; [exact Hxr|]. cbn [sem_smp].
    apply genuine_sub_ext with (x := xr) (g := vscal (1 / Q2R gamma) (vsub (evalP rho x0) xr)).
    + exact Hext.
    + symmetry. exact Hxr.
    + rewrite evalP_leaf. unfold rho'. rewrite upd_same. reflexivity.
    + split; [apply prox_optimality; assumption|].
      rewrite evalE_leaf. unfold phi'. rewrite upd_same. reflexivity.
  - intros E F rho phi Hext Hg [Hs _]. cbn [sem_smp] in Hs.
    apply prox_converse with (g := rho (pt_ctr s)); [exact Hg| |exact (Hx E rho)].
    apply subgrad_ext with (x := evalP rho x) (g := evalP rho (leafP (pt_ctr s)));
      [exact Hext|reflexivity|apply evalP_leaf|exact Hs].
Qed.

(** *** linear optimisation step *)
Theorem linear_optimization_step_real dir ind s out :
  below (pt_ctr s) dir -> linear_optimization_step_spec dir ind s out ->
  exists gx,
    out = (ROk [RP (leafP (pt_ctr s)); RP gx; RX (leafX (ex_ctr s))],
           add_sample ind (leafP (pt_ctr s), gx, leafX (ex_ctr s)) (bump 1 1 s))
    /\ (forall (E : ips) (F : @fn E) (rho : nat -> E) (phi : nat -> R) (xr : E),
          (forall z, dom F z -> val F z = 0) -> fn_ext F -> is_linopt F (evalP rho dir) xr ->
          let rho' := upd (pt_ctr s) xr rho in
          let phi' := upd (ex_ctr s) 0 phi in
          genuine_sub F (sem_smp rho' phi' (leafP (pt_ctr s), gx, leafX (ex_ctr s))))
    /\ (forall (E : ips) (F : @fn E) (rho : nat -> E) (phi : nat -> R),
          (forall z, dom F z -> val F z = 0) -> fn_ext F ->
          genuine_sub F (sem_smp rho phi (leafP (pt_ctr s), gx, leafX (ex_ctr s))) ->
          is_linopt F (evalP rho dir) (rho (pt_ctr s))).
Proof.
  intros Hb (gx & -> & _ & Hgx). exists gx. split; [reflexivity|]. split.
  - intros E F rho phi xr Hind Hext Hl rho' phi'.
    assert (Hd : evalP rho' dir = evalP rho dir) by (apply evalP_upd_fresh with (n := pt_ctr s); auto).
    cbn [sem_smp].
    apply genuine_sub_ext with (x := xr) (g := vneg (evalP rho dir)).
    + exact Hext.
    + rewrite evalP_leaf. unfold rho'. rewrite upd_same. reflexivity.
    + rewrite (Hgx E rho'), Hd. reflexivity.
    + split; [apply linopt_iff_normal; assumption|].
      rewrite evalE_leaf. unfold phi'. rewrite upd_same. symmetry. apply Hind. exact (proj1 Hl).
  - intros E F rho phi Hind Hext [Hs _]. cbn [sem_smp] in Hs.
    apply linopt_iff_normal; [exact Hind|].
    apply subgrad_ext with (x := evalP rho (leafP (pt_ctr s))) (g := evalP rho gx);
      [exact Hext|apply evalP_leaf|exact (Hgx E rho)|exact Hs].
Qed.

(** *** the oracle only returns existing or brand-new leaves *)
Lemma find_eval_In p l g v : find_eval p l = Some (g, v) -> exists x, In (x, g, v) l.
Proof.
  induction l as [|[[x g'] v'] l IH]; cbn [find_eval]; [discriminate|].
  destruct (dict_eqb Nat.eqb x p).
  - intros [= <- <-]. exists x. left. reflexivity.
  - intros H. destruct (IH H) as [x' Hx']. exists x'. right. exact Hx'.
Qed.

Lemma oracle_leaf_below f p s g v p' s1 :
  state_below s -> oracle_leaf f p s = (g, v, p', s1) ->
  below (pt_ctr s1) g /\ (pt_ctr s <= pt_ctr s1)%nat.
Proof.
  intros Hs Ho.
  destruct (oracle_leaf_cases f p s) as [(g0 & v0 & Hf & _ & He)|[(g0 & v0 & Hf & _ & He)|(Hf & He)]];
    rewrite He in Ho; injection Ho as <- <- <- <-.
  - destruct (find_eval_In _ _ _ _ Hf) as [x Hx]. destruct (Hs f x g0 v0 Hx) as [_ Hg]. split; [exact Hg|lia].
  - cbn [pt_ctr add_sample bump]. split; [apply below_leaf; lia|lia].
  - cbn [pt_ctr add_sample bump]. split; [apply below_leaf; lia|lia].
Qed.

(** a function was never evaluated on a point that does not exist yet *)
Lemma find_eval_fresh n l :
  (forall x g v, In (x, g, v) l -> below n x) -> find_eval (leafP n) l = None.
Proof.
  induction l as [|[[x g] v] l IH]; intros H; cbn [find_eval]; [reflexivity|].
  destruct (dict_eqb Nat.eqb x (leafP n)) eqn:Hq.
  - exfalso. unfold dict_eqb in Hq. apply andb_true_iff in Hq as [Hl Hsub].
    destruct x as [|[k q] [|? ?]]; cbn in Hl; try discriminate.
    cbn in Hsub. destruct (Nat.eqb_spec k n) as [->|Hne]; [|discriminate].
    assert (n < n)%nat by (apply (H [(n, q)] g v); [left; reflexivity|left; reflexivity]). lia.
  - apply IH. intros x' g' v' Hin. apply (H x' g' v'). right. exact Hin.
Qed.

(** *** inexact gradient step *)
Theorem inexact_gradient_step_real relative x0 f gamma eps s out :
  state_below s -> below (pt_ctr s) x0 ->
  inexact_gradient_step_spec relative x0 f gamma eps s out ->
  let '(g, fx0, _, s1) := oracle_leaf f x0 s in
  let d := pt_ctr s1 in
  exists x c,
    out = (ROk [RP x; RP (leafP d); RX fx0], add_cons f c (bump 1 0 s1))
    /\ (* a real direction within the accuracy, with the real gradient, satisfies what was recorded *)
       (forall (E : ips) (F : @dfn E) (rho : nat -> E) (phi : nat -> R) (dr : E),
          veq (evalP rho g) (dgrad F (evalP rho x0)) ->
          nrm2 (vsub dr (dgrad F (evalP rho x0)))
            <= Q2R eps ^ 2 * (if relative then nrm2 (dgrad F (evalP rho x0)) else 1) ->
          let rho' := upd d dr rho in
          holds rho' phi c
          /\ veq (evalP rho' x) (vsub (evalP rho x0) (vscal (Q2R gamma) dr))
          /\ evalP rho' g = evalP rho g /\ evalP rho' x0 = evalP rho x0)
    /\ (* whatever satisfies what was recorded is such a step *)
       (forall (E : ips) (F : @dfn E) (rho : nat -> E) (phi : nat -> R),
          veq (evalP rho g) (dgrad F (evalP rho x0)) -> holds rho phi c ->
          nrm2 (vsub (rho d) (dgrad F (evalP rho x0)))
            <= Q2R eps ^ 2 * (if relative then nrm2 (dgrad F (evalP rho x0)) else 1)
          /\ veq (evalP rho x) (vsub (evalP rho x0) (vscal (Q2R gamma) (rho d)))).
Proof.
  intros Hs Hb. unfold inexact_gradient_step_spec.
  destruct (oracle_leaf f x0 s) as [[[g v] x0'] s1] eqn:Ho.
  destruct (oracle_leaf_below _ _ _ _ _ _ _ Hs Ho) as [Hg Hle].
  cbv beta iota zeta.
  intros (x & c & -> & _ & Hx & _ & Hh). exists x, c. split; [reflexivity|]. split.
  - intros E F rho phi dr Hgr Hacc. set (rho' := upd (pt_ctr s1) dr rho).
    assert (Hg' : evalP rho' g = evalP rho g) by (apply evalP_upd_fresh with (n := pt_ctr s1); auto).
    assert (Hx0 : evalP rho' x0 = evalP rho x0)
      by (apply evalP_upd_fresh with (n := pt_ctr s); auto).
    split; [|split; [|split; assumption]].
    + apply Hh. rewrite Hg'. unfold rho'. rewrite upd_same. rewrite Hgr, nrm2_sub_sym. exact Hacc.
    + rewrite (Hx E rho'), Hx0. unfold rho'. rewrite upd_same. reflexivity.
  - intros E F rho phi Hgr Hc. split; [|exact (Hx E rho)].
    apply Hh in Hc. rewrite Hgr, nrm2_sub_sym in Hc. exact Hc.
Qed.

(** *** exact line search step *)
Lemma evalP_upd2_fresh {E : ips} (rho : nat -> E) n a b d :
  below n d -> evalP (upd (S n) a (upd n b rho)) d = evalP rho d.
Proof.
  intros Hb. rewrite evalP_upd_fresh with (n := n) by (auto; lia).
  apply evalP_upd_fresh with (n := n); auto.
Qed.

Lemma Forall2_holds_intro (P : pdict -> forall E : ips, (nat -> E) -> (nat -> R) -> Prop) dirs cs
      (E : ips) (rho : nat -> E) phi :
  Forall2 (fun d c => snd c = Equ /\ forall E rho phi, holds rho phi c <-> P d E rho phi) dirs cs ->
  (forall d, In d dirs -> P d E rho phi) -> Forall (holds rho phi) cs.
Proof.
  intros H. induction H as [|d c dirs cs [_ Hc] _ IH]; intros HP; constructor.
  - apply Hc, HP. left. reflexivity.
  - apply IH. intros d' Hd'. apply HP. right. exact Hd'.
Qed.

Lemma Forall2_holds_elim (P : pdict -> forall E : ips, (nat -> E) -> (nat -> R) -> Prop) dirs cs
      (E : ips) (rho : nat -> E) phi :
  Forall2 (fun d c => snd c = Equ /\ forall E rho phi, holds rho phi c <-> P d E rho phi) dirs cs ->
  Forall (holds rho phi) cs -> forall d, In d dirs -> P d E rho phi.
Proof.
  intros H. induction H as [|d c dirs cs [_ Hc] _ IH]; intros Hall d' Hin; [destruct Hin|].
  inversion Hall; subst. destruct Hin as [<-|Hin]; [apply Hc; assumption|apply IH; assumption].
Qed.

Theorem exact_linesearch_step_real x0 f dirs s out :
  state_below s -> below (pt_ctr s) x0 -> Forall (below (pt_ctr s)) dirs ->
  exact_linesearch_step_spec x0 f dirs s out ->
  let n := pt_ctr s in let m := ex_ctr s in
  let smp := (leafP n, leafP (S n), leafX m) in
  exists c0 cs,
    out = (ROk [RP (leafP n); RP (leafP (S n)); RX (leafX m)],
           add_conss f (c0 :: cs) (add_sample f smp (bump 2 1 s)))
    /\ (* a real line/span search point, with its gradient and value, satisfies what was recorded *)
       (forall (E : ips) (F : @dfn E) (rho : nat -> E) (phi : nat -> R) (xr : E),
          gateaux F -> dfn_ext F ->
          is_linesearch F (evalP rho x0) (map (evalP rho) dirs) xr ->
          let rho' := upd (S n) (dgrad F xr) (upd n xr rho) in
          let phi' := upd m (dval F xr) phi in
          genuine_grad F (sem_smp rho' phi' smp) /\ Forall (holds rho' phi') (c0 :: cs))
    /\ (* what was recorded, plus x - x0 in the span (the part the step documents as relaxed), is a
          real line/span search on a convex differentiable function *)
       (forall (E : ips) (F : @dfn E) (rho : nat -> E) (phi : nat -> R),
          grad_convex F -> dfn_ext F ->
          genuine_grad F (sem_smp rho phi smp) -> Forall (holds rho phi) (c0 :: cs) ->
          in_span (vsub (rho n) (evalP rho x0)) (map (evalP rho) dirs) ->
          is_linesearch F (evalP rho x0) (map (evalP rho) dirs) (rho n)).
Proof.
  intros Hs Hb Hd. unfold exact_linesearch_step_spec.
  assert (Hfresh : find_eval (leafP (pt_ctr s)) (f_points (funs (bump 1 0 s) f)) = None).
  { apply find_eval_fresh. intros x g v Hin. exact (proj1 (Hs f x g v Hin)). }
  destruct (oracle_leaf_cases f (leafP (pt_ctr s)) (bump 1 0 s))
    as [(g0 & v0 & Hf & _)|[(g0 & v0 & Hf & _)|(_ & He)]]; try congruence.
  rewrite He. cbv beta iota zeta.
  intros (c0 & cs & -> & _ & _ & Hh0 & Hcs). exists c0, cs. split; [reflexivity|]. split.
  - intros E F rho phi xr HG Hext Hls.
    set (rho' := upd (S (pt_ctr s)) (dgrad F xr) (upd (pt_ctr s) xr rho)).
    set (phi' := upd (ex_ctr s) (dval F xr) phi).
    cbn [pt_ctr ex_ctr bump Nat.add] in *.
    assert (Hn : rho' (pt_ctr s) = xr) by (unfold rho'; rewrite upd_other by lia; apply upd_same).
    assert (Hn1 : rho' (S (pt_ctr s)) = dgrad F xr) by (unfold rho'; apply upd_same).
    assert (Hfr : forall d, below (pt_ctr s) d -> evalP rho' d = evalP rho d)
      by (intros; apply evalP_upd2_fresh; assumption).
    assert (Hm : phi' (ex_ctr s) = dval F xr) by (unfold phi'; apply upd_same).
    clearbody rho' phi'.
    assert (Hx0 : evalP rho' x0 = evalP rho x0) by (apply Hfr; exact Hb).
    destruct (linesearch_orthogonality F _ _ _ HG Hext Hls) as [Ho1 Ho2].
    split.
    + cbn [sem_smp].
      assert (Hvn : veq (evalP rho' (leafP (pt_ctr s))) xr) by (rewrite evalP_leaf, Hn; reflexivity).
      destruct (Hext _ _ Hvn) as [Hv1 Hv2]. split.
      * rewrite (evalP_leaf rho' (S (pt_ctr s))), Hn1. symmetry. exact Hv2.
      * rewrite evalE_leaf, Hm. symmetry. exact Hv1.
    + constructor.
      * apply Hh0. rewrite evalP_leaf, Hn, Hn1, Hx0, inner_sym. exact Ho2.
      * apply (Forall2_holds_intro (fun d E rho phi => inner (evalP rho d) (evalP rho (leafP (S (pt_ctr s)))) = 0)
                 _ _ E rho' phi' Hcs).
        intros d Hin. rewrite Forall_forall in Hd.
        rewrite evalP_leaf, Hn1, (Hfr d (Hd d Hin)), inner_sym.
        apply Ho1. apply in_map. exact Hin.
  - intros E F rho phi Hc Hext [Hg _] Hall Hsp. cbn [sem_smp] in Hg.
    cbn [pt_ctr ex_ctr bump Nat.add] in *.
    assert (Hgr : veq (rho (S (pt_ctr s))) (dgrad F (rho (pt_ctr s)))).
    { rewrite <- (evalP_leaf rho (S (pt_ctr s))), Hg. apply (proj2 (Hext _ _ (evalP_leaf rho (pt_ctr s)))). }
    apply linesearch_converse; [exact Hc|exact Hsp|].
    inversion Hall as [|? ? _ Hcs']; subst.
    intros dv Hin. apply in_map_iff in Hin as (d & <- & Hin).
    pose proof (Forall2_holds_elim (fun d E rho phi => inner (evalP rho d) (evalP rho (leafP (S (pt_ctr s)))) = 0)
                  _ _ E rho phi Hcs Hcs' d Hin) as Hz.
    cbv beta in Hz. rewrite evalP_leaf, Hgr, inner_sym in Hz. exact Hz.
Qed.

(** *** Bregman gradient step *)
Theorem bregman_gradient_step_real gx0 sx0 h gamma s out :
  below (pt_ctr s) gx0 -> below (pt_ctr s) sx0 -> bregman_gradient_step_spec gx0 sx0 h gamma s out ->
  let n := pt_ctr s in let m := ex_ctr s in
  exists sx,
    out = (ROk [RP (leafP n); RP sx; RX (leafX m)], add_sample h (leafP n, sx, leafX m) (bump 1 1 s))
    /\ (forall (E : ips) (H : @dfn E) (rho : nat -> E) (phi : nat -> R) (xr : E),
          gateaux H -> dfn_ext H ->
          is_bregman_gradient H (Q2R gamma) (evalP rho gx0) (evalP rho sx0) xr ->
          genuine_grad H (sem_smp (upd n xr rho) (upd m (dval H xr) phi) (leafP n, sx, leafX m)))
    /\ (forall (E : ips) (H : @dfn E) (rho : nat -> E) (phi : nat -> R),
          grad_convex H -> dfn_ext H -> genuine_grad H (sem_smp rho phi (leafP n, sx, leafX m)) ->
          is_bregman_gradient H (Q2R gamma) (evalP rho gx0) (evalP rho sx0) (rho n)).
Proof.
  intros Hbg Hbs (sx & -> & _ & Hsx). cbv zeta. exists sx. split; [reflexivity|]. split.
  - intros E H rho phi xr HG Hext Hb.
    assert (Hg0 : evalP (upd (pt_ctr s) xr rho) gx0 = evalP rho gx0)
      by (apply evalP_upd_fresh with (n := pt_ctr s); auto).
    assert (Hs0 : evalP (upd (pt_ctr s) xr rho) sx0 = evalP rho sx0)
      by (apply evalP_upd_fresh with (n := pt_ctr s); auto).
    assert (Hn : veq (evalP (upd (pt_ctr s) xr rho) (leafP (pt_ctr s))) xr)
      by (rewrite evalP_leaf, upd_same; reflexivity).
    destruct (Hext _ _ Hn) as [Hv1 Hv2]. cbn [sem_smp]. split.
    + rewrite (Hsx E (upd (pt_ctr s) xr rho)), Hg0, Hs0, Hv2. symmetry.
      apply bregman_gradient_optimality; assumption.
    + rewrite evalE_leaf, upd_same. symmetry. exact Hv1.
  - intros E H rho phi Hc Hext [Hg _]. cbn [sem_smp] in Hg.
    destruct (Hext _ _ (evalP_leaf rho (pt_ctr s))) as [_ Hv2].
    apply bregman_gradient_converse; [exact Hc|]. rewrite <- Hv2, <- Hg. exact (Hsx E rho).
Qed.

(** *** Bregman proximal step *)
Theorem bregman_proximal_step_real sx0 h f gamma s out :
  below (pt_ctr s) sx0 -> bregman_proximal_step_spec sx0 h f gamma s out ->
  let n := pt_ctr s in let m := ex_ctr s in
  exists sx,
    out = (ROk [RP (leafP n); RP sx; RX (leafX (S m)); RP (leafP (S n)); RX (leafX m)],
           add_sample h (leafP n, sx, leafX (S m)) (add_sample f (leafP n, leafP (S n), leafX m) (bump 2 2 s)))
    /\ (forall (E : ips) (F : @fn E) (H : @dfn E) (rho : nat -> E) (phi : nat -> R) (xr : E),
          convex_fn F -> fn_ext F -> gateaux H -> dfn_ext H -> 0 < Q2R gamma ->
          is_bregman_prox F H (Q2R gamma) (evalP rho sx0) xr ->
          let rho' := upd (S n) (vscal (1 / Q2R gamma) (vsub (evalP rho sx0) (dgrad H xr))) (upd n xr rho) in
          let phi' := upd (S m) (dval H xr) (upd m (val F xr) phi) in
          genuine_sub F (sem_smp rho' phi' (leafP n, leafP (S n), leafX m))
          /\ genuine_grad H (sem_smp rho' phi' (leafP n, sx, leafX (S m))))
    /\ (forall (E : ips) (F : @fn E) (H : @dfn E) (rho : nat -> E) (phi : nat -> R),
          fn_ext F -> grad_convex H -> dfn_ext H -> 0 <= Q2R gamma ->
          genuine_sub F (sem_smp rho phi (leafP n, leafP (S n), leafX m)) ->
          genuine_grad H (sem_smp rho phi (leafP n, sx, leafX (S m))) ->
          is_bregman_prox F H (Q2R gamma) (evalP rho sx0) (rho n)).
Proof.
  intros Hbs (sx & -> & _ & Hsx). cbv zeta. exists sx. split; [reflexivity|]. split.
  - intros E F H rho phi xr Hc HFe HG HHe Hg Hb.
    set (gr := vscal (1 / Q2R gamma) (vsub (evalP rho sx0) (dgrad H xr))).
    set (rho' := upd (S (pt_ctr s)) gr (upd (pt_ctr s) xr rho)).
    set (phi' := upd (S (ex_ctr s)) (dval H xr) (upd (ex_ctr s) (val F xr) phi)).
    assert (Hn : rho' (pt_ctr s) = xr) by (unfold rho'; rewrite upd_other by lia; apply upd_same).
    assert (Hn1 : rho' (S (pt_ctr s)) = gr) by (unfold rho'; apply upd_same).
    assert (Hs0 : evalP rho' sx0 = evalP rho sx0) by (apply evalP_upd2_fresh; exact Hbs).
    assert (Hm : phi' (ex_ctr s) = val F xr) by (unfold phi'; rewrite upd_other by lia; apply upd_same).
    assert (Hm1 : phi' (S (ex_ctr s)) = dval H xr) by (unfold phi'; apply upd_same).
    clearbody rho' phi'.
    assert (Hvn : veq (evalP rho' (leafP (pt_ctr s))) xr) by (rewrite evalP_leaf, Hn; reflexivity).
    cbn [sem_smp]. split.
    + apply genuine_sub_ext with (x := xr) (g := gr); [exact HFe|symmetry; exact Hvn| |].
      * rewrite evalP_leaf, Hn1. reflexivity.
      * split; [apply bregman_prox_optimality; assumption|]. rewrite evalE_leaf, Hm. reflexivity.
    + destruct (HHe _ _ Hvn) as [Hv1 Hv2]. split.
      * rewrite (Hsx E rho'), Hs0, Hn1, Hv2. unfold gr.
        apply veq_intro. intros w. bilin. field. lra.
      * rewrite evalE_leaf, Hm1. symmetry. exact Hv1.
  - intros E F H rho phi HFe Hc HHe Hg [Hs _] [Hgr _]. cbn [sem_smp] in Hs, Hgr.
    destruct (HHe _ _ (evalP_leaf rho (pt_ctr s))) as [_ Hv2].
    apply bregman_prox_converse with (g := rho (S (pt_ctr s))); [exact Hc|exact Hg| |].
    + apply subgrad_ext with (x := evalP rho (leafP (pt_ctr s))) (g := evalP rho (leafP (S (pt_ctr s))));
        [exact HFe|apply evalP_leaf|apply evalP_leaf|exact Hs].
    + rewrite <- Hv2, <- Hgr. exact (Hsx E rho).
Qed.

(** *** epsilon-subgradient step: what was recorded makes g0 an eps-subgradient at x0 *)
Theorem epsilon_subgradient_step_real x0 f gamma s out :
  epsilon_subgradient_step_spec x0 f gamma s out ->
  let g0 := pt_ctr s in
  let '(f0, _, s1) := value_leaf f x0 (bump 1 0 s) in
  let eps := ex_ctr s1 in let y := pt_ctr s1 in let fy := S (ex_ctr s1) in
  exists x c,
    out = (ROk [RP x; RP (leafP g0); RX f0; RX (leafX eps)],
           add_cons f c (add_sample f (leafP y, leafP g0, leafX fy) (bump 1 2 s1)))
    /\ (* recorded => real *)
       (forall (E : ips) (F : @fn E) (rho : nat -> E) (phi : nat -> R),
          fn_ext F -> dom F (evalP rho x0) -> evalE rho phi f0 = val F (evalP rho x0) ->
          genuine_sub F (sem_smp rho phi (leafP y, leafP g0, leafX fy)) -> holds rho phi c ->
          eps_subgrad F (phi eps) (evalP rho x0) (rho g0)
          /\ veq (evalP rho x) (vsub (evalP rho x0) (vscal (Q2R gamma) (rho g0))))
    /\ (* real => recorded, when the conjugate is attained: a point yr with g0 a subgradient at yr *)
       (forall (E : ips) (F : @fn E) (rho : nat -> E) (phi : nat -> R),
          evalE rho phi f0 = val F (evalP rho x0) ->
          eps_subgrad F (phi eps) (evalP rho x0) (rho g0) -> subgrad F (rho y) (rho g0) ->
          phi fy = val F (rho y) -> holds rho phi c).
Proof.
  unfold epsilon_subgradient_step_spec. cbv zeta.
  destruct (value_leaf f x0 (bump 1 0 s)) as [[f0 x0'] s1].
  intros (x & c & -> & _ & Hx & _ & Hh). exists x, c. split; [reflexivity|]. split.
  - intros E F rho phi Hext Hd0 Hf0 [Hs Hfy] Hc. cbn [sem_smp] in Hs, Hfy. split; [|exact (Hx E rho)].
    apply Hh in Hc. rewrite Hf0 in Hc.
    assert (Hs' : subgrad F (rho (pt_ctr s1)) (rho (pt_ctr s)))
      by (apply subgrad_ext with (x := evalP rho (leafP (pt_ctr s1))) (g := evalP rho (leafP (pt_ctr s)));
          [exact Hext|apply evalP_leaf|apply evalP_leaf|exact Hs]).
    apply eps_subgrad_from_record with (y := rho (pt_ctr s1)); [exact Hd0|exact Hs'|].
    rewrite evalE_leaf in Hfy. destruct (Hext _ _ (evalP_leaf rho (pt_ctr s1))) as [_ Hv].
    rewrite <- Hv, <- Hfy. exact Hc.
  - intros E F rho phi Hf0 He Hs Hfy. apply Hh. rewrite Hf0, Hfy.
    apply eps_subgrad_to_record; assumption.
Qed.

(** *** inexact proximal step: meaning of the recorded primal-dual gap *)
Section GapMeaning.
  Context {E : ips}.

  (** with v a subgradient at w, the gap is non-negative (weak duality of the proximal problem) *)
  Theorem pd_gap_nonneg (F : @fn E) gamma (x0 x v w : E) :
    0 <= gamma -> dom F x -> subgrad F w v ->
    0 <= pd_gap gamma x0 x (val F x) v w (val F w).
  Proof.
    intros Hg Hdx [_ Hs]. rewrite pd_gap_identity. pose proof (Hs x Hdx) as P.
    assert (Hn : 0 <= nrm2 (vadd (vsub x x0) (vscal gamma v))) by (unfold nrm2; apply inner_pos).
    assert (Hm : 0 <= gamma * (val F x - val F w - inner v (vsub x w))) by (apply Rmult_le_pos; lra).
    lra.
  Qed.

  (** a vector of zero norm is invisible to every inner product (Cauchy-Schwarz) *)
  Lemma nrm2_zero_veq (e : E) : nrm2 e = 0 -> veq e vzero.
  Proof.
    intros He. apply veq_intro. intros w. rewrite inner_zero_l.
    pose proof (cauchy_schwarz e w) as CS. unfold nrm2 in He. rewrite He in CS. nra.
  Qed.

  (** zero gap (epsilon = 0) is the exact proximal step, as the docstring says: x = x0 - gamma v,
      v a subgradient at x *)
  Theorem pd_gap_zero_is_prox (F : @fn E) gamma (x0 x v w : E) :
    0 < gamma -> dom F x -> subgrad F w v ->
    pd_gap gamma x0 x (val F x) v w (val F w) <= 0 -> is_prox F gamma x0 x.
  Proof.
    intros Hg Hdx [Hdw Hs] Hgap. rewrite pd_gap_identity in Hgap. pose proof (Hs x Hdx) as P.
    assert (Hn : 0 <= nrm2 (vadd (vsub x x0) (vscal gamma v))) by (unfold nrm2; apply inner_pos).
    assert (Hm : 0 <= gamma * (val F x - val F w - inner v (vsub x w))) by (apply Rmult_le_pos; lra).
    assert (He : nrm2 (vadd (vsub x x0) (vscal gamma v)) = 0) by lra.
    assert (Hes : gamma * (val F x - val F w - inner v (vsub x w)) = 0) by lra.
    assert (Hes' : val F x - val F w - inner v (vsub x w) = 0).
    { apply Rmult_eq_reg_l with (r := gamma); lra. }
    apply prox_converse with (g := v); [lra| |].
    - split; [exact Hdx|]. intros z Hz. pose proof (Hs z Hz) as Q. bilin_in Q. bilin_in Hes'. bilin. lra.
    - apply nrm2_zero_veq in He. apply veq_intro. intros u. pose proof (veq_elim _ _ He u) as Hu.
      bilin_in Hu. bilin. lra.
  Qed.
End GapMeaning.
