(** C09, second half: at the values a real run gives to the leaves, a dual certificate bounds the
    performance.  The Gram matrix of the leaf points' values is symmetric and positive semidefinite,
    and the Gram reading of an expression at that matrix is its value: so a valuation under which every
    item sent to the solver holds is a feasible point of the SDP, and weak duality (C01) applies. *)
From Coq Require Import List QArith Reals Qreals Lra Arith Bool.
From PV Require Import Base.IPS Model.Dict Model.Terms Model.Sent Model.Cvxpy Spec.Sem Spec.GramSem Spec.KKT
  Proofs.C01Gram Proofs.C01Identity Proofs.PSDLemmas.
Import ListNotations.
Local Open Scope R_scope.

Section Bound.
  Context {E : ips}.
  Variable rho : nat -> E.
  Variable phi : nat -> R.

  Definition gramOf : nat -> nat -> R := fun i j => inner (rho i) (rho j).

  Lemma gramOf_sym : symG gramOf.
  Proof. intros i j. unfold gramOf. apply inner_sym. Qed.

  Lemma evalGF_gram (e : edict) : evalGF gramOf phi e = evalE rho phi e.
  Proof.
    induction e as [|[k q] e IH]; cbn [evalGF evalE]; [reflexivity|].
    rewrite IH. destruct k; reflexivity.
  Qed.

  (** an item sent to the solver holds at the valuation *)
  Definition item_holds_at (it : item) : Prop :=
    match it with
    | SC e s => holds rho phi (e, s)
    | LMI m => psd_qf (nrows m) (fun i j => evalE rho phi (entry m i j))
    end.

  Lemma item_holds_gram it : item_holds_at it -> item_holds gramOf phi it.
  Proof.
    destruct it as [e s|m]; cbn [item_holds_at item_holds].
    - unfold holds, holdsGF. cbn [fst snd]. rewrite evalGF_gram. tauto.
    - intros [Hs Hq]. unfold lmi_value. split.
      + intros i j Hi Hj. rewrite !evalGF_gram. apply Hs; assumption.
      + intros c. erewrite sumn_ext; [apply (Hq c)|].
        intros i _. apply sumn_ext. intros j _. rewrite evalGF_gram. reflexivity.
  Qed.
End Bound.

Section Capstone.
  Context {E : ips}.

  (** A valuation under which every sent item holds cannot beat a certified bound. *)
  Theorem real_valuation_bounded (rho : nat -> E) (phi : nat -> R)
      (np : nat) (obj : edict) (tracked : sent) (duals : list dval) (entries : list (option (list (list Q)))) (res : list (list Q)) (tau : R) :
    length duals = length tracked -> length entries = length tracked ->
    certificate_identity obj (combine (combine tracked duals) entries) res tau ->
    dual_feasible (combine (combine tracked duals) entries) ->
    rank1sum res np ->
    Forall (item_holds_at rho phi) tracked ->
    evalE rho phi obj <= tau.
  Proof.
    intros Hlen Hlen' Hid Hdf Hres Hall.
    rewrite <- evalGF_gram.
    apply (weak_duality np obj tracked duals entries res tau Hlen Hlen' Hid Hdf Hres).
    split; [apply gramOf_sym|]. split; [apply gram_psd|].
    rewrite Forall_forall in *. intros it Hin. apply item_holds_gram, Hall, Hin.
  Qed.

  (** ** The objective leaf.  PEPit maximises a fresh leaf [o] under the rows [o - metric_k <= 0]
      (C05_metric_row); nothing else mentions [o]. *)
  Definition mentions_F (o : nat) (e : edict) : bool :=
    existsb (fun '(k, _) => match k with KF i => Nat.eqb i o | _ => false end) e.

  Definition item_mentions (o : nat) (it : item) : bool :=
    match it with
    | SC e _ => mentions_F o e
    | LMI m => existsb (fun row => existsb (mentions_F o) row) m
    end.

  Definition updF (phi : nat -> R) (o : nat) (t : R) : nat -> R := fun i => if Nat.eqb i o then t else phi i.

  Lemma evalE_updF (rho : nat -> E) phi o t e : mentions_F o e = false -> evalE rho (updF phi o t) e = evalE rho phi e.
  Proof.
    induction e as [|[k q] e IH]; cbn [evalE mentions_F existsb]; [reflexivity|].
    intros H. apply orb_false_elim in H as [Hk He]. rewrite (IH He). f_equal. f_equal.
    destruct k as [i|i j|]; cbn [evalK]; try reflexivity.
    unfold updF. rewrite Hk. reflexivity.
  Qed.

  Lemma entry_not_mentioned o m i j :
    existsb (fun row => existsb (mentions_F o) row) m = false -> mentions_F o (entry m i j) = false.
  Proof.
    intros H. unfold entry.
    destruct (nth_in_or_default i m []) as [Hin|Hd].
    - assert (Hrow : existsb (mentions_F o) (nth i m []) = false).
      { destruct (existsb (mentions_F o) (nth i m [])) eqn:Hx; [|reflexivity].
        assert (existsb (fun row => existsb (mentions_F o) row) m = true)
          by (apply existsb_exists; exists (nth i m []); split; assumption). congruence. }
      destruct (nth_in_or_default j (nth i m []) []) as [Hin2|Hd2].
      + destruct (mentions_F o (nth j (nth i m []) [])) eqn:Hx; [|reflexivity].
        assert (existsb (mentions_F o) (nth i m []) = true)
          by (apply existsb_exists; exists (nth j (nth i m []) []); split; assumption). congruence.
      + rewrite Hd2. reflexivity.
    - rewrite Hd. destruct j; reflexivity.
  Qed.

  Lemma item_holds_updF (rho : nat -> E) phi o t it :
    item_mentions o it = false -> item_holds_at rho phi it -> item_holds_at rho (updF phi o t) it.
  Proof.
    destruct it as [e s|m]; cbn [item_mentions item_holds_at]; intros Hm H.
    - unfold holds in *. cbn [fst snd] in *. rewrite (evalE_updF rho phi o t e Hm). exact H.
    - destruct H as [Hs Hq]. split.
      + intros i j Hi Hj. rewrite !evalE_updF by (apply entry_not_mentioned; exact Hm). apply Hs; assumption.
      + intros c. erewrite sumn_ext; [apply (Hq c)|]. intros i _. apply sumn_ext. intros j _.
        rewrite evalE_updF by (apply entry_not_mentioned; exact Hm). reflexivity.
  Qed.

  (** the metric row PEPit sends for metric [m]:  o - m <= 0  (as a dictionary: C05_metric_row) *)
  Definition is_metric_row (rho : nat -> E) (o : nat) (it : item) (m : edict) : Prop :=
    exists e, it = SC e Ineq /\ mentions_F o m = false /\
              forall phi, evalE rho phi e = phi o - evalE rho phi m.

  (** Capstone: the sent list consists of metric rows and of other items that do not mention the
      objective leaf; a real valuation satisfies the other items (class constraints by C03, step
      constraints by C08, partition constraints by C15, the user's initial condition by assumption).
      Then every number [t] that is below all the metric values at that valuation -- in particular the
      smallest metric, the performance of the run -- is below the certified bound. *)
  Theorem performance_bounded (rho : nat -> E) (phi : nat -> R) (o np : nat)
      (metrics : list (item * edict)) (others : sent)
      (duals : list dval) (entries : list (option (list (list Q)))) (res : list (list Q)) (tau t : R) :
    let tracked := map fst metrics ++ others in
    length duals = length tracked -> length entries = length tracked ->
    certificate_identity [(KF o, 1%Q)] (combine (combine tracked duals) entries) res tau ->
    dual_feasible (combine (combine tracked duals) entries) ->
    rank1sum res np ->
    Forall (fun im => is_metric_row rho o (fst im) (snd im)) metrics ->
    Forall (fun it => item_mentions o it = false) others ->
    Forall (item_holds_at rho phi) others ->
    (forall im, In im metrics -> t <= evalE rho phi (snd im)) ->
    t <= tau.
  Proof.
    intros tracked Hlen Hlen' Hid Hdf Hres Hmet Hno Hoth Ht.
    pose (phi' := updF phi o t).
    assert (Hobj : evalE rho phi' [(KF o, 1%Q)] = t).
    { cbn [evalE evalK]. unfold phi', updF. rewrite Nat.eqb_refl. unfold Q2R; cbn. lra. }
    rewrite <- Hobj.
    apply (real_valuation_bounded rho phi' np [(KF o, 1%Q)] tracked duals entries res tau Hlen Hlen' Hid Hdf Hres).
    unfold tracked. apply Forall_app. split.
    - rewrite Forall_forall in *. intros it Hin. apply in_map_iff in Hin as [im [<- Him]].
      destruct (Hmet im Him) as (e & -> & Hm & He). cbn [item_holds_at]. unfold holds. cbn [fst snd].
      rewrite He. unfold phi'. rewrite (evalE_updF rho phi o t (snd im) Hm). unfold updF. rewrite Nat.eqb_refl.
      specialize (Ht im Him). lra.
    - rewrite Forall_forall in *. intros it Hin. apply item_holds_updF; [apply Hno, Hin|apply Hoth, Hin].
  Qed.
End Capstone.
