(** Positive semidefiniteness: the pairing of a multiplier that is a finite sum of rank-one matrices
    with a primal matrix whose quadratic form is non-negative is non-negative; Gram matrices of
    vectors of any inner-product space are PSD in the quadratic-form sense.
    (Choice named in the trusted base of C01: multipliers = rank-one sums, primal = quadratic form;
    the spectral theorem is not needed.) *)
From Coq Require Import List QArith Reals Qreals Lra Lia Arith.
From PV Require Import Base.IPS Model.Dict Model.Terms Model.Sent Model.Cvxpy Spec.GramSem Spec.KKT.
Import ListNotations.
Local Open Scope R_scope.

Lemma sumn_ext n f g : (forall i, (i < n)%nat -> f i = g i) -> sumn n f = sumn n g.
Proof.
  induction n as [|n IH]; intro H; cbn [sumn]; [reflexivity|].
  rewrite IH, H by (intros; try apply H; lia). reflexivity.
Qed.

Lemma sumn_plus n f g : sumn n (fun i => f i + g i) = sumn n f + sumn n g.
Proof. induction n as [|n IH]; cbn [sumn]; [lra|rewrite IH; lra]. Qed.

Lemma sumn_zero n : sumn n (fun _ => 0) = 0.
Proof. induction n as [|n IH]; cbn [sumn]; [lra|rewrite IH; lra]. Qed.

Lemma sumn_scal n c f : sumn n (fun i => c * f i) = c * sumn n f.
Proof. induction n as [|n IH]; cbn [sumn]; [lra|rewrite IH; lra]. Qed.

(** [rdot] / [mdot] as finite sums *)
Lemma rdot_sumn row a : forall j0,
  rdot row a j0 = sumn (length row) (fun j => Q2R (nth j row 0%Q) * a (j0 + j)%nat).
Proof.
  induction row as [|q row IH]; intro j0; cbn [rdot length]; [reflexivity|].
  rewrite IH. clear IH.
  (* peel the first term of the sum on the right *)
  assert (H : forall n (f : nat -> R), sumn (S n) f = f 0%nat + sumn n (fun j => f (S j))).
  { induction n as [|n IHn]; intro f; cbn [sumn]; [lra|].
    specialize (IHn f). cbn [sumn] in IHn. rewrite IHn. lra. }
  rewrite H. cbn [nth]. rewrite Nat.add_0_r. f_equal.
  apply sumn_ext. intros j _. replace (S j0 + j)%nat with (j0 + S j)%nat by lia. reflexivity.
Qed.

Lemma mdot_from_sumn Sm A m : Forall (fun row => length row = m) Sm -> forall i0,
  mdot_from Sm A i0 = sumn (length Sm) (fun i => sumn m (fun j => matR Sm i j * A (i0 + i)%nat j)).
Proof.
  induction Sm as [|row Sm IH]; intros Hf i0; cbn [mdot_from length]; [reflexivity|].
  inversion Hf as [|? ? Hrow Hf']; subst.
  rewrite (IH Hf'), rdot_sumn.
  assert (H : forall n (f : nat -> R), sumn (S n) f = f 0%nat + sumn n (fun j => f (S j))).
  { induction n as [|n IHn]; intro f; cbn [sumn]; [lra|].
    specialize (IHn f). cbn [sumn] in IHn. rewrite IHn. lra. }
  rewrite H. f_equal.
  - rewrite Nat.add_0_r. apply sumn_ext. intros j _. unfold matR, matq. cbn [nth]. reflexivity.
  - apply sumn_ext. intros i _. apply sumn_ext. intros j _.
    unfold matR, matq. cbn [nth]. replace (S i0 + i)%nat with (i0 + S i)%nat by lia. reflexivity.
Qed.

Lemma mdot_sumn Sm A n m : shape Sm n m ->
  mdot Sm A = sumn n (fun i => sumn m (fun j => matR Sm i j * A i j)).
Proof.
  intros [Hn Hf]. unfold mdot. rewrite (mdot_from_sumn Sm A m Hf 0), Hn. reflexivity.
Qed.

(** the pairing of a rank-one matrix with A is the quadratic form of A *)
Lemma rank1_pair n vs A :
  sumn n (fun i => sumn n (fun j => rank1_at vs i j * A i j))
  = fold_right (fun v acc => sumn n (fun i => sumn n (fun j => v i * A i j * v j)) + acc) 0 vs.
Proof.
  induction vs as [|v vs IH]; cbn [rank1_at fold_right].
  - transitivity (sumn n (fun _ => 0)); [|apply sumn_zero]. apply sumn_ext. intros i _.
    transitivity (sumn n (fun _ => 0)); [|apply sumn_zero]. apply sumn_ext. intros j _. lra.
  - rewrite <- IH, <- sumn_plus. apply sumn_ext. intros i _.
    rewrite <- sumn_plus. apply sumn_ext. intros j _. lra.
Qed.

(** <S, A> >= 0 for S a finite sum of rank-one matrices and A with a non-negative quadratic form *)
Theorem psd_pairing_nonneg Sm A n : rank1sum Sm n -> psd_qf n A -> 0 <= mdot Sm A.
Proof.
  intros [Hshape [vs Hvs]] [_ Hqf].
  rewrite (mdot_sumn Sm A n n Hshape).
  rewrite (sumn_ext n _ (fun i => sumn n (fun j => rank1_at vs i j * A i j))).
  2:{ intros i Hi. apply sumn_ext. intros j Hj. rewrite Hvs by assumption. reflexivity. }
  rewrite rank1_pair. clear Hvs. induction vs as [|v vs IH]; cbn [fold_right]; [lra|].
  specialize (Hqf v). lra.
Qed.

(** a Gram matrix of vectors is PSD (quadratic-form sense), in every inner-product space *)
Section Gram.
  Context {E : ips}.
  Variable rho : nat -> E.

  Fixpoint lcomb (n : nat) (c : nat -> R) : E :=
    match n with O => vzero | S k => vadd (lcomb k c) (vscal (c k) (rho k)) end.

  Lemma inner_lcomb_l n c w : inner (lcomb n c) w = sumn n (fun i => c i * inner (rho i) w).
  Proof.
    induction n as [|n IH]; cbn [lcomb sumn]; [apply inner_zero_l|].
    rewrite inner_add_l, inner_scal_l, IH. reflexivity.
  Qed.

  Lemma inner_lcomb_r n c w : inner w (lcomb n c) = sumn n (fun j => inner w (rho j) * c j).
  Proof.
    rewrite inner_sym, inner_lcomb_l. apply sumn_ext. intros j _. rewrite (inner_sym E w). lra.
  Qed.

  Theorem gram_psd n : psd_qf n (fun i j => inner (rho i) (rho j)).
  Proof.
    split; [intros i j _ _; apply inner_sym|]. intro c.
    pose proof (inner_pos E (lcomb n c)) as H.
    rewrite inner_lcomb_l in H.
    erewrite sumn_ext in H; [exact H|]. intros i _. cbn beta.
    rewrite inner_lcomb_r, <- sumn_scal. apply sumn_ext. intros j _. lra.
  Qed.
End Gram.

(** exchanging two finite sums *)
Lemma sumn_swap n m (f : nat -> nat -> R) :
  sumn n (fun i => sumn m (fun j => f i j)) = sumn m (fun j => sumn n (fun i => f i j)).
Proof.
  induction n as [|n IH]; cbn [sumn].
  - symmetry. transitivity (sumn m (fun _ => 0)); [apply sumn_ext; intros; reflexivity|apply sumn_zero].
  - rewrite IH, <- sumn_plus. reflexivity.
Qed.

(** against a symmetric matrix only the symmetric part of the multiplier counts *)
Lemma mdot_sym_part u Sm (A : nat -> nat -> R) n :
  shape u n n -> shape Sm n n -> same_sym_part u Sm n ->
  (forall i j, (i < n)%nat -> (j < n)%nat -> A i j = A j i) ->
  mdot u A = mdot Sm A.
Proof.
  intros Hu HS Hsym HA. rewrite (mdot_sumn u A n n Hu), (mdot_sumn Sm A n n HS).
  assert (Hhalf : forall X : list (list Q),
             2 * sumn n (fun i => sumn n (fun j => matR X i j * A i j))
             = sumn n (fun i => sumn n (fun j => (matR X i j + matR X j i) * A i j))).
  { intro X.
    assert (Hsw : sumn n (fun i => sumn n (fun j => matR X j i * A i j))
                  = sumn n (fun i => sumn n (fun j => matR X i j * A i j))).
    { rewrite sumn_swap. apply sumn_ext. intros j Hj. apply sumn_ext. intros i Hi. rewrite (HA i j Hi Hj). reflexivity. }
    rewrite <- Hsw at 1.
    replace (2 * sumn n (fun i => sumn n (fun j => matR X j i * A i j)))
      with (sumn n (fun i => sumn n (fun j => matR X j i * A i j)) + sumn n (fun i => sumn n (fun j => matR X j i * A i j)))
      by lra.
    rewrite Hsw at 1. rewrite <- sumn_plus. apply sumn_ext. intros i _. rewrite <- sumn_plus. apply sumn_ext. intros j _. lra. }
  assert (H2 : 2 * sumn n (fun i => sumn n (fun j => matR u i j * A i j))
               = 2 * sumn n (fun i => sumn n (fun j => matR Sm i j * A i j))).
  { rewrite !Hhalf. apply sumn_ext. intros i Hi. apply sumn_ext. intros j Hj. rewrite (Hsym i j Hi Hj). reflexivity. }
  lra.
Qed.
