(** C02 -- the statements behind Props/C02.v. *)
From Coq Require Import List QArith Reals Qreals Lra Bool Arith Lia.
From PV Require Import Base.IPS Model.Dict Model.Terms Model.Dump Model.Eval Model.Resolve Spec.Sem Spec.GramSem
  Proofs.DictLemmas Proofs.SemLemmas Proofs.C02Vec Proofs.C02Cache.
Import ListNotations.
Local Open Scope R_scope.

(** ** what a returned value means *)
Definition means (n : nat) (st : est) (k : okind) (v : val) : Prop :=
  match k, v with
  | KPoint d, VVec u => (forall i, vecR u i = (evalP (rho_of n st) d : nat -> R) i) /\ (d <> [] -> length u = n)
  | KExpr d, VNum q => Q2R q = evalE (rho_of n st) (phi_of st) d
  | KCons e _, VNum q => Q2R q = evalE (rho_of n st) (phi_of st) (dict_of_eh st e)
  | KLmi m, VMat qss =>
      Forall2 (Forall2 (fun q e => Q2R q = evalE (rho_of n st) (phi_of st) (dict_of_eh st e))) qss m
  | _, _ => False
  end.

Lemma pure_eh_hom n st e q : solved n st -> pure_eh st e = Ok q ->
  Q2R q = evalE (rho_of n st) (phi_of st) (dict_of_eh st e).
Proof.
  intros Hs. destruct e as [id|r]; cbn [pure_eh dict_of_eh].
  - intro H. apply leafE_Ok in H. cbn [evalE evalK]. unfold phi_of. rewrite H, Q2R_1. lra.
  - destruct (get_obj st r) as [o|]; [|discriminate]. destruct (okind_of o); try discriminate.
    apply expr_compute_hom, Hs.
Qed.

Lemma pure_row_hom n st : solved n st -> forall row qs, pure_row st row = Ok qs ->
  Forall2 (fun q e => Q2R q = evalE (rho_of n st) (phi_of st) (dict_of_eh st e)) qs row.
Proof.
  intro Hs. induction row as [|e row IH]; intros qs H; cbn [pure_row] in H.
  - injection H as <-. constructor.
  - destruct (pure_eh st e) as [q|] eqn:He; [|discriminate].
    destruct (pure_row st row) as [qs'|]; [|discriminate]. injection H as <-.
    constructor; [apply (pure_eh_hom n), He; exact Hs|apply IH; reflexivity].
Qed.

Lemma pure_rows_hom n st : solved n st -> forall m qss, pure_rows st m = Ok qss ->
  Forall2 (Forall2 (fun q e => Q2R q = evalE (rho_of n st) (phi_of st) (dict_of_eh st e))) qss m.
Proof.
  intro Hs. induction m as [|row m IH]; intros qss H; cbn [pure_rows] in H.
  - injection H as <-. constructor.
  - destruct (pure_row st row) as [qs|] eqn:He; [|discriminate].
    destruct (pure_rows st m) as [qss'|]; [|discriminate]. injection H as <-.
    constructor; [apply pure_row_hom; assumption|apply IH; reflexivity].
Qed.

Lemma pure_obj_hom n m0 st k v : solved n st -> pure_obj m0 st k = Ok v -> means n st k v.
Proof.
  intros Hs. destruct k as [d|d|e s|m]; cbn [pure_obj].
  - destruct (point_compute m0 st d) as [u|] eqn:H; [|discriminate]. intros [= <-].
    destruct (point_compute_hom n st Hs m0 d u H) as (H1 & H2 & _). split; assumption.
  - destruct (expr_compute st d) as [q|] eqn:H; [|discriminate]. intros [= <-].
    apply expr_compute_hom; assumption.
  - destruct (pure_eh st e) as [q|] eqn:H; [|discriminate]. intros [= <-].
    apply pure_eh_hom; assumption.
  - destruct (pure_rows st m) as [qss|] eqn:H; [|discriminate]. intros [= <-].
    apply pure_rows_hom; assumption.
Qed.

(** *** C02_eval_hom.  Every object whose caches are empty (or, more generally, coherent with the
    current leaf values): whatever [eval] returns IS the linear / bilinear combination of the values
    of its operands.  No guard on the class counter any more (repair e997f00): leaf points created
    since the solve do not matter, except for the number of coordinates of the EMPTY combination
    (see [empty_point_length], F-C02b). *)
Theorem eval_hom n st r o st' v :
  solved n st -> get_obj st r = Some o -> good (length (lpv st)) st r ->
  eval_obj st r = (st', Ok v) -> means n st (okind_of o) v.
Proof.
  intros Hs Ho G H.
  pose proof (eval_obj_value (length (lpv st)) st r st' (Ok v) o H Ho G (fun _ _ => eq_refl)) as Hv.
  eapply pure_obj_hom; [exact Hs|]. symmetry. exact Hv.
Qed.

(** totality: when every leaf the object mentions has a value, [eval] returns one *)
Definition dict_assigned (st : est) (d : edict) : Prop := forall k, In k (keys d) -> key_assigned st k.
Definition eh_assigned (st : est) (e : eh) : Prop :=
  match e with
  | ELeaf id => exists q, leafE st id = Ok q
  | ERef r => exists o d, get_obj st r = Some o /\ okind_of o = KExpr d /\ dict_assigned st d
  end.
Definition assigned (st : est) (k : okind) : Prop :=
  match k with
  | KPoint d => forall i, In i (keys d) -> exists v, leafP st i = Ok v
  | KExpr d => dict_assigned st d
  | KCons e _ => eh_assigned st e
  | KLmi m => forall e, In e (concat m) -> eh_assigned st e
  end.

Lemma pure_eh_total n st e : solved n st -> eh_assigned st e -> exists q, pure_eh st e = Ok q.
Proof.
  intros Hs. destruct e as [id|r]; cbn [eh_assigned pure_eh]; [auto|].
  intros (o & d & -> & -> & Hd). apply (expr_sum_total n); assumption.
Qed.
Lemma pure_row_total n st : solved n st -> forall row, (forall e, In e row -> eh_assigned st e) ->
  exists qs, pure_row st row = Ok qs.
Proof.
  intro Hs. induction row as [|e row IH]; intro H; cbn [pure_row]; [eauto|].
  destruct (pure_eh_total n st e Hs) as [q ->]; [apply H; left; reflexivity|].
  destruct IH as [qs ->]; [intros; apply H; right; assumption|]. eauto.
Qed.
Lemma pure_rows_total n st : solved n st -> forall m, (forall e, In e (concat m) -> eh_assigned st e) ->
  exists qss, pure_rows st m = Ok qss.
Proof.
  intro Hs. induction m as [|row m IH]; intro H; cbn [pure_rows]; [eauto|]. cbn [concat] in H.
  destruct (pure_row_total n st Hs row) as [qs ->]; [intros; apply H, in_or_app; left; assumption|].
  destruct IH as [qss ->]; [intros; apply H, in_or_app; right; assumption|]. eauto.
Qed.
Lemma pure_obj_total n m0 st k : solved n st -> assigned st k -> exists v, pure_obj m0 st k = Ok v.
Proof.
  intros Hs. destruct k as [d|d|e s|m]; cbn [assigned pure_obj]; intro H.
  - destruct (point_compute_total n st Hs m0 d H) as [v Hv]. rewrite Hv. eauto.
  - destruct (expr_sum_total n st Hs d 0%Q H) as [q Hq]. unfold expr_compute. rewrite Hq. eauto.
  - destruct (pure_eh_total n st e Hs H) as [q ->]. eauto.
  - destruct (pure_rows_total n st Hs m H) as [q ->]. eauto.
Qed.

Theorem eval_total n st r o :
  solved n st -> get_obj st r = Some o -> good (length (lpv st)) st r ->
  assigned st (okind_of o) -> exists v, snd (eval_obj st r) = Ok v.
Proof.
  intros Hs Ho G Ha. destruct (eval_obj st r) as [st' x] eqn:H.
  pose proof (eval_obj_value (length (lpv st)) st r st' x o H Ho G (fun _ _ => eq_refl)) as Hv.
  cbn [snd]. rewrite Hv. eapply pure_obj_total; eassumption.
Qed.

(** *** C02_gram_reading *)
Theorem gram_reading n st (Gp : nat -> nat -> R) :
  (forall i j, inner (rho_of n st i) (rho_of n st j) = Gp i j) ->
  forall d, evalE (rho_of n st) (phi_of st) d = evalGF Gp (phi_of st) d.
Proof. intros H d. apply evalE_evalGF. intros i j _. apply H. Qed.

Corollary gram_reading_holds n st Gp c :
  (forall i j, inner (rho_of n st i) (rho_of n st j) = Gp i j) ->
  (holds (rho_of n st) (phi_of st) c <-> holdsGF Gp (phi_of st) c).
Proof. intro H. unfold holds, holdsGF. rewrite (gram_reading n st Gp H). tauto. Qed.

(** *** C02_leaf_assignment *)
Lemma nth_error_map_seq {A} (f : nat -> A) (n i : nat) : (i < n)%nat -> nth_error (map f (seq 0 n)) i = Some (f i).
Proof.
  intro H. rewrite nth_error_map, nth_error_nth' with (d := 0%nat) by (rewrite seq_length; exact H).
  rewrite seq_nth by exact H. reflexivity.
Qed.

Theorem leaf_assignment st Pm Fv :
  let st' := assign_solution st Pm Fv in
  objs st' = objs st
  /\ length (lpv st') = length (lpv st) /\ length (lev st') = length (lev st)
  /\ (forall i, (i < length (lpv st))%nat -> leafP st' i = Ok (column Pm i))
  /\ (forall i, (i < length (lev st))%nat -> leafE st' i = Ok (nth i Fv 0%Q))
  /\ solved (length Pm) st'.
Proof.
  cbv zeta. unfold assign_solution. cbn [objs lpv lev]. rewrite !map_length, !seq_length.
  repeat split.
  - intros i Hi. unfold leafP. cbn [lpv]. rewrite nth_error_map_seq by exact Hi. reflexivity.
  - intros i Hi. unfold leafE. cbn [lev]. rewrite nth_error_map_seq by exact Hi. reflexivity.
  - intros i v H. cbn [lpv] in H. destruct (Nat.lt_ge_cases i (length (lpv st))) as [Hi|Hi].
    + rewrite nth_error_map_seq in H by exact Hi. injection H as <-. apply map_length.
    + apply nth_error_None in Hi. rewrite nth_error_map in H.
      assert (Hs : nth_error (seq 0 (length (lpv st))) i = None)
        by (apply nth_error_None; rewrite seq_length; apply nth_error_None; exact Hi).
      rewrite Hs in H. discriminate.
Qed.

(** the second pass over [self.list_of_psd] writes the same entries again *)
Lemma upd_nth_same {A} (l : list A) i a : nth_error l i = Some a -> upd_nth (fun _ => a) i l = l.
Proof.
  revert i. induction l as [|b l IH]; intros [|i] H; cbn in *; try discriminate.
  - injection H as ->. reflexivity.
  - rewrite IH by exact H. reflexivity.
Qed.
Theorem reassign_idempotent st Pm Fv i j :
  let st' := assign_solution st Pm Fv in
  (i < length (lpv st))%nat -> (j < length (lev st))%nat ->
  reassign_leafP st' Pm i = st' /\ reassign_leafE st' Fv j = st'.
Proof.
  cbv zeta. intros Hi Hj. unfold reassign_leafP, reassign_leafE, assign_solution. cbn [objs lpv lev].
  split; f_equal; apply upd_nth_same.
  - apply (nth_error_map_seq (fun i => Some (column Pm i))). exact Hi.
  - apply (nth_error_map_seq (fun i => Some (nth i Fv 0%Q))). exact Hj.
Qed.

(** *** C02_objective_is_min *)
Section ObjMin.
  Variable G : nat -> nat -> R.
  Variable o : nat.                               (* counter of the objective leaf *)
  Variable m0 : edict.
  Variable ms : list edict.                       (* the metrics: m0 :: ms, at least one *)
  Variable others : list (edict * sense).         (* every other scalar constraint sent *)
  Variable lmis : list (list (list edict)).       (* every LMI sent *)
  Variable PsdM : list (list R) -> Prop.          (* "is positive semi-definite", abstract *)

  Definition nokey (d : edict) : Prop := ~ In (KF o) (keys d).
  (** the objective leaf is created after everything it is compared with: nothing mentions it *)
  Hypothesis fresh_m : forall m, In m (m0 :: ms) -> nokey m /\ NoDupKeys ekey m.
  Hypothesis fresh_o : forall c, In c others -> nokey (fst c).
  Hypothesis fresh_l : forall M row d, In M lmis -> In row M -> In d row -> nokey d.

  Definition feasible (F : nat -> R) : Prop :=
    (forall m, In m (m0 :: ms) -> holdsGF G F (c_le [(KF o, 1%Q)] m))
    /\ (forall c, In c others -> holdsGF G F c)
    /\ (forall M, In M lmis -> PsdM (map (map (evalGF G F)) M)).

  Fixpoint minl (x : R) (l : list R) : R := match l with [] => x | y :: l' => Rmin x (minl y l') end.

  Lemma minl_le x l : forall y, In y (x :: l) -> minl x l <= y.
  Proof.
    revert x. induction l as [|z l IH]; intros x y [<-|H]; cbn [minl].
    - lra.
    - destruct H.
    - apply Rmin_l.
    - eapply Rle_trans; [apply Rmin_r|]. apply IH. exact H.
  Qed.
  Lemma minl_in x l : In (minl x l) (x :: l).
  Proof.
    revert x. induction l as [|z l IH]; intro x; cbn [minl]; [left; reflexivity|].
    unfold Rmin. destruct (Rle_dec x (minl z l)); [left; reflexivity|right; apply IH].
  Qed.

  Lemma evalGF_dsum F d : evalGF G F d = dsum ekey (evalKGF G F) d.
  Proof. induction d as [|[k q] d IH]; cbn [evalGF dsum]; [reflexivity|rewrite IH; reflexivity]. Qed.

  Lemma row_value F m : NoDupKeys ekey m ->
    evalGF G F (fst (c_le [(KF o, 1%Q)] m)) = F o - evalGF G F m.
  Proof.
    intro Hm. unfold c_le, x_sub, x_add, x_neg, x_scal, emerge. cbn [fst].
    rewrite !evalGF_dsum, dsum_prune.
    rewrite (dsum_merge ekey ekey_eqb ekey_eqb_spec).
    - rewrite dsum_scale, Q2R_m1. cbn [dsum evalKGF]. rewrite Q2R_1. lra.
    - unfold NoDupKeys; cbn. constructor; [tauto|constructor].
    - apply NoDupKeys_scale. exact Hm.
  Qed.

  Definition upd (F : nat -> R) (t : R) : nat -> R := fun e => if Nat.eqb e o then t else F e.

  Lemma evalGF_upd F t d : nokey d -> evalGF G (upd F t) d = evalGF G F d.
  Proof.
    unfold nokey. induction d as [|[k q] d IH]; intro H; cbn [evalGF]; [reflexivity|].
    rewrite IH by (intro Hin; apply H; right; exact Hin). f_equal. f_equal.
    destruct k as [e|i j|]; cbn [evalKGF]; try reflexivity.
    unfold upd. destruct (Nat.eqb_spec e o) as [->|]; [|reflexivity]. exfalso. apply H. left. reflexivity.
  Qed.

  Theorem objective_is_min F :
    feasible F ->
    (forall F', (forall e, e <> o -> F' e = F e) -> feasible F' -> F' o <= F o) ->
    F o = minl (evalGF G F m0) (map (evalGF G F) ms).
  Proof.
    intros (Hm & Ho & Hl) Hopt.
    set (mu := minl (evalGF G F m0) (map (evalGF G F) ms)).
    assert (Hle : F o <= mu).
    { pose proof (minl_in (evalGF G F m0) (map (evalGF G F) ms)) as Hin. fold mu in Hin.
      change (evalGF G F m0 :: map (evalGF G F) ms) with (map (evalGF G F) (m0 :: ms)) in Hin.
      apply in_map_iff in Hin as (m & Hv & Hin). specialize (Hm m Hin).
      unfold holdsGF in Hm. cbn [snd c_le] in Hm. rewrite row_value in Hm by (apply fresh_m; exact Hin). lra. }
    destruct (Rle_lt_dec mu (F o)) as [Hge|Hlt]; [lra|]. exfalso.
    assert (Hf : feasible (upd F mu)).
    { split; [|split].
      - intros m Hin. unfold holdsGF. cbn [snd c_le].
        rewrite row_value by (apply fresh_m; exact Hin).
        rewrite evalGF_upd by (apply fresh_m; exact Hin).
        unfold upd at 1. rewrite Nat.eqb_refl.
        assert (mu <= evalGF G F m).
        { apply minl_le. change (In (evalGF G F m) (map (evalGF G F) (m0 :: ms))). apply in_map. exact Hin. }
        lra.
      - intros c Hin. specialize (Ho c Hin). unfold holdsGF in *.
        rewrite evalGF_upd by (apply fresh_o; exact Hin). exact Ho.
      - intros M Hin. specialize (Hl M Hin).
        replace (map (map (evalGF G (upd F mu))) M) with (map (map (evalGF G F)) M); [exact Hl|].
        apply map_ext_in. intros row Hrow. apply map_ext_in. intros d Hd.
        symmetry. apply evalGF_upd. apply (fresh_l M row d Hin Hrow Hd). }
    assert (Hup : upd F mu o <= F o).
    { apply Hopt; [|exact Hf]. intros e He. unfold upd. destruct (Nat.eqb_spec e o); [contradiction|reflexivity]. }
    unfold upd in Hup. rewrite Nat.eqb_refl in Hup. lra.
  Qed.
End ObjMin.

(** *** The empty combination (F-C02b, narrow remainder of F-C02a): [x - x], a block of a partition
    that cancels, ...: its null vector is [np.zeros(Point.counter)] with the CURRENT counter. *)
Theorem empty_point_value st r o st' x :
  get_obj st r = Some o -> okind_of o = KPoint [] -> ocache o = None ->
  eval_obj st r = (st', x) -> x = Ok (VVec (repeat 0%Q (length (lpv st)))).
Proof.
  unfold eval_obj. intros -> -> ->. cbn. intros [= _ <-]. reflexivity.
Qed.

(** after a solve with 2 leaf points and one more leaf point created since, the not-yet-evaluated
    empty combination has 3 coordinates while every other point of the instance has 2 *)
Definition c02b_prog : list op :=
  [NewLeafP; NewLeafP; NewLeafE; MkPoint []; MkPoint [(0%nat, 1%Q); (1%nat, (-1)%Q)]; AddMetric (ELeaf 0);
   Solve (Some (mkSol [[1%Q; 0%Q]; [0%Q; 1%Q]] [1%Q; 1%Q] [VNum 1%Q]));
   NewLeafP].

Theorem empty_point_length_refuted :
  let st := es (final c02b_prog) in
  solved 2 st /\ clean st 0 /\ clean st 1
  /\ snd (eval_obj st 1) = Ok (VVec [1%Q; (-1)%Q])                 (* x0 - x1: fine since e997f00 *)
  /\ snd (eval_obj st 0) = Ok (VVec [0%Q; 0%Q; 0%Q]).               (* the empty combination: 3 coordinates *)
Proof.
  cbv zeta. split; [|split; [|split; [|split]]].
  - intros i v H. destruct i as [|[|[|[|i]]]]; vm_compute in H; try discriminate; injection H as <-; reflexivity.
  - intros o. vm_compute. intros [= <-]. split; [reflexivity|]. intros r' [].
  - intros o. vm_compute. intros [= <-]. split; [reflexivity|]. intros r' [].
  - vm_compute. reflexivity.
  - vm_compute. reflexivity.
Qed.

(** *** Regression about the OLD formula (before e997f00), kept only to document what was repaired:
    [value = np.zeros(Point.counter); value += weight * point.eval()] raised a broadcasting error on
    the same state on which the repaired evaluation returns the combination. *)
Definition old_np_iadd (acc v : list Q) : res (list Q) :=
  if Nat.eqb (length v) (length acc) then Ok (zipadd acc v)
  else if Nat.eqb (length v) 1 then Ok (map (fun a => (a + hd 0 v)%Q) acc)
  else Raise EShape.
Fixpoint old_point_sum (st : est) (acc : list Q) (d : pdict) : res (list Q) :=
  match d with
  | [] => Ok acc
  | (k, w) :: d' => match leafP st k with
                    | Raise e => Raise e
                    | Ok v => match old_np_iadd acc (vscale w v) with
                              | Raise e => Raise e
                              | Ok acc' => old_point_sum st acc' d'
                              end
                    end
  end.
Definition old_point_compute (st : est) (d : pdict) : res (list Q) :=
  old_point_sum st (repeat 0%Q (length (lpv st))) d.
