(** C08, first half: every GENERATED step program (Gen/Steps.v) returns and records exactly what
    its hand-written specification (Spec/StepsSpec.v) says, for every start point, step size,
    accuracy, function identifier and initial state; and the specification leaves no freedom
    (any outcome satisfying it equals the program's outcome up to the representation of
    dictionaries). *)
From Coq Require Import List QArith Reals Qreals Lra Bool Arith Lia String Morphisms Setoid.
From PV Require Import Base.IPS Model.Dict Model.Terms Model.StepsRT Gen.Steps Spec.Sem Spec.Classes Spec.StepsSpec
                       Proofs.DictLemmas Proofs.SemLemmas Proofs.C08Lemmas.
Import ListNotations.
Local Open Scope R_scope.
(* [veq] is only used through its congruence instances here (setoid rewriting) *)
Local Opaque veq.

Ltac pwf_goal :=
  lazymatch goal with
  | |- pwf ?d => change (NoDupKeys nat d)
  | |- ewf ?d => change (NoDupKeys ekey d)
  end.

(** side conditions of [compile*_denote]: no division by zero *)
Ltac solve_def :=
  cbn [pdef sdef xdef cdef sdenote nth]; repeat split; try exact I; try assumption; try lra.

(** rewrite every compiled term into its meaning *)
Ltac den :=
  repeat first
    [ rewrite evalP_prune
    | rewrite evalE_prune
    | rewrite evalP_leaf
    | rewrite evalE_leaf
    | rewrite compileP_denote by first [solve [wf_env] | solve [solve_def]]
    | rewrite compileX_denote by first [solve [wf_env] | solve [solve_def]]
    | progress (cbn [denoteP denoteX denoteC sdenote pow]; upd_red; cbn [nth]) ].

Ltac holds_den :=
  rewrite compileC_holds by first [solve [wf_env] | solve [solve_def]];
  cbn [denoteC denoteX denoteP sdenote pow]; upd_red; cbn [nth]; den.

Ltac res_eq :=
  cbn [result_eq fst snd]; repeat first [apply Forall2_nil | apply Forall2_cons]; cbn [rval_eq];
  auto using peq_refl, xeq_refl.

(** ** proximal_step *)
Lemma proximal_step_records x0 f gamma s :
  pwf x0 -> proximal_step_spec x0 f gamma s (run prog_proximal_step (mk_args [x0] [f] [gamma] []) s).
Proof.
  intros Hx0. unfold proximal_step_spec, prog_proximal_step. step_exec.
  eexists; split; [reflexivity|]. split.
  - pwf_goal. wf_env.
  - intros E rho. den. reflexivity.
Qed.

Lemma proximal_step_exact x0 f gamma s out :
  pwf x0 -> proximal_step_spec x0 f gamma s out ->
  out_eq out (run prog_proximal_step (mk_args [x0] [f] [gamma] []) s).
Proof.
  intros Hx0 (x & -> & _ & Hx).
  destruct (proximal_step_records x0 f gamma s Hx0) as (x' & -> & _ & Hx').
  split; cbn [fst snd].
  - res_eq. exact (peq_pinned _ _ _ Hx Hx').
  - apply state_eq_add_sample; [apply state_eq_refl|].
    split; [exact (peq_pinned _ _ _ Hx Hx')|split; auto using peq_refl, xeq_refl].
Qed.

(** ** linear_optimization_step *)
Lemma linear_optimization_step_records dir ind s :
  pwf dir ->
  linear_optimization_step_spec dir ind s (run prog_linear_optimization_step (mk_args [dir] [ind] [] []) s).
Proof.
  intros Hd. unfold linear_optimization_step_spec, prog_linear_optimization_step. step_exec.
  eexists; split; [reflexivity|]. split.
  - pwf_goal. wf_env.
  - intros E rho. den. reflexivity.
Qed.

Lemma linear_optimization_step_exact dir ind s out :
  pwf dir -> linear_optimization_step_spec dir ind s out ->
  out_eq out (run prog_linear_optimization_step (mk_args [dir] [ind] [] []) s).
Proof.
  intros Hd (g & -> & _ & Hg).
  destruct (linear_optimization_step_records dir ind s Hd) as (g' & -> & _ & Hg').
  split; cbn [fst snd].
  - res_eq. exact (peq_pinned _ _ _ Hg Hg').
  - apply state_eq_add_sample; [apply state_eq_refl|].
    split; [apply peq_refl|split; [exact (peq_pinned _ _ _ Hg Hg')|apply xeq_refl]].
Qed.

(** ** bregman_gradient_step *)
Lemma bregman_gradient_step_records gx0 sx0 h gamma s :
  pwf gx0 -> pwf sx0 ->
  bregman_gradient_step_spec gx0 sx0 h gamma s
    (run prog_bregman_gradient_step (mk_args [gx0; sx0] [h] [gamma] []) s).
Proof.
  intros Hg Hs. unfold bregman_gradient_step_spec, prog_bregman_gradient_step. step_exec.
  eexists; split; [reflexivity|]. split.
  - pwf_goal. wf_env.
  - intros E rho. den. reflexivity.
Qed.

Lemma bregman_gradient_step_exact gx0 sx0 h gamma s out :
  pwf gx0 -> pwf sx0 -> bregman_gradient_step_spec gx0 sx0 h gamma s out ->
  out_eq out (run prog_bregman_gradient_step (mk_args [gx0; sx0] [h] [gamma] []) s).
Proof.
  intros Hg Hs (sx & -> & _ & Hsx).
  destruct (bregman_gradient_step_records gx0 sx0 h gamma s Hg Hs) as (sx' & -> & _ & Hsx').
  split; cbn [fst snd].
  - res_eq. exact (peq_pinned _ _ _ Hsx Hsx').
  - apply state_eq_add_sample; [apply state_eq_refl|].
    split; [apply peq_refl|split; [exact (peq_pinned _ _ _ Hsx Hsx')|apply xeq_refl]].
Qed.

(** ** bregman_proximal_step: the sample (x, gx, fx) goes to the minimised function, (x, sx, hx)
    to the mirror map *)
Lemma bregman_proximal_step_records sx0 h f gamma s :
  pwf sx0 ->
  bregman_proximal_step_spec sx0 h f gamma s
    (run prog_bregman_proximal_step (mk_args [sx0] [h; f] [gamma] []) s).
Proof.
  intros Hs. unfold bregman_proximal_step_spec, prog_bregman_proximal_step. step_exec.
  eexists; split; [reflexivity|]. split.
  - pwf_goal. wf_env.
  - intros E rho. den. reflexivity.
Qed.

Lemma bregman_proximal_step_exact sx0 h f gamma s out :
  pwf sx0 -> bregman_proximal_step_spec sx0 h f gamma s out ->
  out_eq out (run prog_bregman_proximal_step (mk_args [sx0] [h; f] [gamma] []) s).
Proof.
  intros Hs (sx & -> & _ & Hsx).
  destruct (bregman_proximal_step_records sx0 h f gamma s Hs) as (sx' & -> & _ & Hsx').
  split; cbn [fst snd].
  - res_eq. exact (peq_pinned _ _ _ Hsx Hsx').
  - apply state_eq_add_sample; [apply state_eq_refl|].
    split; [apply peq_refl|split; [exact (peq_pinned _ _ _ Hsx Hsx')|apply xeq_refl]].
Qed.

Lemma Q2R_0' : Q2R 0 = 0. Proof. apply RMicromega.Q2R_0. Qed.
Lemma Q2R_lit2 : Q2R (2 # 1) = 2. Proof. unfold Q2R; cbn; lra. Qed.
Ltac arith := unfold nrm2; rewrite ?Q2R_0', ?Q2R_lit2; try (split; intros); lra.

(** ** inexact_gradient_step *)
Lemma inexact_gradient_step_absolute_records x0 f gamma eps s :
  pwf x0 -> state_wf s ->
  inexact_gradient_step_spec false x0 f gamma eps s
    (run prog_inexact_gradient_step_absolute (mk_args [x0] [f] [gamma; eps] []) s).
Proof.
  intros Hx0 Hs. unfold inexact_gradient_step_spec, prog_inexact_gradient_step_absolute.
  step_exec.
  destruct (oracle_leaf f x0 s) as [[[g v] x0'] s1] eqn:Ho.
  destruct (oracle_leaf_wf _ _ _ _ _ _ _ Hs Hx0 Ho) as (Hg & Hv & Hx0' & Hpe).
  step_exec.
  do 2 eexists; split; [reflexivity|]. split; [pwf_goal; wf_env|]. split; [|split; [reflexivity|]].
  - intros E rho. den. rewrite (Hpe E rho). reflexivity.
  - intros E rho phi. holds_den. arith.
Qed.

Lemma inexact_gradient_step_relative_records x0 f gamma eps s :
  pwf x0 -> state_wf s ->
  inexact_gradient_step_spec true x0 f gamma eps s
    (run prog_inexact_gradient_step_relative (mk_args [x0] [f] [gamma; eps] []) s).
Proof.
  intros Hx0 Hs. unfold inexact_gradient_step_spec, prog_inexact_gradient_step_relative.
  step_exec.
  destruct (oracle_leaf f x0 s) as [[[g v] x0'] s1] eqn:Ho.
  destruct (oracle_leaf_wf _ _ _ _ _ _ _ Hs Hx0 Ho) as (Hg & Hv & Hx0' & Hpe).
  step_exec.
  do 2 eexists; split; [reflexivity|]. split; [pwf_goal; wf_env|]. split; [|split; [reflexivity|]].
  - intros E rho. den. rewrite (Hpe E rho). reflexivity.
  - intros E rho phi. holds_den. arith.
Qed.

Lemma inexact_gradient_step_invalid_records x0 f gamma eps s :
  inexact_gradient_step_invalid_spec x0 f s
    (run prog_inexact_gradient_step_invalid (mk_args [x0] [f] [gamma; eps] []) s).
Proof.
  unfold inexact_gradient_step_invalid_spec, prog_inexact_gradient_step_invalid. step_exec.
  destruct (oracle_leaf f x0 s) as [[[g v] x0'] s1]. reflexivity.
Qed.

(** the option strings select these programs, every other string the failing one *)
Lemma inexact_gradient_step_dispatch :
  step_program "inexact_gradient_step" "absolute" = prog_inexact_gradient_step_absolute
  /\ step_program "inexact_gradient_step" "relative" = prog_inexact_gradient_step_relative
  /\ default_inexact_gradient_step = "absolute"%string
  /\ forall o, o <> "absolute"%string -> o <> "relative"%string ->
       step_program "inexact_gradient_step" o = prog_inexact_gradient_step_invalid.
Proof.
  repeat split. intros o H1 H2. unfold step_program. cbn [String.eqb Ascii.eqb Bool.eqb].
  destruct (String.eqb_spec o "absolute"); [contradiction|].
  destruct (String.eqb_spec o "relative"); [contradiction|]. reflexivity.
Qed.

Lemma inexact_gradient_step_exact relative x0 f gamma eps s out :
  pwf x0 -> state_wf s -> inexact_gradient_step_spec relative x0 f gamma eps s out ->
  out_eq out (run (if relative then prog_inexact_gradient_step_relative else prog_inexact_gradient_step_absolute)
                  (mk_args [x0] [f] [gamma; eps] []) s).
Proof.
  intros Hx0 Hs H.
  assert (H' : inexact_gradient_step_spec relative x0 f gamma eps s
                 (run (if relative then prog_inexact_gradient_step_relative else prog_inexact_gradient_step_absolute)
                      (mk_args [x0] [f] [gamma; eps] []) s)).
  { destruct relative; [apply inexact_gradient_step_relative_records|apply inexact_gradient_step_absolute_records];
      assumption. }
  revert H H'. generalize (run (if relative then prog_inexact_gradient_step_relative else prog_inexact_gradient_step_absolute)
                      (mk_args [x0] [f] [gamma; eps] []) s) as out'.
  unfold inexact_gradient_step_spec. destruct (oracle_leaf f x0 s) as [[[g v] x0'] s1].
  intros out' (x & c & -> & _ & Hx & Hc & Hh) (x' & c' & -> & _ & Hx' & Hc' & Hh').
  split; cbn [fst snd].
  - res_eq. exact (peq_pinned _ _ _ Hx Hx').
  - apply state_eq_add_cons; [apply state_eq_refl|].
    apply (ceq_pinned _ _ (fun E rho phi => _ <= _) (eq_trans Hc (eq_sym Hc')) Hh Hh').
Qed.

(** ** epsilon_subgradient_step *)
Lemma epsilon_subgradient_step_records x0 f gamma s :
  pwf x0 -> state_wf s ->
  epsilon_subgradient_step_spec x0 f gamma s
    (run prog_epsilon_subgradient_step (mk_args [x0] [f] [gamma] []) s).
Proof.
  intros Hx0 Hs. unfold epsilon_subgradient_step_spec, prog_epsilon_subgradient_step.
  step_exec.
  destruct (value_leaf f x0 (bump 1 0 s)) as [[v x0'] s1] eqn:Hv.
  assert (Hs' : state_wf (bump 1 0 s)) by exact Hs.
  destruct (value_leaf_wf _ _ _ _ _ _ Hs' Hx0 Hv) as (Hvw & Hx0' & Hpe).
  step_exec.
  do 2 eexists; split; [reflexivity|]. split; [pwf_goal; wf_env|]. split; [|split; [reflexivity|]].
  - intros E rho. den. rewrite (Hpe E rho). reflexivity.
  - intros E rho phi. holds_den. rewrite (Hpe E rho). cbn [pt_ctr ex_ctr bump add_sample add_cons Nat.add]. tauto.
Qed.

Lemma epsilon_subgradient_step_exact x0 f gamma s out :
  pwf x0 -> state_wf s -> epsilon_subgradient_step_spec x0 f gamma s out ->
  out_eq out (run prog_epsilon_subgradient_step (mk_args [x0] [f] [gamma] []) s).
Proof.
  intros Hx0 Hs H. pose proof (epsilon_subgradient_step_records x0 f gamma s Hx0 Hs) as H'.
  revert H H'. generalize (run prog_epsilon_subgradient_step (mk_args [x0] [f] [gamma] []) s) as out'.
  unfold epsilon_subgradient_step_spec. destruct (value_leaf f x0 (bump 1 0 s)) as [[v x0'] s1].
  intros out' (x & c & -> & _ & Hx & Hc & Hh) (x' & c' & -> & _ & Hx' & Hc' & Hh').
  split; cbn [fst snd].
  - res_eq. exact (peq_pinned _ _ _ Hx Hx').
  - apply state_eq_add_cons; [apply state_eq_refl|].
    apply (ceq_pinned _ _ (fun E rho phi => _ <= _) (eq_trans Hc (eq_sym Hc')) Hh Hh').
Qed.

(** ** inexact_proximal_step *)

(** the reformulation of the primal-dual gap stated in the docstring:
    Phi_p(x) - Phi_d(v) = 1/2 |e|^2 + gamma eps_sub,  e = x - x0 + gamma v,
    eps_sub = f(x) - f(w) - <v, x - w>  (= f(x) + f*(v) - <v, x>) *)
Lemma pd_gap_identity {E : ips} (gamma : R) (x0 x : E) fx (v w : E) fw :
  pd_gap gamma x0 x fx v w fw
  = 1 / 2 * nrm2 (vadd (vsub x x0) (vscal gamma v)) + gamma * (fx - fw - inner v (vsub x w)).
Proof. unfold pd_gap, phi_p, phi_d. bilin. orient [x0; x; v; w]. field. Qed.

Lemma inexact_proximal_step_I_records x0 f gamma s :
  pwf x0 ->
  inexact_proximal_step_I_spec x0 f gamma s
    (run prog_inexact_proximal_step_PD_gapI (mk_args [x0] [f] [gamma] []) s).
Proof.
  intros Hx0. unfold inexact_proximal_step_I_spec, prog_inexact_proximal_step_PD_gapI. step_exec.
  eexists; split; [reflexivity|]. split; [reflexivity|].
  intros E rho phi. holds_den. rewrite pd_gap_identity.
  cbn [pt_ctr ex_ctr bump add_sample add_cons Nat.add]. arith.
Qed.

Lemma inexact_proximal_step_II_records x0 f gamma s :
  pwf x0 ->
  inexact_proximal_step_II_spec x0 f gamma s
    (run prog_inexact_proximal_step_PD_gapII (mk_args [x0] [f] [gamma] []) s).
Proof.
  intros Hx0. unfold inexact_proximal_step_II_spec, prog_inexact_proximal_step_PD_gapII. step_exec.
  do 2 eexists; split; [reflexivity|]. split; [pwf_goal; wf_env|]. split; [|split; [reflexivity|]].
  - intros E rho. den. cbn [pt_ctr ex_ctr bump add_sample add_cons Nat.add]. reflexivity.
  - intros E rho phi. holds_den. rewrite pd_gap_identity. den.
    cbn [pt_ctr ex_ctr bump add_sample add_cons Nat.add].
    set (a := evalP rho x0). set (g := rho (S (pt_ctr s))). set (e := rho (pt_ctr s)).
    assert (He : nrm2 (vadd (vsub (vadd (vsub a (vscal (Q2R gamma) g)) e) a) (vscal (Q2R gamma) g)) = inner e e).
    { bilin. orient [a; g; e]. ring. }
    assert (Hz : inner g (vsub (vadd (vsub a (vscal (Q2R gamma) g)) e) (vadd (vsub a (vscal (Q2R gamma) g)) e)) = 0).
    { bilin. ring. }
    rewrite He, Hz. arith.
Qed.

Lemma inexact_proximal_step_III_records x0 f gamma s :
  pwf x0 -> ~ (gamma == 0)%Q ->
  inexact_proximal_step_III_spec x0 f gamma s
    (run prog_inexact_proximal_step_PD_gapIII (mk_args [x0] [f] [gamma] []) s).
Proof.
  intros Hx0 Hg. unfold inexact_proximal_step_III_spec, prog_inexact_proximal_step_PD_gapIII. step_exec.
  assert (Hb : Qeq_bool gamma 0 = false).
  { destruct (Qeq_bool gamma 0) eqn:Hq; [|reflexivity]. apply Qeq_bool_iff in Hq. contradiction. }
  rewrite Hb. cbn [negb]. step_exec.
  assert (HgR : Q2R gamma <> 0).
  { intros Hz. apply Hg. apply eqR_Qeq. rewrite Hz, Q2R_0'. reflexivity. }
  do 2 eexists; split; [reflexivity|]. split; [pwf_goal; wf_env|]. split; [|split; [reflexivity|]].
  - intros E rho. den. cbn [pt_ctr ex_ctr bump add_sample add_cons Nat.add]. reflexivity.
  - intros E rho phi. holds_den. rewrite pd_gap_identity. den.
    cbn [pt_ctr ex_ctr bump add_sample add_cons Nat.add].
    set (a := evalP rho x0). set (x := rho (pt_ctr s)). set (w := rho (S (S (pt_ctr s)))).
    assert (He : nrm2 (vadd (vsub x a) (vscal (Q2R gamma) (vscal (1 / Q2R gamma) (vsub a x)))) = 0).
    { bilin. orient [a; x]. field. exact HgR. }
    rewrite He. arith.
Qed.

Lemma inexact_proximal_step_III_zero_records x0 f gamma s :
  (gamma == 0)%Q ->
  inexact_proximal_step_III_zero_spec s
    (run prog_inexact_proximal_step_PD_gapIII (mk_args [x0] [f] [gamma] []) s).
Proof.
  intros Hg. unfold inexact_proximal_step_III_zero_spec, prog_inexact_proximal_step_PD_gapIII. step_exec.
  apply Qeq_bool_iff in Hg. rewrite Hg. cbn [negb]. reflexivity.
Qed.

Lemma inexact_proximal_step_invalid_records x0 f gamma s :
  inexact_proximal_step_invalid_spec s
    (run prog_inexact_proximal_step_invalid (mk_args [x0] [f] [gamma] []) s).
Proof. reflexivity. Qed.

Lemma inexact_proximal_step_dispatch :
  step_program "inexact_proximal_step" "PD_gapI" = prog_inexact_proximal_step_PD_gapI
  /\ step_program "inexact_proximal_step" "PD_gapII" = prog_inexact_proximal_step_PD_gapII
  /\ step_program "inexact_proximal_step" "PD_gapIII" = prog_inexact_proximal_step_PD_gapIII
  /\ default_inexact_proximal_step = "PD_gapII"%string
  /\ forall o, o <> "PD_gapI"%string -> o <> "PD_gapII"%string -> o <> "PD_gapIII"%string ->
       step_program "inexact_proximal_step" o = prog_inexact_proximal_step_invalid.
Proof.
  repeat split. intros o H1 H2 H3. unfold step_program. cbn [String.eqb Ascii.eqb Bool.eqb].
  destruct (String.eqb_spec o "PD_gapI"); [contradiction|].
  destruct (String.eqb_spec o "PD_gapII"); [contradiction|].
  destruct (String.eqb_spec o "PD_gapIII"); [contradiction|]. reflexivity.
Qed.

Lemma inexact_proximal_step_I_exact x0 f gamma s out :
  pwf x0 -> inexact_proximal_step_I_spec x0 f gamma s out ->
  out_eq out (run prog_inexact_proximal_step_PD_gapI (mk_args [x0] [f] [gamma] []) s).
Proof.
  intros Hx0 (c & -> & Hc & Hh).
  destruct (inexact_proximal_step_I_records x0 f gamma s Hx0) as (c' & -> & Hc' & Hh').
  split; cbn [fst snd].
  - res_eq.
  - apply state_eq_add_cons; [apply state_eq_refl|].
    apply (ceq_pinned _ _ (fun E rho phi => _ <= _) (eq_trans Hc (eq_sym Hc')) Hh Hh').
Qed.

Lemma inexact_proximal_step_II_exact x0 f gamma s out :
  pwf x0 -> inexact_proximal_step_II_spec x0 f gamma s out ->
  out_eq out (run prog_inexact_proximal_step_PD_gapII (mk_args [x0] [f] [gamma] []) s).
Proof.
  intros Hx0 (x & c & -> & _ & Hx & Hc & Hh).
  destruct (inexact_proximal_step_II_records x0 f gamma s Hx0) as (x' & c' & -> & _ & Hx' & Hc' & Hh').
  assert (Hxx : peq x x') by exact (peq_pinned _ _ _ Hx Hx').
  split; cbn [fst snd].
  - res_eq.
  - apply state_eq_add_cons; [apply state_eq_add_sample; [apply state_eq_refl|]|].
    + split; [exact Hxx|split; auto using peq_refl, xeq_refl].
    + split; [congruence|]. intros E rho phi. rewrite Hh, Hh'. unfold pd_gap, phi_p, phi_d. rewrite (Hxx E rho). tauto.
Qed.

Lemma inexact_proximal_step_III_exact x0 f gamma s out :
  pwf x0 -> ~ (gamma == 0)%Q -> inexact_proximal_step_III_spec x0 f gamma s out ->
  out_eq out (run prog_inexact_proximal_step_PD_gapIII (mk_args [x0] [f] [gamma] []) s).
Proof.
  intros Hx0 Hg (v & c & -> & _ & Hv & Hc & Hh).
  destruct (inexact_proximal_step_III_records x0 f gamma s Hx0 Hg) as (v' & c' & -> & _ & Hv' & Hc' & Hh').
  assert (Hvv : peq v v') by exact (peq_pinned _ _ _ Hv Hv').
  split; cbn [fst snd].
  - res_eq.
  - apply state_eq_add_cons; [apply state_eq_add_sample; [apply state_eq_refl|]|].
    + split; [apply peq_refl|split; [exact Hvv|apply xeq_refl]].
    + split; [congruence|]. intros E rho phi. rewrite Hh, Hh'. unfold pd_gap, phi_p, phi_d. rewrite (Hvv E rho). tauto.
Qed.

(** ** exact_linesearch_step *)

Lemma upd_same {A} v (x : A) m : upd v x m v = x.
Proof. unfold upd. rewrite Nat.eqb_refl. reflexivity. Qed.

(** the loop [for d in directions: c = (<comparison t>); c.set_name(..); f.add_constraint(c)]
    records one constraint per direction, in order, and touches nothing else *)
Lemma linesearch_loop (a : args) (d g c fi : nat) (t : cterm) (nm : string) :
  d <> g ->
  cdefb (a_scal a) t = true ->
  (forall vp vx, (forall v, NoDupKeys nat (vp v)) -> (forall v, NoDupKeys ekey (vx v)) ->
     snd (compileC (a_scal a) vp vx t) = Equ /\
     forall (E : ips) (rho : nat -> E) phi,
       holds rho phi (compileC (a_scal a) vp vx t) <-> inner (evalP rho (vp d)) (evalP rho (vp g)) = 0) ->
  forall dirs e s,
    (forall v, NoDupKeys nat (e_p e v)) -> (forall v, NoDupKeys ekey (e_x e v)) ->
    Forall (NoDupKeys nat) dirs ->
    exists e' cs,
      exec_loop a d [LetC c t; SetName c nm; AddConstraint fi c] dirs (e, s)
      = inl (e', add_conss (a_fun a fi) cs s)
      /\ (forall v, v <> d -> e_p e' v = e_p e v) /\ e_x e' = e_x e
      /\ Forall2 (fun dv k => snd k = Equ /\
                    forall (E : ips) (rho : nat -> E) phi,
                      holds rho phi k <-> inner (evalP rho dv) (evalP rho (e_p e g)) = 0) dirs cs.
Proof.
  intros Hdg Hdef Ht. induction dirs as [|dv dirs IH]; intros e s Hp Hx Hd.
  - exists e, []. cbn [exec_loop add_conss fold_left]. repeat split; constructor.
  - inversion Hd as [|? ? Hdv Hd']; subst.
    cbn [exec_loop exec_body exec_s fst snd]. rewrite Hdef.
    cbn [exec_body exec_s fst snd setp setc e_p e_x e_c].
    assert (Hvp1 : forall v, NoDupKeys nat (upd d dv (e_p e) v)) by (apply upd_wf; assumption).
    match goal with
    | |- context [exec_loop _ _ _ dirs (?e1, ?s1)] =>
        destruct (IH e1 s1) as (e' & cs & He & Hp' & Hx' & Hcs); [exact Hvp1|exact Hx|exact Hd'|]
    end.
    cbn [e_p e_x e_c setc setp] in Hp', Hx', Hcs.
    eexists e', (_ :: cs). split; [|split; [|split]].
    + rewrite He. cbn [add_conss fold_left]. reflexivity.
    + intros v Hv. rewrite (Hp' v Hv). unfold upd.
      destruct (Nat.eqb_spec v d); [contradiction|reflexivity].
    + exact Hx'.
    + constructor.
      * rewrite upd_same.
        destruct (Ht (upd d dv (e_p e)) (e_x e) Hvp1 Hx) as [H1 H2]. split; [exact H1|].
        intros E rho phi. rewrite (H2 E rho phi). unfold upd. rewrite Nat.eqb_refl.
        destruct (Nat.eqb_spec g d); [congruence|]. tauto.
      * match type of Hcs with
        | context [@upd ?A d dv (e_p e) g] =>
            assert (Hg : @upd A d dv (e_p e) g = e_p e g)
              by (unfold upd; destruct (Nat.eqb_spec g d); [congruence|reflexivity]);
            rewrite Hg in Hcs
        end.
        exact Hcs.
Qed.

Lemma exact_linesearch_step_records x0 f dirs s :
  pwf x0 -> Forall pwf dirs -> state_wf s ->
  exact_linesearch_step_spec x0 f dirs s
    (run prog_exact_linesearch_step (mk_args [x0] [f] [] dirs) s).
Proof.
  intros Hx0 Hd Hs. unfold exact_linesearch_step_spec, prog_exact_linesearch_step.
  step_exec.
  destruct (oracle_leaf f (leafP (pt_ctr s)) (bump 1 0 s)) as [[[g v] x'] s1] eqn:Ho.
  assert (Hs' : state_wf (bump 1 0 s)) by exact Hs.
  destruct (oracle_leaf_wf _ _ _ _ _ _ _ Hs' (pND_leaf _) Ho) as (Hg & Hv & Hx' & Hpe).
  step_exec.
  match goal with
  | |- context [exec_loop ?a0 ?d0 [LetC ?c0 ?t0; SetName _ ?nm0; AddConstraint ?fi0 _] dirs (?e0, ?s2)] =>
      destruct (linesearch_loop a0 d0 2%nat c0 fi0 t0 nm0) with (dirs := dirs) (e := e0) (s := s2)
        as ([ep' ex' ec'] & cs & He & Hp' & Hx'' & Hcs)
  end.
  - discriminate.
  - reflexivity.
  - intros vp vx Hvp Hvx. split; [reflexivity|]. intros E rho phi.
    rewrite compileC_holds by first [assumption | solve [solve_def]].
    cbn [denoteC denoteX denoteP sdenote]. arith.
  - cbn [e_p]. wf_env.
  - cbn [e_x]. wf_env.
  - exact Hd.
  - rewrite He. cbn [e_p e_x a_fun nth] in *. 
    do 2 eexists. split; [|split; [|split; [|split]]].
    + rewrite (Hp' 1%nat), (Hp' 2%nat), Hx'' by discriminate. upd_red. reflexivity.
    + intros E rho. rewrite (Hpe E rho). apply evalP_leaf.
    + reflexivity.
    + intros E rho phi. holds_den. rewrite (Hpe E rho). den. arith.
    + upd_red. exact Hcs.
Qed.

Lemma Forall2_ceq_pinned {A} (m : A -> forall E : ips, (nat -> E) -> (nat -> R) -> Prop) l cs cs' :
  Forall2 (fun d c => snd c = Equ /\ forall E rho phi, holds rho phi c <-> m d E rho phi) l cs ->
  Forall2 (fun d c => snd c = Equ /\ forall E rho phi, holds rho phi c <-> m d E rho phi) l cs' ->
  Forall2 ceq cs cs'.
Proof.
  intros H. revert cs'. induction H as [|d c l cs [Hc Hh] Hl IH]; intros cs' H'; inversion H'; subst; constructor.
  - destruct H1 as [Hc' Hh']. split; [congruence|]. intros E rho phi. rewrite Hh, Hh'. tauto.
  - apply IH. assumption.
Qed.

Lemma exact_linesearch_step_exact x0 f dirs s out :
  pwf x0 -> Forall pwf dirs -> state_wf s -> exact_linesearch_step_spec x0 f dirs s out ->
  out_eq out (run prog_exact_linesearch_step (mk_args [x0] [f] [] dirs) s).
Proof.
  intros Hx0 Hd Hs H. pose proof (exact_linesearch_step_records x0 f dirs s Hx0 Hd Hs) as H'.
  revert H H'. generalize (run prog_exact_linesearch_step (mk_args [x0] [f] [] dirs) s) as out'.
  unfold exact_linesearch_step_spec.
  destruct (oracle_leaf f (leafP (pt_ctr s)) (bump 1 0 s)) as [[[g v] x'] s1].
  intros out' (c0 & cs & -> & _ & Hc & Hh & Hcs) (c0' & cs' & -> & _ & Hc' & Hh' & Hcs').
  split; cbn [fst snd].
  - res_eq.
  - apply state_eq_add_conss; [apply state_eq_refl|]. constructor.
    + apply (ceq_pinned _ _ (fun E rho phi => _ = _) (eq_trans Hc (eq_sym Hc')) Hh Hh').
    + exact (Forall2_ceq_pinned (fun d E rho phi => inner (evalP rho d) (evalP rho g) = 0) _ _ _ Hcs Hcs').
Qed.
