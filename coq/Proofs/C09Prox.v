(** C09, proximal methods: where the proximal operator of a world comes from, and a worked example.

    Spec/World.v only SPECIFIES the proximal operator of a function of the world ([prox_genuine]: the proximal
    point, with (x0 - prox)/gamma and the value there, is a genuine sample).  For a convex function F this is
    C08's theorem [prox_optimality] (Proofs/C08Real.v; Props/C08.v [C08_proximal_step_real]): if
    [res gamma x0] minimises gamma F + 1/2 |. - x0|^2 ([is_prox] of Spec/StepsSpec.v) then (x0 - res)/gamma is a
    subgradient of F at it.  Hence [fn_world] / [pfn_world] can be given the proximal operator of their function
    whenever it has one. *)
From Coq Require Import List QArith Reals Qreals Lra Arith Bool String.
From PV Require Import Base.IPS Model.Dict Model.Terms Model.Method Model.ClassGen Spec.Sem Spec.World Spec.Classes.
From PV Require Import Proofs.MethodLemmas Proofs.C04Lemmas Proofs.C03Core Proofs.C09Compose Proofs.C09ComposeAll.
From PV Require Spec.StepsSpec Proofs.C08Real.
From PV Require Import Gen.Classes.
Import ListNotations.
Local Open Scope R_scope.

(** a convex function with a proximal operator gives a world with [has_prox = true] *)
Theorem is_prox_spec {E : ips} (F : @fn E) (res : R -> E -> E) :
  StepsSpec.convex_fn F ->
  (forall gamma x0, 0 < gamma -> StepsSpec.is_prox F gamma x0 (res gamma x0)) ->
  prox_spec (genuine_sub F) (val F) true res.
Proof.
  intros Hc Hp _ gamma x0 Hg. split; [|reflexivity].
  exact (C08Real.prox_optimality F gamma x0 (res gamma x0) Hc Hg (Hp gamma x0 Hg)).
Qed.

(** ** Example: the proximal point method on f(x) = x^2 (real line); prox_{gamma f}(x0) = x0 / (1 + 2 gamma) *)
Definition sq_F : @fn R1 := @mkFn R1 (fun _ => True) (fun x : R => x * x).
Definition sq_sel : R1 -> R1 := fun x : R => 2 * x.
Definition sq_res : R -> R1 -> R1 := fun gamma (x0 : R) => x0 / (1 + 2 * gamma).

Lemma sq_subgrad (x : R1) : subgrad sq_F x (sq_sel x).
Proof.
  split; [exact I|]. intros y _. unfold sq_F, sq_sel, vsub, vneg. cbn. change R in x, y.
  pose proof (Rle_0_sqr (y - x)) as S. unfold Rsqr in S. lra.
Qed.
Lemma sq_min : subgrad sq_F (0 : R1) vzero.
Proof.
  split; [exact I|]. intros y _. unfold sq_F, vsub, vneg. cbn. change R in y.
  pose proof (Rle_0_sqr y) as S. unfold Rsqr in S. lra.
Qed.
Lemma sq_ext : fn_respects_veq sq_F.
Proof.
  intros x x' Hv. split; [auto|]. pose proof (Hv (1 : R1)) as H. cbn in H. unfold sq_F. cbn. change R in x, x'.
  assert (x = x') by lra. subst. reflexivity.
Qed.
Lemma sq_convex : StepsSpec.convex_fn sq_F.
Proof.
  intros x y t _ _ Ht. split; [exact I|]. unfold sq_F, seg, vsub, vneg. cbn. change R in x, y.
  pose proof (Rle_0_sqr (y - x)) as S. unfold Rsqr in S.
  assert (Hid : (1 - t) * (x * x) + t * (y * y) - (x + t * (y + -1 * x)) * (x + t * (y + -1 * x))
                = t * (1 - t) * ((y - x) * (y - x))) by ring.
  assert (0 <= t * (1 - t) * ((y - x) * (y - x))) by (apply Rmult_le_pos; [apply Rmult_le_pos; lra|exact S]).
  lra.
Qed.
Lemma sq_is_prox gamma (x0 : R1) : 0 < gamma -> StepsSpec.is_prox sq_F gamma x0 (sq_res gamma x0).
Proof.
  intros Hg. split; [exact I|]. intros y _. unfold sq_F, sq_res, nrm2, vsub, vneg. cbn. change R in x0, y.
  set (d := 1 + 2 * gamma). assert (Hd : 0 < d) by (unfold d; lra).
  (* gamma y^2 + 1/2 (y - x0)^2 - [gamma p^2 + 1/2 (p - x0)^2] = d/2 (y - p)^2 with p = x0/d *)
  assert (Hid : gamma * (y * y) + 1 / 2 * ((y + -1 * x0) * (y + -1 * x0))
                - (gamma * (x0 / d * (x0 / d)) + 1 / 2 * ((x0 / d + -1 * x0) * (x0 / d + -1 * x0)))
                = d / 2 * ((y - x0 / d) * (y - x0 / d))).
  { unfold d. field. lra. }
  pose proof (Rle_0_sqr (y - x0 / d)) as S. unfold Rsqr in S.
  assert (0 <= d / 2 * ((y - x0 / d) * (y - x0 / d))) by (apply Rmult_le_pos; lra).
  lra.
Qed.

Definition sq_world : @world R1 :=
  fn_world sq_F sq_sel sq_subgrad (0 : R1) sq_min sq_ext true sq_res (is_prox_spec sq_F sq_res sq_convex sq_is_prox).

(** x0 = Point(); x1, g1, f1 = proximal_step(x0, f, 1/2); x2, g2, f2 = proximal_step(x1, f, 1) *)
Definition prox_point_program : list mop :=
  [MFresh; MProx 0 [(0%nat, 1%Q)] (1 # 2)%Q; MProx 0 [(0%nat, 1%Q); (1%nat, (-1 # 2)%Q)] 1%Q].

Example proximal_point_example (vs : (nat -> R1) * (nat -> R)) :
  mwf prox_point_program minit = true /\ steps_ok sq_world prox_point_program = true /\
  Forall op_nodup prox_point_program /\
  List.length (m_samples (mrun prox_point_program minit)) = 2%nat /\
  List.length (g_cons (run_plan plan_ConvexFunction (fstate_of (fun _ => 0%Q) (mrun prox_point_program minit) 0))) = 2%nat /\
  (* the second recorded point is prox_1 (prox_{1/2} (x0)) = x0 / 6 whatever the starting point x0 = fst vs 0 *)
  (forall x g fx, nth_error (m_samples (mrun prox_point_program minit)) 1 = Some (0%nat, (x, g, fx)) ->
     evalP (fst (wrun sq_world prox_point_program minit vs)) x = fst vs 0%nat / 6) /\
  all_satisfied (fst (wrun sq_world prox_point_program minit vs)) (snd (wrun sq_world prox_point_program minit vs))
    (run_plan plan_ConvexFunction (fstate_of (fun _ => 0%Q) (mrun prox_point_program minit) 0)).
Proof.
  assert (Hwf : mwf prox_point_program minit = true) by (vm_compute; reflexivity).
  assert (Hpx : steps_ok sq_world prox_point_program = true) by reflexivity.
  assert (Hnd : Forall op_nodup prox_point_program).
  { repeat constructor; cbn; try tauto; intros [H|[]]; discriminate. }
  split; [exact Hwf|]. split; [exact Hpx|]. split; [exact Hnd|].
  split; [vm_compute; reflexivity|]. split; [vm_compute; reflexivity|]. split.
  - intros x g fx H. vm_compute in H. injection H as <- _ _.
    cbn. unfold upd, sq_res. cbn. unfold Q2R. cbn. field.
  - exact (run_satisfies_convex sq_F sq_sel sq_subgrad (0 : R1) sq_min sq_ext true sq_res
             (is_prox_spec sq_F sq_res sq_convex sq_is_prox) prox_point_program vs Hwf Hnd Hpx).
Qed.

(** * Linear minimisation oracles (Frank-Wolfe-type methods)

    Spec/World.v only SPECIFIES the linear minimisation oracle ([lmo_genuine]).  For the indicator of a set this is
    C08's theorem [linopt_iff_normal] (Props/C08.v [C08_linear_optimization_step_real]): x minimises <d, .> over
    the set iff -d is in the normal cone of the set at x. *)
Theorem is_linopt_spec {E : ips} (F : @fn E) (lm : E -> E) :
  (forall z, dom F z -> val F z = 0) ->
  (forall d, StepsSpec.is_linopt F d (lm d)) ->
  lmo_spec (genuine_sub F) (val F) true lm.
Proof.
  intros Hind Hl _ d. split; [|reflexivity].
  exact (proj1 (C08Real.linopt_iff_normal F d (lm d) Hind) (Hl d)).
Qed.

Lemma no_prox_spec {E : ips} (G : E * E * R -> Prop) (valf : E -> R) (res : R -> E -> E) : prox_spec G valf false res.
Proof. intros H. discriminate H. Qed.

(** ** Example: one Frank-Wolfe step on the indicator of [-1, 1] (real line) *)
Definition box_F : @fn R1 := @mkFn R1 (fun x : R => -1 <= x <= 1) (fun _ => 0).
Definition box_lm : R1 -> R1 := fun d : R => if Rle_dec 0 d then -1 else 1.

Lemma box_sel (x : R1) : dom box_F x -> subgrad box_F x ((fun _ => 0 : R1) x).
Proof. intros Hd. split; [exact Hd|]. intros y _. cbn. lra. Qed.
Lemma box_min : subgrad box_F (0 : R1) vzero.
Proof. split; [cbn; lra|]. intros y _. cbn. lra. Qed.
Lemma box_ext : fn_respects_veq box_F.
Proof.
  intros x x' Hv. pose proof (Hv (1 : R1)) as H. cbn in H. change R in x, x'. assert (x = x') by lra. subst.
  split; [auto|reflexivity].
Qed.
Lemma box_is_linopt (d : R1) : StepsSpec.is_linopt box_F d (box_lm d).
Proof.
  unfold StepsSpec.is_linopt, box_lm. change R in d. destruct (Rle_dec 0 d) as [Hd|Hd]; cbn; (split; [lra|]);
    intros y Hy; change R in y; nra.
Qed.
Lemma box_member : indicator_member (Some 2) box_F.
Proof.
  split; [intros x _; reflexivity|]. intros x y Hx Hy. cbn in *. change R in x, y. unfold nrm2, vsub, vneg. cbn. nra.
Qed.

Definition box_world : @world R1 :=
  pfn_world box_F (fun _ => 0 : R1) box_sel (0 : R1) box_min box_ext
            false (fun _ x => x) (no_prox_spec _ _ _)
            true box_lm (is_linopt_spec box_F box_lm (fun _ _ => eq_refl) box_is_linopt).

(** x0 = Point(); d = Point(); s, gs, fs = linear_optimization_step(d, ind); x1 = (x0 + s)/2; ind.oracle(x1) *)
Definition frank_wolfe_program : list mop :=
  [MFresh; MFresh; MLinOpt 0 [(1%nat, 1%Q)]; MEval 0 [(0%nat, (1 # 2)%Q); (2%nat, (1 # 2)%Q)]].

Example frank_wolfe_example (vs : (nat -> R1) * (nat -> R)) :
  -1 <= fst vs 0%nat <= 1 ->          (* the starting point is in the set; the direction fst vs 1 is arbitrary *)
  mwf frank_wolfe_program minit = true /\ steps_ok box_world frank_wolfe_program = true /\
  Forall op_nodup frank_wolfe_program /\
  List.length (m_samples (mrun frank_wolfe_program minit)) = 2%nat /\
  (* the leaf created by the step is valued at the minimiser of <d, .> over [-1, 1] *)
  fst (wrun box_world frank_wolfe_program minit vs) 2%nat = box_lm (Q2R 1 * fst vs 1%nat + 0) /\
  List.length (g_cons (run_plan plan_ConvexIndicatorFunction
     (set_inf (inf_flag 3 (Some 2)) (fstate_of (par_at 3 2%Q) (mrun frank_wolfe_program minit) 0)))) = 6%nat /\
  all_satisfied (fst (wrun box_world frank_wolfe_program minit vs)) (snd (wrun box_world frank_wolfe_program minit vs))
    (run_plan plan_ConvexIndicatorFunction
       (set_inf (inf_flag 3 (Some 2)) (fstate_of (par_at 3 2%Q) (mrun frank_wolfe_program minit) 0))).
Proof.
  intros Hx0.
  assert (Hwf : mwf frank_wolfe_program minit = true) by (vm_compute; reflexivity).
  assert (Hpx : steps_ok box_world frank_wolfe_program = true) by reflexivity.
  assert (Hnd : Forall op_nodup frank_wolfe_program).
  { repeat constructor; cbn; try tauto; intros [H|[]]; discriminate. }
  split; [exact Hwf|]. split; [exact Hpx|]. split; [exact Hnd|].
  split; [vm_compute; reflexivity|]. split; [reflexivity|]. split; [vm_compute; reflexivity|].
  apply (run_satisfies_convex_indicator box_F (fun _ => 0 : R1) box_sel (0 : R1) box_min box_ext
           false (fun _ x => x) (no_prox_spec _ _ _)
           true box_lm (is_linopt_spec box_F box_lm (fun _ _ => eq_refl) box_is_linopt)
           frank_wolfe_program vs Hwf Hnd Hpx (Some 2) 2%Q box_member).
  - intros d Hd. injection Hd as <-. unfold Q2R. cbn. lra.
  - intros sm Hsm. vm_compute in Hsm. destruct Hsm as [<-|[<-|[]]]; cbn; unfold upd, box_lm; cbn;
      match goal with |- context [Rle_dec ?a ?b] => destruct (Rle_dec a b) end; unfold Q2R; cbn;
      destruct Hx0 as [Ha Hb]; change (V R1) with R in *; cbn in Ha, Hb; lra.
Qed.

(** * Inexact gradient methods

    [MInexact f p relative eps] models inexact_gradient_step: the oracle call at p, the fresh leaf dx0 and the
    accuracy constraint added to f.  Example: f(x) = x^2 with the inexact oracle d = 2x + eps (absolute) /
    d = (1 + eps) 2x (relative), both exactly at the accuracy. *)
Definition sq_D : @dfn R1 := @mkD R1 (fun x : R => x * x) (fun x : R => 2 * x).
Definition sq_ie : bool -> R -> R1 -> R1 := fun rel eps (x : R) => if rel then (1 + eps) * (2 * x) else 2 * x + eps.

Lemma sq_ie_spec : inexact_spec (dgrad sq_D) sq_ie.
Proof.
  intros rel eps x. change R in x. unfold sq_ie, sq_D, nrm2, vsub, vneg. destruct rel; cbn; right; ring.
Qed.
Lemma sq_D_stat : veq (dgrad sq_D (0 : R1)) vzero.
Proof. intro w. cbn. lra. Qed.
Lemma sq_D_ext : respects_veq sq_D.
Proof.
  intros x x' Hv. pose proof (Hv (1 : R1)) as H. cbn in H. change R in x, x'. assert (x = x') by lra. subst.
  split; [apply veq_refl|reflexivity].
Qed.

Lemma no_ls_spec {E : ips} (g : E -> E) (ls : E -> list E -> E) : ls_spec g false ls.
Proof. intros H. discriminate H. Qed.

Definition sq_inexact_world : @world R1 :=
  dfn_world sq_D (0 : R1) sq_D_stat sq_D_ext false (fun _ x => x) (no_prox_spec _ _ _) sq_ie sq_ie_spec
            false (fun x0 _ => x0) (no_ls_spec _ _).

(** x0 = Point(); x1, d0, f0 = inexact_gradient_step(x0, f, gamma, 1/2, 'absolute') *)
Definition inexact_program : list mop := [MFresh; MInexact 0 [(0%nat, 1%Q)] false (1 # 2)%Q].

Example inexact_gradient_example (vs : (nat -> R1) * (nat -> R)) :
  mwf inexact_program minit = true /\ steps_ok sq_inexact_world inexact_program = true /\
  List.length (m_samples (mrun inexact_program minit)) = 1%nat /\
  m_np (mrun inexact_program minit) = 3%nat /\
  (* the direction leaf is valued by the inexact oracle at the value of x0 *)
  fst (wrun sq_inexact_world inexact_program minit vs) 2%nat = sq_ie false (Q2R (1 # 2)) (Q2R 1 * fst vs 0%nat + 0) /\
  (* one constraint was added to the function, and it holds at the values of the run *)
  (exists c, m_cons (mrun inexact_program minit) = [(0%nat, c)] /\
             holds (fst (wrun sq_inexact_world inexact_program minit vs)) (snd (wrun sq_inexact_world inexact_program minit vs)) c).
Proof.
  split; [vm_compute; reflexivity|]. split; [reflexivity|]. split; [vm_compute; reflexivity|].
  split; [vm_compute; reflexivity|]. split; [reflexivity|].
  eexists. split; [reflexivity|].
  apply (world_constraints_hold sq_inexact_world inexact_program vs 0%nat);
    [vm_compute; reflexivity|reflexivity|left; reflexivity].
Qed.

(** * Exact line searches

    [MLineSearch f x0 dirs] models exact_linesearch_step: the fresh leaf x, the oracle call at it and the
    orthogonality constraints added to f.  Spec/World.v only SPECIFIES the line search ([ls_orth]); for a
    differentiable function it is C08's theorem [linesearch_orthogonality] (Props/C08.v
    [C08_exact_linesearch_step_real]): a minimiser of F over x0 + span(ds) has its gradient orthogonal to
    x - x0 and to every direction. *)
Theorem is_linesearch_spec {E : ips} (F : @dfn E) (ls : E -> list E -> E) :
  StepsSpec.gateaux F -> StepsSpec.dfn_ext F ->
  (forall x0 ds, StepsSpec.is_linesearch F x0 ds (ls x0 ds)) ->
  ls_spec (dgrad F) true ls.
Proof.
  intros Hg He Hl _ x0 ds. cbn zeta.
  destruct (C08Real.linesearch_orthogonality F x0 ds (ls x0 ds) Hg He (Hl x0 ds)) as [Hd H0]. split.
  - rewrite inner_sym. exact H0.
  - intros d Hin. rewrite inner_sym. exact (Hd d Hin).
Qed.

(** Example: gradient descent with exact line search on f(x) = x^2: along any non-zero direction the exact
    minimiser is 0 *)
Definition sq_ls : R1 -> list R1 -> R1 := fun _ _ => (0 : R).
Lemma sq_ls_spec : ls_spec (dgrad sq_D) true sq_ls.
Proof. intros _ x0 ds. change R in x0. cbn. unfold sq_ls. split; [ring|]. intros d _. change R in d. ring. Qed.

Definition sq_ls_world : @world R1 :=
  dfn_world sq_D (0 : R1) sq_D_stat sq_D_ext false (fun _ x => x) (no_prox_spec _ _ _)
            (fun _ _ (x : R) => 2 * x) (exact_inexact_bound (fun _ (x : R1) => (dgrad sq_D x, dval sq_D x)) 0%nat)
            true sq_ls sq_ls_spec.

(** x0 = Point(); g0 = f.gradient(x0); x1, g1, f1 = exact_linesearch_step(x0, f, [g0]) *)
Definition linesearch_program : list mop :=
  [MFresh; MEval 0 [(0%nat, 1%Q)]; MLineSearch 0 [(0%nat, 1%Q)] [[(1%nat, 1%Q)]]].

Example linesearch_example (vs : (nat -> R1) * (nat -> R)) :
  mwf linesearch_program minit = true /\ steps_ok sq_ls_world linesearch_program = true /\
  Forall op_nodup linesearch_program /\
  List.length (m_samples (mrun linesearch_program minit)) = 2%nat /\
  List.length (m_cons (mrun linesearch_program minit)) = 2%nat /\
  (forall f c, In (f, c) (m_cons (mrun linesearch_program minit)) ->
     holds (fst (wrun sq_ls_world linesearch_program minit vs)) (snd (wrun sq_ls_world linesearch_program minit vs)) c) /\
  forall (L mu : R) (qL qmu : Q), 0 <= mu < L -> smooth_strongly_convex_member mu L sq_D -> Q2R qL = L -> Q2R qmu = mu ->
    all_satisfied (fst (wrun sq_ls_world linesearch_program minit vs)) (snd (wrun sq_ls_world linesearch_program minit vs))
      (run_plan plan_SmoothStronglyConvexFunction
         (fstate_of (fun p => match p with 0%nat => qL | 1%nat => qmu | _ => 0%Q end) (mrun linesearch_program minit) 0)).
Proof.
  assert (Hwf : mwf linesearch_program minit = true) by (vm_compute; reflexivity).
  assert (Hpx : steps_ok sq_ls_world linesearch_program = true) by reflexivity.
  assert (Hnd : Forall op_nodup linesearch_program).
  { repeat constructor; cbn; try tauto; intros [H|[]]; discriminate. }
  split; [exact Hwf|]. split; [exact Hpx|]. split; [exact Hnd|].
  split; [vm_compute; reflexivity|]. split; [vm_compute; reflexivity|]. split.
  - intros f c Hin. exact (world_constraints_hold sq_ls_world linesearch_program vs f c Hwf Hpx Hin).
  - intros L mu qL qmu Hr HF HL Hmu.
    exact (run_satisfies_smooth_strongly_convex mu L qmu qL sq_D (0 : R1) sq_D_stat sq_D_ext
             false (fun _ x => x) (no_prox_spec _ _ _) _ _ true sq_ls sq_ls_spec linesearch_program vs
             Hr HF HL Hmu Hwf Hnd Hpx).
Qed.
