(** C09, proximal methods: where the proximal operator of a world comes from, and a worked example.

    Spec/World.v only SPECIFIES the proximal operator of a function of the world ([prox_genuine]: the proximal
    point, with (x0 - prox)/gamma and the value there, is a genuine sample).  For a convex function F this is
    C08's theorem [prox_optimality] (Proofs/C08Real.v; Props/C08.v [C08_proximal_step_real]): if
    [res gamma x0] minimises gamma F + 1/2 |. - x0|^2 ([is_prox] of Spec/StepsSpec.v) then (x0 - res)/gamma is a
    subgradient of F at it.  Hence [fn_world] / [pfn_world] can be given the proximal operator of their function
    whenever it has one. *)
From Coq Require Import List QArith Reals Qreals Lra Arith Bool String.
From PV Require Import Base.IPS Model.Dict Model.Terms Model.Method Model.ClassGen Spec.Sem Spec.World Spec.Classes.
From PV Require Import Proofs.MethodLemmas Proofs.C04Lemmas Proofs.C03Core Proofs.C09Compose Proofs.C09ComposeAll.
From PV Require Spec.StepsSpec Proofs.C08Real.
From PV Require Import Gen.Classes.
Import ListNotations.
Local Open Scope R_scope.

(** a convex function with a proximal operator gives a world with [has_prox = true] *)
Theorem is_prox_spec {E : ips} (F : @fn E) (res : R -> E -> E) :
  StepsSpec.convex_fn F ->
  (forall gamma x0, 0 < gamma -> StepsSpec.is_prox F gamma x0 (res gamma x0)) ->
  prox_spec (genuine_sub F) (val F) true res.
Proof.
  intros Hc Hp _ gamma x0 Hg. split; [|reflexivity].
  exact (C08Real.prox_optimality F gamma x0 (res gamma x0) Hc Hg (Hp gamma x0 Hg)).
Qed.

(** ** Example: the proximal point method on f(x) = x^2 (real line); prox_{gamma f}(x0) = x0 / (1 + 2 gamma) *)
Definition sq_F : @fn R1 := @mkFn R1 (fun _ => True) (fun x : R => x * x).
Definition sq_sel : R1 -> R1 := fun x : R => 2 * x.
Definition sq_res : R -> R1 -> R1 := fun gamma (x0 : R) => x0 / (1 + 2 * gamma).

Lemma sq_subgrad (x : R1) : subgrad sq_F x (sq_sel x).
Proof.
  split; [exact I|]. intros y _. unfold sq_F, sq_sel, vsub, vneg. cbn. change R in x, y.
  pose proof (Rle_0_sqr (y - x)) as S. unfold Rsqr in S. lra.
Qed.
Lemma sq_min : subgrad sq_F (0 : R1) vzero.
Proof.
  split; [exact I|]. intros y _. unfold sq_F, vsub, vneg. cbn. change R in y.
  pose proof (Rle_0_sqr y) as S. unfold Rsqr in S. lra.
Qed.
Lemma sq_ext : fn_respects_veq sq_F.
Proof.
  intros x x' Hv. split; [auto|]. pose proof (Hv (1 : R1)) as H. cbn in H. unfold sq_F. cbn. change R in x, x'.
  assert (x = x') by lra. subst. reflexivity.
Qed.
Lemma sq_convex : StepsSpec.convex_fn sq_F.
Proof.
  intros x y t _ _ Ht. split; [exact I|]. unfold sq_F, seg, vsub, vneg. cbn. change R in x, y.
  pose proof (Rle_0_sqr (y - x)) as S. unfold Rsqr in S.
  assert (Hid : (1 - t) * (x * x) + t * (y * y) - (x + t * (y + -1 * x)) * (x + t * (y + -1 * x))
                = t * (1 - t) * ((y - x) * (y - x))) by ring.
  assert (0 <= t * (1 - t) * ((y - x) * (y - x))) by (apply Rmult_le_pos; [apply Rmult_le_pos; lra|exact S]).
  lra.
Qed.
Lemma sq_is_prox gamma (x0 : R1) : 0 < gamma -> StepsSpec.is_prox sq_F gamma x0 (sq_res gamma x0).
Proof.
  intros Hg. split; [exact I|]. intros y _. unfold sq_F, sq_res, nrm2, vsub, vneg. cbn. change R in x0, y.
  set (d := 1 + 2 * gamma). assert (Hd : 0 < d) by (unfold d; lra).
  (* gamma y^2 + 1/2 (y - x0)^2 - [gamma p^2 + 1/2 (p - x0)^2] = d/2 (y - p)^2 with p = x0/d *)
  assert (Hid : gamma * (y * y) + 1 / 2 * ((y + -1 * x0) * (y + -1 * x0))
                - (gamma * (x0 / d * (x0 / d)) + 1 / 2 * ((x0 / d + -1 * x0) * (x0 / d + -1 * x0)))
                = d / 2 * ((y - x0 / d) * (y - x0 / d))).
  { unfold d. field. lra. }
  pose proof (Rle_0_sqr (y - x0 / d)) as S. unfold Rsqr in S.
  assert (0 <= d / 2 * ((y - x0 / d) * (y - x0 / d))) by (apply Rmult_le_pos; lra).
  lra.
Qed.

Definition sq_world : @world R1 :=
  fn_world sq_F sq_sel sq_subgrad (0 : R1) sq_min sq_ext true sq_res (is_prox_spec sq_F sq_res sq_convex sq_is_prox).

(** x0 = Point(); x1, g1, f1 = proximal_step(x0, f, 1/2); x2, g2, f2 = proximal_step(x1, f, 1) *)
Definition prox_point_program : list mop :=
  [MFresh; MProx 0 [(0%nat, 1%Q)] (1 # 2)%Q; MProx 0 [(0%nat, 1%Q); (1%nat, (-1 # 2)%Q)] 1%Q].

Example proximal_point_example (vs : (nat -> R1) * (nat -> R)) :
  mwf prox_point_program minit = true /\ prox_ok sq_world prox_point_program = true /\
  Forall op_nodup prox_point_program /\
  List.length (m_samples (mrun prox_point_program minit)) = 2%nat /\
  List.length (g_cons (run_plan plan_ConvexFunction (fstate_of (fun _ => 0%Q) (mrun prox_point_program minit) 0))) = 2%nat /\
  (* the second recorded point is prox_1 (prox_{1/2} (x0)) = x0 / 6 whatever the starting point x0 = fst vs 0 *)
  (forall x g fx, nth_error (m_samples (mrun prox_point_program minit)) 1 = Some (0%nat, (x, g, fx)) ->
     evalP (fst (wrun sq_world prox_point_program minit vs)) x = fst vs 0%nat / 6) /\
  all_satisfied (fst (wrun sq_world prox_point_program minit vs)) (snd (wrun sq_world prox_point_program minit vs))
    (run_plan plan_ConvexFunction (fstate_of (fun _ => 0%Q) (mrun prox_point_program minit) 0)).
Proof.
  assert (Hwf : mwf prox_point_program minit = true) by (vm_compute; reflexivity).
  assert (Hpx : prox_ok sq_world prox_point_program = true) by reflexivity.
  assert (Hnd : Forall op_nodup prox_point_program).
  { repeat constructor; cbn; try tauto; intros [H|[]]; discriminate. }
  split; [exact Hwf|]. split; [exact Hpx|]. split; [exact Hnd|].
  split; [vm_compute; reflexivity|]. split; [vm_compute; reflexivity|]. split.
  - intros x g fx H. vm_compute in H. injection H as <- _ _.
    cbn. unfold upd, sq_res. cbn. unfold Q2R. cbn. field.
  - exact (run_satisfies_convex sq_F sq_sel sq_subgrad (0 : R1) sq_min sq_ext true sq_res
             (is_prox_spec sq_F sq_res sq_convex sq_is_prox) prox_point_program vs Hwf Hnd Hpx).
Qed.
