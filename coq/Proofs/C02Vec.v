(** Vectors of rationals (what [Point.eval] returns) read in the inner-product space [Rn n], and the
    homomorphism lemmas for the cache-free computations of Model/Eval.v:
      [point_compute] = evalP, [expr_compute] = evalE  (Spec/Sem.v), over the valuation given by the
    leaf tables of the state. *)
From Coq Require Import List QArith Reals Qreals Lra Bool Arith Lia.
From PV Require Import Base.IPS Model.Dict Model.Terms Model.Eval Spec.Sem Spec.GramSem
  Proofs.DictLemmas Proofs.SemLemmas.
Import ListNotations.
Local Open Scope R_scope.

Lemma Q2R_0 : Q2R 0 = 0. Proof. apply RMicromega.Q2R_0. Qed.

Definition vecR (v : list Q) : nat -> R := fun i => Q2R (nth i v 0%Q).

Lemma vecR_nil i : vecR [] i = 0.
Proof. unfold vecR. destruct i; cbn [nth]; apply Q2R_0. Qed.
Lemma vecR_cons_0 x v : vecR (x :: v) 0 = Q2R x.
Proof. reflexivity. Qed.
Lemma vecR_cons_S x v i : vecR (x :: v) (S i) = vecR v i.
Proof. reflexivity. Qed.

Lemma vecR_zipadd a : forall b, length a = length b -> forall i, vecR (zipadd a b) i = vecR a i + vecR b i.
Proof.
  induction a as [|x a IH]; intros [|y b] H i; cbn [length] in H; try discriminate.
  - cbn [zipadd]. rewrite vecR_nil. lra.
  - cbn [zipadd]. destruct i as [|i].
    + rewrite !vecR_cons_0, Q2R_plus. reflexivity.
    + rewrite !vecR_cons_S. apply IH. lia.
Qed.

Lemma length_zipadd a : forall b, length a = length b -> length (zipadd a b) = length a.
Proof.
  induction a as [|x a IH]; intros [|y b] H; cbn [length] in H; try discriminate; cbn [zipadd length].
  - reflexivity.
  - rewrite IH by lia. reflexivity.
Qed.

Lemma length_vscale w v : length (vscale w v) = length v.
Proof. apply map_length. Qed.

Lemma vecR_vscale w v : forall i, vecR (vscale w v) i = Q2R w * vecR v i.
Proof.
  induction v as [|x v IH]; intro i; cbn [vscale map].
  - rewrite vecR_nil. lra.
  - destruct i as [|i].
    + rewrite !vecR_cons_0, Q2R_mult. reflexivity.
    + rewrite !vecR_cons_S. apply IH.
Qed.

Lemma vecR_repeat0 m : forall i, vecR (repeat 0%Q m) i = 0.
Proof.
  induction m as [|m IH]; intro i; cbn [repeat].
  - apply vecR_nil.
  - destruct i as [|i]; [rewrite vecR_cons_0; apply Q2R_0|rewrite vecR_cons_S; apply IH].
Qed.

Lemma dotn_shift k u v :
  dotn (S k) u v = u 0%nat * v 0%nat + dotn k (fun i => u (S i)) (fun i => v (S i)).
Proof.
  induction k as [|k IH].
  - cbn [dotn]. lra.
  - change (dotn (S (S k)) u v) with (dotn (S k) u v + u (S k) * v (S k)).
    rewrite IH. cbn [dotn]. lra.
Qed.

Lemma dotl_dotn a : forall b, length a = length b -> Q2R (dotl a b) = dotn (length a) (vecR a) (vecR b).
Proof.
  induction a as [|x a IH]; intros [|y b] H; cbn [length] in H; try discriminate.
  - cbn. apply Q2R_0.
  - cbn [dotl length]. rewrite Q2R_plus, Q2R_mult, dotn_shift, !vecR_cons_0.
    rewrite (IH b) by lia. reflexivity.
Qed.

(** bilinearity of the list dot product (stated directly on lists, for readers of the model) *)
Lemma dotl_sym a : forall b, (dotl a b == dotl b a)%Q.
Proof.
  induction a as [|x a IH]; intros [|y b]; cbn [dotl]; try reflexivity.
  rewrite IH. ring.
Qed.
Lemma dotl_zipadd_l a : forall b c, length a = length b -> length a = length c ->
  (dotl (zipadd a b) c == dotl a c + dotl b c)%Q.
Proof.
  induction a as [|x a IH]; intros [|y b] [|z c] H1 H2; cbn [length] in *; try discriminate; cbn [zipadd dotl].
  - ring.
  - rewrite IH by lia. ring.
Qed.
Lemma dotl_vscale_l w a : forall c, (dotl (vscale w a) c == w * dotl a c)%Q.
Proof.
  induction a as [|x a IH]; intros [|z c]; cbn [vscale map dotl]; try ring.
  fold (vscale w a). rewrite IH. ring.
Qed.

(** [Rn n] computes pointwise *)
Lemma Rn_vadd n (u v : Rn n) i : (vadd u v : nat -> R) i = (u : nat -> R) i + (v : nat -> R) i.
Proof. reflexivity. Qed.
Lemma Rn_vscal n a (u : Rn n) i : (vscal a u : nat -> R) i = a * (u : nat -> R) i.
Proof. reflexivity. Qed.
Lemma Rn_vzero n i : (@vzero (Rn n) : nat -> R) i = 0.
Proof. reflexivity. Qed.
Lemma Rn_inner n (u v : Rn n) : inner u v = dotn n u v.
Proof. reflexivity. Qed.

(** ** the valuation read off the leaf tables *)
Definition lvec (st : est) (k : nat) : list Q :=
  match nth_error (lpv st) k with Some (Some v) => v | _ => [] end.
Definition lnum (st : est) (e : nat) : Q :=
  match nth_error (lev st) e with Some (Some q) => q | _ => 0%Q end.
Definition rho_of (n : nat) (st : est) : nat -> Rn n := fun k => vecR (lvec st k).
Definition phi_of (st : est) : nat -> R := fun e => Q2R (lnum st e).

Lemma rho_of_eq n st k i : (rho_of n st k : nat -> R) i = vecR (lvec st k) i.
Proof. reflexivity. Qed.

(** every assigned leaf point has a vector of length [n] (after a solve: [n] = number of leaf points
    at that solve, pep.py 887: [points_values] is the n x n factor R of a QR decomposition) *)
Definition solved (n : nat) (st : est) : Prop :=
  forall i v, nth_error (lpv st) i = Some (Some v) -> length v = n.

Lemma leafP_Ok st k v : leafP st k = Ok v -> nth_error (lpv st) k = Some (Some v) /\ lvec st k = v.
Proof.
  unfold leafP, lvec. destruct (nth_error (lpv st) k) as [[u|]|]; try discriminate.
  intros [= ->]. auto.
Qed.
Lemma leafE_Ok st e q : leafE st e = Ok q -> lnum st e = q.
Proof.
  unfold leafE, lnum. destruct (nth_error (lev st) e) as [[u|]|]; try discriminate.
  intros [= ->]. reflexivity.
Qed.

Section Hom.
  Variable n : nat.
  Variable st : est.
  Hypothesis Hsol : solved n st.

  Notation rho := (rho_of n st).
  Notation phi := (phi_of st).

  (** Point.eval of a derived point *)
  Lemma point_sum_hom : forall d acc r,
    (forall a, acc = Some a -> length a = n) -> point_sum st acc d = Ok r ->
    match r with
    | Some v => length v = n /\
                forall i, vecR v i = (match acc with Some a => vecR a i | None => 0 end)
                                     + (evalP rho d : nat -> R) i
    | None => acc = None /\ d = []
    end.
  Proof.
    induction d as [|[k w] d IH]; intros acc r Hacc H; cbn [point_sum] in H.
    - injection H as <-. destruct acc as [a|]; [|auto]. split; [apply Hacc; reflexivity|].
      intro i. cbn [evalP]. rewrite Rn_vzero. lra.
    - destruct (leafP st k) as [u|] eqn:Hk; [|discriminate].
      apply leafP_Ok in Hk as [Hn Hl]. pose proof (Hsol _ _ Hn) as Hlen.
      destruct acc as [a|].
      + pose proof (Hacc a eq_refl) as Ha. unfold np_add in H.
        rewrite length_vscale, Hlen, Ha, Nat.eqb_refl in H.
        apply IH in H; [|intros a' [= <-]; rewrite length_zipadd; rewrite ?length_vscale; lia].
        destruct r as [v|]; [|destruct H; discriminate]. destruct H as [H1 H2]. split; [exact H1|]. intro i.
        rewrite H2, vecR_zipadd, vecR_vscale by (rewrite length_vscale; lia).
        cbn [evalP]. rewrite Rn_vadd, Rn_vscal, rho_of_eq, Hl. lra.
      + apply IH in H; [|intros a' [= <-]; rewrite length_vscale; exact Hlen].
        destruct r as [v|]; [|destruct H; discriminate]. destruct H as [H1 H2]. split; [exact H1|]. intro i.
        rewrite H2, vecR_vscale. cbn [evalP]. rewrite Rn_vadd, Rn_vscal, rho_of_eq, Hl. lra.
  Qed.

  (** the value is the combination, coordinate by coordinate, whatever [m]; it has [n] coordinates
      unless the combination is empty, whose null vector has [m] coordinates *)
  Lemma point_compute_hom m d v : point_compute m st d = Ok v ->
    (forall i, vecR v i = (evalP rho d : nat -> R) i)
    /\ (d <> [] -> length v = n) /\ (d = [] -> length v = m).
  Proof.
    unfold point_compute. destruct d as [|kw d].
    - cbn [point_sum]. intros [= <-]. split; [intro i; rewrite vecR_repeat0; cbn [evalP]; rewrite Rn_vzero; reflexivity|].
      split; [intro H; congruence|intros _; apply repeat_length].
    - destruct (point_sum st None (kw :: d)) as [r|] eqn:H; [|discriminate].
      apply point_sum_hom in H; [|intros a [=]]. destruct r as [u|].
      + intros [= <-]. destruct H as [H1 H2]. split; [intro i; rewrite H2; lra|].
        split; [intros _; exact H1|discriminate].
      + destruct H as [_ H]. discriminate.
  Qed.

  Lemma point_sum_total : forall d acc, (forall a, acc = Some a -> length a = n) ->
    (forall k, In k (keys d) -> exists v, leafP st k = Ok v) -> exists r, point_sum st acc d = Ok r.
  Proof.
    induction d as [|[k w] d IH]; intros acc Hacc Hk; cbn [point_sum].
    - eauto.
    - destruct (Hk k) as [u Hu]; [left; reflexivity|]. rewrite Hu.
      apply leafP_Ok in Hu as [Hn _]. pose proof (Hsol _ _ Hn) as Hlen.
      assert (Hk' : forall k', In k' (keys d) -> exists v, leafP st k' = Ok v)
        by (intros k' Hin; apply Hk; right; exact Hin).
      destruct acc as [a|].
      + unfold np_add. rewrite length_vscale, Hlen, (Hacc a eq_refl), Nat.eqb_refl.
        apply IH; [|exact Hk']. intros a' [= <-]. rewrite length_zipadd; rewrite ?length_vscale, ?(Hacc a eq_refl); lia.
      + apply IH; [|exact Hk']. intros a' [= <-]. rewrite length_vscale. exact Hlen.
  Qed.

  Lemma point_compute_total m d :
    (forall k, In k (keys d) -> exists v, leafP st k = Ok v) -> exists v, point_compute m st d = Ok v.
  Proof.
    intro Hk. unfold point_compute. destruct (point_sum_total d None) as [r ->]; [intros a [=]|exact Hk|].
    destruct r; eauto.
  Qed.

  Lemma key_val_hom k x : key_val st k = Ok x -> Q2R x = evalK rho phi k.
  Proof.
    destruct k as [e|i j|]; cbn [key_val evalK].
    - intro H. apply leafE_Ok in H. unfold phi_of. rewrite H. reflexivity.
    - destruct (leafP st i) as [vi|] eqn:Hi; [|discriminate].
      destruct (leafP st j) as [vj|] eqn:Hj; [|discriminate].
      apply leafP_Ok in Hi as [Hni Hli]. apply leafP_Ok in Hj as [Hnj Hlj].
      pose proof (Hsol _ _ Hni) as Li. pose proof (Hsol _ _ Hnj) as Lj.
      unfold np_dot. rewrite Li, Lj, Nat.eqb_refl. intros [= <-].
      rewrite dotl_dotn by lia. rewrite Rn_inner, Li. unfold rho_of. rewrite Hli, Hlj. reflexivity.
    - intros [= <-]. apply Q2R_1.
  Qed.

  Lemma expr_sum_hom : forall d acc q, expr_sum st acc d = Ok q -> Q2R q = Q2R acc + evalE rho phi d.
  Proof.
    induction d as [|[k w] d IH]; intros acc q H; cbn [expr_sum] in H.
    - injection H as <-. cbn [evalE]. lra.
    - destruct (key_val st k) as [x|] eqn:Hk; [|discriminate].
      apply IH in H. rewrite H, Q2R_plus, Q2R_mult, (key_val_hom _ _ Hk). cbn [evalE]. lra.
  Qed.

  Lemma expr_compute_hom d q : expr_compute st d = Ok q -> Q2R q = evalE rho phi d.
  Proof. unfold expr_compute. intro H. apply expr_sum_hom in H. rewrite H, Q2R_0. lra. Qed.

  Lemma key_val_total k :
    (match k with KF e => exists q, leafE st e = Ok q
             | KG i j => (exists v, leafP st i = Ok v) /\ (exists v, leafP st j = Ok v)
             | K1 => True end) -> exists x, key_val st k = Ok x.
  Proof.
    destruct k as [e|i j|]; cbn [key_val].
    - intros [q ->]. eauto.
    - intros [[vi Hi] [vj Hj]]. rewrite Hi, Hj.
      apply leafP_Ok in Hi as [Hni _]. apply leafP_Ok in Hj as [Hnj _].
      unfold np_dot. rewrite (Hsol _ _ Hni), (Hsol _ _ Hnj), Nat.eqb_refl. eauto.
    - eauto.
  Qed.

  Definition key_assigned (k : ekey) : Prop :=
    match k with KF e => exists q, leafE st e = Ok q
            | KG i j => (exists v, leafP st i = Ok v) /\ (exists v, leafP st j = Ok v)
            | K1 => True end.

  Lemma expr_sum_total : forall d acc, (forall k, In k (keys d) -> key_assigned k) ->
    exists q, expr_sum st acc d = Ok q.
  Proof.
    induction d as [|[k w] d IH]; intros acc Hk; cbn [expr_sum].
    - eauto.
    - destruct (key_val_total k) as [x Hx]; [apply Hk; left; reflexivity|]. rewrite Hx.
      apply IH. intros k' Hin. apply Hk. right. exact Hin.
  Qed.
End Hom.

(** ** Gram reading: if the leaf vectors reproduce a matrix [Gp] (hypothesis about numpy's eigh / QR,
    measured by the harness on every solve) the value of a dictionary at the instance is its value at
    [(Gp, F)] -- what the solver saw, with [Gp] the PSD projection of its Gram matrix. *)
Lemma evalE_evalGF (E : ips) (rho : nat -> E) (phi : nat -> R) (Gp : nat -> nat -> R) (d : edict) :
  (forall i j, In (KG i j) (keys d) -> inner (rho i) (rho j) = Gp i j) ->
  evalE rho phi d = evalGF Gp phi d.
Proof.
  induction d as [|[k w] d IH]; intro H; cbn [evalE evalGF]; [reflexivity|].
  rewrite IH by (intros i j Hin; apply H; right; exact Hin). f_equal. f_equal.
  destruct k as [e|i j|]; cbn [evalK evalKGF]; try reflexivity.
  apply H. left. reflexivity.
Qed.
